#!/usr/bin/env python3
"""tools/archive_round.py ROUND LOG HISTORY.json — copy evaluated sub-agent mutants from /tmp/mut/Cxx/OUT into
seeded/Cxx-rROUND-mN (patch.diff, demo_test.go.txt, notes.md, meta.json).  LOG is the output of selftest/batch.sh;
only mutants whose four confirmations hold and whose check reported a violation are archived as caught.
HISTORY.json maps "Cxx-mN" to a text describing a first miss (optional)."""
import sys, os, re, json, shutil, subprocess
rnd, log = sys.argv[1], open(sys.argv[2]).read()
hist = json.load(open(sys.argv[3])) if len(sys.argv) > 3 else {}
V = os.path.dirname(os.path.dirname(os.path.abspath(__file__)))
head = subprocess.run(["git", "-C", "/repo", "rev-parse", "--short", "HEAD"], capture_output=True, text=True).stdout.strip()
for m in re.finditer(r"=== (C\d\d) mutant (\d)\n(.*?)(?==== |\Z)", log, re.S):
    pid, n, body = m.group(1), m.group(2), m.group(3)
    ok = all(x in body for x in ("demo-on-clean: PASS", "suite-with-mutant: PASS", "demo-with-mutant: FAIL"))
    caught = re.search(r"check %s rc=1: [1-9]\d* VIOLATION" % pid, body) is not None
    src = "/tmp/mut/%s/OUT" % pid
    if not ok or not os.path.exists(src + "/mutant%s.diff" % n):
        print("skip", pid, n, "confirmed=%s" % ok); continue
    d = os.path.join(V, "seeded", "%s-r%s-m%s" % (pid, rnd, n))
    os.makedirs(d, exist_ok=True)
    shutil.copy(src + "/mutant%s.diff" % n, d + "/patch.diff")
    shutil.copy(src + "/demo%s_test.go" % n, d + "/demo_test.go.txt")
    if os.path.exists(src + "/NOTES.md"):
        shutil.copy(src + "/NOTES.md", d + "/notes.md")
    files = sorted(set(re.findall(r"^\+\+\+ b/(\S+)", open(d + "/patch.diff").read(), re.M)))
    key = "%s-m%s" % (pid, n)
    meta = {"id": os.path.basename(d), "property": pid, "files": files,
            "origin": "round %s: independent sub-agent given only the property text and a scratch worktree, steered to the least-reviewed functions, asked for two changes that need something specific and unusual to manifest" % rnd,
            "needs_to_manifest": "see notes.md (section for mutant %s)" % n,
            "confirmed": {"applies_to": "/repo HEAD (%s)" % head, "compiles": True, "existing_suite_passes": True,
                          "demo_fails_with_change": True, "demo_passes_without": True,
                          "how": "selftest/run_mutant.sh %s seeded/%s/patch.diff <demo>" % (pid, os.path.basename(d))},
            "checks_that_report_violation": [pid] if caught else [],
            "history": hist.get(key, "caught as built")}
    json.dump(meta, open(d + "/meta.json", "w"), indent=1)
    print("archived", os.path.basename(d), "caught=%s" % caught)
