#!/usr/bin/env python3
"""Regenerates the table of DESIGN.md §0.6 from seeded/*/meta.json."""
import json, os, re, glob
V = os.path.dirname(os.path.dirname(os.path.abspath(__file__)))
rows = []
def key(d):
    m = re.match(r"(C\d\d)(?:-r(\d))?-m(\d)", d)
    return (m.group(1), int(m.group(2) or 1), int(m.group(3)))
for d in sorted((os.path.basename(os.path.dirname(p)) for p in glob.glob(V + "/seeded/*/meta.json")), key=key):
    m = json.load(open("%s/seeded/%s/meta.json" % (V, d)))
    rows.append("| %s | %s | %s | %s |" % (m["id"], ", ".join(m["files"]), " ".join("+" + c for c in m["checks_that_report_violation"]) or "none", m["history"]))
p = V + "/DESIGN.md"; s = open(p).read()
head = "| id | files | property checks reporting a violation | history |\n|---|---|---|---|\n"
a = s.index(head) + len(head)
b = s.index("\n\n", a)
s = s[:a] + "\n".join(rows) + s[b:]
open(p, "w").write(s)
print(len(rows), "rows")
