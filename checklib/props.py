"""Per-property configuration: operation families and budgets of the correspondence, the Lean
module holding the property's theorems, and the wording that goes into the evidence."""

# (family, quick_n, thorough_n) ; grids ignore n except for their sampled tails
PROPS = {
    "C01": dict(fams=[("encgrid", 0, 0), ("signgrid", 0, 0), ("s1", 1500, 60000), ("sm", 800, 30000), ("cs", 900, 30000), ("he", 500, 20000)],
                real=[("chain", 140, 6000)]),
    "C02": dict(fams=[("seqgrid", 40, 2000), ("tbsgrid", 0, 0), ("encgrid", 0, 0), ("v1", 2000, 100000), ("vm", 1000, 50000), ("s1", 800, 40000), ("sm", 500, 20000)],
                real=[("bigprot", 1, 1)]),
    "C03": dict(fams=[("tbsgrid", 0, 0), ("v1", 2500, 100000), ("vm", 1000, 50000), ("cs", 600, 30000), ("ecgrid", 0, 0), ("he", 600, 20000)],
                real=[("tamper", 200, 8000)]),
    "C04": dict(fams=[("seqgrid", 40, 2000), ("alggrid", 0, 0), ("taggrid", 0, 0), ("s1", 300, 20000), ("he", 200, 5000)]),
    "C05": dict(fams=[("depthgrid", 0, 0), ("tbsgrid", 0, 0), ("taggrid", 0, 0), ("dec", 6000, 600000), ("dechdr", 2000, 100000), ("hdrgrid", 0, 0)]),
    "C06": dict(fams=[("depthgrid", 0, 0), ("tbsgrid", 0, 0), ("dec", 2500, 300000), ("use", 2500, 200000), ("keygrid", 600, 60000), ("hist", 400, 30000),
                      ("dechdr", 800, 50000), ("hacc", 600, 30000)]),
    "C07": dict(fams=[("tbsgrid", 0, 0), ("depthgrid", 0, 0), ("v1", 3000, 200000), ("vm", 1500, 100000), ("dec", 1500, 100000), ("reenc", 500, 20000)],
                real=[("foreign", 100, 5000), ("bigprot", 1, 1)]),
    "C08": dict(fams=[("encgrid", 0, 0), ("signgrid", 0, 0), ("hdrgrid", 0, 0), ("depthgrid", 0, 0), ("enc", 3000, 300000), ("s1", 800, 40000), ("sm", 400, 20000), ("cs", 400, 20000),
                      ("keyrt", 200, 3000), ("he", 300, 10000)]),
    "C09": dict(fams=[("seqgrid", 40, 2000), ("tbsgrid", 0, 0), ("hdrgrid", 0, 0), ("reenc", 4000, 400000)]),
    "C10": dict(fams=[("tbsgrid", 0, 0), ("cs", 4000, 300000), ("dec", 1500, 60000)], real=[("bigprot", 1, 1)]),
    "C11": dict(fams=[("signgrid", 0, 0), ("seqgrid", 20, 1000), ("sm", 600, 60000), ("vm", 600, 60000)]),
    "C12": dict(fams=[("taggrid", 0, 0), ("he", 3000, 200000)]),
    "C13": dict(fams=[("seqgrid", 40, 2000), ("tbsgrid", 0, 0), ("taggrid", 0, 0), ("hdrgrid", 0, 0), ("enc", 1000, 100000), ("dechdr", 1000, 100000), ("hacc", 400, 20000)]),
    "C14": dict(fams=[("encgrid", 0, 0), ("keyrt", 600, 30000), ("keygrid", 300, 30000)], real=[("keysv", 60, 3000)]),
    "C15": dict(fams=[("keygrid", 1500, 150000), ("taggrid", 0, 0)]),
    "C16": dict(fams=[("ecgrid", 0, 0), ("ecfault", 0, 0)]),
    "C17": dict(fams=[("newgrid", 0, 0)], real=[("digest", 40, 1000)]),
    "C18": dict(fams=[("seqgrid", 40, 2000), ("encgrid", 0, 0), ("v1", 800, 20000), ("vm", 400, 10000), ("cs", 500, 10000), ("he", 300, 5000),
                      ("keygrid", 100, 3000), ("enc", 500, 10000)],
                real=[("conc", 60, 2000)]),
    "C19": dict(fams=[("seqgrid", 40, 2000), ("hist", 3000, 300000)]),
    "C20": dict(fams=[("faultgrid", 0, 0), ("seqgrid", 40, 2000), ("ecfault", 0, 0), ("s1", 500, 30000), ("sm", 500, 30000), ("cs", 300, 10000),
                      ("he", 200, 5000)],
                real=[("entropy", 80, 3000)]),
}

TRUSTED_BASE = [
    "Lean 4.33.0 kernel (theorems re-checked by `lake build`; thorough tier also leanchecker)",
    "axioms used by the theorems: subset of {propext, Quot.sound, Classical.choice} (listed per theorem); no sorry/admit/native_decide/bv_decide/own axioms",
    "fact extractor harness/cmd/extract (go/ast) regenerating CoseModel/Generated/Facts.lean from /repo (constants, prefixes, context strings, decision tables, panic/write-site inventories, statement lists of the crypto wrapper functions); per-property baselines in CoseProofs/Ties/Cxx.lean, compared by rfl theorems",
    "correspondence check: Go harness cosedrive (public API of /repo only) vs compiled Lean model cosemodel, same operation lines, canonicalised outputs diffed",
    "hand-written model of fxamacker/cbor v2.5.0, math/big, Go map semantics (validated by the correspondence only)",
    "crypto primitives are parameters: message-level theorems under Matches/Unique hypotheses on an abstract Signer/Verifier (transparent scheme sig=0x01||keyid||content in both Go and Lean for the correspondence); the built-in ECDSA/RSA-PSS/Ed25519 signer and verifier objects are modelled as wrappers over an arbitrary primitive (CoseModel/Signers.lean) and Matches is derived from correctness of the primitive; Go stdlib crypto trusted in the real-algorithm sweeps",
]

ASSUMPTIONS = [
    "the Lean model mirrors the Go code on the modelled region; checked by differential execution on every run, not proved",
    "inputs the model marks `unmodelled` (CBOR tags inside header values, big numbers, float/bstr map keys) are neither proved nor compared; their count is reported",
    "computational security of ECDSA/RSA-PSS/Ed25519 is not expressible; theorems about real algorithms are under explicit Scheme hypotheses",
]


# additional theorem modules per property (namespace Cxx), beyond CoseProofs.Props.Cxx
DEEP = {
    "C01": ["CoseProofs.Deep.Chain", "CoseProofs.Deep.WireClosure", "CoseProofs.Deep.Signers", "CoseProofs.Deep.SignWireClosure", "CoseProofs.Deep.NestedBuckets", "CoseProofs.Deep.NestedClosures", "CoseProofs.Deep.CsigRoundTrip", "CoseProofs.Deep.CsigClosures", "CoseProofs.Ties.C01"],
    "C02": ["CoseProofs.Deep.Tbs", "CoseProofs.Ties.C02"],
    "C03": ["CoseProofs.Deep.Tbs", "CoseProofs.Deep.Tamper", "CoseProofs.Deep.Signers", "CoseProofs.Ties.C03"],
    "C04": ["CoseProofs.Deep.Tamper", "CoseProofs.Deep.AlgWire", "CoseProofs.Deep.SignClear", "CoseProofs.Ties.C04"],
    "C05": ["CoseProofs.Deep.TagScan", "CoseProofs.Deep.Reencode", "CoseProofs.Deep.Accept", "CoseProofs.Deep.SignMsg", "CoseProofs.Deep.NestedRoundTrip", "CoseProofs.Ties.C05"],
    "C06": ["CoseProofs.Deep.NoPanic", "CoseProofs.Ties.C06"],
    "C07": ["CoseProofs.Deep.TagScan", "CoseProofs.Deep.Accept", "CoseProofs.Deep.Verifies"],
    "C08": ["CoseProofs.Deep.Headers", "CoseProofs.Deep.RoundTrip", "CoseProofs.Deep.NestedRoundTrip", "CoseProofs.Deep.NestedBuckets", "CoseProofs.Deep.CsigRoundTrip"],
    "C09": ["CoseProofs.Deep.Reencode", "CoseProofs.Deep.SignMsg", "CoseProofs.Deep.ClearRaw", "CoseProofs.Deep.NestedClosures", "CoseProofs.Deep.CsigClosures", "CoseProofs.Deep.SignClear"],
    "C11": ["CoseProofs.Deep.SignMsg", "CoseProofs.Props.C20", "CoseProofs.Ties.C11"],
    "C10": ["CoseProofs.Deep.Tbs", "CoseProofs.Deep.Tamper", "CoseProofs.Ties.C10"],
    "C12": ["CoseProofs.Deep.Keys", "CoseProofs.Deep.Chain", "CoseProofs.Deep.WireClosure", "CoseProofs.Deep.NestedClosures", "CoseProofs.Ties.C12"],
    "C13": ["CoseProofs.Deep.TagScan", "CoseProofs.Deep.Headers", "CoseProofs.Deep.Verifies", "CoseProofs.Ties.C13"],
    "C14": ["CoseProofs.Deep.Keys", "CoseProofs.Deep.KeyRoundTrip", "CoseProofs.Ties.C14"],
    "C15": ["CoseProofs.Deep.TagScan", "CoseProofs.Deep.Keys", "CoseProofs.Deep.KeyRoundTrip", "CoseProofs.Ties.C15"],
    "C17": ["CoseProofs.Deep.Signers", "CoseProofs.Ties.C17"],
    "C20": ["CoseProofs.Deep.Tamper", "CoseProofs.Deep.Signers", "CoseProofs.Ties.C20"],
    "C18": ["CoseProofs.Ties.C18"],
    "C19": ["CoseProofs.Ties.C19"],
    "C16": ["CoseProofs.Deep.Signers", "CoseProofs.Ties.C16"],
}


def modules_for(pid):
    return ["CoseProofs.Props." + pid] + DEEP.get(pid, [])
