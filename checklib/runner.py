import os, re, sys, json, time, subprocess, hashlib, fcntl, tempfile, shutil

import props as P

VERIF = os.path.dirname(os.path.dirname(os.path.abspath(__file__)))
REPO = os.environ.get("VERIF_REPO", "/repo")
LEAN = os.path.join(VERIF, "lean")
if os.path.abspath(REPO) != "/repo":
    # self-test against a scratch tree: use a private copy of the Lean project so that the
    # regenerated facts of the scratch tree never disturb the real build directory
    LEAN = os.environ.get("VERIF_LEAN_COPY", "/tmp/verif-lean-" + hashlib.sha1(os.path.abspath(REPO).encode()).hexdigest()[:8])
    subprocess.run(["rsync", "-a", "--delete", os.path.join(VERIF, "lean") + "/", LEAN + "/"], check=True)
HARNESS = os.path.join(VERIF, "harness")
GOENV = dict(os.environ, GOFLAGS="-mod=mod", GOPROXY="off", GOSUMDB="off", GOTOOLCHAIN="local",
             GOMEMLIMIT="8GiB")
REPO_TAG = hashlib.sha1(os.path.abspath(REPO).encode()).hexdigest()[:8]
BIN = os.path.join(HARNESS, "bin")
COSEDRIVE = os.path.join(BIN, "cosedrive-" + REPO_TAG)
COSEDRIVE_RACE = os.path.join(BIN, "cosedrive-race-" + REPO_TAG)
EXTRACT = os.path.join(BIN, "extract")
MODEL = os.path.join(LEAN, ".lake", "build", "bin", "cosemodel")
LOCK = os.path.join(VERIF, ".build.lock")


def log(*a):
    print(*a, file=sys.stderr, flush=True)


class Lock:
    def __enter__(self):
        self.f = open(LOCK, "w")
        fcntl.flock(self.f, fcntl.LOCK_EX)
        return self

    def __exit__(self, *a):
        fcntl.flock(self.f, fcntl.LOCK_UN)
        self.f.close()


def sh(cmd, **kw):
    return subprocess.run(cmd, capture_output=True, text=True, **kw)


# ------------------------------------------------------------------ build steps

def go_modfile():
    """go.mod for the harness with the replace directive pointing at REPO."""
    src = open(os.path.join(HARNESS, "go.mod")).read()
    if os.path.abspath(REPO) == "/repo":
        shutil.copyfile(os.path.join(REPO, "go.sum"), os.path.join(HARNESS, "go.sum"))
        return []
    d = os.path.join(BIN, "mod-" + REPO_TAG)
    os.makedirs(d, exist_ok=True)
    open(os.path.join(d, "go.mod"), "w").write(src.replace("=> /repo", "=> " + os.path.abspath(REPO)))
    shutil.copyfile(os.path.join(REPO, "go.sum"), os.path.join(d, "go.sum"))
    return ["-modfile=" + os.path.join(d, "go.mod")]


def build_harness(race=False):
    os.makedirs(BIN, exist_ok=True)
    target = COSEDRIVE_RACE if race else COSEDRIVE
    tmp = target + ".tmp%d" % os.getpid()
    cmd = ["go", "build"] + go_modfile() + ["-tags", "verif"] + (["-race"] if race else []) + ["-o", tmp, "./cmd/cosedrive"]
    r = sh(cmd, cwd=HARNESS, env=GOENV)
    if r.returncode != 0:
        return r.stderr
    os.replace(tmp, target)
    return None


def build_extract():
    if os.path.exists(EXTRACT) and os.path.getmtime(EXTRACT) >= max(
            os.path.getmtime(os.path.join(HARNESS, "cmd", "extract", f)) for f in os.listdir(os.path.join(HARNESS, "cmd", "extract"))):
        return None
    tmp = EXTRACT + ".tmp%d" % os.getpid()
    r = sh(["go", "build", "-o", tmp, "./cmd/extract"], cwd=HARNESS, env=GOENV)
    if r.returncode != 0:
        return r.stderr
    os.replace(tmp, EXTRACT)
    return None


def regenerate_facts():
    """returns (regenerated: bool, note)"""
    err = build_extract()
    if err:
        return False, "extractor build failed: " + err[-400:]
    r = sh([EXTRACT, REPO])
    dst = os.path.join(LEAN, "CoseModel", "Generated", "Facts.lean")
    if r.returncode != 0:
        return False, "extractor: " + r.stderr[-400:]
    old = open(dst).read() if os.path.exists(dst) else None
    if old != r.stdout:
        os.makedirs(os.path.dirname(dst), exist_ok=True)
        open(dst, "w").write(r.stdout)
    return True, r.stderr.strip()


FORBIDDEN = re.compile(r"\bsorry\b|\badmit\b|^\s*axiom\s|native_decide|bv_decide|implemented_by|\bunsafe\s|maxHeartbeats\s+0\b", re.M)


def strip_comments(src):
    src = re.sub(r"/-.*?-/", "", src, flags=re.S)
    return re.sub(r"--.*", "", src)


def module_path(mod):
    return os.path.join(LEAN, *mod.split(".")) + ".lean"


def source_grep(pid):
    """forbidden constructs in the model, the spec, the lemma library and the property's modules"""
    files = [os.path.join(LEAN, "CoseSpec.lean")]
    for root in ("CoseModel", os.path.join("CoseProofs", "Lemmas")):
        for dp, _, fs in os.walk(os.path.join(LEAN, root)):
            files += [os.path.join(dp, f) for f in fs if f.endswith(".lean")]
    files += [module_path(m) for m in P.modules_for(pid)]
    bad = []
    for p in files:
        if os.path.exists(p) and FORBIDDEN.search(strip_comments(open(p).read())):
            bad.append(os.path.relpath(p, LEAN))
    return bad


def lake_build(targets):
    r = sh(["lake", "build"] + targets, cwd=LEAN)
    return r.returncode == 0, (r.stdout + r.stderr)


def audit(pid):
    """list the theorems of namespace <pid> with their axioms: [(name, [axioms])]"""
    src = "import CoseProofs.Audit\n" + "".join("import %s\n" % m for m in P.modules_for(pid)) + "#audit %s\n" % pid
    with tempfile.NamedTemporaryFile("w", suffix=".lean", dir=LEAN, delete=False) as f:
        f.write(src)
        path = f.name
    try:
        r = sh(["lake", "env", "lean", path], cwd=LEAN)
    finally:
        os.unlink(path)
    thms = []
    for line in r.stdout.splitlines():
        m = re.match(r"AUDIT (\S+) \[(.*)\]", line)
        if m:
            axs = [a for a in m.group(2).split(",") if a]
            thms.append((m.group(1), axs))
    return thms, r.stdout + r.stderr


ALLOWED_AXIOMS = {"propext", "Quot.sound", "Classical.choice"}

# ------------------------------------------------------------------ correspondence

KEEP = {
    "sign": {"algMismatch", "algNotFound", "missingPayload", "signer", "noSignatures"},
    "res": {"algMismatch", "algNotFound", "missingPayload", "signer", "noSignatures"},
    "c0": {"missingPayload", "signer"},
    "cf": {"algMismatch", "algNotFound", "missingPayload", "signer"},
    "ver": {"algMismatch", "algNotFound", "missingPayload", "emptySig", "noSignatures", "verification", "verifier"},
    "mver": {"algMismatch", "algNotFound", "missingPayload", "emptySig", "noSignatures", "verification", "verifier"},
    "v0": {"algMismatch", "algNotFound", "missingPayload", "emptySig", "noSignatures", "verification", "verifier"},
    "v1": {"algMismatch", "algNotFound", "missingPayload", "emptySig", "noSignatures", "verification", "verifier"},
    "ver2": {"algMismatch", "algNotFound", "missingPayload", "emptySig", "noSignatures", "verification", "verifier"},
}
ERRTOK = re.compile(r"\b(sign|res|c0|cf|ver2|ver|mver|v0|v1|enc)=err (\w+)")


def canon(line):
    """error classes are compared only where a property names them (DESIGN.md §4.2)"""
    def sub(m):
        field, cls = m.group(1), m.group(2)
        if field == "enc":
            return "enc=err"
        return "%s=err %s" % (field, cls if cls in KEEP[field] else "other")
    return ERRTOK.sub(sub, line)


def reconcile(impl, model):
    """substitute input classifications the model cannot compute (DESIGN.md §7 C15/C16)"""
    if "#oc=" in impl:
        # khist: one classification per successfully decoded key
        def fix(im, mo):
            out_i, out_m = [], []
            for a, b in zip(im.split(" "), mo.split(" ")):
                if "#oc=" in a:
                    a, oc = a.split("#oc=")
                    mm = re.search(r"OC\((ok:-?\d+)\)", b)
                    if mm:
                        b = b.replace(mm.group(0), mm.group(1) if oc == "t" else "err")
                out_i.append(a); out_m.append(b)
            return " ".join(out_i), " ".join(out_m)
        if len(impl.split(" ")) == len(model.split(" ")):
            impl, model = fix(impl, model)
    if "oc=" in impl and "oc=*" in model:
        oc = re.search(r"oc=(\S)", impl).group(1)
        impl = re.sub(r"oc=\S", "oc=*", impl)
        mm = re.search(r"OC\((ok:-?\d+)\)", model)
        if mm:
            model = model.replace(mm.group(0), mm.group(1) if oc == "t" else "err")
    if model == "sigres=?oracle" and impl in ("sigres=ok oracle=ok", "sigres=err verification oracle=err"):
        model = impl
    return impl, model


def run_lines(cmd, text, cwd=None, env=None, timeout=3600):
    r = subprocess.run(cmd, input=text, capture_output=True, text=True, cwd=cwd, env=env, timeout=timeout)
    return r.stdout.splitlines(), r.stderr, r.returncode


def exec_impl(ops, race=False):
    binp = COSEDRIVE_RACE if race else COSEDRIVE
    text = "\n".join(ops) + "\n"
    out, err, rc = run_lines([binp, "exec"], text, cwd=HARNESS, env=GOENV)
    if len(out) < len(ops):
        # the process died (a crash inside the library that recover() cannot catch): re-run the
        # remaining operations one at a time
        done = len(out)
        for op in ops[done:]:
            o, e, rc1 = run_lines([binp, "exec"], op + "\n", cwd=HARNESS, env=GOENV, timeout=120)
            out.append(o[0] if o else "crash")
    return out, err


def exec_model(ops):
    text = "\n".join(ops) + "\n"
    out, err, rc = run_lines([MODEL], text)
    if len(out) != len(ops):
        raise RuntimeError("model driver produced %d lines for %d ops: %s" % (len(out), len(ops), err[-300:]))
    return out


def gen_family(fam, n, seed):
    r = sh([COSEDRIVE, "gen", fam, str(n), str(seed)], cwd=HARNESS, env=GOENV)
    return [l for l in r.stdout.splitlines() if l and not l.startswith("#")]


TRIVIAL = re.compile(r"^(err|dec=err|parent=err|decerr|skip|bad-op)$")


def impl_predicates(pid, op, impl):
    """property predicates on the implementation's own output (independent of the model)"""
    hits = []
    f = op.split()
    if impl in ("panic", "timeout", "crash") or " dec=panic" in impl:
        hits.append(("C06", "implementation panicked / timed out"))
    if "MUTATED" in impl:
        hits.append(("C18", "a read-only operation modified its argument"))
    if "bytes-with-error" in impl or "value-with-error" in impl or "message-with-error" in impl:
        hits.append(("C20", "bytes / value returned together with an error"))
    if f and f[0] == "keyuse" and impl.startswith("dec=ok") and (" redec=err" in impl or " redec=unstable" in impl or " reenc=err" in impl):
        hits.append(("C15", "an accepted COSE_Key does not re-encode to bytes that decode to the same canonical bytes"))
    if "BAD-STRUCTURE(" in impl:
        hits.append(("C05", "a decoder accepted an input that does not have the structure C05 demands: " + impl[impl.index("BAD-STRUCTURE("):][:120]))
    if "TAGGED-LABEL" in impl:
        iskey = op.startswith("dec key") or op.startswith("keyuse")
        hits.append(("C15" if iskey else "C05", "a decoder accepted a label that is a tagged item, not an integer or text"))
        if not iskey:
            hits.append(("C13", "a decoder accepted a label that is a tagged item, not an integer or text"))
    if "BAD-KEY(" in impl:
        hits.append(("C15", "the key decoder accepted a COSE_Key that C15 rules out: " + impl[impl.index("BAD-KEY("):][:60]))
    if "ALG-NOT-ON-WIRE" in impl:
        hits.append(("C04", "a verifier was invoked although the protected bytes as received do not name its algorithm as a plain integer: " + impl[impl.index("ALG-NOT-ON-WIRE"):][:40]))
    if "empty-signature-emitted" in impl:
        hits.append(("C20", "a structure with an empty signature was encoded"))
    if impl.startswith("nondet"):
        hits.append(("C08", "two encodings of one value differ"))
    f = op.split()
    if f and f[0] in ("s1", "sm", "cs") and "sign=ok" in impl:
        # same transparent key on both sides: whatever was signed must verify (C01)
        if f[0] == "s1" and f[4] == f[5] or f[0] == "sm" and f[3] == f[4] or f[0] == "cs" and f[7] == f[8]:
            if re.search(r"\b(mver|ver)=err", impl) or " dec=err" in impl:
                # an empty signature from a faulty signer is not a successful signing (C20 covers it)
                if "F:" not in op:
                    hits.append(("C01", "signing succeeded but verification with the matching key failed"))
    if f and f[0] == "he" and impl.startswith("sign=ok") and f[6] == f[7] and "F:" not in op:
        if " ver=ok" not in impl:
            hits.append(("C12", "SignHashEnvelope produced an envelope VerifyHashEnvelope refuses"))
        if "caller=changed" in impl:
            hits.append(("C12", "caller's header maps were modified"))
    if f and f[0] == "enc" and impl.startswith("ok") and "redec=ok" not in impl:
        # `!rt`: the generator built a value of the supported data model (binding even where the model is silent)
        hits.append(("C08" if f[-1] == "!rt" else "C08*", "encoder output refused by the corresponding decoder"))
        if f[-1] == "!rt" and f[1] == "key":
            hits.append(("C14", "a serialised COSE_Key with extra parameters is refused by the key decoder"))
    if f and f[0] == "reenc" and f[3] in ("clear", "trunc"):
        # C09: after discarding the retained raw bytes the re-encoding is a canonical form:
        # it decodes, and decoding / re-encoding it again changes nothing
        parts = impl.split()
        hexes = [x for x in parts if x not in ("ok", "decerr", "encerr")]
        if hexes and (parts[-1] in ("decerr", "encerr") or any(h != hexes[0] for h in hexes[1:])):
            hits.append(("C09", "re-encoding with the raw header bytes discarded is not a fixpoint"))
    if len(f) > 1 and f[-1] == "!wf" and not ("dec=ok" in impl and "ver=ok" in impl):
        hits.append(("C07", "a conforming, correctly signed message was refused"))
    return hits


def concrete(pid, op, impl, model):
    """is this disagreement a concrete contradiction of property `pid` (impl vs proven model)?"""
    io, mo = impl.split(" ")[0], model.split(" ")[0]
    if pid == "C05":
        acc_i = io in ("ok", "dec=ok") or impl.startswith("ok:")
        acc_m = mo in ("ok", "dec=ok") or model.startswith("ok:")
        return acc_i and not acc_m
    if pid == "C07":
        return (mo in ("ok", "dec=ok")) and not (io in ("ok", "dec=ok")) or ("ver=ok" in model and "ver=ok" not in impl)
    if pid == "C06":
        return "panic" in impl or "timeout" in impl or impl == "crash"
    if pid == "C18":
        return "MUTATED" in impl
    return True


class FamilyResult:
    def __init__(self, fam):
        self.fam = fam
        self.ops = []
        self.evaluations = 0
        self.unmodelled = 0
        self.nontrivial = set()
        self.disagreements = []   # (op, impl, model)
        self.pred_hits = []       # (op, impl, prop, what)
        self.harness_errors = []
        self.samples = []
        self.kinds = {}
        self.outcomes = {}


def run_family(pid, fam, n, seed, corpus_ops=()):
    fr = FamilyResult(fam)
    ops = list(corpus_ops) + gen_family(fam, n, seed)
    if not ops:
        return fr
    impl, stderr = exec_impl(ops)
    model = exec_model(ops)
    fr.ops = ops
    for op, i, m in zip(ops, impl, model):
        fr.evaluations += 1
        k = op.split(" ")[0] + ":" + (op.split(" ")[1] if op.split(" ")[0] in ("dec", "enc", "reenc", "hist", "use", "cs", "new") else "")
        fr.kinds[k] = fr.kinds.get(k, 0) + 1
        if i.startswith("harness-error") or m == "bad-op":
            fr.harness_errors.append((op, i, m))
            continue
        for prop, what in impl_predicates(pid, op, i):
            fr.pred_hits.append((op, i, prop, what))
        if m == "unmodelled":
            fr.unmodelled += 1
            continue
        ci, cm = reconcile(canon(i), canon(m))
        oc = " ".join(ci.split(" ")[:2]) if ci.split(" ")[0].endswith("=err") or ci.startswith("err") else ci.split(" ")[0]
        oc = re.sub(r"=[0-9a-f]{8,}.*", "=<hex>", oc)[:40]
        fr.outcomes[oc] = fr.outcomes.get(oc, 0) + 1
        if not TRIVIAL.match(cm):
            fr.nontrivial.add(hashlib.sha1(op.encode()).hexdigest())
        if ci != cm:
            fr.disagreements.append((op, i, m))
        if len(fr.samples) < 2 and not TRIVIAL.match(cm):
            fr.samples.append({"op": op[:400], "impl": i[:300], "model": m[:300]})
    return fr


# ------------------------------------------------------------------ known findings

def load_known():
    p = os.path.join(VERIF, "known_findings.json")
    if not os.path.exists(p):
        return []
    return json.load(open(p)).get("findings", [])


def match_known(known, pid, op):
    for k in known:
        if k.get("status") != "known" or k.get("property") != pid:
            continue
        if "op" in k and k["op"] == op:
            return k
        if "op_regex" in k and re.search(k["op_regex"], op):
            return k
    return None


# ------------------------------------------------------------------ main entry

def write_replay(pid, tier, seed, broken, cases, note):
    d = os.path.join(VERIF, "replays")
    os.makedirs(d, exist_ok=True)
    body = {"property": pid, "tier": tier, "seed": seed, "broken": broken, "note": note,
            "ops": [c[0] for c in cases], "impl": [c[1] for c in cases], "model": [c[2] for c in cases]}
    h = hashlib.sha1(json.dumps(body, sort_keys=True).encode()).hexdigest()[:10]
    path = os.path.join(d, "%s-%s.json" % (pid, h))
    json.dump(body, open(path, "w"), indent=1)
    return os.path.relpath(path, VERIF)


def load_corpus(pid, fam):
    out = []
    p = os.path.join(VERIF, "corpus", pid + ".ops")
    if os.path.exists(p):
        for l in open(p):
            l = l.strip()
            if l and not l.startswith("#"):
                out.append(l)
    return out


def run_property(pid, tier, seed):
    t0 = time.time()
    cfg = P.PROPS[pid]
    notes = []
    violations = []      # (kind, replay_path, suffix)
    known_hits = {}
    known = load_known()

    # ---- 1/2: facts + proofs
    with Lock():
        facts_ok, facts_note = regenerate_facts()
        if not facts_ok:
            notes.append("facts not regenerated: " + facts_note)
        bad_src = source_grep(pid)
        ok_model, out_model = lake_build(["cosemodel"])
        ok_proofs, out_proofs = lake_build(P.modules_for(pid))
        thms, audit_out = ([], "")
        if ok_proofs:
            thms, audit_out = audit(pid)
        recheck = None
        if ok_proofs and tier == "thorough":
            # independent re-check of the compiled proofs
            r = sh(["lake", "env", "leanchecker"] + P.modules_for(pid), cwd=LEAN)
            recheck = r.returncode == 0
            if not recheck:
                ok_proofs, out_proofs = False, "leanchecker: " + (r.stdout + r.stderr)[-1500:]
        err = build_harness()
    if err:
        print("ERROR: harness does not build against %s:\n%s" % (REPO, err[-2000:]))
        return 3
    if not ok_model:
        # the only generated input of the model is Facts.lean: an extracted fact no longer has the
        # shape the model needs
        print("ERROR: Lean model does not build:\n" + out_model[-3000:])
        return 3
    obligations = len(thms)
    bad_axioms = [(n, a) for n, axs in thms for a in axs if a not in ALLOWED_AXIOMS]
    discharged = obligations - len({n for n, _ in bad_axioms})
    broken = None
    if not ok_proofs:
        m = re.search(r"error: (\S+\.lean):(\d+):\d+: ", out_proofs)
        what = "build failed"
        if m:
            what = "%s:%s" % (m.group(1), m.group(2))
            try:
                src = open(os.path.join(LEAN, m.group(1))).read().splitlines()
                # the enclosing theorem: nearest `theorem NAME` at or above the reported line
                for ln in range(int(m.group(2)) - 1, -1, -1):
                    tm = re.match(r"\s*theorem\s+(\S+)", src[ln])
                    if tm:
                        what = "theorem %s in %s (line %s)" % (tm.group(1), m.group(1), m.group(2))
                        break
            except Exception:
                pass
        broken = "proof obligation of %s no longer checks: %s" % (pid, what)
        log(out_proofs[-3000:])
    elif obligations == 0:
        broken = "no theorem found in namespace " + pid
    elif bad_axioms or bad_src:
        broken = "disallowed axiom / construct: %s %s" % (bad_axioms[:3], bad_src[:3])

    # ---- 4: correspondence
    results = []
    corpus = load_corpus(pid, None)
    first = True
    for fam, nq, nt in cfg["fams"]:
        n = nq if tier == "quick" else nt
        # thorough: three derived seeds for the generated families (grids are exhaustive: once)
        seeds = [seed] if tier == "quick" or nt == 0 else [seed, seed + 1000, seed + 2000]
        for sd in seeds:
            fr = run_family(pid, fam, n, sd, corpus if first else ())
            first = False
            results.append(fr)
    # real-crypto / concurrency sweeps (self-contained Go, stdlib oracle)
    real_reports = []
    for fam, nq, nt in cfg.get("real", []):
        n = nq if tier == "quick" else nt
        real_reports.append(run_real(pid, fam, n, seed))

    evaluations = sum(fr.evaluations for fr in results) + sum(r["evaluations"] for r in real_reports)
    nontrivial = len(set().union(*[fr.nontrivial for fr in results])) + sum(r["nontrivial"] for r in real_reports)
    unmodelled = sum(fr.unmodelled for fr in results)
    herrs = [h for fr in results for h in fr.harness_errors]
    if herrs:
        print("ERROR: harness/driver protocol error on %d ops, e.g. %r" % (len(herrs), herrs[0]))
        return 3

    # predicate hits for this property (model-independent)
    for fr in results:
        for op, i, prop, what in fr.pred_hits:
            if prop.rstrip("*") != pid:
                continue
            k = match_known(known, pid, op)
            if k:
                known_hits[k["id"]] = k
                continue
            if prop.endswith("*"):
                continue  # informational unless the model also disagrees
            violations.append(("predicate: " + what, [(op, i, "")], ""))
    for r in real_reports:
        for case in r["failures"]:
            k = match_known(known, pid, case[0])
            if k:
                known_hits[k["id"]] = k
                continue
            violations.append(("real-crypto sweep %s: %s" % (r["family"], case[2]), [(case[0], case[1], "")], ""))
    # disagreements with the (proved) model
    for fr in results:
        for op, i, m in fr.disagreements:
            k = match_known(known, pid, op)
            if k:
                known_hits[k["id"]] = k
                continue
            sfx = "" if concrete(pid, op, i, m) else " no-failing-input-found"
            violations.append(("correspondence:%s implementation and model disagree" % fr.fam, [(op, i, m)], sfx))
    if broken and not [v for v in violations if v[2] == ""]:
        violations.append((broken, [], " no-failing-input-found"))

    # ---- 5: verdict
    for k in known_hits.values():
        print("KNOWN-FINDING: property=%s %s" % (pid, k["what_fails"]))
    rc = 0
    if violations:
        rc = 1
        # concrete ones first, at most a handful of lines
        violations.sort(key=lambda v: v[2])
        seen = 0
        for what, cases, sfx in violations:
            if seen >= 5:
                break
            path = write_replay(pid, tier, seed, broken or what, cases, what)
            print("VIOLATION property=%s replay=%s%s" % (pid, path, sfx))
            for c in cases[:1]:
                log("  op:    " + c[0][:600]); log("  impl:  " + c[1][:600]); log("  model: " + c[2][:600])
            seen += 1
        log("%d violation(s) in total" % len(violations))

    # ---- 6: evidence
    samples = [s for fr in results for s in fr.samples][:6]
    for n_, axs in thms[:4]:
        samples.append({"theorem": n_, "axioms": axs})
    ev = {
        "property_id": pid, "tier": tier, "seed": seed, "level": "proof",
        "coverage": {
            "obligations": max(obligations, 0), "discharged": max(discharged, 0) if not broken else 0,
            "checker_cmd": "cd lean && lake build %s && lake env lean <import those; #audit %s> (theorems and their axioms listed below)" % (" ".join(P.modules_for(pid)), pid),
            "trusted_base": P.TRUSTED_BASE,
            "theorems": [{"name": n_, "axioms": axs} for n_, axs in thms],
            "evaluations": evaluations, "distinct_nontrivial": nontrivial,
            "rule": "operations generated from one splitmix64 stream (seed) per family plus corpus; an operation counts as non-trivial when the model's outcome is past the first gate (not a bare decode/encode error), distinct by SHA-1 of the operation line",
            "samples": samples,
            "families": {("%s#%d" % (fr.fam, i)): {"evaluations": fr.evaluations, "unmodelled": fr.unmodelled,
                                  "nontrivial": len(fr.nontrivial), "disagreements": len(fr.disagreements),
                                  "kinds": fr.kinds,
                                  "outcomes": dict(sorted(fr.outcomes.items(), key=lambda kv: -kv[1])[:12])} for i, fr in enumerate(results)},
            "real_sweeps": [{k: v for k, v in r.items() if k != "failures"} | {"failures": len(r["failures"])} for r in real_reports],
            "unmodelled": unmodelled,
            "facts_regenerated": facts_ok,
            "leanchecker_ok": recheck,
            "known_findings_reproduced": sorted(known_hits),
            "exhaustive": all(nq == 0 for _, nq, _ in cfg["fams"]),
        },
        "assumptions": P.ASSUMPTIONS + notes,
        "wall_s": round(time.time() - t0, 2),
        "violations": len(violations),
    }
    if ev["coverage"]["obligations"] == 0:
        ev["coverage"].pop("obligations"); ev["coverage"].pop("discharged")
    evdir = os.environ.get("VERIF_EVIDENCE_DIR", os.path.join(VERIF, "evidence"))
    os.makedirs(evdir, exist_ok=True)
    tmp = os.path.join(evdir, pid + ".json.tmp")
    json.dump(ev, open(tmp, "w"), indent=1)
    os.replace(tmp, os.path.join(evdir, pid + ".json"))
    log("%s %s: obligations=%d discharged=%d evaluations=%d nontrivial=%d unmodelled=%d violations=%d (%.1fs)" % (
        pid, tier, obligations, discharged, evaluations, nontrivial, unmodelled, len(violations), time.time() - t0))
    return rc


def run_real(pid, fam, n, seed):
    race = fam == "conc"
    if race:
        with Lock():
            err = build_harness(race=True)
        if err:
            return {"family": fam, "evaluations": 0, "nontrivial": 0, "failures": [("build -race", err[-300:], "race build failed")]}
    binp = COSEDRIVE_RACE if race else COSEDRIVE
    r = sh([binp, "real", fam, str(n), str(seed)], cwd=HARNESS, env=GOENV)
    rep = {"family": fam, "evaluations": 0, "nontrivial": 0, "failures": []}
    for line in r.stdout.splitlines():
        if line.startswith("SUMMARY "):
            for kv in line.split()[1:]:
                k, v = kv.split("=")
                rep[k] = int(v)
        elif line.startswith("FAIL "):
            parts = line[5:].split(" || ")
            rep["failures"].append((parts[0], parts[1] if len(parts) > 1 else "", parts[2] if len(parts) > 2 else "failed"))
    if race and "DATA RACE" in r.stderr:
        rep["failures"].append(("conc", r.stderr[-1500:], "data race reported by the Go race detector"))
    if r.returncode not in (0, 1) and not rep["failures"]:
        rep["failures"].append((fam, r.stderr[-600:], "sweep crashed"))
    return rep


def replay(pid, path):
    body = json.load(open(path))
    with Lock():
        err = build_harness()
        lake_build(["cosemodel"])
    if err:
        print(err); return 3
    ops = body.get("ops", [])
    if not ops:
        print("replay names a broken obligation, no operations:", body.get("broken"))
        return 0
    impl, _ = exec_impl(ops)
    model = exec_model(ops)
    rc = 0
    for op, i, m in zip(ops, impl, model):
        print("op:    " + op); print("impl:  " + i); print("model: " + m)
        ci, cm = reconcile(canon(i), canon(m))
        if m != "unmodelled" and ci != cm or impl_predicates(pid, op, i):
            rc = 1
    print("reproduced" if rc else "does not reproduce on the current tree")
    return rc
