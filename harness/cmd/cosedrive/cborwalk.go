package main

// A minimal, independent CBOR walker (definite lengths only) used as a structural oracle on inputs
// the library ACCEPTED: C05 demands that header labels are integer or text ITEMS — a label wrapped
// in a tag (the CBOR library strips tag 55799 silently) is neither.

// itemEnd returns the offset just past the item starting at off, or -1.
func itemEnd(b []byte, off int) int {
	if off >= len(b) {
		return -1
	}
	major, ai := b[off]>>5, b[off]&0x1f
	var n uint64
	p := off + 1
	switch {
	case ai < 24:
		n = uint64(ai)
	case ai <= 27:
		w := 1 << (ai - 24)
		if p+w > len(b) {
			return -1
		}
		for i := 0; i < w; i++ {
			n = n<<8 | uint64(b[p+i])
		}
		p += w
	default:
		return -1
	}
	switch major {
	case 0, 1, 7:
		return p
	case 2, 3:
		if uint64(len(b)-p) < n {
			return -1
		}
		return p + int(n)
	case 6:
		return itemEnd(b, p)
	case 4, 5:
		cnt := n
		if major == 5 {
			cnt *= 2
		}
		for i := uint64(0); i < cnt; i++ {
			if p = itemEnd(b, p); p < 0 {
				return -1
			}
		}
		return p
	}
	return -1
}

// mapHasTaggedKey reports whether the map item at off has a key that is a tagged item; it also
// descends into countersignature values (labels 7 and 11: arrays [bstr protected, map, bstr] or lists of them).
//
// With walkValues set it also reports the self-described tag (55799) at any depth in the value of a
// label the library type-checks (every label when walkAll is set — COSE_Keys): the CBOR library
// strips that tag wherever it stands, so the checked value is not what the wire holds.  A 55799
// inside the value of a label the library does not interpret is data and is not reported.
var walkValues, walkAll bool

func checkedLabel(b []byte, off int) bool {
	major, n, _, ok := rdHead(b, off)
	if !ok || major != 0 {
		return false
	}
	switch n {
	case 1, 2, 3, 4, 5, 6, 7, 9, 11, 12, 16, 258, 259, 260:
		return true
	}
	return false
}

// strippedTagWhereChecked: acceptedWithTaggedLabel extended to type-checked values
func strippedTagWhereChecked(kind string, data []byte) bool {
	walkValues, walkAll = true, kind == "key"
	defer func() { walkValues, walkAll = false, false }()
	return acceptedWithTaggedLabel(kind, data)
}

func mapHasTaggedKey(b []byte, off int) bool {
	if off >= len(b) || b[off]>>5 != 5 {
		return false
	}
	ai := b[off] & 0x1f
	p := off + 1
	var n uint64 = uint64(ai)
	if ai >= 24 && ai <= 27 {
		w := 1 << (ai - 24)
		n = 0
		for i := 0; i < w && p+i < len(b); i++ {
			n = n<<8 | uint64(b[p+i])
		}
		p += w
	}
	for i := uint64(0); i < n; i++ {
		if p >= len(b) {
			return false
		}
		if b[p]>>5 == 6 {
			return true
		}
		key := p
		v := itemEnd(b, p)
		if v < 0 {
			return false
		}
		end := itemEnd(b, v)
		if end < 0 {
			return false
		}
		if (b[key] == 0x07 || b[key] == 0x0b) && sigHasTaggedKey(b, v) {
			return true
		}
		if walkValues && (walkAll || checkedLabel(b, key)) && has55799(b[:end], v) {
			return true
		}
		p = end
	}
	return false
}

// sigHasTaggedKey: a COSE_Signature-shaped array (or an array of them) at off
func sigHasTaggedKey(b []byte, off int) bool {
	if off >= len(b) || b[off]>>5 != 4 {
		return false
	}
	cnt := int(b[off] & 0x1f)
	if cnt >= 24 {
		return false
	}
	p := off + 1
	if cnt == 3 && p < len(b) && b[p]>>5 == 2 {
		// [protected bstr, unprotected map, signature]
		if bstrMapHasTaggedKey(b, p) {
			return true
		}
		u := itemEnd(b, p)
		return u > 0 && mapHasTaggedKey(b, u)
	}
	for i := 0; i < cnt; i++ {
		if sigHasTaggedKey(b, p) {
			return true
		}
		if p = itemEnd(b, p); p < 0 {
			return false
		}
	}
	return false
}

func bstrMapHasTaggedKey(b []byte, off int) bool {
	end := itemEnd(b, off)
	if end < 0 || b[off]>>5 != 2 {
		return false
	}
	ai := b[off] & 0x1f
	start := off + 1
	if ai >= 24 && ai <= 27 {
		start += 1 << (ai - 24)
	}
	return mapHasTaggedKey(b[start:end], 0)
}

// acceptedWithTaggedLabel: data was accepted by the decoder of `kind`
func acceptedWithTaggedLabel(kind string, data []byte) bool {
	off := 0
	switch kind {
	case "key":
		// a COSE_Key is a map item: a tag around it (which the CBOR library looks through) is not
		if len(data) > 0 && data[0]>>5 == 6 {
			return true
		}
		return mapHasTaggedKey(data, 0)
	case "ph":
		return bstrMapHasTaggedKey(data, 0)
	case "uh":
		return mapHasTaggedKey(data, 0)
	case "s1", "sm":
		// skip the tag head
		if len(data) > 0 && data[0]>>5 == 6 {
			off = 1
			if data[0]&0x1f >= 24 {
				off += 1 << (data[0]&0x1f - 24)
			}
		}
	case "s1u", "sig", "csig":
	default:
		return false
	}
	if off >= len(data) || data[off]>>5 != 4 {
		return false
	}
	p := off + 1
	if bstrMapHasTaggedKey(data, p) {
		return true
	}
	u := itemEnd(data, p)
	if u < 0 {
		return false
	}
	if mapHasTaggedKey(data, u) {
		return true
	}
	if kind == "sm" {
		pl := itemEnd(data, u)
		if pl < 0 {
			return false
		}
		sigs := itemEnd(data, pl)
		if sigs > 0 && sigHasTaggedKey(data, sigs) {
			return true
		}
	}
	return false
}

// ---------------------------------------------------------------- C05: structure of everything a decoder ACCEPTED
//
// structureOfAccepted re-reads an input the library accepted with the walker above and reports the
// first clause of C05 it does not meet ("" if none): one definite-length item of the decoder's own
// shape with nothing after it, no tag in the envelope, payload bstr or nil, non-empty bstr
// signature(s), protected bucket a bstr that is empty or wraps exactly one map, unprotected bucket
// a map, labels integers within int64 or text, no two equal keys in a bucket.  It knows nothing of
// the Lean model and covers the inputs the model is silent about (tags, big integers).

func rdHead(b []byte, off int) (major byte, val uint64, next int, ok bool) {
	if off >= len(b) {
		return 0, 0, 0, false
	}
	major, ai := b[off]>>5, b[off]&0x1f
	p := off + 1
	switch {
	case ai < 24:
		return major, uint64(ai), p, true
	case ai <= 27:
		w := 1 << (ai - 24)
		if p+w > len(b) {
			return 0, 0, 0, false
		}
		var n uint64
		for i := 0; i < w; i++ {
			n = n<<8 | uint64(b[p+i])
		}
		return major, n, p + w, true
	}
	return 0, 0, 0, false
}

func hasTagInside(b []byte, off int) bool {
	major, n, p, ok := rdHead(b, off)
	if !ok {
		return false
	}
	switch major {
	case 6:
		return true
	case 4, 5:
		cnt := n
		if major == 5 {
			cnt *= 2
		}
		for i := uint64(0); i < cnt; i++ {
			if hasTagInside(b, p) {
				return true
			}
			if p = itemEnd(b, p); p < 0 {
				return false
			}
		}
	}
	return false
}

// bucketProblem checks the keys of the map item at off (a header bucket)
func bucketProblem(b []byte, off int, where string) string {
	major, n, p, ok := rdHead(b, off)
	if !ok || major != 5 {
		return where + " is not a map"
	}
	seen := map[string]bool{}
	for i := uint64(0); i < n; i++ {
		km, kv, kn, ok := rdHead(b, p)
		if !ok {
			return where + ": truncated"
		}
		var id string
		switch km {
		case 0:
			if kv > 1<<63-1 {
				return where + ": integer label beyond int64"
			}
			id = "i+" + string(rune(0)) + uitoa(kv)
		case 1:
			if kv > 1<<63-1 {
				return where + ": integer label beyond int64"
			}
			id = "i-" + uitoa(kv)
		case 3:
			end := itemEnd(b, p)
			if end < 0 {
				return where + ": truncated"
			}
			id = "t" + string(b[kn:end])
		default:
			return where + ": label is neither an integer nor a text item"
		}
		if seen[id] {
			return where + ": duplicate label"
		}
		seen[id] = true
		v := itemEnd(b, p)
		if v < 0 {
			return where + ": truncated"
		}
		// countersignature values carry their own layers
		if km == 0 && (kv == 7 || kv == 11) {
			if s := csigValueProblem(b, v, where+" > countersignature"); s != "" {
				return s
			}
		}
		if nestedDupKey(b, v) {
			return where + ": duplicate key in a nested map"
		}
		if p = itemEnd(b, v); p < 0 {
			return where + ": truncated"
		}
	}
	return ""
}

// nestedDupKey reports whether some map at any depth of the item at off holds two keys written with
// the same bytes ("no duplicate keys in any map", C05).  The CBOR library finds duplicates by
// looking at whether its Go map grew, which a key that is not equal to itself (NaN) defeats.
func nestedDupKey(b []byte, off int) bool {
	major, n, p, ok := rdHead(b, off)
	if !ok {
		return false
	}
	switch major {
	case 6:
		return nestedDupKey(b, p)
	case 4:
		for i := uint64(0); i < n; i++ {
			if nestedDupKey(b, p) {
				return true
			}
			if p = itemEnd(b, p); p < 0 {
				return false
			}
		}
	case 5:
		seen := map[string]bool{}
		for i := uint64(0); i < n; i++ {
			v := itemEnd(b, p)
			if v < 0 {
				return false
			}
			k := string(b[p:v])
			if isNaNItem(b[p:v]) {
				k = "NaN" // one value under every width
			}
			if seen[k] {
				return true
			}
			seen[k] = true
			if nestedDupKey(b, p) || nestedDupKey(b, v) {
				return true
			}
			if p = itemEnd(b, v); p < 0 {
				return false
			}
		}
	}
	return false
}

func isNaNItem(k []byte) bool {
	switch {
	case len(k) == 3 && k[0] == 0xf9:
		return k[1]&0x7c == 0x7c && (k[1]&0x03 != 0 || k[2] != 0)
	case len(k) == 5 && k[0] == 0xfa:
		return k[1]&0x7f == 0x7f && k[2]&0x80 == 0x80 && (k[2]&0x7f != 0 || k[3] != 0 || k[4] != 0)
	case len(k) == 9 && k[0] == 0xfb:
		m := k[2]&0x0f != 0
		for _, x := range k[3:] {
			m = m || x != 0
		}
		return k[1]&0x7f == 0x7f && k[2]&0xf0 == 0xf0 && m
	}
	return false
}

func uitoa(v uint64) string {
	if v == 0 {
		return "0"
	}
	var d []byte
	for v > 0 {
		d = append([]byte{byte('0' + v%10)}, d...)
		v /= 10
	}
	return string(d)
}

func protectedProblem(b []byte, off int, where string) string {
	major, n, p, ok := rdHead(b, off)
	if !ok || major != 2 {
		return where + " is not a byte string"
	}
	if uint64(len(b)-p) < n {
		return where + ": truncated"
	}
	content := b[p : p+int(n)]
	if len(content) == 0 {
		return ""
	}
	if itemEnd(content, 0) != len(content) {
		return where + " does not wrap exactly one item"
	}
	return bucketProblem(content, 0, where)
}

// sigLayerProblem: [protected, unprotected, signature] at off
func sigLayerProblem(b []byte, off int, where string) string {
	major, n, p, ok := rdHead(b, off)
	if !ok || major != 4 || n != 3 {
		return where + " is not a 3-array"
	}
	if s := protectedProblem(b, p, where+" protected"); s != "" {
		return s
	}
	u := itemEnd(b, p)
	if u < 0 {
		return where + ": truncated"
	}
	if hasTagInside(b, u) {
		return where + ": tag in the unprotected bucket"
	}
	if s := bucketProblem(b, u, where+" unprotected"); s != "" {
		return s
	}
	sg := itemEnd(b, u)
	sm, sn, _, ok := rdHead(b, sg)
	if sg < 0 || !ok || sm != 2 || sn == 0 {
		return where + ": signature is not a non-empty byte string"
	}
	return ""
}

func csigValueProblem(b []byte, off int, where string) string {
	// a stand-alone bucket decoder does not forbid tags around VALUES (inside a message the envelope
	// check has already refused them): look through them
	for off < len(b) && b[off]>>5 == 6 {
		_, _, nx, ok := rdHead(b, off)
		if !ok {
			break
		}
		off = nx
	}
	major, n, p, ok := rdHead(b, off)
	if !ok || major != 4 {
		return where + " is not an array"
	}
	if n == 3 {
		if m, _, _, ok := rdHead(b, p); ok && m == 2 {
			return sigLayerProblem(b, off, where)
		}
	}
	if n == 0 {
		return where + ": empty list"
	}
	for i := uint64(0); i < n; i++ {
		if s := sigLayerProblem(b, p, where); s != "" {
			return s
		}
		if p = itemEnd(b, p); p < 0 {
			return where + ": truncated"
		}
	}
	return ""
}

func structureOfAccepted(kind string, data []byte) string {
	if itemEnd(data, 0) != len(data) {
		return "not exactly one definite-length item"
	}
	off := 0
	switch kind {
	case "ph":
		return protectedProblem(data, 0, "protected")
	case "uh":
		// the unprotected bucket holds no tag, decoded on its own as inside a message (and the
		// encoder refuses a value that needs one: C13, one verdict in both directions)
		if hasTagInside(data, 0) {
			return "tag in the unprotected bucket"
		}
		return bucketProblem(data, 0, "unprotected")
	case "sig", "csig":
		if hasTagInside(data, 0) && func() bool { // tags are allowed inside the protected content only
			_, _, p, _ := rdHead(data, 0)
			u := itemEnd(data, p)
			return u > 0 && hasTagInside(data, u)
		}() {
			return "tag in the envelope"
		}
		return sigLayerProblem(data, 0, kind)
	case "s1", "sm":
		m, v, p, ok := rdHead(data, 0)
		want := uint64(18)
		if kind == "sm" {
			want = 98
		}
		if !ok || m != 6 || v != want {
			return "wrong or missing tag"
		}
		off = p
	case "s1u":
	default:
		return ""
	}
	m, n, p, ok := rdHead(data, off)
	if !ok || m != 4 || n != 4 {
		return "not a 4-array"
	}
	if s := protectedProblem(data, p, "protected"); s != "" {
		return s
	}
	u := itemEnd(data, p)
	if u < 0 {
		return "truncated"
	}
	if hasTagInside(data, u) {
		return "tag in the unprotected bucket"
	}
	if s := bucketProblem(data, u, "unprotected"); s != "" {
		return s
	}
	pl := itemEnd(data, u)
	pm, _, _, ok := rdHead(data, pl)
	if pl < 0 || !ok || !(pm == 2 || data[pl] == 0xf6) {
		return "payload is neither a byte string nor nil"
	}
	last := itemEnd(data, pl)
	if last < 0 {
		return "truncated"
	}
	if kind == "sm" {
		am, an, ap, ok := rdHead(data, last)
		if !ok || am != 4 || an == 0 {
			return "signatures is not a non-empty array"
		}
		for i := uint64(0); i < an; i++ {
			if hasTagInside(data, ap) && func() bool {
				_, _, q, _ := rdHead(data, ap)
				uu := itemEnd(data, q)
				return uu > 0 && hasTagInside(data, uu)
			}() {
				return "tag in a signer's envelope"
			}
			if s := sigLayerProblem(data, ap, "signer"); s != "" {
				return s
			}
			if ap = itemEnd(data, ap); ap < 0 {
				return "truncated"
			}
		}
		return ""
	}
	sm, sn, _, ok := rdHead(data, last)
	if !ok || sm != 2 || sn == 0 {
		return "signature is not a non-empty byte string"
	}
	return ""
}

// has55799 reports whether the item at off contains the self-described CBOR tag (55799) at any
// depth of its arrays, maps and tags (byte strings are not looked into)
func has55799(b []byte, off int) bool {
	major, n, p, ok := rdHead(b, off)
	if !ok {
		return false
	}
	switch major {
	case 6:
		if n == 55799 {
			return true
		}
		return has55799(b, p)
	case 4, 5:
		cnt := n
		if major == 5 {
			cnt *= 2
		}
		for i := uint64(0); i < cnt; i++ {
			if has55799(b, p) {
				return true
			}
			if p = itemEnd(b, p); p < 0 {
				return false
			}
		}
	}
	return false
}

// ---------------------------------------------------------------- C04: the alg a verifier ran under is the alg item on the wire
//
// wireAlg reads the protected bucket of a COSE_Sign1 (tag optional) as written and reports the
// `alg` entry: "absent" (no key that is the integer 1, under any head width), "int" with its value
// (key the plain integer 1, value a plain integer), or "other" (a text alg, a tagged key or value,
// anything else).  It knows nothing of the library or of the Lean model.
func wireAlg(data []byte) (kind string, alg int64) {
	off := 0
	if len(data) > 0 && data[0]>>5 == 6 {
		_, _, p, ok := rdHead(data, 0)
		if !ok {
			return "other", 0
		}
		off = p
	}
	major, _, p, ok := rdHead(data, off)
	if !ok || major != 4 {
		return "other", 0
	}
	bm, bn, bp, ok := rdHead(data, p)
	if !ok || bm != 2 || uint64(len(data)-bp) < bn {
		return "other", 0
	}
	c := data[bp : bp+int(bn)]
	if len(c) == 0 {
		return "absent", 0
	}
	mm, mn, q, ok := rdHead(c, 0)
	if !ok || mm != 5 {
		return "other", 0
	}
	kind = "absent"
	for i := uint64(0); i < mn; i++ {
		key := q
		v := itemEnd(c, q)
		if v < 0 {
			return "other", 0
		}
		end := itemEnd(c, v)
		if end < 0 {
			return "other", 0
		}
		km, kn, _, _ := rdHead(c, key)
		// a key that is 1 under a tag (whatever the tag) makes the entry "other"
		k2 := key
		tagged := false
		for km == 6 {
			tagged = true
			_, _, k2, _ = rdHead(c, k2)
			km, kn, _, ok = rdHead(c, k2)
			if !ok {
				return "other", 0
			}
		}
		if km == 0 && kn == 1 {
			vm, vn, _, vok := rdHead(c, v)
			switch {
			case tagged || !vok:
				return "other", 0
			case vm == 0 && vn < 1<<63:
				kind, alg = "int", int64(vn)
			case vm == 1 && vn < 1<<63:
				kind, alg = "int", -1-int64(vn)
			default:
				return "other", 0
			}
		}
		q = end
	}
	return kind, alg
}

// keyAlgZeroOnWire: the COSE_Key map as written has an entry whose label is the integer 3 and whose
// value is the integer 0 — the reserved algorithm, which matches no key (C15)
func keyAlgZeroOnWire(b []byte) bool {
	major, n, p, ok := rdHead(b, 0)
	if !ok || major != 5 {
		return false
	}
	for i := uint64(0); i < n; i++ {
		km, kv, _, ok := rdHead(b, p)
		v := itemEnd(b, p)
		if !ok || v < 0 {
			return false
		}
		vm, vv, _, vok := rdHead(b, v)
		if km == 0 && kv == 3 && vok && vm == 0 && vv == 0 {
			return true
		}
		if p = itemEnd(b, v); p < 0 {
			return false
		}
	}
	return false
}
