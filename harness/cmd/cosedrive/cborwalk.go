package main

// A minimal, independent CBOR walker (definite lengths only) used as a structural oracle on inputs
// the library ACCEPTED: C05 demands that header labels are integer or text ITEMS — a label wrapped
// in a tag (the CBOR library strips tag 55799 silently) is neither.

// itemEnd returns the offset just past the item starting at off, or -1.
func itemEnd(b []byte, off int) int {
	if off >= len(b) {
		return -1
	}
	major, ai := b[off]>>5, b[off]&0x1f
	var n uint64
	p := off + 1
	switch {
	case ai < 24:
		n = uint64(ai)
	case ai <= 27:
		w := 1 << (ai - 24)
		if p+w > len(b) {
			return -1
		}
		for i := 0; i < w; i++ {
			n = n<<8 | uint64(b[p+i])
		}
		p += w
	default:
		return -1
	}
	switch major {
	case 0, 1, 7:
		return p
	case 2, 3:
		if uint64(len(b)-p) < n {
			return -1
		}
		return p + int(n)
	case 6:
		return itemEnd(b, p)
	case 4, 5:
		cnt := n
		if major == 5 {
			cnt *= 2
		}
		for i := uint64(0); i < cnt; i++ {
			if p = itemEnd(b, p); p < 0 {
				return -1
			}
		}
		return p
	}
	return -1
}

// mapHasTaggedKey reports whether the map item at off has a key that is a tagged item; it also
// descends into countersignature values (labels 7 and 11: arrays [bstr protected, map, bstr] or lists of them).
func mapHasTaggedKey(b []byte, off int) bool {
	if off >= len(b) || b[off]>>5 != 5 {
		return false
	}
	ai := b[off] & 0x1f
	p := off + 1
	var n uint64 = uint64(ai)
	if ai >= 24 && ai <= 27 {
		w := 1 << (ai - 24)
		n = 0
		for i := 0; i < w && p+i < len(b); i++ {
			n = n<<8 | uint64(b[p+i])
		}
		p += w
	}
	for i := uint64(0); i < n; i++ {
		if p >= len(b) {
			return false
		}
		if b[p]>>5 == 6 {
			return true
		}
		key := p
		v := itemEnd(b, p)
		if v < 0 {
			return false
		}
		end := itemEnd(b, v)
		if end < 0 {
			return false
		}
		if (b[key] == 0x07 || b[key] == 0x0b) && sigHasTaggedKey(b, v) {
			return true
		}
		p = end
	}
	return false
}

// sigHasTaggedKey: a COSE_Signature-shaped array (or an array of them) at off
func sigHasTaggedKey(b []byte, off int) bool {
	if off >= len(b) || b[off]>>5 != 4 {
		return false
	}
	cnt := int(b[off] & 0x1f)
	if cnt >= 24 {
		return false
	}
	p := off + 1
	if cnt == 3 && p < len(b) && b[p]>>5 == 2 {
		// [protected bstr, unprotected map, signature]
		if bstrMapHasTaggedKey(b, p) {
			return true
		}
		u := itemEnd(b, p)
		return u > 0 && mapHasTaggedKey(b, u)
	}
	for i := 0; i < cnt; i++ {
		if sigHasTaggedKey(b, p) {
			return true
		}
		if p = itemEnd(b, p); p < 0 {
			return false
		}
	}
	return false
}

func bstrMapHasTaggedKey(b []byte, off int) bool {
	end := itemEnd(b, off)
	if end < 0 || b[off]>>5 != 2 {
		return false
	}
	ai := b[off] & 0x1f
	start := off + 1
	if ai >= 24 && ai <= 27 {
		start += 1 << (ai - 24)
	}
	return mapHasTaggedKey(b[start:end], 0)
}

// acceptedWithTaggedLabel: data was accepted by the decoder of `kind`
func acceptedWithTaggedLabel(kind string, data []byte) bool {
	off := 0
	switch kind {
	case "ph":
		return bstrMapHasTaggedKey(data, 0)
	case "uh":
		return mapHasTaggedKey(data, 0)
	case "s1", "sm":
		// skip the tag head
		if len(data) > 0 && data[0]>>5 == 6 {
			off = 1
			if data[0]&0x1f >= 24 {
				off += 1 << (data[0]&0x1f - 24)
			}
		}
	case "s1u", "sig", "csig":
	default:
		return false
	}
	if off >= len(data) || data[off]>>5 != 4 {
		return false
	}
	p := off + 1
	if bstrMapHasTaggedKey(data, p) {
		return true
	}
	u := itemEnd(data, p)
	if u < 0 {
		return false
	}
	if mapHasTaggedKey(data, u) {
		return true
	}
	if kind == "sm" {
		pl := itemEnd(data, u)
		if pl < 0 {
			return false
		}
		sigs := itemEnd(data, pl)
		if sigs > 0 && sigHasTaggedKey(data, sigs) {
			return true
		}
	}
	return false
}
