package main

// Real-algorithm sweeps (C01, C03, C07, C14, C17, C18): the built-in signers / verifiers of the
// library against the Go standard library used directly as the oracle.  Self-contained: prints
//
//	SUMMARY evaluations=N nontrivial=M
//	FAIL <case> || <detail> || <what>

import (
	"bytes"
	"crypto"
	"crypto/ecdsa"
	"crypto/ed25519"
	"crypto/elliptic"
	"crypto/rand"
	"crypto/rsa"
	"crypto/sha256"
	"encoding/hex"
	"fmt"
	"io"
	"math/big"
	"os"
	"strings"
	"sync"

	cose "github.com/veraison/go-cose"
)

type realKey struct {
	alg  cose.Algorithm
	name string
	priv crypto.Signer
	pub  crypto.PublicKey
}

var realAlgs = []cose.Algorithm{cose.AlgorithmES256, cose.AlgorithmES384, cose.AlgorithmES512, cose.AlgorithmEdDSA,
	cose.AlgorithmPS256, cose.AlgorithmPS384, cose.AlgorithmPS512}

func realKeyFor(alg cose.Algorithm, r *rng) realKey {
	switch alg {
	case cose.AlgorithmES256, cose.AlgorithmES384, cose.AlgorithmES512:
		c := map[cose.Algorithm]elliptic.Curve{cose.AlgorithmES256: elliptic.P256(), cose.AlgorithmES384: elliptic.P384(), cose.AlgorithmES512: elliptic.P521()}[alg]
		k := detKey(c, fmt.Sprintf("real%d", r.intn(6)))
		return realKey{alg, "ecdsa", k, &k.PublicKey}
	case cose.AlgorithmEdDSA:
		seed := sha256.Sum256([]byte(fmt.Sprintf("ed%d", r.intn(6))))
		k := ed25519.NewKeyFromSeed(seed[:])
		return realKey{alg, "ed25519", k, k.Public()}
	}
	bits := 2048
	if r.chance(1, 4) {
		bits = 3072
	}
	k := rsaKey(bits)
	return realKey{alg, "rsa", k, &k.PublicKey}
}

// stdlib signature over tbs, formatted as COSE demands (independent of go-cose)
func stdSign(k realKey, tbs []byte) []byte {
	switch k.name {
	case "ecdsa":
		sk := k.priv.(*ecdsa.PrivateKey)
		r, s, err := ecdsa.Sign(rand.Reader, sk, hashFor(k.alg, tbs))
		if err != nil {
			panic("bad ecdsa sign")
		}
		n := (sk.Curve.Params().N.BitLen() + 7) / 8
		return append(leftPadBytes(r.Bytes(), n), leftPadBytes(s.Bytes(), n)...)
	case "ed25519":
		return ed25519.Sign(k.priv.(ed25519.PrivateKey), tbs)
	}
	h := hashOf(k.alg)
	sig, err := rsa.SignPSS(rand.Reader, k.priv.(*rsa.PrivateKey), h, hashFor(k.alg, tbs), &rsa.PSSOptions{SaltLength: rsa.PSSSaltLengthEqualsHash})
	if err != nil {
		panic("bad rsa sign")
	}
	return sig
}

func hashOf(alg cose.Algorithm) crypto.Hash {
	switch alg {
	case cose.AlgorithmES256, cose.AlgorithmPS256:
		return crypto.SHA256
	case cose.AlgorithmES384, cose.AlgorithmPS384:
		return crypto.SHA384
	}
	return crypto.SHA512
}

// stdlib verification of a COSE-formatted signature over tbs
func stdVerify(k realKey, tbs, sig []byte) bool {
	switch k.name {
	case "ecdsa":
		pk := k.pub.(*ecdsa.PublicKey)
		n := (pk.Curve.Params().N.BitLen() + 7) / 8
		if len(sig) != 2*n {
			return false
		}
		return ecdsa.Verify(pk, hashFor(k.alg, tbs), new(big.Int).SetBytes(sig[:n]), new(big.Int).SetBytes(sig[n:]))
	case "ed25519":
		pk := k.pub.(ed25519.PublicKey)
		return len(sig) == ed25519.SignatureSize && ed25519.Verify(pk, tbs, sig)
	}
	return rsa.VerifyPSS(k.pub.(*rsa.PublicKey), hashOf(k.alg), hashFor(k.alg, tbs), sig, &rsa.PSSOptions{SaltLength: rsa.PSSSaltLengthEqualsHash}) == nil
}

// content of a definite-length bstr encoding (any head width); ok=false if not one
func bstrContent(raw []byte) ([]byte, bool) {
	if len(raw) == 0 || raw[0]>>5 != 2 {
		return nil, false
	}
	ai := raw[0] & 0x1f
	var n uint64
	off := 1
	switch {
	case ai < 24:
		n = uint64(ai)
	case ai == 24 && len(raw) >= 2:
		n, off = uint64(raw[1]), 2
	case ai == 25 && len(raw) >= 3:
		n, off = uint64(raw[1])<<8|uint64(raw[2]), 3
	case ai == 26 && len(raw) >= 5:
		n, off = uint64(raw[1])<<24|uint64(raw[2])<<16|uint64(raw[3])<<8|uint64(raw[4]), 5
	case ai == 27 && len(raw) >= 9:
		for i := 1; i <= 8; i++ {
			n = n<<8 | uint64(raw[i])
		}
		off = 9
	default:
		return nil, false
	}
	if uint64(len(raw)-off) != n {
		return nil, false
	}
	return raw[off:], true
}

type sweep struct {
	evals, nontrivial int
	fails             []string
}

func (s *sweep) fail(cas, detail, what string) {
	if len(s.fails) < 20 {
		s.fails = append(s.fails, "FAIL "+cas+" || "+detail+" || "+what)
	}
}

func (s *sweep) finish() int {
	fmt.Printf("SUMMARY evaluations=%d nontrivial=%d\n", s.evals, s.nontrivial)
	for _, f := range s.fails {
		fmt.Println(f)
	}
	if len(s.fails) > 0 {
		return 1
	}
	return 0
}

func goHeaders(h *hdrSpec) cose.Headers {
	p := &parser{s: h.gotext()}
	out := p.headers()
	p.done()
	return out
}

func stripAlg(h *hdrSpec, alg int64) {
	out := h.prot[:0:0]
	for _, e := range h.prot {
		if !(e.label.kind == "int" && (e.label.i == 1 || e.label.i == 2)) {
			out = append(out, e)
		}
	}
	h.prot = out
}

func extBytes(s string) []byte { return unhex(s) }

func realSweep(family string, n int, seed uint64, args []string) int {
	r := &rng{s: seed*0x9e3779b97f4a7c15 + 12345 + uint64(len(family))}
	sw := &sweep{}
	switch family {
	case "chain":
		chainFixed(sw)
		realChain(r, n, sw)
	case "tamper":
		tamperFixed(sw)
		realTamper(r, n, sw, true)
	case "foreign":
		realTamper(r, n, sw, false)
	case "keysv":
		keysvFixed(sw)
		realKeySV(r, n, sw)
	case "digest":
		newVerifierFixed(sw)
		realDigest(r, n, sw)
	case "conc":
		realConc(r, n, sw)
	case "bigprot":
		bigProtected(sw)
	case "entropy":
		entropyFixed(sw)
		realEntropy(r, n, sw)
	default:
		fmt.Fprintln(os.Stderr, "unknown real family", family)
		return 2
	}
	return sw.finish()
}

// ---------------------------------------------------------------- C01: sign → wire → verify

func signerVerifier(k realKey, viaKey bool) (cose.Signer, cose.Verifier, error) {
	if viaKey && k.name != "rsa" {
		ck, err := cose.NewKeyFromPrivate(k.priv)
		if err != nil {
			return nil, nil, err
		}
		enc, err := ck.MarshalCBOR()
		if err != nil {
			return nil, nil, err
		}
		var ck2 cose.Key
		if err := ck2.UnmarshalCBOR(enc); err != nil {
			return nil, nil, err
		}
		s, err := ck2.Signer()
		if err != nil {
			return nil, nil, err
		}
		v, err := ck2.Verifier()
		return s, v, err
	}
	s, err := cose.NewSigner(k.alg, k.priv)
	if err != nil {
		return nil, nil, err
	}
	v, err := cose.NewVerifier(k.alg, k.pub)
	return s, v, err
}

func realChain(r *rng, n int, sw *sweep) {
	cfg := &genCfg{exoticSpell: 30, invalid: 0, depth: 1, maxEntries: 20, goSide: true}
	for i := 0; i < n; i++ {
		alg := realAlgs[r.intn(len(realAlgs))]
		k := realKeyFor(alg, r)
		signer, verifier, err := signerVerifier(k, r.chance(1, 3))
		if err != nil {
			sw.fail("chain", err.Error(), "cannot build signer/verifier for a valid key")
			continue
		}
		h := randHeaders(r, cfg)
		stripAlg(&h, int64(alg))
		if r.chance(2, 3) {
			h.prot = append(h.prot, hentry{hInt(1), hAlg(int64(alg))})
		}
		payload := randPayload(r, true)
		if payload == nil {
			payload = []byte{}
		}
		exts := randExt(r)
		ext := extBytes(exts)
		detach := r.chance(1, 4)
		kind := r.intn(6)
		desc := fmt.Sprintf("kind=%d alg=%d hdr=%s payloadlen=%d ext=%s detach=%v", kind, alg, h.gotext(), len(payload), exts, detach)
		sw.evals++
		fail := func(what string, err error) { sw.fail("chain", desc+" err="+fmt.Sprint(err), what) }
		switch kind {
		case 0, 1: // Sign1 tagged / untagged
			m := &cose.Sign1Message{Headers: goHeaders(&h), Payload: payload}
			if err := m.Sign(rand.Reader, ext, signer); err != nil {
				fail("Sign failed on a valid message", err)
				continue
			}
			if err := m.Verify(ext, verifier); err != nil {
				fail("in-memory Verify failed after Sign", err)
				continue
			}
			if detach {
				m.Payload = nil
			}
			var enc []byte
			var m2 cose.Sign1Message
			if kind == 0 {
				enc, err = m.MarshalCBOR()
				if err == nil {
					err = m2.UnmarshalCBOR(enc)
				}
			} else {
				enc, err = (*cose.UntaggedSign1Message)(m).MarshalCBOR()
				if err == nil {
					err = (*cose.UntaggedSign1Message)(&m2).UnmarshalCBOR(enc)
				}
			}
			if err != nil {
				fail("wire round trip failed", err)
				continue
			}
			if detach {
				m2.Payload = payload
			}
			if err := m2.Verify(ext, verifier); err != nil {
				fail("Verify failed after the wire round trip", err)
				continue
			}
			// independent oracle: stdlib verification over the RFC structure built from the wire
			content, ok := bstrContent(m2.Headers.RawProtected)
			e := ext
			if e == nil {
				e = []byte{}
			}
			if !ok || !stdVerify(k, refTBS1(content, e, payload), m2.Signature) {
				fail("signature is not valid over the RFC 9052 Sig_structure of the wire bytes (stdlib oracle)", nil)
				continue
			}
			sw.nontrivial++
		case 2: // COSE_Sign with 1..3 signers
			ns := 1 + r.intn(3)
			m := &cose.SignMessage{Headers: goHeaders(&h), Payload: payload}
			var signers []cose.Signer
			var verifiers []cose.Verifier
			var keys []realKey
			for j := 0; j < ns; j++ {
				a := realAlgs[r.intn(len(realAlgs))]
				kj := realKeyFor(a, r)
				sj, vj, err := signerVerifier(kj, false)
				if err != nil {
					fail("cannot build signer", err)
				}
				sh := cose.Headers{Protected: cose.ProtectedHeader{cose.HeaderLabelAlgorithm: a}, Unprotected: cose.UnprotectedHeader{cose.HeaderLabelKeyID: []byte{byte(j)}}}
				m.Signatures = append(m.Signatures, &cose.Signature{Headers: sh})
				signers, verifiers, keys = append(signers, sj), append(verifiers, vj), append(keys, kj)
			}
			if err := m.Sign(rand.Reader, ext, signers...); err != nil {
				fail("SignMessage.Sign failed", err)
				continue
			}
			if detach {
				m.Payload = nil
			}
			enc, err := m.MarshalCBOR()
			var m2 cose.SignMessage
			if err == nil {
				err = m2.UnmarshalCBOR(enc)
			}
			if err != nil {
				fail("wire round trip failed", err)
				continue
			}
			if detach {
				m2.Payload = payload
			}
			if err := m2.Verify(ext, verifiers...); err != nil {
				fail("SignMessage.Verify failed after the wire round trip", err)
				continue
			}
			e := ext
			if e == nil {
				e = []byte{}
			}
			body, ok := bstrContent(m2.Headers.RawProtected)
			for j, sg := range m2.Signatures {
				sp, ok2 := bstrContent(sg.Headers.RawProtected)
				if !ok || !ok2 || !stdVerify(keys[j], refTBSSig(body, sp, e, payload), sg.Signature) {
					fail(fmt.Sprintf("signer %d: signature not valid over the RFC Sig_structure (stdlib oracle)", j), nil)
				}
			}
			sw.nontrivial++
		case 3, 4: // countersignatures over decoded / constructed parents
			parentMsg := &cose.Sign1Message{Headers: goHeaders(&h), Payload: payload}
			pk := realKeyFor(realAlgs[r.intn(len(realAlgs))], r)
			ps, _, err := signerVerifier(pk, false)
			if err != nil {
				fail("cannot build signer", err)
				continue
			}
			parentMsg.Headers.Protected = cose.ProtectedHeader{cose.HeaderLabelAlgorithm: pk.alg}
			if err := parentMsg.Sign(rand.Reader, nil, ps); err != nil {
				fail("parent Sign failed", err)
				continue
			}
			var parent any = parentMsg
			if r.chance(1, 2) {
				enc, err := parentMsg.MarshalCBOR()
				var dec cose.Sign1Message
				if err == nil {
					err = dec.UnmarshalCBOR(enc)
				}
				if err != nil {
					fail("parent round trip failed", err)
					continue
				}
				parent = &dec
				if r.chance(1, 2) {
					parent = dec
				}
			}
			if kind == 3 {
				cs := cose.NewCountersignature()
				cs.Headers.Protected.SetAlgorithm(alg)
				if err := cs.Sign(rand.Reader, signer, parent, ext); err != nil {
					fail("Countersignature.Sign failed", err)
					continue
				}
				enc, err := cs.MarshalCBOR()
				var cs2 cose.Countersignature
				if err == nil {
					err = cs2.UnmarshalCBOR(enc)
				}
				if err != nil {
					fail("countersignature round trip failed", err)
					continue
				}
				if err := cs2.Verify(verifier, parent, ext); err != nil {
					fail("Countersignature.Verify failed after round trip", err)
					continue
				}
			} else {
				sig, err := cose.Countersign0(rand.Reader, signer, parent, ext)
				if err != nil {
					fail("Countersign0 failed", err)
					continue
				}
				if err := cose.VerifyCountersign0(verifier, parent, ext, sig); err != nil {
					fail("VerifyCountersign0 failed", err)
					continue
				}
			}
			sw.nontrivial++
		case 5: // hash envelope
			hv := sha256.Sum256(payload)
			hh := h
			out := hh.prot[:0:0]
			for _, e := range hh.prot {
				if !(e.label.kind == "int" && (e.label.i == 3 || e.label.i >= 258 && e.label.i <= 260)) {
					out = append(out, e)
				}
			}
			hh.prot = out
			out = hh.unprot[:0:0]
			for _, e := range hh.unprot {
				if !(e.label.kind == "int" && (e.label.i == 3 || e.label.i >= 258 && e.label.i <= 260)) {
					out = append(out, e)
				}
			}
			hh.unprot = out
			env, err := cose.SignHashEnvelope(rand.Reader, signer, goHeaders(&hh), cose.HashEnvelopePayload{
				HashAlgorithm: cose.AlgorithmSHA256, HashValue: hv[:], PreimageContentType: "text/plain", Location: "urn:x"})
			if err != nil {
				fail("SignHashEnvelope failed", err)
				continue
			}
			m, err := cose.VerifyHashEnvelope(verifier, env)
			if err != nil || !bytes.Equal(m.Payload, hv[:]) {
				fail("VerifyHashEnvelope refused the envelope SignHashEnvelope produced", err)
				continue
			}
			sw.nontrivial++
		}
	}
}

// ---------------------------------------------------------------- C03 / C07: foreign messages

// a conforming COSE_Sign1 built and signed by the harness alone (own encoder, stdlib crypto)
func foreignSign1(r *rng, k realKey, cfg *genCfg) (*W, []byte, []byte, string) {
	return foreignSign1Env(r, k, cfg, false)
}

func notGoverned(es []hentry) []hentry {
	out := es[:0:0]
	for _, e := range es {
		if !(e.label.kind == "int" && (e.label.i == 3 || e.label.i >= 258 && e.label.i <= 260)) {
			out = append(out, e)
		}
	}
	return out
}

// env: a conforming Hash_Envelope (label 258 in the protected bucket, no content type, SHA-256
// sized payload, no external data)
func foreignSign1Env(r *rng, k realKey, cfg *genCfg, env bool) (*W, []byte, []byte, string) {
	h := randHeaders(r, cfg)
	stripAlg(&h, int64(k.alg))
	h.prot = append(h.prot, hentry{hInt(1), hInt(int64(k.alg))})
	m := &msgSpec{kind: "s1", h: h, ext: randExt(r)}
	m.payload = randPayload(r, false)
	if m.payload == nil {
		m.payload = []byte{}
	}
	if env {
		m.h.prot, m.h.unprot = notGoverned(m.h.prot), notGoverned(m.h.unprot)
		m.h.prot = append(m.h.prot, hentry{hInt(258), hInt(-16)})
		if r.chance(1, 2) {
			m.h.prot = append(m.h.prot, hentry{hInt(259), hText("text/plain")})
		}
		m.ext = "-"
		m.payload = r.bytes(32)
	}
	root := m.wire(r, 40)
	ext := unhex(m.ext)
	if ext == nil {
		ext = []byte{}
	}
	root.Items[3].B = stdSign(k, refTBS1(root.Items[0].B, ext, m.payload))
	return root, m.payload, ext, m.ext
}

func realTamper(r *rng, n int, sw *sweep, mutate bool) {
	cfg := &genCfg{exoticSpell: 0, invalid: 0, depth: 1, maxEntries: 12}
	for i := 0; i < n; i++ {
		alg := realAlgs[r.intn(len(realAlgs))]
		k := realKeyFor(alg, r)
		verifier, err := cose.NewVerifier(k.alg, k.pub)
		if err != nil {
			sw.fail("tamper", err.Error(), "NewVerifier failed for a valid key")
			continue
		}
		env := r.chance(1, 5)
		root, payload, ext, exts := foreignSign1Env(r, k, cfg, env)
		top := wTag(18, root)
		wire := top.enc()
		vext := ext
		edits := "none"
		if mutate {
			switch r.intn(9) {
			case 8: // other renderings of the same (r, s): stripped / extra leading zeros, DER
				edits = "ecdsa-form"
				if k.name == "ecdsa" {
					sg := root.Items[3].B
					n := len(sg) / 2
					rr, ss := new(big.Int).SetBytes(sg[:n]), new(big.Int).SetBytes(sg[n:])
					if k.alg == cose.AlgorithmES512 {
						// find a signature whose halves both start with a zero byte (1 in 4 on P-521)
						// so that every "shortened halves" rendering exists
						for try := 0; try < 60 && !(sg[0] == 0 && sg[n] == 0); try++ {
							sg = stdSign(k, refTBS1(root.Items[0].B, ext, payload))
						}
						n = len(sg) / 2
						rr, ss = new(big.Int).SetBytes(sg[:n]), new(big.Int).SetBytes(sg[n:])
					}
					switch r.intn(5) {
					case 0:
						root.Items[3].B = append(append([]byte{}, rr.Bytes()...), ss.Bytes()...)
					case 1:
						root.Items[3].B = derSig(rr, ss)
					case 2:
						root.Items[3].B = append(leftPadBytes(rr.Bytes(), n+1), leftPadBytes(ss.Bytes(), n+1)...)
					case 3:
						root.Items[3].B = append(leftPadBytes(rr.Bytes(), n-1), leftPadBytes(ss.Bytes(), n-1)...)
					case 4:
						root.Items[3].B = append(append([]byte{}, sg...), 0)
					}
					wire = top.enc()
				}
			case 0, 1:
				wire = mutateRaw(r, wire)
				edits = "raw"
				if r.chance(1, 3) {
					wire = mutateRaw(r, wire)
				}
			case 2:
				mutateTree(r, top)
				wire = top.enc()
				edits = "struct"
			case 3: // change the external data only
				vext = append(append([]byte{}, ext...), 1)
				edits = "ext"
			case 4: // unprotected-only change: verdict must stay valid
				root.Items[1].Items = append(root.Items[1].Items, wInt(int64(1000+r.intn(50))), wInt(5))
				wire = top.enc()
				edits = "unprot"
			case 5: // re-encode the protected map canonically (changes protected bytes unless already canonical)
				edits = "reencode-protected"
				inner := entriesWire(nil)
				_ = inner
				pc := append([]byte{}, root.Items[0].B...)
				if len(pc) > 0 {
					pc[len(pc)-1] ^= 0x01
				}
				root.Items[0].B = pc
				wire = top.enc()
			case 6: // transplant the signature of another message
				root2, _, _, _ := foreignSign1(r, k, cfg)
				root.Items[3].B = root2.Items[3].B
				wire = top.enc()
				edits = "transplant"
			case 7: // other key
				k2 := realKeyFor(alg, r)
				if v2, err := cose.NewVerifier(k2.alg, k2.pub); err == nil {
					verifier, k = v2, k2
				}
				edits = "otherkey"
			}
		}
		sw.evals++
		var m cose.Sign1Message
		desc := fmt.Sprintf("alg=%d edits=%s ext=%s wire=%s", alg, edits, exts, hex.EncodeToString(wire))
		if err := m.UnmarshalCBOR(wire); err != nil {
			if !mutate {
				sw.fail("foreign", desc, "a conforming message from an independent encoder was refused: "+err.Error())
			}
			continue
		}
		got := m.Verify(vext, verifier)
		// oracle: stdlib verification over the RFC structure of the received bytes
		content, ok := bstrContent(m.Headers.RawProtected)
		want := ok && m.Payload != nil && stdVerify(k, refTBS1(content, vext, m.Payload), m.Signature)
		// the algorithm gate: alg in the received protected bytes must equal the verifier's
		if a, err := m.Headers.Protected.Algorithm(); err != nil || a != k.alg {
			want = false
		}
		if (got == nil) != want {
			sw.fail("tamper", desc+fmt.Sprintf(" got=%v want=%v", got, want), "Verify verdict differs from stdlib verification over the RFC Sig_structure of the received bytes")
			continue
		}
		if got != nil && want == false && edits == "none" {
			sw.fail("foreign", desc, "unmodified conforming message does not verify")
		}
		if edits == "unprot" && got != nil {
			sw.fail("tamper", desc, "a change confined to the unprotected headers changed the verdict")
		}
		if env {
			// VerifyHashEnvelope recomputes the same Sig_structure from the received bytes: it returns a
			// message only if the signature is valid, and it accepts the untouched conforming envelope
			_, herr := cose.VerifyHashEnvelope(verifier, wire)
			wantNoExt := ok && m.Payload != nil && stdVerify(k, refTBS1(content, []byte{}, m.Payload), m.Signature)
			if a, err := m.Headers.Protected.Algorithm(); err != nil || a != k.alg {
				wantNoExt = false
			}
			if herr == nil && !wantNoExt {
				sw.fail("tamper", desc, "VerifyHashEnvelope accepted an envelope whose signature is not valid over the received bytes (stdlib oracle)")
				continue
			}
			if herr != nil && edits == "none" {
				sw.fail("foreign", desc, "VerifyHashEnvelope refused a conforming envelope from an independent encoder: "+herr.Error())
				continue
			}
		}
		if got == nil || edits != "none" {
			sw.nontrivial++
		}
		_ = payload
	}
}

// ---------------------------------------------------------------- C14: keys through COSE_Key

func realKeySV(r *rng, n int, sw *sweep) {
	for i := 0; i < n; i++ {
		var priv crypto.Signer
		var alg cose.Algorithm
		desc := ""
		if r.chance(1, 5) {
			seed := sha256.Sum256(r.bytes(8))
			priv, alg = ed25519.NewKeyFromSeed(seed[:]), cose.AlgorithmEdDSA
			desc = "ed25519 seed=" + hex.EncodeToString(seed[:])
		} else {
			cn := []string{"p256", "p384", "p521"}[r.intn(3)]
			c, a := curveOf(cn)
			size := (c.Params().BitSize + 7) / 8
			var k *ecdsa.PrivateKey
			// prefer keys with a leading zero byte in x, y or d
			for try := 0; try < 600; try++ {
				k = detKey(c, fmt.Sprintf("sv%d-%d", i, r.next()))
				if len(k.X.Bytes()) < size || len(k.Y.Bytes()) < size || len(k.D.Bytes()) < size {
					break
				}
			}
			priv, alg = k, a
			desc = fmt.Sprintf("%s xlen=%d ylen=%d dlen=%d d=%x", cn, len(k.X.Bytes()), len(k.Y.Bytes()), len(k.D.Bytes()), k.D.Bytes())
		}
		sw.evals++
		ck, err := cose.NewKeyFromPrivate(priv)
		if err != nil {
			sw.fail("keysv", desc, "NewKeyFromPrivate failed: "+err.Error())
			continue
		}
		enc, err := ck.MarshalCBOR()
		var ck2 cose.Key
		if err == nil {
			err = ck2.UnmarshalCBOR(enc)
		}
		if err != nil {
			sw.fail("keysv", desc, "COSE_Key round trip failed: "+err.Error())
			continue
		}
		if ek, ok := priv.(*ecdsa.PrivateKey); ok {
			_, x, y, _ := ck2.EC2()
			size := (ek.Curve.Params().BitSize + 7) / 8
			if len(x) != size || len(y) != size {
				sw.fail("keysv", desc, fmt.Sprintf("serialised coordinate not full width: x=%d y=%d want %d", len(x), len(y), size))
				continue
			}
			p2, err := ck2.PrivateKey()
			if err != nil || !p2.(*ecdsa.PrivateKey).Equal(ek) {
				sw.fail("keysv", desc, "private key does not round-trip")
				continue
			}
		} else {
			p2, err := ck2.PrivateKey()
			if err != nil || !p2.(ed25519.PrivateKey).Equal(priv) {
				sw.fail("keysv", desc, "private key does not round-trip")
				continue
			}
		}
		// signer from the COSE_Key, verifier from its public counterpart (separately serialised)
		pubKey, err := cose.NewKeyFromPublic(priv.Public())
		var pub2 cose.Key
		if err == nil {
			var b []byte
			b, err = pubKey.MarshalCBOR()
			if err == nil {
				err = pub2.UnmarshalCBOR(b)
			}
		}
		if err != nil {
			sw.fail("keysv", desc, "public COSE_Key round trip failed: "+err.Error())
			continue
		}
		s, err1 := ck2.Signer()
		v, err2 := pub2.Verifier()
		if err1 != nil || err2 != nil {
			sw.fail("keysv", desc, fmt.Sprintf("Signer/Verifier from COSE_Key failed: %v %v", err1, err2))
			continue
		}
		content := r.bytes(r.intn(40))
		sig, err := s.Sign(rand.Reader, content)
		if err != nil || v.Verify(content, sig) != nil {
			sw.fail("keysv", desc, "signature from the COSE_Key signer is refused by the verifier of its public counterpart")
			continue
		}
		if !stdVerify(realKey{alg: alg, name: map[bool]string{true: "ed25519", false: "ecdsa"}[alg == cose.AlgorithmEdDSA], pub: priv.Public()}, content, sig) {
			sw.fail("keysv", desc, "signature not valid under the original Go key (stdlib oracle)")
			continue
		}
		sw.nontrivial++
	}
}

// ---------------------------------------------------------------- C17: digest equivalence

func realDigest(r *rng, n int, sw *sweep) {
	for i := 0; i < n; i++ {
		alg := []cose.Algorithm{cose.AlgorithmES256, cose.AlgorithmES384, cose.AlgorithmES512, cose.AlgorithmPS256, cose.AlgorithmPS384, cose.AlgorithmPS512}[r.intn(6)]
		k := realKeyFor(alg, r)
		if k.name == "ecdsa" && r.chance(1, 2) {
			// any supported curve under any ES algorithm (the hash is the algorithm's, whatever the curve)
			c := []elliptic.Curve{elliptic.P256(), elliptic.P384(), elliptic.P521()}[r.intn(3)]
			ek := detKey(c, fmt.Sprintf("mix%d", r.intn(4)))
			k = realKey{alg, "ecdsa", ek, &ek.PublicKey}
		}
		var sk crypto.Signer = k.priv
		if r.chance(1, 2) {
			sk = wrapped{k.priv} // an opaque crypto.Signer (HSM-style): ASN.1 → fixed width for ECDSA, PSS options for RSA
			if r.chance(1, 2) {
				// … one that, as the crypto.Signer contract allows, consults opts.HashFunc()
				sk = optsReading{k.priv, hashOf(alg)}
			}
		}
		s, err := cose.NewSigner(alg, sk)
		v, err2 := cose.NewVerifier(alg, k.pub)
		sw.evals++
		if err != nil || err2 != nil {
			sw.fail("digest", fmt.Sprint(alg), "NewSigner/NewVerifier failed")
			continue
		}
		ds, ok1 := s.(cose.DigestSigner)
		dv, ok2 := v.(cose.DigestVerifier)
		if !ok1 || !ok2 {
			sw.fail("digest", fmt.Sprint(alg), "built-in signer/verifier lacks the digest entry point")
			continue
		}
		content := r.bytes(r.intn(100))
		dg := hashFor(alg, content)
		sig1, e1 := s.Sign(rand.Reader, content)
		sig2, e2 := ds.SignDigest(rand.Reader, dg)
		desc := fmt.Sprintf("alg=%d content=%x", alg, content)
		if ek, ok := k.pub.(*ecdsa.PublicKey); ok {
			_, isW := sk.(wrapped)
			desc += fmt.Sprintf(" curve=%s opaque-key=%v", ek.Curve.Params().Name, isW)
		}
		if e1 != nil || e2 != nil {
			sw.fail("digest", desc, "signing failed")
			continue
		}
		for j, sig := range [][]byte{sig1, sig2} {
			if v.Verify(content, sig) != nil || dv.VerifyDigest(dg, sig) != nil {
				sw.fail("digest", desc, fmt.Sprintf("signature from entry point %d does not verify through both Verify and VerifyDigest", j))
			}
			if !stdVerify(k, content, sig) {
				sw.fail("digest", desc, "signature invalid under the algorithm's hash (stdlib oracle)")
			}
			// no other hash
			for _, other := range []cose.Algorithm{cose.AlgorithmES256, cose.AlgorithmES384, cose.AlgorithmES512} {
				od := hashFor(other, content)
				if len(od) != len(dg) && dv.VerifyDigest(od, sig) == nil {
					sw.fail("digest", desc, "signature verifies against a digest under another hash")
				}
			}
		}
		if k.name == "ecdsa" {
			// "and with no other hash", the key held fixed: what another ES algorithm's signer made
			// on this very key — over that algorithm's digest — must not pass this algorithm's
			// VerifyDigest when handed that digest, nor may this algorithm's SignDigest sign it;
			// a digest with octets appended or cut, or none at all, is no digest of this hash
			for _, other := range []cose.Algorithm{cose.AlgorithmES256, cose.AlgorithmES384, cose.AlgorithmES512} {
				od := hashFor(other, content)
				if len(od) == len(dg) {
					continue
				}
				if s2, e := cose.NewSigner(other, sk); e == nil {
					if osig, e := s2.Sign(rand.Reader, content); e == nil && dv.VerifyDigest(od, osig) == nil {
						sw.fail("digest", desc+fmt.Sprintf(" other=%d", other), "VerifyDigest accepted a signature made under another algorithm's hash on the same key")
					}
				}
				if osig, e := ds.SignDigest(rand.Reader, od); e == nil || len(osig) != 0 {
					sw.fail("digest", desc+fmt.Sprintf(" other=%d", other), "SignDigest signed a digest of another hash's length")
				}
			}
			for name, bad := range map[string][]byte{"digest|junk": append(append([]byte{}, dg...), 1, 2, 3), "digest[:-1]": dg[:len(dg)-1], "nil": nil} {
				if dv.VerifyDigest(bad, sig2) == nil {
					sw.fail("digest", desc+" digest="+name, "VerifyDigest accepted a digest that is not of the algorithm's hash length")
				}
				if osig, e := ds.SignDigest(rand.Reader, bad); e == nil || len(osig) != 0 {
					sw.fail("digest", desc+" digest="+name, "SignDigest signed a digest that is not of the algorithm's hash length")
				}
			}
		}
		// one signer object, two different messages: the first signature is still the first
		// message's after the second was issued (no shared output buffer)
		{
			c1, c2 := append([]byte("first "), content...), append([]byte("second "), content...)
			a1, ea := s.Sign(rand.Reader, c1)
			keep := append([]byte(nil), a1...)
			a2, eb := s.Sign(rand.Reader, c2)
			d3, ec := ds.SignDigest(rand.Reader, hashFor(alg, c2))
			if ea != nil || eb != nil || ec != nil {
				sw.fail("digest", desc, "signing failed")
			} else if !bytes.Equal(a1, keep) {
				sw.fail("digest", desc, "a signature returned earlier was overwritten by a later call on the same signer")
			} else if v.Verify(c1, a1) != nil || v.Verify(c2, a2) != nil || v.Verify(c2, d3) != nil || !stdVerify(k, c1, a1) {
				sw.fail("digest", desc, "signatures over two messages from one signer object do not both verify")
			}
		}
		if k.name == "ecdsa" {
			// the digest entry point is as strict about the rendering of (r, s) as Verify is
			n0 := len(sig2) / 2
			rr, ss := sig2[:n0], sig2[n0:]
			cat := func(parts ...[]byte) []byte { return bytes.Join(parts, nil) }
			z := []byte{0}
			forms := map[string][]byte{
				"00|r|00|s": cat(z, rr, z, ss), "0000|r|0000|s": cat(z, z, rr, z, z, ss), "r|00|s": cat(rr, z, ss),
				"00|r|s": cat(z, rr, ss), "r|s|00": cat(rr, ss, z), "r|s[1:]": cat(rr, ss[1:]), "r[1:]|s[1:]": cat(rr[1:], ss[1:]),
				"der": derSig(new(big.Int).SetBytes(rr), new(big.Int).SetBytes(ss)), "empty": {},
			}
			for name, f := range forms {
				if bytes.Equal(f, sig2) {
					continue
				}
				if dv.VerifyDigest(dg, f) == nil || v.Verify(content, f) == nil {
					sw.fail("digest", desc+" form="+name, "a re-rendered (r, s) is accepted by Verify / VerifyDigest")
				}
			}
		}
		if k.name == "ecdsa" {
			nb := (k.pub.(*ecdsa.PublicKey).Curve.Params().N.BitLen() + 7) / 8
			if len(sig1) != 2*nb || len(sig2) != 2*nb {
				sw.fail("digest", desc, "ECDSA signature is not 2n bytes")
			}
		}
		sw.nontrivial++
	}
}

// ---------------------------------------------------------------- C18: concurrency (run under -race)

func realConc(r *rng, n int, sw *sweep) {
	cfg := &genCfg{exoticSpell: 20, invalid: 0, depth: 1, maxEntries: 10, goSide: true}
	for i := 0; i < n; i++ {
		alg := realAlgs[r.intn(len(realAlgs))]
		k := realKeyFor(alg, r)
		signer, verifier, err := signerVerifier(k, false)
		if err != nil {
			sw.fail("conc", "", "cannot build signer")
			continue
		}
		h := randHeaders(r, cfg)
		stripAlg(&h, int64(alg))
		h.prot = append(h.prot, hentry{hInt(1), hAlg(int64(alg))})
		payload := r.bytes(r.intn(50))
		m := &cose.Sign1Message{Headers: goHeaders(&h), Payload: payload}
		if err := m.Sign(rand.Reader, nil, signer); err != nil {
			sw.fail("conc", h.gotext(), "Sign failed: "+err.Error())
			continue
		}
		// half of the runs use a decoded message
		if r.chance(1, 2) {
			enc, err := m.MarshalCBOR()
			var d cose.Sign1Message
			if err == nil {
				err = d.UnmarshalCBOR(enc)
			}
			if err != nil {
				sw.fail("conc", h.gotext(), "round trip failed")
				continue
			}
			m = &d
		}
		cs := cose.NewCountersignature()
		cs.Headers.Protected.SetAlgorithm(alg)
		if err := cs.Sign(rand.Reader, signer, m, nil); err != nil {
			sw.fail("conc", h.gotext(), "countersign failed")
			continue
		}
		hv := sha256.Sum256(payload)
		env, err := cose.SignHashEnvelope(rand.Reader, signer, cose.Headers{}, cose.HashEnvelopePayload{HashAlgorithm: cose.AlgorithmSHA256, HashValue: hv[:]})
		if err != nil {
			sw.fail("conc", "", "SignHashEnvelope failed")
			continue
		}
		var ck *cose.Key
		if k.name != "rsa" {
			ck, _ = cose.NewKeyFromPublic(k.pub)
		}
		before := dumpSign1(m) + dumpSignature((*cose.Signature)(cs))
		seqEnc, _ := m.MarshalCBOR()
		const G = 8
		var wg sync.WaitGroup
		errs := make([]string, G)
		for g := 0; g < G; g++ {
			wg.Add(1)
			go func(g int) {
				defer wg.Done()
				for it := 0; it < 4; it++ {
					if err := m.Verify(nil, verifier); err != nil {
						errs[g] = "Verify: " + err.Error()
					}
					if enc, err := m.MarshalCBOR(); err != nil || !bytes.Equal(enc, seqEnc) {
						errs[g] = "MarshalCBOR differs from the sequential result"
					}
					if err := cs.Verify(verifier, m, nil); err != nil {
						errs[g] = "Countersignature.Verify: " + err.Error()
					}
					if _, err := cose.VerifyHashEnvelope(verifier, env); err != nil {
						errs[g] = "VerifyHashEnvelope: " + err.Error()
					}
					if ck != nil {
						if _, err := ck.Verifier(); err != nil {
							errs[g] = "Key.Verifier: " + err.Error()
						}
						if _, err := ck.MarshalCBOR(); err != nil {
							errs[g] = "Key.MarshalCBOR: " + err.Error()
						}
					}
					// one signer, distinct messages
					mm := &cose.Sign1Message{Headers: cose.Headers{Protected: cose.ProtectedHeader{cose.HeaderLabelAlgorithm: alg}}, Payload: []byte{byte(g), byte(it)}}
					if err := mm.Sign(rand.Reader, nil, signer); err != nil {
						errs[g] = "concurrent Sign: " + err.Error()
					} else if err := mm.Verify(nil, verifier); err != nil {
						errs[g] = "concurrent Sign produced a signature that does not verify"
					}
				}
			}(g)
		}
		wg.Wait()
		sw.evals++
		bad := false
		for _, e := range errs {
			if e != "" {
				sw.fail("conc", h.gotext(), e)
				bad = true
			}
		}
		if before != dumpSign1(m)+dumpSignature((*cose.Signature)(cs)) {
			sw.fail("conc", h.gotext(), "a shared value was modified by read-only operations")
			bad = true
		}
		if !bad {
			sw.nontrivial++
		}
	}
	_ = strings.Join
}

// ---------------------------------------------------------------- C20: failing entropy sources

type errReader struct{}

func (errReader) Read([]byte) (int, error) { return 0, errSigner }

// delivers `left` bytes, then fails
type shortReader struct{ left int }

func (s *shortReader) Read(p []byte) (int, error) {
	if s.left <= 0 {
		return 0, io.ErrUnexpectedEOF
	}
	n := len(p)
	if n > s.left {
		n = s.left
	}
	for i := 0; i < n; i++ {
		p[i] = 0x42
	}
	s.left -= n
	return n, nil
}

func realEntropy(r *rng, n int, sw *sweep) {
	algs := []cose.Algorithm{cose.AlgorithmES256, cose.AlgorithmES384, cose.AlgorithmES512, cose.AlgorithmPS256, cose.AlgorithmPS384, cose.AlgorithmPS512}
	for i := 0; i < n; i++ {
		alg := algs[r.intn(len(algs))]
		k := realKeyFor(alg, r)
		signer, verifier, err := signerVerifier(k, false)
		if err != nil {
			sw.fail("entropy", "", "cannot build signer")
			continue
		}
		var rd io.Reader = errReader{}
		rdName := "err"
		if r.chance(1, 2) {
			left := r.intn(24)
			rd, rdName = &shortReader{left: left}, fmt.Sprintf("short%d", left)
		}
		desc := fmt.Sprintf("alg=%d reader=%s", alg, rdName)
		hdr := func() cose.Headers {
			return cose.Headers{Protected: cose.ProtectedHeader{cose.HeaderLabelAlgorithm: alg}, Unprotected: cose.UnprotectedHeader{}}
		}
		sw.evals++
		// Sign1Message.Sign
		m := &cose.Sign1Message{Headers: hdr(), Payload: []byte("payload")}
		err = m.Sign(rd, nil, signer)
		if err == nil {
			// the primitive may legitimately not need (that much) entropy: then the result must be valid
			if m.Verify(nil, verifier) != nil {
				sw.fail("entropy", desc, "Sign returned nil with a failing entropy source and the signature does not verify")
			}
		} else {
			if len(m.Signature) != 0 {
				sw.fail("entropy", desc, "a signature was stored although Sign returned an error")
			}
			if b, e := m.MarshalCBOR(); e == nil || b != nil {
				sw.fail("entropy", desc, "a message whose signing failed can be serialised")
			}
			sw.nontrivial++
		}
		// helper
		if b, e := cose.Sign1(rd, signer, hdr(), []byte("p"), nil); e != nil && b != nil {
			sw.fail("entropy", desc, "Sign1 helper returned bytes together with an error")
		}
		// COSE_Sign: first signer has good entropy … no: one reader for all signers; use a reader
		// that survives the first signature only
		sm := &cose.SignMessage{Headers: cose.Headers{Protected: cose.ProtectedHeader{}, Unprotected: cose.UnprotectedHeader{}}, Payload: []byte("p"),
			Signatures: []*cose.Signature{{Headers: hdr()}, {Headers: hdr()}}}
		e2 := sm.Sign(&shortReader{left: 40 + r.intn(200)}, nil, signer, signer)
		if e2 != nil {
			empty := 0
			for _, sg := range sm.Signatures {
				if len(sg.Signature) == 0 {
					empty++
				}
			}
			if empty == 0 {
				sw.fail("entropy", desc, "SignMessage.Sign failed but every slot holds a signature")
			}
			if b, e := sm.MarshalCBOR(); e == nil || b != nil {
				sw.fail("entropy", desc, "half-signed COSE_Sign can be serialised")
			}
		} else if sm.Verify(nil, verifier, verifier) != nil {
			sw.fail("entropy", desc, "SignMessage.Sign returned nil but the result does not verify")
		}
		// countersignature and hash envelope
		parent := &cose.Sign1Message{Headers: hdr(), Payload: []byte("x"), Signature: []byte{1, 2, 3}}
		cs := cose.NewCountersignature()
		cs.Headers.Protected.SetAlgorithm(alg)
		if e := cs.Sign(rd, signer, parent, nil); e != nil && len(cs.Signature) != 0 {
			sw.fail("entropy", desc, "Countersignature.Sign stored a signature although it failed")
		}
		if sig, e := cose.Countersign0(rd, signer, parent, nil); e != nil && len(sig) != 0 {
			sw.fail("entropy", desc, "Countersign0 returned bytes together with an error")
		}
		hv := sha256.Sum256([]byte("x"))
		if b, e := cose.SignHashEnvelope(rd, signer, cose.Headers{}, cose.HashEnvelopePayload{HashAlgorithm: cose.AlgorithmSHA256, HashValue: hv[:]}); e != nil && b != nil {
			sw.fail("entropy", desc, "SignHashEnvelope returned bytes together with an error")
		}
	}
}
