package main

// real-crypto sweeps: placeholder, filled in below
func realSweep(family string, n int, seed uint64, args []string) int {
	return 0
}
