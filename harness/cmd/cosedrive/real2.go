package main

// Real-algorithm sweeps, second part: fixed cases run once at the start of a sweep (independent of
// the sampled budget).  Each came from a seeded change the sampled sweeps did not see.

import (
	"bytes"
	"crypto"
	"crypto/ecdsa"
	"crypto/ed25519"
	"crypto/elliptic"
	"crypto/rand"
	"crypto/rsa"
	"crypto/sha256"
	"fmt"
	"io"
	"math/big"

	cose "github.com/veraison/go-cose"
)

// ---------------------------------------------------------------- C01

// RSA moduli whose bit length is not a multiple of eight, and COSE_Key objects that are re-used.
func chainFixed(sw *sweep) {
	for _, bits := range []int{2049, 2052} {
		for _, alg := range []cose.Algorithm{cose.AlgorithmPS256, cose.AlgorithmPS384, cose.AlgorithmPS512} {
			k := rsaKey(bits)
			rk := realKey{alg, "rsa", k, &k.PublicKey}
			desc := fmt.Sprintf("rsa bits=%d alg=%d", bits, alg)
			sw.evals++
			s, err1 := cose.NewSigner(alg, k)
			v, err2 := cose.NewVerifier(alg, &k.PublicKey)
			if err1 != nil || err2 != nil {
				sw.fail("chain", desc, fmt.Sprintf("NewSigner/NewVerifier failed for an RSA key of at least 2048 bits: %v %v", err1, err2))
				continue
			}
			payload, ext := []byte("odd modulus"), []byte{1, 2}
			m := &cose.Sign1Message{Headers: cose.Headers{Protected: cose.ProtectedHeader{cose.HeaderLabelAlgorithm: alg}}, Payload: payload}
			if err := m.Sign(rand.Reader, ext, s); err != nil {
				sw.fail("chain", desc, "Sign failed: "+err.Error())
				continue
			}
			if err := m.Verify(ext, v); err != nil {
				sw.fail("chain", desc, "in-memory Verify failed after Sign: "+err.Error())
				continue
			}
			enc, err := m.MarshalCBOR()
			var m2 cose.Sign1Message
			if err == nil {
				err = m2.UnmarshalCBOR(enc)
			}
			if err != nil {
				sw.fail("chain", desc, "wire round trip failed: "+err.Error())
				continue
			}
			if err := m2.Verify(ext, v); err != nil {
				sw.fail("chain", desc, "Verify failed after the wire round trip: "+err.Error())
				continue
			}
			content, ok := bstrContent(m2.Headers.RawProtected)
			if !ok || !stdVerify(rk, refTBS1(content, ext, payload), m2.Signature) {
				sw.fail("chain", desc, "signature is not valid over the RFC 9052 Sig_structure (stdlib oracle)")
				continue
			}
			cs := cose.NewCountersignature()
			cs.Headers.Protected.SetAlgorithm(alg)
			if err := cs.Sign(rand.Reader, s, &m2, nil); err != nil || cs.Verify(v, m2, nil) != nil {
				sw.fail("chain", desc, "countersignature does not verify")
				continue
			}
			sw.nontrivial++
		}
	}
	// one Key variable, loaded with different key material in turn: the signer obtained after each
	// load signs with the material loaded last
	type form struct {
		name string
		mk   func(i int) (*cose.Key, realKey)
	}
	edKey := func(i int, withX bool) (*cose.Key, realKey) {
		seed := sha256.Sum256([]byte(fmt.Sprintf("reuse-ed-%d", i)))
		sk := ed25519.NewKeyFromSeed(seed[:])
		ck := &cose.Key{Type: cose.KeyTypeOKP, Params: map[any]any{cose.KeyLabelOKPCurve: cose.CurveEd25519, cose.KeyLabelOKPD: append([]byte{}, seed[:]...)}}
		if withX {
			ck.Params[cose.KeyLabelOKPX] = []byte(sk.Public().(ed25519.PublicKey))
		}
		return ck, realKey{cose.AlgorithmEdDSA, "ed25519", sk, sk.Public()}
	}
	forms := []form{
		{"okp-seed-only", func(i int) (*cose.Key, realKey) { return edKey(i, false) }},
		{"okp", func(i int) (*cose.Key, realKey) { return edKey(i, true) }},
		{"ec2", func(i int) (*cose.Key, realKey) {
			sk := detKey(elliptic.P256(), fmt.Sprintf("reuse-ec-%d", i))
			ck, err := cose.NewKeyFromPrivate(sk)
			if err != nil {
				panic("NewKeyFromPrivate")
			}
			return ck, realKey{cose.AlgorithmES256, "ecdsa", sk, &sk.PublicKey}
		}},
	}
	for _, f := range forms {
		for _, how := range []string{"decode-again", "edit-params"} {
			desc := "key-reuse form=" + f.name + " how=" + how
			var k cose.Key
			usable := true
			for i := 0; i < 3 && usable; i++ {
				ck, rk := f.mk(i)
				if how == "decode-again" || i == 0 {
					enc, err := ck.MarshalCBOR()
					if err == nil {
						err = k.UnmarshalCBOR(enc)
					}
					if err != nil {
						if i == 0 {
							usable = false // this key form is not accepted at all: nothing to check
							break
						}
						sw.fail("chain", desc, "COSE_Key round trip failed: "+err.Error())
						break
					}
				} else {
					for l, v := range ck.Params {
						k.Params[l] = v
					}
				}
				s, err := k.Signer()
				if err != nil {
					if i == 0 {
						usable = false
						break
					}
					sw.fail("chain", desc, "Signer() failed after the key was reloaded: "+err.Error())
					break
				}
				sw.evals++
				content := []byte(fmt.Sprintf("content %d", i))
				sig, err := s.Sign(rand.Reader, content)
				if err != nil || !stdVerify(rk, content, sig) {
					sw.fail("chain", fmt.Sprintf("%s load=%d", desc, i), "the signer obtained from a re-used Key variable does not sign with the key material loaded last (stdlib oracle)")
					break
				}
				// and the message level: sign, wire, verify under the matching public key
				pub, err := cose.NewKeyFromPublic(rk.pub)
				var v cose.Verifier
				if err == nil {
					v, err = pub.Verifier()
				}
				m := &cose.Sign1Message{Headers: cose.Headers{Protected: cose.ProtectedHeader{cose.HeaderLabelAlgorithm: rk.alg}}, Payload: content}
				if err == nil {
					err = m.Sign(rand.Reader, nil, s)
				}
				var enc []byte
				if err == nil {
					enc, err = m.MarshalCBOR()
				}
				var m2 cose.Sign1Message
				if err == nil {
					err = m2.UnmarshalCBOR(enc)
				}
				if err == nil {
					err = m2.Verify(nil, v)
				}
				if err != nil {
					sw.fail("chain", fmt.Sprintf("%s load=%d", desc, i), "sign → wire → verify failed with a re-used Key variable: "+err.Error())
					break
				}
				sw.nontrivial++
			}
		}
	}
}

// ---------------------------------------------------------------- C03

// an RSASSA-PSS signature is exactly k octets: a valid signature that happens to begin with a zero
// octet must stop verifying when that octet is dropped, and any signature when one is prepended
func tamperFixed(sw *sweep) {
	for _, alg := range []cose.Algorithm{cose.AlgorithmPS256, cose.AlgorithmPS384, cose.AlgorithmPS512} {
		k := rsaKey(2048)
		rk := realKey{alg, "rsa", k, &k.PublicKey}
		v, err := cose.NewVerifier(alg, &k.PublicKey)
		if err != nil {
			sw.fail("tamper", "rsa", "NewVerifier failed")
			continue
		}
		// RFC 8230: the PSS salt is as long as the hash.  Signatures by the right key over the right
		// bytes with any other salt length, or with another hash, are not valid PS256/384/512
		{
			h := hashOf(alg)
			content := []byte("salt length")
			dg := hashFor(alg, content)
			for _, salt := range []int{0, 1, 20, h.Size() - 1, h.Size(), h.Size() + 1, rsa.PSSSaltLengthAuto} {
				sig, err := rsa.SignPSS(rand.Reader, k, h, dg, &rsa.PSSOptions{SaltLength: salt})
				if err != nil {
					continue
				}
				sw.evals++
				got, want := v.Verify(content, sig), stdVerify(rk, content, sig)
				if (got == nil) != want {
					sw.fail("tamper", fmt.Sprintf("alg=%d pss-salt-length=%d", alg, salt), fmt.Sprintf("RSA verifier verdict %v differs from PSS verification with the salt length RFC 8230 fixes (%v)", got, want))
					continue
				}
				sw.nontrivial++
			}
			for _, other := range []cose.Algorithm{cose.AlgorithmPS256, cose.AlgorithmPS384, cose.AlgorithmPS512} {
				if other == alg {
					continue
				}
				oh := hashOf(other)
				sig, err := rsa.SignPSS(rand.Reader, k, oh, hashFor(other, content), &rsa.PSSOptions{SaltLength: rsa.PSSSaltLengthEqualsHash})
				if err != nil {
					continue
				}
				sw.evals++
				if v.Verify(content, sig) == nil {
					sw.fail("tamper", fmt.Sprintf("alg=%d signature-made-under=%d", alg, other), "a signature made under another hash verifies")
					continue
				}
				sw.nontrivial++
			}
		}
		content := []byte("rsa length")
		var sig []byte
		found := false
		for try := 0; try < 4000; try++ {
			sig = stdSign(rk, content)
			if sig[0] == 0 {
				found = true
				break
			}
		}
		forms := map[string][]byte{
			"prepended-zero": append([]byte{0}, sig...),
			"appended-zero":  append(append([]byte{}, sig...), 0),
			"first-dropped":  sig[1:],
			"last-dropped":   sig[:len(sig)-1],
		}
		for name, f := range forms {
			sw.evals++
			desc := fmt.Sprintf("alg=%d form=%s leading-zero=%v sig=%x", alg, name, found, f)
			got := v.Verify(content, f)
			want := stdVerify(rk, content, f)
			if (got == nil) != want {
				sw.fail("tamper", desc, fmt.Sprintf("RSA verifier verdict %v differs from stdlib PSS verification (%v) on a signature of another length", got, want))
				continue
			}
			// the same through a message
			m := &cose.Sign1Message{Headers: cose.Headers{Protected: cose.ProtectedHeader{cose.HeaderLabelAlgorithm: alg}}, Payload: []byte("p")}
			tbsContent, _ := m.Headers.MarshalProtected()
			c, _ := bstrContent(tbsContent)
			tbs := refTBS1(c, []byte{}, m.Payload)
			good := stdSign(rk, tbs)
			if found {
				for try := 0; try < 4000 && good[0] != 0; try++ {
					good = stdSign(rk, tbs)
				}
			}
			switch name {
			case "prepended-zero":
				m.Signature = append([]byte{0}, good...)
			case "appended-zero":
				m.Signature = append(append([]byte{}, good...), 0)
			case "first-dropped":
				m.Signature = good[1:]
			case "last-dropped":
				m.Signature = good[:len(good)-1]
			}
			enc, err := m.MarshalCBOR()
			var m2 cose.Sign1Message
			if err == nil {
				err = m2.UnmarshalCBOR(enc)
			}
			if err != nil {
				continue
			}
			if got, want := m2.Verify(nil, v), stdVerify(rk, tbs, m2.Signature); (got == nil) != want {
				sw.fail("tamper", desc, fmt.Sprintf("Sign1Message.Verify verdict %v differs from stdlib PSS verification (%v)", got, want))
				continue
			}
			sw.nontrivial++
		}
	}
}

// ---------------------------------------------------------------- C20: faulty keys under the built-in signers

// a crypto.Signer (HSM / KMS style) that fails
type faultyKey struct {
	inner crypto.Signer
	mode  string // "buf": an error together with a plausible, full-size buffer; "after": succeeds okN times, then fails
	okN   int
	calls int
}

func (f *faultyKey) Public() crypto.PublicKey { return f.inner.Public() }
func (f *faultyKey) Sign(rd io.Reader, digest []byte, opts crypto.SignerOpts) ([]byte, error) {
	f.calls++
	switch f.mode {
	case "buf":
		sig, err := f.inner.Sign(rand.Reader, digest, opts)
		if err != nil {
			return nil, err
		}
		if _, isEC := f.inner.Public().(*ecdsa.PublicKey); !isEC {
			for i := range sig {
				sig[i] ^= 0x5c
			}
		}
		return sig, errSigner
	case "after":
		if f.calls > f.okN {
			return nil, errSigner
		}
	}
	return f.inner.Sign(rd, digest, opts)
}

func entropyFixed(sw *sweep) {
	r := &rng{s: 77}
	for _, alg := range realAlgs {
		for _, mode := range []string{"buf", "after0", "after1"} {
			k := realKeyFor(alg, r)
			newSigner := func() (cose.Signer, *faultyKey) {
				fk := &faultyKey{inner: k.priv, mode: "buf"}
				if mode != "buf" {
					fk.mode, fk.okN = "after", int(mode[5]-'0')
				}
				s, err := cose.NewSigner(alg, fk)
				if err != nil {
					return nil, nil
				}
				return s, fk
			}
			desc := fmt.Sprintf("alg=%d faulty-key=%s", alg, mode)
			hdr := func() cose.Headers {
				return cose.Headers{Protected: cose.ProtectedHeader{cose.HeaderLabelAlgorithm: alg}, Unprotected: cose.UnprotectedHeader{}}
			}
			// every entry point is run `okN+1` times with the SAME signer and the SAME content: the
			// first okN runs succeed, the last one must report the key's error and leave nothing behind
			runs := 1
			if mode == "after1" {
				runs = 2
			}
			type entry struct {
				name string
				run  func(s cose.Signer) (err error, leaked bool)
			}
			parent := &cose.Sign1Message{Headers: hdr(), Payload: []byte("x"), Signature: []byte{1, 2, 3}}
			hv := sha256.Sum256([]byte("x"))
			entries := []entry{
				{"Sign1Message.Sign", func(s cose.Signer) (error, bool) {
					m := &cose.Sign1Message{Headers: hdr(), Payload: []byte("payload")}
					err := m.Sign(rand.Reader, nil, s)
					b, e := m.MarshalCBOR()
					return err, err != nil && (len(m.Signature) != 0 || e == nil || b != nil)
				}},
				{"Sign1", func(s cose.Signer) (error, bool) {
					b, err := cose.Sign1(rand.Reader, s, hdr(), []byte("p"), nil)
					return err, err != nil && b != nil
				}},
				{"Sign1Untagged", func(s cose.Signer) (error, bool) {
					b, err := cose.Sign1Untagged(rand.Reader, s, hdr(), []byte("p"), nil)
					return err, err != nil && b != nil
				}},
				{"Signature.Sign", func(s cose.Signer) (error, bool) {
					sg := &cose.Signature{Headers: hdr()}
					err := sg.Sign(rand.Reader, s, []byte{0x40}, []byte("p"), nil)
					return err, err != nil && len(sg.Signature) != 0
				}},
				{"Countersignature.Sign", func(s cose.Signer) (error, bool) {
					cs := cose.NewCountersignature()
					cs.Headers.Protected.SetAlgorithm(alg)
					err := cs.Sign(rand.Reader, s, parent, nil)
					return err, err != nil && len(cs.Signature) != 0
				}},
				{"Countersign0", func(s cose.Signer) (error, bool) {
					sig, err := cose.Countersign0(rand.Reader, s, parent, nil)
					return err, err != nil && len(sig) != 0
				}},
				{"SignHashEnvelope", func(s cose.Signer) (error, bool) {
					b, err := cose.SignHashEnvelope(rand.Reader, s, cose.Headers{}, cose.HashEnvelopePayload{HashAlgorithm: cose.AlgorithmSHA256, HashValue: hv[:]})
					return err, err != nil && b != nil
				}},
			}
			for _, e := range entries {
				s, fk := newSigner()
				if s == nil {
					sw.fail("entropy", desc, "NewSigner refused a crypto.Signer with a valid public key")
					break
				}
				sw.evals++
				var err error
				var leaked bool
				bad := false
				for i := 0; i < runs; i++ {
					err, leaked = e.run(s)
					if i < runs-1 && err != nil {
						sw.fail("entropy", desc+" entry="+e.name, "the call failed although the key had not failed yet: "+err.Error())
						bad = true
					}
				}
				if bad {
					continue
				}
				if err == nil {
					sw.fail("entropy", fmt.Sprintf("%s entry=%s key-calls=%d", desc, e.name, fk.calls), "the key reported an error and the call returned nil")
					continue
				}
				if leaked {
					sw.fail("entropy", desc+" entry="+e.name, "the call failed and still left signature bytes / a serialisable message behind")
					continue
				}
				sw.nontrivial++
			}
			// COSE_Sign with two slots served by ONE signer whose key fails on its second call: the
			// message must not be serialisable
			if mode == "after1" {
				s, _ := newSigner()
				sm := &cose.SignMessage{Headers: cose.Headers{Protected: cose.ProtectedHeader{}, Unprotected: cose.UnprotectedHeader{}}, Payload: []byte("p"),
					Signatures: []*cose.Signature{{Headers: hdr()}, {Headers: hdr()}}}
				err := sm.Sign(rand.Reader, nil, s, s)
				sw.evals++
				if err == nil {
					sw.fail("entropy", desc+" entry=SignMessage.Sign", "the key failed on the second slot and Sign returned nil")
				} else if b, e := sm.MarshalCBOR(); e == nil || b != nil {
					sw.fail("entropy", desc+" entry=SignMessage.Sign", "half-signed COSE_Sign can be serialised")
				} else if len(sm.Signatures[1].Signature) != 0 {
					sw.fail("entropy", desc+" entry=SignMessage.Sign", "the failed slot holds signature bytes")
				} else {
					sw.nontrivial++
				}
			}
		}
	}
	_ = bytes.Equal
}

// ---------------------------------------------------------------- C02 / C07: very large protected buckets

// Protected buckets around the sizes where the length prefix changes width or where a byte of the
// prefix becomes non-zero (2^16, 2^24), under every head width that can carry them.  The oracle is
// the harness's own RFC 9052 encoder (refTBS1); the Lean driver is not used at these sizes (its
// notation parser is not tail-recursive), the theorem `C02.detBstr_spec` covers every length.
type recVerifier struct {
	alg cose.Algorithm
	got [][]byte
}

func (v *recVerifier) Algorithm() cose.Algorithm { return v.alg }
func (v *recVerifier) Verify(content, sig []byte) error {
	v.got = append(v.got, append([]byte(nil), content...))
	return nil
}

func bigProtected(sw *sweep) {
	payload := []byte{0x50}
	for _, size := range []int{1<<16 - 1, 1 << 16, 1<<16 + 1, 1<<24 - 1, 1 << 24, 1<<24 + 1, 1<<24 + 1<<16} {
		var content []byte
		for pad := size - 9; pad <= size-4 && len(content) != size; pad++ {
			content = wMap(wInt(1), wInt(-7), wInt(4), wBstr(make([]byte, pad))).enc()
		}
		if len(content) != size {
			sw.fail("bigprot", fmt.Sprint(size), "harness could not build a protected map of this size")
			continue
		}
		for _, hw := range []int{2, 4, 8} {
			if hw < shortestHW(uint64(size)) {
				continue
			}
			prot := wBstr(content)
			prot.HW = hw
			want := refTBS1(content, []byte{}, payload)
			msg := wTag(18, wArr(prot, wMap(), wBstr(payload), wBstr([]byte{1, 2, 3}))).enc()
			desc := fmt.Sprintf("protected content of %d bytes under a %d-byte length prefix", size, hw)
			sw.evals++
			var m cose.Sign1Message
			if err := m.UnmarshalCBOR(msg); err != nil {
				sw.fail("bigprot", desc, "a conforming message was refused: "+err.Error())
				continue
			}
			v := &recVerifier{alg: cose.AlgorithmES256}
			if err := m.Verify(nil, v); err != nil || len(v.got) != 1 {
				sw.fail("bigprot", desc, fmt.Sprintf("Verify did not reach the verifier: %v", err))
				continue
			}
			if !bytes.Equal(v.got[0], want) {
				n := 24
				sw.fail("bigprot", desc+fmt.Sprintf(" verifier-input-head=%x want-head=%x", v.got[0][:n], want[:n]), "the verifier input is not the RFC 9052 Sig_structure with the protected bytes under their shortest length prefix")
				continue
			}
			// re-encoding keeps the received protected bytes
			if enc, err := m.MarshalCBOR(); err != nil || !bytes.Equal(enc, msg) {
				sw.fail("bigprot", desc, "re-encoding a decoded message changed its bytes")
				continue
			}
			// countersignature over it: the parent's protected bytes enter under the shortest prefix too
			v2 := &recVerifier{alg: cose.AlgorithmES256}
			if err := cose.VerifyCountersign0(v2, &m, nil, []byte{1}); err != nil || len(v2.got) != 1 {
				sw.fail("bigprot", desc, "VerifyCountersign0 did not reach the verifier")
				continue
			}
			wantCS := refCountersign0(content, []byte{}, payload, []byte{1, 2, 3})
			if wantCS != nil && !bytes.Equal(v2.got[0], wantCS) {
				sw.fail("bigprot", desc, "the abbreviated countersignature input is not the RFC 9338 structure over the parent's protected bytes under their shortest prefix")
				continue
			}
			sw.nontrivial++
		}
	}
}

// RFC 9338 §3.3 Countersign_structure of an abbreviated countersignature (version 2 context) over a COSE_Sign1
func refCountersign0(protContent, ext, payload, parentSig []byte) []byte {
	return wArr(wTstr("CounterSignature0V2"), wBstr(protContent), wBstr(nil), wBstr(ext), wBstr(payload), wArr(wBstr(parentSig))).enc()
}

// ---------------------------------------------------------------- C14: extreme coordinates

// Valid public keys whose x coordinate is 0 (the point (0, sqrt(b)) lies on each NIST curve), or
// whose coordinates are otherwise as short as they get: "leading zero bytes" taken to the limit.
// Round trip through COSE_Key: equal key back, serialised x and y of exactly the field size, and
// the verifier built from the COSE_Key accepts what a stdlib signature over the same key says.
func keysvFixed(sw *sweep) {
	for _, cn := range []string{"p256", "p384", "p521"} {
		c, alg := curveOf(cn)
		p := c.Params()
		size := (p.BitSize + 7) / 8
		var pubs []*ecdsa.PublicKey
		if y := new(big.Int).ModSqrt(p.B, p.P); y != nil {
			pubs = append(pubs, &ecdsa.PublicKey{Curve: c, X: new(big.Int), Y: y})
			pubs = append(pubs, &ecdsa.PublicKey{Curve: c, X: new(big.Int), Y: new(big.Int).Sub(p.P, y)})
		}
		// smallest positive x values that are on the curve
		for x := int64(1); x < 40 && len(pubs) < 8; x++ {
			X := big.NewInt(x)
			rhs := new(big.Int).Exp(X, big.NewInt(3), p.P)
			rhs.Sub(rhs, new(big.Int).Mul(big.NewInt(3), X))
			rhs.Add(rhs, p.B)
			rhs.Mod(rhs, p.P)
			if y := new(big.Int).ModSqrt(rhs, p.P); y != nil {
				pubs = append(pubs, &ecdsa.PublicKey{Curve: c, X: X, Y: y})
			}
		}
		for _, pk := range pubs {
			desc := fmt.Sprintf("%s public key x=%x (%d bytes) y=%d bytes", cn, pk.X.Bytes(), len(pk.X.Bytes()), len(pk.Y.Bytes()))
			if _, err := pk.ECDH(); err != nil {
				continue // not a valid key after all
			}
			sw.evals++
			ck, err := cose.NewKeyFromPublic(pk)
			if err != nil {
				sw.fail("keysv", desc, "NewKeyFromPublic refused a valid key: "+err.Error())
				continue
			}
			enc, err := ck.MarshalCBOR()
			var ck2 cose.Key
			if err == nil {
				err = ck2.UnmarshalCBOR(enc)
			}
			if err != nil {
				sw.fail("keysv", desc, "COSE_Key round trip failed: "+err.Error())
				continue
			}
			_, x, y, _ := ck2.EC2()
			if len(x) != size || len(y) != size {
				sw.fail("keysv", desc, fmt.Sprintf("serialised coordinate not full width: x=%d y=%d want %d (COSE_Key %x)", len(x), len(y), size, enc))
				continue
			}
			back, err := ck2.PublicKey()
			if err != nil {
				sw.fail("keysv", desc, "converting the parsed COSE_Key back failed: "+err.Error())
				continue
			}
			if bk, ok := back.(*ecdsa.PublicKey); !ok || !bk.Equal(pk) {
				sw.fail("keysv", desc, "the key that came back is not equal to the original")
				continue
			}
			if v, err := ck2.Verifier(); err != nil || v.Algorithm() != alg {
				sw.fail("keysv", desc, fmt.Sprintf("Verifier() from the parsed COSE_Key failed: %v", err))
				continue
			}
			sw.nontrivial++
		}
	}
}

// ---------------------------------------------------------------- C17: NewVerifier and points off the curve

// NewVerifier accepts a genuine point and refuses every neighbour of it that is not on the curve —
// before the genuine point was seen and after (no remembered verdicts)
func newVerifierFixed(sw *sweep) {
	for _, cn := range []string{"p256", "p384", "p521"} {
		c, alg := curveOf(cn)
		g := detKey(c, "nv-"+cn)
		bad := func() []*ecdsa.PublicKey {
			var out []*ecdsa.PublicKey
			for _, d := range []int64{1, 2, 3, 4, -1, -2} {
				out = append(out, &ecdsa.PublicKey{Curve: c, X: new(big.Int).Set(g.X), Y: new(big.Int).Add(g.Y, big.NewInt(d))})
				out = append(out, &ecdsa.PublicKey{Curve: c, X: new(big.Int).Add(g.X, big.NewInt(d)), Y: new(big.Int).Set(g.Y)})
			}
			out = append(out, &ecdsa.PublicKey{Curve: c, X: new(big.Int).Set(g.X), Y: new(big.Int).Add(g.Y, c.Params().P)})
			out = append(out, &ecdsa.PublicKey{Curve: c, X: new(big.Int), Y: new(big.Int)})
			return out
		}
		for round := 0; round < 2; round++ {
			for i, pk := range bad() {
				if _, err := pk.ECDH(); err == nil {
					continue // happens to be a valid point
				}
				sw.evals++
				if _, err := cose.NewVerifier(alg, pk); err == nil {
					sw.fail("digest", fmt.Sprintf("%s off-curve variant %d round=%d (0 = before, 1 = after the genuine key was accepted)", cn, i, round), "NewVerifier accepted a point that is not on the curve")
					continue
				}
				sw.nontrivial++
			}
			if _, err := cose.NewVerifier(alg, &g.PublicKey); err != nil {
				sw.fail("digest", cn, "NewVerifier refused a genuine key: "+err.Error())
			}
			// the other point with the same x is genuine as well
			neg := &ecdsa.PublicKey{Curve: c, X: new(big.Int).Set(g.X), Y: new(big.Int).Sub(c.Params().P, g.Y)}
			if _, err := cose.NewVerifier(alg, neg); err != nil {
				sw.fail("digest", cn, "NewVerifier refused the negated genuine point: "+err.Error())
			}
		}
	}
}

// optsReading: an opaque key that looks at the SignerOpts it is given, as KMS / PKCS#11 backed
// crypto.Signers do: nil opts or another hash than the algorithm's is an error
type optsReading struct {
	inner crypto.Signer
	want  crypto.Hash
}

func (o optsReading) Public() crypto.PublicKey { return o.inner.Public() }
func (o optsReading) Sign(rd io.Reader, digest []byte, opts crypto.SignerOpts) ([]byte, error) {
	if opts == nil {
		return nil, fmt.Errorf("harness: nil crypto.SignerOpts")
	}
	if opts.HashFunc() != o.want {
		return nil, fmt.Errorf("harness: SignerOpts name hash %v, the algorithm's is %v", opts.HashFunc(), o.want)
	}
	if len(digest) != o.want.Size() {
		return nil, fmt.Errorf("harness: digest of %d bytes for %v", len(digest), o.want)
	}
	return o.inner.Sign(rd, digest, opts)
}
