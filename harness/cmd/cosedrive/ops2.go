package main

// keys, ECDSA codec, NewSigner/NewVerifier matrix, decode histories, follow-up operations

import (
	"bytes"
	"crypto"
	"crypto/ecdsa"
	"crypto/ed25519"
	"crypto/elliptic"
	"crypto/rand"
	"crypto/rsa"
	"crypto/sha256"
	"crypto/sha512"
	"crypto/x509"
	"encoding/asn1"
	"fmt"
	"io"
	"math/big"
	"os"
	"path/filepath"
	"strconv"
	"strings"

	cose "github.com/veraison/go-cose"
)

func curveOf(name string) (elliptic.Curve, cose.Algorithm) {
	switch name {
	case "p224":
		return elliptic.P224(), cose.AlgorithmES256
	case "p256":
		return elliptic.P256(), cose.AlgorithmES256
	case "p384":
		return elliptic.P384(), cose.AlgorithmES384
	case "p521":
		return elliptic.P521(), cose.AlgorithmES512
	}
	panic("bad curve " + name)
}

func classOrAlg(alg cose.Algorithm, err error) string {
	if err != nil {
		return "err"
	}
	return "ok:" + strconv.FormatInt(int64(alg), 10)
}

// keyuse HEX : decode a COSE_Key and exercise every conversion
func opKeyUse(a []string) string {
	data := unhex(a[0])
	var k cose.Key
	if err := k.UnmarshalCBOR(data); err != nil {
		return "dec=err"
	}
	var sb strings.Builder
	sb.WriteString("dec=ok " + dumpKey(&k))
	if strippedTagWhereChecked("key", data) {
		sb.WriteString(" TAGGED-LABEL")
	}
	if keyAlgZeroOnWire(data) {
		sb.WriteString(" BAD-KEY(alg_0_on_the_wire)")
	}
	before := dumpKey(&k)
	pub, err := k.PublicKey()
	sb.WriteString(" pub=" + plainErr(err))
	oc := "-"
	if ek, ok := pub.(*ecdsa.PublicKey); ok && err == nil {
		oc = "f"
		if _, e := ek.ECDH(); e == nil {
			oc = "t"
		}
	}
	_, err = k.PrivateKey()
	sb.WriteString(" priv=" + plainErr(err))
	s, err := k.Signer()
	if err == nil {
		sb.WriteString(" signer=ok:" + strconv.FormatInt(int64(s.Algorithm()), 10))
	} else {
		sb.WriteString(" signer=" + plainErr(err))
	}
	v, err := k.Verifier()
	if err == nil {
		sb.WriteString(" verifier=ok:" + strconv.FormatInt(int64(v.Algorithm()), 10))
	} else {
		sb.WriteString(" verifier=" + plainErr(err))
	}
	sb.WriteString(" oc=" + oc)
	alg, err := k.AlgorithmOrDefault()
	sb.WriteString(" algd=" + classOrAlg(alg, err))
	// typed parameter accessors on every parameter (never panic, whatever the stored type)
	acc := []string{}
	for _, lbl := range []any{cose.KeyLabelEC2Curve, cose.KeyLabelEC2X, cose.KeyLabelEC2Y, cose.KeyLabelEC2D, "ext"} {
		fl := ""
		if _, ok := k.ParamBytes(lbl); ok {
			fl += "B"
		}
		if _, ok := k.ParamInt(lbl); ok {
			fl += "I"
		}
		if _, ok := k.ParamUint(lbl); ok {
			fl += "U"
		}
		if _, ok := k.ParamString(lbl); ok {
			fl += "S"
		}
		if _, ok := k.ParamBool(lbl); ok {
			fl += "T"
		}
		acc = append(acc, fl)
	}
	sb.WriteString(" acc=" + strings.Join(acc, "/"))
	enc, err := k.MarshalCBOR()
	if err != nil {
		sb.WriteString(" reenc=err")
	} else {
		sb.WriteString(" reenc=" + hx(enc))
		var k2 cose.Key
		if err := k2.UnmarshalCBOR(enc); err != nil {
			sb.WriteString(" redec=err")
		} else if enc2, err := k2.MarshalCBOR(); err != nil || !bytes.Equal(enc, enc2) {
			sb.WriteString(" redec=unstable")
		} else {
			sb.WriteString(" redec=ok")
		}
	}
	if before != dumpKey(&k) {
		sb.WriteString(" MUTATED")
	}
	return sb.String()
}

// keyrt CURVE X Y D [extras]  — coordinates as minimal big-endian hex ("" = 0), D "-" = public only
// extras: "+kid" sets ID/Ops/BaseIV/extra param before serialising.
func opKeyRT(a []string) string {
	extras := len(a) > 4 && strings.HasPrefix(a[4], "+")
	nExtra := 1
	if extras && len(a[4]) > 1 {
		nExtra, _ = strconv.Atoi(a[4][1:])
	}
	addExtras := func(key *cose.Key) {
		key.ID = []byte{1, 2}
		key.Ops = []cose.KeyOp{cose.KeyOpSign, cose.KeyOpVerify}
		key.BaseIV = []byte{9}
		key.Params["x-extra"] = int64(5)
		for i := 0; i < nExtra-1; i++ {
			key.Params[int64(-(100 + i))] = int64(i)
		}
	}
	if a[0] == "ed" {
		pub := unhex(a[1])
		var key *cose.Key
		var err error
		if a[3] == "-" {
			key, err = cose.NewKeyFromPublic(ed25519.PublicKey(pub))
		} else {
			seed := unhex(a[3])
			priv := ed25519.NewKeyFromSeed(seed)
			if a[1] != "" {
				// caller-chosen public half (not derived) to exercise the copy
				priv = ed25519.PrivateKey(append(append([]byte{}, seed...), pub...))
			}
			key, err = cose.NewKeyFromPrivate(priv)
			pub = priv[32:]
		}
		if err != nil {
			return "new=err"
		}
		if extras {
			addExtras(key)
		}
		enc, err := key.MarshalCBOR()
		if err != nil {
			return "enc=err"
		}
		var k2 cose.Key
		if err := k2.UnmarshalCBOR(enc); err != nil {
			return "ok " + hx(enc) + " dec=err"
		}
		res := "ok " + hx(enc)
		p2, err := k2.PublicKey()
		if err != nil || !bytes.Equal(p2.(ed25519.PublicKey), pub) {
			return res + " rt=pubdiff"
		}
		if a[3] != "-" {
			s2, err := k2.PrivateKey()
			if err != nil || !bytes.Equal(s2.(ed25519.PrivateKey)[:32], unhex(a[3])) || !bytes.Equal(s2.(ed25519.PrivateKey)[32:], pub) {
				return res + " rt=privdiff"
			}
		}
		return res + " rt=eq"
	}
	curve, _ := curveOf(a[0])
	x := new(big.Int).SetBytes(unhex(a[1]))
	y := new(big.Int).SetBytes(unhex(a[2]))
	pk := ecdsa.PublicKey{Curve: curve, X: x, Y: y}
	var key *cose.Key
	var err error
	var d *big.Int
	if a[3] == "-" {
		key, err = cose.NewKeyFromPublic(&pk)
	} else {
		d = new(big.Int).SetBytes(unhex(a[3]))
		key, err = cose.NewKeyFromPrivate(&ecdsa.PrivateKey{PublicKey: pk, D: d})
	}
	if err != nil {
		return "new=err"
	}
	if extras {
		addExtras(key)
	}
	enc, err := key.MarshalCBOR()
	if err != nil {
		return "enc=err"
	}
	res := "ok " + hx(enc)
	var k2 cose.Key
	if err := k2.UnmarshalCBOR(enc); err != nil {
		return res + " dec=err"
	}
	_, kx, ky, _ := k2.EC2()
	res += fmt.Sprintf(" xlen=%d ylen=%d", len(kx), len(ky))
	p2, err := k2.PublicKey()
	if err != nil {
		return res + " rt=puberr"
	}
	e2 := p2.(*ecdsa.PublicKey)
	if e2.X.Cmp(x) != 0 || e2.Y.Cmp(y) != 0 || e2.Curve != curve {
		return res + " rt=pubdiff"
	}
	if d != nil {
		s2, err := k2.PrivateKey()
		if err != nil {
			return res + " rt=priverr"
		}
		es := s2.(*ecdsa.PrivateKey)
		if es.D.Cmp(d) != 0 || es.X.Cmp(x) != 0 || es.Y.Cmp(y) != 0 {
			return res + " rt=privdiff"
		}
	}
	return res + " rt=eq"
}

// ---------------------------------------------------------------- ECDSA codec

type asn1Stub struct {
	pub crypto.PublicKey
	out []byte
}

func (s *asn1Stub) Public() crypto.PublicKey { return s.pub }
func (s *asn1Stub) Sign(io.Reader, []byte, crypto.SignerOpts) ([]byte, error) {
	return s.out, nil
}

func parseSigned(s string) *big.Int {
	neg := strings.HasPrefix(s, "-")
	s = strings.TrimPrefix(s, "-")
	v := new(big.Int).SetBytes(unhex(s))
	if neg {
		v.Neg(v)
	}
	return v
}

// ecenc CURVE R S : NewSigner(ES*, crypto.Signer returning ASN.1(R,S)).Sign
func opEcEnc(a []string) string {
	curve, alg := curveOf(a[0])
	r, s := parseSigned(a[1]), parseSigned(a[2])
	der, err := asn1.Marshal(struct{ R, S *big.Int }{r, s})
	if err != nil {
		return "harness-error asn1"
	}
	stub := &asn1Stub{pub: &ecdsa.PublicKey{Curve: curve, X: big.NewInt(1), Y: big.NewInt(1)}, out: der}
	signer, err := cose.NewSigner(alg, stub)
	if err != nil {
		return "new=err"
	}
	sig, err := signer.Sign(rand.Reader, []byte("content"))
	if err != nil {
		if sig != nil {
			return "err bytes-with-error"
		}
		return "err"
	}
	return "ok " + hx(sig)
}

func detKey(curve elliptic.Curve, seed string) *ecdsa.PrivateKey {
	h := sha512.Sum512([]byte("verif-key:" + seed))
	n := curve.Params().N
	d := new(big.Int).SetBytes(h[:])
	d.Mod(d, new(big.Int).Sub(n, big.NewInt(1)))
	d.Add(d, big.NewInt(1))
	x, y := curve.ScalarBaseMult(d.Bytes())
	return &ecdsa.PrivateKey{PublicKey: ecdsa.PublicKey{Curve: curve, X: x, Y: y}, D: d}
}

// ecdec CURVE KEYSEED SIGHEX : NewVerifier(ES*).Verify("content", sig); the oracle is stdlib
// ecdsa.Verify on the two halves whenever the length is exactly 2n.
func opEcDec(a []string) string {
	curve, alg := curveOf(a[0])
	key := detKey(curve, a[1])
	sig := unhex(a[2])
	v, err := cose.NewVerifier(alg, &key.PublicKey)
	if err != nil {
		return "new=err"
	}
	content := []byte("content")
	res := v.Verify(content, sig)
	n := (curve.Params().N.BitLen() + 7) / 8
	out := "sigres=" + errClass(res)
	if len(sig) == 2*n {
		dg := hashFor(alg, content)
		ok := ecdsa.Verify(&key.PublicKey, dg, new(big.Int).SetBytes(sig[:n]), new(big.Int).SetBytes(sig[n:]))
		if ok {
			out += " oracle=ok"
		} else {
			out += " oracle=err"
		}
	}
	return out
}

func hashFor(alg cose.Algorithm, content []byte) []byte {
	switch alg {
	case cose.AlgorithmES256, cose.AlgorithmPS256:
		h := sha256.Sum256(content)
		return h[:]
	case cose.AlgorithmES384, cose.AlgorithmPS384:
		h := sha512.Sum384(content)
		return h[:]
	case cose.AlgorithmES512, cose.AlgorithmPS512:
		h := sha512.Sum512(content)
		return h[:]
	}
	return content
}

// ---------------------------------------------------------------- NewSigner / NewVerifier

var keyDir = "testkeys"

func rsaKey(bits int) *rsa.PrivateKey {
	path := filepath.Join(keyDir, fmt.Sprintf("rsa%d.der", bits))
	if b, err := os.ReadFile(path); err == nil {
		if k, err := x509.ParsePKCS1PrivateKey(b); err == nil {
			return k
		}
	}
	k, err := rsa.GenerateKey(rand.Reader, bits)
	if err != nil {
		panic("bad rsa gen")
	}
	os.MkdirAll(keyDir, 0o755)
	os.WriteFile(path, x509.MarshalPKCS1PrivateKey(k), 0o644)
	return k
}

type foreignSigner struct{}

func (foreignSigner) Public() crypto.PublicKey { return "not a key" }
func (foreignSigner) Sign(io.Reader, []byte, crypto.SignerOpts) ([]byte, error) {
	return nil, errSigner
}

// badPubSigner: an opaque key that reports a malformed public half
type badPubSigner struct {
	crypto.Signer
	pub crypto.PublicKey
}

func (b badPubSigner) Public() crypto.PublicKey { return b.pub }

// wrapped hides the concrete private key type behind crypto.Signer
type wrapped struct{ crypto.Signer }

func keyByKind(kind string) (crypto.Signer, crypto.PublicKey) {
	switch kind {
	case "rsa1024", "rsa2047", "rsa2048", "rsa3072":
		bits, _ := strconv.Atoi(kind[3:])
		k := rsaKey(bits)
		return k, &k.PublicKey
	case "p224", "p256", "p384", "p521":
		c, _ := curveOf(kind)
		k := detKey(c, "new")
		return k, &k.PublicKey
	case "w256", "w384", "w521": // ECDSA key behind an opaque crypto.Signer
		c, _ := curveOf("p" + kind[1:])
		k := detKey(c, "new")
		return wrapped{k}, &k.PublicKey
	case "off256": // not on the curve
		k := detKey(elliptic.P256(), "new")
		pk := ecdsa.PublicKey{Curve: elliptic.P256(), X: new(big.Int).Set(k.X), Y: new(big.Int).Add(k.Y, big.NewInt(1))}
		return &ecdsa.PrivateKey{PublicKey: pk, D: k.D}, &pk
	case "inf256": // point at infinity
		pk := ecdsa.PublicKey{Curve: elliptic.P256(), X: new(big.Int), Y: new(big.Int)}
		return &ecdsa.PrivateKey{PublicKey: pk, D: big.NewInt(1)}, &pk
	case "ed25519":
		seed := sha256.Sum256([]byte("verif-ed"))
		k := ed25519.NewKeyFromSeed(seed[:])
		return k, k.Public()
	case "edp16", "edp32", "edp48", "edp63", "edp65", "edp96": // an ed25519.PrivateKey value of the wrong length
		n, _ := strconv.Atoi(kind[3:])
		seed := sha256.Sum256([]byte("verif-ed"))
		k := ed25519.NewKeyFromSeed(seed[:])
		raw := append([]byte{}, k...)
		for len(raw) < n {
			raw = append(raw, 7)
		}
		return ed25519.PrivateKey(raw[:n]), k.Public()
	case "edq16", "edq32", "edq48", "edq64", "edqn": // a POINTER to an ed25519.PrivateKey (a crypto.Signer too): 64 octets is a key
		seed := sha256.Sum256([]byte("verif-ed"))
		k := ed25519.NewKeyFromSeed(seed[:])
		if kind == "edqn" {
			return (*ed25519.PrivateKey)(nil), k.Public()
		}
		n, _ := strconv.Atoi(kind[3:])
		raw := ed25519.PrivateKey(append([]byte{}, k...)[:n])
		return &raw, k.Public()
	case "edw31", "edw33": // an opaque Ed25519 key whose Public() is of the wrong length
		n, _ := strconv.Atoi(kind[3:])
		seed := sha256.Sum256([]byte("verif-ed"))
		k := ed25519.NewKeyFromSeed(seed[:])
		pub := append([]byte{}, k.Public().(ed25519.PublicKey)...)
		pub = append(pub, 7)
		return badPubSigner{k, ed25519.PublicKey(pub[:n])}, ed25519.PublicKey(pub[:n])
	case "ed31", "ed33", "ed0": // an ed25519.PublicKey value of the wrong length
		n, _ := strconv.Atoi(kind[2:])
		seed := sha256.Sum256([]byte("verif-ed"))
		k := ed25519.NewKeyFromSeed(seed[:])
		pub := append([]byte{}, k.Public().(ed25519.PublicKey)...)
		for len(pub) < n {
			pub = append(pub, 7)
		}
		return k, ed25519.PublicKey(pub[:n])
	case "foreign":
		return foreignSigner{}, "not a key"
	}
	panic("bad key kind " + kind)
}

// new signer|verifier ALG KEYKIND
func opNew(a []string) string {
	alg, _ := strconv.ParseInt(a[1], 10, 64)
	sk, pk := keyByKind(a[2])
	if a[0] == "signer" {
		s, err := cose.NewSigner(cose.Algorithm(alg), sk)
		if err != nil {
			if s != nil {
				return errClass(err) + " value-with-error"
			}
			return errClass(err)
		}
		return "ok:" + strconv.FormatInt(int64(s.Algorithm()), 10)
	}
	v, err := cose.NewVerifier(cose.Algorithm(alg), pk)
	if err != nil {
		if v != nil {
			return errClass(err) + " value-with-error"
		}
		return errClass(err)
	}
	return "ok:" + strconv.FormatInt(int64(v.Algorithm()), 10)
}

// ---------------------------------------------------------------- decode histories (C19)

func scribble(b []byte) {
	for i := range b {
		b[i] ^= 0xa5
	}
}

// hist K HEX,HEX,...  : decode each into ONE destination variable, scribbling over the input
// buffer and over a fresh encoding of the value after each step.
// dirt applied to a destination between decodes ("dirty" mode): the typed header maps are edited
// without touching the retained raw bytes, payload and signature bytes are overwritten.  A decoder
// whose result depends only on its input cannot see any of it.
// dirtyValue edits a decoded header value in place: nested maps gain an entry, list elements and
// byte strings are overwritten.  A decoder that shared any of these with a later result would show it.
func dirtyValue(v any) {
	switch t := v.(type) {
	case map[any]any:
		for _, x := range t {
			dirtyValue(x)
		}
		t["dirt"] = int64(1)
	case []any:
		for i, x := range t {
			dirtyValue(x)
			if i == 0 {
				t[0] = "dirt"
			}
		}
	case []byte:
		scribble(t)
	case *cose.Countersignature:
		if t != nil {
			scribble(t.Signature)
			for _, x := range t.Headers.Protected {
				dirtyValue(x)
			}
			for _, x := range t.Headers.Unprotected {
				dirtyValue(x)
			}
		}
	case []*cose.Countersignature:
		for _, c := range t {
			dirtyValue(c)
		}
	}
}

func dirtyHeaders(h *cose.Headers) {
	for _, x := range h.Protected {
		dirtyValue(x)
	}
	for _, x := range h.Unprotected {
		dirtyValue(x)
	}
	if h.Protected != nil {
		delete(h.Protected, cose.HeaderLabelAlgorithm)
		delete(h.Protected, cose.HeaderLabelKeyID)
		h.Protected[int64(99999)] = "dirt"
	}
	if h.Unprotected != nil {
		delete(h.Unprotected, cose.HeaderLabelKeyID)
		h.Unprotected[cose.HeaderLabelContentType] = "dirt/dirt"
	}
}

func opHist(a []string) string {
	kind := a[0]
	steps := strings.Split(a[1], ",")
	dirty := len(a) > 2 && a[2] == "dirty"
	// v[0] is the variable under test; v[1] is a twin that receives the same decodes and is never
	// dirtied (used only to print the state a failed decode must leave behind, see below)
	type dst struct {
		s1 cose.Sign1Message
		sm cose.SignMessage
		sg cose.Signature
		ph cose.ProtectedHeader
		uh cose.UnprotectedHeader
		hd cose.Headers
	}
	var v [2]dst
	outs := []string{}
	for si, st := range steps {
		var errs [2]error
		var dumps [2]func() string
		var pre string
		for w := 0; w < 2; w++ {
			if w == 1 && !dirty {
				break
			}
			d := &v[w]
			var buf, bufU []byte
			if kind == "hdrs" {
				// a step is PROTECTED~UNPROTECTED: the two raw buckets handed to Headers.UnmarshalFromRaw
				pu := strings.SplitN(st, "~", 2)
				if len(pu) != 2 {
					return "harness-error hist hdrs step"
				}
				buf, bufU = unhex(pu[0]), unhex(pu[1])
			} else {
				buf = unhex(st)
			}
			var err error
			var dump func() string
			var enc func() ([]byte, error)
			switch kind {
			case "s1", "s1u":
				dump = func() string { return dumpSign1(&d.s1) }
			case "sm":
				dump = func() string { return dumpSignMsg(&d.sm) }
			case "sig", "csig":
				dump = func() string { return dumpSignature(&d.sg) }
			case "ph":
				dump = func() string { return dumpOptMap(d.ph) }
			case "uh":
				dump = func() string { return dumpOptMap(d.uh) }
			case "hdrs":
				dump = func() string { return dumpHeaders(&d.hd) }
			default:
				return "harness-error hist kind"
			}
			if w == 0 && dirty && si > 0 {
				dirtyHeaders(&d.s1.Headers)
				scribble(d.s1.Payload)
				scribble(d.s1.Signature)
				dirtyHeaders(&d.sm.Headers)
				scribble(d.sm.Payload)
				for _, sg := range d.sm.Signatures {
					if sg != nil {
						dirtyHeaders(&sg.Headers)
						scribble(sg.Signature)
					}
				}
				dirtyHeaders(&d.sg.Headers)
				scribble(d.sg.Signature)
				dirtyHeaders(&d.hd)
				if d.ph != nil {
					for _, x := range d.ph {
						dirtyValue(x)
					}
					d.ph[int64(99999)] = "dirt"
				}
				if d.uh != nil {
					for _, x := range d.uh {
						dirtyValue(x)
					}
					d.uh[int64(99999)] = "dirt"
				}
				pre = dump()
			}
			switch kind {
			case "s1":
				err = d.s1.UnmarshalCBOR(buf)
				enc = d.s1.MarshalCBOR
			case "s1u":
				err = (*cose.UntaggedSign1Message)(&d.s1).UnmarshalCBOR(buf)
				enc = (*cose.UntaggedSign1Message)(&d.s1).MarshalCBOR
			case "sm":
				err = d.sm.UnmarshalCBOR(buf)
				enc = d.sm.MarshalCBOR
			case "sig":
				err = d.sg.UnmarshalCBOR(buf)
				enc = d.sg.MarshalCBOR
			case "csig":
				err = (*cose.Countersignature)(&d.sg).UnmarshalCBOR(buf)
				enc = (*cose.Countersignature)(&d.sg).MarshalCBOR
			case "ph":
				err = d.ph.UnmarshalCBOR(buf)
				enc = d.ph.MarshalCBOR
			case "uh":
				err = d.uh.UnmarshalCBOR(buf)
				enc = d.uh.MarshalCBOR
			case "hdrs":
				// the caller sets the raw buckets (its own copies) and takes them back when the
				// decode fails; what UnmarshalFromRaw itself writes is Protected and Unprotected
				oldP, oldU := d.hd.RawProtected, d.hd.RawUnprotected
				d.hd.RawProtected = append([]byte(nil), buf...)
				d.hd.RawUnprotected = append([]byte(nil), bufU...)
				err = d.hd.UnmarshalFromRaw()
				if err != nil {
					d.hd.RawProtected, d.hd.RawUnprotected = oldP, oldU
				}
				enc = func() ([]byte, error) {
					// both encoded outputs are scribbled on: one here, one by the caller
					if out, e := d.hd.MarshalProtected(); e == nil {
						scribble(out)
					}
					return d.hd.MarshalUnprotected()
				}
				scribble(bufU)
			}
			scribble(buf)
			if w == 0 && !dirty {
				if out, e := enc(); e == nil {
					scribble(out)
				}
			}
			errs[w], dumps[w] = err, dump
		}
		switch {
		case !dirty || si == 0:
			outs = append(outs, plainErr(errs[0])+":"+dumps[0]())
		case errs[0] == nil:
			// success: the dirtied variable must now equal what a clean one holds
			outs = append(outs, "ok:"+dumps[0]())
		case dumps[0]() != pre:
			outs = append(outs, "err:CHANGED-ON-FAILURE")
		default:
			// failure left the (dirtied) destination as it was; print the twin's state, which is
			// what the model — knowing nothing of the dirt — expects
			outs = append(outs, plainErr(errs[1])+":"+dumps[1]())
		}
	}
	return strings.Join(outs, " ")
}

// ---------------------------------------------------------------- follow-up operations (C06)

// use K HEX : decode, then re-encode, verify, countersign
func opUse(a []string) string {
	kind := a[0]
	data := unhex(a[1])
	log := &callLog{}
	ver := mkVerifier("T:-7:1", log)
	sgn := mkSigner("T:-7:1", log)
	var parent any
	var sb strings.Builder
	switch kind {
	case "s1", "s1u":
		var m cose.Sign1Message
		var err error
		if kind == "s1" {
			err = m.UnmarshalCBOR(data)
		} else {
			err = (*cose.UntaggedSign1Message)(&m).UnmarshalCBOR(data)
		}
		if err != nil {
			return "dec=err"
		}
		sb.WriteString("dec=ok v0=" + errClass(m.Verify(nil, ver)) + " v1=" + errClass(m.Verify([]byte{1}, ver)))
		parent = &m
	case "sm":
		var m cose.SignMessage
		if err := m.UnmarshalCBOR(data); err != nil {
			return "dec=err"
		}
		vs := make([]cose.Verifier, len(m.Signatures))
		for i := range vs {
			vs[i] = ver
		}
		sb.WriteString("dec=ok v0=" + errClass(m.Verify(nil, vs...)) + " v1=" + errClass(m.Verify([]byte{1}, vs...)))
		parent = &m
	case "sig":
		var s cose.Signature
		if err := s.UnmarshalCBOR(data); err != nil {
			return "dec=err"
		}
		sb.WriteString("dec=ok v0=" + errClass(s.Verify(ver, []byte{0x40}, []byte{}, nil)) +
			" v1=" + errClass(s.Verify(ver, []byte{0x40}, []byte{}, []byte{1})))
		parent = &s
	case "csig":
		var s cose.Countersignature
		if err := s.UnmarshalCBOR(data); err != nil {
			return "dec=err"
		}
		tgt := cose.Sign1Message{Payload: []byte{}, Signature: []byte{1}}
		sb.WriteString("dec=ok v0=" + errClass(s.Verify(ver, tgt, nil)) + " v1=" + errClass(s.Verify(ver, tgt, []byte{1})))
		parent = &s
	default:
		return "harness-error use kind"
	}
	log.tbs = nil
	sig0, err := cose.Countersign0(rand.Reader, sgn, parent, nil)
	sb.WriteString(" c0=" + errClass(err) + ":" + dumpOptBytes(sig0))
	cs := cose.NewCountersignature()
	err = cs.Sign(rand.Reader, sgn, parent, []byte{1})
	sb.WriteString(" cf=" + errClass(err) + ":" + dumpOptBytes(cs.Signature))
	if kind == "s1u" {
		// the untagged type itself is not a countersignature target (by value or by pointer): an
		// error, never a crash
		u := (*cose.UntaggedSign1Message)(parent.(*cose.Sign1Message))
		_, e1 := cose.Countersign0(rand.Reader, sgn, *u, nil)
		e2 := cose.NewCountersignature().Sign(rand.Reader, sgn, u, nil)
		sb.WriteString(" cu=" + errClass(e1) + " cup=" + errClass(e2))
	}
	return sb.String()
}

// ecenc2 ALG CURVE R S : like ecenc, but the algorithm need not match the key's curve
func opEcEnc2(a []string) string {
	alg, _ := strconv.ParseInt(a[0], 10, 64)
	curve, _ := curveOf(a[1])
	r, s := parseSigned(a[2]), parseSigned(a[3])
	der, err := asn1.Marshal(struct{ R, S *big.Int }{r, s})
	if err != nil {
		return "harness-error asn1"
	}
	stub := &asn1Stub{pub: &ecdsa.PublicKey{Curve: curve, X: big.NewInt(1), Y: big.NewInt(1)}, out: der}
	signer, err := cose.NewSigner(cose.Algorithm(alg), stub)
	if err != nil {
		return "new=err"
	}
	sig, err := signer.Sign(rand.Reader, []byte("content"))
	if err != nil {
		if sig != nil {
			return "err bytes-with-error"
		}
		return "err"
	}
	return "ok " + hx(sig)
}

// khist HEX,HEX,… : decode COSE_Keys one after the other into ONE variable
func opKHist(a []string) string {
	var k cose.Key
	outs := []string{}
	for _, st := range strings.Split(a[0], ",") {
		if err := k.UnmarshalCBOR(unhex(st)); err != nil {
			outs = append(outs, "err")
			continue
		}
		sg, vf := "err", "err"
		if s, err := k.Signer(); err == nil {
			sg = "ok:" + strconv.FormatInt(int64(s.Algorithm()), 10)
		}
		oc := ""
		if pub, err := k.PublicKey(); err == nil {
			if ek, ok := pub.(*ecdsa.PublicKey); ok {
				oc = "f"
				if _, e := ek.ECDH(); e == nil {
					oc = "t"
				}
			}
		}
		if v, err := k.Verifier(); err == nil {
			vf = "ok:" + strconv.FormatInt(int64(v.Algorithm()), 10)
		}
		outs = append(outs, "ok:"+dumpKey(&k)+":"+sg+":"+vf+"#oc="+oc)
	}
	return strings.Join(outs, " ")
}
