package main

// Exhaustive grids (C04, C11, C13, C16, C17, C20): finite spaces enumerated completely;
// `n` is ignored except as a cap for the sampled tails.

import (
	"fmt"
	"math/big"
	"strings"
)

func gridValues() []*hv {
	cs := &sigSpec{h: hdrSpec{}, sig: []byte{1, 2}}
	return []*hv{
		hInt(5), hInt(-3), hInt(0), {kind: "int", i: 70000, spell: "u32"},
		hText("a/b"), hText("hello"), hText(""), hText(" a/b"),
		hBytes([]byte{1, 2}), hBytes([]byte{}), {kind: "bytesnil"},
		hBool(true), hNil(), hArr(), hArr(hInt(1)), hArr(hText("x")), {kind: "map"},
		{kind: "float", u: 0x3ff8000000000000},
		{kind: "csig", cs: cs}, {kind: "csigs", css: []*sigSpec{cs, cs}}, {kind: "csigs", css: []*sigSpec{}},
		{kind: "csigs", css: []*sigSpec{nil}}, {kind: "csignil"}, {kind: "csigsnil"},
		hAlg(-7), {kind: "simple", i: 16},
	}
}

var gridLabels = []int64{1, 2, 3, 4, 5, 6, 7, 9, 11, 12, 15, 16, 32, 33, 34, 35, 258, 259, 260, 99, -1, 8}

func goOnly(v *hv) bool {
	switch v.kind {
	case "bytesnil", "alg", "csignil", "csigsnil", "opaque":
		return true
	case "csigs":
		for _, c := range v.css {
			if c == nil {
				return true
			}
		}
	}
	return false
}

func generateGrid(family string, n int, r *rng, p func(string, ...any)) bool {
	switch family {
	case "hdrgrid":
		vals := gridValues()
		for _, l := range gridLabels {
			for _, v := range vals {
				for _, bucket := range []string{"ph", "uh"} {
					// decode direction
					if !goOnly(v) || v.kind == "csignil" || v.kind == "csigsnil" || v.kind == "csigs" {
						m := wMap(wInt(l), v.wire())
						if bucket == "ph" {
							p("dec ph %s", hexs(wBstr(m.enc()).enc()))
						} else {
							p("dec uh %s", hexs(m.enc()))
						}
						// inside a whole message too
						var prot, unprot *W
						if bucket == "ph" {
							prot, unprot = wBstr(m.enc()), wMap()
						} else {
							prot, unprot = wBstr(nil), m
						}
						prot.B = append([]byte{}, prot.B...)
						p("dec s1 %s", hexs(wTag(18, wArr(prot, unprot, wBstr([]byte{1}), wBstr([]byte{2}))).enc()))
					}
					// encode direction, every Go spelling of the label
					for _, sp := range spellings {
						if !fitsSpell(sp, l) {
							continue
						}
						p("enc %s {%s=%s}", bucket, goInt(sp, l), v.gotext())
					}
				}
			}
		}
		// text label and non-label key types
		for _, v := range vals[:6] {
			p("enc ph {s:%s=%s}", hexs([]byte("lbl")), v.gotext())
			p("enc uh {s:%s=%s}", hexs([]byte("lbl")), v.gotext())
		}
		for _, k := range []string{"t", "n", "x", "f64:3ff0000000000000", "a:1", "c:1"} {
			p("enc ph {%s=i64:1}", k)
			p("enc uh {%s=i64:1}", k)
		}
		// duplicates under different spellings
		for _, a := range spellings {
			for _, b := range spellings {
				if a < b && fitsSpell(a, 4) && fitsSpell(b, 4) {
					p("enc ph {%s=b:01,%s=b:02}", goInt(a, 4), goInt(b, 4))
					p("enc uh {%s=b:01,%s=b:02}", goInt(a, 99), goInt(b, 99))
				}
			}
		}
		// IV / Partial IV: same bucket and across buckets, every pair of spellings
		for _, a := range spellings {
			for _, b := range spellings {
				if !fitsSpell(a, 5) || !fitsSpell(b, 6) {
					continue
				}
				iv, piv := goInt(a, 5)+"=b:01", goInt(b, 6)+"=b:02"
				p("enc ph {%s,%s}", iv, piv)
				p("enc uh {%s,%s}", iv, piv)
				p("enc sig cs(H(-;{%s};-;{%s});01)", iv, piv)
				p("enc sig cs(H(-;{%s};-;{%s});01)", piv, iv)
				p("enc s1 S1(H(-;{%s};-;{%s});00;01)", iv, piv)
			}
		}
		// … in every structure kind that has a header layer, also when one bucket is emitted from
		// retained raw bytes (a decoded message whose other bucket was edited)
		{
			iv, piv := "i64:5=b:01", "i64:6=b:02"
			rawPiv := hexs(wBstr(wMap(wInt(5), wBstr([]byte{1})).enc()).enc())
			rawPpiv := hexs(wBstr(wMap(wInt(6), wBstr([]byte{2})).enc()).enc())
			rawUiv := hexs(wMap(wInt(5), wBstr([]byte{1})).enc())
			rawUpiv := hexs(wMap(wInt(6), wBstr([]byte{2})).enc())
			hs := []string{
				"H(-;{" + iv + "};-;{" + piv + "})", "H(-;{" + piv + "};-;{" + iv + "})",
				"H(" + rawPiv + ";{" + iv + "};-;{" + piv + "})", "H(" + rawPpiv + ";{" + piv + "};-;{" + iv + "})",
				"H(-;{" + iv + "};" + rawUpiv + ";{" + piv + "})", "H(-;{" + piv + "};" + rawUiv + ";{" + iv + "})",
				"H(" + rawPiv + ";{" + iv + "};" + rawUpiv + ";{" + piv + "})",
				"H(-;{" + iv + "};-;{})", "H(-;{};-;{" + piv + "})", "H(-;{" + iv + "," + piv + "};-;{})", "H(-;{};-;{" + iv + "," + piv + "})",
			}
			ok := "H(-;{i64:1=a:-7};-;{})"
			for _, h := range hs {
				p("enc s1 S1(%s;00;01)", h)
				p("enc s1u S1(%s;00;01)", h)
				p("enc sm SM(%s;00;[cs(%s;01)])", h, ok)
				p("enc sm SM(%s;00;[cs(%s;01)])", ok, h)
				p("enc sm SM(%s;00;[cs(%s;01),cs(%s;01)])", ok, ok, h)
				p("enc sig cs(%s;01)", h)
				p("enc csig cs(%s;01)", h)
				p("enc uh {i64:7=cs(%s;01)}", h)
				p("enc uh {i64:11=csl[cs(%s;01),cs(%s;01)]}", ok, h)
			}
			// zero-length, non-nil retained raw buckets are "no retained bytes"
			for _, h := range []string{"H(_;{i64:1=a:-7};_;{i64:4=b:31})", "H(_;{i64:1=a:-7};-;{})", "H(-;{i64:1=a:-7};_;{i64:4=b:31})", "H(_;{};_;{})"} {
				p("enc s1 S1(%s;00;01)", h)
				p("enc s1u S1(%s;00;01)", h)
				p("enc sm SM(%s;00;[cs(%s;01)])", h, h)
				p("enc sig cs(%s;01)", h)
				p("enc csig cs(%s;01)", h)
				p("enc uh {i64:11=cs(%s;01)}", h)
				p("s1 t S1(%s;00;-) 01 T:-7:1 T:-7:1 a", h)
				p("sm SM(%s;00;[cs(%s;-)]) 01 [T:-7:1] [T:-7:1] a", h, h)
				p("cs full s1 p val:S1(%s;00;01) %s 01 T:-7:1 T:-7:1", h, h)
			}
			// unset (nil) signature slots never encode
			p("enc sm SM(%s;00;[csn])", ok)
			p("enc sm SM(%s;00;[cs(%s;01),csn])", ok, ok)
			p("enc sm SM(%s;00;[csn,cs(%s;01)])", ok, ok)
			p("enc sm SM(%s;00;[cs(%s;01),csn,cs(%s;01)])", ok, ok, ok)
		}
		ivw, pivw := []*W{wInt(5), wBstr([]byte{1})}, []*W{wInt(6), wBstr([]byte{2})}
		for _, c := range [][2][]*W{{ivw, pivw}, {pivw, ivw}, {append(ivw, pivw...), nil}, {nil, append(ivw, pivw...)}, {ivw, ivw}, {ivw, nil}, {nil, pivw}} {
			prot := wBstr(wMap(c[0]...).enc())
			if c[0] == nil {
				prot = wBstr([]byte{})
			}
			unprot := wMap(c[1]...)
			p("dec sig %s", hexs(wArr(prot, unprot, wBstr([]byte{1})).enc()))
			p("dec s1 %s", hexs(wTag(18, wArr(prot, unprot, wBstr([]byte{0}), wBstr([]byte{1}))).enc()))
		}
		// crit × present labels × spellings
		for _, ca := range spellings {
			for _, pa := range spellings {
				if !fitsSpell(ca, 4) || !fitsSpell(pa, 4) {
					continue
				}
				p("enc ph {%s=[%s],%s=b:01}", goInt("i64", 2), goInt(ca, 4), goInt(pa, 4))
				p("enc ph {%s=[%s],%s=b:01}", goInt(ca, 2), goInt("i64", 4), goInt(pa, 4))
				p("enc ph {%s=[%s,s:78],%s=b:01,s:78=i64:1}", goInt(pa, 2), goInt(ca, 4), goInt(pa, 4))
			}
		}
		for _, crit := range []string{"[]", "[i64:4]", "[i64:4,i64:4]", "[i64:5]", "[s:78]", "[b:01]", "[t]", "i64:4", "n", "[i64:2]", "[i64:1]"} {
			p("enc ph {i64:2=%s,i64:4=b:01,i64:1=a:-7}", crit)
			p("enc uh {i64:2=%s,i64:4=b:01}", crit)
		}
		for _, crit := range []*W{wArr(), wArr(wInt(4)), wArr(wInt(4), wInt(4)), wArr(wInt(5)), wArr(wTstr("x")), wArr(wBstr([]byte{1})), wInt(4), wNull(), wArr(wInt(2)), wArr(wInt(1))} {
			m := wMap(wInt(2), crit, wInt(4), wBstr([]byte{1}), wInt(1), wInt(-7))
			p("dec ph %s", hexs(wBstr(m.enc()).enc()))
			mu := wMap(wInt(2), crit, wInt(4), wBstr([]byte{1}))
			p("dec uh %s", hexs(mu.enc()))
		}
		return true
	case "alggrid":
		genAlgGrid(p)
		return true
	case "faultgrid":
		genFaultGrid(p)
		return true
	case "signgrid":
		genSignGrid(r, n, p)
		return true
	case "ecgrid":
		genEcGrid(r, n, p)
		return true
	case "newgrid":
		algs := []int64{-37, -38, -39, -7, -35, -36, -8, -257, -258, -259, 0, 1, -1, -6, -9, -16, -43, -44, 7, 100, -65535, -65537, 9223372036854775807, -9223372036854775808}
		kinds := []string{"rsa1024", "rsa2047", "rsa2048", "rsa3072", "p224", "p256", "p384", "p521", "w256", "w384", "w521", "off256", "inf256", "ed25519", "foreign"}
		for _, a := range algs {
			for _, k := range kinds {
				p("new signer %d %s", a, k)
				p("new verifier %d %s", a, k)
			}
			// public keys of the Go type ed25519.PublicKey but of another length (verifier side only:
			// a private key of the wrong length cannot even report its public half)
			for _, k := range []string{"ed31", "ed33", "ed0"} {
				p("new verifier %d %s", a, k)
			}
			// private keys of the Go type ed25519.PrivateKey but of another length than 64 octets
			// (32: the seed mistaken for the key), and opaque keys reporting a malformed public half
			for _, k := range []string{"edp16", "edp32", "edp48", "edp63", "edp65", "edp96", "edw31", "edw33", "edq16", "edq32", "edq48", "edq64", "edqn"} {
				p("new signer %d %s", a, k)
			}
		}
		return true
	case "keygrid":
		genKeyGrid(r, n, p)
		return true
	case "tbsgrid":
		genTbsGrid(p)
		return true
	case "taggrid":
		genTaggedLabelGrid(p)
		genTagContextGrid(p)
		genNaNKeyGrid(p)
		return true
	case "ecfault":
		genEcFault(p)
		return true
	case "encgrid":
		genEncGrid(p)
		return true
	case "seqgrid":
		genSeqGrid(r, n, p)
		return true
	case "depthgrid":
		genDepthGrid(p)
		return true
	case "keyrt":
		genKeyRT(r, n, p)
		return true
	}
	return false
}

// C04 grid
func genAlgGrid(p func(string, ...any)) {
	algVals := []string{"", "a:-7", "a:-35", "i64:-7", "i:-7", "i8:-7", "i16:-7", "i32:-35", "i64:-35", "u8:5", "u64:7",
		"i64:9223372036854775807", "i64:-9223372036854775808", "i64:0", "a:0", "s:" + hexs([]byte("ES256")), "b:01", "n", "t", "[]", "f64:3ff0000000000000", "i64:-65537", "a:-65537"}
	signerAlgs := []int64{-7, -35, 0, -65537, 9223372036854775807, -9223372036854775808, 5, 7}
	exts := []string{"-", "_", "01"}
	for _, av := range algVals {
		for _, sa := range signerAlgs {
			for _, ext := range exts {
				for _, lsp := range spellings {
					if !fitsSpell(lsp, 1) {
						continue
					}
					if lsp != "i64" && (av == "" || sa != -7 && sa != -35) {
						continue
					}
					pm := "{}"
					if av != "" {
						pm = "{" + goInt(lsp, 1) + "=" + av + "}"
					}
					s := fmt.Sprintf("T:%d:1", sa)
					p("s1 t S1(H(-;%s;-;{});00;-) %s %s %s a", pm, ext, s, s)
					if lsp == "i64" || lsp == "i" {
						p("s1 u S1(H(-;%s;-;{});00;-) %s %s %s a", pm, ext, s, s)
						p("sm SM(H(-;{};-;{});00;[cs(H(-;%s;-;{});-)]) %s [%s] [%s] a", pm, ext, s, s)
						p("cs full s1 p val:S1(H(-;{};-;{});00;01) H(-;%s;-;{}) %s %s %s", pm, ext, s, s)
					}
				}
			}
		}
	}
	// user-supplied raw protected bytes (with and without alg inside; coherent with the map)
	for _, sa := range signerAlgs {
		for _, ext := range exts {
			s := fmt.Sprintf("T:%d:1", sa)
			p("s1 t S1(H(40;{};-;{});00;-) %s %s %s a", ext, s, s)
			p("s1 t S1(H(41a0;{};-;{});00;-) %s %s %s a", ext, s, s)
			p("s1 t S1(H(43a10126;{i64:1=a:-7};-;{});00;-) %s %s %s a", ext, s, s)
			p("s1 t S1(H(;{};-;{});00;-) %s %s %s a", ext, s, s)
			p("cs full s1 p val:S1(H(-;{};-;{});00;01) H(43a10126;{i64:1=a:-7};-;{}) %s %s %s", ext, s, s)
			p("cs full s1 p val:S1(H(-;{};-;{});00;01) H(40;{};-;{}) %s %s %s", ext, s, s)
		}
	}
	// decoded messages: every wire alg value × verifier alg × ext
	wireAlgs := []*W{nil, wInt(-7), wInt(-35), {M: 1, HW: 8, N: 6}, wInt(9223372036854775807), wInt(-9223372036854775808), wInt(0),
		wTstr("ES256"), wBstr([]byte{1}), wNull(), wBool(true), wArr(), {M: 7, HW: 8, N: 0x3ff0000000000000}, {M: 0, HW: 8, N: 1 << 63}, {M: 1, HW: 8, N: 1 << 63}}
	for _, wa := range wireAlgs {
		for _, va := range signerAlgs {
			for _, ext := range exts {
				var prot *W
				if wa == nil {
					prot = wBstr([]byte{})
				} else {
					prot = wBstr(wMap(wInt(1), wa).enc())
				}
				e := unhex(ext)
				if e == nil {
					e = []byte{}
				}
				payload := []byte{0}
				sig := tsig(1, refTBS1(prot.B, e, payload))
				msg := wTag(18, wArr(prot, wMap(), wBstr(payload), wBstr(sig)))
				v := fmt.Sprintf("T:%d:1", va)
				p("v1 t %s %s %s -", hexs(msg.enc()), ext, v)
				sg := wArr(prot, wMap(), wBstr(tsig(1, refTBSSig([]byte{}, prot.B, e, payload))))
				smsg := wTag(98, wArr(wBstr([]byte{}), wMap(), wBstr(payload), wArr(sg)))
				p("vm %s %s [%s] -", hexs(smsg.enc()), ext, v)
			}
		}
	}
	// hash envelopes
	for _, av := range algVals {
		for _, sa := range []int64{-7, -35} {
			pm := "{}"
			if av != "" {
				pm = "{i64:1=" + av + "}"
			}
			s := fmt.Sprintf("T:%d:1", sa)
			p("he H(-;%s;-;{}) -16 %s - - %s %s", pm, strings.Repeat("00", 32), s, s)
		}
	}
}

// C20 grid
func genFaultGrid(p func(string, ...any)) {
	outcomes := []string{"T:-7:1", "F:-7:err", "F:-7:empty"}
	vout := []string{"T:-7:1", "F:-7:err", "T:-7:2", "F:-7:ok"}
	hd := "H(-;{i64:1=a:-7};-;{})"
	// a signer that returns bytes together with its error
	for _, tag := range []string{"t", "u"} {
		p("s1 %s S1(%s;00;-) - F:-7:errb F:-7:ok a", tag, hd)
		p("s1h %s %s 00 - F:-7:errb", tag, hd)
	}
	p("cs full s1 p val:S1(%s;00;0102) %s - F:-7:errb F:-7:ok", hd, hd)
	p("cs abbr s1 p val:S1(%s;00;0102) %s - F:-7:errb F:-7:ok", hd, hd)
	p("cs abbr sig v val:cs(%s;0102) %s 01 F:-7:errb F:-7:ok", hd, hd)
	p("he H(-;{};-;{}) -16 %s - - F:-7:errb F:-7:ok", strings.Repeat("00", 32))
	for n := 1; n <= 3; n++ {
		for pos := 0; pos < n; pos++ {
			ss, sigs, vs := []string{}, []string{}, []string{}
			for i := 0; i < n; i++ {
				if i == pos {
					ss = append(ss, "F:-7:errb")
				} else {
					ss = append(ss, "T:-7:1")
				}
				sigs = append(sigs, "cs("+hd+";-)")
				vs = append(vs, "F:-7:ok")
			}
			p("sm SM(%s;00;[%s]) - [%s] [%s] a", hd, strings.Join(sigs, ","), strings.Join(ss, ","), strings.Join(vs, ","))
		}
	}
	for _, s := range outcomes {
		for _, v := range vout {
			for _, ext := range []string{"-", "01"} {
				for _, tag := range []string{"t", "u"} {
					p("s1 %s S1(%s;00;-) %s %s %s a", tag, hd, ext, s, v)
				}
				for _, pk := range []string{"s1", "sm", "sig", "csig"} {
					var src string
					switch pk {
					case "s1":
						src = "val:S1(" + hd + ";00;0102)"
					case "sm":
						src = "val:SM(" + hd + ";00;[cs(" + hd + ";01)])"
					default:
						src = "val:cs(" + hd + ";0102)"
					}
					p("cs full %s p %s %s %s %s %s", pk, src, hd, ext, s, v)
					p("cs abbr %s v %s %s %s %s %s", pk, src, hd, ext, s, v)
				}
			}
			p("he H(-;{};-;{}) -16 %s - - %s %s", strings.Repeat("00", 32), s, v)
		}
		for _, tag := range []string{"t", "u"} {
			p("s1h %s %s 00 - %s", tag, hd, s)
			p("s1h %s H(-;{};-;{}) 00 - %s", tag, s)
			p("s1h %s H(-;{};-;{}) - - %s", tag, s)
		}
	}
	// COSE_Sign fault vectors, n ≤ 4
	for n := 1; n <= 4; n++ {
		total := 1
		for i := 0; i < n; i++ {
			total *= 3
		}
		for code := 0; code < total; code++ {
			ss, sigs := []string{}, []string{}
			c := code
			for i := 0; i < n; i++ {
				ss = append(ss, outcomes[c%3])
				c /= 3
				sigs = append(sigs, "cs("+hd+";-)")
			}
			vs := make([]string, n)
			for i := range vs {
				vs[i] = "T:-7:1"
			}
			p("sm SM(%s;00;[%s]) - [%s] [%s] a", hd, strings.Join(sigs, ","), strings.Join(ss, ","), strings.Join(vs, ","))
		}
		// verifier fault vectors on a fully signed message
		total = 1
		for i := 0; i < n; i++ {
			total *= 4
		}
		for code := 0; code < total; code++ {
			ss, sigs, vs := []string{}, []string{}, []string{}
			c := code
			for i := 0; i < n; i++ {
				ss = append(ss, "T:-7:1")
				sigs = append(sigs, "cs("+hd+";-)")
				vs = append(vs, vout[c%4])
				c /= 4
			}
			p("sm SM(%s;00;[%s]) - [%s] [%s] a", hd, strings.Join(sigs, ","), strings.Join(ss, ","), strings.Join(vs, ","))
		}
	}
}

// C11 grid: n = 0..6, verifier permutations / counts, corrupted or empty subsets
func genSignGrid(r *rng, nmax int, p func(string, ...any)) {
	hdk := func(i int) string {
		return fmt.Sprintf("H(-;{i64:1=a:%d};-;{})", []int{-7, -35, -36, -8, -37, -38}[i%6])
	}
	algk := func(i int) int { return []int{-7, -35, -36, -8, -37, -38}[i%6] }
	// zero signatures, an empty signature or an unset slot at any position never encode
	for n := 1; n <= 4; n++ {
		for bad := 0; bad < n; bad++ {
			for _, what := range []string{"csn", "cs(" + hdk(0) + ";-)", "cs(" + hdk(0) + ";_)"} {
				slots := []string{}
				for i := 0; i < n; i++ {
					if i == bad {
						slots = append(slots, what)
					} else {
						slots = append(slots, "cs("+hdk(i)+";0"+fmt.Sprint(i+1)+")")
					}
				}
				p("enc sm SM(H(-;{};-;{});0102;[%s])", strings.Join(slots, ","))
			}
		}
	}
	// one map object shared between the body and the signers / among the signers ("alias")
	for _, hd := range []string{"H(-;{};-;{})", "H(-;{i64:4=b:31};-;{i64:5=b:01})", "H(-;{i64:3=i64:42};-;{})"} {
		for _, n := range []int{1, 2, 3} {
			for _, mixed := range []bool{false, true} {
				sigs, ss := []string{}, []string{}
				for i := 0; i < n; i++ {
					sigs = append(sigs, "cs("+hd+";-)")
					alg := -7
					if mixed && i%2 == 1 {
						alg = -35
					}
					ss = append(ss, fmt.Sprintf("T:%d:%d", alg, i+1))
				}
				for _, ext := range []string{"-", "01"} {
					p("sm SM(%s;0102;[%s]) %s [%s] [%s] a alias", hd, strings.Join(sigs, ","), ext, strings.Join(ss, ","), strings.Join(ss, ","))
				}
			}
		}
	}
	// many signers: sign, encode, decode, verify
	for _, n := range []int{15, 16, 17, 23, 24, 25, 40} {
		sigs, ss := []string{}, []string{}
		for i := 0; i < n; i++ {
			sigs = append(sigs, "cs("+hdk(i)+";-)")
			ss = append(ss, fmt.Sprintf("T:%d:%d", algk(i), i%200+1))
		}
		p("sm SM(H(-;{};-;{});0102;[%s]) - [%s] [%s] a", strings.Join(sigs, ","), strings.Join(ss, ","), strings.Join(ss, ","))
		p("sm SM(H(-;{};-;{});0102;[%s]) 01 [%s] [%s] d", strings.Join(sigs, ","), strings.Join(ss, ","), strings.Join(ss, ","))
	}
	p("enc sm SM(H(-;{};-;{});0102;[])")
	p("enc sm SM(H(-;{};-;{});0102;-)")
	for n := 0; n <= 6; n++ {
		sigs, ss := []string{}, []string{}
		for i := 0; i < n; i++ {
			sigs = append(sigs, "cs("+hdk(i)+";-)")
			ss = append(ss, fmt.Sprintf("T:%d:%d", algk(i), i+1))
		}
		msg := fmt.Sprintf("SM(H(-;{};-;{});0102;[%s])", strings.Join(sigs, ","))
		// verifier lists: correct, one short, one extra, every transposition, every single wrong key
		mk := func(vs []string) {
			for _, det := range []string{"a", "d"} {
				p("sm %s - [%s] [%s] %s", msg, strings.Join(ss, ","), strings.Join(vs, ","), det)
			}
		}
		mk(ss)
		if n > 0 {
			mk(ss[1:])
			mk(ss[:n-1])
		}
		mk(append(append([]string{}, ss...), "T:-7:1"))
		for i := 0; i < n; i++ {
			for j := i + 1; j < n; j++ {
				vs := append([]string{}, ss...)
				vs[i], vs[j] = vs[j], vs[i]
				mk(vs)
			}
			vs := append([]string{}, ss...)
			vs[i] = fmt.Sprintf("T:%d:%d", algk(i), i+9)
			mk(vs)
		}
		if n <= 4 {
			// all permutations
			perm := make([]int, n)
			for i := range perm {
				perm[i] = i
			}
			var rec func(k int)
			rec = func(k int) {
				if k == n {
					vs := make([]string, n)
					for i, j := range perm {
						vs[i] = ss[j]
					}
					p("sm %s - [%s] [%s] a", msg, strings.Join(ss, ","), strings.Join(vs, ","))
					return
				}
				for i := k; i < n; i++ {
					perm[k], perm[i] = perm[i], perm[k]
					rec(k + 1)
					perm[k], perm[i] = perm[i], perm[k]
				}
			}
			rec(0)
		}
		// decoded messages: every subset of corrupted / empty signatures
		if n == 0 {
			w := wTag(98, wArr(wBstr([]byte{}), wMap(), wBstr([]byte{1, 2}), wArr()))
			p("vm %s - [] -", hexs(w.enc()))
			p("dec sm %s", hexs(w.enc()))
			p("enc sm SM(H(-;{};-;{});0102;[])")
			p("enc sm SM(H(-;{};-;{});0102;-)")
			continue
		}
		for mask := 0; mask < 1<<uint(n); mask++ {
			for _, how := range []string{"corrupt", "empty"} {
				if mask == 0 && how == "empty" {
					continue
				}
				arr := wArr()
				encSigs := []string{}
				for i := 0; i < n; i++ {
					prot := wBstr(wMap(wInt(1), wInt(int64(algk(i)))).enc())
					sig := tsig(byte(i+1), refTBSSig([]byte{}, prot.B, []byte{}, []byte{1, 2}))
					es := hexs([]byte{1})
					if mask&(1<<uint(i)) != 0 {
						if how == "corrupt" {
							sig[len(sig)-1] ^= 1
						} else {
							sig = []byte{}
							es = ""
						}
					}
					arr.Items = append(arr.Items, wArr(prot, wMap(), wBstr(sig)))
					encSigs = append(encSigs, "cs("+hdk(i)+";"+es+")")
				}
				w := wTag(98, wArr(wBstr([]byte{}), wMap(), wBstr([]byte{1, 2}), arr))
				p("vm %s - [%s] -", hexs(w.enc()), strings.Join(ss, ","))
				if how == "empty" {
					p("enc sm SM(H(-;{};-;{});0102;[%s])", strings.Join(encSigs, ","))
				}
			}
		}
	}
}

func hexOf(v *big.Int) string {
	if v.Sign() < 0 {
		return "-" + hexs(new(big.Int).Neg(v).Bytes())
	}
	return hexs(v.Bytes())
}

// C16 grid
func genEcGrid(r *rng, n int, p func(string, ...any)) {
	for _, cn := range []string{"p256", "p384", "p521"} {
		curve, _ := curveOf(cn)
		N := curve.Params().N
		size := (N.BitLen() + 7) / 8
		one := big.NewInt(1)
		classes := []*big.Int{
			big.NewInt(0), one, big.NewInt(255), big.NewInt(256), big.NewInt(65535),
			new(big.Int).Sub(N, one), N, new(big.Int).Add(N, one),
			new(big.Int).Lsh(one, uint(8*size-8)), new(big.Int).Sub(new(big.Int).Lsh(one, uint(8*size-8)), one),
			new(big.Int).Lsh(one, uint(8*size-16)), new(big.Int).Lsh(one, uint(8*size/2)),
			new(big.Int).Sub(new(big.Int).Lsh(one, uint(8*size)), one), new(big.Int).Lsh(one, uint(8*size)),
			new(big.Int).Lsh(one, uint(8*size+8)), big.NewInt(-1), new(big.Int).Neg(N),
		}
		for i := 0; i < 6; i++ {
			classes = append(classes, new(big.Int).SetBytes(r.bytes(1+r.intn(size))))
		}
		for _, a := range classes {
			for _, b := range classes {
				p("ecenc %s %s %s", cn, hexOf(a), hexOf(b))
			}
		}
		// algorithm / curve mismatches through the crypto.Signer path: the width follows the key
		for _, alg := range []int{-7, -35, -36} {
			for _, a := range classes[:10] {
				p("ecenc2 %d %s %s %s", alg, cn, hexOf(a), hexOf(classes[2]))
				p("ecenc2 %d %s %s %s", alg, cn, hexOf(classes[1]), hexOf(a))
			}
		}
		// verifier side: real signatures in every rendering
		for k := 0; k < 12; k++ {
			seed := fmt.Sprintf("k%d", k)
			key := detKey(curve, seed)
			for t := 0; t < 40; t++ {
				_, al := curveOf(cn)
				dg := hashFor(al, []byte("content"))
				rr, ss, err := ecdsaSignRaw(key, dg)
				if err != nil {
					continue
				}
				fixed := append(leftPadBytes(rr.Bytes(), size), leftPadBytes(ss.Bytes(), size)...)
				p("ecdec %s %s %s", cn, seed, hexs(fixed))
				if t%8 != 0 && len(rr.Bytes()) == size && len(ss.Bytes()) == size {
					continue
				}
				der := derSig(rr, ss)
				variants := [][]byte{
					der,
					append(append([]byte{}, rr.Bytes()...), ss.Bytes()...),
					append(append([]byte{0}, fixed...), 0),
					append([]byte{0}, fixed...),
					append(append([]byte{}, fixed...), 0),
					append(leftPadBytes(rr.Bytes(), size+1), leftPadBytes(ss.Bytes(), size+1)...),
					fixed[:len(fixed)-1], fixed[1:], fixed[:size], {},
					append(leftPadBytes(ss.Bytes(), size), leftPadBytes(rr.Bytes(), size)...),
					append(append(append([]byte{}, fixed[:size]...), 0), fixed[size:]...),
					append(append(append([]byte{}, fixed[:size]...), 0, 0), fixed[size:]...),
					append(append(append([]byte{}, fixed[:size]...), 0, 0, 0, 0), fixed[size:]...),
					append(append([]byte{}, fixed...), 0, 0),
					append([]byte{0, 0}, fixed...),
				}
				for _, v := range variants {
					p("ecdec %s %s %s", cn, seed, hexs(v))
				}
				fl := append([]byte{}, fixed...)
				fl[r.intn(len(fl))] ^= 1 << uint(r.intn(8))
				p("ecdec %s %s %s", cn, seed, hexs(fl))
			}
		}
		for l := 0; l <= 2*size+4; l++ {
			p("ecdec %s k0 %s", cn, hexs(r.bytes(l)))
		}
	}
}

// protected-header content of exactly `target` bytes: {1: -7, 4: h'00…'} (or the empty map / string)
func contentOfLen(target int) ([]byte, bool) {
	if target == 0 {
		return []byte{}, true
	}
	if target == 1 {
		return []byte{0xa0}, true
	}
	for pad := 0; pad <= target; pad++ {
		c := wMap(wInt(1), wInt(-7), wInt(4), wBstr(make([]byte, pad))).enc()
		if len(c) == target {
			return c, true
		}
		if len(c) > target {
			break
		}
	}
	return nil, false
}

// C02 / C03 / C07 / C09 / C10: every length-prefix boundary of a protected bucket × every head
// width a peer may use for it, in every structure that signs protected bytes.
// tagged values inside the PROTECTED bucket are conforming (the documented limit excludes tags
// from the envelope and from unprotected values only): such messages are accepted and verify
func genTagGrid(p func(string, ...any)) {
	payload := []byte{0x50}
	vals := []*W{
		wTag(1, wInt(1700000000)), wTag(0, wTstr("2013-03-21T20:04:00Z")), wTag(2, wBstr([]byte{1, 0, 0, 0, 0, 0, 0, 0, 0})),
		wTag(3, wBstr([]byte{1})), wTag(32, wTstr("https://example.com/")), wTag(37, wBstr(make([]byte, 16))),
		wTag(100, wInt(5)), wTag(55799, wInt(5)), wTag(1000, wArr(wInt(1), wTstr("x"))), wTag(100, wTag(101, wBstr([]byte{7}))),
		wArr(wTag(1, wInt(1)), wInt(2)), wMap(wInt(1), wTag(32, wTstr("urn:x"))),
	}
	for _, v := range vals {
		for _, lbl := range []int64{-70001, 15, 99} {
			content := wMap(wInt(1), wInt(-7), wInt(lbl), v).enc()
			sig := tsig(1, refTBS1(content, []byte{}, payload))
			msg := wArr(wBstr(content), wMap(), wBstr(payload), wBstr(sig))
			p("v1 t %s - T:-7:1 - !wf", hexs(wTag(18, msg).enc()))
			p("v1 u %s - T:-7:1 - !wf", hexs(msg.enc()))
			// the same value in the unprotected bucket is outside the documented limits: refused
			um := wArr(wBstr(wMap(wInt(1), wInt(-7)).enc()), wMap(wInt(lbl), v), wBstr(payload), wBstr(sig))
			p("dec s1 %s", hexs(wTag(18, um).enc()))
		}
	}
}

// an integer label and the text label that spells the same digits are two different labels: a
// bucket holding both is conforming, in every layer
func genIntTextGrid(p func(string, ...any)) {
	payload := []byte{0x50}
	for _, n := range []int64{1, 4, -1, 99, -70001, 33} {
		txt := wTstr(fmt.Sprint(n))
		var intv *W = wInt(7)
		if n == 1 {
			intv = wInt(-7)
		} else if n == 4 {
			intv = wBstr([]byte{0x31})
		}
		protItems := []*W{wInt(1), wInt(-7), txt, wInt(42)}
		if n != 1 {
			protItems = append(protItems, wInt(n), intv)
		}
		content := wMap(protItems...).enc()
		um := wMap(txt.clone(), wBool(true), wInt(n+1000), wInt(1), wTstr(fmt.Sprint(n+1000)), wInt(2))
		sig := tsig(1, refTBS1(content, []byte{}, payload))
		msg := wArr(wBstr(content), um, wBstr(payload), wBstr(sig))
		p("v1 t %s - T:-7:1 - !wf", hexs(wTag(18, msg).enc()))
		p("dec ph %s", hexs(wBstr(content).enc()))
		p("dec uh %s", hexs(um.enc()))
		// in a signer slot of a COSE_Sign and in a nested countersignature
		sg := wArr(wBstr(content), um.clone(), wBstr(tsig(1, refTBSSig([]byte{}, content, []byte{}, payload))))
		sg.Fixed = true
		p("vm %s - [T:-7:1] - !wf", hexs(wTag(98, wArr(wBstr([]byte{}), wMap(), wBstr(payload), wArr(sg))).enc()))
		cs := wArr(wBstr(content), um.clone(), wBstr([]byte{9}))
		cs.Fixed = true
		p("dec s1 %s", hexs(wTag(18, wArr(wBstr(wMap(wInt(1), wInt(-7)).enc()), wMap(wInt(11), cs), wBstr(payload), wBstr([]byte{1}))).enc()))
		// crit naming the text label while only the integer label is present, and vice versa: refused
		for _, c := range []*W{wArr(txt.clone()), wArr(wInt(n))} {
			for _, present := range []*W{txt.clone(), wInt(n)} {
				if n == 1 && present.M != 3 {
					continue
				}
				items := []*W{wInt(2), c, present, wInt(5)}
				if !(present.M != 3 && n == 1) {
					items = append(items, wInt(1), wInt(-7))
				}
				p("dec ph %s", hexs(wBstr(wMap(items...).enc()).enc()))
			}
		}
	}
}

// integer VALUES at the edges of int64 and uint64, as plain CBOR integers in either bucket and as
// bignums in the protected bucket: whatever the decoder accepts must survive decode / discard raw /
// encode cycles (the encoder must write each value back in a form the decoder of THAT bucket accepts)
func genIntEdgeGrid(p func(string, ...any)) {
	payload := []byte{0x50}
	plain := []*W{
		{M: 0, HW: 8, N: 1<<63 - 1}, {M: 0, HW: 8, N: 1 << 63}, {M: 0, HW: 8, N: 1<<64 - 1},
		{M: 1, HW: 8, N: 1<<63 - 1}, {M: 1, HW: 8, N: 1 << 63}, {M: 1, HW: 8, N: 1<<63 + 1}, {M: 1, HW: 8, N: 1<<64 - 1},
	}
	big := []*W{
		wTag(2, wBstr([]byte{0x7f, 0xff, 0xff, 0xff, 0xff, 0xff, 0xff, 0xff})), wTag(2, wBstr([]byte{0x80, 0, 0, 0, 0, 0, 0, 0})),
		wTag(2, wBstr([]byte{0xff, 0xff, 0xff, 0xff, 0xff, 0xff, 0xff, 0xff})), wTag(2, wBstr([]byte{1, 0, 0, 0, 0, 0, 0, 0, 0})),
		wTag(3, wBstr([]byte{0x7f, 0xff, 0xff, 0xff, 0xff, 0xff, 0xff, 0xff})), wTag(3, wBstr([]byte{0x80, 0, 0, 0, 0, 0, 0, 1})),
		wTag(3, wBstr([]byte{0xff, 0xff, 0xff, 0xff, 0xff, 0xff, 0xff, 0xff})), wTag(3, wBstr([]byte{1, 0, 0, 0, 0, 0, 0, 0, 0})),
		wTag(2, wBstr([]byte{})), wTag(2, wBstr([]byte{0, 0, 5})),
	}
	emit := func(prot, unprot *W) {
		content := prot.enc()
		sig := tsig(1, refTBS1(content, []byte{}, payload))
		msg := wTag(18, wArr(wBstr(content), unprot, wBstr(payload), wBstr(sig)))
		h := hexs(msg.enc())
		p("dec s1 %s", h)
		for _, mode := range []string{"keep", "clear", "trunc"} {
			p("reenc s1 %s %s 3", h, mode)
		}
		sg := wArr(wBstr(content), unprot.clone(), wBstr([]byte{7}))
		p("reenc sig %s clear 3", hexs(sg.enc()))
		p("reenc sm %s clear 3", hexs(wTag(98, wArr(wBstr([]byte{}), unprot.clone(), wBstr(payload), wArr(sg.clone()))).enc()))
	}
	for _, v := range plain {
		emit(wMap(wInt(1), wInt(-7), wInt(99), v.clone()), wMap())
		emit(wMap(wInt(1), wInt(-7)), wMap(wInt(99), v.clone()))
		emit(wMap(wInt(1), wInt(-7)), wMap(wInt(99), wArr(wInt(1), v.clone())))
		emit(wMap(wInt(1), wInt(-7), wTstr("x"), wMap(wInt(1), v.clone())), wMap())
	}
	for _, v := range big {
		emit(wMap(wInt(1), wInt(-7), wInt(99), v.clone()), wMap())
		emit(wMap(wInt(1), wInt(-7), wInt(99), wArr(v.clone(), wInt(2))), wMap())
	}
}

// labels wrapped in a tag — in particular the self-described CBOR tag 55799, which the CBOR library
// strips silently — are not integer or text items: refused in every bucket of every layer
func tagW(tag uint64, hw int, x *W) *W {
	w := wTag(tag, x)
	w.HW = hw
	return w
}

func genTaggedLabelGrid(p func(string, ...any)) {
	payload := []byte{0x50}
	// VALUES wrapped in the self-described tag: the library would read alg / crit / kid / … through it
	{
		t := func(x *W) *W { return wTag(55799, x) }
		prots := []*W{
			wMap(wInt(1), t(wInt(-7))), wMap(wInt(1), wInt(-7), wInt(4), t(wBstr([]byte{0x31}))),
			wMap(wInt(1), wInt(-7), wInt(2), t(wArr(wInt(4))), wInt(4), wBstr([]byte{1})),
			wMap(wInt(1), wInt(-7), wInt(2), wArr(t(wInt(4))), wInt(4), wBstr([]byte{1})),
			wMap(wInt(1), wInt(-7), wInt(3), t(wInt(42))), wMap(wInt(1), wInt(-7), wInt(16), t(wTstr("a/b"))),
			wMap(wInt(1), wInt(-7), wInt(5), t(wBstr([]byte{1}))), wMap(wInt(1), wInt(-7), wInt(258), t(wInt(-16))),
			wMap(wInt(1), wInt(-7), wInt(99), wArr(wInt(1), t(wInt(2)))), wMap(wInt(1), wInt(-7), wInt(99), wMap(wInt(1), t(wTstr("x")))),
			wMap(wInt(1), t(t(wInt(-7)))),
		}
		for _, pm := range prots {
			sigB := wBstr([]byte{1})
			pb := wBstr(pm.enc())
			p("dec ph %s", hexs(pb.enc()))
			p("dec s1 %s", hexs(wTag(18, wArr(pb.clone(), wMap(), wBstr(payload), sigB)).enc()))
			p("dec sig %s", hexs(wArr(pb.clone(), wMap(), sigB.clone()).enc()))
			p("dec sm %s", hexs(wTag(98, wArr(wBstr([]byte{}), wMap(), wBstr(payload), wArr(wArr(pb.clone(), wMap(), sigB.clone())))).enc()))
			p("dec s1 %s", hexs(wTag(18, wArr(wBstr(wMap(wInt(1), wInt(-7)).enc()), wMap(wInt(11), wArr(pb.clone(), wMap(), sigB.clone())), wBstr(payload), sigB.clone())).enc()))
			p("hev %s T:-7:1", hexs(wTag(18, wArr(pb.clone(), wMap(), wBstr(make([]byte, 32)), sigB.clone())).enc()))
		}
		p("dec uh %s", hexs(wMap(wInt(4), t(wBstr([]byte{1}))).enc()))
		p("dec key %s", hexs(wMap(wInt(1), t(wInt(4)), wInt(-1), wBstr([]byte{0xaa})).enc()))
		p("keyuse %s", hexs(wMap(wInt(1), wInt(1), wInt(-1), t(wInt(6)), wInt(-2), wBstr(make([]byte, 32))).enc()))
	}
	for ti, tag := range []uint64{55799, 55799, 55799, 1, 2, 100} {
		for _, lbl := range []*W{wInt(1), wInt(4), wInt(99), wInt(-1), wTstr("a")} {
			tagHW := []int{-1, 4, 8, -1, -1, -1}[ti] // tag 55799 also under a 4- and an 8-byte head
			val := wInt(-7)
			if lbl.M == 0 && lbl.N == 4 {
				val = wBstr([]byte{0x31})
			}
			prot := wMap(tagW(tag, tagHW, lbl.clone()), val.clone())
			protAlg := wMap(wInt(1), wInt(-7), tagW(tag, tagHW, lbl.clone()), val.clone())
			um := wMap(tagW(tag, tagHW, lbl.clone()), val.clone())
			p("dec ph %s", hexs(wBstr(prot.enc()).enc()))
			p("dec ph %s", hexs(wBstr(protAlg.enc()).enc()))
			p("dec uh %s", hexs(um.enc()))
			sigB := wBstr([]byte{1})
			p("dec s1 %s", hexs(wTag(18, wArr(wBstr(prot.enc()), wMap(), wBstr(payload), sigB)).enc()))
			p("dec s1u %s", hexs(wArr(wBstr(protAlg.enc()), wMap(), wBstr(payload), sigB.clone()).enc()))
			p("dec sig %s", hexs(wArr(wBstr(prot.enc()), wMap(), sigB.clone()).enc()))
			p("dec csig %s", hexs(wArr(wBstr(protAlg.enc()), wMap(), sigB.clone()).enc()))
			sg := wArr(wBstr(prot.enc()), wMap(), sigB.clone())
			p("dec sm %s", hexs(wTag(98, wArr(wBstr([]byte{}), wMap(), wBstr(payload), wArr(sg))).enc()))
			p("dec sm %s", hexs(wTag(98, wArr(wBstr(protAlg.enc()), wMap(), wBstr(payload), wArr(wArr(wBstr(wMap(wInt(1), wInt(-7)).enc()), wMap(), sigB.clone())))).enc()))
			// inside a countersignature nested in an unprotected bucket (its protected bucket allows tags in VALUES only)
			cs := wArr(wBstr(prot.enc()), wMap(), sigB.clone())
			p("dec s1 %s", hexs(wTag(18, wArr(wBstr(wMap(wInt(1), wInt(-7)).enc()), wMap(wInt(11), cs), wBstr(payload), sigB.clone())).enc()))
			p("dec s1 %s", hexs(wTag(18, wArr(wBstr(wMap(wInt(1), wInt(-7)).enc()), wMap(wInt(7), wArr(cs.clone(), cs.clone())), wBstr(payload), sigB.clone())).enc()))
			p("dec key %s", hexs(wMap(wInt(1), wInt(4), tagW(tag, tagHW, lbl.clone()), val.clone(), wInt(-1), wBstr([]byte{1})).enc()))
		}
	}
}

// The self-described tag around a type-checked value (or a label) in CONTEXT: next to siblings of
// every shape — scalars, arrays, maps with one and several pairs, long strings, heads of every
// width — before and after them, at the start, in the middle and at the end of an array, and with
// the tag number itself under a 2-, 4- and 8-byte head.  A scan of the raw bytes that loses its
// place in a container, stops early, forgets an earlier hit or looks for one spelling of the tag
// only shows up here; the walker (strippedTagWhereChecked) is the oracle.
// nested maps whose two keys are the same NaN (one width, two widths): a duplicate the CBOR
// library's grow-test cannot see — known finding K1 (C05)
func genNaNKeyGrid(p func(string, ...any)) {
	nan16, nan32 := []byte{0xf9, 0x7e, 0x00}, []byte{0xfa, 0x7f, 0xc0, 0x00, 0x00}
	raw := func(b []byte) *W { return &W{Raw: b} }
	for _, second := range [][]byte{nan16, nan32} {
		inner := wMap(raw(nan16), wInt(1), raw(second), wInt(2))
		um := wMap(wInt(100), inner)
		pm := wMap(wInt(1), wInt(-7), wInt(100), inner.clone())
		sigB := wBstr([]byte{0})
		alg := wBstr(wMap(wInt(1), wInt(-7)).enc())
		p("dec uh %s", hexs(um.enc()))
		p("dec ph %s", hexs(wBstr(pm.enc()).enc()))
		p("dec s1 %s", hexs(wTag(18, wArr(alg.clone(), um.clone(), wBstr([]byte{1}), sigB.clone())).enc()))
		p("dec s1u %s", hexs(wArr(wBstr(pm.enc()), wMap(), wBstr([]byte{1}), sigB.clone()).enc()))
		p("dec sig %s", hexs(wArr(alg.clone(), um.clone(), sigB.clone()).enc()))
		p("dec sm %s", hexs(wTag(98, wArr(wBstr(nil), wMap(), wBstr([]byte{1}), wArr(wArr(alg.clone(), um.clone(), sigB.clone())))).enc()))
	}
	// control: the same shape with an ordinary float key twice is refused
	p("dec uh %s", hexs(wMap(wInt(100), wMap(raw([]byte{0xf9, 0x3c, 0x00}), wInt(1), raw([]byte{0xf9, 0x3c, 0x00}), wInt(2))).enc()))
}

func genTagContextGrid(p func(string, ...any)) {
	payload := []byte{0x50}
	wide := func(x *W, hw int) *W { y := x.clone(); y.HW = hw; return y }
	for _, thw := range []int{-1, 4, 8} {
		t := func(x *W) *W { return tagW(55799, thw, x) }
		// sibling entries (label, value) of a protected bucket the library does not interpret
		sibs := [][]*W{
			nil,
			{wInt(15), wMap(wInt(1), wTstr("iss"))},
			{wInt(15), wMap(wInt(1), wTstr("iss"), wInt(2), wTstr("sub"), wInt(3), wTstr("aud"))},
			{wInt(99), wArr(wInt(1), wInt(2), wInt(3))},
			{wInt(99), wArr(wArr(wInt(1)), wMap(wInt(1), wInt(2)))},
			{wInt(33), wBstr(make([]byte, 30))},
			{wTstr("a-rather-long-text-label-of-more-than-23-octets"), wInt(1)},
			{wide(wInt(99), 8), wInt(0)},
			{wInt(99), wide(wInt(7), 8)},
			{wInt(99), wide(wBstr([]byte{1}), 8)},
			{wInt(-70001), wTag(1, wInt(1700000000))},
			{wInt(99), wMap()}, {wInt(99), wArr()},
		}
		// entries with the tag where the library type-checks
		targets := [][]*W{
			{wInt(1), t(wInt(-7))},
			{wInt(1), wInt(-7), wInt(4), t(wBstr([]byte{0x6b}))},
			{wInt(1), wInt(-7), wInt(2), wArr(t(wInt(4)), wInt(1)), wInt(4), wBstr([]byte{0x6b})},
			{wInt(1), wInt(-7), wInt(2), wArr(wInt(1), t(wInt(4))), wInt(4), wBstr([]byte{0x6b})},
			{wInt(1), wInt(-7), wInt(2), wArr(wInt(1), t(wInt(4)), wInt(3)), wInt(3), wInt(0), wInt(4), wBstr([]byte{0x6b})},
			{wInt(1), wInt(-7), wInt(258), t(wInt(-16))},
			{wInt(1), wInt(-7), wInt(258), wInt(-16), wInt(259), t(wTstr("a/b"))},
			{wInt(1), wInt(-7), wInt(258), wInt(-16), wInt(260), t(wTstr("urn:x"))},
			{wInt(1), wInt(-7), t(wInt(4)), wBstr([]byte{0x6b})},
			{wInt(1), wInt(-7), wInt(16), t(wTstr("a/b"))},
		}
		emit := func(pm *W) {
			sigB := wBstr([]byte{1})
			pb := wBstr(pm.enc())
			p("dec ph %s", hexs(pb.enc()))
			p("dec s1 %s", hexs(wTag(18, wArr(pb.clone(), wMap(), wBstr(payload), sigB)).enc()))
			p("dec sm %s", hexs(wTag(98, wArr(wBstr([]byte{}), wMap(), wBstr(payload), wArr(wArr(pb.clone(), wMap(), sigB.clone())))).enc()))
			p("dec s1 %s", hexs(wTag(18, wArr(wBstr(wMap(wInt(1), wInt(-7)).enc()), wMap(wInt(11), wArr(pb.clone(), wMap(), sigB.clone())), wBstr(payload), sigB.clone())).enc()))
			// … and verified: a verifier that accepts anything must not be reached under an alg
			// that is not the plain integer on the wire
			p("v1 t %s - T:-7:1 -", hexs(wTag(18, wArr(pb.clone(), wMap(), wBstr(payload), sigB.clone())).enc()))
			// … and as a hash envelope (258 / 259 / 260 are type-checked there)
			p("hev %s T:-7:1", hexs(wTag(18, wArr(pb.clone(), wMap(), wBstr(make([]byte, 32)), sigB.clone())).enc()))
		}
		for _, sb := range sibs {
			for _, tg := range targets {
				var a, b []*W
				for _, x := range sb {
					a = append(a, x.clone())
					b = append(b, x.clone())
				}
				for _, x := range tg {
					a = append(a, x.clone())
				}
				// the same entries, target first
				var c []*W
				for _, x := range tg {
					c = append(c, x.clone())
				}
				c = append(c, b...)
				emit(wMap(a...))
				if sb != nil {
					emit(wMap(c...))
				}
			}
		}
		// COSE_Keys: every parameter value is checked
		ksibs := [][]*W{
			nil,
			{wInt(-70001), wMap(wInt(1), wTstr("x"), wInt(2), wTstr("y"))},
			{wInt(-70001), wArr(wInt(1), wArr(wInt(2)))},
			{wide(wInt(2), 8), wBstr([]byte{0x31})},
			{wTstr("serial"), wide(wInt(7), 4)},
		}
		ktargets := [][]*W{
			{wInt(1), t(wInt(4)), wInt(-1), wBstr([]byte{0xaa})},
			{wInt(1), wInt(4), wInt(-1), t(wBstr([]byte{0xaa}))},
			{wInt(1), wInt(1), wInt(-1), t(wInt(6)), wInt(-2), wBstr(make([]byte, 32))},
			{wInt(1), wInt(1), wInt(-1), wInt(6), wInt(-2), wBstr(make([]byte, 32)), wInt(4), wArr(t(wInt(2)), wInt(1))},
			{wInt(1), wInt(1), wInt(-1), wInt(6), wInt(-2), wBstr(make([]byte, 32)), wInt(4), wArr(wInt(2), t(wInt(1)))},
			{wInt(1), wInt(1), wInt(3), t(wInt(-8)), wInt(-1), wInt(6), wInt(-2), wBstr(make([]byte, 32))},
			{wInt(1), wInt(4), wInt(-1), wBstr([]byte{0xaa}), wInt(-70002), wArr(wInt(1), t(wInt(2)), wInt(3))},
			{wInt(1), wInt(4), wInt(-1), wBstr([]byte{0xaa}), t(wInt(-70002)), wInt(1)},
		}
		for _, sb := range ksibs {
			for _, tg := range ktargets {
				var a, c []*W
				for _, x := range sb {
					a = append(a, x.clone())
				}
				for _, x := range tg {
					a = append(a, x.clone())
					c = append(c, x.clone())
				}
				for _, x := range sb {
					c = append(c, x.clone())
				}
				p("dec key %s", hexs(wMap(a...).enc()))
				p("keyuse %s", hexs(wMap(a...).enc()))
				if sb != nil {
					p("dec key %s", hexs(wMap(c...).enc()))
				}
			}
		}
	}
}

// a well-formed byte string whose CONTENT is a truncated or over-long protected map: every prefix of
// several protected contents (and each with one byte appended) in every decoder that reads a
// protected bucket — an error, never a panic
func genTruncGrid(p func(string, ...any)) {
	payload := []byte{0x50}
	contents := [][]byte{
		wMap(wInt(1), wInt(-7)).enc(), wMap(wInt(1), wInt(-35)).enc(), wMap(wInt(1), wInt(-257)).enc(), wMap(wInt(1), wInt(-65537)).enc(),
		wMap(wInt(1), wInt(-37), wInt(4), wBstr([]byte{0x31, 0x32})).enc(),
		wMap(wInt(1), wInt(-8), wInt(2), wArr(wInt(4)), wInt(4), wBstr([]byte{1})).enc(),
		wMap(wInt(1), wTstr("ES256")).enc(), wMap(wTstr("a"), wInt(1000000)).enc(),
		wMap(wInt(3), wTstr("a/b"), wInt(15), wMap(wInt(1), wTstr("iss"))).enc(),
	}
	for _, c := range contents {
		var variants [][]byte
		for k := 0; k <= len(c); k++ {
			variants = append(variants, c[:k])
		}
		variants = append(variants, append(append([]byte{}, c...), 0x00), append(append([]byte{}, c...), 0xff))
		for _, v := range variants {
			pb := wBstr(v)
			sigB := wBstr([]byte{1})
			p("dec ph %s", hexs(pb.enc()))
			p("dec s1 %s", hexs(wTag(18, wArr(pb.clone(), wMap(), wBstr(payload), sigB)).enc()))
			p("dec s1u %s", hexs(wArr(pb.clone(), wMap(), wBstr(payload), sigB.clone()).enc()))
			p("dec sig %s", hexs(wArr(pb.clone(), wMap(), sigB.clone()).enc()))
			p("dec csig %s", hexs(wArr(pb.clone(), wMap(), sigB.clone()).enc()))
			p("dec sm %s", hexs(wTag(98, wArr(pb.clone(), wMap(), wBstr(payload), wArr(wArr(wBstr(wMap(wInt(1), wInt(-7)).enc()), wMap(), sigB.clone())))).enc()))
			p("dec sm %s", hexs(wTag(98, wArr(wBstr([]byte{}), wMap(), wBstr(payload), wArr(wArr(pb.clone(), wMap(), sigB.clone())))).enc()))
			p("dec s1 %s", hexs(wTag(18, wArr(wBstr(wMap(wInt(1), wInt(-7)).enc()), wMap(wInt(11), wArr(pb.clone(), wMap(), sigB.clone())), wBstr(payload), sigB.clone())).enc()))
			p("hev %s T:-7:1", hexs(wTag(18, wArr(pb.clone(), wMap(), wBstr(make([]byte, 32)), sigB.clone())).enc()))
		}
	}
}

func genTbsGrid(p func(string, ...any)) {
	genTruncGrid(p)
	genTagGrid(p)
	genTaggedLabelGrid(p)
	genIntTextGrid(p)
	genIntEdgeGrid(p)
	targets := []int{0, 1, 22, 23, 24, 25, 254, 255, 256, 257, 65535, 65536}
	widths := []int{-1, 1, 2, 4, 8}
	payload := []byte{0x50}
	for _, t := range targets {
		content, ok := contentOfLen(t)
		if !ok {
			continue
		}
		hasAlg := t >= 5
		ext, exts := []byte{}, "-"
		if !hasAlg {
			ext, exts = []byte{1}, "01"
		}
		for _, hw := range widths {
			if hw >= 0 && hw < shortestHW(uint64(len(content))) {
				continue
			}
			prot := wBstr(content)
			prot.HW = hw
			// COSE_Sign1, tagged and untagged
			sig := tsig(1, refTBS1(content, ext, payload))
			msg := wArr(prot, wMap(), wBstr(payload), wBstr(sig))
			enc := hexs(wTag(18, msg).enc())
			big := t > 1000
			p("v1 t %s %s T:-7:1 - !wf", enc, exts)
			p("reenc s1 %s keep 2", enc)
			if !big {
				p("v1 u %s %s T:-7:1 - !wf", hexs(msg.enc()), exts)
				p("reenc s1 %s clear 2", enc)
			}
			// COSE_Sign: boundary in the body bucket and in the signer bucket
			for _, where := range []string{"body", "signer", "both"} {
				if big && where != "both" {
					continue
				}
				body, sp := wBstr([]byte{}), wBstr(wMap(wInt(1), wInt(-7)).enc())
				bodyC, spC := []byte{}, sp.B
				e2, e2s := []byte{}, "-"
				if where == "body" || where == "both" {
					body, bodyC = prot.clone(), content
				}
				if where == "signer" || where == "both" {
					sp, spC = prot.clone(), content
					if !hasAlg {
						e2, e2s = []byte{1}, "01"
					}
				}
				sg := wArr(sp, wMap(), wBstr(tsig(1, refTBSSig(bodyC, spC, e2, payload))))
				sg.Fixed = true
				sm := wTag(98, wArr(body, wMap(), wBstr(payload), wArr(sg)))
				p("vm %s %s [T:-7:1] - !wf", hexs(sm.enc()), e2s)
				if where == "both" {
					p("reenc sm %s keep 1", hexs(sm.enc()))
				}
			}
			// countersignatures over decoded parents of every kind, full and abbreviated, and a
			// countersigner whose own protected bucket sits on the boundary (decoded, then verified)
			sgp := wArr(prot.clone(), wMap(), wBstr([]byte{7, 7}))
			for _, form := range []string{"full", "abbr"} {
				p("cs %s s1 p hex:%s H(-;{i64:1=a:-7};-;{}) - T:-7:1 T:-7:1", form, enc)
				if big {
					continue
				}
				p("cs %s s1 v hex:%s H(-;{i64:1=a:-7};-;{}) 01 T:-7:1 T:-7:1", form, enc)
				p("cs %s sig p hex:%s H(-;{i64:1=a:-7};-;{}) - T:-7:1 T:-7:1", form, hexs(sgp.enc()))
				p("cs %s csig v hex:%s H(-;{i64:1=a:-7};-;{}) - T:-7:1 T:-7:1", form, hexs(sgp.enc()))
			}
			if hasAlg && !big {
				p("cs full s1 p hex:%s H(%s;{i64:1=a:-7};-;{}) - T:-7:1 T:-7:1", enc, hexs(prot.enc()))
			}
			if !hasAlg {
				// a countersigner whose typed protected map is empty while its retained protected
				// bytes are these (any spelling of h'' or of h'a0'): the retained bytes are signed
				p("cs full s1 p hex:%s H(%s;{};-;{}) 01 T:-7:1 T:-7:1", enc, hexs(prot.enc()))
				p("cs full sig v hex:%s H(%s;-;-;{}) 01 T:-7:1 T:-7:1", hexs(sgp.enc()), hexs(prot.enc()))
			}
		}
	}
}

// C20 / C16: an opaque ECDSA crypto.Signer whose ASN.1 output the library cannot fit into the
// fixed width (S too large, negative values): every structure that stores or returns a signature.
func genEcFault(p func(string, ...any)) {
	hd := func(a int) string { return fmt.Sprintf("H(-;{i64:1=a:%d};-;{})", a) }
	for _, cn := range []string{"p256", "p384", "p521"} {
		curve, alg := curveOf(cn)
		a := int(alg)
		N := curve.Params().N
		size := (N.BitLen() + 7) / 8
		one := big.NewInt(1)
		big1 := new(big.Int).Lsh(one, uint(8*size))
		vals := []*big.Int{one, big.NewInt(255), new(big.Int).Sub(N, one), new(big.Int).Sub(big1, one), big1,
			new(big.Int).Lsh(one, uint(8*size+9)), big.NewInt(-5), big.NewInt(0)}
		for _, r := range vals {
			for _, s := range vals {
				e := fmt.Sprintf("E:%s:%s:%s", cn, hexOf(r), hexOf(s))
				v := fmt.Sprintf("F:%d:ok", a)
				t := fmt.Sprintf("T:%d:1", a)
				p("s1 t S1(%s;00;-) - %s %s a", hd(a), e, v)
				p("s1h u %s 00 01 %s", hd(a), e)
				p("sm SM(H(-;{};-;{});00;[cs(%s;-),cs(%s;-)]) - [%s,%s] [%s,%s] a", hd(a), hd(a), t, e, v, v)
				p("sm SM(H(-;{};-;{});00;[cs(%s;-),cs(%s;-)]) - [%s,%s] [%s,%s] a", hd(a), hd(a), e, t, v, v)
				p("cs full s1 p val:S1(%s;00;0102) %s - %s %s", hd(a), hd(a), e, v)
				p("cs abbr sig v val:cs(%s;0102) %s 01 %s %s", hd(a), hd(a), e, v)
				p("he H(-;{};-;{}) -16 %s - - %s %s", strings.Repeat("00", 32), e, v)
			}
		}
	}
}

// C08 / C01 / C02: constructed values whose encoded protected map, payload or signature sits on a
// length-prefix boundary (the encode-side counterpart of tbsgrid).
func genEncGrid(p func(string, ...any)) {
	// text where the library checks for text must be text the decoder takes: invalid UTF-8 in
	// content type, typ, a text alg, a text crit entry — and labels that are not within int64
	for _, bad := range []string{"746578742fff", "612fc328", "ff"} {
		for _, b := range []string{"ph", "uh"} {
			p("enc %s {i64:3=s:%s} !rt", b, bad)
			p("enc %s {i64:16=s:%s} !rt", b, bad)
		}
		p("enc ph {i64:1=s:%s} !rt", bad)
		p("enc ph {i64:1=a:-7,i64:2=[s:%s],s:%s=i64:1} !rt", bad, bad)
		p("enc s1 S1(H(-;{i64:1=a:-7,i64:3=s:%s};-;{});00;01) !rt", bad)
	}
	for _, lbl := range []string{"u64:9223372036854775808", "u64:18446744073709551615", "u64:18446744073709551614", "u:9223372036854775808"} {
		for _, b := range []string{"ph", "uh"} {
			p("enc %s {%s=i64:1} !rt", b, lbl)
			p("enc %s {%s=i64:1,i64:-1=i64:2} !rt", b, lbl)
		}
		p("enc ph {i64:1=a:-7,i64:2=[%s],i64:-1=i64:5} !rt", lbl)
		p("enc key K(4;-;0;-;-;{i64:-1=b:01,%s=i64:1}) !rt", lbl)
	}
	p("enc ph {u64:9223372036854775807=i64:1} !rt")
	// one COSE_Key parameter label under two Go integer types, one of them int64 (which needs no
	// conversion): refused whatever order Go's map iteration visits them in — many lines, because a
	// check that depends on the order is wrong only some of the time
	for _, lbl := range []int64{-70001, -5, 10, 99, 1000, -1000000} {
		for _, sp := range []string{"i", "i32", "i16", "u64"} {
			if (sp == "u64" && lbl < 0) || (sp == "i16" && (lbl > 32767 || lbl < -32768)) {
				continue
			}
			p("enc key K(4;-;0;-;-;{i64:-1=b:01,i64:%d=i64:1,%s:%d=i64:2})", lbl, sp, lbl)
			p("enc key K(4;-;0;-;-;{i64:-1=b:01,%s:%d=i64:2,i64:%d=i64:1})", sp, lbl, lbl)
		}
	}
	targets := []int{22, 23, 24, 25, 254, 255, 256, 257, 65535, 65536}
	for _, t := range targets {
		// protected map {1: -7, 4: h'00…'} of exactly t bytes
		pad := -1
		for q := 0; q <= t; q++ {
			if len(wMap(wInt(1), wInt(-7), wInt(4), wBstr(make([]byte, q))).enc()) == t {
				pad = q
			}
		}
		if pad >= 0 {
			pm := fmt.Sprintf("{i64:1=a:-7,i64:4=b:%s}", strings.Repeat("00", pad))
			p("enc ph %s", pm)
			p("enc s1 S1(H(-;%s;-;{});00;01)", pm)
			p("enc sig cs(H(-;%s;-;{});01)", pm)
			p("s1 t S1(H(-;%s;-;{});00;-) - T:-7:1 T:-7:1 a", pm)
			p("s1 u S1(H(-;%s;-;{});00;-) 01 R:-7:1 R:-7:1 d", pm)
			p("sm SM(H(-;%s;-;{});00;[cs(H(-;%s;-;{});-)]) - [T:-7:1] [T:-7:1] a", pm, pm)
			p("cs full s1 p val:S1(H(-;%s;-;{});00;01) H(-;%s;-;{}) - T:-7:1 T:-7:1", pm, pm)
			p("cs abbr sig v val:cs(H(-;%s;-;{});01) H(-;{};-;{}) 01 T:-7:1 T:-7:1", pm)
			p("he H(-;{i64:4=b:%s};-;{}) -16 %s - - T:-7:1 T:-7:1", strings.Repeat("00", pad), strings.Repeat("00", 32))
		}
		// unprotected map, payload, signature and external data of exactly t bytes
		um := fmt.Sprintf("{i64:4=b:%s}", strings.Repeat("11", t))
		p("enc uh %s", um)
		z := strings.Repeat("22", t)
		p("enc s1 S1(H(-;{i64:1=a:-7};-;{});%s;%s)", z, z)
		p("enc sm SM(H(-;{};-;{});%s;[cs(H(-;{i64:1=a:-7};-;{});%s)])", z, z)
		p("s1 t S1(H(-;{i64:1=a:-7};-;{});%s;-) %s T:-7:1 T:-7:1 a", z, z)
		p("s1 t S1(H(-;{i64:1=a:-7};-;{});%s;-) - T:-7:1 T:-7:1 d", z)
		p("cs full s1 v val:S1(H(-;{i64:1=a:-7};-;{});%s;%s) H(-;{i64:1=a:-7};-;{}) %s T:-7:1 T:-7:1", z, z, z)
	}
	// maps with 15..18, 23..26 and 40 entries (head width of the map itself)
	for _, n := range []int{15, 16, 17, 18, 23, 24, 25, 40} {
		parts := []string{}
		for i := 0; i < n; i++ {
			parts = append(parts, fmt.Sprintf("i64:%d=i64:%d", 100+i, i))
		}
		m := "{" + strings.Join(parts, ",") + "}"
		p("enc ph %s", m)
		p("enc uh %s", m)
		p("s1 t S1(H(-;%s;-;%s);00;-) 01 T:-7:1 T:-7:1 a", m, m)
		p("enc key K(1;-;-8;-;-;{i64:-1=c:6,i64:-2=b:%s,%s})", strings.Repeat("33", 32), strings.Join(parts, ","))
	}
	// zero-value Headers (nil maps, no raw bytes): the library allocates the protected map when it
	// inserts alg — tagged and untagged, message method and helper
	for _, tag := range []string{"t", "u"} {
		p("s1 %s S1(H(-;-;-;-);00;-) - T:-7:1 T:-7:1 a", tag)
		p("s1 %s S1(H(-;-;-;{i64:4=b:31});00;-) - T:-7:1 T:-7:1 d", tag)
		p("s1 %s S1(H(-;-;-;-);00;-) 01 T:-7:1 T:-7:1 a", tag)
		p("s1h %s H(-;-;-;-) 00 - T:-7:1", tag)
	}
	p("sm SM(H(-;-;-;-);00;[cs(H(-;-;-;-);-),cs(H(-;-;-;-);-)]) - [T:-7:1,T:-35:2] [T:-7:1,T:-35:2] a")
	p("cs full s1 p val:S1(H(-;{i64:1=a:-7};-;{});00;01) H(-;-;-;-) - T:-7:1 T:-7:1")
	p("he H(-;-;-;-) -16 %s - - T:-7:1 T:-7:1", strings.Repeat("00", 32))
	// COSE_Keys with extra parameters that need a tag on the wire (big integers, tagged values): the
	// encoder's output is accepted by the key decoder and re-encodes to the same bytes
	for _, v := range []string{"bg:8000000000000000", "bg:ffffffffffffffff", "bg:10000000000000000", "bg:-8000000000000001", "bg:-10000000000000000",
		"bg:5", "tg:37:b:00112233445566778899aabbccddeeff", "tg:1:i64:1700000000", "tg:100:[i64:1,s:78]", "[bg:8000000000000000,i64:1]", "{i64:1=tg:32:s:75726e3a78}"} {
		p("enc key K(1;01;-8;[2];02;{i64:-1=c:6,i64:-2=b:%s,s:73657269616c=%s}) !rt", strings.Repeat("33", 32), v)
		p("enc key K(2;-;0;-;-;{i64:-1=c:1,i64:-2=b:%s,i64:-3=b:%s,i64:-70001=%s}) !rt", strings.Repeat("5a", 32), strings.Repeat("a5", 32), v)
		p("enc ph {i64:1=a:-7,i64:99=%s} !rt", v)
	}
	// values that need a tag on the wire, placed in the UNPROTECTED bucket (where the decoder forbids
	// tags): the encoder either refuses them or emits bytes the decoder accepts
	for _, v := range []string{"tg:1:i64:1700000000", "tg:37:b:00112233445566778899aabbccddeeff", "bg:10000000000000000", "bg:-10000000000000001", "[i64:1,tg:100:i64:2]", "{i64:1=tg:32:s:75726e3a78}"} {
		p("enc s1 S1(H(-;{i64:1=a:-7};-;{i64:99=%s});00;01) !rt", v)
		p("enc s1u S1(H(-;{i64:1=a:-7};-;{s:78=%s});00;01) !rt", v)
		p("enc sm SM(H(-;{};-;{i64:99=%s});00;[cs(H(-;{i64:1=a:-7};-;{});01)]) !rt", v)
		p("enc sm SM(H(-;{};-;{});00;[cs(H(-;{i64:1=a:-7};-;{i64:99=%s});01)]) !rt", v)
		p("enc sig cs(H(-;{i64:1=a:-7};-;{i64:99=%s});01) !rt", v)
		p("enc uh {i64:11=cs(H(-;{i64:1=a:-7};-;{i64:99=%s});01)} !rt", v)
	}
	// Go time.Time values (the encoder writes them as untagged epoch integers) and arrays longer
	// than any small limit, in either bucket and inside a signer slot: always decodable
	for _, v := range []string{"tm:1700000000", "tm:0", "tm:-1", "[tm:1700000000,i64:1]", "{i64:1=tm:1700000000}"} {
		// `!rt`: a value of the supported data model — the encoder's output must be accepted by the
		// decoder whatever the Lean model says about it (here: nothing, time values are outside it)
		p("enc ph {i64:1=a:-7,i64:99=%s} !rt", v)
		p("enc uh {i64:99=%s} !rt", v)
		p("enc s1 S1(H(-;{i64:1=a:-7};-;{i64:99=%s});00;01) !rt", v)
		p("enc sm SM(H(-;{};-;{i64:99=%s});00;[cs(H(-;{i64:1=a:-7};-;{i64:98=%s});01)]) !rt", v, v)
		p("enc sig cs(H(-;{i64:1=a:-7};-;{i64:98=%s});01) !rt", v)
		p("s1 t S1(H(-;{i64:1=a:-7,i64:99=%s};-;{i64:98=%s});00;-) - T:-7:1 T:-7:1 a", v, v)
	}
	for _, n := range []int{16, 17, 23, 24, 25, 100, 255, 256, 257} {
		items := make([]string, n)
		for i := range items {
			items[i] = fmt.Sprintf("b:%02x", i%256)
		}
		arr := "[" + strings.Join(items, ",") + "]"
		p("enc uh {i64:33=%s}", arr)
		p("enc ph {i64:1=a:-7,i64:33=%s}", arr)
		p("s1 t S1(H(-;{i64:1=a:-7};-;{i64:33=%s});00;-) - T:-7:1 T:-7:1 a", arr)
		p("s1 u S1(H(-;{i64:1=a:-7};-;{i64:33=%s});00;-) 01 T:-7:1 T:-7:1 d", arr)
		p("sm SM(H(-;{};-;{i64:33=%s});00;[cs(H(-;{i64:1=a:-7};-;{i64:33=%s});-)]) - [T:-7:1] [T:-7:1] a", arr, arr)
		p("cs full s1 p val:S1(H(-;{i64:1=a:-7};-;{i64:33=%s});00;01) H(-;{i64:1=a:-7};-;{i64:33=%s}) - T:-7:1 T:-7:1", arr, arr)
	}
	// parameters that name a common label (1..5) in every Go spelling, with the field also set:
	// whatever the encoder decides, it decides it the same way on every call and emits no duplicate
	for _, sp := range []string{"i64", "i", "i8", "i16", "i32", "u", "u8", "u16", "u32", "u64"} {
		p("enc key K(4;01;0;-;-;{%s:2=b:05,i64:-1=b:0102})", sp)
		p("enc key K(4;01;0;[1];02;{%s:5=b:05,s:78=i64:1,i64:-1=b:0102})", sp)
		p("enc key K(4;-;0;-;-;{%s:1=i64:4,i64:-1=b:0102})", sp)
		p("enc key K(4;-;-7;-;-;{%s:3=i64:-7,i64:-1=b:0102})", sp)
	}
	// EC2 keys whose coordinates were stripped of leading zero octets: the encoder pads them to the
	// curve size (C14) without writing into the caller's slices (C18; the harness allocates every
	// byte string with spare capacity)
	for crv, size := range map[int]int{1: 32, 2: 48, 3: 66} {
		for _, xl := range []int{size, size - 1, size - 2, 1} {
			for _, yl := range []int{size, size - 1, 1} {
				x, y := strings.Repeat("5a", xl), strings.Repeat("a5", yl)
				p("enc key K(2;-;0;-;-;{i64:-1=c:%d,i64:-2=b:%s,i64:-3=b:%s})", crv, x, y)
				p("enc key K(2;01;0;-;-;{i64:-1=c:%d,i64:-2=b:%s,i64:-3=b:%s,i64:-4=b:%s})", crv, x, y, strings.Repeat("77", xl))
				// the curve stored as a plain Go integer instead of cose.Curve: same key, same padding
				for _, cs := range []string{"i64", "i", "i8", "u8"} {
					p("enc key K(2;-;0;-;-;{i64:-1=%s:%d,i64:-2=b:%s,i64:-3=b:%s})", cs, crv, x, y)
				}
			}
		}
	}
}

func nestArr(depth int, leaf *W) *W {
	w := leaf
	for i := 0; i < depth; i++ {
		w = wArr(w)
	}
	return w
}

func nestGo(depth int, leaf string) string {
	return strings.Repeat("[", depth) + leaf + strings.Repeat("]", depth)
}

// C05 / C06 / C07 / C08: nesting depth of header values and of countersignature chains around
// the decoder's limit (32 levels, counted from the message array)
func genDepthGrid(p func(string, ...any)) {
	for d := 1; d <= 34; d++ {
		v := nestArr(d, wInt(1))
		// protected value (inside the bstr the depth count restarts), unprotected value
		prot := wBstr(wMap(wInt(1), wInt(-7), wInt(99), v).enc())
		sig := tsig(1, refTBS1(prot.B, []byte{}, []byte{0}))
		p("v1 t %s - T:-7:1 -", hexs(wTag(18, wArr(prot, wMap(), wBstr([]byte{0}), wBstr(sig))).enc()))
		prot2 := wBstr(wMap(wInt(1), wInt(-7)).enc())
		sig2 := tsig(1, refTBS1(prot2.B, []byte{}, []byte{0}))
		msg := wTag(18, wArr(prot2, wMap(wInt(99), v), wBstr([]byte{0}), wBstr(sig2)))
		p("v1 t %s - T:-7:1 -", hexs(msg.enc()))
		p("dec uh %s", hexs(wMap(wInt(99), v).enc()))
		p("dec ph %s", hexs(prot.enc()))
		p("reenc s1 %s clear 2", hexs(msg.enc()))
		p("enc uh {i64:99=%s}", nestGo(d, "i64:1"))
		p("enc ph {i64:99=%s}", nestGo(d, "i64:1"))
		p("s1 t S1(H(-;{i64:1=a:-7,i64:99=%s};-;{i64:98=%s});00;-) - T:-7:1 T:-7:1 a", nestGo(d, "i64:1"), nestGo(d, "i64:1"))
		// COSE_Sign: the signer's unprotected value sits two levels deeper
		sg := wArr(prot2.clone(), wMap(wInt(99), v.clone()), wBstr(tsig(1, refTBSSig([]byte{}, prot2.B, []byte{}, []byte{0}))))
		p("vm %s - [T:-7:1] -", hexs(wTag(98, wArr(wBstr([]byte{}), wMap(), wBstr([]byte{0}), wArr(sg))).enc()))
	}
	// chains of nested countersignatures: cs inside cs inside … (each level adds 2: map + array)
	for depth := 1; depth <= 17; depth++ {
		for _, list := range []bool{false, true} {
			inner := wMap()
			goInner := "{}"
			for i := 0; i < depth; i++ {
				c := wArr(wBstr([]byte{}), inner, wBstr([]byte{byte(i + 1)}))
				gc := fmt.Sprintf("cs(H(-;{};-;%s);%02x)", goInner, i+1)
				if list {
					inner = wMap(wInt(11), wArr(c))
					goInner = "{i64:11=csl[" + gc + "]}"
				} else {
					inner = wMap(wInt(7), c)
					goInner = "{i64:7=" + gc + "}"
				}
			}
			msg := wTag(18, wArr(wBstr([]byte{}), inner, wBstr([]byte{0}), wBstr([]byte{1})))
			p("dec s1 %s", hexs(msg.enc()))
			p("use s1 %s", hexs(msg.enc()))
			p("reenc s1 %s clear 2", hexs(msg.enc()))
			p("enc s1 S1(H(-;{};-;%s);00;01)", goInner)
			p("enc uh %s", goInner)
		}
	}
}

// Decoded values that are edited, re-signed or verified twice (C02, C04, C09, C13, C18, C19):
// state carried on one object or between calls.
func genSeqGrid(r *rng, n int, p func(string, ...any)) {
	wcfg := &genCfg{exoticSpell: 0, invalid: 0, depth: 1, maxEntries: 6}
	iv, piv := "b:0102", "b:0304"
	mk := func(prot, unprot []*W) *W {
		pc := []byte{}
		if prot != nil {
			pc = wMap(prot...).enc()
		}
		pb := wBstr(pc)
		return wArr(pb, wMap(unprot...), wBstr([]byte{9}), wBstr(tsig(1, refTBS1(pc, []byte{1}, []byte{9}))))
	}
	ivW, pivW := []*W{wInt(5), wBstr([]byte{1, 2})}, []*W{wInt(6), wBstr([]byte{3, 4})}
	alg := []*W{wInt(1), wInt(-7)}
	// C13: decode, add the counterpart of an IV parameter held by the other (still raw) bucket
	for _, sp := range []string{"i64", "i", "u8"} {
		for _, c := range []struct {
			prot, unprot  []*W
			bucket, entry string
		}{
			{append(append([]*W{}, alg...), ivW...), nil, "u", "{" + sp + ":6=" + piv + "}"},
			{append(append([]*W{}, alg...), pivW...), nil, "u", "{" + sp + ":5=" + iv + "}"},
			{alg, ivW, "p", "{" + sp + ":6=" + piv + "}"},
			{alg, pivW, "p", "{" + sp + ":5=" + iv + "}"},
			{alg, ivW, "u", "{" + sp + ":6=" + piv + "}"},
			{alg, nil, "u", "{" + sp + ":4=b:aa}"},
			{alg, nil, "p", "{" + sp + ":4=b:aa}"},
			{alg, nil, "p", "{i64:2=[" + sp + ":4]," + sp + ":4=b:aa}"},
			{alg, nil, "u", "{" + sp + ":7=cs(H(-;{};-;{});01)}"},
			{alg, nil, "p", "{" + sp + ":7=cs(H(-;{};-;{});01)}"},
		} {
			root := mk(c.prot, c.unprot)
			p("edit s1 %s %s %s", hexs(wTag(18, root).enc()), c.bucket, c.entry)
			sg := wArr(root.Items[0].clone(), root.Items[1].clone(), wBstr([]byte{1}))
			p("edit sig %s %s %s", hexs(sg.enc()), c.bucket, c.entry)
			sm := wTag(98, wArr(root.Items[0].clone(), root.Items[1].clone(), wBstr([]byte{9}), wArr(wArr(wBstr([]byte{}), wMap(), wBstr([]byte{1})))))
			p("edit sm %s %s %s", hexs(sm.enc()), c.bucket, c.entry)
		}
	}
	// C04: re-sign decoded messages whose protected bucket is empty, then verify other
	// empty-protected messages with no external data (state must not leak between decodes)
	for _, spell := range [][]byte{{}, {0xa0}} {
		pb := wBstr(spell)
		for i := 0; i < 3; i++ {
			msg := wTag(18, wArr(pb.clone(), wMap(), wBstr([]byte{byte(i)}), wBstr([]byte{1})))
			p("resign t %s - T:-7:1", hexs(msg.enc()))
			p("resign t %s 01 T:-35:2", hexs(msg.enc()))
			fresh := wTag(18, wArr(pb.clone(), wMap(), wBstr([]byte{7}), wBstr(tsig(1, refTBS1([]byte{}, []byte{}, []byte{7})))))
			if len(spell) == 1 {
				fresh = wTag(18, wArr(pb.clone(), wMap(), wBstr([]byte{7}), wBstr(tsig(1, refTBS1([]byte{0xa0}, []byte{}, []byte{7})))))
			}
			p("v1 t %s - T:-7:1 -", hexs(fresh.enc()))
			p("v1 t %s - T:-35:2 -", hexs(fresh.enc()))
			p("dec s1 %s", hexs(fresh.enc()))
			p("use s1 %s", hexs(fresh.enc()))
		}
	}
	// C11: a decoded COSE_Sign whose signature is emptied afterwards cannot be encoded
	for nsig := 1; nsig <= 3; nsig++ {
		arr := wArr()
		for i := 0; i < nsig; i++ {
			arr.Items = append(arr.Items, wArr(wBstr(wMap(wInt(1), wInt(-7)).enc()), wMap(), wBstr([]byte{byte(i + 1)})))
		}
		sm := wTag(98, wArr(wBstr([]byte{}), wMap(), wBstr([]byte{9}), arr))
		for i := 0; i <= nsig; i++ {
			p("smempty %s %d nil", hexs(sm.enc()), i)
			p("smempty %s %d empty", hexs(sm.enc()), i)
		}
	}
	// … and the same for every one-signature structure (a decoded value keeps both raw buckets)
	{
		pb := wBstr(wMap(wInt(1), wInt(-7)).enc())
		s1 := wArr(pb, wMap(wInt(4), wBstr([]byte{0x31})), wBstr([]byte{9}), wBstr([]byte{1, 2}))
		sg := wArr(pb.clone(), wMap(wInt(4), wBstr([]byte{0x31})), wBstr([]byte{1, 2}))
		for _, how := range []string{"nil", "empty"} {
			p("empt s1 %s %s", hexs(wTag(18, s1).enc()), how)
			p("empt s1u %s %s", hexs(s1.enc()), how)
			p("empt sig %s %s", hexs(sg.enc()), how)
			p("empt csig %s %s", hexs(sg.enc()), how)
		}
	}
	// C02 / C18: verify, change the retained protected bytes in place, verify again
	for i := 0; i < n/4+20; i++ {
		kind := []string{"s1", "sm"}[r.intn(2)]
		m, root := genSignedMsg(r, wcfg, kind)
		// force a non-minimal head on the body protected bucket half of the time
		if r.chance(1, 2) {
			root.Items[0].HW = r.pick([]int{1, 2, 4, 8})
		}
		top := tagged(kind, root)
		praw := root.Items[0].enc()
		idx := 0
		if len(praw) > 1 {
			idx = len(praw) - 1 - r.intn(minInt(len(praw)-1, 4))
		}
		vs := []string{}
		k := 1
		if kind == "sm" {
			k = len(m.sigs)
		}
		for j := 0; j < k; j++ {
			vs = append(vs, fmt.Sprintf("T:%d:%d", m.alg, m.kid))
		}
		p("vtwice %s %s %s [%s] %d %d", kind, hexs(top.enc()), m.ext, strings.Join(vs, ","), idx, 1+r.intn(255))
	}
}

func minInt(a, b int) int {
	if a < b {
		return a
	}
	return b
}
