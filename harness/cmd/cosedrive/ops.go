package main

// Execution of one operation line against the real library (public API only).

import (
	"bytes"
	"crypto/rand"
	"encoding/hex"
	"fmt"
	"strings"

	cose "github.com/veraison/go-cose"
)

func hx(b []byte) string { return hex.EncodeToString(b) }

func unhex(s string) []byte {
	if s == "-" {
		return nil
	}
	if s == "_" {
		return []byte{}
	}
	b, err := hex.DecodeString(s)
	if err != nil {
		panic("bad hex " + s)
	}
	return guarded(b)
}

// guarded hands the library a slice whose capacity exceeds its length (sub-slices of larger
// buffers are what real callers pass): len/cap confusions and append-aliasing then show.  The
// spare region carries a sentinel and is checked after the operation: the library has no business
// writing into a caller's buffer beyond the slice it was given.
var guards [][]byte

func guarded(b []byte) []byte {
	out := make([]byte, len(b), (len(b)/64+1)*64)
	copy(out, b)
	full := out[:cap(out)]
	for i := len(b); i < len(full); i++ {
		full[i] = 0xee
	}
	guards = append(guards, out)
	return out
}

func guardsIntact() bool {
	for _, g := range guards {
		full := g[:cap(g)]
		for i := len(g); i < len(full); i++ {
			if full[i] != 0xee {
				return false
			}
		}
	}
	return true
}

func hexList(l [][]byte) string {
	parts := make([]string, len(l))
	for i, b := range l {
		parts[i] = hx(b)
	}
	return "[" + strings.Join(parts, ",") + "]"
}

// strip error classes where no property names them
func plainErr(err error) string {
	if err == nil {
		return "ok"
	}
	return "err"
}

// execLine runs one op; panics inside the library are reported as "panic".
func execLine(line string) (out string) {
	guards = guards[:0]
	defer func() {
		if !guardsIntact() {
			out += " MUTATED(wrote into a caller's buffer beyond the slice)"
		}
	}()
	defer func() {
		if r := recover(); r != nil {
			msg := fmt.Sprint(r)
			if strings.HasPrefix(msg, "parse error") || strings.HasPrefix(msg, "bad ") {
				out = "harness-error " + msg
				return
			}
			out = "panic"
		}
	}()
	f := strings.Fields(line)
	if len(f) == 0 {
		return "skip"
	}
	switch f[0] {
	case "dec":
		return opDec(f[1], unhex(f[2]))
	case "enc":
		return opEnc(f[1], f[2])
	case "reenc":
		return opReenc(f[1], unhex(f[2]), f[3], f[4])
	case "s1":
		return opS1(f[1:])
	case "v1":
		return opV1(f[1:])
	case "sm":
		return opSM(f[1:])
	case "vm":
		return opVM(f[1:])
	case "cs":
		return opCS(f[1:])
	case "he":
		return opHE(f[1:])
	case "hev":
		return opHEV(f[1:])
	case "s1h":
		return opS1H(f[1:])
	case "keyuse":
		return opKeyUse(f[1:])
	case "keyrt":
		return opKeyRT(f[1:])
	case "ecenc":
		return opEcEnc(f[1:])
	case "ecdec":
		return opEcDec(f[1:])
	case "ecenc2":
		return opEcEnc2(f[1:])
	case "khist":
		return opKHist(f[1:])
	case "new":
		return opNew(f[1:])
	case "hist":
		return opHist(f[1:])
	case "use":
		return opUse(f[1:])
	case "hacc":
		return opHAcc(f[1:])
	case "edit":
		return opEdit(f[1:])
	case "resign":
		return opResign(f[1:])
	case "vtwice":
		return opVTwice(f[1:])
	case "smempty":
		return opSMEmpty(f[1:])
	case "empt":
		return opEmpt(f[1:])
	}
	return "harness-error unknown op " + f[0]
}

// ---------------------------------------------------------------- dec / enc / reenc

func opDec(kind string, data []byte) string {
	out := opDecInner(kind, data)
	if strings.HasPrefix(out, "ok") && acceptedWithTaggedLabel(kind, data) {
		out += " TAGGED-LABEL"
	}
	if strings.HasPrefix(out, "ok") && !strings.Contains(out, "TAGGED-LABEL") && strippedTagWhereChecked(kind, data) {
		out += " TAGGED-LABEL(self-described tag in a type-checked value)"
	}
	if strings.HasPrefix(out, "ok") {
		if why := structureOfAccepted(kind, data); why != "" {
			out += " BAD-STRUCTURE(" + strings.ReplaceAll(why, " ", "_") + ")"
		}
	}
	return out
}

func opDecInner(kind string, data []byte) string {
	switch kind {
	case "s1":
		var m cose.Sign1Message
		if err := m.UnmarshalCBOR(data); err != nil {
			return "err"
		}
		return "ok " + dumpSign1(&m)
	case "s1u":
		var m cose.UntaggedSign1Message
		if err := m.UnmarshalCBOR(data); err != nil {
			return "err"
		}
		return "ok " + dumpSign1((*cose.Sign1Message)(&m))
	case "sm":
		var m cose.SignMessage
		if err := m.UnmarshalCBOR(data); err != nil {
			return "err"
		}
		return "ok " + dumpSignMsg(&m)
	case "sig":
		var s cose.Signature
		if err := s.UnmarshalCBOR(data); err != nil {
			return "err"
		}
		return "ok " + dumpSignature(&s)
	case "csig":
		var s cose.Countersignature
		if err := s.UnmarshalCBOR(data); err != nil {
			return "err"
		}
		return "ok " + dumpSignature((*cose.Signature)(&s))
	case "ph":
		var h cose.ProtectedHeader
		if err := h.UnmarshalCBOR(data); err != nil {
			return "err"
		}
		return "ok " + dumpOptMap(h)
	case "uh":
		var h cose.UnprotectedHeader
		if err := h.UnmarshalCBOR(data); err != nil {
			return "err"
		}
		return "ok " + dumpOptMap(h)
	case "key":
		var k cose.Key
		if err := k.UnmarshalCBOR(data); err != nil {
			return "err"
		}
		return "ok " + dumpKey(&k)
	}
	return "harness-error dec kind"
}

// marshalKind parses the value spec afresh and encodes it.
// buildKind parses a value of the given kind and returns its encoder and a dump of its state
func buildKind(kind, spec string) (func() ([]byte, error), func() string) {
	p := &parser{s: spec}
	switch kind {
	case "s1":
		m := p.sign1()
		p.done()
		return m.MarshalCBOR, func() string { return dumpSign1(m) }
	case "s1u":
		m := p.sign1()
		p.done()
		return (*cose.UntaggedSign1Message)(m).MarshalCBOR, func() string { return dumpSign1(m) }
	case "sm":
		m := p.signMsg()
		p.done()
		return m.MarshalCBOR, func() string { return dumpSignMsg(m) }
	case "sig":
		s := p.signature()
		p.done()
		return s.MarshalCBOR, func() string { return dumpSignature(s) }
	case "csig":
		s := p.signature()
		p.done()
		return (*cose.Countersignature)(s).MarshalCBOR, func() string { return dumpSignature(s) }
	case "ph":
		m := p.optMap()
		p.done()
		return cose.ProtectedHeader(m).MarshalCBOR, func() string { return dumpOptMap(m) }
	case "uh":
		m := p.optMap()
		p.done()
		return cose.UnprotectedHeader(m).MarshalCBOR, func() string { return dumpOptMap(m) }
	case "key":
		k := p.key()
		p.done()
		return k.MarshalCBOR, func() string { return dumpKey(k) }
	}
	panic("bad kind")
}

func marshalKind(kind, spec string) ([]byte, error) {
	enc, _ := buildKind(kind, spec)
	return enc()
}

// C18: encoding is read-only — the encoded value (including the byte slices it refers to, which
// the harness allocates with spare capacity) is unchanged and a second encoding of the SAME
// object gives the same bytes.
func encReadOnly(kind, spec string) string {
	enc, dump := buildKind(kind, spec)
	before := dump()
	b1, e1 := enc()
	mid := dump()
	b2, e2 := enc()
	if before != mid || mid != dump() {
		return " MUTATED"
	}
	if (e1 == nil) != (e2 == nil) || !bytes.Equal(b1, b2) {
		return " MUTATED(second encoding of the same object differs)"
	}
	return ""
}

const encRepeats = 6

func opEnc(kind, spec string) string {
	var first []byte
	var firstErr error
	for i := 0; i < encRepeats; i++ {
		b, err := marshalKind(kind, spec)
		if i == 0 {
			first, firstErr = b, err
			continue
		}
		if (err == nil) != (firstErr == nil) || !bytes.Equal(b, first) {
			return "nondet " + hx(first) + " " + hx(b)
		}
	}
	ro := encReadOnly(kind, spec)
	if firstErr != nil {
		return "err" + ro
	}
	// C08: every encoder output is accepted by the corresponding decoder
	return "ok " + hx(first) + " redec=" + firstWord(opDec(kind, first)) + ro
}

func firstWord(s string) string {
	if i := strings.IndexByte(s, ' '); i >= 0 {
		return s[:i]
	}
	return s
}

func clearRawHeaders(h *cose.Headers) { discardRawHeaders(h, false) }

// discardRawHeaders drops the retained raw buckets of a layer and of every countersignature nested
// in it: by assigning nil, or (trunc) by truncating to a zero-length non-nil slice — both are
// "no retained bytes" for the encoder.
func discardRawHeaders(h *cose.Headers, trunc bool) {
	if trunc {
		if h.RawProtected != nil {
			h.RawProtected = h.RawProtected[:0]
		} else {
			h.RawProtected = []byte{}
		}
		if h.RawUnprotected != nil {
			h.RawUnprotected = h.RawUnprotected[:0]
		} else {
			h.RawUnprotected = []byte{}
		}
	} else {
		h.RawProtected = nil
		h.RawUnprotected = nil
	}
	for _, v := range h.Unprotected {
		switch t := v.(type) {
		case *cose.Countersignature:
			if t != nil {
				discardRawHeaders(&t.Headers, trunc)
			}
		case []*cose.Countersignature:
			for _, c := range t {
				if c != nil {
					discardRawHeaders(&c.Headers, trunc)
				}
			}
		}
	}
}

// reenc K HEX keep|clear N : N decode/encode cycles
func opReenc(kind string, data []byte, mode, n string) string {
	cycles := 1
	fmt.Sscanf(n, "%d", &cycles)
	outs := []string{}
	cur := data
	for i := 0; i < cycles; i++ {
		var b []byte
		var err error
		switch kind {
		case "s1":
			var m cose.Sign1Message
			if err = m.UnmarshalCBOR(cur); err != nil {
				return strings.Join(append(outs, "decerr"), " ")
			}
			if mode == "clear" || mode == "trunc" {
				discardRawHeaders(&m.Headers, mode == "trunc")
			}
			b, err = m.MarshalCBOR()
		case "s1u":
			var m cose.UntaggedSign1Message
			if err = m.UnmarshalCBOR(cur); err != nil {
				return strings.Join(append(outs, "decerr"), " ")
			}
			if mode == "clear" || mode == "trunc" {
				discardRawHeaders(&m.Headers, mode == "trunc")
			}
			b, err = m.MarshalCBOR()
		case "sm":
			var m cose.SignMessage
			if err = m.UnmarshalCBOR(cur); err != nil {
				return strings.Join(append(outs, "decerr"), " ")
			}
			if mode == "clear" || mode == "trunc" {
				discardRawHeaders(&m.Headers, mode == "trunc")
				for _, s := range m.Signatures {
					discardRawHeaders(&s.Headers, mode == "trunc")
				}
			}
			b, err = m.MarshalCBOR()
		case "sig", "csig":
			var s cose.Signature
			if err = s.UnmarshalCBOR(cur); err != nil {
				return strings.Join(append(outs, "decerr"), " ")
			}
			if mode == "clear" || mode == "trunc" {
				discardRawHeaders(&s.Headers, mode == "trunc")
			}
			b, err = s.MarshalCBOR()
		case "key":
			var k cose.Key
			if err = k.UnmarshalCBOR(cur); err != nil {
				return strings.Join(append(outs, "decerr"), " ")
			}
			b, err = k.MarshalCBOR()
		default:
			return "harness-error reenc kind"
		}
		if err != nil {
			return strings.Join(append(outs, "encerr"), " ")
		}
		outs = append(outs, hx(b))
		cur = b
	}
	return "ok " + strings.Join(outs, " ")
}

// ---------------------------------------------------------------- Sign1 chains

// s1 TAG MSG EXT SIGNER VERIFIER DETACH
//
//	Sign → state → MarshalCBOR → UnmarshalCBOR → Verify
func opS1(a []string) string {
	tagged := a[0] == "t"
	p := &parser{s: a[1]}
	m := p.sign1()
	p.done()
	ext := unhex(a[2])
	log := &callLog{}
	signer := mkSigner(a[3], log)
	vlog := &callLog{}
	verifier := mkVerifier(a[4], vlog)
	detach := a[5] == "d"

	var sb strings.Builder
	var err, verr error
	if tagged {
		err = m.Sign(rand.Reader, ext, signer)
	} else {
		err = (*cose.UntaggedSign1Message)(m).Sign(rand.Reader, ext, signer)
	}
	sb.WriteString("sign=" + errClass(err))
	sb.WriteString(" st=" + dumpSign1(m))
	sb.WriteString(" tbs=" + hexList(log.tbs))
	// in-memory verification
	if tagged {
		verr = m.Verify(ext, verifier)
	} else {
		verr = (*cose.UntaggedSign1Message)(m).Verify(ext, verifier)
	}
	sb.WriteString(" mver=" + errClass(verr))
	payload := m.Payload
	if detach {
		m.Payload = nil
	}
	var enc []byte
	if tagged {
		enc, err = m.MarshalCBOR()
	} else {
		enc, err = (*cose.UntaggedSign1Message)(m).MarshalCBOR()
	}
	if err != nil {
		sb.WriteString(" enc=" + errClass(err))
		return sb.String()
	}
	sb.WriteString(" enc=" + hx(enc))
	var m2 cose.Sign1Message
	if tagged {
		err = m2.UnmarshalCBOR(enc)
	} else {
		err = (*cose.UntaggedSign1Message)(&m2).UnmarshalCBOR(enc)
	}
	if err != nil {
		sb.WriteString(" dec=err")
		return sb.String()
	}
	if detach {
		m2.Payload = payload
	}
	vlog.tbs = nil
	verr = m2.Verify(ext, verifier)
	sb.WriteString(" ver=" + errClass(verr) + " vtbs=" + hexList(vlog.tbs))
	return sb.String()
}

// s1h TAG HDRS PAYLOAD EXT SIGNER : the Sign1 / Sign1Untagged helpers
func opS1H(a []string) string {
	tagged := a[0] == "t"
	p := &parser{s: a[1]}
	h := p.headers()
	p.done()
	payload := unhex(a[2])
	ext := unhex(a[3])
	log := &callLog{}
	signer := mkSigner(a[4], log)
	var out []byte
	var err error
	if tagged {
		out, err = cose.Sign1(rand.Reader, signer, h, payload, ext)
	} else {
		out, err = cose.Sign1Untagged(rand.Reader, signer, h, payload, ext)
	}
	if err != nil {
		if out != nil {
			return "res=" + errClass(err) + " bytes-with-error " + hx(out)
		}
		return "res=" + errClass(err) + " tbs=" + hexList(log.tbs)
	}
	return "res=ok " + hx(out) + " tbs=" + hexList(log.tbs)
}

// v1 TAG HEX EXT VERIFIER PAYLOAD : decode, (supply payload), verify
func opV1(a []string) string {
	tagged := a[0] == "t"
	data := unhex(a[1])
	ext := unhex(a[2])
	vlog := &callLog{}
	verifier := mkVerifier(a[3], vlog)
	var m cose.Sign1Message
	var err error
	if tagged {
		err = m.UnmarshalCBOR(data)
	} else {
		err = (*cose.UntaggedSign1Message)(&m).UnmarshalCBOR(data)
	}
	if err != nil {
		return "dec=err"
	}
	if a[4] != "-" || m.Payload == nil {
		if a[4] != "-" {
			m.Payload = unhex(a[4])
		}
	}
	before := dumpSign1(&m)
	verr := m.Verify(ext, verifier)
	after := dumpSign1(&m)
	s := "dec=ok ver=" + errClass(verr) + " vtbs=" + hexList(vlog.tbs)
	if before != after {
		s += " MUTATED"
	}
	if len(vlog.tbs) > 0 {
		// C04, read off the wire: the verifier was handed bytes to check, so the protected bucket as
		// received must name its algorithm as a plain integer (or name none, with external data)
		switch kind, alg := wireAlg(data); {
		case kind == "int" && cose.Algorithm(alg) == verifier.Algorithm():
		case kind == "absent" && len(ext) > 0:
		default:
			s += " ALG-NOT-ON-WIRE(" + kind + ")"
		}
	}
	return s
}

// ---------------------------------------------------------------- COSE_Sign chains

// sm MSG EXT [SIGNERS] [VERIFIERS] DETACH
func opSM(a []string) string {
	p := &parser{s: a[0]}
	m := p.signMsg()
	p.done()
	ext := unhex(a[1])
	log := &callLog{}
	vlog := &callLog{}
	var signers []cose.Signer
	for _, s := range splitList(a[2]) {
		signers = append(signers, mkSigner(s, log))
	}
	var verifiers []cose.Verifier
	for _, s := range splitList(a[3]) {
		verifiers = append(verifiers, mkVerifier(s, vlog))
	}
	detach := a[4] == "d"
	if len(a) > 5 && a[5] == "alias" {
		// one Go map OBJECT in several layers (a caller who wants the same protected header in the
		// body and in the signers may well reuse one map): layers whose protected / unprotected maps
		// are equal share the object.  The library must behave as if they were separate maps.
		for _, sg := range m.Signatures {
			if sg == nil {
				continue
			}
			if m.Headers.Protected != nil && dumpOptMap(sg.Headers.Protected) == dumpOptMap(m.Headers.Protected) {
				sg.Headers.Protected = m.Headers.Protected
			}
			if m.Headers.Unprotected != nil && dumpOptMap(sg.Headers.Unprotected) == dumpOptMap(m.Headers.Unprotected) {
				sg.Headers.Unprotected = m.Headers.Unprotected
			}
		}
		for i, sg := range m.Signatures {
			for _, other := range m.Signatures[:i] {
				if sg != nil && other != nil && other.Headers.Protected != nil && dumpOptMap(sg.Headers.Protected) == dumpOptMap(other.Headers.Protected) {
					sg.Headers.Protected = other.Headers.Protected
				}
			}
		}
	}
	var sb strings.Builder
	err := m.Sign(rand.Reader, ext, signers...)
	sb.WriteString("sign=" + errClass(err))
	sb.WriteString(" st=" + dumpSignMsg(m))
	sb.WriteString(" tbs=" + hexList(log.tbs))
	verr := m.Verify(ext, verifiers...)
	sb.WriteString(" mver=" + errClass(verr))
	payload := m.Payload
	if detach {
		m.Payload = nil
	}
	enc, err := m.MarshalCBOR()
	if err != nil {
		sb.WriteString(" enc=" + errClass(err))
		return sb.String()
	}
	sb.WriteString(" enc=" + hx(enc))
	var m2 cose.SignMessage
	if err := m2.UnmarshalCBOR(enc); err != nil {
		sb.WriteString(" dec=err")
		return sb.String()
	}
	if detach {
		m2.Payload = payload
	}
	vlog.tbs = nil
	verr = m2.Verify(ext, verifiers...)
	sb.WriteString(" ver=" + errClass(verr) + " vtbs=" + hexList(vlog.tbs))
	return sb.String()
}

// vm HEX EXT [VERIFIERS] PAYLOAD
func opVM(a []string) string {
	data := unhex(a[0])
	ext := unhex(a[1])
	vlog := &callLog{}
	var verifiers []cose.Verifier
	for _, s := range splitList(a[2]) {
		verifiers = append(verifiers, mkVerifier(s, vlog))
	}
	var m cose.SignMessage
	if err := m.UnmarshalCBOR(data); err != nil {
		return "dec=err"
	}
	if a[3] != "-" {
		m.Payload = unhex(a[3])
	}
	before := dumpSignMsg(&m)
	verr := m.Verify(ext, verifiers...)
	s := "dec=ok ver=" + errClass(verr) + " vtbs=" + hexList(vlog.tbs)
	if before != dumpSignMsg(&m) {
		s += " MUTATED"
	}
	return s
}

// ---------------------------------------------------------------- countersignatures

// parent spec: KIND PTR SRC   KIND ∈ s1 sm sig csig bad ; PTR ∈ p v ; SRC = val:<spec> | hex:<hex>
func mkParent(kind, ptr, src string) (any, error) {
	var s1 *cose.Sign1Message
	var sm *cose.SignMessage
	var sg *cose.Signature
	if strings.HasPrefix(src, "hex:") {
		data := unhex(src[4:])
		switch kind {
		case "s1":
			s1 = &cose.Sign1Message{}
			if err := s1.UnmarshalCBOR(data); err != nil {
				return nil, err
			}
		case "sm":
			sm = &cose.SignMessage{}
			if err := sm.UnmarshalCBOR(data); err != nil {
				return nil, err
			}
		case "sig", "csig":
			sg = &cose.Signature{}
			if err := sg.UnmarshalCBOR(data); err != nil {
				return nil, err
			}
		}
	} else if strings.HasPrefix(src, "val:") {
		p := &parser{s: src[4:]}
		switch kind {
		case "s1":
			s1 = p.sign1()
		case "sm":
			sm = p.signMsg()
		case "sig", "csig":
			sg = p.signature()
		}
		if kind != "bad" {
			p.done()
		}
	}
	switch kind {
	case "s1":
		if ptr == "p" {
			return s1, nil
		}
		return *s1, nil
	case "sm":
		if ptr == "p" {
			return sm, nil
		}
		return *sm, nil
	case "sig":
		if ptr == "p" {
			return sg, nil
		}
		return *sg, nil
	case "csig":
		c := (*cose.Countersignature)(sg)
		if ptr == "p" {
			return c, nil
		}
		return *c, nil
	}
	// kind "bad": values that are not countersignature targets (RFC 9338 names tagged COSE_Sign1,
	// COSE_Sign, COSE_Signature and countersignatures; the library documents exactly those types)
	switch ptr {
	case "u", "up":
		u := &cose.UntaggedSign1Message{}
		_ = u.UnmarshalCBOR(nestedMsg[1:])
		if ptr == "up" {
			return u, nil
		}
		return *u, nil
	case "hp":
		return &cose.Headers{}, nil
	case "b":
		return []byte{0x84, 0x40, 0xa0, 0x40, 0x40}, nil
	}
	return struct{ X int }{1}, nil
}

func dumpParent(v any) string {
	switch t := v.(type) {
	case *cose.Sign1Message:
		return dumpSign1(t)
	case cose.Sign1Message:
		return dumpSign1(&t)
	case *cose.SignMessage:
		return dumpSignMsg(t)
	case cose.SignMessage:
		return dumpSignMsg(&t)
	case *cose.Signature:
		return dumpSignature(t)
	case cose.Signature:
		return dumpSignature(&t)
	case *cose.Countersignature:
		return dumpSignature((*cose.Signature)(t))
	case cose.Countersignature:
		return dumpSignature((*cose.Signature)(&t))
	}
	return "x"
}

// cs FORM KIND PTR SRC CSHDRS EXT SIGNER VERIFIER
func opCS(a []string) string {
	form, kind, ptr, src := a[0], a[1], a[2], a[3]
	parent, err := mkParent(kind, ptr, src)
	if err != nil {
		return "parent=err"
	}
	ext := unhex(a[5])
	log := &callLog{}
	vlog := &callLog{}
	signer := mkSigner(a[6], log)
	verifier := mkVerifier(a[7], vlog)
	before := dumpParent(parent)
	var sb strings.Builder
	if form == "abbr" {
		sig, err := cose.Countersign0(rand.Reader, signer, parent, ext)
		sb.WriteString("sign=" + errClass(err) + " sig=" + dumpOptBytes(sig) + " tbs=" + hexList(log.tbs))
		if err != nil && sig != nil {
			sb.WriteString(" bytes-with-error")
		}
		if err == nil {
			verr := cose.VerifyCountersign0(verifier, parent, ext, sig)
			sb.WriteString(" ver=" + errClass(verr) + " vtbs=" + hexList(vlog.tbs))
		}
	} else {
		p := &parser{s: a[4]}
		h := p.headers()
		p.done()
		cs := &cose.Countersignature{Headers: h}
		err := cs.Sign(rand.Reader, signer, parent, ext)
		sb.WriteString("sign=" + errClass(err) + " st=" + dumpSignature((*cose.Signature)(cs)) + " tbs=" + hexList(log.tbs))
		verr := cs.Verify(verifier, parent, ext)
		sb.WriteString(" mver=" + errClass(verr))
		enc, err := cs.MarshalCBOR()
		if err != nil {
			sb.WriteString(" enc=" + errClass(err))
		} else {
			sb.WriteString(" enc=" + hx(enc))
			var cs2 cose.Countersignature
			if err := cs2.UnmarshalCBOR(enc); err != nil {
				sb.WriteString(" dec=err")
			} else {
				vlog.tbs = nil
				verr := cs2.Verify(verifier, parent, ext)
				sb.WriteString(" ver=" + errClass(verr) + " vtbs=" + hexList(vlog.tbs))
			}
		}
	}
	if before != dumpParent(parent) {
		sb.WriteString(" MUTATED")
	}
	return sb.String()
}

// ---------------------------------------------------------------- hash envelopes

// he HDRS HASHALG HASHVALUE PCT LOCATION SIGNER VERIFIER
func opHE(a []string) string {
	p := &parser{s: a[0]}
	h := p.headers()
	p.done()
	pa := &parser{s: a[1]}
	alg := cose.Algorithm(pa.int64v())
	hv := unhex(a[2])
	var pct any
	if a[3] != "-" {
		pp := &parser{s: a[3]}
		pct = pp.value()
		pp.done()
	}
	loc := ""
	if a[4] != "-" {
		loc = string(unhex(a[4]))
	}
	log := &callLog{}
	vlog := &callLog{}
	signer := mkSigner(a[5], log)
	verifier := mkVerifier(a[6], vlog)
	before := dumpHeaders(&h)
	out, err := cose.SignHashEnvelope(rand.Reader, signer, h, cose.HashEnvelopePayload{
		HashAlgorithm: alg, HashValue: hv, PreimageContentType: pct, Location: loc,
	})
	caller := "same"
	if before != dumpHeaders(&h) {
		caller = "changed"
	}
	if err != nil {
		s := "sign=" + errClass(err) + " caller=" + caller
		if out != nil {
			s += " bytes-with-error"
		}
		return s
	}
	s := "sign=ok " + hx(out) + " caller=" + caller + " tbs=" + hexList(log.tbs)
	m, verr := cose.VerifyHashEnvelope(verifier, out)
	if verr != nil {
		return s + " ver=" + errClass(verr)
	}
	return s + " ver=ok " + dumpSign1(m)
}

// hev HEX VERIFIER
func opHEV(a []string) string {
	data := unhex(a[0])
	vlog := &callLog{}
	verifier := mkVerifier(a[1], vlog)
	m, err := cose.VerifyHashEnvelope(verifier, data)
	if err != nil {
		if m != nil {
			return "ver=" + errClass(err) + " message-with-error"
		}
		return "ver=" + plainErr(err)
	}
	return "ver=ok " + dumpSign1(m) + " vtbs=" + hexList(vlog.tbs)
}

// hacc PMAP TYP CLAIMS : accessors and setters of ProtectedHeader
func opHAcc(a []string) string {
	p := &parser{s: a[0]}
	h := cose.ProtectedHeader(p.optMap())
	p.done()
	pt := &parser{s: a[1]}
	typ := pt.value()
	pt.done()
	pc := &parser{s: a[2]}
	claims := cose.CWTClaims(pc.optMap())
	pc.done()
	var sb strings.Builder
	alg, err := h.Algorithm()
	sb.WriteString("alg=" + classOrAlg(alg, err))
	ha, err := h.PayloadHashAlgorithm()
	sb.WriteString(" pha=" + classOrAlg(ha, err))
	crit, err := h.Critical()
	if err != nil {
		sb.WriteString(" crit=err")
	} else if crit == nil {
		sb.WriteString(" crit=absent")
	} else {
		sb.WriteString(" crit=" + dumpValue(crit))
	}
	if h == nil {
		h = cose.ProtectedHeader{}
	}
	_, err = h.SetType(typ)
	sb.WriteString(" settype=" + plainErr(err))
	_, err = h.SetCWTClaims(claims)
	sb.WriteString(" setcwt=" + plainErr(err))
	// CWTClaims is a named map type: show it as a plain map
	if c, ok := h[cose.HeaderLabelCWTClaims].(cose.CWTClaims); ok {
		h[cose.HeaderLabelCWTClaims] = map[any]any(c)
	}
	sb.WriteString(" after=" + dumpMap(h))
	return sb.String()
}

// edit KIND HEX BUCKET MAP : decode, set the entries of MAP in one bucket's parsed map, drop that
// bucket's retained raw bytes (as the field documentation prescribes for edits), encode again
func opEdit(a []string) string {
	kind, data, bucket := a[0], unhex(a[1]), a[2]
	p := &parser{s: a[3]}
	entries := p.mapv()
	p.done()
	apply := func(h *cose.Headers) {
		if bucket == "p" {
			if h.Protected == nil {
				h.Protected = cose.ProtectedHeader{}
			}
			for k, v := range entries {
				h.Protected[k] = v
			}
			h.RawProtected = nil
		} else {
			if h.Unprotected == nil {
				h.Unprotected = cose.UnprotectedHeader{}
			}
			for k, v := range entries {
				h.Unprotected[k] = v
			}
			h.RawUnprotected = nil
		}
	}
	var enc []byte
	var err error
	switch kind {
	case "s1":
		var m cose.Sign1Message
		if m.UnmarshalCBOR(data) != nil {
			return "dec=err"
		}
		apply(&m.Headers)
		enc, err = m.MarshalCBOR()
	case "sig":
		var sg cose.Signature
		if sg.UnmarshalCBOR(data) != nil {
			return "dec=err"
		}
		apply(&sg.Headers)
		enc, err = sg.MarshalCBOR()
	case "sm":
		var m cose.SignMessage
		if m.UnmarshalCBOR(data) != nil {
			return "dec=err"
		}
		apply(&m.Headers)
		enc, err = m.MarshalCBOR()
	default:
		return "harness-error edit kind"
	}
	if err != nil {
		return "dec=ok enc=err"
	}
	return "dec=ok enc=" + hx(enc) + " redec=" + firstWord(opDec(kind, enc))
}

// resign TAG HEX EXT SIGNER : decode, drop the signature and the retained protected bytes, sign again
func opResign(a []string) string {
	tagged := a[0] == "t"
	data := unhex(a[1])
	ext := unhex(a[2])
	log := &callLog{}
	signer := mkSigner(a[3], log)
	var m cose.Sign1Message
	var err error
	if tagged {
		err = m.UnmarshalCBOR(data)
	} else {
		err = (*cose.UntaggedSign1Message)(&m).UnmarshalCBOR(data)
	}
	if err != nil {
		return "dec=err"
	}
	m.Signature = nil
	m.Headers.RawProtected = nil
	err = m.Sign(rand.Reader, ext, signer)
	s := "dec=ok sign=" + errClass(err) + " st=" + dumpSign1(&m) + " tbs=" + hexList(log.tbs)
	enc, err := m.MarshalCBOR()
	if err != nil {
		return s + " enc=" + errClass(err)
	}
	return s + " enc=" + hx(enc)
}

// vtwice KIND HEX EXT [VERIFIERS] IDX XOR : decode, verify, change one byte of the retained
// protected bytes IN PLACE, verify again
func opVTwice(a []string) string {
	kind, data, ext := a[0], unhex(a[1]), unhex(a[2])
	vlog := &callLog{}
	var verifiers []cose.Verifier
	for _, s := range splitList(a[3]) {
		verifiers = append(verifiers, mkVerifier(s, vlog))
	}
	var idx, xor int
	fmt.Sscanf(a[4], "%d", &idx)
	fmt.Sscanf(a[5], "%d", &xor)
	var raw *[]byte
	var verify func() error
	switch kind {
	case "s1":
		m := &cose.Sign1Message{}
		if m.UnmarshalCBOR(data) != nil {
			return "dec=err"
		}
		raw = (*[]byte)(&m.Headers.RawProtected)
		verify = func() error { return m.Verify(ext, verifiers[0]) }
	case "sm":
		m := &cose.SignMessage{}
		if m.UnmarshalCBOR(data) != nil {
			return "dec=err"
		}
		raw = (*[]byte)(&m.Headers.RawProtected)
		verify = func() error { return m.Verify(ext, verifiers...) }
	default:
		return "harness-error vtwice kind"
	}
	if kind == "s1" && len(verifiers) == 0 {
		return "harness-error vtwice verifier"
	}
	r1 := verify()
	t1 := hexList(vlog.tbs)
	vlog.tbs = nil
	if idx < len(*raw) {
		(*raw)[idx] ^= byte(xor)
	}
	r2 := verify()
	return "dec=ok ver=" + errClass(r1) + " vtbs=" + t1 + " ver2=" + errClass(r2) + " vtbs2=" + hexList(vlog.tbs)
}

// smempty HEX IDX nil|empty : decode a COSE_Sign, empty one signature, encode again
func opSMEmpty(a []string) string {
	var m cose.SignMessage
	if m.UnmarshalCBOR(unhex(a[0])) != nil {
		return "dec=err"
	}
	var idx int
	fmt.Sscanf(a[1], "%d", &idx)
	if idx < len(m.Signatures) {
		if a[2] == "nil" {
			m.Signatures[idx].Signature = nil
		} else {
			m.Signatures[idx].Signature = []byte{}
		}
	}
	enc, err := m.MarshalCBOR()
	if err != nil {
		return "dec=ok enc=err"
	}
	return "dec=ok enc=" + hx(enc)
}

// empt KIND HEX nil|empty : decode a one-signature structure (retained raw buckets present), empty
// its signature — what a failed re-signing leaves behind — and encode again: never encodes
func opEmpt(a []string) string {
	data := unhex(a[1])
	var empty []byte
	if a[2] != "nil" {
		empty = []byte{}
	}
	var enc []byte
	var err error
	switch a[0] {
	case "s1", "s1u":
		var m cose.Sign1Message
		if a[0] == "s1" {
			err = m.UnmarshalCBOR(data)
		} else {
			err = (*cose.UntaggedSign1Message)(&m).UnmarshalCBOR(data)
		}
		if err != nil {
			return "dec=err"
		}
		m.Signature = empty
		if a[0] == "s1" {
			enc, err = m.MarshalCBOR()
		} else {
			enc, err = (*cose.UntaggedSign1Message)(&m).MarshalCBOR()
		}
	case "sig", "csig":
		var sg cose.Signature
		if err = sg.UnmarshalCBOR(data); err != nil {
			return "dec=err"
		}
		sg.Signature = empty
		if a[0] == "sig" {
			enc, err = sg.MarshalCBOR()
		} else {
			enc, err = (*cose.Countersignature)(&sg).MarshalCBOR()
		}
	default:
		return "harness-error empt kind"
	}
	if err != nil {
		return "dec=ok enc=err"
	}
	return "dec=ok enc=" + hx(enc) + " empty-signature-emitted"
}
