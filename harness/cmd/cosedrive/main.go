package main

// cosedrive — harness side of the correspondence check (DESIGN.md §4.2).
//
//	cosedrive exec            < ops  > impl.out     run each op against the real library
//	cosedrive gen FAMILY N SEED      > ops          generate operations
//	cosedrive oracle                                 second pass for real-crypto families

import (
	"bufio"
	"fmt"
	"os"
	"strconv"
	"time"
)

func execWithDeadline(line string, d time.Duration) string {
	ch := make(chan string, 1)
	go func() { ch <- execLine(line) }()
	select {
	case s := <-ch:
		return s
	case <-time.After(d):
		return "timeout"
	}
}

func main() {
	if len(os.Args) < 2 {
		fmt.Fprintln(os.Stderr, "usage: cosedrive exec|gen|real ...")
		os.Exit(2)
	}
	if kd := os.Getenv("VERIF_KEYDIR"); kd != "" {
		keyDir = kd
	}
	switch os.Args[1] {
	case "exec":
		in := bufio.NewReaderSize(os.Stdin, 1<<20)
		sc := bufio.NewScanner(in)
		sc.Buffer(make([]byte, 1<<20), 1<<28)
		out := bufio.NewWriterSize(os.Stdout, 1<<16)
		defer out.Flush()
		n := 0
		for sc.Scan() {
			line := sc.Text()
			if len(line) == 0 || line[0] == '#' {
				fmt.Fprintln(out, "skip")
				continue
			}
			fmt.Fprintln(out, execWithDeadline(line, 20*time.Second))
			n++
			if n%256 == 0 {
				out.Flush()
			}
		}
	case "gen":
		if len(os.Args) < 5 {
			fmt.Fprintln(os.Stderr, "usage: cosedrive gen FAMILY N SEED")
			os.Exit(2)
		}
		n, _ := strconv.Atoi(os.Args[3])
		seed, _ := strconv.ParseUint(os.Args[4], 10, 64)
		out := bufio.NewWriterSize(os.Stdout, 1<<16)
		defer out.Flush()
		generate(os.Args[2], n, seed, out)
	case "real":
		// real-crypto sweeps (C01/C03/C07/C14/C17): self-contained, print summary lines
		n, _ := strconv.Atoi(os.Args[3])
		seed, _ := strconv.ParseUint(os.Args[4], 10, 64)
		os.Exit(realSweep(os.Args[2], n, seed, os.Args[5:]))
	default:
		fmt.Fprintln(os.Stderr, "unknown mode")
		os.Exit(2)
	}
}
