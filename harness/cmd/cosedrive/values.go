package main

// Text notation for Go values exchanged between the harness and the Lean model driver
// (DESIGN.md Appendix C).  Tokens contain no spaces.
//
//	n | KIND:INT | a:INT | c:INT | s:HEX | b:HEX | bn | t | f | sv:N | f64:HEX16
//	[v,v] | {k=v,k=v} | cs(HDRS;OPTB) | csn | csl[v,v] | csln | x
//	HDRS := H(OPTB;MAP|-;OPTB;MAP|-)     OPTB := - | HEX

import (
	"encoding/hex"
	"fmt"
	"math"
	"math/big"
	"sort"
	"strconv"
	"strings"
	"time"

	"github.com/fxamacker/cbor/v2"
	cose "github.com/veraison/go-cose"
)

type opaqueT chan int

var opaqueV = make(opaqueT)

type parser struct {
	s string
	i int
}

func (p *parser) fail(msg string) {
	panic(fmt.Sprintf("parse error at %d (%s): %q", p.i, msg, p.s))
}

func (p *parser) peek() byte {
	if p.i < len(p.s) {
		return p.s[p.i]
	}
	return 0
}

func (p *parser) has(pre string) bool { return strings.HasPrefix(p.s[p.i:], pre) }

func (p *parser) eat(pre string) bool {
	if p.has(pre) {
		p.i += len(pre)
		return true
	}
	return false
}

func (p *parser) expect(pre string) {
	if !p.eat(pre) {
		p.fail("expected " + pre)
	}
}

func isHex(c byte) bool { return c >= '0' && c <= '9' || c >= 'a' && c <= 'f' }

func (p *parser) hexBytes() []byte {
	j := p.i
	for j < len(p.s) && isHex(p.s[j]) {
		j++
	}
	b, err := hex.DecodeString(p.s[p.i:j])
	if err != nil {
		p.fail("hex")
	}
	p.i = j
	return guarded(b)
}

func (p *parser) optBytes() []byte {
	if p.eat("-") {
		return nil
	}
	if p.eat("_") {
		return []byte{}
	}
	return p.hexBytes()
}

func (p *parser) integer() (neg bool, mag uint64) {
	if p.eat("-") {
		neg = true
	}
	j := p.i
	for j < len(p.s) && p.s[j] >= '0' && p.s[j] <= '9' {
		j++
	}
	v, err := strconv.ParseUint(p.s[p.i:j], 10, 64)
	if err != nil {
		p.fail("int")
	}
	p.i = j
	return neg, v
}

func (p *parser) int64v() int64 {
	neg, m := p.integer()
	if neg {
		return -int64(m-1) - 1
	}
	return int64(m)
}

var intKinds = []string{"i8", "i16", "i32", "i64", "i", "u8", "u16", "u32", "u64", "u"}

func (p *parser) value() any {
	switch {
	case p.eat("csln"):
		return []*cose.Countersignature(nil)
	case p.eat("csl["):
		out := []*cose.Countersignature{}
		if p.eat("]") {
			return out
		}
		for {
			v := p.value()
			c, ok := v.(*cose.Countersignature)
			if !ok {
				p.fail("csl element")
			}
			out = append(out, c)
			if p.eat("]") {
				return out
			}
			p.expect(",")
		}
	case p.eat("csn"):
		return (*cose.Countersignature)(nil)
	case p.eat("cs("):
		h := p.headers()
		p.expect(";")
		sig := p.optBytes()
		p.expect(")")
		return &cose.Countersignature{Headers: h, Signature: sig}
	case p.eat("sv:"):
		_, m := p.integer()
		return cbor.SimpleValue(m)
	case p.eat("s:"):
		return string(p.hexBytes())
	case p.eat("bn"):
		return []byte(nil)
	case p.eat("b:"):
		return p.hexBytes()
	case p.eat("f64:"):
		b := p.hexBytes()
		if len(b) != 8 {
			p.fail("f64")
		}
		var u uint64
		for _, x := range b {
			u = u<<8 | uint64(x)
		}
		return math.Float64frombits(u)
	case p.eat("a:"):
		return cose.Algorithm(p.int64v())
	case p.eat("c:"):
		return cose.Curve(p.int64v())
	case p.eat("["):
		out := []any{}
		if p.eat("]") {
			return out
		}
		for {
			out = append(out, p.value())
			if p.eat("]") {
				return out
			}
			p.expect(",")
		}
	case p.has("{"):
		return p.mapv()
	case p.eat("n"):
		return nil
	case p.eat("bg:"):
		// a big.Int VALUE (as the decoder delivers integers beyond int64): hex magnitude, optional sign
		neg := p.eat("-")
		j := p.i
		for j < len(p.s) && isHex(p.s[j]) {
			j++
		}
		v, ok := new(big.Int).SetString(p.s[p.i:j], 16)
		if !ok {
			p.fail("big")
		}
		p.i = j
		if neg {
			v.Neg(v)
		}
		return *v
	case p.eat("tg:"):
		_, num := p.integer()
		p.expect(":")
		return cbor.Tag{Number: num, Content: p.value()}
	case p.eat("tm:"):
		// a time.Time value (seconds since the epoch, UTC): the CBOR encoder has its own options for it
		neg, m := p.integer()
		sec := int64(m)
		if neg {
			sec = -sec
		}
		return time.Unix(sec, 0).UTC()
	case p.eat("t"):
		return true
	case p.eat("x"):
		return opaqueV
	}
	for _, k := range intKinds {
		if p.eat(k + ":") {
			neg, m := p.integer()
			var sv int64
			if neg {
				sv = -int64(m-1) - 1
			} else {
				sv = int64(m)
			}
			switch k {
			case "i":
				return int(sv)
			case "i8":
				return int8(sv)
			case "i16":
				return int16(sv)
			case "i32":
				return int32(sv)
			case "i64":
				return sv
			case "u":
				return uint(m)
			case "u8":
				return uint8(m)
			case "u16":
				return uint16(m)
			case "u32":
				return uint32(m)
			case "u64":
				return m
			}
		}
	}
	if p.eat("f") {
		return false
	}
	p.fail("value")
	return nil
}

func (p *parser) mapv() map[any]any {
	p.expect("{")
	out := map[any]any{}
	if p.eat("}") {
		return out
	}
	for {
		k := p.value()
		p.expect("=")
		v := p.value()
		out[k] = v
		if p.eat("}") {
			return out
		}
		p.expect(",")
	}
}

func (p *parser) optMap() map[any]any {
	if p.eat("-") {
		return nil
	}
	return p.mapv()
}

func (p *parser) headers() cose.Headers {
	p.expect("H(")
	var h cose.Headers
	h.RawProtected = p.optBytes()
	p.expect(";")
	h.Protected = p.optMap()
	p.expect(";")
	h.RawUnprotected = p.optBytes()
	p.expect(";")
	h.Unprotected = p.optMap()
	p.expect(")")
	return h
}

func (p *parser) sign1() *cose.Sign1Message {
	p.expect("S1(")
	m := &cose.Sign1Message{}
	m.Headers = p.headers()
	p.expect(";")
	m.Payload = p.optBytes()
	p.expect(";")
	m.Signature = p.optBytes()
	p.expect(")")
	return m
}

func (p *parser) signature() *cose.Signature {
	v := p.value()
	c, ok := v.(*cose.Countersignature)
	if !ok {
		p.fail("signature")
	}
	return (*cose.Signature)(c)
}

func (p *parser) signMsg() *cose.SignMessage {
	p.expect("SM(")
	m := &cose.SignMessage{}
	m.Headers = p.headers()
	p.expect(";")
	m.Payload = p.optBytes()
	p.expect(";")
	if p.eat("-") {
		m.Signatures = nil
	} else {
		p.expect("[")
		m.Signatures = []*cose.Signature{}
		if !p.eat("]") {
			for {
				if p.eat("csn") {
					m.Signatures = append(m.Signatures, nil) // an unset slot
				} else {
					m.Signatures = append(m.Signatures, p.signature())
				}
				if p.eat("]") {
					break
				}
				p.expect(",")
			}
		}
	}
	p.expect(")")
	return m
}

// K(kty;id;alg;ops;baseiv;params)   ops := - | [int,int]
func (p *parser) key() *cose.Key {
	p.expect("K(")
	k := &cose.Key{}
	k.Type = cose.KeyType(p.int64v())
	p.expect(";")
	k.ID = p.optBytes()
	p.expect(";")
	k.Algorithm = cose.Algorithm(p.int64v())
	p.expect(";")
	if p.eat("-") {
		k.Ops = nil
	} else {
		p.expect("[")
		k.Ops = []cose.KeyOp{}
		if !p.eat("]") {
			for {
				k.Ops = append(k.Ops, cose.KeyOp(p.int64v()))
				if p.eat("]") {
					break
				}
				p.expect(",")
			}
		}
	}
	p.expect(";")
	k.BaseIV = p.optBytes()
	p.expect(";")
	k.Params = p.optMap()
	p.expect(")")
	return k
}

func (p *parser) done() {
	if p.i != len(p.s) {
		p.fail("trailing")
	}
}

// ---------------------------------------------------------------- dumping

func dumpOptBytes(b []byte) string {
	if b == nil {
		return "-"
	}
	return hex.EncodeToString(b)
}

func dumpValue(v any) string {
	switch t := v.(type) {
	case nil:
		return "n"
	case time.Time:
		return "tm:" + strconv.FormatInt(t.Unix(), 10)
	case big.Int:
		if t.Sign() < 0 {
			return "bg:-" + new(big.Int).Neg(&t).Text(16)
		}
		return "bg:" + t.Text(16)
	case cbor.Tag:
		return "tg:" + strconv.FormatUint(t.Number, 10) + ":" + dumpValue(t.Content)
	case int:
		return "i:" + strconv.FormatInt(int64(t), 10)
	case int8:
		return "i8:" + strconv.FormatInt(int64(t), 10)
	case int16:
		return "i16:" + strconv.FormatInt(int64(t), 10)
	case int32:
		return "i32:" + strconv.FormatInt(int64(t), 10)
	case int64:
		return "i64:" + strconv.FormatInt(t, 10)
	case uint:
		return "u:" + strconv.FormatUint(uint64(t), 10)
	case uint8:
		return "u8:" + strconv.FormatUint(uint64(t), 10)
	case uint16:
		return "u16:" + strconv.FormatUint(uint64(t), 10)
	case uint32:
		return "u32:" + strconv.FormatUint(uint64(t), 10)
	case uint64:
		return "u64:" + strconv.FormatUint(t, 10)
	case cose.Algorithm:
		return "a:" + strconv.FormatInt(int64(t), 10)
	case cose.Curve:
		return "c:" + strconv.FormatInt(int64(t), 10)
	case string:
		return "s:" + hex.EncodeToString([]byte(t))
	case []byte:
		if t == nil {
			return "bn"
		}
		return "b:" + hex.EncodeToString(t)
	case bool:
		if t {
			return "t"
		}
		return "f"
	case cbor.SimpleValue:
		return "sv:" + strconv.FormatUint(uint64(t), 10)
	case float64:
		return fmt.Sprintf("f64:%016x", math.Float64bits(t))
	case []any:
		parts := make([]string, len(t))
		for i, e := range t {
			parts[i] = dumpValue(e)
		}
		return "[" + strings.Join(parts, ",") + "]"
	case map[any]any:
		return dumpMap(t)
	case cose.ProtectedHeader:
		return dumpMap(t)
	case cose.UnprotectedHeader:
		return dumpMap(t)
	case *cose.Countersignature:
		if t == nil {
			return "csn"
		}
		return "cs(" + dumpHeaders(&t.Headers) + ";" + dumpOptBytes(t.Signature) + ")"
	case []*cose.Countersignature:
		if t == nil {
			return "csln"
		}
		parts := make([]string, len(t))
		for i, e := range t {
			parts[i] = dumpValue(e)
		}
		return "csl[" + strings.Join(parts, ",") + "]"
	}
	return "x"
}

func dumpMap(m map[any]any) string {
	parts := make([]string, 0, len(m))
	for k, v := range m {
		parts = append(parts, dumpValue(k)+"="+dumpValue(v))
	}
	sort.Strings(parts)
	return "{" + strings.Join(parts, ",") + "}"
}

// nil and empty maps are not distinguished (the model does not track the difference)
func dumpOptMap(m map[any]any) string {
	return dumpMap(m)
}

func dumpHeaders(h *cose.Headers) string {
	return "H(" + dumpOptBytes(h.RawProtected) + ";" + dumpOptMap(h.Protected) + ";" +
		dumpOptBytes(h.RawUnprotected) + ";" + dumpOptMap(h.Unprotected) + ")"
}

func dumpSign1(m *cose.Sign1Message) string {
	return "S1(" + dumpHeaders(&m.Headers) + ";" + dumpOptBytes(m.Payload) + ";" + dumpOptBytes(m.Signature) + ")"
}

func dumpSignature(s *cose.Signature) string {
	if s == nil {
		return "csn"
	}
	return "cs(" + dumpHeaders(&s.Headers) + ";" + dumpOptBytes(s.Signature) + ")"
}

func dumpSignMsg(m *cose.SignMessage) string {
	var sigs string
	if m.Signatures == nil {
		sigs = "-"
	} else {
		parts := make([]string, len(m.Signatures))
		for i, s := range m.Signatures {
			parts[i] = dumpSignature(s)
		}
		sigs = "[" + strings.Join(parts, ",") + "]"
	}
	return "SM(" + dumpHeaders(&m.Headers) + ";" + dumpOptBytes(m.Payload) + ";" + sigs + ")"
}

func dumpKey(k *cose.Key) string {
	ops := "-"
	if k.Ops != nil {
		parts := make([]string, len(k.Ops))
		for i, o := range k.Ops {
			parts[i] = strconv.FormatInt(int64(o), 10)
		}
		ops = "[" + strings.Join(parts, ",") + "]"
	}
	return "K(" + strconv.FormatInt(int64(k.Type), 10) + ";" + dumpOptBytes(k.ID) + ";" +
		strconv.FormatInt(int64(k.Algorithm), 10) + ";" + ops + ";" + dumpOptBytes(k.BaseIV) + ";" +
		dumpOptMap(k.Params) + ")"
}
