package main

import (
	"crypto/ecdsa"
	"crypto/ed25519"
	"crypto/elliptic"
	"crypto/rand"
	"crypto/sha256"
	"encoding/asn1"
	"fmt"
	"math/big"
	"strings"
)

func ecdsaSignRaw(key *ecdsa.PrivateKey, digest []byte) (*big.Int, *big.Int, error) {
	return ecdsa.Sign(rand.Reader, key, digest)
}

func leftPadBytes(b []byte, size int) []byte {
	if len(b) >= size {
		return append([]byte{}, b...)
	}
	return append(make([]byte, size-len(b)), b...)
}

func derSig(r, s *big.Int) []byte {
	b, _ := asn1.Marshal(struct{ R, S *big.Int }{r, s})
	return b
}

// ---- COSE_Key wire generation (C14 / C15)

type keyFields struct {
	kty, crv, alg *W
	kid, biv      *W
	ops           *W
	x, y, d       *W
	extra         []*W
}

func (k *keyFields) wire(r *rng) *W {
	m := wMap()
	add := func(l int64, v *W) {
		if v != nil {
			m.Items = append(m.Items, wInt(l), v)
		}
	}
	add(1, k.kty)
	add(2, k.kid)
	add(3, k.alg)
	add(4, k.ops)
	add(5, k.biv)
	add(-1, k.crv)
	add(-2, k.x)
	add(-3, k.y)
	add(-4, k.d)
	m.Items = append(m.Items, k.extra...)
	if r != nil {
		m.randomize(r, 15)
	}
	return m
}

func curveSizeOf(crv int64) int {
	switch crv {
	case 1:
		return 32
	case 2:
		return 48
	case 3:
		return 66
	}
	return 0
}

func algForCrv(crv int64) int64 {
	switch crv {
	case 1:
		return -7
	case 2:
		return -35
	case 3:
		return -36
	case 6:
		return -8
	}
	return 0
}

func coordOfLen(r *rng, n int) []byte {
	b := r.bytes(n)
	if n > 0 && b[0] == 0 {
		b[0] = 1
	}
	return b
}

func randValidKey(r *rng) *keyFields {
	k := &keyFields{}
	if r.chance(2, 3) {
		crv := int64(1 + r.intn(3))
		size := curveSizeOf(crv)
		k.kty, k.crv = wInt(2), wInt(crv)
		lens := func() int {
			switch r.intn(6) {
			case 0:
				return size - 1
			case 1:
				return size - r.intn(size)
			}
			return size
		}
		k.x, k.y = wBstr(coordOfLen(r, lens())), wBstr(coordOfLen(r, lens()))
		if r.chance(1, 2) {
			k.d = wBstr(coordOfLen(r, lens()))
		}
		if r.chance(1, 2) {
			k.alg = wInt(algForCrv(crv))
		}
	} else if r.chance(3, 4) {
		k.kty, k.crv = wInt(1), wInt(6)
		k.x = wBstr(r.bytes(32))
		if r.chance(1, 2) {
			k.d = wBstr(r.bytes(32))
		}
		if r.chance(1, 2) {
			k.alg = wInt(-8)
		}
	} else if r.chance(1, 2) {
		k.kty, k.crv = wInt(4), wBstr(r.bytes(16)) // symmetric: -1 is k
	} else {
		k.kty = wInt(int64(r.pick([]int{3, 5, 7, -1, 100})))
		k.extra = []*W{wInt(-1), wInt(int64(r.intn(9))), wInt(-2), wBstr(r.bytes(4))}
	}
	if r.chance(1, 4) {
		k.kid = wBstr(r.bytes(r.intn(5)))
	}
	if r.chance(1, 3) {
		ops := wArr()
		for i := 0; i < r.intn(4); i++ {
			if r.chance(1, 4) {
				ops.Items = append(ops.Items, wTstr(r.pick2s([]string{"sign", "verify", "encrypt", "deriveBits"})))
			} else {
				ops.Items = append(ops.Items, wInt(int64(1+r.intn(10))))
			}
		}
		k.ops = ops
	}
	if r.chance(1, 6) {
		k.biv = wBstr(r.bytes(r.intn(4)))
	}
	if r.chance(1, 5) {
		k.extra = append(k.extra, wTstr("ext"), wInt(int64(r.intn(100))))
	}
	if r.chance(1, 8) {
		k.extra = append(k.extra, wInt(int64(-10-r.intn(5))), wBstr(r.bytes(3)))
	}
	return k
}

// C15: systematic grid kty × crv × alg × ops × presence/length of x, y, d, then mutations
func genKeyGrid(r *rng, n int, p func(string, ...any)) {
	// the reserved algorithm 0 on the wire (Key uses 0 for "no algorithm"): with every key type
	for _, k := range []string{
		"a40102030020012158200000000000000000000000000000000000000000000000000000000000000001",
		"a4010103002006215820d75a980182b10ab7d54bfed3c964073a0ee172f3daa62325af021a68f707511a",
		"a3010403002044" + "01020304", "a30118630300204101",
		"a40101032720062158" + "20d75a980182b10ab7d54bfed3c964073a0ee172f3daa62325af021a68f707511a",
	} {
		p("dec key %s", k)
		p("keyuse %s", k)
	}
	ktys := []int64{0, 1, 2, 4, 3, -1}
	crvs := []int64{0, 1, 2, 3, 4, 5, 6, 7, 8, -1}
	algs := []int64{0, -7, -35, -36, -8, -37, 1}
	opss := []*W{nil, wArr(), wArr(wInt(1)), wArr(wInt(2)), wArr(wInt(1), wInt(2)), wArr(wTstr("sign")), wArr(wInt(3))}
	type pres struct{ x, y, d int } // -1 absent, else length delta from curve size (0 = full) or 1000=empty
	presence := []pres{{0, 0, -1}, {0, 0, 0}, {-1, -1, 0}, {0, -1, -1}, {-1, 0, -1}, {-1, -1, -1}, {1, 0, -1}, {0, 0, 1}, {-2, -2, -2}, {1000, 1000, 0}, {0, 0, 1000}}
	mk := func(delta int, size int) *W {
		switch {
		case delta == -1:
			return nil
		case delta == 1000:
			return wBstr([]byte{})
		case delta == 1:
			return wBstr(coordOfLen(r, size+1))
		case delta == -2:
			return wBstr(coordOfLen(r, size-1))
		}
		return wBstr(coordOfLen(r, size))
	}
	for _, kty := range ktys {
		for _, crv := range crvs {
			for _, alg := range algs {
				for oi, ops := range opss {
					for pi, pr := range presence {
						// thin the full product: vary ops and presence fully only near valid combos
						near := (kty == 2 && crv >= 1 && crv <= 3) || (kty == 1 && crv == 6)
						if !near && (oi > 1 || pi > 2) {
							continue
						}
						if near && oi > 1 && pi > 4 && alg != 0 {
							continue
						}
						size := curveSizeOf(crv)
						if size == 0 {
							size = 32
						}
						k := &keyFields{kty: wInt(kty), crv: wInt(crv), ops: ops}
						if alg != 0 {
							k.alg = wInt(alg)
						}
						k.x, k.d = mk(pr.x, size), mk(pr.d, size)
						if kty != 1 {
							k.y = mk(pr.y, size)
						}
						p("keyuse %s", hexs(k.wire(nil).enc()))
					}
				}
			}
		}
	}
	// key_ops: every value near the registered range and near multiples of 64 / 256, alone, in both
	// orders with sign / verify, and in unsorted lists; text forms of every registered name
	{
		opVals := []int64{1, 2, 3, 4, 5, 6, 7, 8, 9, 10, 11, 12, 0, -1, -2, 23, 24, 62, 63, 64, 65, 66, 127, 128, 129, 130,
			255, 256, 257, 258, -62, -63, -64, -65, -126, -127, 65537, 65538, 1 << 32, 1<<32 + 1, 1<<32 + 2, -70000}
		okp := func(ops *W) string {
			k := &keyFields{kty: wInt(1), crv: wInt(6), ops: ops, x: wBstr(r.bytes(32)), d: wBstr(r.bytes(32))}
			return hexs(k.wire(nil).enc())
		}
		for _, v := range opVals {
			p("keyuse %s", okp(wArr(wInt(v))))
			p("keyuse %s", okp(wArr(wInt(3), wInt(4), wInt(v))))
			p("keyuse %s", okp(wArr(wInt(v), wInt(1))))
			p("keyuse %s", okp(wArr(wInt(2), wInt(v))))
		}
		for _, l := range [][]int64{{2, 1}, {1, 2}, {7, 2, 1}, {2, 7, 1}, {1, 7, 2}, {10, 9, 8, 2}, {10, 1, 9}, {5, 1, 3}, {2, 2}, {1, 1, 2}, {9, 2, 1, 10}} {
			items := []*W{}
			for _, v := range l {
				items = append(items, wInt(v))
			}
			p("keyuse %s", okp(wArr(items...)))
		}
		for _, nm := range []string{"sign", "verify", "encrypt", "decrypt", "wrapKey", "unwrapKey", "deriveKey", "deriveBits", "MAC create", "MAC verify", "Sign", "verify ", ""} {
			p("keyuse %s", okp(wArr(wTstr(nm))))
			p("keyuse %s", okp(wArr(wTstr(nm), wInt(1))))
			p("keyuse %s", okp(wArr(wInt(2), wTstr(nm))))
		}
	}
	// extra parameters whose values carry tags on the wire (bignums around 2^63 / 2^64, other tags,
	// nested): accepted, and the re-encoding decodes to the same canonical bytes
	for _, v := range []*W{
		wTag(2, wBstr([]byte{0x80, 0, 0, 0, 0, 0, 0, 0})), wTag(2, wBstr([]byte{0xff, 0xff, 0xff, 0xff, 0xff, 0xff, 0xff, 0xff})),
		wTag(2, wBstr([]byte{0x7f, 0xff, 0xff, 0xff, 0xff, 0xff, 0xff, 0xff})), wTag(2, wBstr([]byte{1, 0, 0, 0, 0, 0, 0, 0, 0})),
		wTag(3, wBstr([]byte{0x80, 0, 0, 0, 0, 0, 0, 0})), wTag(3, wBstr([]byte{0xff, 0xff, 0xff, 0xff, 0xff, 0xff, 0xff, 0xff})), wTag(2, wBstr([]byte{5})),
		{M: 1, HW: 8, N: 1 << 63}, {M: 1, HW: 8, N: 1<<64 - 1}, {M: 0, HW: 8, N: 1 << 63},
		wTag(37, wBstr(make([]byte, 16))), wTag(1, wInt(1700000000)), wTag(100, wArr(wInt(1), wTstr("x"))),
		wArr(wTag(2, wBstr([]byte{0x80, 0, 0, 0, 0, 0, 0, 0})), wInt(1)), wMap(wInt(1), wTag(32, wTstr("urn:x"))),
	} {
		k := &keyFields{kty: wInt(1), crv: wInt(6), x: wBstr(r.bytes(32)), kid: wBstr([]byte{1}), ops: wArr(wInt(2)), biv: wBstr([]byte{2})}
		k.extra = []*W{wTstr("serial"), v.clone()}
		p("keyuse %s", hexs(k.wire(nil).enc()))
		k2 := &keyFields{kty: wInt(2), crv: wInt(1), x: wBstr(coordOfLen(r, 32)), y: wBstr(coordOfLen(r, 32))}
		k2.extra = []*W{wInt(-70001), v.clone()}
		p("keyuse %s", hexs(k2.wire(nil).enc()))
	}
	// labels wrapped in a tag (55799 is stripped silently by the CBOR library): refused
	for _, tag := range []uint64{55799, 1, 100} {
		for fi := 0; fi < 5; fi++ {
			k := &keyFields{kty: wInt(1), crv: wInt(6), x: wBstr(r.bytes(32))}
			m := k.wire(nil)
			if 2*fi < len(m.Items) {
				m.Items[2*fi] = wTag(tag, m.Items[2*fi])
			}
			p("keyuse %s", hexs(m.enc()))
			p("dec key %s", hexs(m.enc()))
		}
		p("keyuse %s", hexs(wMap(wTag(tag, wInt(1)), wInt(4), wInt(-1), wBstr([]byte{0xaa})).enc()))
		p("keyuse %s", hexs(wMap(wInt(1), wInt(4), wInt(-1), wBstr([]byte{0xaa}), wTag(tag, wTstr("a")), wInt(1)).enc()))
	}
	// a COSE_Key wrapped in a tag (the CBOR library looks through tags when decoding into a map), with
	// and without a tagged label inside: not a COSE_Key
	for _, tag := range []uint64{55799, 18, 100, 2} {
		k := &keyFields{kty: wInt(1), crv: wInt(6), x: wBstr(r.bytes(32))}
		p("keyuse %s", hexs(wTag(tag, k.wire(nil)).enc()))
		p("dec key %s", hexs(wTag(tag, k.wire(nil)).enc()))
		m := k.wire(nil)
		m.Items[0] = wTag(55799, m.Items[0])
		p("keyuse %s", hexs(wTag(tag, m).enc()))
		p("keyuse %s", hexs(wTag(tag, wTag(55799, k.wire(nil))).enc()))
	}
	// an integer label and the text label that spells it: two different labels, both kept
	for _, n := range []int64{-2, -1, 7, 99, -70001, 1, 3} {
		k := &keyFields{kty: wInt(2), crv: wInt(1), x: wBstr(coordOfLen(r, 32)), y: wBstr(coordOfLen(r, 32))}
		k.extra = []*W{wTstr(fmt.Sprint(n)), wInt(5)}
		if n > 5 || n < -4 {
			k.extra = append(k.extra, wInt(n), wInt(6))
		}
		p("keyuse %s", hexs(k.wire(nil).enc()))
	}
	// OKP keys whose x / d have the other natural Ed25519 sizes (64-byte private key, 57-byte Ed448)
	for _, crv := range []int64{6, 7, 4} {
		for _, lx := range []int{-1, 32, 64, 57, 31} {
			for _, ld := range []int{-1, 32, 64, 57, 33} {
				k := &keyFields{kty: wInt(1), crv: wInt(crv)}
				if lx >= 0 {
					k.x = wBstr(r.bytes(lx))
				}
				if ld >= 0 {
					k.d = wBstr(r.bytes(ld))
				}
				p("keyuse %s", hexs(k.wire(nil).enc()))
			}
		}
	}
	// type confusion at every field
	bads := []*W{wTstr("a"), wBstr([]byte{1}), wNull(), wBool(true), wArr(), wMap(), wInt(1), wInt(-1), {M: 7, HW: 8, N: 0x3ff0000000000000}, {M: 1, HW: 8, N: 1 << 63}, wTag(2, wBstr([]byte{1}))}
	for fi := 0; fi < 9; fi++ {
		for _, b := range bads {
			for _, base := range []int{0, 1} {
				var k *keyFields
				if base == 0 {
					k = &keyFields{kty: wInt(2), crv: wInt(1), x: wBstr(coordOfLen(r, 32)), y: wBstr(coordOfLen(r, 32)), d: wBstr(coordOfLen(r, 32))}
				} else {
					k = &keyFields{kty: wInt(1), crv: wInt(6), x: wBstr(r.bytes(32)), d: wBstr(r.bytes(32))}
				}
				switch fi {
				case 0:
					k.kty = b
				case 1:
					k.kid = b
				case 2:
					k.alg = b
				case 3:
					k.ops = b
				case 4:
					k.biv = b
				case 5:
					k.crv = b
				case 6:
					k.x = b
				case 7:
					k.y = b
				case 8:
					k.d = b
				}
				p("keyuse %s", hexs(k.wire(nil).enc()))
			}
		}
	}
	for i := 0; i < n; i++ {
		k := randValidKey(r)
		w := k.wire(r)
		switch x := r.intn(10); {
		case x < 5:
		case x < 8:
			mutateTree(r, w)
		default:
			p("keyuse %s", hexs(mutateRaw(r, w.enc())))
			continue
		}
		p("keyuse %s", hexs(w.enc()))
	}
}

// C14: keys with chosen coordinates (leading zero bytes included) through the conversion
// functions; coordinates need not be on the curve for the conversion code.
func genKeyRT(r *rng, n int, p func(string, ...any)) {
	for _, cn := range []string{"p256", "p384", "p521"} {
		c, _ := curveOf(cn)
		size := (c.Params().BitSize + 7) / 8
		// a coordinate equal to zero (the point with x = 0 is on each of the three curves)
		for _, d := range []string{"-", hexs(coordOfLen(r, size)), hexs(coordOfLen(r, 1))} {
			p("keyrt %s _ %s %s", cn, hexs(coordOfLen(r, size)), d)
			p("keyrt %s %s _ %s", cn, hexs(coordOfLen(r, size)), d)
			p("keyrt %s _ _ %s", cn, d)
			p("keyrt %s _ %s %s +kid", cn, hexs(coordOfLen(r, size-1)), d)
		}
		lens := []int{size, size - 1, size - 2, size - 5, 1, size / 2}
		for _, lx := range lens {
			for _, ly := range lens {
				for _, ld := range []int{-1, size, size - 1, 1} {
					d := "-"
					if ld >= 0 {
						d = hexs(coordOfLen(r, ld))
					}
					ex := ""
					if r.chance(1, 3) {
						ex = r.pick2s([]string{" +", " +1", " +9", " +12", " +13", " +20"})
					}
					p("keyrt %s %s %s %s%s", cn, hexs(coordOfLen(r, lx)), hexs(coordOfLen(r, ly)), d, ex)
				}
			}
		}
		// real keys, searched for leading zero bytes
		found := 0
		for i := 0; found < n/30+4 && i < 200000; i++ {
			k := detKey(c, fmt.Sprintf("rt%d", i+int(r.next()%1000000)))
			if len(k.X.Bytes()) < size || len(k.Y.Bytes()) < size || len(k.D.Bytes()) < size || i%400 == 0 {
				found++
				p("keyrt %s %s %s %s", cn, hexs(k.X.Bytes()), hexs(k.Y.Bytes()), hexs(k.D.Bytes()))
				p("keyrt %s %s %s -", cn, hexs(k.X.Bytes()), hexs(k.Y.Bytes()))
			}
		}
	}
	for i := 0; i < n/10+5; i++ {
		seed := sha256.Sum256(r.bytes(8))
		if r.chance(1, 4) {
			seed[0] = 0
		}
		priv := ed25519.NewKeyFromSeed(seed[:])
		ex := ""
		if r.chance(1, 3) {
			ex = r.pick2s([]string{" +", " +10", " +11", " +12", " +13", " +14", " +25"})
		}
		p("keyrt ed %s - %s%s", hexs(priv[32:]), hexs(seed[:]), ex)
		p("keyrt ed %s - -%s", hexs(priv[32:]), ex)
	}
	// one Key variable decoded into repeatedly: restrictions / parameters of an earlier key must
	// not survive into a later one
	mkKey := func(ops *W, priv bool, extra bool) string {
		k := &keyFields{kty: wInt(1), crv: wInt(6), x: wBstr(r.bytes(32)), ops: ops}
		if priv {
			k.d = wBstr(r.bytes(32))
		}
		if extra {
			k.extra = []*W{wTstr("ext"), wInt(5)}
			k.kid = wBstr([]byte{1})
			k.biv = wBstr([]byte{2})
		}
		return hexs(k.wire(nil).enc())
	}
	minimal := hexs(wMap(wInt(1), wInt(1), wInt(3), wInt(-8)).enc())
	for i := 0; i < 6; i++ {
		seqs := [][]string{
			{mkKey(wArr(wInt(1)), true, true), mkKey(nil, false, false)},
			{mkKey(wArr(wInt(2)), false, true), mkKey(nil, true, false)},
			{mkKey(nil, true, true), minimal},
			{mkKey(wArr(), true, false), mkKey(nil, true, false), mkKey(wArr(wInt(1), wInt(2)), true, true), mkKey(nil, false, false)},
			{minimal, mkKey(nil, true, true), minimal},
		}
		for _, sq := range seqs {
			p("khist %s", strings.Join(sq, ","))
		}
	}
	_ = elliptic.P256
}
