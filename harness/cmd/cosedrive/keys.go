package main

import (
	"bytes"
	"crypto/ecdsa"
	"encoding/asn1"
	"encoding/hex"
	"errors"
	"io"
	"math/big"
	"strconv"
	"strings"

	cose "github.com/veraison/go-cose"
)

var (
	errSigner   = errors.New("harness: signer failed")
	errVerifier = errors.New("harness: verifier failed")
)

// call log shared by the spy signers / verifiers of one operation
type callLog struct {
	tbs [][]byte
}

// transparent scheme: sig = 0x01 ‖ keyid ‖ content
type tSigner struct {
	alg  cose.Algorithm
	kid  byte
	mode string // "T" transparent, "err", "empty"
	log  *callLog
}

func (s *tSigner) Algorithm() cose.Algorithm { return s.alg }

// nested library call made by re-entrant spies ("R" mode): a realistic signer may itself verify
// a COSE_Sign1 token before it signs; the bytes it was handed must not change under it.
func nestedUse() {
	var m cose.Sign1Message
	_ = m.UnmarshalCBOR(nestedMsg)
	_ = m.Verify(nil, &tVerifier{alg: -7, kid: 9, mode: "T", log: &callLog{}})
	_, _ = m.MarshalCBOR()
}

var nestedMsg = func() []byte {
	b, _ := hex.DecodeString("d28443a10126a04a6e6573746564206d73674401020304")
	return b
}()

func (s *tSigner) Sign(_ io.Reader, content []byte) ([]byte, error) {
	if s.mode == "R" {
		nestedUse()
	}
	s.log.tbs = append(s.log.tbs, append([]byte(nil), content...))
	switch s.mode {
	case "err":
		return nil, errSigner
	case "errb":
		// a faulty signer that hands back a partly written buffer together with its error
		return []byte{0xde, 0xad, 0xbe, 0xef}, errSigner
	case "empty":
		return []byte{}, nil
	}
	out := make([]byte, 0, len(content)+2)
	out = append(out, 0x01, s.kid)
	return append(out, content...), nil
}

type tVerifier struct {
	alg  cose.Algorithm
	kid  byte
	mode string // "T", "err", "ok"
	log  *callLog
}

func (v *tVerifier) Algorithm() cose.Algorithm { return v.alg }
func (v *tVerifier) Verify(content, sig []byte) error {
	if v.mode == "R" {
		nestedUse()
	}
	v.log.tbs = append(v.log.tbs, append([]byte(nil), content...))
	switch v.mode {
	case "err":
		return errVerifier
	case "ok":
		return nil
	}
	want := append([]byte{0x01, v.kid}, content...)
	if bytes.Equal(want, sig) {
		return nil
	}
	return cose.ErrVerification
}

// "T:alg:kid" | "F:alg:err" | "F:alg:empty" | "F:alg:ok"
func parseKeySpec(s string) (kind string, alg int64, arg string) {
	parts := strings.Split(s, ":")
	if len(parts) != 3 {
		panic("bad key spec " + s)
	}
	a, err := strconv.ParseInt(parts[1], 10, 64)
	if err != nil {
		panic("bad key spec " + s)
	}
	return parts[0], a, parts[2]
}

// "E:curve:Rhex:Shex": the library's own ECDSA signer over an opaque crypto.Signer that returns
// ASN.1(R, S) — reaches encodeECDSASignature through the public API with chosen (R, S).
type spySigner struct {
	inner cose.Signer
	log   *callLog
}

func (s *spySigner) Algorithm() cose.Algorithm { return s.inner.Algorithm() }
func (s *spySigner) Sign(r io.Reader, content []byte) ([]byte, error) {
	s.log.tbs = append(s.log.tbs, append([]byte(nil), content...))
	return s.inner.Sign(r, content)
}

func mkSigner(spec string, log *callLog) cose.Signer {
	if strings.HasPrefix(spec, "E:") {
		parts := strings.Split(spec, ":")
		curve, alg := curveOf(parts[1])
		der, _ := asn1.Marshal(struct{ R, S *big.Int }{parseSigned(parts[2]), parseSigned(parts[3])})
		stub := &asn1Stub{pub: &ecdsa.PublicKey{Curve: curve, X: big.NewInt(1), Y: big.NewInt(1)}, out: der}
		inner, err := cose.NewSigner(alg, stub)
		if err != nil {
			panic("bad E signer")
		}
		return &spySigner{inner: inner, log: log}
	}
	kind, alg, arg := parseKeySpec(spec)
	if kind == "T" || kind == "R" {
		k, _ := strconv.Atoi(arg)
		return &tSigner{alg: cose.Algorithm(alg), kid: byte(k), mode: kind, log: log}
	}
	return &tSigner{alg: cose.Algorithm(alg), mode: arg, log: log}
}

func mkVerifier(spec string, log *callLog) cose.Verifier {
	kind, alg, arg := parseKeySpec(spec)
	if kind == "T" || kind == "R" {
		k, _ := strconv.Atoi(arg)
		return &tVerifier{alg: cose.Algorithm(alg), kid: byte(k), mode: kind, log: log}
	}
	return &tVerifier{alg: cose.Algorithm(alg), mode: arg, log: log}
}

func splitList(s string) []string {
	// "[a,b,c]" with no nesting
	s = strings.TrimPrefix(s, "[")
	s = strings.TrimSuffix(s, "]")
	if s == "" {
		return nil
	}
	return strings.Split(s, ",")
}

func errClass(err error) string {
	switch {
	case err == nil:
		return "ok"
	case errors.Is(err, errSigner):
		return "err signer"
	case errors.Is(err, errVerifier):
		return "err verifier"
	case errors.Is(err, cose.ErrAlgorithmMismatch):
		return "err algMismatch"
	case errors.Is(err, cose.ErrAlgorithmNotFound):
		return "err algNotFound"
	case errors.Is(err, cose.ErrEmptySignature):
		return "err emptySig"
	case errors.Is(err, cose.ErrMissingPayload):
		return "err missingPayload"
	case errors.Is(err, cose.ErrNoSignatures):
		return "err noSignatures"
	case errors.Is(err, cose.ErrVerification):
		return "err verification"
	case errors.Is(err, cose.ErrInvalidAlgorithm):
		return "err invalidAlg"
	case errors.Is(err, cose.ErrAlgorithmNotSupported):
		return "err algNotSupported"
	case errors.Is(err, cose.ErrOpNotSupported):
		return "err opNotSupported"
	case errors.Is(err, cose.ErrNotPrivKey):
		return "err notPriv"
	case errors.Is(err, cose.ErrEC2NoPub):
		return "err ec2NoPub"
	case errors.Is(err, cose.ErrOKPNoPub):
		return "err okpNoPub"
	case errors.Is(err, cose.ErrInvalidPubKey):
		return "err invalidPub"
	case errors.Is(err, cose.ErrInvalidPrivKey):
		return "err invalidPriv"
	case errors.Is(err, cose.ErrInvalidKey):
		return "err invalidKey"
	}
	return "err other"
}
