package main

// Harness-side CBOR wire trees: an independent, tiny encoder that can make every encoder
// choice a peer may make (head width per item, key order) and every structural fault.

import (
	"encoding/binary"
	"sort"
)

type rng struct{ s uint64 }

func (r *rng) next() uint64 {
	r.s += 0x9e3779b97f4a7c15
	z := r.s
	z = (z ^ (z >> 30)) * 0xbf58476d1ce4e5b9
	z = (z ^ (z >> 27)) * 0x94d049bb133111eb
	return z ^ (z >> 31)
}
func (r *rng) intn(n int) int {
	if n <= 0 {
		return 0
	}
	return int(r.next() % uint64(n))
}
func (r *rng) chance(num, den int) bool { return r.intn(den) < num }
func (r *rng) bytes(n int) []byte {
	b := make([]byte, n)
	for i := range b {
		b[i] = byte(r.next())
	}
	return b
}
func (r *rng) pick(xs []int) int { return xs[r.intn(len(xs))] }

// W is a CBOR item with explicit encoder choices.
type W struct {
	M     int    // major type 0..7
	HW    int    // head width in following bytes: 0 (immediate), 1, 2, 4, 8; -1 = shortest
	N     uint64 // argument (uint, nint, tag number, simple/float bits)
	B     []byte // bstr / tstr content
	Items []*W   // array elements; map: k0,v0,k1,v1,…; tag: one element
	Indef bool   // indefinite length marker (always refused by go-cose)
	Raw   []byte // if non-nil: emitted verbatim instead of this node
	NOver int    // added to the announced length / count (structural fault)
	Fixed bool   // a COSE structure's own array: head stays shortest under randomize
}

func shortestHW(n uint64) int {
	switch {
	case n < 24:
		return 0
	case n < 1<<8:
		return 1
	case n < 1<<16:
		return 2
	case n < 1<<32:
		return 4
	}
	return 8
}

func head(m int, hw int, n uint64) []byte {
	if hw < 0 || hw < shortestHW(n) {
		hw = shortestHW(n)
	}
	switch hw {
	case 0:
		return []byte{byte(m<<5) | byte(n)}
	case 1:
		return []byte{byte(m<<5) | 24, byte(n)}
	case 2:
		b := []byte{byte(m<<5) | 25, 0, 0}
		binary.BigEndian.PutUint16(b[1:], uint16(n))
		return b
	case 4:
		b := []byte{byte(m<<5) | 26, 0, 0, 0, 0}
		binary.BigEndian.PutUint32(b[1:], uint32(n))
		return b
	}
	b := []byte{byte(m<<5) | 27, 0, 0, 0, 0, 0, 0, 0, 0}
	binary.BigEndian.PutUint64(b[1:], n)
	return b
}

func (w *W) enc() []byte {
	if w.Raw != nil {
		return w.Raw
	}
	var out []byte
	switch w.M {
	case 0, 1, 7:
		return head(w.M, w.HW, w.N)
	case 2, 3:
		if w.Indef {
			out = []byte{byte(w.M<<5) | 31}
			out = append(out, head(w.M, -1, uint64(len(w.B)))...)
			out = append(out, w.B...)
			return append(out, 0xff)
		}
		out = head(w.M, w.HW, uint64(len(w.B)+w.NOver))
		return append(out, w.B...)
	case 4:
		if w.Indef {
			out = []byte{0x9f}
		} else {
			out = head(4, w.HW, uint64(len(w.Items)+w.NOver))
		}
	case 5:
		if w.Indef {
			out = []byte{0xbf}
		} else {
			out = head(5, w.HW, uint64(len(w.Items)/2+w.NOver))
		}
	case 6:
		out = head(6, w.HW, w.N)
	}
	for _, it := range w.Items {
		out = append(out, it.enc()...)
	}
	if w.Indef && (w.M == 4 || w.M == 5) {
		out = append(out, 0xff)
	}
	return out
}

func wUint(n uint64) *W      { return &W{M: 0, HW: -1, N: n} }
func wNint(n uint64) *W      { return &W{M: 1, HW: -1, N: n} } // value -1-n
func wBstr(b []byte) *W      { return &W{M: 2, HW: -1, B: b} }
func wTstr(s string) *W      { return &W{M: 3, HW: -1, B: []byte(s)} }
func wArr(xs ...*W) *W       { return &W{M: 4, HW: -1, Items: xs} }
func wMap(kvs ...*W) *W      { return &W{M: 5, HW: -1, Items: kvs} }
func wTag(t uint64, x *W) *W { return &W{M: 6, HW: -1, N: t, Items: []*W{x}} }
func wNull() *W              { return &W{M: 7, HW: 0, N: 22} }
func wUndef() *W             { return &W{M: 7, HW: 0, N: 23} }
func wBool(b bool) *W {
	if b {
		return &W{M: 7, HW: 0, N: 21}
	}
	return &W{M: 7, HW: 0, N: 20}
}
func wInt(v int64) *W {
	if v >= 0 {
		return wUint(uint64(v))
	}
	return wNint(uint64(-1 - v))
}

// all nodes of a tree (pre-order), for picking mutation sites
func (w *W) nodes(acc *[]*W) {
	*acc = append(*acc, w)
	for _, it := range w.Items {
		it.nodes(acc)
	}
}

func (w *W) clone() *W {
	c := *w
	if w.B != nil {
		c.B = append([]byte(nil), w.B...)
	}
	if w.Raw != nil {
		c.Raw = append([]byte(nil), w.Raw...)
	}
	if w.Items != nil {
		c.Items = make([]*W, len(w.Items))
		for i, it := range w.Items {
			c.Items[i] = it.clone()
		}
	}
	return &c
}

// randomise encoder choices below w: widths ≥ shortest, map key order
func (w *W) randomize(r *rng, p int) {
	if !w.Fixed && r.chance(p, 100) {
		min := 0
		switch w.M {
		case 0, 1, 6:
			min = shortestHW(w.N)
		case 2, 3:
			min = shortestHW(uint64(len(w.B)))
		case 4:
			min = shortestHW(uint64(len(w.Items)))
		case 5:
			min = shortestHW(uint64(len(w.Items) / 2))
		case 7:
			min = -2 // leave simple values / floats alone
		}
		if min >= 0 {
			opts := []int{}
			for _, c := range []int{0, 1, 2, 4, 8} {
				if c >= min {
					opts = append(opts, c)
				}
			}
			w.HW = opts[r.intn(len(opts))]
		}
	}
	if w.M == 5 && len(w.Items) >= 4 && r.chance(50, 100) {
		n := len(w.Items) / 2
		perm := make([]int, n)
		for i := range perm {
			perm[i] = i
		}
		for i := n - 1; i > 0; i-- {
			j := r.intn(i + 1)
			perm[i], perm[j] = perm[j], perm[i]
		}
		items := make([]*W, 0, len(w.Items))
		for _, i := range perm {
			items = append(items, w.Items[2*i], w.Items[2*i+1])
		}
		w.Items = items
	}
	for _, it := range w.Items {
		it.randomize(r, p)
	}
}

// canonical (deterministic) form: shortest heads, keys sorted bytewise
func (w *W) canonicalize() {
	w.HW = -1
	for _, it := range w.Items {
		it.canonicalize()
	}
	if w.M == 5 {
		type kv struct{ k, v *W }
		n := len(w.Items) / 2
		kvs := make([]kv, n)
		for i := 0; i < n; i++ {
			kvs[i] = kv{w.Items[2*i], w.Items[2*i+1]}
		}
		sort.SliceStable(kvs, func(i, j int) bool {
			return string(kvs[i].k.enc()) < string(kvs[j].k.enc())
		})
		w.Items = w.Items[:0]
		for _, e := range kvs {
			w.Items = append(w.Items, e.k, e.v)
		}
	}
}

// one structural fault at a random node
func mutateTree(r *rng, root *W) {
	var ns []*W
	root.nodes(&ns)
	w := ns[r.intn(len(ns))]
	switch r.intn(16) {
	case 0:
		w.M = r.intn(8)
	case 1:
		*w = *wNull()
	case 2:
		*w = *wUndef()
	case 3:
		c := w.clone()
		*w = *wTag(uint64(r.pick([]int{0, 1, 2, 18, 24, 98, 55799, 1000})), c)
	case 4:
		w.Indef = true
	case 5:
		if len(w.Items) > 0 {
			i := r.intn(len(w.Items))
			w.Items = append(w.Items[:i:i], w.Items[i+1:]...)
		} else {
			w.NOver = 1
		}
	case 6:
		if len(w.Items) > 0 {
			i := r.intn(len(w.Items))
			w.Items = append(w.Items, w.Items[i].clone())
		} else {
			w.NOver = -1
		}
	case 7:
		w.NOver = r.pick([]int{-1, 1, 2})
	case 8:
		if w.M == 2 || w.M == 3 {
			w.B = append(w.B, byte(r.next()))
		} else {
			w.N ^= 1 << uint(r.intn(8))
		}
	case 9:
		if w.M == 5 && len(w.Items) >= 2 {
			// duplicate a key, possibly with another head width
			i := r.intn(len(w.Items) / 2)
			k := w.Items[2*i].clone()
			k.HW = r.pick([]int{1, 2, 4, 8})
			w.Items = append(w.Items, k, w.Items[2*i+1].clone())
		} else {
			w.HW = r.pick([]int{1, 2, 4, 8})
		}
	case 10:
		if w.M == 2 {
			w.M = 3
		} else if w.M == 3 {
			w.M = 2
		} else {
			*w = *wBstr(w.enc())
		}
	case 11:
		if len(w.Items) >= 2 {
			i, j := r.intn(len(w.Items)), r.intn(len(w.Items))
			w.Items[i], w.Items[j] = w.Items[j], w.Items[i]
		}
	case 12:
		*w = W{M: 7, HW: 1, N: uint64(r.intn(256))}
	case 13:
		*w = W{M: 7, HW: r.pick([]int{2, 4, 8}), N: r.next()}
	case 14:
		if w.M == 0 || w.M == 1 {
			w.N = uint64(1)<<63 - 1 + uint64(r.intn(3))
			w.HW = 8
		} else {
			w.Raw = append(w.enc(), byte(r.next()))
		}
	case 15:
		*w = *wArr()
	}
}

func mutateRaw(r *rng, b []byte) []byte {
	b = append([]byte(nil), b...)
	if len(b) == 0 {
		return []byte{byte(r.next())}
	}
	switch r.intn(5) {
	case 0:
		i := r.intn(len(b))
		b[i] ^= 1 << uint(r.intn(8))
	case 1:
		i := r.intn(len(b) + 1)
		b = append(b[:i:i], append([]byte{byte(r.next())}, b[i:]...)...)
	case 2:
		i := r.intn(len(b))
		b = append(b[:i:i], b[i+1:]...)
	case 3:
		b = b[:r.intn(len(b))]
	case 4:
		i := r.intn(len(b))
		b[i] = byte(r.next())
	}
	return b
}
