package main

// Structure-aware generators (DESIGN.md §4.2): abstract header values that render both to
// wire trees (decode side) and to Go-value notation (encode side).

import (
	"encoding/hex"
	"fmt"
	"strconv"
	"strings"
)

type hv struct {
	kind  string // int text bytes bytesnil bool nil arr map float simple csig csigs csignil csigsnil alg opaque
	i     int64
	u     uint64 // for kind "int" with spelling u64 and value ≥ 2^63 (unused by default)
	s     []byte
	items []*hv // arr: elements; map: k0,v0,…
	cs    *sigSpec
	css   []*sigSpec // csigs (nil entries = nil pointer)
	spell string     // Go integer kind for "int"
	b     bool
}

type hentry struct {
	label *hv
	val   *hv
}

type hdrSpec struct {
	prot, unprot []hentry
	emptyAsA0    bool // spell an empty protected header as h'a0'
}

type sigSpec struct {
	h   hdrSpec
	sig []byte
}

var spellings = []string{"i", "i8", "i16", "i32", "i64", "u", "u8", "u16", "u32", "u64"}

func fitsSpell(sp string, v int64) bool {
	switch sp {
	case "i", "i64":
		return true
	case "i8":
		return v >= -128 && v <= 127
	case "i16":
		return v >= -32768 && v <= 32767
	case "i32":
		return v >= -2147483648 && v <= 2147483647
	case "u", "u64":
		return v >= 0
	case "u8":
		return v >= 0 && v <= 255
	case "u16":
		return v >= 0 && v <= 65535
	case "u32":
		return v >= 0 && v <= 4294967295
	}
	return false
}

func randSpell(r *rng, v int64, exotic int) string {
	if !r.chance(exotic, 100) {
		return "i64"
	}
	for {
		sp := spellings[r.intn(len(spellings))]
		if fitsSpell(sp, v) {
			return sp
		}
	}
}

func hInt(v int64) *hv    { return &hv{kind: "int", i: v, spell: "i64"} }
func hText(s string) *hv  { return &hv{kind: "text", s: []byte(s)} }
func hBytes(b []byte) *hv { return &hv{kind: "bytes", s: b} }
func hAlg(v int64) *hv    { return &hv{kind: "alg", i: v} }
func hArr(xs ...*hv) *hv  { return &hv{kind: "arr", items: xs} }
func hNil() *hv           { return &hv{kind: "nil"} }
func hBool(b bool) *hv    { return &hv{kind: "bool", b: b} }

// ---- rendering to the wire

func (v *hv) wire() *W {
	switch v.kind {
	case "int", "alg":
		return wInt(v.i)
	case "text":
		return &W{M: 3, HW: -1, B: v.s}
	case "bytes":
		return wBstr(v.s)
	case "bytesnil", "nil", "csignil", "csigsnil":
		return wNull()
	case "bool":
		return wBool(v.b)
	case "float":
		return &W{M: 7, HW: 8, N: v.u}
	case "simple":
		if v.i < 24 {
			return &W{M: 7, HW: 0, N: uint64(v.i)}
		}
		return &W{M: 7, HW: 1, N: uint64(v.i)}
	case "arr":
		w := wArr()
		for _, it := range v.items {
			w.Items = append(w.Items, it.wire())
		}
		return w
	case "map":
		w := wMap()
		for _, it := range v.items {
			w.Items = append(w.Items, it.wire())
		}
		return w
	case "csig":
		return v.cs.wire()
	case "csigs":
		w := wArr()
		for _, c := range v.css {
			if c == nil {
				w.Items = append(w.Items, wNull())
			} else {
				w.Items = append(w.Items, c.wire())
			}
		}
		return w
	}
	return wUndef()
}

func entriesWire(es []hentry) *W {
	w := wMap()
	for _, e := range es {
		w.Items = append(w.Items, e.label.wire(), e.val.wire())
	}
	return w
}

func (h *hdrSpec) protWire() *W {
	if len(h.prot) == 0 {
		if h.emptyAsA0 {
			return wBstr([]byte{0xa0})
		}
		return wBstr([]byte{})
	}
	return wBstr(entriesWire(h.prot).enc())
}

func (s *sigSpec) wire() *W {
	w := wArr(s.h.protWire(), entriesWire(s.h.unprot), wBstr(s.sig))
	w.Fixed = true
	return w
}

// ---- rendering to Go-value notation

func goInt(sp string, v int64) string { return sp + ":" + strconv.FormatInt(v, 10) }

func (v *hv) gotext() string {
	switch v.kind {
	case "int":
		return goInt(v.spell, v.i)
	case "alg":
		return "a:" + strconv.FormatInt(v.i, 10)
	case "text":
		return "s:" + hex.EncodeToString(v.s)
	case "bytes":
		return "b:" + hex.EncodeToString(v.s)
	case "bytesnil":
		return "bn"
	case "nil":
		return "n"
	case "bool":
		if v.b {
			return "t"
		}
		return "f"
	case "float":
		return fmt.Sprintf("f64:%016x", v.u)
	case "simple":
		return "sv:" + strconv.FormatInt(v.i, 10)
	case "arr":
		parts := make([]string, len(v.items))
		for i, it := range v.items {
			parts[i] = it.gotext()
		}
		return "[" + strings.Join(parts, ",") + "]"
	case "map":
		parts := []string{}
		for i := 0; i+1 < len(v.items); i += 2 {
			parts = append(parts, v.items[i].gotext()+"="+v.items[i+1].gotext())
		}
		return "{" + strings.Join(parts, ",") + "}"
	case "csig":
		return v.cs.gotext()
	case "csignil":
		return "csn"
	case "csigsnil":
		return "csln"
	case "csigs":
		parts := make([]string, len(v.css))
		for i, c := range v.css {
			if c == nil {
				parts[i] = "csn"
			} else {
				parts[i] = c.gotext()
			}
		}
		return "csl[" + strings.Join(parts, ",") + "]"
	case "opaque":
		return "x"
	}
	return "n"
}

func entriesGo(es []hentry) string {
	parts := make([]string, len(es))
	for i, e := range es {
		parts[i] = e.label.gotext() + "=" + e.val.gotext()
	}
	return "{" + strings.Join(parts, ",") + "}"
}

// H(rawP;P;rawU;U) with no raw bytes
func (h *hdrSpec) gotext() string {
	return "H(-;" + entriesGo(h.prot) + ";-;" + entriesGo(h.unprot) + ")"
}

func (s *sigSpec) gotext() string {
	sig := "-"
	if s.sig != nil {
		sig = hex.EncodeToString(s.sig)
	}
	return "cs(" + s.h.gotext() + ";" + sig + ")"
}

// ---- random generation

type genCfg struct {
	exoticSpell int // % of labels / ints spelt with a Go type other than int64
	invalid     int // % of entries deliberately violating a §3.1 rule
	depth       int // remaining countersignature nesting
	maxEntries  int
	goSide      bool // values may use Go-only kinds (alg, bytesnil, opaque)
}

var mediaTypes = []string{"text/plain", "application/cbor", "a/b", "application/cose; cose-type=\"cose-sign1\""}
var badMediaTypes = []string{"", " a/b", "a/b ", "ab", "a/b/c", "/"}

func randBytes(r *rng) []byte {
	n := r.pick([]int{0, 1, 2, 3, 4, 8, 16, 23, 24, 25, 32})
	if r.chance(1, 40) {
		n = r.pick([]int{255, 256, 300})
	}
	return r.bytes(n)
}

func randText(r *rng, c *genCfg) []byte {
	if !c.goSide && c.invalid > 0 && r.chance(1, 12) {
		// invalid UTF-8
		return r.pick2([][]byte{{0xff}, {0xc0, 0x80}, {0xe0, 0x80, 0x80}, {0xed, 0xa0, 0x80}, {0xf4, 0x90, 0x80, 0x80}, {0x61, 0x80}})
	}
	if r.chance(1, 6) {
		return []byte(r.pick2s([]string{"é", "日本", "😀", "a\u0000b", ""}))
	}
	n := r.intn(12)
	b := make([]byte, n)
	for i := range b {
		b[i] = byte('a' + r.intn(26))
	}
	return b
}

func (r *rng) pick2(xs [][]byte) []byte  { return xs[r.intn(len(xs))] }
func (r *rng) pick2s(xs []string) string { return xs[r.intn(len(xs))] }

var intBoundaries = []int64{0, 1, 23, 24, 255, 256, 65535, 65536, 4294967295, 4294967296,
	9223372036854775807, -1, -24, -25, -256, -257, -65536, -65537, -4294967296, -4294967297, -9223372036854775808}

func randInt(r *rng) int64 {
	if r.chance(1, 3) {
		return intBoundaries[r.intn(len(intBoundaries))]
	}
	return int64(r.intn(600)) - 300
}

// a value of arbitrary kind (for unconstrained labels)
func randAny(r *rng, c *genCfg, depth int) *hv {
	k := r.intn(14)
	if depth <= 0 && (k == 6 || k == 7) {
		k = 0
	}
	switch k {
	case 0, 1:
		v := randInt(r)
		return &hv{kind: "int", i: v, spell: randSpell(r, v, c.exoticSpell)}
	case 2:
		return &hv{kind: "text", s: randText(r, c)}
	case 3, 4:
		return hBytes(randBytes(r))
	case 5:
		return hBool(r.chance(1, 2))
	case 6:
		n := r.intn(4)
		a := hArr()
		for i := 0; i < n; i++ {
			a.items = append(a.items, randAny(r, c, depth-1))
		}
		return a
	case 7:
		n := r.intn(4)
		m := &hv{kind: "map"}
		used := map[string]bool{}
		for i := 0; i < n; i++ {
			var key *hv
			if r.chance(2, 3) {
				key = hInt(randInt(r))
			} else {
				key = &hv{kind: "text", s: randText(r, c)}
			}
			ks := key.gotext()
			if used[ks] && (c.goSide || !r.chance(c.invalid, 100)) {
				continue
			}
			used[ks] = true
			m.items = append(m.items, key, randAny(r, c, depth-1))
		}
		return m
	case 8:
		return hNil()
	case 9:
		return &hv{kind: "float", u: r.next()}
	case 10:
		return &hv{kind: "simple", i: int64(r.pick([]int{0, 16, 19, 32, 100, 255}))}
	case 11:
		if c.goSide && c.invalid > 0 && r.chance(1, 3) {
			return &hv{kind: "bytesnil"}
		}
		return hBytes(randBytes(r))
	case 12:
		if c.goSide && c.invalid > 0 && r.chance(1, 4) {
			return &hv{kind: "opaque"}
		}
		return hInt(randInt(r))
	}
	return &hv{kind: "text", s: []byte(r.pick2s(mediaTypes))}
}

func randSigSpec(r *rng, c *genCfg, depth int) *sigSpec {
	sub := *c
	sub.depth = depth
	if sub.maxEntries > 4 {
		sub.maxEntries = 4
	}
	s := &sigSpec{h: randHeaders(r, &sub), sig: r.bytes(1 + r.intn(6))}
	if r.chance(c.invalid, 300) {
		s.sig = []byte{}
	}
	return s
}

// value for a registered label; mostly of the kind §3.1 demands
func valueFor(r *rng, c *genCfg, label int64, prot bool, present []*hv) *hv {
	bad := r.chance(c.invalid, 100)
	if bad && r.chance(1, 2) {
		return randAny(r, c, 2)
	}
	switch label {
	case 1:
		if r.chance(1, 8) {
			return &hv{kind: "text", s: []byte("ES256")}
		}
		v := int64(r.pick([]int{-7, -7, -7, -35, -36, -37, -8, -257, 0, 5, -65537}))
		if c.goSide && r.chance(1, 2) {
			return hAlg(v)
		}
		return &hv{kind: "int", i: v, spell: randSpell(r, v, c.exoticSpell)}
	case 2:
		a := hArr()
		n := 1 + r.intn(2)
		for i := 0; i < n && len(present) > 0; i++ {
			p := present[r.intn(len(present))]
			cp := *p
			if cp.kind == "int" {
				cp.spell = randSpell(r, cp.i, c.exoticSpell)
			}
			a.items = append(a.items, &cp)
		}
		if bad {
			switch r.intn(3) {
			case 0:
				a.items = nil
			case 1:
				a.items = append(a.items, hInt(int64(1000+r.intn(50))))
			case 2:
				a.items = append(a.items, hBytes([]byte{1}))
			}
		}
		return a
	case 3, 16:
		if r.chance(1, 2) {
			v := int64(r.pick([]int{0, 1, 50, 65535, 100000}))
			if bad {
				v = -v - 1
			}
			return &hv{kind: "int", i: v, spell: randSpell(r, v, c.exoticSpell)}
		}
		if bad {
			return &hv{kind: "text", s: []byte(r.pick2s(badMediaTypes))}
		}
		return &hv{kind: "text", s: []byte(r.pick2s(mediaTypes))}
	case 4, 5, 6, 9, 12:
		if c.goSide && c.invalid > 0 && r.chance(1, 25) {
			return &hv{kind: "bytesnil"}
		}
		return hBytes(randBytes(r))
	case 7, 11:
		if c.depth <= 0 {
			return hBytes([]byte{1})
		}
		if r.chance(1, 3) {
			n := 1 + r.intn(3)
			if bad {
				n = 0
			}
			v := &hv{kind: "csigs"}
			for i := 0; i < n; i++ {
				if r.chance(c.invalid, 400) {
					v.css = append(v.css, nil)
				} else {
					v.css = append(v.css, randSigSpec(r, c, c.depth-1))
				}
			}
			if v.css == nil {
				v.css = []*sigSpec{}
			}
			return v
		}
		if bad && r.chance(1, 2) {
			if r.chance(1, 2) {
				return &hv{kind: "csignil"}
			}
			return &hv{kind: "csigsnil"}
		}
		return &hv{kind: "csig", cs: randSigSpec(r, c, c.depth-1)}
	}
	return randAny(r, c, 2)
}

var protLabels = []int64{1, 2, 3, 4, 5, 6, 15, 16, 32, 33, 34, 35, 258, 259, 260}
var unprotLabels = []int64{3, 4, 5, 6, 7, 9, 11, 12, 16, 32, 33, 34, 35}

func randLabelSet(r *rng, c *genCfg, prot bool, n int) []hentry {
	es := []hentry{}
	used := map[string]bool{}
	var present []*hv
	pool := unprotLabels
	if prot {
		pool = protLabels
	}
	for i := 0; i < n; i++ {
		var lab *hv
		switch {
		case r.chance(70, 100):
			l := pool[r.intn(len(pool))]
			if r.chance(c.invalid, 200) {
				// a label from the other bucket's list
				if prot {
					l = unprotLabels[r.intn(len(unprotLabels))]
				} else {
					l = protLabels[r.intn(len(protLabels))]
				}
			}
			lab = hInt(l)
		case r.chance(1, 2):
			lab = hInt(randInt(r))
		default:
			lab = &hv{kind: "text", s: randText(r, c)}
		}
		if lab.kind == "int" && c.invalid == 0 {
			// clean mode: registered labels only from the bucket's own list, and no
			// countersignature parameter once the nesting budget is used up
			inPool := false
			for _, l := range pool {
				inPool = inPool || l == lab.i
			}
			registered := lab.i >= 1 && lab.i <= 16 || lab.i >= 32 && lab.i <= 35 || lab.i >= 258 && lab.i <= 260
			if registered && !inPool || (lab.i == 7 || lab.i == 11) && c.depth <= 0 {
				continue
			}
		}
		if lab.kind == "int" {
			lab.spell = randSpell(r, lab.i, c.exoticSpell)
		}
		key := lab.kind + strconv.FormatInt(lab.i, 10) + string(lab.s)
		if used[key] && !r.chance(c.invalid, 100) {
			continue
		}
		if used[key] && c.goSide {
			// a Go map cannot hold the same key twice: duplicates need another spelling
			if lab.kind != "int" || lab.i == 1 || lab.i == 258 {
				continue
			}
			ok := false
			for try := 0; try < 20 && !ok; try++ {
				lab.spell = spellings[r.intn(len(spellings))]
				ok = fitsSpell(lab.spell, lab.i) && !used[key+"/"+lab.spell]
			}
			if !ok {
				continue
			}
		}
		if lab.kind == "int" {
			used[key+"/"+lab.spell] = true
		}
		if lab.kind == "int" && lab.i == 2 {
			continue // crit added last
		}
		if lab.kind == "int" && (lab.i == 5 && used["int6"] || lab.i == 6 && used["int5"]) && !r.chance(c.invalid, 100) {
			continue
		}
		used[key] = true
		present = append(present, lab)
		var val *hv
		if lab.kind == "int" {
			val = valueFor(r, c, lab.i, prot, nil)
		} else {
			val = randAny(r, c, 2)
		}
		es = append(es, hentry{lab, val})
	}
	if (prot && len(present) > 0 && r.chance(15, 100)) || r.chance(c.invalid, 400) {
		lab := hInt(2)
		lab.spell = randSpell(r, 2, c.exoticSpell)
		es = append(es, hentry{lab, valueFor(r, c, 2, prot, present)})
	}
	if r.chance(c.invalid, 300) {
		// label of a non-label type
		if c.goSide {
			es = append(es, hentry{r.pickHV([]*hv{hBool(true), hNil(), {kind: "opaque"}, {kind: "float", u: 0x3ff0000000000000}}), hInt(1)})
		} else {
			es = append(es, hentry{r.pickHV([]*hv{hBytes([]byte{1}), hBool(true), hNil(), hArr(), {kind: "float", u: 0x3ff0000000000000}}), hInt(1)})
		}
	}
	return es
}

func (r *rng) pickHV(xs []*hv) *hv { return xs[r.intn(len(xs))] }

func randHeaders(r *rng, c *genCfg) hdrSpec {
	var h hdrSpec
	np := r.pick([]int{0, 0, 1, 1, 2, 3, 4})
	nu := r.pick([]int{0, 0, 1, 1, 2, 3})
	if c.maxEntries > 8 && r.chance(1, 20) {
		np = 5 + r.intn(c.maxEntries-4)
	}
	if c.maxEntries > 8 && r.chance(1, 20) {
		nu = 5 + r.intn(c.maxEntries-4)
	}
	h.prot = randLabelSet(r, c, true, np)
	h.unprot = randLabelSet(r, c, false, nu)
	// cross-bucket IV / Partial IV
	if !r.chance(c.invalid, 100) {
		has := func(es []hentry, l int64) bool {
			for _, e := range es {
				if e.label.kind == "int" && e.label.i == l {
					return true
				}
			}
			return false
		}
		drop := func(es []hentry, l int64) []hentry {
			out := es[:0:0]
			for _, e := range es {
				if !(e.label.kind == "int" && e.label.i == l) {
					out = append(out, e)
				}
			}
			return out
		}
		if has(h.prot, 5) && has(h.unprot, 6) {
			h.unprot = drop(h.unprot, 6)
		}
		if has(h.prot, 6) && has(h.unprot, 5) {
			h.unprot = drop(h.unprot, 5)
		}
	}
	h.emptyAsA0 = r.chance(1, 3)
	return h
}

var payloadLens = []int{0, 1, 5, 23, 24, 255, 256}

func randPayload(r *rng, big bool) []byte {
	if big && r.chance(1, 50) {
		return r.bytes(r.pick([]int{65535, 65536}))
	}
	if r.chance(1, 2) {
		return r.bytes(r.intn(20))
	}
	return r.bytes(payloadLens[r.intn(len(payloadLens))])
}

func randExt(r *rng) string {
	switch r.intn(4) {
	case 0:
		return "-"
	case 1:
		return "_"
	}
	return hex.EncodeToString(r.bytes(1 + r.intn(5)))
}

// reference Sig_structure encoders (independent of go-cose): RFC 9052 §4.4
func refTBS1(protContent, ext, payload []byte) []byte {
	return wArr(wTstr("Signature1"), wBstr(protContent), wBstr(ext), wBstr(payload)).enc()
}
func refTBSSig(bodyProt, signProt, ext, payload []byte) []byte {
	return wArr(wTstr("Signature"), wBstr(bodyProt), wBstr(signProt), wBstr(ext), wBstr(payload)).enc()
}

func protContentOf(h *hdrSpec) []byte {
	w := h.protWire()
	return w.B
}

func hasAlgEntry(h *hdrSpec) bool {
	for _, e := range h.prot {
		if e.label.kind == "int" && e.label.i == 1 {
			return true
		}
	}
	return false
}

func algOf(h *hdrSpec) (int64, bool) {
	for _, e := range h.prot {
		if e.label.kind == "int" && e.label.i == 1 && (e.val.kind == "int" || e.val.kind == "alg") {
			return e.val.i, true
		}
	}
	return 0, false
}

func tsig(kid byte, tbs []byte) []byte {
	return append([]byte{1, kid}, tbs...)
}

// op-level byte field: "_" for the empty string (fields are space separated)
func hexs(b []byte) string {
	if len(b) == 0 {
		return "_"
	}
	return hex.EncodeToString(b)
}
