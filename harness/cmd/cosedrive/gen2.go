package main

import (
	"bufio"
	"fmt"
	"strings"
)

type msgSpec struct {
	kind    string // s1 s1u sm sig csig
	h       hdrSpec
	payload []byte // nil = detached
	sig     []byte
	sigs    []*sigSpec
	ext     string
	kid     byte
	alg     int64
	clean   bool // generated with no deliberate rule violation
}

// wire rendering with encoder choices; returns root tree
func (m *msgSpec) wire(r *rng, randomP int) *W {
	inner := entriesWire(m.h.prot)
	if randomP > 0 {
		inner.randomize(r, randomP)
	}
	var prot *W
	if len(m.h.prot) == 0 {
		prot = m.h.protWire()
	} else {
		prot = wBstr(inner.enc())
	}
	unprot := entriesWire(m.h.unprot)
	var payload *W
	if m.payload == nil {
		payload = wNull()
	} else {
		payload = wBstr(m.payload)
	}
	var root *W
	switch m.kind {
	case "s1", "s1u":
		root = wArr(prot, unprot, payload, wBstr(m.sig))
	case "sm":
		sigs := wArr()
		for _, s := range m.sigs {
			sigs.Items = append(sigs.Items, s.wire())
		}
		root = wArr(prot, unprot, payload, sigs)
	case "sig", "csig":
		root = wArr(prot, unprot, wBstr(m.sig))
	}
	if randomP > 0 {
		unprot.randomize(r, randomP)
		payload.randomize(r, randomP)
		for _, it := range root.Items[2:] {
			it.randomize(r, randomP)
		}
		if r.chance(randomP, 100) {
			prot.HW = r.pick([]int{0, 1, 2, 4, 8})
		}
	}
	return root
}

func tagged(kind string, root *W) *W {
	switch kind {
	case "s1":
		return wTag(18, root)
	case "sm":
		return wTag(98, root)
	}
	return root
}

// a message signed (transparent scheme) by the harness's own reference implementation
func genSignedMsg(r *rng, c *genCfg, kind string) (*msgSpec, *W) {
	clean := r.chance(1, 2)
	if clean {
		cc := *c
		cc.invalid = 0
		c = &cc
	}
	m := &msgSpec{kind: kind, h: randHeaders(r, c), ext: randExt(r), kid: byte(1 + r.intn(3)), clean: clean}
	m.payload = randPayload(r, false)
	alg, ok := algOf(&m.h)
	if !ok {
		alg = -7
	}
	m.alg = alg
	if kind == "sm" {
		n := 1 + r.intn(3)
		for i := 0; i < n; i++ {
			sub := *c
			sub.depth = 0
			sub.maxEntries = 3
			m.sigs = append(m.sigs, &sigSpec{h: randHeaders(r, &sub)})
		}
	}
	root := m.wire(r, 40)
	ext := unhex(m.ext)
	if ext == nil {
		ext = []byte{}
	}
	bodyProt := root.Items[0].B
	switch kind {
	case "s1", "s1u":
		root.Items[3].B = tsig(m.kid, refTBS1(bodyProt, ext, m.payload))
	case "sm":
		for i, s := range root.Items[3].Items {
			root.Items[3].Items[i].Items[2].B = tsig(m.kid, refTBSSig(bodyProt, s.Items[0].B, ext, m.payload))
		}
	case "sig", "csig":
		root.Items[2].B = tsig(m.kid, refTBSSig([]byte{}, root.Items[0].B, ext, m.payload))
	}
	return m, root
}

var decKinds = []string{"s1", "s1", "s1u", "sm", "sig", "csig"}

func streamBytes(r *rng, c *genCfg, kind string) (b []byte, m *msgSpec, stream string) {
	m, root := genSignedMsg(r, c, kind)
	top := tagged(kind, root)
	switch x := r.intn(100); {
	case x < 50:
		return top.enc(), m, "valid"
	case x < 85:
		mutateTree(r, top)
		if r.chance(1, 4) {
			mutateTree(r, top)
		}
		return top.enc(), m, "struct"
	default:
		b := mutateRaw(r, top.enc())
		if r.chance(1, 3) {
			b = mutateRaw(r, b)
		}
		return b, m, "raw"
	}
}

func verifierFor(m *msgSpec, r *rng) string {
	alg := m.alg
	if r.chance(1, 12) {
		alg = -35
	}
	kid := m.kid
	if r.chance(1, 12) {
		kid++
	}
	return fmt.Sprintf("T:%d:%d", alg, kid)
}

func generate(family string, n int, seed uint64, out *bufio.Writer) {
	r := &rng{s: seed*0x9e3779b97f4a7c15 + uint64(len(family))*7919 + uint64(family[0])}
	wcfg := &genCfg{exoticSpell: 0, invalid: 6, depth: 2, maxEntries: 30}
	gcfg := &genCfg{exoticSpell: 35, invalid: 6, depth: 2, maxEntries: 30, goSide: true}
	p := func(format string, a ...any) { fmt.Fprintf(out, format+"\n", a...) }
	switch family {
	case "dec":
		for i := 0; i < n; i++ {
			kind := decKinds[r.intn(len(decKinds))]
			b, _, _ := streamBytes(r, wcfg, kind)
			dk := kind
			if r.chance(1, 15) {
				dk = decKinds[r.intn(len(decKinds))] // offer to another decoder
			}
			p("dec %s %s", dk, hexs(b))
		}
	case "dechdr":
		for i := 0; i < n; i++ {
			h := randHeaders(r, wcfg)
			if r.chance(1, 2) {
				w := h.protWire()
				if len(h.prot) > 0 {
					inner := entriesWire(h.prot)
					inner.randomize(r, 30)
					w = wBstr(inner.enc())
				}
				if r.chance(1, 4) {
					mutateTree(r, w)
				}
				p("dec ph %s", hexs(w.enc()))
			} else {
				w := entriesWire(h.unprot)
				w.randomize(r, 30)
				if r.chance(1, 4) {
					mutateTree(r, w)
				}
				p("dec uh %s", hexs(w.enc()))
			}
		}
	case "v1":
		for i := 0; i < n; i++ {
			kind := []string{"s1", "s1u"}[r.intn(2)]
			b, m, stream := streamBytes(r, wcfg, kind)
			tag := "t"
			if kind == "s1u" {
				tag = "u"
			}
			ext := m.ext
			if r.chance(1, 15) {
				ext = randExt(r)
			}
			v := fmt.Sprintf("T:%d:%d", m.alg, m.kid)
			sfx := ""
			if stream == "valid" && ext == m.ext && m.clean {
				if _, ok := algOf(&m.h); ok || (len(unhex(ext)) > 0 && !hasAlgEntry(&m.h)) {
					sfx = " !wf"
				}
			} else {
				v = verifierFor(m, r)
			}
			p("v1 %s %s %s %s -%s", tag, hexs(b), ext, v, sfx)
		}
	case "vm":
		for i := 0; i < n; i++ {
			b, m, stream := streamBytes(r, wcfg, "sm")
			vs := []string{}
			for range m.sigs {
				vs = append(vs, fmt.Sprintf("T:%d:%d", m.alg, m.kid))
			}
			if stream != "valid" && r.chance(1, 4) && len(vs) > 0 {
				vs = vs[1:]
			}
			p("vm %s %s [%s] -", hexs(b), m.ext, strings.Join(vs, ","))
		}
	case "reenc":
		for i := 0; i < n; i++ {
			kind := decKinds[r.intn(len(decKinds))]
			m, root := genSignedMsg(r, wcfg, kind)
			_ = m
			top := tagged(kind, root)
			if r.chance(1, 4) {
				top.canonicalize()
			}
			if r.chance(1, 10) {
				mutateTree(r, top)
			}
			mode := "keep"
			if r.chance(1, 2) {
				mode = "clear"
				if r.chance(1, 3) {
					mode = "trunc"
				}
			}
			p("reenc %s %s %s %d", kind, hexs(top.enc()), mode, 1+r.intn(3))
		}
	case "hist":
		// Headers.UnmarshalFromRaw, both buckets in one call: a good pair, then a pair whose second
		// bucket is refused / whose buckets are fine one by one but hold IV and Partial IV together
		for _, mode := range []string{"", " dirty"} {
			p("hist hdrs 43a10126~a1044131,43a10127~a1046131%s", mode)
			p("hist hdrs 43a10126~a1044131,44a1054101~a1064102%s", mode)
			p("hist hdrs 43a10126~a1044131,43a10127~a104413200%s", mode)
			p("hist hdrs 43a10126~a1044131,43a1012700~a1044132%s", mode)
			p("hist hdrs 43a10126~a1044131,40~a0,43a10138~a0,~,43a10126~%s", mode)
			// a self-described tag in front of a bucket (the CBOR library would look through it)
			p("hist hdrs 43a10126~a1044131,d9d9f743a10127~a0%s", mode)
			p("hist hdrs 43a10126~a1044131,43a10127~d9d9f7a0%s", mode)
			p("hist hdrs d9d9f743a10126~a0,43a10126~a0%s", mode)
			p("hist hdrs c243a10126~a0,43a10126~d864a0%s", mode)
		}
		for i := 0; i < n; i++ {
			kind := []string{"s1", "s1u", "sm", "sig", "csig", "ph", "uh", "hdrs"}[r.intn(8)]
			steps := []string{}
			k := 1 + r.intn(6)
			for j := 0; j < k; j++ {
				if j > 0 && r.chance(1, 4) {
					// the same bytes again (same retained header bytes as an earlier step)
					steps = append(steps, steps[r.intn(len(steps))])
					continue
				}
				switch kind {
				case "hdrs":
					h := randHeaders(r, wcfg)
					pw, uw := h.protWire(), entriesWire(h.unprot)
					if r.chance(1, 4) {
						mutateTree(r, pw)
					}
					if r.chance(1, 3) {
						mutateTree(r, uw)
					}
					steps = append(steps, hexs(pw.enc())+"~"+hexs(uw.enc()))
				case "ph":
					h := randHeaders(r, wcfg)
					w := h.protWire()
					if r.chance(1, 3) {
						mutateTree(r, w)
					}
					steps = append(steps, hexs(w.enc()))
				case "uh":
					h := randHeaders(r, wcfg)
					w := entriesWire(h.unprot)
					if r.chance(1, 3) {
						mutateTree(r, w)
					}
					steps = append(steps, hexs(w.enc()))
				default:
					if (kind == "s1" || kind == "s1u" || kind == "sm") && r.chance(1, 5) {
						// a valid message with a detached payload (nil): the destination's old payload must go
						_, root := genSignedMsg(r, wcfg, kind)
						root.Items[2] = wNull()
						steps = append(steps, hexs(tagged(kind, root).enc()))
						continue
					}
					b, _, _ := streamBytes(r, wcfg, kind)
					steps = append(steps, hexs(b))
				}
			}
			if r.chance(1, 2) {
				p("hist %s %s dirty", kind, strings.Join(steps, ","))
			} else {
				p("hist %s %s", kind, strings.Join(steps, ","))
			}
		}
	case "use":
		for i := 0; i < n; i++ {
			kind := decKinds[r.intn(len(decKinds))]
			b, _, _ := streamBytes(r, wcfg, kind)
			p("use %s %s", kind, hexs(b))
		}
	case "enc":
		for i := 0; i < n; i++ {
			genEncOp(r, gcfg, p)
		}
	case "hacc":
		// the Critical accessor under every Go integer spelling of label 2 (and of the labels it lists)
		for _, sp := range []string{"i64", "i", "i8", "i16", "i32", "u", "u8", "u16", "u32", "u64"} {
			p("hacc {i64:1=a:-8,%s:2=[i64:4],i64:4=b:6b} s:612f62 {}", sp)
			p("hacc {%s:1=a:-8,%s:2=[%s:4],%s:4=b:6b} s:612f62 {}", sp, sp, sp, sp)
			p("hacc {i64:1=a:-8,%s:2=[i64:99],i64:4=b:6b} s:612f62 {}", sp)
			p("hacc {i64:1=a:-8,%s:2=[]} s:612f62 {}", sp)
		}
		p("hacc {i64:1=a:-8,i64:4=b:6b} s:612f62 {}")
		for i := 0; i < n; i++ {
			h := randHeaders(r, gcfg)
			typ := randAny(r, gcfg, 1)
			if r.chance(1, 2) {
				typ = r.pickHV([]*hv{hText("a/b"), hInt(5), {kind: "int", i: 7, spell: "u8"}, hInt(-1), hText("")})
			}
			claims := &hv{kind: "map"}
			for _, k := range []int64{1, 2, 3} {
				if r.chance(1, 2) {
					var v *hv
					if r.chance(2, 3) {
						v = hText("x")
					} else {
						v = randAny(r, gcfg, 1)
					}
					claims.items = append(claims.items, &hv{kind: "int", i: k, spell: r.pick2s([]string{"i", "i", "i64"})}, v)
				}
			}
			p("hacc %s %s %s", entriesGo(h.prot), typ.gotext(), claims.gotext())
		}
	case "s1":
		for i := 0; i < n; i++ {
			genS1Op(r, gcfg, p)
		}
	case "sm":
		for i := 0; i < n; i++ {
			genSMOp(r, gcfg, p)
		}
	case "cs":
		// a COSE_Sign parent whose signer slots are not all signed is an unsigned parent (C10):
		// no slot, a nil slot, an empty slot, alone and next to a signed one, first and last
		for _, form := range []string{"full", "abbr"} {
			for _, ptr := range []string{"p", "v"} {
				for _, sigs := range []string{
					"[]", "[csn]", "[cs(H(-;{};-;{});-)]", "[cs(H(-;{};-;{});_)]",
					"[cs(H(-;{};-;{});01),cs(H(-;{};-;{});-)]", "[cs(H(-;{};-;{});-),cs(H(-;{};-;{});01)]",
					"[cs(H(-;{};-;{});01),csn]", "[csn,cs(H(-;{};-;{});01)]",
					"[cs(H(-;{};-;{});01),cs(H(-;{};-;{});02),cs(H(-;{};-;{});_)]",
					"[cs(H(-;{};-;{});01)]", "[cs(H(-;{};-;{});01),cs(H(-;{};-;{});02)]",
				} {
					p("cs %s sm %s val:SM(H(-;{i64:1=a:-7};-;{});00;%s) H(-;{};-;{}) - T:-7:1 T:-7:1", form, ptr, sigs)
				}
			}
		}
		for i := 0; i < n; i++ {
			genCSOp(r, gcfg, wcfg, p)
		}
	case "he":
		genHEFixed(p)
		for i := 0; i < n; i++ {
			genHEOp(r, gcfg, wcfg, p)
		}
	default:
		if !generateGrid(family, n, r, p) {
			fmt.Fprintf(out, "# unknown family %s\n", family)
		}
	}
}

func optHex(b []byte) string {
	if b == nil {
		return "-"
	}
	if len(b) == 0 {
		return "_"
	}
	return hexs(b)
}

func hdrsGo(r *rng, c *genCfg) (hdrSpec, string) {
	h := randHeaders(r, c)
	return h, h.gotext()
}

func genEncOp(r *rng, c *genCfg, p func(string, ...any)) {
	kind := []string{"s1", "s1u", "sm", "sig", "csig", "ph", "uh", "ph", "uh"}[r.intn(9)]
	h := randHeaders(r, c)
	sig := optHex(r.bytes(1 + r.intn(4)))
	if r.chance(1, 20) {
		sig = []string{"-", ""}[r.intn(2)]
	}
	payload := optHex(randPayload(r, false))
	if r.chance(1, 8) {
		payload = "-"
	}
	switch kind {
	case "s1", "s1u":
		p("enc %s S1(%s;%s;%s)", kind, h.gotext(), payload, sig)
	case "sm":
		n := r.pick([]int{1, 1, 2, 3, 0})
		parts := []string{}
		for i := 0; i < n; i++ {
			parts = append(parts, randSigSpec(r, c, 1).gotext())
		}
		sigs := "[" + strings.Join(parts, ",") + "]"
		if r.chance(1, 30) {
			sigs = "-"
		}
		p("enc sm SM(%s;%s;%s)", h.gotext(), payload, sigs)
	case "sig", "csig":
		p("enc %s cs(%s;%s)", kind, h.gotext(), sig)
	case "ph":
		p("enc ph %s", entriesGo(h.prot))
	case "uh":
		p("enc uh %s", entriesGo(h.unprot))
	}
}

func signerSpec(r *rng, alg int64) (string, string) {
	kid := 1 + r.intn(3)
	s := fmt.Sprintf("T:%d:%d", alg, kid)
	v := fmt.Sprintf("T:%d:%d", alg, kid)
	switch r.intn(14) {
	case 0:
		s = fmt.Sprintf("F:%d:err", alg)
	case 1:
		s = fmt.Sprintf("F:%d:empty", alg)
	case 2:
		v = fmt.Sprintf("F:%d:err", alg)
	case 3:
		v = fmt.Sprintf("T:%d:%d", alg, kid+1)
	case 4:
		v = fmt.Sprintf("T:%d:%d", -36, kid)
	case 5:
		s = fmt.Sprintf("T:%d:%d", -35, kid)
	case 6, 7:
		// re-entrant spies: same results as the transparent ones
		s = fmt.Sprintf("R:%d:%d", alg, kid)
		v = fmt.Sprintf("R:%d:%d", alg, kid)
	}
	return s, v
}

func signAlg(r *rng, h *hdrSpec) int64 {
	if a, ok := algOf(h); ok && !r.chance(1, 10) {
		return a
	}
	return int64(r.pick([]int{-7, -7, -35, -8, -37, -65537, 0}))
}

func genS1Op(r *rng, c *genCfg, p func(string, ...any)) {
	cc := *c
	cc.invalid = 3
	h := randHeaders(r, &cc)
	payload := optHex(randPayload(r, true))
	if r.chance(1, 25) {
		payload = "-"
	}
	sig := "-"
	if r.chance(1, 25) {
		sig = "01"
	}
	s, v := signerSpec(r, signAlg(r, &h))
	tag := []string{"t", "u"}[r.intn(2)]
	det := []string{"a", "a", "d"}[r.intn(3)]
	if r.chance(1, 6) {
		p("s1h %s %s %s %s %s", tag, h.gotext(), payload, randExt(r), s)
		return
	}
	p("s1 %s S1(%s;%s;%s) %s %s %s %s", tag, h.gotext(), payload, sig, randExt(r), s, v, det)
}

func genSMOp(r *rng, c *genCfg, p func(string, ...any)) {
	cc := *c
	cc.invalid = 3
	h := randHeaders(r, &cc)
	payload := optHex(randPayload(r, false))
	if r.chance(1, 25) {
		payload = "-"
	}
	n := r.pick([]int{1, 1, 2, 2, 3, 4, 0})
	sigs, ss, vs := []string{}, []string{}, []string{}
	for i := 0; i < n; i++ {
		sub := cc
		sub.depth = 1
		sub.maxEntries = 3
		sh := randHeaders(r, &sub)
		sg := "-"
		if r.chance(1, 30) {
			sg = "01"
		}
		sigs = append(sigs, "cs("+sh.gotext()+";"+sg+")")
		s, v := signerSpec(r, signAlg(r, &sh))
		ss = append(ss, s)
		vs = append(vs, v)
	}
	if n > 0 && r.chance(1, 15) {
		ss = ss[1:]
	}
	if n > 0 && r.chance(1, 15) {
		vs = append(vs, vs[0])
	}
	if n > 1 && r.chance(1, 10) {
		vs[0], vs[1] = vs[1], vs[0]
	}
	det := []string{"a", "a", "d"}[r.intn(3)]
	p("sm SM(%s;%s;[%s]) %s [%s] [%s] %s", h.gotext(), payload, strings.Join(sigs, ","), randExt(r),
		strings.Join(ss, ","), strings.Join(vs, ","), det)
}

func genCSOp(r *rng, c, wc *genCfg, p func(string, ...any)) {
	cc := *c
	cc.invalid = 3
	form := []string{"full", "abbr"}[r.intn(2)]
	kind := []string{"s1", "sm", "sig", "csig", "s1", "sm", "bad"}[r.intn(7)]
	ptr := []string{"p", "v"}[r.intn(2)]
	var src string
	if kind == "bad" {
		src = "val:-"
		ptr = []string{"p", "v", "u", "up", "hp", "b"}[r.intn(6)]
	} else if r.chance(1, 2) {
		// decoded parent: any accepted wire encoding (non-canonical protected bytes included)
		dk := kind
		if kind == "csig" {
			dk = "csig"
		}
		m, root := genSignedMsg(r, wc, map[string]string{"s1": "s1", "sm": "sm", "sig": "sig", "csig": "csig"}[dk])
		_ = m
		top := tagged(kind, root)
		if r.chance(1, 12) {
			mutateTree(r, top)
		}
		src = "hex:" + hexs(top.enc())
	} else {
		h := randHeaders(r, &cc)
		payload := optHex(randPayload(r, false))
		if r.chance(1, 15) {
			payload = "-"
		}
		sig := optHex(r.bytes(1 + r.intn(5)))
		if r.chance(1, 15) {
			sig = []string{"-", ""}[r.intn(2)]
		}
		switch kind {
		case "s1":
			src = fmt.Sprintf("val:S1(%s;%s;%s)", h.gotext(), payload, sig)
		case "sm":
			n := r.pick([]int{1, 2, 0})
			parts := []string{}
			for i := 0; i < n; i++ {
				parts = append(parts, randSigSpec(r, &cc, 0).gotext())
			}
			src = fmt.Sprintf("val:SM(%s;%s;[%s])", h.gotext(), payload, strings.Join(parts, ","))
		case "sig", "csig":
			src = fmt.Sprintf("val:cs(%s;%s)", h.gotext(), sig)
		}
	}
	sub := cc
	sub.depth = 0
	sub.maxEntries = 3
	ch := randHeaders(r, &sub)
	s, v := signerSpec(r, signAlg(r, &ch))
	p("cs %s %s %s %s %s %s %s %s", form, kind, ptr, src, ch.gotext(), randExt(r), s, v)
}

func genHEOp(r *rng, c, wc *genCfg, p func(string, ...any)) {
	cc := *c
	cc.invalid = 3
	if r.chance(1, 3) {
		// verify side: envelopes built by the harness, governed labels moved around
		m := &msgSpec{kind: "s1", ext: "-", kid: 1, alg: -7}
		sub := *wc
		sub.invalid = 2
		sub.depth = 1
		m.h = randHeaders(r, &sub)
		// force alg -7 in protected
		filtered := m.h.prot[:0:0]
		for _, e := range m.h.prot {
			if !(e.label.kind == "int" && (e.label.i == 1 || e.label.i == 2 || e.label.i == 3)) {
				filtered = append(filtered, e)
			}
		}
		m.h.prot = append(filtered, hentry{hInt(1), hInt(-7)})
		hashAlg := int64(r.pick([]int{-16, -16, -43, -44, -1, 7}))
		hlen := map[int64]int{-16: 32, -43: 48, -44: 64}[hashAlg]
		if hlen == 0 || r.chance(1, 8) {
			hlen = r.pick([]int{0, 1, 31, 32, 33, 48, 64})
		}
		m.payload = r.bytes(hlen)
		governed := []hentry{
			{hInt(258), hInt(hashAlg)},
			{hInt(259), r.pickHV([]*hv{hInt(50), hText("a/b"), hBytes([]byte{1})})},
			{hInt(260), r.pickHV([]*hv{hText("https://x/y"), hInt(1)})},
			{hInt(3), hInt(42)},
		}
		for i, g := range governed {
			switch x := r.intn(20); {
			case i == 0 && x < 15, i == 1 && x < 8, i == 2 && x < 8:
				m.h.prot = append(m.h.prot, g)
			case x == 15 || (i == 3 && x == 14):
				m.h.unprot = append(m.h.unprot, g)
			case x == 16 && i == 0:
				m.h.prot = append(m.h.prot, hentry{hInt(258), hText("sha")})
			case x == 17 && i == 3:
				m.h.prot = append(m.h.prot, g)
			}
		}
		root := m.wire(r, 20)
		root.Items[3].B = tsig(1, refTBS1(root.Items[0].B, []byte{}, m.payload))
		top := wTag(18, root)
		if r.chance(1, 15) {
			mutateTree(r, top)
		}
		p("hev %s T:-7:1", hexs(top.enc()))
		return
	}
	h := randHeaders(r, &cc)
	htext := h.gotext()
	if r.chance(1, 10) {
		// caller-supplied raw buckets
		rawP := hexs(wBstr(entriesWire([]hentry{{hInt(1), hInt(-7)}}).enc()).enc())
		rawU := hexs(entriesWire([]hentry{{hInt(int64(r.pick([]int{4, 258, 259, 260, 3}))), hBytes([]byte{1})}}).enc())
		switch r.intn(3) {
		case 0:
			htext = "H(" + rawP + ";" + entriesGo(h.prot) + ";-;" + entriesGo(h.unprot) + ")"
		case 1:
			htext = "H(-;" + entriesGo(h.prot) + ";" + rawU + ";" + entriesGo(h.unprot) + ")"
		case 2:
			htext = "H(" + rawP + ";-;" + rawU + ";-)"
		}
	}
	hashAlg := int64(r.pick([]int{-16, -16, -43, -44, -1, 7, 0}))
	hlen := map[int64]int{-16: 32, -43: 48, -44: 64}[hashAlg]
	if hlen == 0 || r.chance(1, 8) {
		hlen = r.pick([]int{0, 1, 31, 32, 33, 48, 64, 70})
	}
	hv_ := optHex(r.bytes(hlen))
	if r.chance(1, 30) {
		hv_ = "-"
	}
	pct := "-"
	switch r.intn(6) {
	case 0:
		pct = "i64:50"
	case 1:
		pct = "s:" + hexs([]byte("a/b"))
	case 2:
		pct = r.pick2s([]string{"b:01", "i64:-1", "u8:7", "t", "s:"})
	}
	loc := "-"
	if r.chance(1, 3) {
		loc = hexs([]byte("https://example.com/x"))
	}
	s, v := signerSpec(r, signAlg(r, &h))
	p("he %s %d %s %s %s %s %s", htext, hashAlg, hv_, pct, loc, s, v)
}

// hash-envelope cases that do not depend on the sampled budget: the base protected map already
// holds one of the governed labels (in every Go spelling, with the requested or another value),
// with and without alg, content type / location requested or not; caller-supplied raw buckets
// together with a typed map that disagrees with them.
func genHEFixed(p func(string, ...any)) {
	h32 := strings.Repeat("00", 32)
	for _, sp := range []string{"i64", "i", "i16", "u16", "u64"} {
		for _, v := range []string{"a:-16", "i64:-16", "i:-16", "a:-43", "s:" + hexs([]byte("sha"))} {
			for _, algEntry := range []string{"", ",i64:1=a:-7"} {
				for _, pl := range [][2]string{{"-", "-"}, {"s:" + hexs([]byte("a/b")), "-"}, {"-", hexs([]byte("urn:x"))}} {
					p("he H(-;{%s:258=%s%s};-;{}) -16 %s %s %s T:-7:1 T:-7:1", sp, v, algEntry, h32, pl[0], pl[1])
				}
			}
		}
		p("he H(-;{%s:259=s:%s};-;{}) -16 %s - - T:-7:1 T:-7:1", sp, hexs([]byte("a/b")), h32)
		p("he H(-;{%s:260=s:%s};-;{}) -16 %s - - T:-7:1 T:-7:1", sp, hexs([]byte("urn:x")), h32)
		p("he H(-;{%s:259=i64:50};-;{}) -16 %s i64:50 - T:-7:1 T:-7:1", sp, h32)
	}
	rawU := func(l int64) string { return hexs(wMap(wInt(l), wBstr([]byte{1})).enc()) }
	rawP := hexs(wBstr(wMap(wInt(1), wInt(-7)).enc()).enc())
	rawPbig := hexs(wBstr(wMap(wInt(1), wInt(-36)).enc()).enc())
	for _, l := range []int64{4, 3, 258, 259, 260} {
		for _, typed := range []string{"{}", "{i64:4=b:01}", "{i64:99=i64:1}", fmt.Sprintf("{i64:%d=b:01}", l)} {
			p("he H(-;{};%s;%s) -16 %s - - T:-7:1 T:-7:1", rawU(l), typed, h32)
			p("he H(%s;{i64:1=a:-7};%s;%s) -16 %s - - T:-7:1 T:-7:1", rawP, rawU(l), typed, h32)
		}
	}
	// Location / preimage content type that are not valid UTF-8 (plain Go strings from a URL or an
	// HTTP header): the decoder refuses such text, so the producer must
	for _, bad := range []string{"68747470733a2f2f782fff", "c3", "612f62c328"} {
		p("he H(-;{};-;{}) -16 %s - %s T:-7:1 T:-7:1", h32, bad)
		p("he H(-;{};-;{}) -16 %s s:%s - T:-7:1 T:-7:1", h32, bad)
		p("he H(-;{i64:1=a:-7};-;{}) -16 %s s:%s %s T:-7:1 T:-7:1", h32, bad, bad)
	}
	// a caller-supplied raw unprotected bucket with a tag in a value: refused by the decoder of the envelope
	for _, ru := range []string{"a16178c100", "a11864c11a6553f100", "a11864d8634101", "a11864d9d9f700", "a11864c24101"} {
		p("he H(-;{};%s;{}) -16 %s - - T:-7:1 T:-7:1", ru, h32)
	}
	// caller-supplied raw protected bytes never reach the envelope: the typed map is what is signed
	p("he H(%s;{i64:1=a:-7};-;{}) -16 %s - - T:-7:1 T:-7:1", rawPbig, h32)
	p("he H(%s;{};-;{}) -16 %s - - T:-7:1 T:-7:1", rawPbig, h32)
	p("he H(%s;{i64:1=a:-7};-;{}) -16 %s s:%s %s T:-7:1 T:-7:1", rawP, h32, hexs([]byte("a/b")), hexs([]byte("urn:x")))
	// payload hash algorithms the library has no size for (no length check), with verifiers that
	// refuse: the verifier's error is returned
	for _, a := range []int64{-14, -15, -17, -18, -45, 0, 7, -65535} {
		for _, v := range []string{"T:-7:1", "T:-7:2", "F:-7:err"} {
			p("he H(-;{};-;{}) %d %s - - T:-7:1 %s", a, strings.Repeat("00", 20), v)
		}
	}
}
