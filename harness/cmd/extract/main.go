// extract — regenerates CoseModel/Generated/Facts.lean from the Go source of go-cose
// (DESIGN.md §4.1).  Purely syntactic (go/parser, go/ast); prints Lean to stdout, notes to stderr.
package main

import (
	"bytes"
	"fmt"
	"go/ast"
	"go/parser"
	"go/printer"
	"go/token"
	"os"
	"path/filepath"
	"sort"
	"strconv"
	"strings"
)

var fset = token.NewFileSet()

func exprString(e ast.Expr) string {
	var b bytes.Buffer
	printer.Fprint(&b, fset, e)
	return strings.Join(strings.Fields(b.String()), " ")
}

func leanStr(s string) string { return strconv.Quote(s) }

func constInt(e ast.Expr) (int64, bool) {
	switch v := e.(type) {
	case *ast.BasicLit:
		if v.Kind == token.INT {
			n, err := strconv.ParseInt(v.Value, 0, 64)
			return n, err == nil
		}
	case *ast.UnaryExpr:
		if v.Op == token.SUB {
			n, ok := constInt(v.X)
			return -n, ok
		}
	case *ast.ParenExpr:
		return constInt(v.X)
	}
	return 0, false
}

func funcName(fd *ast.FuncDecl) string {
	if fd.Recv != nil && len(fd.Recv.List) > 0 {
		t := exprString(fd.Recv.List[0].Type)
		return strings.TrimPrefix(t, "*") + "." + fd.Name.Name
	}
	return fd.Name.Name
}

func main() {
	dir := "/repo"
	if len(os.Args) > 1 {
		dir = os.Args[1]
	}
	files, _ := filepath.Glob(filepath.Join(dir, "*.go"))
	sort.Strings(files)
	consts := map[string]int64{}
	var constNames []string
	byteVars := map[string][]int64{}
	byteVarElts := map[string][]ast.Expr{}
	funcs := map[string]*ast.FuncDecl{}
	var panicSites, writeSites []string
	for _, f := range files {
		if strings.HasSuffix(f, "_test.go") {
			continue
		}
		af, err := parser.ParseFile(fset, f, nil, 0)
		if err != nil {
			fmt.Fprintln(os.Stderr, "parse error:", err)
			os.Exit(1)
		}
		for _, d := range af.Decls {
			switch d := d.(type) {
			case *ast.GenDecl:
				for _, sp := range d.Specs {
					vs, ok := sp.(*ast.ValueSpec)
					if !ok {
						continue
					}
					for i, name := range vs.Names {
						if i >= len(vs.Values) {
							continue
						}
						if d.Tok == token.CONST {
							if n, ok := constInt(vs.Values[i]); ok {
								consts[name.Name] = n
								constNames = append(constNames, name.Name)
							}
						}
						if d.Tok == token.VAR {
							if cl, ok := vs.Values[i].(*ast.CompositeLit); ok && exprString(cl.Type) == "[]byte" {
								byteVarElts[name.Name] = cl.Elts
							}
						}
					}
				}
			case *ast.FuncDecl:
				if d.Body == nil {
					continue
				}
				name := funcName(d)
				funcs[name] = d
				// panic-site inventory: single-value type assertions, slice expressions and
				// index expressions on non-map operands are listed by (function, expression)
				twoValue := map[ast.Expr]bool{}
				ast.Inspect(d.Body, func(n ast.Node) bool {
					switch s := n.(type) {
					case *ast.AssignStmt:
						if len(s.Lhs) == 2 && len(s.Rhs) == 1 {
							twoValue[s.Rhs[0]] = true
						}
					case *ast.ValueSpec:
						if len(s.Names) == 2 && len(s.Values) == 1 {
							twoValue[s.Values[0]] = true
						}
					case *ast.TypeSwitchStmt:
						if as, ok := s.Assign.(*ast.AssignStmt); ok {
							twoValue[as.Rhs[0]] = true
						}
						if es, ok := s.Assign.(*ast.ExprStmt); ok {
							twoValue[es.X] = true
						}
					}
					return true
				})
				ast.Inspect(d.Body, func(n ast.Node) bool {
					switch e := n.(type) {
					case *ast.TypeAssertExpr:
						if e.Type != nil && !twoValue[e] {
							panicSites = append(panicSites, name+": "+exprString(e))
						}
					case *ast.SliceExpr:
						panicSites = append(panicSites, name+": "+exprString(e))
					case *ast.IndexExpr:
						// header / key maps are indexed by label constants or `label`/`lbl` variables
						x := exprString(e.X)
						if x == "h" || x == "headers" || x == "tmp" || x == "dic" || x == "existing" || x == "claims" ||
							x == "header" || x == "k.Params" || x == "key.Params" || strings.HasSuffix(x, ".Protected") {
							return true
						}
						panicSites = append(panicSites, name+": "+exprString(e))
					case *ast.CallExpr:
						if id, ok := e.Fun.(*ast.Ident); ok && id.Name == "panic" {
							panicSites = append(panicSites, name+": panic(...)")
						}
					}
					return true
				})
				// write-effect inventory: assignments through a field / index / dereference
				ast.Inspect(d.Body, func(n ast.Node) bool {
					as, ok := n.(*ast.AssignStmt)
					if !ok {
						return true
					}
					for _, l := range as.Lhs {
						switch l.(type) {
						case *ast.SelectorExpr, *ast.IndexExpr, *ast.StarExpr:
							writeSites = append(writeSites, name+": "+exprString(l))
						}
					}
					return true
				})
			}
		}
	}

	// string literals inside a function body, in source order
	strLits := func(fn string) []string {
		fd := funcs[fn]
		var out []string
		if fd == nil {
			fmt.Fprintln(os.Stderr, "note: function not found:", fn)
			return out
		}
		ast.Inspect(fd.Body, func(n ast.Node) bool {
			if bl, ok := n.(*ast.BasicLit); ok && bl.Kind == token.STRING {
				if s, err := strconv.Unquote(bl.Value); err == nil {
					out = append(out, s)
				}
			}
			return true
		})
		return out
	}
	// literals that are elements of a []any composite literal / assigned to `context`
	ctxLits := func(fn string) []string {
		fd := funcs[fn]
		var out []string
		if fd == nil {
			return out
		}
		ast.Inspect(fd.Body, func(n ast.Node) bool {
			switch s := n.(type) {
			case *ast.CompositeLit:
				for _, el := range s.Elts {
					if bl, ok := el.(*ast.BasicLit); ok && bl.Kind == token.STRING {
						v, _ := strconv.Unquote(bl.Value)
						out = append(out, v)
					}
				}
			case *ast.AssignStmt:
				if len(s.Lhs) == 1 && exprString(s.Lhs[0]) == "context" {
					if bl, ok := s.Rhs[0].(*ast.BasicLit); ok && bl.Kind == token.STRING {
						v, _ := strconv.Unquote(bl.Value)
						out = append(out, v)
					}
				}
			}
			return true
		})
		return out
	}
	_ = strLits

	// the byte literal handed to countersignToBeSigned as sign_protected by the abbreviated form
	abbrevProt := func(fn string) []int64 {
		fd := funcs[fn]
		var out []int64
		if fd == nil {
			return out
		}
		ast.Inspect(fd.Body, func(n ast.Node) bool {
			if cl, ok := n.(*ast.CompositeLit); ok && exprString(cl.Type) == "[]byte" {
				for _, el := range cl.Elts {
					if v, ok := constInt(el); ok {
						out = append(out, v)
					}
				}
			}
			return true
		})
		return out
	}

	// Algorithm.hashFunc: case lists → hash
	var hashTable [][2]string
	if fd := funcs["Algorithm.hashFunc"]; fd != nil {
		ast.Inspect(fd.Body, func(n ast.Node) bool {
			cc, ok := n.(*ast.CaseClause)
			if !ok || len(cc.Body) == 0 {
				return true
			}
			ret, ok := cc.Body[0].(*ast.ReturnStmt)
			if !ok || len(ret.Results) != 1 {
				return true
			}
			for _, e := range cc.List {
				hashTable = append(hashTable, [2]string{exprString(e), exprString(ret.Results[0])})
			}
			return true
		})
	}

	var b strings.Builder
	b.WriteString("/- GENERATED by harness/cmd/extract from the Go source of go-cose. Do not edit. -/\n")
	b.WriteString("namespace CoseModel.Facts\n\n")
	b.WriteString("/-- integer constants of the package, by name -/\ndef consts : List (String × Int) := [\n")
	sort.Strings(constNames)
	for i, n := range constNames {
		sep := ","
		if i == len(constNames)-1 {
			sep = ""
		}
		fmt.Fprintf(&b, "  (%s, %d)%s\n", leanStr(n), consts[n], sep)
	}
	b.WriteString("]\n\n")
	intList := func(xs []int64) string {
		parts := make([]string, len(xs))
		for i, x := range xs {
			parts[i] = strconv.FormatInt(x, 10)
		}
		return "[" + strings.Join(parts, ", ") + "]"
	}
	strList := func(xs []string) string {
		parts := make([]string, len(xs))
		for i, x := range xs {
			parts[i] = leanStr(x)
		}
		return "[" + strings.Join(parts, ", ") + "]"
	}
	// byte-slice literals: elements are integer literals or named integer constants
	for name, elts := range byteVarElts {
		var bs []int64
		for _, el := range elts {
			if n, ok := constInt(el); ok {
				bs = append(bs, n)
			} else if id, ok := el.(*ast.Ident); ok {
				if n, ok := consts[id.Name]; ok {
					bs = append(bs, n)
				}
			}
		}
		byteVars[name] = bs
	}
	fmt.Fprintf(&b, "def sign1MessagePrefix : List Nat := %s\n", intList(byteVars["sign1MessagePrefix"]))
	fmt.Fprintf(&b, "def signMessagePrefix : List Nat := %s\n", intList(byteVars["signMessagePrefix"]))
	fmt.Fprintf(&b, "def signaturePrefix : List Nat := %s\n\n", intList(byteVars["signaturePrefix"]))
	fmt.Fprintf(&b, "/-- context strings of the Sig_structure builders, in source order -/\n")
	fmt.Fprintf(&b, "def ctxSign1 : List String := %s\n", strList(ctxLits("Sign1Message.toBeSigned")))
	fmt.Fprintf(&b, "def ctxSignature : List String := %s\n", strList(ctxLits("Signature.toBeSigned")))
	fmt.Fprintf(&b, "def ctxCountersign : List String := %s\n", strList(ctxLits("countersignToBeSigned")))
	fmt.Fprintf(&b, "def abbrevSignProtected : List Nat := %s\n", intList(abbrevProt("Countersign0")))
	fmt.Fprintf(&b, "def abbrevSignProtectedVerify : List Nat := %s\n\n", intList(abbrevProt("VerifyCountersign0")))
	b.WriteString("/-- Algorithm.hashFunc: (case constant, returned hash) -/\ndef hashTable : List (String × String) := [\n")
	for i, e := range hashTable {
		sep := ","
		if i == len(hashTable)-1 {
			sep = ""
		}
		fmt.Fprintf(&b, "  (%s, %s)%s\n", leanStr(e[0]), leanStr(e[1]), sep)
	}
	b.WriteString("]\n\n")
	writeList := func(name, doc string, xs []string) {
		fmt.Fprintf(&b, "/-- %s -/\ndef %s : List String := [\n", doc, name)
		for i, x := range xs {
			sep := ","
			if i == len(xs)-1 {
				sep = ""
			}
			fmt.Fprintf(&b, "  %s%s\n", leanStr(x), sep)
		}
		b.WriteString("]\n\n")
	}
	// decision tables: for the listed functions, every case clause of every (type) switch, in
	// source order: "case <exprs> | calls <called functions> | guards <protected tests> | ret <first return>"
	tableFns := []string{"validateHeaderParameters", "validateHashEnvelopeHeaders", "NewSigner", "NewVerifier",
		"Key.deriveAlgorithm", "curveSize", "KeyOpFromString", "Key.validate", "ProtectedHeader.Algorithm",
		"ProtectedHeader.PayloadHashAlgorithm", "normalizeLabel", "canUint", "canInt", "countersignToBeSigned",
		"Headers.ensureSigningAlgorithm", "Headers.ensureVerificationAlgorithm", "Key.UnmarshalCBOR"}
	for _, fn := range tableFns {
		fd := funcs[fn]
		var rows []string
		if fd == nil {
			fmt.Fprintln(os.Stderr, "note: function not found:", fn)
		} else {
			ast.Inspect(fd.Body, func(n ast.Node) bool {
				cc, ok := n.(*ast.CaseClause)
				if !ok {
					return true
				}
				var cases []string
				for _, e := range cc.List {
					cases = append(cases, exprString(e))
				}
				if cc.List == nil {
					cases = []string{"default"}
				}
				callSet := map[string]bool{}
				guardSet := map[string]bool{}
				ret := ""
				for _, st := range cc.Body {
					ast.Inspect(st, func(m ast.Node) bool {
						switch x := m.(type) {
						case *ast.CaseClause:
							return false // nested switch: its clauses get their own rows
						case *ast.CallExpr:
							switch f := x.Fun.(type) {
							case *ast.Ident:
								callSet[f.Name] = true
							case *ast.SelectorExpr:
								callSet[exprString(f)] = true
							}
						case *ast.IfStmt:
							c := exprString(x.Cond)
							if strings.Contains(c, "protected") || strings.Contains(c, "op ==") || strings.Contains(c, "len(") {
								guardSet[c] = true
							}
						case *ast.ReturnStmt:
							if ret == "" {
								parts := []string{}
								for _, r := range x.Results {
									parts = append(parts, exprString(r))
								}
								ret = strings.Join(parts, ", ")
								if len(ret) > 60 {
									ret = ret[:60]
								}
							}
						}
						return true
					})
				}
				keys := func(m map[string]bool) string {
					var ks []string
					for k := range m {
						ks = append(ks, k)
					}
					sort.Strings(ks)
					return strings.Join(ks, ",")
				}
				rows = append(rows, "case "+strings.Join(cases, ",")+" | calls "+keys(callSet)+" | guards "+keys(guardSet)+" | ret "+ret)
				return true
			})
		}
		name := "table_" + strings.NewReplacer(".", "_").Replace(fn)
		writeList(name, "case clauses of "+fn, rows)
	}

	// straight-line bodies: for the small wrappers around the cryptographic primitives (which the
	// model transcribes statement by statement in CoseModel/Signers.lean) every top-level statement
	// of the body, comments dropped, white space collapsed
	bodyFns := []string{"ecdsaKeySigner.Sign", "ecdsaKeySigner.SignDigest", "ecdsaCryptoSigner.Sign", "ecdsaCryptoSigner.SignDigest",
		"ecdsaVerifier.Verify", "ecdsaVerifier.VerifyDigest", "encodeECDSASignature", "decodeECDSASignature", "I2OSP", "OS2IP",
		"rsaSigner.Sign", "rsaSigner.SignDigest", "rsaVerifier.Verify", "rsaVerifier.VerifyDigest",
		"ed25519Signer.Sign", "ed25519Verifier.Verify", "Countersign0", "VerifyCountersign0",
		"Algorithm.computeHash", "computeHash", "Sign1", "Sign1Untagged", "deterministicBinaryString",
		// the raw-byte scan that refuses the self-described tag (transcribed in CoseModel/TagScan.lean)
		"validateHeaderLabelCBOR", "ensureUntaggedHeaderLabels", "typeCheckedHeaderLabel", "headArgument", "scanSelfDescribedTag",
		// both header buckets in one call, and the two bucket encoders (C19)
		"Headers.UnmarshalFromRaw", "Headers.MarshalProtected", "Headers.MarshalUnprotected",
		// the signing methods: gate, ToBeSigned, signer call, empty-answer test, store (C20, C11)
		"Sign1Message.Sign", "Signature.Sign", "SignMessage.Sign", "Countersignature.Sign"}
	for _, fn := range bodyFns {
		fd := funcs[fn]
		var rows []string
		if fd == nil {
			fmt.Fprintln(os.Stderr, "note: function not found:", fn)
		} else {
			for _, st := range fd.Body.List {
				var sb bytes.Buffer
				printer.Fprint(&sb, fset, st)
				row := strings.Join(strings.Fields(sb.String()), " ")
				rows = append(rows, row)
			}
		}
		writeList("body_"+strings.NewReplacer(".", "_").Replace(fn), "statements of "+fn, rows)
	}

	sort.Strings(panicSites)
	sort.Strings(writeSites)
	writeList("panicSites", "single-value type assertions, slice / index expressions and explicit panics, by (function, expression)", panicSites)
	writeList("writeSites", "assignments through a field, index or dereference, by (function, target)", writeSites)
	b.WriteString("end CoseModel.Facts\n")
	fmt.Print(b.String())
}
