import CoseModel
def main : IO Unit := IO.println "hi"
