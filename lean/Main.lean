import CoseModel.Driver
open CoseModel

partial def loop (hin hout : IO.FS.Stream) : IO Unit := do
  let line ← hin.getLine
  if line.isEmpty then return ()
  let l := (line.dropEndWhile (fun c => c == '\n' || c == '\r')).toString
  if l.isEmpty || l.startsWith "#" then
    hout.putStrLn "skip"
  else
    hout.putStrLn (runLine l)
  loop hin hout

def main : IO Unit := do
  let hin ← IO.getStdin
  let hout ← IO.getStdout
  loop hin hout
  hout.flush
