import CoseModel.Basic
import CoseModel.Cbor
import CoseModel.GoVal
import CoseModel.Headers
import CoseModel.Messages
import CoseModel.Ecdsa
