/-
  CoseSpec — RFC-level definitions, independent of how the Go code computes anything.
  * RFC 8949 §4.2.1 deterministic encoding for the items COSE signs (text, byte strings, arrays);
  * RFC 9052 §4.4 Sig_structure, RFC 9338 §3.3 Countersign_structure.
-/
import CoseModel.Basic
import CoseModel.Cbor
namespace CoseSpec
open CoseModel

/-- the data items that occur in a Sig_structure -/
inductive Item
  | tstr (utf8 : Bytes)
  | bstr (b : Bytes)
  | arr (xs : List Item)

/-- shortest-form head (RFC 8949 §4.2.1: preferred serialization, definite length) -/
def detHead (major n : Nat) : Bytes := headBytes major (HW.shortest n) n

mutual
/-- deterministic encoding -/
def detEnc : Item → Bytes
  | .tstr b => detHead 3 b.length ++ b
  | .bstr b => detHead 2 b.length ++ b
  | .arr xs => detHead 4 xs.length ++ detEncList xs
def detEncList : List Item → Bytes
  | [] => []
  | x :: xs => detEnc x ++ detEncList xs
end

def utf8 (s : String) : Bytes := s.toUTF8.toList

/-- RFC 9052 §4.4: Sig_structure for COSE_Sign1 -/
def sigStructure1 (bodyProtected externalAad payload : Bytes) : Item :=
  .arr [.tstr (utf8 "Signature1"), .bstr bodyProtected, .bstr externalAad, .bstr payload]

/-- RFC 9052 §4.4: Sig_structure for one signer of a COSE_Sign -/
def sigStructure (bodyProtected signProtected externalAad payload : Bytes) : Item :=
  .arr [.tstr (utf8 "Signature"), .bstr bodyProtected, .bstr signProtected, .bstr externalAad, .bstr payload]

/-- RFC 9338 §3.3: Countersign_structure; `other` = the parent's signature for the V2 forms -/
def countersignStructure (context : String) (bodyProtected signProtected externalAad payload : Bytes)
    (other : Option Bytes) : Item :=
  match other with
  | none => .arr [.tstr (utf8 context), .bstr bodyProtected, .bstr signProtected, .bstr externalAad, .bstr payload]
  | some sig => .arr [.tstr (utf8 context), .bstr bodyProtected, .bstr signProtected, .bstr externalAad,
                      .bstr payload, .arr [.bstr sig]]

/-- a definite-length byte string as it may appear on the wire: any head width that fits -/
def IsBstrEncoding (raw content : Bytes) : Prop :=
  ∃ w : HW, w.fits content.length = true ∧ raw = headBytes 2 w content.length ++ content

end CoseSpec
