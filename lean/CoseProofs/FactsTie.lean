/-
  CoseProofs.FactsTie — the reviewed baseline of the syntactic facts the model was written against
  (decision tables: every case clause of the listed functions; write sites), and one theorem per
  table stating that the facts regenerated from the current source equal the baseline.  A change
  to a case list, a guard, a called predicate or a first return expression of these functions
  breaks the theorem of the property that relies on it.
-/
import CoseModel.Generated.Facts
open CoseModel

namespace Expected

def table_validateHeaderParameters : List String := [
  "case HeaderLabelAlgorithm | calls canInt,canTstr,errors.New | guards  | ret errors.New(\"header parameter: alg: require int / tstr type\")",
  "case HeaderLabelCritical | calls ensureCritical,errors.New,fmt.Errorf | guards !protected | ret errors.New(\"header parameter: crit: not allowed\")",
  "case HeaderLabelType | calls canTstr,canUint,errors.New,len,strings.Count | guards len(v) == 0,v[0] == ' ' || v[len(v)-1] == ' ' | ret errors.New(\"header parameter: type: require tstr / uint type",
  "case HeaderLabelContentType | calls canTstr,canUint,errors.New,len,strings.Count | guards len(v) == 0,v[0] == ' ' || v[len(v)-1] == ' ' | ret errors.New(\"header parameter: content type: require tstr / u",
  "case HeaderLabelKeyID | calls canBstr,errors.New | guards  | ret errors.New(\"header parameter: kid: require bstr type\")",
  "case HeaderLabelIV | calls canBstr,errors.New,hasLabel | guards  | ret errors.New(\"header parameter: IV: require bstr type\")",
  "case HeaderLabelPartialIV | calls canBstr,errors.New,hasLabel | guards  | ret errors.New(\"header parameter: Partial IV: require bstr type\"",
  "case HeaderLabelCounterSignature | calls errors.New,isCountersignatureValue | guards protected | ret errors.New(\"header parameter: counter signature: not allowed",
  "case HeaderLabelCounterSignature0 | calls canBstr,errors.New | guards protected | ret errors.New(\"header parameter: countersignature0: not allowed",
  "case HeaderLabelCounterSignatureV2 | calls errors.New,isCountersignatureValue | guards protected | ret errors.New(\"header parameter: Countersignature version 2: no",
  "case HeaderLabelCounterSignature0V2 | calls canBstr,errors.New | guards protected | ret errors.New(\"header parameter: Countersignature0 version 2: n"
]

def table_normalizeLabel : List String := [
  "case int | calls int64 | guards  | ret ",
  "case int8 | calls int64 | guards  | ret ",
  "case int16 | calls int64 | guards  | ret ",
  "case int32 | calls int64 | guards  | ret ",
  "case int64 | calls int64 | guards  | ret ",
  "case uint | calls int64 | guards  | ret ",
  "case uint8 | calls int64 | guards  | ret ",
  "case uint16 | calls int64 | guards  | ret ",
  "case uint32 | calls int64 | guards  | ret ",
  "case uint64 | calls int64 | guards  | ret ",
  "case string | calls  | guards  | ret ",
  "case default | calls  | guards  | ret nil, false"
]

def table_canUint : List String := [
  "case uint,uint8,uint16,uint32,uint64 | calls  | guards  | ret true",
  "case int | calls  | guards  | ret v >= 0",
  "case int8 | calls  | guards  | ret v >= 0",
  "case int16 | calls  | guards  | ret v >= 0",
  "case int32 | calls  | guards  | ret v >= 0",
  "case int64 | calls  | guards  | ret v >= 0"
]

def table_canInt : List String := [
  "case int,int8,int16,int32,int64,uint,uint8,uint16,uint32,uint64 | calls  | guards  | ret true"
]

def table_validateHashEnvelopeHeaders : List String := [
  "case HeaderLabelContentType | calls errors.New | guards  | ret errors.New(\"protected header parameter: content type: not al",
  "case HeaderLabelPayloadHashAlgorithm | calls canInt,errors.New | guards  | ret errors.New(\"protected header parameter: payload hash alg: re",
  "case HeaderLabelPayloadPreimageContentType | calls canTstr,canUint,errors.New | guards  | ret errors.New(\"protected header parameter: payload preimage con",
  "case HeaderLabelPayloadLocation | calls canTstr,errors.New | guards  | ret errors.New(\"protected header parameter: payload location: re",
  "case HeaderLabelContentType | calls errors.New | guards  | ret errors.New(\"unprotected header parameter: content type: not ",
  "case HeaderLabelPayloadHashAlgorithm | calls errors.New | guards  | ret errors.New(\"unprotected header parameter: payload hash alg: ",
  "case HeaderLabelPayloadPreimageContentType | calls errors.New | guards  | ret errors.New(\"unprotected header parameter: payload preimage c",
  "case HeaderLabelPayloadLocation | calls errors.New | guards  | ret errors.New(\"unprotected header parameter: payload location: "
]

def table_ProtectedHeader_PayloadHashAlgorithm : List String := [
  "case Algorithm | calls  | guards  | ret alg, nil",
  "case int | calls Algorithm | guards  | ret Algorithm(alg), nil",
  "case int8 | calls Algorithm | guards  | ret Algorithm(alg), nil",
  "case int16 | calls Algorithm | guards  | ret Algorithm(alg), nil",
  "case int32 | calls Algorithm | guards  | ret Algorithm(alg), nil",
  "case int64 | calls Algorithm | guards  | ret Algorithm(alg), nil",
  "case default | calls  | guards  | ret AlgorithmReserved, ErrInvalidAlgorithm"
]

def table_NewSigner : List String := [
  "case AlgorithmPS256,AlgorithmPS384,AlgorithmPS512 | calls errors.New,fmt.Errorf,key.Public,vk.N.BitLen | guards  | ret nil, fmt.Errorf(\"%v: %w\", alg, ErrInvalidPubKey)",
  "case AlgorithmES256,AlgorithmES384,AlgorithmES512 | calls fmt.Errorf,key.Public | guards  | ret nil, fmt.Errorf(\"%v: %w\", alg, ErrInvalidPubKey)",
  "case AlgorithmEdDSA | calls fmt.Errorf,key.Public | guards  | ret nil, fmt.Errorf(\"%v: %w\", alg, ErrInvalidPubKey)",
  "case AlgorithmReserved | calls  | guards  | ret ",
  "case AlgorithmRS256,AlgorithmRS384,AlgorithmRS512 | calls  | guards  | ret ",
  "case default | calls  | guards  | ret "
]

def table_NewVerifier : List String := [
  "case AlgorithmPS256,AlgorithmPS384,AlgorithmPS512 | calls errors.New,fmt.Errorf,vk.N.BitLen | guards  | ret nil, fmt.Errorf(\"%v: %w\", alg, ErrInvalidPubKey)",
  "case AlgorithmES256,AlgorithmES384,AlgorithmES512 | calls err.Error,fmt.Errorf,vk.ECDH | guards  | ret nil, fmt.Errorf(\"%v: %w\", alg, ErrInvalidPubKey)",
  "case AlgorithmEdDSA | calls fmt.Errorf | guards  | ret nil, fmt.Errorf(\"%v: %w\", alg, ErrInvalidPubKey)",
  "case AlgorithmReserved | calls  | guards  | ret ",
  "case AlgorithmRS256,AlgorithmRS384,AlgorithmRS512 | calls  | guards  | ret ",
  "case default | calls  | guards  | ret "
]

def table_Key_deriveAlgorithm : List String := [
  "case KeyTypeEC2 | calls k.EC2 | guards  | ret ",
  "case CurveP256 | calls  | guards  | ret AlgorithmES256, nil",
  "case CurveP384 | calls  | guards  | ret AlgorithmES384, nil",
  "case CurveP521 | calls  | guards  | ret AlgorithmES512, nil",
  "case default | calls crv.String,fmt.Errorf | guards  | ret AlgorithmReserved, fmt.Errorf( \"unsupported curve %q for key",
  "case KeyTypeOKP | calls k.OKP | guards  | ret ",
  "case CurveEd25519 | calls  | guards  | ret AlgorithmEdDSA, nil",
  "case default | calls crv.String,fmt.Errorf | guards  | ret AlgorithmReserved, fmt.Errorf( \"unsupported curve %q for key",
  "case default | calls fmt.Errorf,k.Type.String | guards  | ret AlgorithmReserved, fmt.Errorf(\"unexpected key type %q\", k.Ty"
]

def table_curveSize : List String := [
  "case CurveP256 | calls elliptic.P256,elliptic.P256().Params | guards  | ret ",
  "case CurveP384 | calls elliptic.P384,elliptic.P384().Params | guards  | ret ",
  "case CurveP521 | calls elliptic.P521,elliptic.P521().Params | guards  | ret "
]

def table_KeyOpFromString : List String := [
  "case \"sign\" | calls  | guards  | ret KeyOpSign, true",
  "case \"verify\" | calls  | guards  | ret KeyOpVerify, true",
  "case \"encrypt\" | calls  | guards  | ret KeyOpEncrypt, true",
  "case \"decrypt\" | calls  | guards  | ret KeyOpDecrypt, true",
  "case \"wrapKey\" | calls  | guards  | ret KeyOpWrapKey, true",
  "case \"unwrapKey\" | calls  | guards  | ret KeyOpUnwrapKey, true",
  "case \"deriveKey\" | calls  | guards  | ret KeyOpDeriveKey, true",
  "case \"deriveBits\" | calls  | guards  | ret KeyOpDeriveBits, true",
  "case default | calls  | guards  | ret KeyOpReserved, false"
]

def table_Key_validate : List String := [
  "case KeyTypeEC2 | calls curveSize,k.EC2,len | guards crv == CurveReserved || (len(x) == 0 && len(y) == 0 && len(d) == 0),len(x) > size || len(y) > size || len(d) > size | ret errReqParamsMissing",
  "case KeyOpVerify | calls len | guards len(x) == 0 || len(y) == 0 | ret ErrEC2NoPub",
  "case KeyOpSign | calls len | guards len(d) == 0 | ret ErrNotPrivKey",
  "case CurveX25519,CurveX448,CurveEd25519,CurveEd448 | calls  | guards  | ret errInvalidCurve",
  "case default | calls  | guards  | ret ",
  "case KeyTypeOKP | calls k.OKP,len | guards (len(x) > 0 && len(x) != ed25519.PublicKeySize) || (len(d) > 0 && len(d) != ed25519.SeedSize),crv == CurveReserved || (len(x) == 0 && len(d) == 0) | ret errReqParamsMissing",
  "case KeyOpVerify | calls len | guards len(x) == 0 | ret ErrOKPNoPub",
  "case KeyOpSign | calls len | guards len(d) == 0 | ret ErrNotPrivKey",
  "case CurveP256,CurveP384,CurveP521 | calls  | guards  | ret errInvalidCurve",
  "case default | calls  | guards  | ret ",
  "case KeyTypeSymmetric | calls k.Symmetric,len | guards len(k) == 0 | ret errReqParamsMissing",
  "case KeyTypeReserved | calls fmt.Errorf | guards  | ret fmt.Errorf(\"%w: kty value 0\", ErrInvalidKey)",
  "case default | calls  | guards  | ret "
]

def table_Key_UnmarshalCBOR : List String := [
  "case int64 | calls KeyOp | guards  | ret ",
  "case string | calls KeyOpFromString,fmt.Errorf | guards  | ret fmt.Errorf(\"key_ops: unknown entry value %q\", op)",
  "case default | calls fmt.Errorf | guards  | ret fmt.Errorf(\"key_ops: invalid entry type %T\", op)",
  "case int64 | calls Curve,fmt.Errorf | guards  | ret fmt.Errorf(\"crv: invalid type: expected int64, got %T\", v)",
  "case string | calls  | guards  | ret ",
  "case default | calls fmt.Errorf | guards  | ret fmt.Errorf(\"invalid label type %T\", lbl)"
]

def table_ProtectedHeader_Algorithm : List String := [
  "case Algorithm | calls  | guards  | ret alg, nil",
  "case int | calls Algorithm | guards  | ret Algorithm(alg), nil",
  "case int8 | calls Algorithm | guards  | ret Algorithm(alg), nil",
  "case int16 | calls Algorithm | guards  | ret Algorithm(alg), nil",
  "case int32 | calls Algorithm | guards  | ret Algorithm(alg), nil",
  "case int64 | calls Algorithm | guards  | ret Algorithm(alg), nil",
  "case string | calls fmt.Errorf | guards  | ret AlgorithmReserved, fmt.Errorf(\"Algorithm(%q): %w\", alg, ErrA",
  "case default | calls  | guards  | ret AlgorithmReserved, ErrInvalidAlgorithm"
]

def table_Headers_ensureSigningAlgorithm : List String := [
  "case nil | calls fmt.Errorf | guards  | ret fmt.Errorf(\"%w: signer %v: header %v\", ErrAlgorithmMismatch,",
  "case ErrAlgorithmNotFound | calls h.Protected.SetAlgorithm,len,make | guards len(external) > 0 | ret nil"
]

def table_Headers_ensureVerificationAlgorithm : List String := [
  "case nil | calls fmt.Errorf | guards  | ret fmt.Errorf(\"%w: verifier %v: header %v\", ErrAlgorithmMismatc",
  "case ErrAlgorithmNotFound | calls len | guards len(external) > 0 | ret nil"
]

def table_countersignToBeSigned : List String := [
  "case *SignMessage | calls countersignToBeSigned | guards  | ret countersignToBeSigned(abbreviated, *t, signProtected, extern",
  "case SignMessage | calls errors.New,len,t.Headers.MarshalProtected | guards len(t.Signatures) == 0 | ret nil, errors.New(\"SignMessage has no signatures yet\")",
  "case *Sign1Message | calls countersignToBeSigned | guards  | ret countersignToBeSigned(abbreviated, *t, signProtected, extern",
  "case Sign1Message | calls deterministicBinaryString,encMode.Marshal,errors.New,len,t.Headers.MarshalProtected | guards len(t.Signature) == 0 | ret nil, errors.New(\"Sign1Message was not signed yet\")",
  "case *Signature | calls countersignToBeSigned | guards  | ret countersignToBeSigned(abbreviated, *t, signProtected, extern",
  "case Signature | calls errors.New,len,t.Headers.MarshalProtected | guards len(t.Signature) == 0 | ret nil, err",
  "case *Countersignature | calls countersignToBeSigned | guards  | ret countersignToBeSigned(abbreviated, *t, signProtected, extern",
  "case Countersignature | calls errors.New,len,t.Headers.MarshalProtected | guards len(t.Signature) == 0 | ret nil, err",
  "case default | calls fmt.Errorf | guards  | ret nil, fmt.Errorf(\"unsupported target %T\", target)"
]

def writeSites : List String := [
  "Countersignature.Sign: s.Signature",
  "Headers.ensureSigningAlgorithm: h.Protected",
  "Key.MarshalCBOR: existing[lbl]",
  "Key.MarshalCBOR: tmp[KeyLabelEC2X]",
  "Key.MarshalCBOR: tmp[KeyLabelEC2Y]",
  "Key.MarshalCBOR: tmp[keyLabelAlgorithm]",
  "Key.MarshalCBOR: tmp[keyLabelBaseIV]",
  "Key.MarshalCBOR: tmp[keyLabelKeyID]",
  "Key.MarshalCBOR: tmp[keyLabelKeyOps]",
  "Key.MarshalCBOR: tmp[lbl]",
  "Key.UnmarshalCBOR: *k",
  "Key.UnmarshalCBOR: k.Algorithm",
  "Key.UnmarshalCBOR: k.BaseIV",
  "Key.UnmarshalCBOR: k.ID",
  "Key.UnmarshalCBOR: k.Ops",
  "Key.UnmarshalCBOR: k.Ops[i]",
  "Key.UnmarshalCBOR: k.Ops[i]",
  "Key.UnmarshalCBOR: k.Params",
  "Key.UnmarshalCBOR: k.Params[lbl]",
  "Key.UnmarshalCBOR: k.Params[lbl]",
  "Key.UnmarshalCBOR: k.Type",
  "NewKeyEC2: key.Params[KeyLabelEC2D]",
  "NewKeyEC2: key.Params[KeyLabelEC2X]",
  "NewKeyEC2: key.Params[KeyLabelEC2Y]",
  "NewKeyOKP: key.Params[KeyLabelOKPD]",
  "NewKeyOKP: key.Params[KeyLabelOKPX]",
  "ProtectedHeader.SetAlgorithm: h[HeaderLabelAlgorithm]",
  "ProtectedHeader.SetCWTClaims: h[HeaderLabelCWTClaims]",
  "ProtectedHeader.SetType: h[HeaderLabelType]",
  "ProtectedHeader.UnmarshalCBOR: *h",
  "ProtectedHeader.UnmarshalCBOR: *h",
  "Sign1Message.Sign: m.Signature",
  "Sign1Message.doUnmarshal: *m",
  "SignHashEnvelope: headers.Protected",
  "SignHashEnvelope: headers.RawProtected",
  "SignHashEnvelope: headers.Unprotected",
  "SignMessage.UnmarshalCBOR: *m",
  "Signature.Sign: s.Signature",
  "Signature.UnmarshalCBOR: *s",
  "UnprotectedHeader.UnmarshalCBOR: *h",
  "UnprotectedHeader.UnmarshalCBOR: header[k]",
  "VerifyHashEnvelope: message.Headers.Protected[HeaderLabelPayloadHashAlgorithm]",
  "byteString.UnmarshalCBOR: *s",
  "init: decOpts.TagsMd",
  "init: encOpts.BigIntConvert",
  "setHashEnvelopeProtectedHeader: header[HeaderLabelPayloadHashAlgorithm]",
  "setHashEnvelopeProtectedHeader: header[HeaderLabelPayloadLocation]",
  "setHashEnvelopeProtectedHeader: header[HeaderLabelPayloadPreimageContentType]",
  "validateHeaderParameters: existing[label]"
]

end Expected

namespace C13
/-- source facts `table_validateHeaderParameters` equal the reviewed baseline -/
theorem facts_table_validateHeaderParameters : Facts.table_validateHeaderParameters = Expected.table_validateHeaderParameters := rfl
/-- source facts `table_normalizeLabel` equal the reviewed baseline -/
theorem facts_table_normalizeLabel : Facts.table_normalizeLabel = Expected.table_normalizeLabel := rfl
/-- source facts `table_canUint` equal the reviewed baseline -/
theorem facts_table_canUint : Facts.table_canUint = Expected.table_canUint := rfl
/-- source facts `table_canInt` equal the reviewed baseline -/
theorem facts_table_canInt : Facts.table_canInt = Expected.table_canInt := rfl
end C13

namespace C12
/-- source facts `table_validateHashEnvelopeHeaders` equal the reviewed baseline -/
theorem facts_table_validateHashEnvelopeHeaders : Facts.table_validateHashEnvelopeHeaders = Expected.table_validateHashEnvelopeHeaders := rfl
/-- source facts `table_ProtectedHeader_PayloadHashAlgorithm` equal the reviewed baseline -/
theorem facts_table_ProtectedHeader_PayloadHashAlgorithm : Facts.table_ProtectedHeader_PayloadHashAlgorithm = Expected.table_ProtectedHeader_PayloadHashAlgorithm := rfl
end C12

namespace C17
/-- source facts `table_NewSigner` equal the reviewed baseline -/
theorem facts_table_NewSigner : Facts.table_NewSigner = Expected.table_NewSigner := rfl
/-- source facts `table_NewVerifier` equal the reviewed baseline -/
theorem facts_table_NewVerifier : Facts.table_NewVerifier = Expected.table_NewVerifier := rfl
end C17

namespace C15
/-- source facts `table_Key_deriveAlgorithm` equal the reviewed baseline -/
theorem facts_table_Key_deriveAlgorithm : Facts.table_Key_deriveAlgorithm = Expected.table_Key_deriveAlgorithm := rfl
/-- source facts `table_curveSize` equal the reviewed baseline -/
theorem facts_table_curveSize : Facts.table_curveSize = Expected.table_curveSize := rfl
/-- source facts `table_KeyOpFromString` equal the reviewed baseline -/
theorem facts_table_KeyOpFromString : Facts.table_KeyOpFromString = Expected.table_KeyOpFromString := rfl
/-- source facts `table_Key_validate` equal the reviewed baseline -/
theorem facts_table_Key_validate : Facts.table_Key_validate = Expected.table_Key_validate := rfl
/-- source facts `table_Key_UnmarshalCBOR` equal the reviewed baseline -/
theorem facts_table_Key_UnmarshalCBOR : Facts.table_Key_UnmarshalCBOR = Expected.table_Key_UnmarshalCBOR := rfl
end C15

namespace C04
/-- source facts `table_ProtectedHeader_Algorithm` equal the reviewed baseline -/
theorem facts_table_ProtectedHeader_Algorithm : Facts.table_ProtectedHeader_Algorithm = Expected.table_ProtectedHeader_Algorithm := rfl
/-- source facts `table_Headers_ensureSigningAlgorithm` equal the reviewed baseline -/
theorem facts_table_Headers_ensureSigningAlgorithm : Facts.table_Headers_ensureSigningAlgorithm = Expected.table_Headers_ensureSigningAlgorithm := rfl
/-- source facts `table_Headers_ensureVerificationAlgorithm` equal the reviewed baseline -/
theorem facts_table_Headers_ensureVerificationAlgorithm : Facts.table_Headers_ensureVerificationAlgorithm = Expected.table_Headers_ensureVerificationAlgorithm := rfl
end C04

namespace C10
/-- source facts `table_countersignToBeSigned` equal the reviewed baseline -/
theorem facts_table_countersignToBeSigned : Facts.table_countersignToBeSigned = Expected.table_countersignToBeSigned := rfl
end C10

namespace C18
/-- source facts `writeSites` equal the reviewed baseline -/
theorem facts_writeSites : Facts.writeSites = Expected.writeSites := rfl
end C18
