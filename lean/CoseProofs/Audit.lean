/-
  #audit NS — print every theorem whose name lies in namespace NS together with the axioms it
  depends on (one line each: `AUDIT <name> [<axioms>]`).  The check counts these lines: they are
  the proof obligations of a property, measured, not declared.
-/
import Lean
open Lean Elab Command

elab "#audit " ns:ident : command => do
  let env ← getEnv
  let nsName := ns.getId
  let mut names : Array Name := #[]
  for (n, ci) in env.constants.map₁.toList do
    if nsName.isPrefixOf n && !n.isInternal then
      match ci with
      | .thmInfo _ => names := names.push n
      | _ => pure ()
  for (n, ci) in env.constants.map₂.toList do
    if nsName.isPrefixOf n && !n.isInternal then
      match ci with
      | .thmInfo _ => names := names.push n
      | _ => pure ()
  let sorted := names.qsort (fun a b => a.toString < b.toString)
  for n in sorted do
    let axs ← liftCoreM (collectAxioms n)
    let axs := axs.qsort (fun a b => a.toString < b.toString)
    IO.println s!"AUDIT {n} [{",".intercalate (axs.toList.map toString)}]"
