/-
  CoseProofs.Lemmas.Ecdsa — I2OSP / OS2IP round trips and the fixed-width r‖s ECDSA
  signature codec (RFC 9053 §2.1), plus the EC2 coordinate left-padding facts.
  Core Lean only.
-/
import CoseModel.Ecdsa
namespace CoseModel

/-! ### os2ip basics -/

@[simp] theorem os2ip_nil : os2ip [] = 0 := rfl

theorem os2ip_append_singleton (b : Bytes) (x : UInt8) :
    os2ip (b ++ [x]) = os2ip b * 256 + x.toNat := by
  simp [os2ip, List.foldl_append]

/-- right-to-left induction principle for byte strings (core-only replacement of
    `List.reverseRecOn`) -/
theorem bytes_snoc_induction {P : Bytes → Prop} (nil : P [])
    (snoc : ∀ (b : Bytes) (x : UInt8), P b → P (b ++ [x])) (b : Bytes) : P b := by
  have h : ∀ l : List UInt8, P l.reverse := by
    intro l
    induction l with
    | nil => exact nil
    | cons a t ih => rw [List.reverse_cons]; exact snoc _ _ ih
  have := h b.reverse
  rwa [List.reverse_reverse] at this

theorem pow256_eq (len : Nat) : 256 ^ len = 2 ^ (len * 8) := by
  rw [Nat.mul_comm, Nat.pow_mul]

/-! ### 1–3: fillBytes / os2ip round trips -/

theorem fillBytes_length (len x : Nat) : (fillBytes len x).length = len := by
  induction len generalizing x with
  | zero => rfl
  | succ n ih => simp [fillBytes, ih]

theorem os2ip_fillBytes (len x : Nat) (h : x < 256 ^ len) : os2ip (fillBytes len x) = x := by
  induction len generalizing x with
  | zero =>
    simp only [Nat.pow_zero] at h
    simp only [fillBytes, os2ip_nil]
    omega
  | succ n ih =>
    have h' : x / 256 < 256 ^ n := by
      rw [Nat.pow_succ] at h
      omega
    rw [fillBytes, os2ip_append_singleton, ih (x / 256) h', UInt8.toNat_ofNat']
    omega

theorem os2ip_lt (b : Bytes) : os2ip b < 256 ^ b.length := by
  induction b using bytes_snoc_induction with
  | nil => simp
  | snoc b x ih =>
    have hx : x.toNat < 256 := x.toNat_lt
    rw [os2ip_append_singleton, List.length_append, List.length_singleton, Nat.pow_succ]
    omega

theorem fillBytes_os2ip (b : Bytes) : fillBytes b.length (os2ip b) = b := by
  induction b using bytes_snoc_induction with
  | nil => rfl
  | snoc b x ih =>
    have hx : x.toNat < 256 := x.toNat_lt
    rw [os2ip_append_singleton, List.length_append, List.length_singleton, fillBytes]
    have h1 : (os2ip b * 256 + x.toNat) / 256 = os2ip b := by omega
    have h2 : (os2ip b * 256 + x.toNat) % 256 = x.toNat := by omega
    rw [h1, h2, ih, UInt8.ofNat_toNat]

/-! ### 4: BitLen bound -/

theorem bitLen_le_iff_two_pow (x k : Nat) : bitLen x ≤ k ↔ x < 2 ^ k := by
  unfold bitLen
  by_cases hx : x = 0
  · subst hx
    simp [Nat.pow_pos]
  · rw [if_neg hx, ← Nat.log2_lt hx]
    omega

theorem bitLen_le_iff (x len : Nat) : bitLen x ≤ len * 8 ↔ x < 256 ^ len := by
  rw [pow256_eq]
  exact bitLen_le_iff_two_pow x (len * 8)

/-! ### 5: I2OSP -/

theorem i2osp_eq_some_iff (x : Int) (len : Nat) (b : Bytes) :
    i2osp x len = some b ↔ 0 ≤ x ∧ x.toNat < 256 ^ len ∧ b = fillBytes len x.toNat := by
  unfold i2osp
  by_cases hneg : x < 0
  · rw [if_pos hneg]
    constructor
    · intro h; cases h
    · intro h; omega
  · rw [if_neg hneg]
    by_cases hbig : bitLen x.toNat > len * 8
    · rw [if_pos hbig]
      have : ¬ x.toNat < 256 ^ len := by
        rw [← bitLen_le_iff]; omega
      constructor
      · intro h; cases h
      · intro h; exact absurd h.2.1 this
    · rw [if_neg hbig]
      have hfit : x.toNat < 256 ^ len := by
        rw [← bitLen_le_iff]; omega
      constructor
      · intro h
        refine ⟨by omega, hfit, ?_⟩
        exact (Option.some.inj h).symm
      · intro h
        rw [h.2.2]

theorem i2osp_isSome_iff (x : Int) (len : Nat) :
    (i2osp x len).isSome ↔ 0 ≤ x ∧ x.toNat < 256 ^ len := by
  constructor
  · intro h
    obtain ⟨b, hb⟩ := Option.isSome_iff_exists.mp h
    have := (i2osp_eq_some_iff x len b).mp hb
    exact ⟨this.1, this.2.1⟩
  · intro h
    rw [(i2osp_eq_some_iff x len _).mpr ⟨h.1, h.2, rfl⟩]
    rfl

theorem i2osp_of_fits (x : Int) (len : Nat) (h0 : 0 ≤ x) (h : x.toNat < 256 ^ len) :
    i2osp x len = some (fillBytes len x.toNat) :=
  (i2osp_eq_some_iff x len _).mpr ⟨h0, h, rfl⟩

/-! ### 6–12: the fixed-width signature codec -/

theorem encode_eq_some_iff (n : Nat) (r s : Int) (sig : Bytes) :
    encodeECDSASignature n r s = some sig ↔
      (0 ≤ r ∧ r.toNat < 256 ^ n) ∧ (0 ≤ s ∧ s.toNat < 256 ^ n) ∧
        sig = fillBytes n r.toNat ++ fillBytes n s.toNat := by
  unfold encodeECDSASignature
  constructor
  · intro h
    split at h
    · rename_i a b ha hb
      have ha' := (i2osp_eq_some_iff r n a).mp ha
      have hb' := (i2osp_eq_some_iff s n b).mp hb
      refine ⟨⟨ha'.1, ha'.2.1⟩, ⟨hb'.1, hb'.2.1⟩, ?_⟩
      rw [← ha'.2.2, ← hb'.2.2]
      exact (Option.some.inj h).symm
    · cases h
  · rintro ⟨⟨hr0, hr⟩, ⟨hs0, hs⟩, rfl⟩
    rw [i2osp_of_fits r n hr0 hr, i2osp_of_fits s n hs0 hs]

theorem encode_ok_iff (n : Nat) (r s : Int) :
    (encodeECDSASignature n r s).isSome ↔
      (0 ≤ r ∧ r.toNat < 256 ^ n) ∧ (0 ≤ s ∧ s.toNat < 256 ^ n) := by
  constructor
  · intro h
    obtain ⟨sig, hsig⟩ := Option.isSome_iff_exists.mp h
    have := (encode_eq_some_iff n r s sig).mp hsig
    exact ⟨this.1, this.2.1⟩
  · intro h
    rw [(encode_eq_some_iff n r s _).mpr ⟨h.1, h.2, rfl⟩]
    rfl

theorem encode_fixed_width (n : Nat) (r s : Int) (sig : Bytes)
    (h : encodeECDSASignature n r s = some sig) :
    sig.length = 2 * n ∧ sig.take n = fillBytes n r.toNat ∧ sig.drop n = fillBytes n s.toNat := by
  obtain ⟨_, _, rfl⟩ := (encode_eq_some_iff n r s sig).mp h
  have hl := fillBytes_length n r.toNat
  refine ⟨?_, ?_, ?_⟩
  · rw [List.length_append, fillBytes_length, fillBytes_length]; omega
  · exact List.take_left' hl
  · exact List.drop_left' hl

theorem decode_strict (n : Nat) (sig : Bytes) :
    (decodeECDSASignature n sig).isSome ↔ sig.length = 2 * n := by
  unfold decodeECDSASignature
  by_cases h : sig.length = n * 2
  · simp [h]; omega
  · simp [h]; omega

theorem decode_eq_some_iff (n : Nat) (sig : Bytes) (p : Nat × Nat) :
    decodeECDSASignature n sig = some p ↔
      sig.length = 2 * n ∧ os2ip (sig.take n) = p.1 ∧ os2ip (sig.drop n) = p.2 := by
  unfold decodeECDSASignature
  by_cases h : sig.length = n * 2
  · have h2 : sig.length = 2 * n := by omega
    rw [if_neg (by simpa using h)]
    constructor
    · intro e
      have := Option.some.inj e
      subst this
      exact ⟨h2, rfl, rfl⟩
    · rintro ⟨_, h1, h3⟩
      rw [h1, h3]
  · rw [if_pos h]
    constructor
    · intro e; cases e
    · intro e; omega

theorem decode_encode (n : Nat) (r s : Int) (sig : Bytes)
    (h : encodeECDSASignature n r s = some sig) :
    decodeECDSASignature n sig = some (r.toNat, s.toNat) := by
  have hfit := (encode_eq_some_iff n r s sig).mp h
  obtain ⟨hlen, htake, hdrop⟩ := encode_fixed_width n r s sig h
  rw [decode_eq_some_iff]
  refine ⟨hlen, ?_, ?_⟩
  · rw [htake]; exact os2ip_fillBytes n _ hfit.1.2
  · rw [hdrop]; exact os2ip_fillBytes n _ hfit.2.1.2

theorem encode_decode (n : Nat) (sig : Bytes) (r s : Nat)
    (h : decodeECDSASignature n sig = some (r, s)) :
    encodeECDSASignature n (r : Int) (s : Int) = some sig := by
  obtain ⟨hlen, hr, hs⟩ := (decode_eq_some_iff n sig (r, s)).mp h
  simp only at hr hs
  have htl : (sig.take n).length = n := by rw [List.length_take]; omega
  have hdl : (sig.drop n).length = n := by rw [List.length_drop]; omega
  have hrlt : r < 256 ^ n := by
    have := os2ip_lt (sig.take n)
    rwa [hr, htl] at this
  have hslt : s < 256 ^ n := by
    have := os2ip_lt (sig.drop n)
    rwa [hs, hdl] at this
  have hrb : fillBytes n r = sig.take n := by
    have := fillBytes_os2ip (sig.take n)
    rwa [hr, htl] at this
  have hsb : fillBytes n s = sig.drop n := by
    have := fillBytes_os2ip (sig.drop n)
    rwa [hs, hdl] at this
  rw [encode_eq_some_iff]
  refine ⟨⟨Int.natCast_nonneg r, ?_⟩, ⟨Int.natCast_nonneg s, ?_⟩, ?_⟩
  · simpa using hrlt
  · simpa using hslt
  · rw [Int.toNat_natCast, Int.toNat_natCast, hrb, hsb, List.take_append_drop]

theorem decode_injective {p : Nat × Nat} (n : Nat) (a b : Bytes)
    (ha : decodeECDSASignature n a = some p) (hb : decodeECDSASignature n b = some p) : a = b := by
  obtain ⟨r, s⟩ := p
  have h1 := encode_decode n a r s ha
  have h2 := encode_decode n b r s hb
  rw [h1] at h2
  exact Option.some.inj h2

theorem encode_neg (n : Nat) (r s : Int) (h : r < 0 ∨ s < 0) :
    encodeECDSASignature n r s = none := by
  cases hres : encodeECDSASignature n r s with
  | none => rfl
  | some sig =>
    have := (encode_eq_some_iff n r s sig).mp hres
    omega

/-! ### 13: `big.Int.Bytes()` and EC2 coordinate left-padding -/

theorem natBytes_zero : natBytes 0 = [] := by
  rw [natBytes]; rfl

theorem natBytes_pos (x : Nat) (hx : x ≠ 0) :
    natBytes x = natBytes (x / 256) ++ [UInt8.ofNat (x % 256)] := by
  rw [natBytes, dif_neg hx]

theorem os2ip_natBytes (x : Nat) : os2ip (natBytes x) = x := by
  induction x using Nat.strongRecOn with
  | _ x ih =>
    by_cases hx : x = 0
    · subst hx; rw [natBytes_zero]; rfl
    · rw [natBytes_pos x hx, os2ip_append_singleton, ih (x / 256) (by omega), UInt8.toNat_ofNat']
      omega

theorem natBytes_length_le (x len : Nat) (h : x < 256 ^ len) : (natBytes x).length ≤ len := by
  induction len generalizing x with
  | zero =>
    simp only [Nat.pow_zero] at h
    have : x = 0 := by omega
    subst this
    rw [natBytes_zero]
    exact Nat.le_refl _
  | succ n ih =>
    by_cases hx : x = 0
    · subst hx; rw [natBytes_zero]; exact Nat.zero_le _
    · have h' : x / 256 < 256 ^ n := by
        rw [Nat.pow_succ] at h
        omega
      have := ih (x / 256) h'
      rw [natBytes_pos x hx, List.length_append, List.length_singleton]
      omega

theorem natBytes_length_pos (x : Nat) (hx : 0 < x) : 0 < (natBytes x).length := by
  rw [natBytes_pos x (by omega), List.length_append, List.length_singleton]
  omega

theorem os2ip_cons_zero (b : Bytes) : os2ip (0 :: b) = os2ip b := by
  simp [os2ip]

theorem os2ip_replicate_zero (k : Nat) (b : Bytes) :
    os2ip (List.replicate k 0 ++ b) = os2ip b := by
  induction k with
  | zero => simp
  | succ k ih => rw [List.replicate_succ, List.cons_append, os2ip_cons_zero, ih]

/-- `FillBytes` is `Bytes()` zero-extended on the left. -/
theorem fillBytes_eq_pad (size x : Nat) (h : x < 256 ^ size) :
    fillBytes size x = List.replicate (size - (natBytes x).length) 0 ++ natBytes x := by
  have hle := natBytes_length_le x size h
  have hlen : (List.replicate (size - (natBytes x).length) (0 : UInt8) ++ natBytes x).length
      = size := by
    rw [List.length_append, List.length_replicate]; omega
  have := fillBytes_os2ip (List.replicate (size - (natBytes x).length) 0 ++ natBytes x)
  rwa [hlen, os2ip_replicate_zero, os2ip_natBytes] at this

theorem leftPad_natBytes (size x : Nat) (hx : 0 < x) (h : x < 256 ^ size) :
    leftPad size (natBytes x) = fillBytes size x := by
  have hpos := natBytes_length_pos x hx
  have hle := natBytes_length_le x size h
  rw [fillBytes_eq_pad size x h]
  unfold leftPad
  by_cases hlt : (natBytes x).length < size
  · rw [if_pos ⟨hpos, hlt⟩]
  · rw [if_neg (fun hc => hlt hc.2)]
    have : size - (natBytes x).length = 0 := by omega
    rw [this]
    rfl

theorem leftPad_natBytes_length (size x : Nat) (hx : 0 < x) (h : x < 256 ^ size) :
    (leftPad size (natBytes x)).length = size := by
  rw [leftPad_natBytes size x hx h, fillBytes_length]

theorem os2ip_leftPad (size : Nat) (b : Bytes) : os2ip (leftPad size b) = os2ip b := by
  unfold leftPad
  split
  · exact os2ip_replicate_zero _ _
  · rfl

/-- a byte string already at the target size is left alone by the padding -/
theorem leftPad_of_length_eq (size : Nat) (b : Bytes) (h : b.length = size) : leftPad size b = b := by
  unfold leftPad
  rw [if_neg (fun hc => by omega)]

/-- `FillBytes` output is already at full width (0 included): padding it changes nothing -/
theorem leftPad_fillBytes (size x : Nat) : leftPad size (fillBytes size x) = fillBytes size x :=
  leftPad_of_length_eq size _ (fillBytes_length size x)

/-- `Bytes()` of a number is no longer than `size` exactly when the number fits `size` octets -/
theorem natBytes_length_le_iff (x size : Nat) : (natBytes x).length ≤ size ↔ x < 256 ^ size := by
  constructor
  · intro h
    have h1 := os2ip_lt (natBytes x)
    rw [os2ip_natBytes] at h1
    exact Nat.lt_of_lt_of_le h1 (Nat.pow_le_pow_right (by decide) h)
  · exact natBytes_length_le x size

/-- `FillBytes` of 0 is all zeros -/
theorem fillBytes_zero (size : Nat) : fillBytes size 0 = List.replicate size 0 := by
  induction size with
  | zero => rfl
  | succ n ih =>
    rw [fillBytes, Nat.zero_div, ih, List.replicate_succ']
    rfl

/-! ### non-vacuity -/

example : encodeECDSASignature 2 1 258 = some [0, 1, 1, 2] := by decide
example : decodeECDSASignature 2 [0, 1, 1, 2] = some (1, 258) := by decide
example : decodeECDSASignature 2 [0, 1, 1] = none := by decide
example : decodeECDSASignature 2 [0, 0, 1, 1, 2] = none := by decide
example : encodeECDSASignature 1 256 1 = none := by decide
example : encodeECDSASignature 1 255 0 = some [255, 0] := by decide
example : encodeECDSASignature 2 (-1) 5 = none := by decide
example : encodeECDSASignature 0 0 0 = some [] := by decide
example : i2osp 65535 2 = some [255, 255] := by decide
example : i2osp 65536 2 = none := by decide
example : bitLen 255 = 8 ∧ bitLen 256 = 9 := by decide
example : natBytes 258 = [1, 2] := by
  simp [natBytes]
example : leftPad 4 (natBytes 258) = [0, 0, 1, 2] := by
  simp [natBytes, leftPad]
example : leftPad 4 (natBytes 0) = [] := by
  simp [natBytes, leftPad]
example : leftPad 1 (natBytes 258) = [1, 2] := by
  simp [natBytes, leftPad]

end CoseModel
