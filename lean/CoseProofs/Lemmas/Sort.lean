/-
  CoseProofs.Lemmas.Sort — the bytewise order on encoded map keys is a strict total order,
  and `sortPairs` (fxamacker `SortCoreDeterministic`) yields an output that does not depend on
  the (random) Go map iteration order when keys are distinct.  Core Lean only.
-/
import CoseModel.GoVal
namespace CoseModel

/-! ### `bytesLt` / `bytesLe` : lexicographic order on `List UInt8` -/

@[simp] theorem bytesLt_nil_nil : bytesLt [] [] = false := rfl
@[simp] theorem bytesLt_nil_cons (b : UInt8) (bs : Bytes) : bytesLt [] (b :: bs) = true := rfl
@[simp] theorem bytesLt_cons_nil (a : UInt8) (as : Bytes) : bytesLt (a :: as) [] = false := rfl

theorem bytesLt_cons_cons (a b : UInt8) (as bs : Bytes) :
    bytesLt (a :: as) (b :: bs) = true ↔ (a < b ∨ (a = b ∧ bytesLt as bs = true)) := by
  simp only [bytesLt]
  by_cases h1 : a < b
  · simp [h1]
  · by_cases h2 : b < a
    · have hne : a ≠ b := by
        intro h; subst h; exact UInt8.lt_irrefl _ h2
      simp [h1, h2, hne]
    · have he : a = b := UInt8.le_antisymm (UInt8.not_lt.mp h2) (UInt8.not_lt.mp h1)
      simp [he]

theorem bytesLt_irrefl (a : Bytes) : bytesLt a a = false := by
  induction a with
  | nil => rfl
  | cons x xs ih =>
    cases h : bytesLt (x :: xs) (x :: xs) with
    | false => rfl
    | true =>
      rcases (bytesLt_cons_cons x x xs xs).mp h with h1 | ⟨_, h2⟩
      · exact absurd h1 (UInt8.lt_irrefl x)
      · rw [ih] at h2; cases h2

theorem bytesLt_trans {a b c : Bytes} (h1 : bytesLt a b = true) (h2 : bytesLt b c = true) :
    bytesLt a c = true := by
  induction a generalizing b c with
  | nil =>
    cases c with
    | nil => cases b <;> simp_all
    | cons z zs => rfl
  | cons x xs ih =>
    cases b with
    | nil => simp at h1
    | cons y ys =>
      cases c with
      | nil => simp at h2
      | cons z zs =>
        rw [bytesLt_cons_cons] at h1 h2 ⊢
        rcases h1 with h1 | ⟨e1, h1⟩
        · rcases h2 with h2 | ⟨e2, _⟩
          · exact Or.inl (UInt8.lt_trans h1 h2)
          · subst e2; exact Or.inl h1
        · subst e1
          rcases h2 with h2 | ⟨e2, h2⟩
          · exact Or.inl h2
          · exact Or.inr ⟨e2, ih h1 h2⟩

theorem bytesLt_asymm {a b : Bytes} (h : bytesLt a b = true) : bytesLt b a = false := by
  cases h' : bytesLt b a with
  | false => rfl
  | true =>
    have := bytesLt_trans h h'
    rw [bytesLt_irrefl] at this
    cases this

theorem bytesLt_trichotomy (a b : Bytes) : bytesLt a b = true ∨ a = b ∨ bytesLt b a = true := by
  induction a generalizing b with
  | nil =>
    cases b with
    | nil => exact Or.inr (Or.inl rfl)
    | cons y ys => exact Or.inl rfl
  | cons x xs ih =>
    cases b with
    | nil => exact Or.inr (Or.inr rfl)
    | cons y ys =>
      rw [bytesLt_cons_cons, bytesLt_cons_cons]
      by_cases h1 : x < y
      · exact Or.inl (Or.inl h1)
      · by_cases h2 : y < x
        · exact Or.inr (Or.inr (Or.inl h2))
        · have he : x = y := UInt8.le_antisymm (UInt8.not_lt.mp h2) (UInt8.not_lt.mp h1)
          subst he
          rcases ih ys with h | h | h
          · exact Or.inl (Or.inr ⟨rfl, h⟩)
          · subst h; exact Or.inr (Or.inl rfl)
          · exact Or.inr (Or.inr (Or.inr ⟨rfl, h⟩))

theorem bytesLe_iff_not_lt (a b : Bytes) : bytesLe a b = true ↔ bytesLt b a = false := by
  simp [bytesLe]

theorem bytesLe_refl (a : Bytes) : bytesLe a a = true := by
  simp [bytesLe, bytesLt_irrefl]

theorem bytesLe_of_lt {a b : Bytes} (h : bytesLt a b = true) : bytesLe a b = true := by
  simp [bytesLe, bytesLt_asymm h]

theorem bytesLe_total (a b : Bytes) : bytesLe a b = true ∨ bytesLe b a = true := by
  rcases bytesLt_trichotomy a b with h | h | h
  · exact Or.inl (bytesLe_of_lt h)
  · subst h; exact Or.inl (bytesLe_refl a)
  · exact Or.inr (bytesLe_of_lt h)

theorem bytesLe_antisymm {a b : Bytes} (h1 : bytesLe a b = true) (h2 : bytesLe b a = true) :
    a = b := by
  rw [bytesLe_iff_not_lt] at h1 h2
  rcases bytesLt_trichotomy a b with h | h | h
  · rw [h2] at h; cases h
  · exact h
  · rw [h1] at h; cases h

/-- `a ≤ b` iff `a < b` or `a = b`. -/
theorem bytesLe_iff_lt_or_eq (a b : Bytes) : bytesLe a b = true ↔ (bytesLt a b = true ∨ a = b) := by
  constructor
  · intro h
    rw [bytesLe_iff_not_lt] at h
    rcases bytesLt_trichotomy a b with h' | h' | h'
    · exact Or.inl h'
    · exact Or.inr h'
    · rw [h] at h'; cases h'
  · rintro (h | h)
    · exact bytesLe_of_lt h
    · subst h; exact bytesLe_refl a

theorem bytesLe_trans {a b c : Bytes} (h1 : bytesLe a b = true) (h2 : bytesLe b c = true) :
    bytesLe a c = true := by
  rw [bytesLe_iff_lt_or_eq] at h1 h2 ⊢
  rcases h1 with h1 | h1
  · rcases h2 with h2 | h2
    · exact Or.inl (bytesLt_trans h1 h2)
    · subst h2; exact Or.inl h1
  · subst h1; exact h2

theorem bytesLt_of_le_of_ne {a b : Bytes} (h : bytesLe a b = true) (hne : a ≠ b) :
    bytesLt a b = true := by
  rcases (bytesLe_iff_lt_or_eq a b).mp h with h | h
  · exact h
  · exact absurd h hne

/-! ### the key comparison used by `sortPairs` -/

/-- The comparison `sortPairs` hands to `mergeSort`. -/
abbrev keyLe (a b : Bytes × Bytes) : Bool := bytesLe a.1 b.1

theorem keyLe_trans (a b c : Bytes × Bytes) : keyLe a b = true → keyLe b c = true → keyLe a c = true :=
  fun h1 h2 => bytesLe_trans h1 h2

theorem keyLe_total (a b : Bytes × Bytes) : (keyLe a b || keyLe b a) = true := by
  rcases bytesLe_total a.1 b.1 with h | h <;> simp [keyLe, h]

/-- With distinct keys, an entry is determined by its key. -/
theorem eq_of_fst_eq_of_nodup {l : List (Bytes × Bytes)} (hd : (l.map Prod.fst).Nodup)
    {a b : Bytes × Bytes} (ha : a ∈ l) (hb : b ∈ l) (h : a.1 = b.1) : a = b := by
  induction l with
  | nil => cases ha
  | cons x xs ih =>
    rw [List.map_cons, List.nodup_cons] at hd
    rcases List.mem_cons.mp ha with ha1 | ha1
    · rcases List.mem_cons.mp hb with hb1 | hb1
      · rw [ha1, hb1]
      · subst ha1
        exact absurd (h ▸ List.mem_map_of_mem (f := Prod.fst) hb1) hd.1
    · rcases List.mem_cons.mp hb with hb1 | hb1
      · subst hb1
        exact absurd (h ▸ List.mem_map_of_mem (f := Prod.fst) ha1) hd.1
      · exact ih hd.2 ha1 hb1

/-! ### `sortPairs` -/

theorem sortPairs_perm (l : List (Bytes × Bytes)) : (sortPairs l).Perm l :=
  List.mergeSort_perm l _

theorem sortPairs_length (l : List (Bytes × Bytes)) : (sortPairs l).length = l.length :=
  (sortPairs_perm l).length_eq

theorem mem_sortPairs (l : List (Bytes × Bytes)) (x : Bytes × Bytes) : x ∈ sortPairs l ↔ x ∈ l :=
  (sortPairs_perm l).mem_iff

theorem sortPairs_sorted (l : List (Bytes × Bytes)) :
    (sortPairs l).Pairwise (fun a b => bytesLe a.1 b.1 = true) :=
  List.pairwise_mergeSort (le := fun a b => bytesLe a.1 b.1) keyLe_trans keyLe_total l

theorem sortPairs_keys_nodup (l : List (Bytes × Bytes)) (hd : (l.map Prod.fst).Nodup) :
    ((sortPairs l).map Prod.fst).Nodup :=
  (((sortPairs_perm l).map Prod.fst).nodup_iff).mpr hd

/-- With distinct keys the output keys are strictly increasing bytewise
    (canonical CBOR: sorted, no duplicate keys). -/
theorem sortPairs_strict (l : List (Bytes × Bytes)) (hd : (l.map Prod.fst).Nodup) :
    (sortPairs l).Pairwise (fun a b => bytesLt a.1 b.1 = true) := by
  have hs := sortPairs_sorted l
  have hn : (sortPairs l).Pairwise (fun a b => a.1 ≠ b.1) := by
    have := sortPairs_keys_nodup l hd
    rw [List.Nodup, List.pairwise_map] at this
    exact this
  exact (hs.and hn).imp (fun h => bytesLt_of_le_of_ne h.1 h.2)

/-- MAIN: the sorted entry list is independent of the input (iteration) order. -/
theorem sortPairs_perm_invariant (l l' : List (Bytes × Bytes)) (hp : l.Perm l')
    (hd : (l.map Prod.fst).Nodup) : sortPairs l = sortPairs l' := by
  have hperm : (sortPairs l).Perm (sortPairs l') :=
    (sortPairs_perm l).trans (hp.trans (sortPairs_perm l').symm)
  refine List.Perm.eq_of_pairwise (le := fun a b => bytesLe a.1 b.1 = true) ?_
    (sortPairs_sorted l) (sortPairs_sorted l') hperm
  intro a b ha hb hab hba
  have ha' : a ∈ l := (mem_sortPairs l a).mp ha
  have hb' : b ∈ l := hp.mem_iff.mpr ((mem_sortPairs l' b).mp hb)
  exact eq_of_fst_eq_of_nodup hd ha' hb' (bytesLe_antisymm hab hba)

theorem concat_sortPairs_perm_invariant (l l' : List (Bytes × Bytes)) (hp : l.Perm l')
    (hd : (l.map Prod.fst).Nodup) :
    concatPairs (sortPairs l) = concatPairs (sortPairs l') := by
  rw [sortPairs_perm_invariant l l' hp hd]

theorem sortPairs_of_sorted (l : List (Bytes × Bytes))
    (h : l.Pairwise (fun a b => bytesLe a.1 b.1 = true)) : sortPairs l = l :=
  List.mergeSort_of_pairwise (le := fun (a b : Bytes × Bytes) => bytesLe a.1 b.1) h

theorem sortPairs_idem (l : List (Bytes × Bytes)) : sortPairs (sortPairs l) = sortPairs l :=
  sortPairs_of_sorted _ (sortPairs_sorted l)

end CoseModel
