/-
  CoseProofs.Lemmas.TagScan — the byte-level scan for tag 55799 (`CoseModel.TagScan`, the
  transcription of headers.go:829-920) computes, on the bytes of a well-formed wire tree, the
  structural predicates `Wire.hasSelfDescribed` / `Wire.pairsUntagged`.
-/
import CoseModel.TagScan
import CoseProofs.Lemmas.Parse
namespace CoseModel

theorem byteAt_toArray (D : Bytes) (i : Nat) : byteAt D.toArray i = (D[i]?.getD 0).toNat := by
  simp [byteAt]

theorem byteAt_append_right (pre l : Bytes) (i : Nat) :
    byteAt (pre ++ l).toArray (pre.length + i) = byteAt l.toArray i := by
  simp [byteAt_toArray, List.getElem?_append_right]

theorem shl8_or (n b : Nat) (h : b < 256) : n <<< 8 ||| b = n * 256 + b := by
  rw [← Nat.shiftLeft_add_eq_or_of_lt (by simpa using h)]; simp [Nat.shiftLeft_eq]

theorem byteAt_pre (pre l : Bytes) (i : Nat) :
    byteAt (pre ++ l).toArray (pre.length + i) = (l[i]?.getD 0).toNat := by
  rw [byteAt_append_right, byteAt_toArray]

theorem byteAt_pre0 (pre l : Bytes) :
    byteAt (pre ++ l).toArray pre.length = (l[0]?.getD 0).toNat := by
  have := byteAt_pre pre l 0
  simpa using this

theorem shl8_or_mod (n b : Nat) : n <<< 8 ||| b % 256 = n * 256 + b % 256 :=
  shl8_or n (b % 256) (Nat.mod_lt _ (by decide))

theorem size_pre (pre l : Bytes) : (pre ++ l).toArray.size = pre.length + l.length := by simp

/-- the head of an item, read where it stands in a larger byte string -/
theorem head_at (pre rest : Bytes) (m n : Nat) (w : HW) (hm : m < 8) (hf : w.fits n = true) :
    byteAt (pre ++ (headBytes m w n ++ rest)).toArray pre.length / 32 = m ∧
    headArgumentA (pre ++ (headBytes m w n ++ rest)).toArray pre.length
      = (n, pre.length + (headBytes m w n).length) := by
  cases w <;> simp only [HW.fits, decide_eq_true_eq] at hf
  · have e0 : byteAt (pre ++ (headBytes m .imm n ++ rest)).toArray pre.length = (m * 32 + n) % 256 := by
      simp only [headBytes, byteAt_pre0, List.cons_append, List.getElem?_cons_zero, Option.getD_some,
        UInt8.toNat_ofNat', Nat.reducePow]
    have hs : (pre ++ (headBytes m .imm n ++ rest)).toArray.size = pre.length + (1 + rest.length) := by
      simp [headBytes]; omega
    have h1 : (m * 32 + n) % 256 / 32 = m := by omega
    have h2 : (m * 32 + n) % 256 % 32 = n := by omega
    refine ⟨by rw [e0, h1], ?_⟩
    simp only [headArgumentA, e0, h2, hs]
    rw [if_neg (by omega), if_pos (by omega)]
    simp only [headBytes, List.length_cons, List.length_nil]
  · have e0 : byteAt (pre ++ (headBytes m .w1 n ++ rest)).toArray pre.length = (m * 32 + 24) % 256 := by
      simp only [headBytes, byteAt_pre0, List.cons_append, List.getElem?_cons_zero, Option.getD_some,
        UInt8.toNat_ofNat', Nat.reducePow]
    have e1 : byteAt (pre ++ (headBytes m .w1 n ++ rest)).toArray (pre.length + 1) = (n) % 256 := by
      have : pre.length + 1 = pre.length + 1 := by omega
      rw [this]
      simp only [headBytes, byteAt_pre, List.cons_append, List.getElem?_cons_succ, List.getElem?_cons_zero,
        Option.getD_some, UInt8.toNat_ofNat', Nat.reducePow]
    have hs : (pre ++ (headBytes m .w1 n ++ rest)).toArray.size = pre.length + (2 + rest.length) := by
      simp [headBytes]; omega
    have h1 : (m * 32 + 24) % 256 / 32 = m := by omega
    have h2 : (m * 32 + 24) % 256 % 32 = 24 := by omega
    refine ⟨by rw [e0, h1], ?_⟩
    simp only [headArgumentA, e0, h2, hs]
    have hsh : (1 : Nat) <<< (24 - 24) = 1 := by decide
    rw [hsh, if_neg (by omega), if_neg (by omega), if_pos (by omega), if_neg (by omega)]
    simp only [beArgument, e1, shl8_or_mod]
    simp only [headBytes, List.length_cons, List.length_nil, Prod.mk.injEq,
      Nat.zero_mul, Nat.zero_add]
    clear e0 e1 hs h1 h2 hsh
    have hfirst : (n) % 256 = n := by omega
    rw [hfirst]
    refine ⟨by omega, ?_⟩
    first | trivial | omega
  · have e0 : byteAt (pre ++ (headBytes m .w2 n ++ rest)).toArray pre.length = (m * 32 + 25) % 256 := by
      simp only [headBytes, byteAt_pre0, List.cons_append, List.getElem?_cons_zero, Option.getD_some,
        UInt8.toNat_ofNat', Nat.reducePow]
    have e1 : byteAt (pre ++ (headBytes m .w2 n ++ rest)).toArray (pre.length + 1) = (n / 256) % 256 := by
      have : pre.length + 1 = pre.length + 1 := by omega
      rw [this]
      simp only [headBytes, byteAt_pre, List.cons_append, List.getElem?_cons_succ, List.getElem?_cons_zero,
        Option.getD_some, UInt8.toNat_ofNat', Nat.reducePow]
    have e2 : byteAt (pre ++ (headBytes m .w2 n ++ rest)).toArray (pre.length + 1 + 1) = (n % 256) % 256 := by
      have : pre.length + 1 + 1 = pre.length + 2 := by omega
      rw [this]
      simp only [headBytes, byteAt_pre, List.cons_append, List.getElem?_cons_succ, List.getElem?_cons_zero,
        Option.getD_some, UInt8.toNat_ofNat', Nat.reducePow]
    have hs : (pre ++ (headBytes m .w2 n ++ rest)).toArray.size = pre.length + (3 + rest.length) := by
      simp [headBytes]; omega
    have h1 : (m * 32 + 25) % 256 / 32 = m := by omega
    have h2 : (m * 32 + 25) % 256 % 32 = 25 := by omega
    refine ⟨by rw [e0, h1], ?_⟩
    simp only [headArgumentA, e0, h2, hs]
    have hsh : (1 : Nat) <<< (25 - 24) = 2 := by decide
    rw [hsh, if_neg (by omega), if_neg (by omega), if_pos (by omega), if_neg (by omega)]
    simp only [beArgument, e1, e2, shl8_or_mod]
    simp only [headBytes, List.length_cons, List.length_nil, Prod.mk.injEq, Nat.mod_mod,
      Nat.zero_mul, Nat.zero_add]
    clear e0 e1 e2 hs h1 h2 hsh
    have hfirst : (n / 256) % 256 = n / 256 := by omega
    rw [hfirst]
    refine ⟨by omega, ?_⟩
    first | trivial | omega
  · have e0 : byteAt (pre ++ (headBytes m .w4 n ++ rest)).toArray pre.length = (m * 32 + 26) % 256 := by
      simp only [headBytes, byteAt_pre0, List.cons_append, List.getElem?_cons_zero, Option.getD_some,
        UInt8.toNat_ofNat', Nat.reducePow]
    have e1 : byteAt (pre ++ (headBytes m .w4 n ++ rest)).toArray (pre.length + 1) = (n / 16777216) % 256 := by
      have : pre.length + 1 = pre.length + 1 := by omega
      rw [this]
      simp only [headBytes, byteAt_pre, List.cons_append, List.getElem?_cons_succ, List.getElem?_cons_zero,
        Option.getD_some, UInt8.toNat_ofNat', Nat.reducePow]
    have e2 : byteAt (pre ++ (headBytes m .w4 n ++ rest)).toArray (pre.length + 1 + 1) = (n / 65536 % 256) % 256 := by
      have : pre.length + 1 + 1 = pre.length + 2 := by omega
      rw [this]
      simp only [headBytes, byteAt_pre, List.cons_append, List.getElem?_cons_succ, List.getElem?_cons_zero,
        Option.getD_some, UInt8.toNat_ofNat', Nat.reducePow]
    have e3 : byteAt (pre ++ (headBytes m .w4 n ++ rest)).toArray (pre.length + 1 + 1 + 1) = (n / 256 % 256) % 256 := by
      have : pre.length + 1 + 1 + 1 = pre.length + 3 := by omega
      rw [this]
      simp only [headBytes, byteAt_pre, List.cons_append, List.getElem?_cons_succ, List.getElem?_cons_zero,
        Option.getD_some, UInt8.toNat_ofNat', Nat.reducePow]
    have e4 : byteAt (pre ++ (headBytes m .w4 n ++ rest)).toArray (pre.length + 1 + 1 + 1 + 1) = (n % 256) % 256 := by
      have : pre.length + 1 + 1 + 1 + 1 = pre.length + 4 := by omega
      rw [this]
      simp only [headBytes, byteAt_pre, List.cons_append, List.getElem?_cons_succ, List.getElem?_cons_zero,
        Option.getD_some, UInt8.toNat_ofNat', Nat.reducePow]
    have hs : (pre ++ (headBytes m .w4 n ++ rest)).toArray.size = pre.length + (5 + rest.length) := by
      simp [headBytes]; omega
    have h1 : (m * 32 + 26) % 256 / 32 = m := by omega
    have h2 : (m * 32 + 26) % 256 % 32 = 26 := by omega
    refine ⟨by rw [e0, h1], ?_⟩
    simp only [headArgumentA, e0, h2, hs]
    have hsh : (1 : Nat) <<< (26 - 24) = 4 := by decide
    rw [hsh, if_neg (by omega), if_neg (by omega), if_pos (by omega), if_neg (by omega)]
    simp only [beArgument, e1, e2, e3, e4, shl8_or_mod]
    simp only [headBytes, List.length_cons, List.length_nil, Prod.mk.injEq, Nat.mod_mod,
      Nat.zero_mul, Nat.zero_add]
    clear e0 e1 e2 e3 e4 hs h1 h2 hsh
    have hfirst : (n / 16777216) % 256 = n / 16777216 := by omega
    rw [hfirst]
    refine ⟨by omega, ?_⟩
    first | trivial | omega
  · have e0 : byteAt (pre ++ (headBytes m .w8 n ++ rest)).toArray pre.length = (m * 32 + 27) % 256 := by
      simp only [headBytes, byteAt_pre0, List.cons_append, List.getElem?_cons_zero, Option.getD_some,
        UInt8.toNat_ofNat', Nat.reducePow]
    have e1 : byteAt (pre ++ (headBytes m .w8 n ++ rest)).toArray (pre.length + 1) = (n / 72057594037927936) % 256 := by
      have : pre.length + 1 = pre.length + 1 := by omega
      rw [this]
      simp only [headBytes, byteAt_pre, List.cons_append, List.getElem?_cons_succ, List.getElem?_cons_zero,
        Option.getD_some, UInt8.toNat_ofNat', Nat.reducePow]
    have e2 : byteAt (pre ++ (headBytes m .w8 n ++ rest)).toArray (pre.length + 1 + 1) = (n / 281474976710656 % 256) % 256 := by
      have : pre.length + 1 + 1 = pre.length + 2 := by omega
      rw [this]
      simp only [headBytes, byteAt_pre, List.cons_append, List.getElem?_cons_succ, List.getElem?_cons_zero,
        Option.getD_some, UInt8.toNat_ofNat', Nat.reducePow]
    have e3 : byteAt (pre ++ (headBytes m .w8 n ++ rest)).toArray (pre.length + 1 + 1 + 1) = (n / 1099511627776 % 256) % 256 := by
      have : pre.length + 1 + 1 + 1 = pre.length + 3 := by omega
      rw [this]
      simp only [headBytes, byteAt_pre, List.cons_append, List.getElem?_cons_succ, List.getElem?_cons_zero,
        Option.getD_some, UInt8.toNat_ofNat', Nat.reducePow]
    have e4 : byteAt (pre ++ (headBytes m .w8 n ++ rest)).toArray (pre.length + 1 + 1 + 1 + 1) = (n / 4294967296 % 256) % 256 := by
      have : pre.length + 1 + 1 + 1 + 1 = pre.length + 4 := by omega
      rw [this]
      simp only [headBytes, byteAt_pre, List.cons_append, List.getElem?_cons_succ, List.getElem?_cons_zero,
        Option.getD_some, UInt8.toNat_ofNat', Nat.reducePow]
    have e5 : byteAt (pre ++ (headBytes m .w8 n ++ rest)).toArray (pre.length + 1 + 1 + 1 + 1 + 1) = (n / 16777216 % 256) % 256 := by
      have : pre.length + 1 + 1 + 1 + 1 + 1 = pre.length + 5 := by omega
      rw [this]
      simp only [headBytes, byteAt_pre, List.cons_append, List.getElem?_cons_succ, List.getElem?_cons_zero,
        Option.getD_some, UInt8.toNat_ofNat', Nat.reducePow]
    have e6 : byteAt (pre ++ (headBytes m .w8 n ++ rest)).toArray (pre.length + 1 + 1 + 1 + 1 + 1 + 1) = (n / 65536 % 256) % 256 := by
      have : pre.length + 1 + 1 + 1 + 1 + 1 + 1 = pre.length + 6 := by omega
      rw [this]
      simp only [headBytes, byteAt_pre, List.cons_append, List.getElem?_cons_succ, List.getElem?_cons_zero,
        Option.getD_some, UInt8.toNat_ofNat', Nat.reducePow]
    have e7 : byteAt (pre ++ (headBytes m .w8 n ++ rest)).toArray (pre.length + 1 + 1 + 1 + 1 + 1 + 1 + 1) = (n / 256 % 256) % 256 := by
      have : pre.length + 1 + 1 + 1 + 1 + 1 + 1 + 1 = pre.length + 7 := by omega
      rw [this]
      simp only [headBytes, byteAt_pre, List.cons_append, List.getElem?_cons_succ, List.getElem?_cons_zero,
        Option.getD_some, UInt8.toNat_ofNat', Nat.reducePow]
    have e8 : byteAt (pre ++ (headBytes m .w8 n ++ rest)).toArray (pre.length + 1 + 1 + 1 + 1 + 1 + 1 + 1 + 1) = (n % 256) % 256 := by
      have : pre.length + 1 + 1 + 1 + 1 + 1 + 1 + 1 + 1 = pre.length + 8 := by omega
      rw [this]
      simp only [headBytes, byteAt_pre, List.cons_append, List.getElem?_cons_succ, List.getElem?_cons_zero,
        Option.getD_some, UInt8.toNat_ofNat', Nat.reducePow]
    have hs : (pre ++ (headBytes m .w8 n ++ rest)).toArray.size = pre.length + (9 + rest.length) := by
      simp [headBytes]; omega
    have h1 : (m * 32 + 27) % 256 / 32 = m := by omega
    have h2 : (m * 32 + 27) % 256 % 32 = 27 := by omega
    refine ⟨by rw [e0, h1], ?_⟩
    simp only [headArgumentA, e0, h2, hs]
    have hsh : (1 : Nat) <<< (27 - 24) = 8 := by decide
    rw [hsh, if_neg (by omega), if_neg (by omega), if_pos (by omega), if_neg (by omega)]
    simp only [beArgument, e1, e2, e3, e4, e5, e6, e7, e8, shl8_or_mod]
    simp only [headBytes, List.length_cons, List.length_nil, Prod.mk.injEq, Nat.mod_mod,
      Nat.zero_mul, Nat.zero_add]
    clear e0 e1 e2 e3 e4 e5 e6 e7 e8 hs h1 h2 hsh
    have hfirst : (n / 72057594037927936) % 256 = n / 72057594037927936 := by omega
    rw [hfirst]
    refine ⟨by omega, ?_⟩
    first | trivial | omega

/-- one step of the scan, standing on the head of an item -/
theorem scanA_head (pre rest : Bytes) (m n : Nat) (w : HW) (hm : m < 8) (hf : w.fits n = true)
    (fuel : Nat) :
    scanA (pre ++ (headBytes m w n ++ rest)).toArray (fuel + 1) pre.length =
      (if m = 2 ∨ m = 3 then
         (if n > (pre ++ (headBytes m w n ++ rest)).toArray.size
                  - (pre.length + (headBytes m w n).length)
          then ((pre ++ (headBytes m w n ++ rest)).toArray.size, false)
          else (pre.length + (headBytes m w n).length + n, false))
       else if m = 4 ∨ m = 5 then
         scanLoop (scanA (pre ++ (headBytes m w n ++ rest)).toArray fuel)
           (pre ++ (headBytes m w n ++ rest)).toArray.size
           (if m = 5 then n * 2 % 18446744073709551616 else n)
           (pre.length + (headBytes m w n).length) false
       else if m = 6 then
         ((scanA (pre ++ (headBytes m w n ++ rest)).toArray fuel
            (pre.length + (headBytes m w n).length)).1,
          (scanA (pre ++ (headBytes m w n ++ rest)).toArray fuel
            (pre.length + (headBytes m w n).length)).2 || n == 55799)
       else (pre.length + (headBytes m w n).length, false)) := by
  obtain ⟨h1, h2⟩ := head_at pre rest m n w hm hf
  have hpos := headBytes_length_pos m w n
  have hlt : ¬ (pre.length ≥ (pre ++ (headBytes m w n ++ rest)).toArray.size) := by
    simp only [size_pre, List.length_append]; omega
  simp only [scanA, h1, h2, if_neg hlt]

theorem Wire.bytes_length_pos (w : Wire) : 1 ≤ w.bytes.length := by
  have := w.size_pos
  have := w.size_le_length
  omega

/-! ### (a) the bridge: the scan of a well-formed item, wherever it stands -/

mutual
theorem scanA_wire : ∀ (w : Wire) (t : Bool) (d : Nat) (pre post : Bytes) (fuel : Nat),
    w.wf = true → w.inLimits t d = true → w.bytes.length ≤ fuel →
    scanA (pre ++ (w.bytes ++ post)).toArray fuel pre.length
      = (pre.length + w.bytes.length, w.hasSelfDescribed)
  | w, _, _, _, _, 0, _, _, hfu => by have := w.bytes_length_pos; omega
  | .uint hw n, t, d, pre, post, fuel + 1, hwf, _, _ => by
    simp only [Wire.wf] at hwf
    simp only [Wire.bytes, Wire.hasSelfDescribed]
    rw [scanA_head pre post 0 n hw (by omega) hwf]
    simp
  | .nint hw n, t, d, pre, post, fuel + 1, hwf, _, _ => by
    simp only [Wire.wf] at hwf
    simp only [Wire.bytes, Wire.hasSelfDescribed]
    rw [scanA_head pre post 1 n hw (by omega) hwf]
    simp
  | .prim hw n, t, d, pre, post, fuel + 1, hwf, _, _ => by
    have hf := Wire.wf_prim hwf
    simp only [Wire.bytes, Wire.hasSelfDescribed]
    rw [scanA_head pre post 7 n hw (by omega) hf]
    simp
  | .bstr hw b, t, d, pre, post, fuel + 1, hwf, _, _ => by
    simp only [Wire.wf] at hwf
    simp only [Wire.bytes, Wire.hasSelfDescribed, List.append_assoc]
    rw [scanA_head pre (b ++ post) 2 b.length hw (by omega) hwf]
    simp only [size_pre, List.length_append]
    rw [if_pos (by simp), if_neg (by omega)]
    simp only [Nat.add_assoc]
  | .tstr hw b, t, d, pre, post, fuel + 1, hwf, _, _ => by
    simp only [Wire.wf] at hwf
    simp only [Wire.bytes, Wire.hasSelfDescribed, List.append_assoc]
    rw [scanA_head pre (b ++ post) 3 b.length hw (by omega) hwf]
    simp only [size_pre, List.length_append]
    rw [if_pos (by simp), if_neg (by omega)]
    simp only [Nat.add_assoc]
  | .tag hw n x, t, d, pre, post, fuel + 1, hwf, hl, hfu => by
    simp only [Wire.wf, Bool.and_eq_true] at hwf
    simp only [Wire.inLimits, Bool.and_eq_true] at hl
    simp only [Wire.bytes, List.length_append] at hfu
    have hpos := headBytes_length_pos 6 hw n
    simp only [Wire.bytes, Wire.hasSelfDescribed, List.append_assoc]
    rw [scanA_head pre (x.bytes ++ post) 6 n hw (by omega) hwf.1]
    have hD : pre ++ (headBytes 6 hw n ++ (x.bytes ++ post))
        = (pre ++ headBytes 6 hw n) ++ (x.bytes ++ post) := by simp
    have ih := scanA_wire x t _ (pre ++ headBytes 6 hw n) post fuel hwf.2 hl.2.2 (by omega)
    rw [hD, ← List.length_append, ih]
    simp [Nat.add_assoc]
  | .arr hw xs, t, d, pre, post, fuel + 1, hwf, hl, hfu => by
    simp only [Wire.wf, Bool.and_eq_true] at hwf
    simp only [Wire.inLimits, Bool.and_eq_true] at hl
    simp only [Wire.bytes, List.length_append] at hfu
    have hpos := headBytes_length_pos 4 hw xs.length
    simp only [Wire.bytes, Wire.hasSelfDescribed, List.append_assoc]
    rw [scanA_head pre (Wire.bytesList xs ++ post) 4 xs.length hw (by omega) hwf.1]
    have hD : pre ++ (headBytes 4 hw xs.length ++ (Wire.bytesList xs ++ post))
        = (pre ++ headBytes 4 hw xs.length) ++ (Wire.bytesList xs ++ post) := by simp
    have ih := scanLoop_list xs t _ (pre ++ headBytes 4 hw xs.length) post fuel false hwf.2 hl.2
      (by omega)
    rw [hD, ← List.length_append]
    simp only [show ¬ ((4 : Nat) = 2 ∨ (4 : Nat) = 3) by omega,
      show ¬ ((4 : Nat) = 5) by omega, if_false, ih]
    simp [Nat.add_assoc]
  | .map hw kvs, t, d, pre, post, fuel + 1, hwf, hl, hfu => by
    simp only [Wire.wf, Bool.and_eq_true] at hwf
    simp only [Wire.inLimits, Bool.and_eq_true, decide_eq_true_eq] at hl
    simp only [Wire.bytes, List.length_append] at hfu
    have hpos := headBytes_length_pos 5 hw kvs.length
    simp only [Wire.bytes, Wire.hasSelfDescribed, List.append_assoc]
    rw [scanA_head pre (Wire.bytesPairs kvs ++ post) 5 kvs.length hw (by omega) hwf.1]
    have hD : pre ++ (headBytes 5 hw kvs.length ++ (Wire.bytesPairs kvs ++ post))
        = (pre ++ headBytes 5 hw kvs.length) ++ (Wire.bytesPairs kvs ++ post) := by simp
    have ih := scanLoop_pairs kvs t _ (pre ++ headBytes 5 hw kvs.length) post fuel false hwf.2 hl.2
      (by omega)
    have hn : kvs.length * 2 % 18446744073709551616 = 2 * kvs.length := by
      have := hl.1.2
      simp only [maxElems] at this
      omega
    rw [hD, ← List.length_append]
    simp only [show ¬ ((5 : Nat) = 2 ∨ (5 : Nat) = 3) by omega,
      if_true, if_false, hn, ih]
    simp [Nat.add_assoc]
theorem scanLoop_list : ∀ (xs : List Wire) (t : Bool) (d : Nat) (pre post : Bytes) (fuel : Nat)
    (found : Bool),
    Wire.wfList xs = true → Wire.inLimitsList t d xs = true → (Wire.bytesList xs).length ≤ fuel →
    scanLoop (scanA (pre ++ (Wire.bytesList xs ++ post)).toArray fuel)
      (pre ++ (Wire.bytesList xs ++ post)).toArray.size xs.length pre.length found
      = (pre.length + (Wire.bytesList xs).length, found || Wire.hasSelfDescribedList xs)
  | [], _, _, pre, post, fuel, found, _, _, _ => by
    simp [scanLoop, Wire.bytesList, Wire.hasSelfDescribedList]
  | x :: xs, t, d, pre, post, fuel, found, hwf, hl, hfu => by
    simp only [Wire.wfList, Bool.and_eq_true] at hwf
    simp only [Wire.inLimitsList, Bool.and_eq_true] at hl
    simp only [Wire.bytesList, List.length_append] at hfu
    have hpos := x.bytes_length_pos
    have h1 := scanA_wire x t d pre (Wire.bytesList xs ++ post) fuel hwf.1 hl.1 (by omega)
    have h2 := scanLoop_list xs t d (pre ++ x.bytes) post fuel (found || x.hasSelfDescribed)
      hwf.2 hl.2 (by omega)
    have hD : pre ++ (x.bytes ++ (Wire.bytesList xs ++ post))
        = (pre ++ x.bytes) ++ (Wire.bytesList xs ++ post) := by simp
    simp only [Wire.bytesList, Wire.hasSelfDescribedList, List.append_assoc, List.length_cons,
      scanLoop]
    rw [if_pos (by simp only [size_pre, List.length_append]; omega), h1]
    simp only []
    rw [hD, ← List.length_append, h2]
    simp [Nat.add_assoc, Bool.or_assoc]
theorem scanLoop_pairs : ∀ (kvs : List (Wire × Wire)) (t : Bool) (d : Nat) (pre post : Bytes)
    (fuel : Nat) (found : Bool),
    Wire.wfPairs kvs = true → Wire.inLimitsPairs t d kvs = true →
    (Wire.bytesPairs kvs).length ≤ fuel →
    scanLoop (scanA (pre ++ (Wire.bytesPairs kvs ++ post)).toArray fuel)
      (pre ++ (Wire.bytesPairs kvs ++ post)).toArray.size (2 * kvs.length) pre.length found
      = (pre.length + (Wire.bytesPairs kvs).length, found || Wire.hasSelfDescribedPairs kvs)
  | [], _, _, pre, post, fuel, found, _, _, _ => by
    simp [scanLoop, Wire.bytesPairs, Wire.hasSelfDescribedPairs]
  | (k, v) :: r, t, d, pre, post, fuel, found, hwf, hl, hfu => by
    simp only [Wire.wfPairs, Bool.and_eq_true] at hwf
    simp only [Wire.inLimitsPairs, Bool.and_eq_true] at hl
    simp only [Wire.bytesPairs, List.length_append] at hfu
    have hposk := k.bytes_length_pos
    have hposv := v.bytes_length_pos
    have h1 := scanA_wire k t d pre (v.bytes ++ (Wire.bytesPairs r ++ post)) fuel hwf.1.1 hl.1.1
      (by omega)
    have h2 := scanA_wire v t d (pre ++ k.bytes) (Wire.bytesPairs r ++ post) fuel hwf.1.2 hl.1.2
      (by omega)
    have h3 := scanLoop_pairs r t d (pre ++ k.bytes ++ v.bytes) post fuel
      (found || k.hasSelfDescribed || v.hasSelfDescribed) hwf.2 hl.2 (by omega)
    have hD1 : pre ++ (k.bytes ++ (v.bytes ++ (Wire.bytesPairs r ++ post)))
        = (pre ++ k.bytes) ++ (v.bytes ++ (Wire.bytesPairs r ++ post)) := by simp
    have hD2 : (pre ++ k.bytes) ++ (v.bytes ++ (Wire.bytesPairs r ++ post))
        = (pre ++ k.bytes ++ v.bytes) ++ (Wire.bytesPairs r ++ post) := by simp
    have hn : 2 * ((k, v) :: r).length = 2 * r.length + 1 + 1 := by simp only [List.length_cons]; omega
    rw [hn]
    simp only [Wire.bytesPairs, Wire.hasSelfDescribedPairs, List.append_assoc, scanLoop]
    rw [if_pos (by simp only [size_pre, List.length_append]; omega), h1]
    simp only []
    rw [if_pos (by simp only [size_pre, List.length_append]; omega)]
    rw [hD1, ← List.length_append, h2]
    simp only []
    rw [hD2, ← List.length_append, h3]
    simp [Nat.add_assoc, Bool.or_assoc]
end

/-! ### (b) `ensureUntaggedHeaderLabels` on the bytes of a well-formed item -/

theorem Wire.labelChecked_none (k : Wire) : k.labelChecked none = true := by
  cases k <;> simp [Wire.labelChecked]

/-- what the loop of `ensureUntaggedHeaderLabels` reads off the head of a label -/
theorem labelCond_at (k : Wire) (pre rest : Bytes) (f : Nat → Bool) (hwf : k.wf = true) :
    (decide (byteAt (pre ++ (k.bytes ++ rest)).toArray pre.length / 32 = 0)
      && f (headArgumentA (pre ++ (k.bytes ++ rest)).toArray pre.length).1)
      = k.labelChecked (some f) := by
  cases k with
  | uint hw n =>
    simp only [Wire.wf] at hwf
    obtain ⟨h1, h2⟩ := head_at pre rest 0 n hw (by omega) hwf
    simp [Wire.bytes, Wire.labelChecked, h1, h2]
  | nint hw n =>
    simp only [Wire.wf] at hwf
    obtain ⟨h1, h2⟩ := head_at pre rest 1 n hw (by omega) hwf
    simp [Wire.bytes, Wire.labelChecked, h1, h2]
  | prim hw n =>
    have hf := Wire.wf_prim hwf
    obtain ⟨h1, h2⟩ := head_at pre rest 7 n hw (by omega) hf
    simp [Wire.bytes, Wire.labelChecked, h1, h2]
  | bstr hw b =>
    simp only [Wire.wf] at hwf
    obtain ⟨h1, h2⟩ := head_at pre (b ++ rest) 2 b.length hw (by omega) hwf
    simp [Wire.bytes, Wire.labelChecked, h1, h2]
  | tstr hw b =>
    simp only [Wire.wf] at hwf
    obtain ⟨h1, h2⟩ := head_at pre (b ++ rest) 3 b.length hw (by omega) hwf
    simp [Wire.bytes, Wire.labelChecked, h1, h2]
  | arr hw xs =>
    simp only [Wire.wf, Bool.and_eq_true] at hwf
    obtain ⟨h1, h2⟩ := head_at pre (Wire.bytesList xs ++ rest) 4 xs.length hw (by omega) hwf.1
    simp [Wire.bytes, Wire.labelChecked, h1, h2]
  | map hw kvs =>
    simp only [Wire.wf, Bool.and_eq_true] at hwf
    obtain ⟨h1, h2⟩ := head_at pre (Wire.bytesPairs kvs ++ rest) 5 kvs.length hw (by omega) hwf.1
    simp [Wire.bytes, Wire.labelChecked, h1, h2]
  | tag hw t x =>
    simp only [Wire.wf, Bool.and_eq_true] at hwf
    obtain ⟨h1, h2⟩ := head_at pre (x.bytes ++ rest) 6 t hw (by omega) hwf.1
    simp [Wire.bytes, Wire.labelChecked, h1, h2]

theorem ensureLoop_pairs : ∀ (kvs : List (Wire × Wire)) (t : Bool) (d : Nat) (pre post : Bytes)
    (c : Option (Nat → Bool)),
    Wire.wfPairs kvs = true → Wire.inLimitsPairs t d kvs = true →
    ensureLoop (pre ++ (Wire.bytesPairs kvs ++ post)).toArray c kvs.length pre.length
      = Wire.pairsUntagged c kvs
  | [], _, _, _, _, _, _, _ => by simp [ensureLoop, Wire.pairsUntagged]
  | (k, v) :: r, t, d, pre, post, c, hwf, hl => by
    simp only [Wire.wfPairs, Bool.and_eq_true] at hwf
    simp only [Wire.inLimitsPairs, Bool.and_eq_true] at hl
    have hposk := k.bytes_length_pos
    have hposv := v.bytes_length_pos
    have h1 := scanA_wire k t d pre (v.bytes ++ (Wire.bytesPairs r ++ post))
      (pre ++ (k.bytes ++ (v.bytes ++ (Wire.bytesPairs r ++ post)))).toArray.size hwf.1.1 hl.1.1
      (by simp only [size_pre, List.length_append]; omega)
    have h2 := scanA_wire v t d (pre ++ k.bytes) (Wire.bytesPairs r ++ post)
      ((pre ++ k.bytes) ++ (v.bytes ++ (Wire.bytesPairs r ++ post))).toArray.size hwf.1.2 hl.1.2
      (by simp only [size_pre, List.length_append]; omega)
    have h3 := ensureLoop_pairs r t d (pre ++ k.bytes ++ v.bytes) post c hwf.2 hl.2
    have hD1 : pre ++ (k.bytes ++ (v.bytes ++ (Wire.bytesPairs r ++ post)))
        = (pre ++ k.bytes) ++ (v.bytes ++ (Wire.bytesPairs r ++ post)) := by simp
    have hD2 : (pre ++ k.bytes) ++ (v.bytes ++ (Wire.bytesPairs r ++ post))
        = (pre ++ k.bytes ++ v.bytes) ++ (Wire.bytesPairs r ++ post) := by simp
    cases c with
    | none =>
      simp only [Wire.bytesPairs, Wire.pairsUntagged, List.append_assoc, List.length_cons, ensureLoop]
      rw [if_pos (by simp only [size_pre, List.length_append]; omega), h1]
      simp only [Wire.labelChecked_none]
      rw [hD1, ← List.length_append, h2]
      simp only []
      rw [hD2, ← List.length_append, h3]
      cases k.hasSelfDescribed <;> cases v.hasSelfDescribed <;> simp
    | some f =>
      have hc := labelCond_at k pre (v.bytes ++ (Wire.bytesPairs r ++ post)) f hwf.1.1
      simp only [Wire.bytesPairs, Wire.pairsUntagged, List.append_assoc, List.length_cons, ensureLoop]
      rw [if_pos (by simp only [size_pre, List.length_append]; omega), h1]
      simp only [hc]
      rw [hD1, ← List.length_append, h2]
      simp only []
      rw [hD2, ← List.length_append, h3]
      cases k.hasSelfDescribed <;> cases v.hasSelfDescribed <;> cases k.labelChecked (some f) <;> simp

/-! ### the statements over `Bytes` -/

/-- (a) positional form: the scan started on a well-formed item inside a larger byte string
    ends just past the item and reports whether tag 55799 occurs in it -/
theorem scanSelfDescribedTag_at {w : Wire} {t : Bool} {d : Nat} (pre post : Bytes)
    (hwf : w.wf = true) (hl : w.inLimits t d = true) :
    scanSelfDescribedTag (pre ++ (w.bytes ++ post)) pre.length
      = (pre.length + w.bytes.length, w.hasSelfDescribed) := by
  unfold scanSelfDescribedTag
  exact scanA_wire w t d pre post _ hwf hl (by simp only [List.length_append]; omega)

/-- (a) the scan of the bytes of a well-formed item -/
theorem scanSelfDescribedTag_bytes {w : Wire} {t : Bool} {d : Nat}
    (hwf : w.wf = true) (hl : w.inLimits t d = true) :
    scanSelfDescribedTag w.bytes 0 = (w.bytes.length, w.hasSelfDescribed) := by
  have := scanSelfDescribedTag_at (w := w) [] [] hwf hl
  simpa using this

/-- (b) on the bytes of a well-formed map -/
theorem ensureUntagged_map_bytes {hw : HW} {kvs : List (Wire × Wire)} {t : Bool} {d : Nat}
    (c : Option (Nat → Bool))
    (hwf : (Wire.map hw kvs).wf = true) (hl : (Wire.map hw kvs).inLimits t d = true) :
    ensureUntaggedHeaderLabels (Wire.map hw kvs).bytes c = Wire.pairsUntagged c kvs := by
  simp only [Wire.wf, Bool.and_eq_true] at hwf
  simp only [Wire.inLimits, Bool.and_eq_true] at hl
  obtain ⟨h1, h2⟩ := head_at [] (Wire.bytesPairs kvs) 5 kvs.length hw (by omega) hwf.1
  have hpos := headBytes_length_pos 5 hw kvs.length
  have h3 := ensureLoop_pairs kvs t (d + 1) (headBytes 5 hw kvs.length) [] c hwf.2 hl.2
  simp only [List.nil_append, List.length_nil, Nat.zero_add, List.append_nil] at h1 h2 h3
  unfold ensureUntaggedHeaderLabels ensureUntaggedA
  simp only [Wire.bytes, h1, h2, h3]
  rw [if_neg]
  simp only [List.size_toArray, List.length_append]
  omega

/-- (b) on the bytes of a well-formed item that is not a map: the whole item is scanned -/
theorem ensureUntagged_nonmap_bytes {w : Wire} {t : Bool} {d : Nat} (c : Option (Nat → Bool))
    (hm : w.major ≠ 5) (hwf : w.wf = true) (hl : w.inLimits t d = true) :
    ensureUntaggedHeaderLabels w.bytes c = !w.hasSelfDescribed := by
  have hs := scanSelfDescribedTag_bytes hwf hl
  unfold scanSelfDescribedTag at hs
  unfold ensureUntaggedHeaderLabels ensureUntaggedA
  have hmaj : byteAt w.bytes.toArray 0 / 32 = w.major := by
    cases w with
    | uint hw n =>
      simp only [Wire.wf] at hwf
      simpa [Wire.bytes, Wire.major] using (head_at [] [] 0 n hw (by omega) hwf).1
    | nint hw n =>
      simp only [Wire.wf] at hwf
      simpa [Wire.bytes, Wire.major] using (head_at [] [] 1 n hw (by omega) hwf).1
    | prim hw n =>
      have hf := Wire.wf_prim hwf
      simpa [Wire.bytes, Wire.major] using (head_at [] [] 7 n hw (by omega) hf).1
    | bstr hw b =>
      simp only [Wire.wf] at hwf
      simpa [Wire.bytes, Wire.major] using (head_at [] b 2 b.length hw (by omega) hwf).1
    | tstr hw b =>
      simp only [Wire.wf] at hwf
      simpa [Wire.bytes, Wire.major] using (head_at [] b 3 b.length hw (by omega) hwf).1
    | arr hw xs =>
      simp only [Wire.wf, Bool.and_eq_true] at hwf
      simpa [Wire.bytes, Wire.major] using
        (head_at [] (Wire.bytesList xs) 4 xs.length hw (by omega) hwf.1).1
    | map hw kvs => simp [Wire.major] at hm
    | tag hw n x =>
      simp only [Wire.wf, Bool.and_eq_true] at hwf
      simpa [Wire.bytes, Wire.major] using (head_at [] x.bytes 6 n hw (by omega) hwf.1).1
  rw [if_pos (Or.inr (by rw [hmaj]; exact hm))]
  simp only [List.size_toArray, hs]

mutual
theorem Wire.hasSelfDescribed_of_noTag : ∀ (w : Wire), w.hasTag = false → w.hasSelfDescribed = false
  | .uint .., _ => rfl
  | .nint .., _ => rfl
  | .bstr .., _ => rfl
  | .tstr .., _ => rfl
  | .prim .., _ => rfl
  | .tag .., h => by simp [Wire.hasTag] at h
  | .arr _ xs, h => by
    simp only [Wire.hasTag] at h
    simpa only [Wire.hasSelfDescribed] using Wire.hasSelfDescribedList_of_noTag xs h
  | .map _ kvs, h => by
    simp only [Wire.hasTag] at h
    simpa only [Wire.hasSelfDescribed] using Wire.hasSelfDescribedPairs_of_noTag kvs h
theorem Wire.hasSelfDescribedList_of_noTag : ∀ (xs : List Wire), Wire.hasTagList xs = false →
    Wire.hasSelfDescribedList xs = false
  | [], _ => rfl
  | x :: xs, h => by
    simp only [Wire.hasTagList, Bool.or_eq_false_iff] at h
    simp only [Wire.hasSelfDescribedList, Wire.hasSelfDescribed_of_noTag x h.1,
      Wire.hasSelfDescribedList_of_noTag xs h.2, Bool.or_self]
theorem Wire.hasSelfDescribedPairs_of_noTag : ∀ (kvs : List (Wire × Wire)),
    Wire.hasTagPairs kvs = false → Wire.hasSelfDescribedPairs kvs = false
  | [], _ => rfl
  | (k, v) :: r, h => by
    simp only [Wire.hasTagPairs, Bool.or_eq_false_iff] at h
    simp only [Wire.hasSelfDescribedPairs, Wire.hasSelfDescribed_of_noTag k h.1.1,
      Wire.hasSelfDescribed_of_noTag v h.1.2, Wire.hasSelfDescribedPairs_of_noTag r h.2,
      Bool.or_self]
end

/-- a map without tag 55799 anywhere passes, whatever the table of checked labels -/
theorem Wire.pairsUntagged_of_noSelfDescribed (c : Option (Nat → Bool)) :
    ∀ (kvs : List (Wire × Wire)), Wire.hasSelfDescribedPairs kvs = false →
      Wire.pairsUntagged c kvs = true
  | [], _ => rfl
  | (k, v) :: r, h => by
    simp only [Wire.hasSelfDescribedPairs, Bool.or_eq_false_iff] at h
    simp [Wire.pairsUntagged, h.1.1, h.1.2, Wire.pairsUntagged_of_noSelfDescribed c r h.2]

/-- the scan lets through every input whose parse tree holds no tag at all -/
theorem ensureUntagged_of_parse_noTag {t : Bool} {data : Bytes} {w : Wire}
    (c : Option (Nat → Bool)) (h : parseTop t data = some w) (hnt : w.hasTag = false) :
    ensureUntaggedHeaderLabels data c = true := by
  obtain ⟨rfl, hwf, hl⟩ := parseTop_sound h
  by_cases hm : w.major = 5
  · cases w with
    | map hw kvs =>
      rw [ensureUntagged_map_bytes c hwf hl]
      simp only [Wire.hasTag] at hnt
      exact Wire.pairsUntagged_of_noSelfDescribed c kvs
        (Wire.hasSelfDescribedPairs_of_noTag kvs hnt)
    | _ => simp [Wire.major] at hm
  · rw [ensureUntagged_nonmap_bytes c hm hwf hl, Wire.hasSelfDescribed_of_noTag w hnt]
    rfl

/-- the same for a tag-free well-formed tree within the limits (e.g. a bucket inside an
    envelope that was checked with tags forbidden) -/
theorem ensureUntagged_bytes_noTag {t : Bool} {d : Nat} {w : Wire} (c : Option (Nat → Bool))
    (hwf : w.wf = true) (hl : w.inLimits t d = true) (hnt : w.hasTag = false) :
    ensureUntaggedHeaderLabels w.bytes c = true := by
  by_cases hm : w.major = 5
  · cases w with
    | map hw kvs =>
      rw [ensureUntagged_map_bytes c hwf hl]
      simp only [Wire.hasTag] at hnt
      exact Wire.pairsUntagged_of_noSelfDescribed c kvs
        (Wire.hasSelfDescribedPairs_of_noTag kvs hnt)
    | _ => simp [Wire.major] at hm
  · rw [ensureUntagged_nonmap_bytes c hm hwf hl, Wire.hasSelfDescribed_of_noTag w hnt]
    rfl

/-- an input that parses to a map does not start with a tag head -/
theorem isTagByte_of_parse_map {t : Bool} {data : Bytes} {hw : HW} {kvs : List (Wire × Wire)}
    (h : parseTop t data = some (.map hw kvs)) : isTagByte data = false := by
  obtain ⟨rfl, hwf, -⟩ := parseTop_sound h
  have := isTagByte_bytes [] hwf
  simpa [Wire.isTag] using this

/-- an input that parses, in the tag-forbidding mode, to a map passes both gates of
    `Key.UnmarshalCBOR` / `validateHeaderLabelCBOR` that look at the raw bytes -/
theorem ensureUntagged_of_parse_false {data : Bytes} {w : Wire} (c : Option (Nat → Bool))
    (h : parseTop false data = some w) : ensureUntaggedHeaderLabels data c = true :=
  ensureUntagged_of_parse_noTag c h (parseTop_noTag h)

end CoseModel
