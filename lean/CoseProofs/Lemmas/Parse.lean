/-
  CoseProofs.Lemmas.Parse — the well-formedness parser `parseItem` is sound and complete for
  the wire encoder `Wire.bytes` on well-formed (`Wire.wf`), in-limits (`Wire.inLimits`) trees.
-/
import CoseModel.Cbor
import CoseProofs.Lemmas.Head
namespace CoseModel

/-! ### predicates -/

def Wire.isTag : Wire → Bool
  | .tag .. => true
  | _ => false

mutual
/-- head widths fit and the node is of a form the parser can return -/
def Wire.wf : Wire → Bool
  | .uint w n => w.fits n
  | .nint w n => w.fits n
  | .bstr w b => w.fits b.length
  | .tstr w b => w.fits b.length
  | .arr w xs => w.fits xs.length && Wire.wfList xs
  | .map w kvs => w.fits kvs.length && Wire.wfPairs kvs
  | .tag w t x => w.fits t && x.wf
  | .prim .imm n => decide (n < 24)
  | .prim .w1 n => decide (32 ≤ n) && decide (n < 256)
  | .prim .w2 n => HW.fits .w2 n
  | .prim .w4 n => HW.fits .w4 n
  | .prim .w8 n => HW.fits .w8 n
def Wire.wfList : List Wire → Bool
  | [] => true
  | x :: xs => x.wf && Wire.wfList xs
def Wire.wfPairs : List (Wire × Wire) → Bool
  | [] => true
  | (k, v) :: r => k.wf && v.wf && Wire.wfPairs r
end

mutual
/-- the parser's depth / size / tag gate, for a node met at nesting depth `d` -/
def Wire.inLimits (tagsOk : Bool) : Nat → Wire → Bool
  | d, .arr _ xs =>
      decide (d + 1 ≤ maxNested) && decide (xs.length ≤ maxElems) && Wire.inLimitsList tagsOk (d + 1) xs
  | d, .map _ kvs =>
      decide (d + 1 ≤ maxNested) && decide (kvs.length ≤ maxElems) && Wire.inLimitsPairs tagsOk (d + 1) kvs
  | d, .tag _ _ x =>
      tagsOk && (decide ((if x.isTag then d + 1 else d) ≤ maxNested)
                 && Wire.inLimits tagsOk (if x.isTag then d + 1 else d) x)
  | _, .uint .. => true
  | _, .nint .. => true
  | _, .bstr .. => true
  | _, .tstr .. => true
  | _, .prim .. => true
def Wire.inLimitsList (tagsOk : Bool) : Nat → List Wire → Bool
  | _, [] => true
  | d, x :: xs => Wire.inLimits tagsOk d x && Wire.inLimitsList tagsOk d xs
def Wire.inLimitsPairs (tagsOk : Bool) : Nat → List (Wire × Wire) → Bool
  | _, [] => true
  | d, (k, v) :: r => Wire.inLimits tagsOk d k && Wire.inLimits tagsOk d v && Wire.inLimitsPairs tagsOk d r
end

mutual
/-- number of nodes -/
def Wire.size : Wire → Nat
  | .arr _ xs => 1 + Wire.sizeList xs
  | .map _ kvs => 1 + Wire.sizePairs kvs
  | .tag _ _ x => 1 + x.size
  | _ => 1
def Wire.sizeList : List Wire → Nat
  | [] => 0
  | x :: xs => x.size + Wire.sizeList xs
def Wire.sizePairs : List (Wire × Wire) → Nat
  | [] => 0
  | (k, v) :: r => k.size + v.size + Wire.sizePairs r
end

mutual
/-- exact fuel `parseItem` needs for this tree (length of the longest call chain) -/
def Wire.fuelNeed : Wire → Nat
  | .arr _ xs => 1 + Wire.fuelNeedList xs
  | .map _ kvs => 1 + Wire.fuelNeedPairs kvs
  | .tag _ _ x => 1 + x.fuelNeed
  | _ => 1
def Wire.fuelNeedList : List Wire → Nat
  | [] => 1
  | x :: xs => 1 + max x.fuelNeed (Wire.fuelNeedList xs)
def Wire.fuelNeedPairs : List (Wire × Wire) → Nat
  | [] => 1
  | (k, v) :: r => 1 + max k.fuelNeed (max v.fuelNeed (Wire.fuelNeedPairs r))
end

/-! ### heads -/

theorem parseHead_sound {bs : Bytes} {m : Nat} {w : HW} {n : Nat} {rest : Bytes}
    (h : parseHead bs = some (m, w, n, rest)) :
    bs = headBytes m w n ++ rest ∧ m < 8 ∧ w.fits n = true := by
  cases bs with
  | nil => simp [parseHead] at h
  | cons b tl =>
    have hb := b.toNat_lt
    simp only [parseHead] at h
    split at h
    · -- imm
      rename_i hai
      simp only [Option.some.injEq, Prod.mk.injEq] at h
      obtain ⟨rfl, rfl, rfl, rfl⟩ := h
      refine ⟨?_, by omega, by simp [HW.fits]; omega⟩
      simp only [headBytes, List.cons_append, List.nil_append, List.cons.injEq, and_true]
      apply UInt8.toNat_inj.mp
      simp only [UInt8.toNat_ofNat']
      omega
    · split at h
      · rename_i hai
        split at h
        · rename_i b1 r
          have := b1.toNat_lt
          simp only [Option.some.injEq, Prod.mk.injEq] at h
          obtain ⟨rfl, rfl, rfl, rfl⟩ := h
          refine ⟨?_, by omega, by simp [HW.fits]; omega⟩
          simp only [headBytes, List.cons_append, List.nil_append, List.cons.injEq, and_true]
          refine ⟨?_, ?_⟩ <;> apply UInt8.toNat_inj.mp <;> simp only [UInt8.toNat_ofNat'] <;> omega
        · simp at h
      · split at h
        · rename_i hai
          split at h
          · rename_i b1 b2 r
            have := b1.toNat_lt
            have := b2.toNat_lt
            simp only [Option.some.injEq, Prod.mk.injEq] at h
            obtain ⟨rfl, rfl, rfl, rfl⟩ := h
            refine ⟨?_, by omega, by simp [HW.fits]; omega⟩
            simp only [headBytes, List.cons_append, List.nil_append, List.cons.injEq, and_true]
            refine ⟨?_, ?_, ?_⟩ <;> apply UInt8.toNat_inj.mp <;> simp only [UInt8.toNat_ofNat'] <;> omega
          · simp at h
        · split at h
          · rename_i hai
            split at h
            · rename_i b1 b2 b3 b4 r
              have := b1.toNat_lt
              have := b2.toNat_lt
              have := b3.toNat_lt
              have := b4.toNat_lt
              simp only [Option.some.injEq, Prod.mk.injEq] at h
              obtain ⟨rfl, rfl, rfl, rfl⟩ := h
              refine ⟨?_, by omega, by simp [HW.fits]; omega⟩
              simp only [headBytes, List.cons_append, List.nil_append, List.cons.injEq, and_true]
              refine ⟨?_, ?_, ?_, ?_, ?_⟩ <;> apply UInt8.toNat_inj.mp <;>
                simp only [UInt8.toNat_ofNat'] <;> omega
            · simp at h
          · split at h
            · rename_i hai
              split at h
              · rename_i b1 b2 b3 b4 b5 b6 b7 b8 r
                have := b1.toNat_lt
                have := b2.toNat_lt
                have := b3.toNat_lt
                have := b4.toNat_lt
                have := b5.toNat_lt
                have := b6.toNat_lt
                have := b7.toNat_lt
                have := b8.toNat_lt
                simp only [Option.some.injEq, Prod.mk.injEq] at h
                obtain ⟨rfl, rfl, rfl, rfl⟩ := h
                refine ⟨?_, by omega, by simp [HW.fits]; omega⟩
                simp only [headBytes, List.cons_append, List.nil_append, List.cons.injEq, and_true]
                refine ⟨?_, ?_, ?_, ?_, ?_, ?_, ?_, ?_, ?_⟩ <;> apply UInt8.toNat_inj.mp <;>
                  simp only [UInt8.toNat_ofNat'] <;> omega
              · simp at h
            · simp at h

theorem headBytes_length_pos (m : Nat) (w : HW) (n : Nat) : 1 ≤ (headBytes m w n).length := by
  cases w <;> simp [headBytes]

theorem isTagByte_headBytes {m : Nat} {w : HW} {n : Nat} (r : Bytes) (hm : m < 8)
    (hf : w.fits n = true) : isTagByte (headBytes m w n ++ r) = decide (m = 6) := by
  cases w <;> simp only [HW.fits, decide_eq_true_eq] at hf <;>
    simp only [headBytes, isTagByte, List.cons_append, UInt8.toNat_ofNat', Nat.reducePow] <;>
    congr 1 <;> apply propext <;> omega

theorem Wire.wf_prim {w : HW} {n : Nat} (h : (Wire.prim w n).wf = true) : w.fits n = true := by
  cases w <;> simp [Wire.wf, HW.fits] at h ⊢ <;> omega

theorem isTagByte_bytes {w : Wire} (r : Bytes) (h : w.wf = true) :
    isTagByte (w.bytes ++ r) = w.isTag := by
  cases w with
  | prim hw n =>
    have := Wire.wf_prim h
    simp [Wire.bytes, Wire.isTag, isTagByte_headBytes r (by omega : 7 < 8) this]
  | uint hw n =>
    simp only [Wire.wf] at h
    simp [Wire.bytes, Wire.isTag, isTagByte_headBytes r (by omega : 0 < 8) h]
  | nint hw n =>
    simp only [Wire.wf] at h
    simp [Wire.bytes, Wire.isTag, isTagByte_headBytes r (by omega : 1 < 8) h]
  | bstr hw b =>
    simp only [Wire.wf] at h
    simp [Wire.bytes, Wire.isTag, List.append_assoc, isTagByte_headBytes _ (by omega : 2 < 8) h]
  | tstr hw b =>
    simp only [Wire.wf] at h
    simp [Wire.bytes, Wire.isTag, List.append_assoc, isTagByte_headBytes _ (by omega : 3 < 8) h]
  | arr hw xs =>
    simp only [Wire.wf, Bool.and_eq_true] at h
    simp [Wire.bytes, Wire.isTag, List.append_assoc, isTagByte_headBytes _ (by omega : 4 < 8) h.1]
  | map hw xs =>
    simp only [Wire.wf, Bool.and_eq_true] at h
    simp [Wire.bytes, Wire.isTag, List.append_assoc, isTagByte_headBytes _ (by omega : 5 < 8) h.1]
  | tag hw t x =>
    simp only [Wire.wf, Bool.and_eq_true] at h
    simp [Wire.bytes, Wire.isTag, List.append_assoc, isTagByte_headBytes _ (by omega : 6 < 8) h.1]

/-! ### A. soundness -/

mutual
theorem parseItem_sound (t : Bool) : ∀ (fuel d : Nat) (bs : Bytes) (w : Wire) (r : Bytes),
    parseItem t fuel d bs = some (w, r) →
    bs = w.bytes ++ r ∧ w.wf = true ∧ w.inLimits t d = true
  | 0, _, _, _, _, h => by simp [parseItem] at h
  | fuel + 1, d, bs, w, r, h => by
    simp only [parseItem] at h
    split at h
    · simp at h
    · rename_i m hw n rest hh
      obtain ⟨hbs, hm, hf⟩ := parseHead_sound hh
      subst hbs
      match m, hm with
      | 0, _ =>
        simp at h
        obtain ⟨rfl, rfl⟩ := h
        simp [Wire.bytes, Wire.wf, Wire.inLimits, hf]
      | 1, _ =>
        simp at h
        obtain ⟨rfl, rfl⟩ := h
        simp [Wire.bytes, Wire.wf, Wire.inLimits, hf]
      | 2, _ =>
        simp at h
        obtain ⟨hn, rfl, rfl⟩ := h
        simp [Wire.bytes, Wire.wf, Wire.inLimits, List.length_take, Nat.min_eq_left hn, hf]
      | 3, _ =>
        simp at h
        obtain ⟨hn, rfl, rfl⟩ := h
        simp [Wire.bytes, Wire.wf, Wire.inLimits, List.length_take, Nat.min_eq_left hn, hf]
      | 4, _ =>
        simp at h
        obtain ⟨hd, hn, h⟩ := h
        split at h
        · rename_i xs r' hp
          simp at h
          obtain ⟨rfl, rfl⟩ := h
          obtain ⟨hb, hl, hwf, hlim⟩ := parseItems_sound t fuel (d + 1) n rest xs r' hp
          subst hb hl
          simp [Wire.bytes, Wire.wf, Wire.inLimits, hf, hwf, hlim, hd, hn]
        · simp at h
      | 5, _ =>
        simp at h
        obtain ⟨hd, hn, h⟩ := h
        split at h
        · rename_i xs r' hp
          simp at h
          obtain ⟨rfl, rfl⟩ := h
          obtain ⟨hb, hl, hwf, hlim⟩ := parsePairs_sound t fuel (d + 1) n rest xs r' hp
          subst hb hl
          simp [Wire.bytes, Wire.wf, Wire.inLimits, hf, hwf, hlim, hd, hn]
        · simp at h
      | 6, _ =>
        simp at h
        obtain ⟨ht, hd, h⟩ := h
        split at h
        · rename_i x r' hp
          simp at h
          obtain ⟨rfl, rfl⟩ := h
          obtain ⟨hb, hwf, hlim⟩ := parseItem_sound t fuel _ rest x r' hp
          have htag : isTagByte rest = x.isTag := by rw [hb]; exact isTagByte_bytes r' hwf
          rw [htag] at hd hlim
          subst hb ht
          simp [Wire.bytes, Wire.wf, Wire.inLimits, hf, hwf, hlim, hd]
        · simp at h
      | 7, _ =>
        cases hw <;> simp at h
        · obtain ⟨rfl, rfl⟩ := h
          simpa [Wire.bytes, Wire.wf, Wire.inLimits, HW.fits] using hf
        · obtain ⟨h32, rfl, rfl⟩ := h
          simp [HW.fits] at hf
          simp [Wire.bytes, Wire.wf, Wire.inLimits, hf, h32]
        all_goals
          obtain ⟨rfl, rfl⟩ := h
          simp [Wire.bytes, Wire.wf, Wire.inLimits, hf]
theorem parseItems_sound (t : Bool) : ∀ (fuel d k : Nat) (bs : Bytes) (xs : List Wire) (r : Bytes),
    parseItems t fuel d k bs = some (xs, r) →
    bs = Wire.bytesList xs ++ r ∧ xs.length = k ∧ Wire.wfList xs = true
      ∧ Wire.inLimitsList t d xs = true
  | 0, _, _, _, _, _, h => by simp [parseItems] at h
  | _ + 1, _, 0, bs, xs, r, h => by
    simp [parseItems] at h
    obtain ⟨rfl, rfl⟩ := h
    simp [Wire.bytesList, Wire.wfList, Wire.inLimitsList]
  | fuel + 1, d, k + 1, bs, xs, r, h => by
    simp only [parseItems] at h
    split at h
    · simp at h
    · rename_i x r1 hx
      split at h
      · simp at h
      · rename_i xs' r2 hxs
        simp at h
        obtain ⟨rfl, rfl⟩ := h
        obtain ⟨hb, hwf, hlim⟩ := parseItem_sound t fuel d bs x r1 hx
        obtain ⟨hb', hl, hwf', hlim'⟩ := parseItems_sound t fuel d k r1 xs' r2 hxs
        subst hb hb'
        simp [Wire.bytesList, Wire.wfList, Wire.inLimitsList, *]
theorem parsePairs_sound (t : Bool) : ∀ (fuel d k : Nat) (bs : Bytes) (kvs : List (Wire × Wire))
    (r : Bytes), parsePairs t fuel d k bs = some (kvs, r) →
    bs = Wire.bytesPairs kvs ++ r ∧ kvs.length = k ∧ Wire.wfPairs kvs = true
      ∧ Wire.inLimitsPairs t d kvs = true
  | 0, _, _, _, _, _, h => by simp [parsePairs] at h
  | _ + 1, _, 0, bs, xs, r, h => by
    simp [parsePairs] at h
    obtain ⟨rfl, rfl⟩ := h
    simp [Wire.bytesPairs, Wire.wfPairs, Wire.inLimitsPairs]
  | fuel + 1, d, k + 1, bs, xs, r, h => by
    simp only [parsePairs] at h
    split at h
    · simp at h
    · rename_i x r1 hx
      split at h
      · simp at h
      · rename_i v r2 hv
        split at h
        · simp at h
        · rename_i xs' r3 hxs
          simp at h
          obtain ⟨rfl, rfl⟩ := h
          obtain ⟨hb, hwf, hlim⟩ := parseItem_sound t fuel d bs x r1 hx
          obtain ⟨hb2, hwf2, hlim2⟩ := parseItem_sound t fuel d r1 v r2 hv
          obtain ⟨hb', hl, hwf', hlim'⟩ := parsePairs_sound t fuel d k r2 xs' r3 hxs
          subst hb hb2 hb'
          simp [Wire.bytesPairs, Wire.wfPairs, Wire.inLimitsPairs, *]
end

theorem parseTop_sound {t : Bool} {bs : Bytes} {w : Wire} (h : parseTop t bs = some w) :
    bs = w.bytes ∧ w.wf = true ∧ w.inLimits t 0 = true := by
  simp only [parseTop] at h
  split at h
  · rename_i w' hp
    simp at h
    subst h
    simpa using parseItem_sound t _ _ _ _ _ hp
  · simp at h

theorem parseFirst_sound {t : Bool} {bs : Bytes} {w : Wire} {r : Bytes}
    (h : parseFirst t bs = some (w, r)) :
    bs = w.bytes ++ r ∧ w.wf = true ∧ w.inLimits t 0 = true :=
  parseItem_sound t _ _ _ _ _ h

/-! ### B. no tags in the tag-forbidding mode -/

mutual
theorem parseItem_noTag : ∀ (fuel d : Nat) (bs : Bytes) (w : Wire) (r : Bytes),
    parseItem false fuel d bs = some (w, r) → w.hasTag = false
  | 0, _, _, _, _, h => by simp [parseItem] at h
  | fuel + 1, d, bs, w, r, h => by
    simp only [parseItem] at h
    split at h
    · simp at h
    · rename_i m hw n rest hh
      obtain ⟨-, hm, -⟩ := parseHead_sound hh
      match m, hm with
      | 0, _ => simp at h; obtain ⟨rfl, rfl⟩ := h; simp [Wire.hasTag]
      | 1, _ => simp at h; obtain ⟨rfl, rfl⟩ := h; simp [Wire.hasTag]
      | 2, _ => simp at h; obtain ⟨-, rfl, rfl⟩ := h; simp [Wire.hasTag]
      | 3, _ => simp at h; obtain ⟨-, rfl, rfl⟩ := h; simp [Wire.hasTag]
      | 4, _ =>
        simp at h
        obtain ⟨-, -, h⟩ := h
        split at h
        · rename_i xs r' hp
          simp at h
          obtain ⟨rfl, rfl⟩ := h
          simpa [Wire.hasTag] using parseItems_noTag fuel (d + 1) n rest xs r' hp
        · simp at h
      | 5, _ =>
        simp at h
        obtain ⟨-, -, h⟩ := h
        split at h
        · rename_i xs r' hp
          simp at h
          obtain ⟨rfl, rfl⟩ := h
          simpa [Wire.hasTag] using parsePairs_noTag fuel (d + 1) n rest xs r' hp
        · simp at h
      | 6, _ => simp at h
      | 7, _ =>
        cases hw <;> simp at h
        · obtain ⟨rfl, rfl⟩ := h; simp [Wire.hasTag]
        · obtain ⟨-, rfl, rfl⟩ := h; simp [Wire.hasTag]
        all_goals
          obtain ⟨rfl, rfl⟩ := h
          simp [Wire.hasTag]
theorem parseItems_noTag : ∀ (fuel d k : Nat) (bs : Bytes) (xs : List Wire) (r : Bytes),
    parseItems false fuel d k bs = some (xs, r) → Wire.hasTagList xs = false
  | 0, _, _, _, _, _, h => by simp [parseItems] at h
  | _ + 1, _, 0, bs, xs, r, h => by
    simp [parseItems] at h
    obtain ⟨rfl, rfl⟩ := h
    simp [Wire.hasTagList]
  | fuel + 1, d, k + 1, bs, xs, r, h => by
    simp only [parseItems] at h
    split at h
    · simp at h
    · rename_i x r1 hx
      split at h
      · simp at h
      · rename_i xs' r2 hxs
        simp at h
        obtain ⟨rfl, rfl⟩ := h
        simp [Wire.hasTagList, parseItem_noTag fuel d bs x r1 hx,
          parseItems_noTag fuel d k r1 xs' r2 hxs]
theorem parsePairs_noTag : ∀ (fuel d k : Nat) (bs : Bytes) (kvs : List (Wire × Wire))
    (r : Bytes), parsePairs false fuel d k bs = some (kvs, r) → Wire.hasTagPairs kvs = false
  | 0, _, _, _, _, _, h => by simp [parsePairs] at h
  | _ + 1, _, 0, bs, xs, r, h => by
    simp [parsePairs] at h
    obtain ⟨rfl, rfl⟩ := h
    simp [Wire.hasTagPairs]
  | fuel + 1, d, k + 1, bs, xs, r, h => by
    simp only [parsePairs] at h
    split at h
    · simp at h
    · rename_i x r1 hx
      split at h
      · simp at h
      · rename_i v r2 hv
        split at h
        · simp at h
        · rename_i xs' r3 hxs
          simp at h
          obtain ⟨rfl, rfl⟩ := h
          simp [Wire.hasTagPairs, parseItem_noTag fuel d bs x r1 hx,
            parseItem_noTag fuel d r1 v r2 hv, parsePairs_noTag fuel d k r2 xs' r3 hxs]
end

theorem parseTop_noTag {bs : Bytes} {w : Wire} (h : parseTop false bs = some w) :
    w.hasTag = false := by
  simp only [parseTop] at h
  split at h
  · rename_i w' hp
    simp at h
    subst h
    exact parseItem_noTag _ _ _ _ _ hp
  · simp at h

theorem parseFirst_noTag {bs : Bytes} {w : Wire} {r : Bytes}
    (h : parseFirst false bs = some (w, r)) : w.hasTag = false :=
  parseItem_noTag _ _ _ _ _ h

/-! ### C. fuel monotonicity -/

mutual
theorem parseItem_mono (t : Bool) : ∀ (f f' d : Nat) (bs : Bytes) (x : Wire × Bytes),
    parseItem t f d bs = some x → f ≤ f' → parseItem t f' d bs = some x
  | 0, _, _, _, _, h, _ => by simp [parseItem] at h
  | _ + 1, 0, _, _, _, _, hle => by omega
  | f + 1, f' + 1, d, bs, x, h, hle => by
    have hle' : f ≤ f' := by omega
    simp only [parseItem] at h ⊢
    split at h
    · simp at h
    · rename_i m hw n rest hh
      obtain ⟨-, hm, -⟩ := parseHead_sound hh
      match m, hm with
      | 0, _ => simpa using h
      | 1, _ => simpa using h
      | 2, _ => simpa using h
      | 3, _ => simpa using h
      | 4, _ =>
        simp at h ⊢
        obtain ⟨hd, hn, h⟩ := h
        refine ⟨hd, hn, ?_⟩
        split at h
        · rename_i xs r' hp
          rw [parseItems_mono t f f' (d + 1) n rest _ hp hle']
          exact h
        · simp at h
      | 5, _ =>
        simp at h ⊢
        obtain ⟨hd, hn, h⟩ := h
        refine ⟨hd, hn, ?_⟩
        split at h
        · rename_i xs r' hp
          rw [parsePairs_mono t f f' (d + 1) n rest _ hp hle']
          exact h
        · simp at h
      | 6, _ =>
        simp at h ⊢
        obtain ⟨ht, hd, h⟩ := h
        refine ⟨ht, hd, ?_⟩
        split at h
        · rename_i xs r' hp
          rw [parseItem_mono t f f' _ rest _ hp hle']
          exact h
        · simp at h
      | 7, _ => simpa using h
theorem parseItems_mono (t : Bool) : ∀ (f f' d k : Nat) (bs : Bytes) (x : List Wire × Bytes),
    parseItems t f d k bs = some x → f ≤ f' → parseItems t f' d k bs = some x
  | 0, _, _, _, _, _, h, _ => by simp [parseItems] at h
  | _ + 1, 0, _, _, _, _, _, hle => by omega
  | _ + 1, _ + 1, _, 0, bs, x, h, _ => by
    simp only [parseItems] at h ⊢
    exact h
  | f + 1, f' + 1, d, k + 1, bs, x, h, hle => by
    have hle' : f ≤ f' := by omega
    simp only [parseItems] at h ⊢
    split at h
    · simp at h
    · rename_i y r1 hy
      simp only [parseItem_mono t f f' d bs _ hy hle']
      split at h
      · simp at h
      · rename_i ys r2 hys
        simp only [parseItems_mono t f f' d k r1 _ hys hle']
        exact h
theorem parsePairs_mono (t : Bool) : ∀ (f f' d k : Nat) (bs : Bytes)
    (x : List (Wire × Wire) × Bytes),
    parsePairs t f d k bs = some x → f ≤ f' → parsePairs t f' d k bs = some x
  | 0, _, _, _, _, _, h, _ => by simp [parsePairs] at h
  | _ + 1, 0, _, _, _, _, _, hle => by omega
  | _ + 1, _ + 1, _, 0, bs, x, h, _ => by
    simp only [parsePairs] at h ⊢
    exact h
  | f + 1, f' + 1, d, k + 1, bs, x, h, hle => by
    have hle' : f ≤ f' := by omega
    simp only [parsePairs] at h ⊢
    split at h
    · simp at h
    · rename_i y r1 hy
      simp only [parseItem_mono t f f' d bs _ hy hle']
      split at h
      · simp at h
      · rename_i v r2 hv
        simp only [parseItem_mono t f f' d r1 _ hv hle']
        split at h
        · simp at h
        · rename_i ys r3 hys
          simp only [parsePairs_mono t f f' d k r2 _ hys hle']
          exact h
end

/-! ### D. completeness -/

theorem Wire.fuelNeed_pos (w : Wire) : 1 ≤ w.fuelNeed := by
  cases w <;> simp [Wire.fuelNeed]

mutual
theorem parseItem_complete_fuelNeed (t : Bool) : ∀ (w : Wire) (fuel d : Nat) (r : Bytes),
    w.wf = true → w.inLimits t d = true → w.fuelNeed ≤ fuel →
    parseItem t fuel d (w.bytes ++ r) = some (w, r)
  | w, 0, _, _, _, _, hfu => by have := w.fuelNeed_pos; omega
  | .uint hw n, fuel + 1, d, r, hwf, _, _ => by
    simp only [Wire.wf] at hwf
    simp [parseItem, Wire.bytes, parseHead_headBytes 0 n hw r (by omega) hwf]
  | .nint hw n, fuel + 1, d, r, hwf, _, _ => by
    simp only [Wire.wf] at hwf
    simp [parseItem, Wire.bytes, parseHead_headBytes 1 n hw r (by omega) hwf]
  | .bstr hw b, fuel + 1, d, r, hwf, _, _ => by
    simp only [Wire.wf] at hwf
    simp [parseItem, Wire.bytes, List.append_assoc,
      parseHead_headBytes 2 b.length hw (b ++ r) (by omega) hwf]
  | .tstr hw b, fuel + 1, d, r, hwf, _, _ => by
    simp only [Wire.wf] at hwf
    simp [parseItem, Wire.bytes, List.append_assoc,
      parseHead_headBytes 3 b.length hw (b ++ r) (by omega) hwf]
  | .arr hw xs, fuel + 1, d, r, hwf, hl, hfu => by
    simp only [Wire.wf, Bool.and_eq_true] at hwf
    simp only [Wire.inLimits, Bool.and_eq_true, decide_eq_true_eq] at hl
    simp only [Wire.fuelNeed] at hfu
    obtain ⟨⟨hd, hn⟩, hl⟩ := hl
    have := parseItems_complete_fuelNeed t xs fuel (d + 1) r hwf.2 hl (by omega)
    simp only [parseItem, Wire.bytes, List.append_assoc,
      parseHead_headBytes 4 xs.length hw _ (by omega) hwf.1, this]
    simp
    omega
  | .map hw xs, fuel + 1, d, r, hwf, hl, hfu => by
    simp only [Wire.wf, Bool.and_eq_true] at hwf
    simp only [Wire.inLimits, Bool.and_eq_true, decide_eq_true_eq] at hl
    simp only [Wire.fuelNeed] at hfu
    obtain ⟨⟨hd, hn⟩, hl⟩ := hl
    have := parsePairs_complete_fuelNeed t xs fuel (d + 1) r hwf.2 hl (by omega)
    simp only [parseItem, Wire.bytes, List.append_assoc,
      parseHead_headBytes 5 xs.length hw _ (by omega) hwf.1, this]
    simp
    omega
  | .tag hw n x, fuel + 1, d, r, hwf, hl, hfu => by
    simp only [Wire.wf, Bool.and_eq_true] at hwf
    simp only [Wire.inLimits, Bool.and_eq_true, decide_eq_true_eq] at hl
    simp only [Wire.fuelNeed] at hfu
    obtain ⟨ht, hd, hl⟩ := hl
    have := parseItem_complete_fuelNeed t x fuel _ r hwf.2 hl (by omega)
    simp only [parseItem, Wire.bytes, List.append_assoc,
      parseHead_headBytes 6 n hw _ (by omega) hwf.1, isTagByte_bytes r hwf.2, this]
    simp [ht]
    omega
  | .prim hw n, fuel + 1, d, r, hwf, _, _ => by
    have hf := Wire.wf_prim hwf
    simp only [parseItem, Wire.bytes, parseHead_headBytes 7 n hw r (by omega) hf]
    cases hw <;> simp [Wire.wf] at hwf ⊢
    omega
theorem parseItems_complete_fuelNeed (t : Bool) : ∀ (xs : List Wire) (fuel d : Nat) (r : Bytes),
    Wire.wfList xs = true → Wire.inLimitsList t d xs = true → Wire.fuelNeedList xs ≤ fuel →
    parseItems t fuel d xs.length (Wire.bytesList xs ++ r) = some (xs, r)
  | [], 0, _, _, _, _, hfu => by simp [Wire.fuelNeedList] at hfu
  | _ :: _, 0, _, _, _, _, hfu => by simp [Wire.fuelNeedList] at hfu
  | [], fuel + 1, d, r, _, _, _ => by simp [parseItems, Wire.bytesList]
  | x :: xs, fuel + 1, d, r, hwf, hl, hfu => by
    simp only [Wire.wfList, Bool.and_eq_true] at hwf
    simp only [Wire.inLimitsList, Bool.and_eq_true] at hl
    simp only [Wire.fuelNeedList] at hfu
    have h1 := parseItem_complete_fuelNeed t x fuel d (Wire.bytesList xs ++ r) hwf.1 hl.1
      (by omega)
    have h2 := parseItems_complete_fuelNeed t xs fuel d r hwf.2 hl.2 (by omega)
    simp only [parseItems, Wire.bytesList, List.length_cons, List.append_assoc, h1, h2]
theorem parsePairs_complete_fuelNeed (t : Bool) : ∀ (kvs : List (Wire × Wire)) (fuel d : Nat)
    (r : Bytes),
    Wire.wfPairs kvs = true → Wire.inLimitsPairs t d kvs = true → Wire.fuelNeedPairs kvs ≤ fuel →
    parsePairs t fuel d kvs.length (Wire.bytesPairs kvs ++ r) = some (kvs, r)
  | [], 0, _, _, _, _, hfu => by simp [Wire.fuelNeedPairs] at hfu
  | _ :: _, 0, _, _, _, _, hfu => by simp [Wire.fuelNeedPairs] at hfu
  | [], fuel + 1, d, r, _, _, _ => by simp [parsePairs, Wire.bytesPairs]
  | (k, v) :: xs, fuel + 1, d, r, hwf, hl, hfu => by
    simp only [Wire.wfPairs, Bool.and_eq_true] at hwf
    simp only [Wire.inLimitsPairs, Bool.and_eq_true] at hl
    simp only [Wire.fuelNeedPairs] at hfu
    have h1 := parseItem_complete_fuelNeed t k fuel d (v.bytes ++ (Wire.bytesPairs xs ++ r))
      hwf.1.1 hl.1.1 (by omega)
    have h2 := parseItem_complete_fuelNeed t v fuel d (Wire.bytesPairs xs ++ r)
      hwf.1.2 hl.1.2 (by omega)
    have h3 := parsePairs_complete_fuelNeed t xs fuel d r hwf.2 hl.2 (by omega)
    simp only [parsePairs, Wire.bytesPairs, List.length_cons, List.append_assoc, h1, h2, h3]
end

theorem Wire.size_pos (w : Wire) : 1 ≤ w.size := by
  cases w <;> simp [Wire.size]

mutual
theorem Wire.fuelNeed_le_size : ∀ (w : Wire), w.fuelNeed ≤ 2 * w.size
  | .uint .. => by simp [Wire.fuelNeed, Wire.size]
  | .nint .. => by simp [Wire.fuelNeed, Wire.size]
  | .bstr .. => by simp [Wire.fuelNeed, Wire.size]
  | .tstr .. => by simp [Wire.fuelNeed, Wire.size]
  | .prim .. => by simp [Wire.fuelNeed, Wire.size]
  | .arr _ xs => by
    have := Wire.fuelNeedList_le_size xs
    simp only [Wire.fuelNeed, Wire.size]; omega
  | .map _ kvs => by
    have := Wire.fuelNeedPairs_le_size kvs
    simp only [Wire.fuelNeed, Wire.size]; omega
  | .tag _ _ x => by
    have := Wire.fuelNeed_le_size x
    simp only [Wire.fuelNeed, Wire.size]; omega
theorem Wire.fuelNeedList_le_size : ∀ (xs : List Wire),
    Wire.fuelNeedList xs ≤ 2 * Wire.sizeList xs + 1
  | [] => by simp [Wire.fuelNeedList]
  | x :: xs => by
    have := Wire.fuelNeed_le_size x
    have := Wire.fuelNeedList_le_size xs
    have := x.size_pos
    simp only [Wire.fuelNeedList, Wire.sizeList]; omega
theorem Wire.fuelNeedPairs_le_size : ∀ (kvs : List (Wire × Wire)),
    Wire.fuelNeedPairs kvs ≤ 2 * Wire.sizePairs kvs + 1
  | [] => by simp [Wire.fuelNeedPairs]
  | (k, v) :: r => by
    have := Wire.fuelNeed_le_size k
    have := Wire.fuelNeed_le_size v
    have := Wire.fuelNeedPairs_le_size r
    have := k.size_pos
    have := v.size_pos
    simp only [Wire.fuelNeedPairs, Wire.sizePairs]; omega
end

mutual
/-- every node contributes at least one byte -/
theorem Wire.size_le_length : ∀ (w : Wire), w.size ≤ w.bytes.length
  | .uint hw n => by have := headBytes_length_pos 0 hw n; simp only [Wire.size, Wire.bytes]; omega
  | .nint hw n => by have := headBytes_length_pos 1 hw n; simp only [Wire.size, Wire.bytes]; omega
  | .bstr hw b => by
    have := headBytes_length_pos 2 hw b.length
    simp only [Wire.size, Wire.bytes, List.length_append]; omega
  | .tstr hw b => by
    have := headBytes_length_pos 3 hw b.length
    simp only [Wire.size, Wire.bytes, List.length_append]; omega
  | .prim hw n => by have := headBytes_length_pos 7 hw n; simp only [Wire.size, Wire.bytes]; omega
  | .arr hw xs => by
    have := headBytes_length_pos 4 hw xs.length
    have := Wire.sizeList_le_length xs
    simp only [Wire.size, Wire.bytes, List.length_append]; omega
  | .map hw kvs => by
    have := headBytes_length_pos 5 hw kvs.length
    have := Wire.sizePairs_le_length kvs
    simp only [Wire.size, Wire.bytes, List.length_append]; omega
  | .tag hw t x => by
    have := headBytes_length_pos 6 hw t
    have := Wire.size_le_length x
    simp only [Wire.size, Wire.bytes, List.length_append]; omega
theorem Wire.sizeList_le_length : ∀ (xs : List Wire),
    Wire.sizeList xs ≤ (Wire.bytesList xs).length
  | [] => by simp [Wire.sizeList]
  | x :: xs => by
    have := Wire.size_le_length x
    have := Wire.sizeList_le_length xs
    simp only [Wire.sizeList, Wire.bytesList, List.length_append]; omega
theorem Wire.sizePairs_le_length : ∀ (kvs : List (Wire × Wire)),
    Wire.sizePairs kvs ≤ (Wire.bytesPairs kvs).length
  | [] => by simp [Wire.sizePairs]
  | (k, v) :: r => by
    have := Wire.size_le_length k
    have := Wire.size_le_length v
    have := Wire.sizePairs_le_length r
    simp only [Wire.sizePairs, Wire.bytesPairs, List.length_append]; omega
end

theorem parseItem_complete {t : Bool} {w : Wire} {fuel d : Nat} (r : Bytes)
    (hwf : w.wf = true) (hl : w.inLimits t d = true) (hfu : 2 * w.size ≤ fuel) :
    parseItem t fuel d (w.bytes ++ r) = some (w, r) :=
  parseItem_complete_fuelNeed t w fuel d r hwf hl (Nat.le_trans w.fuelNeed_le_size hfu)

theorem parseItems_complete {t : Bool} {xs : List Wire} {fuel d : Nat} (r : Bytes)
    (hwf : Wire.wfList xs = true) (hl : Wire.inLimitsList t d xs = true)
    (hfu : 2 * Wire.sizeList xs + 1 ≤ fuel) :
    parseItems t fuel d xs.length (Wire.bytesList xs ++ r) = some (xs, r) :=
  parseItems_complete_fuelNeed t xs fuel d r hwf hl
    (Nat.le_trans (Wire.fuelNeedList_le_size xs) hfu)

theorem parsePairs_complete {t : Bool} {kvs : List (Wire × Wire)} {fuel d : Nat} (r : Bytes)
    (hwf : Wire.wfPairs kvs = true) (hl : Wire.inLimitsPairs t d kvs = true)
    (hfu : 2 * Wire.sizePairs kvs + 1 ≤ fuel) :
    parsePairs t fuel d kvs.length (Wire.bytesPairs kvs ++ r) = some (kvs, r) :=
  parsePairs_complete_fuelNeed t kvs fuel d r hwf hl
    (Nat.le_trans (Wire.fuelNeedPairs_le_size kvs) hfu)

/-- `fuelFor` supplies enough fuel for the first item of the input, whatever follows it -/
theorem parseFirst_complete {t : Bool} {w : Wire} (r : Bytes)
    (hwf : w.wf = true) (hl : w.inLimits t 0 = true) :
    parseFirst t (w.bytes ++ r) = some (w, r) := by
  have := w.size_le_length
  exact parseItem_complete r hwf hl (by simp only [fuelFor, List.length_append]; omega)

theorem parseTop_complete {t : Bool} {w : Wire}
    (hwf : w.wf = true) (hl : w.inLimits t 0 = true) : parseTop t w.bytes = some w := by
  have h := parseFirst_complete (t := t) [] hwf hl
  simp only [List.append_nil, parseFirst] at h
  simp only [parseTop, h]

/-! ### D'. the limits gate is antitone in the depth -/

mutual
/-- a tree within the parser's limits when met at depth `d` is within them at any smaller depth -/
theorem Wire.inLimits_anti (t : Bool) : ∀ (w : Wire) (d d' : Nat), d' ≤ d →
    w.inLimits t d = true → w.inLimits t d' = true
  | .uint .., _, _, _, _ => by simp [Wire.inLimits]
  | .nint .., _, _, _, _ => by simp [Wire.inLimits]
  | .bstr .., _, _, _, _ => by simp [Wire.inLimits]
  | .tstr .., _, _, _, _ => by simp [Wire.inLimits]
  | .prim .., _, _, _, _ => by simp [Wire.inLimits]
  | .arr _ xs, d, d', hle, h => by
    simp only [Wire.inLimits, Bool.and_eq_true, decide_eq_true_eq] at h ⊢
    exact ⟨⟨by omega, h.1.2⟩, Wire.inLimitsList_anti t xs (d + 1) (d' + 1) (by omega) h.2⟩
  | .map _ kvs, d, d', hle, h => by
    simp only [Wire.inLimits, Bool.and_eq_true, decide_eq_true_eq] at h ⊢
    exact ⟨⟨by omega, h.1.2⟩, Wire.inLimitsPairs_anti t kvs (d + 1) (d' + 1) (by omega) h.2⟩
  | .tag _ _ x, d, d', hle, h => by
    simp only [Wire.inLimits, Bool.and_eq_true, decide_eq_true_eq] at h ⊢
    cases hx : x.isTag
    · simp only [hx, Bool.false_eq_true, if_false] at h ⊢
      exact ⟨h.1, by omega, Wire.inLimits_anti t x d d' hle h.2.2⟩
    · simp only [hx, if_true] at h ⊢
      exact ⟨h.1, by omega, Wire.inLimits_anti t x (d + 1) (d' + 1) (by omega) h.2.2⟩
theorem Wire.inLimitsList_anti (t : Bool) : ∀ (xs : List Wire) (d d' : Nat), d' ≤ d →
    Wire.inLimitsList t d xs = true → Wire.inLimitsList t d' xs = true
  | [], _, _, _, _ => by simp [Wire.inLimitsList]
  | x :: xs, d, d', hle, h => by
    simp only [Wire.inLimitsList, Bool.and_eq_true] at h ⊢
    exact ⟨Wire.inLimits_anti t x d d' hle h.1, Wire.inLimitsList_anti t xs d d' hle h.2⟩
theorem Wire.inLimitsPairs_anti (t : Bool) : ∀ (kvs : List (Wire × Wire)) (d d' : Nat), d' ≤ d →
    Wire.inLimitsPairs t d kvs = true → Wire.inLimitsPairs t d' kvs = true
  | [], _, _, _, _ => by simp [Wire.inLimitsPairs]
  | (k, v) :: r, d, d', hle, h => by
    simp only [Wire.inLimitsPairs, Bool.and_eq_true] at h ⊢
    exact ⟨⟨Wire.inLimits_anti t k d d' hle h.1.1, Wire.inLimits_anti t v d d' hle h.1.2⟩,
      Wire.inLimitsPairs_anti t r d d' hle h.2⟩
end

/-- the tags-forbidden well-formedness pass (`decModeWithTagsForbidden.Wellformed`) accepts the
    bytes of every well-formed tree that is within the parser's limits from depth 0 -/
theorem wellformedNoTags_bytes {w : Wire}
    (hwf : w.wf = true) (hl : w.inLimits false 0 = true) : wellformedNoTags w.bytes = true := by
  simp only [wellformedNoTags, parseTop_complete hwf hl, Option.isSome_some]

/-- the same for a tree known to be within the limits at some depth `d` (e.g. a bucket that was
    shown to fit inside an envelope): the stand-alone pass starts at depth 0 -/
theorem wellformedNoTags_bytes_at {w : Wire} {d : Nat}
    (hwf : w.wf = true) (hl : w.inLimits false d = true) : wellformedNoTags w.bytes = true :=
  wellformedNoTags_bytes hwf (Wire.inLimits_anti false w d 0 (Nat.zero_le d) hl)

/-- what the pass accepting some bytes means: they are the bytes of one tag-free well-formed
    tree within the limits -/
theorem wellformedNoTags_iff {bs : Bytes} :
    wellformedNoTags bs = true ↔ ∃ w, parseTop false bs = some w := by
  simp only [wellformedNoTags, Option.isSome_iff_exists]

/-! ### E. uniqueness -/

theorem parseTop_bytes_inj {t : Bool} {bs bs' : Bytes} {w : Wire}
    (h : parseTop t bs = some w) (h' : parseTop t bs' = some w) : bs = bs' := by
  rw [(parseTop_sound h).1, (parseTop_sound h').1]

theorem wire_bytes_inj {t : Bool} {w w' : Wire} (hwf : w.wf = true) (hwf' : w'.wf = true)
    (hl : w.inLimits t 0 = true) (hl' : w'.inLimits t 0 = true) (hb : w.bytes = w'.bytes) :
    w = w' := by
  have h := parseTop_complete hwf hl
  have h' := parseTop_complete hwf' hl'
  rw [hb, h'] at h
  exact (Option.some.inj h).symm

/-- prefix-freeness: a well-formed encoding determines the item and the remainder -/
theorem wire_bytes_append_inj {t : Bool} {w w' : Wire} {r r' : Bytes} (hwf : w.wf = true)
    (hwf' : w'.wf = true) (hl : w.inLimits t 0 = true) (hl' : w'.inLimits t 0 = true)
    (hb : w.bytes ++ r = w'.bytes ++ r') : w = w' ∧ r = r' := by
  have h := parseFirst_complete r hwf hl
  have h' := parseFirst_complete r' hwf' hl'
  rw [hb, h'] at h
  simp only [Option.some.injEq, Prod.mk.injEq] at h
  exact ⟨h.1.symm, h.2.symm⟩

end CoseModel
