import CoseModel.Cbor
namespace CoseModel

theorem parseHead_headBytes (m n : Nat) (w : HW) (r : Bytes) (hm : m < 8) (hf : w.fits n = true) :
    parseHead (headBytes m w n ++ r) = some (m, w, n, r) := by
  cases w <;> simp only [HW.fits, decide_eq_true_eq] at hf
  all_goals
    simp only [headBytes, parseHead, List.cons_append, List.nil_append, UInt8.toNat_ofNat', Nat.reducePow]
  · have h1 : (m * 32 + n) % 256 / 32 = m := by omega
    have h2 : (m * 32 + n) % 256 % 32 = n := by omega
    simp only [h1, h2, hf, if_true]
  · have h1 : (m * 32 + 24) % 256 / 32 = m := by omega
    have h2 : (m * 32 + 24) % 256 % 32 = 24 := by omega
    have h3 : n % 256 = n := by omega
    simp [h1, h2, h3]
  · have h1 : (m * 32 + 25) % 256 / 32 = m := by omega
    have h2 : (m * 32 + 25) % 256 % 32 = 25 := by omega
    simp only [h1, h2]
    simp
    omega
  · have h1 : (m * 32 + 26) % 256 / 32 = m := by omega
    have h2 : (m * 32 + 26) % 256 % 32 = 26 := by omega
    simp only [h1, h2]
    simp
    omega
  · have h1 : (m * 32 + 27) % 256 / 32 = m := by omega
    have h2 : (m * 32 + 27) % 256 % 32 = 27 := by omega
    simp only [h1, h2]
    simp
    omega

end CoseModel
