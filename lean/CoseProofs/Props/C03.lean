/-
  C03 — Verify accepts exactly the signatures the verifier accepts over the ToBeSigned computed
  from the received bytes (C02 shows those bytes are the RFC Sig_structure).
-/
import CoseModel.Messages
open CoseModel
namespace C03

/-- COSE_Sign1: Verify returns nil iff payload present, signature non-empty, the algorithm gate
    passes, ToBeSigned is computable and the verifier accepts (ToBeSigned, signature). -/
theorem verify1_iff (m : Sign1Msg) (ext : Option Bytes) (v : Verifier) :
    (Sign1.verify m ext v).1 = .ok () ↔
      m.payload.isSome ∧ blen m.sig ≠ 0 ∧ ensureVerificationAlgorithm m.h.p v.alg ext = .ok () ∧
      ∃ t, Sign1.toBeSigned m ext = .ok t ∧ v.verify t (m.sig.getD []) = .ok () := by
  unfold Sign1.verify
  cases hp : m.payload with
  | none => simp
  | some pl =>
    by_cases hs : blen m.sig = 0
    · simp [hs]
    · simp only [Option.isNone_some, Bool.false_eq_true, if_false, hs, Option.isSome_some, ne_eq,
        not_false_eq_true, true_and]
      cases hg : ensureVerificationAlgorithm m.h.p v.alg ext with
      | ok u =>
        cases u
        simp only [true_and]
        cases ht : Sign1.toBeSigned m ext with
        | ok t => simp
        | err e => simp
        | panic => simp
        | unmodelled => simp
      | err e => simp
      | panic => simp
      | unmodelled => simp

/-- COSE_Signature (one signer of a COSE_Sign) -/
theorem verifySig_iff (sg : SigV) (v : Verifier) (bprot : Bytes) (payload ext : Option Bytes) :
    (Signature.verify sg v bprot payload ext).1 = .ok () ↔
      payload.isSome ∧ blen sg.sig ≠ 0 ∧ bodyProtOK bprot = true ∧
      ensureVerificationAlgorithm sg.h.p v.alg ext = .ok () ∧
      ∃ t, Signature.toBeSigned sg bprot payload ext = .ok t ∧ v.verify t (sg.sig.getD []) = .ok () := by
  unfold Signature.verify
  cases hp : payload with
  | none => simp
  | some pl =>
    by_cases hs : blen sg.sig = 0
    · simp [hs]
    · by_cases hb : bodyProtOK bprot = true
      · simp only [Option.isNone_some, Bool.false_eq_true, if_false, hs, hb, Bool.not_true, Option.isSome_some,
          ne_eq, not_false_eq_true, true_and]
        cases hg : ensureVerificationAlgorithm sg.h.p v.alg ext with
        | ok u =>
          cases u
          simp only [true_and]
          cases ht : Signature.toBeSigned sg bprot (some pl) ext with
          | ok t => simp
          | err e => simp
          | panic => simp
          | unmodelled => simp
        | err e => simp
        | panic => simp
        | unmodelled => simp
      · simp [hs, hb]

/-- countersignature -/
theorem verifyCsig_iff (cs : SigV) (v : Verifier) (parent : Parent) (ext : Option Bytes) :
    (Countersignature.verify cs v parent ext).1 = .ok () ↔
      blen cs.sig ≠ 0 ∧ ensureVerificationAlgorithm cs.h.p v.alg ext = .ok () ∧
      ∃ t, Countersignature.toBeSigned cs parent ext = .ok t ∧ v.verify t (cs.sig.getD []) = .ok () := by
  unfold Countersignature.verify
  by_cases hs : blen cs.sig = 0
  · simp [hs]
  · simp only [hs, if_false, ne_eq, not_false_eq_true, true_and]
    cases hg : ensureVerificationAlgorithm cs.h.p v.alg ext with
    | ok u =>
      cases u
      simp only [true_and]
      cases ht : Countersignature.toBeSigned cs parent ext with
      | ok t => simp
      | err e => simp
      | panic => simp
      | unmodelled => simp
    | err e => simp
    | panic => simp
    | unmodelled => simp

/-- abbreviated countersignature -/
theorem verifyCsign0_iff (v : Verifier) (parent : Parent) (ext : Option Bytes) (sig : Bytes) :
    (verifyCountersign0 v parent ext sig).1 = .ok () ↔
      ∃ t, countersignToBeSigned true parent [0x40] ext = .ok t ∧ v.verify t sig = .ok () := by
  unfold verifyCountersign0
  cases countersignToBeSigned true parent [0x40] ext with
  | ok t => simp
  | err e => simp
  | panic => simp
  | unmodelled => simp

/-- the unprotected headers do not influence the verdict: two messages that differ only there
    get the same answer from the same verifier -/
theorem verify_indep_unprotected (m : Sign1Msg) (ext : Option Bytes) (v : Verifier) (ru : Option Bytes) (u : GoMap) :
    Sign1.verify { m with h := { m.h with rawU := ru, u := u } } ext v = Sign1.verify m ext v := by
  simp [Sign1.verify, Sign1.toBeSigned, marshalProtected]

/-- a verifier that rejects (any error) is never turned into success -/
theorem verify1_reject (m : Sign1Msg) (ext : Option Bytes) (v : Verifier)
    (h : ∀ t s, v.verify t s ≠ .ok ()) : (Sign1.verify m ext v).1 ≠ .ok () := by
  intro hc
  obtain ⟨_, _, _, t, _, hv⟩ := (verify1_iff m ext v).mp hc
  exact h _ _ hv

end C03
