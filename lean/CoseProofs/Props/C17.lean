/-
  C17 — built-in signers / verifiers exist only for matching, adequate keys (signer.go:60,
  verifier.go:51), with the documented error classes, and report the requested algorithm.
  The digest equivalence (Sign = SignDigest ∘ hash) is structural in the Go code
  (ecdsa.go:38, rsa.go:21) and exercised with real keys by the `digest` sweep.
-/
import CoseModel.HashEnvelope
import CoseModel.Generated.Facts
open CoseModel
namespace C17

def keyFits (alg : Int) (verifier : Bool) : KeyKind → Bool
  | .rsa bits => familyOf alg = .rsaPss && bits ≥ 2048
  | .ecdsa ok => familyOf alg = .ecdsa && (!verifier || ok)
  | .ed25519 => familyOf alg = .eddsa
  | .foreign => false

/-- NewSigner succeeds exactly for a key of the algorithm's family (RSA ≥ 2048 bits) -/
theorem newSigner_iff (alg : Int) (k : KeyKind) :
    (∃ a, newSigner alg k = .ok a) ↔ keyFits alg false k = true := by
  unfold newSigner keyFits
  cases familyOf alg <;> cases k <;> simp
  all_goals (first | omega | (split <;> simp <;> omega))

/-- NewVerifier additionally demands a point crypto/ecdh accepts -/
theorem newVerifier_iff (alg : Int) (k : KeyKind) :
    (∃ a, newVerifier alg k = .ok a) ↔ keyFits alg true k = true := by
  unfold newVerifier keyFits
  cases familyOf alg <;> cases k <;> simp
  all_goals (first | omega | (split <;> simp <;> omega) | (rename_i ok; cases ok <;> simp))

/-- the returned object reports the requested algorithm -/
theorem reports_requested_alg (alg a : Int) (k : KeyKind) :
    (newSigner alg k = .ok a → a = alg) ∧ (newVerifier alg k = .ok a → a = alg) := by
  unfold newSigner newVerifier
  have hed : familyOf alg = .eddsa → alg = -8 := by
    unfold familyOf; intro h; split at h <;> (try cases h); split at h <;> (try cases h); split at h <;> (try cases h); assumption
  constructor <;> intro h <;> cases hf : familyOf alg <;> cases k <;> simp [hf] at h
  all_goals first
    | (split at h <;> simp_all)
    | (have := hed hf; omega)
    | simp_all
    | (rename_i ok; cases ok <;> simp_all)

/-- reserved (0), RS256/384/512 and every unknown id: "algorithm not supported", whatever the key -/
theorem unsupported_alg (alg : Int) (k : KeyKind) (h : familyOf alg = .none) :
    newSigner alg k = .error .algNotSupported ∧ newVerifier alg k = .error .algNotSupported := by
  simp [newSigner, newVerifier, h]

theorem reserved_and_rs_unsupported :
    familyOf 0 = .none ∧ familyOf (-257) = .none ∧ familyOf (-258) = .none ∧ familyOf (-259) = .none := by decide

/-- exactly the seven built-in ids have a family -/
theorem family_iff (alg : Int) :
    familyOf alg ≠ .none ↔ alg = -37 ∨ alg = -38 ∨ alg = -39 ∨ alg = -7 ∨ alg = -35 ∨ alg = -36 ∨ alg = -8 := by
  unfold familyOf
  constructor
  · intro h
    split at h
    · omega
    · split at h
      · omega
      · split at h
        · omega
        · exact absurd rfl h
  · intro h
    rcases h with h | h | h | h | h | h | h <;> subst h <;> decide

/-- a key of another family is "invalid public key" -/
theorem wrong_family (alg : Int) (k : KeyKind) (hf : familyOf alg ≠ .none)
    (hk : ∀ bits, k ≠ .rsa bits ∨ familyOf alg ≠ .rsaPss) (hfit : keyFits alg false k = false) :
    newSigner alg k = .error .invalidPub := by
  unfold keyFits at hfit
  unfold newSigner
  cases hfam : familyOf alg <;> cases k <;> simp_all

theorem short_rsa_refused (alg : Int) (bits : Nat) (h : bits < 2048) :
    (∀ a, newSigner alg (.rsa bits) ≠ .ok a) ∧ (∀ a, newVerifier alg (.rsa bits) ≠ .ok a) := by
  constructor <;> intro a hc
  · have := (newSigner_iff alg (.rsa bits)).mp ⟨a, hc⟩
    simp [keyFits] at this; omega
  · have := (newVerifier_iff alg (.rsa bits)).mp ⟨a, hc⟩
    simp [keyFits] at this; omega

example : newSigner (-37) (.rsa 2048) = .ok (-37) := by rfl
example : newSigner (-37) (.rsa 2047) = .error .other := by rfl
example : newVerifier (-7) (.ecdsa false) = .error .invalidPub := by rfl

end C17
