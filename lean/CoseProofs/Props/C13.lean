/-
  C13 — the RFC 9052 §3.1 parameter rules, enforced by one function (`validateHeaderParameters`)
  in both directions, with a verdict that does not depend on the Go integer type of a label.
-/
import CoseModel.Messages
import CoseModel.Generated.Facts
open CoseModel
namespace C13

/-- a label's normal form does not depend on which Go integer type spells it: for a value `v`
    of both types (`k.lo ≤ v ≤ k.hi`, `k'.lo ≤ v ≤ k'.hi`).  [Before 0eeddbc this held for every
    `v`, `uint64(2^64-1)` and `int64(-1)` being the same label.] -/
theorem normalize_spelling (k k' : IntKind) (v : Int) (hk : v ≤ k.hi) (hk' : v ≤ k'.hi) :
    normalizeLabel (.int k v) = normalizeLabel (.int k' v) := by
  by_cases hv : v ≤ maxInt64
  · rw [normalizeLabel_int_of_le k hv, normalizeLabel_int_of_le k' hv]
  · have hw : ∀ j : IntKind, v ≤ j.hi → normalizeLabel (.int j v) = none := by
      intro j hj
      rw [normalizeLabel_int_eq_none]
      refine ⟨?_, by omega⟩
      cases j <;> first | rfl | (simp only [IntKind.hi, maxInt64] at hj hv; omega)
    rw [hw k hk, hw k' hk']

/-- … and within int64 it is the value itself, whatever the type -/
theorem normalize_spelling_int64 (k k' : IntKind) (v : Int) (hv : v ≤ maxInt64) :
    normalizeLabel (.int k v) = normalizeLabel (.int k' v) := by
  rw [normalizeLabel_int_of_le k hv, normalizeLabel_int_of_le k' hv]

/-- a `uint` / `uint64` above `math.MaxInt64` is not a label (0eeddbc): it is refused like a
    `bool` or a byte string, not wrapped to a negative one -/
theorem normalize_refuses_wide (k : IntKind) (v : Int) (hk : k = .u ∨ k = .u64)
    (hv : v > maxInt64) : normalizeLabel (.int k v) = none := by
  rcases hk with rfl | rfl <;> simp [normalizeLabel, IntKind.wide, hv]

/-- every label `normalizeLabel` accepts from a Go value within its type's range is that value
    as an `int64` (no wrapping is left) -/
theorem normalize_no_wrap (k : IntKind) (v : Int) (n : GoVal) (hlo : k.lo ≤ v) (hhi : v ≤ k.hi)
    (h : normalizeLabel (.int k v) = some n) : n = .int .i64 v := by
  have hn := normalizeLabel_int_eq_some h
  have hle : v ≤ maxInt64 := by
    cases hw : k.wide with
    | true =>
      have hne : normalizeLabel (.int k v) ≠ none := by rw [h]; simp
      rw [Ne, normalizeLabel_int_eq_none] at hne
      simp only [hw, true_and] at hne
      omega
    | false =>
      cases k <;> simp [IntKind.wide] at hw <;> simp only [IntKind.hi, maxInt64] at * <;> omega
  have hge : (-9223372036854775808 : Int) ≤ v := by
    cases k <;> simp only [IntKind.lo] at hlo <;> omega
  rw [hn]
  congr 1
  simp only [maxInt64] at hle
  unfold wrap64
  simp only
  split <;> omega

/-- labels that are neither integers nor text are refused -/
theorem label_type_rule (l : GoVal) (h : normalizeLabel l = none) (v : GoVal) (rest : GoMap) (prot : Bool)
    (hm : GoMap) (seen : List GoVal) : validateLoop hm prot ((l, v) :: rest) seen = false := by
  simp [validateLoop, h]

/-- the decoder and the encoder run the same validation function on the same representation:
    the protected decoder accepts only what `validateHeaderParameters … true` accepts -/
theorem decode_protected_validated (enc : Bytes) (m : GoMap) (h : decProtectedContent enc = .ok m) :
    enc = [] ∧ m = [] ∨ ∃ m0, validateHeaderParameters m0 true = true ∧ m = castAlg m0 := by
  unfold decProtectedContent at h
  split at h
  · left; cases h; exact ⟨rfl, rfl⟩
  · right
    split at h
    · cases h
    · split at h
      · rename_i kvs _
        cases hl : labelsOK kvs [] with
        | ok u =>
          simp only [hl, bind, Out.bind] at h
          split at h
          · cases h
          cases hd : decodePairs kvs [] with
          | ok m0 =>
            simp only [hd] at h
            by_cases hv : validateHeaderParameters m0 true = true
            · simp only [hv, Bool.not_true, Bool.false_eq_true, if_false] at h
              cases h; exact ⟨m0, hv, rfl⟩
            · simp [hv] at h
          | err e => simp [hd] at h
          | panic => simp [hd] at h
          | unmodelled => simp [hd] at h
        | err e => simp [hl, bind, Out.bind] at h
        | panic => simp [hl, bind, Out.bind] at h
        | unmodelled => simp [hl, bind, Out.bind] at h
      · cases h

/-- … and the encoder emits a non-empty protected map only after the same validation -/
theorem encode_protected_validated (e : GoVal × GoVal) (es : GoMap) (b : Bytes)
    (h : encodeBucket encCfg true none (e :: es) = some b) : validateHeaderParameters (e :: es) true = true := by
  unfold encodeBucket at h
  by_cases hv : validateHeaderParameters (e :: es) true = true
  · exact hv
  · simp [encCfg, hv] at h

theorem encode_unprotected_validated (e : GoVal × GoVal) (es : GoMap) (b : Bytes)
    (h : encodeBucket encCfg false none (e :: es) = some b) : validateHeaderParameters (e :: es) false = true := by
  unfold encodeBucket at h
  by_cases hv : validateHeaderParameters (e :: es) false = true
  · exact hv
  · simp [encCfg, hv] at h

/-- per-parameter rules (checkParam): kid / IV / Partial IV / abbreviated countersignatures are
    byte strings; a typed-nil slice does not count -/
theorem bstr_params (h : GoMap) (prot : Bool) (v : GoVal) :
    (checkParam h prot (.int .i64 4) v = true → ∃ b, v = .bytes b) ∧
    (checkParam h prot (.int .i64 5) v = true → ∃ b, v = .bytes b) ∧
    (checkParam h prot (.int .i64 6) v = true → ∃ b, v = .bytes b) ∧
    (checkParam h prot (.int .i64 9) v = true → (∃ b, v = .bytes b) ∧ prot = false) ∧
    (checkParam h prot (.int .i64 12) v = true → (∃ b, v = .bytes b) ∧ prot = false) := by
  refine ⟨?_, ?_, ?_, ?_, ?_⟩ <;> intro hc <;> cases v <;> simp_all [checkParam, canBstr]

/-- crit only in the protected bucket; countersignature parameters only unprotected and holding
    countersignature objects (a non-nil pointer or a non-empty list of non-nil pointers) -/
theorem bucket_rules (h : GoMap) (v : GoVal) :
    checkParam h false (.int .i64 2) v = false ∧
    checkParam h true (.int .i64 7) v = false ∧ checkParam h true (.int .i64 11) v = false ∧
    checkParam h true (.int .i64 9) v = false ∧ checkParam h true (.int .i64 12) v = false := by
  simp [checkParam]

theorem csig_value_rule (h : GoMap) (v : GoVal) (hc : checkParam h false (.int .i64 7) v = true) :
    (∃ rp p ru u s, v = .csig rp p ru u s) ∨
    (∃ cs, v = .csigs cs ∧ cs ≠ [] ∧ ∀ c ∈ cs, ∃ rp p ru u s, c = .csig rp p ru u s) := by
  simp only [checkParam, Bool.not_false, Bool.true_and] at hc
  cases v <;> simp [isCsigValue] at hc
  · left; exact ⟨_, _, _, _, _, rfl⟩
  · right
    rename_i cs
    refine ⟨cs, rfl, ?_, ?_⟩
    · intro he; simp [he] at hc
    · intro c hcm
      have := hc.2 c hcm
      cases c <;> simp at this
      exact ⟨_, _, _, _, _, rfl⟩

/-- crit: a non-empty array of int / tstr labels, each present in the same bucket -/
theorem crit_rule (h : GoMap) (v : GoVal) (hc : checkParam h true (.int .i64 2) v = true) :
    ∃ labels, v = .arr labels ∧ labels ≠ [] ∧
      ∀ l ∈ labels, (canInt l = true ∨ canTstr l = true) ∧ hasLabel h l = true := by
  simp only [checkParam, Bool.true_and] at hc
  cases v <;> simp [ensureCritical] at hc
  rename_i labels
  refine ⟨labels, rfl, ?_, ?_⟩
  · intro he; simp [he] at hc
  · intro l hl
    have := hc.2 l hl
    simpa using this

/-- IV and Partial IV never coexist in one bucket -/
theorem iv_piv_exclusive (h : GoMap) (prot : Bool) (v : GoVal) :
    (checkParam h prot (.int .i64 5) v = true → hasLabel h (lbl 6) = false) ∧
    (checkParam h prot (.int .i64 6) v = true → hasLabel h (lbl 5) = false) := by
  constructor <;> intro hc <;> simp [checkParam] at hc <;> exact hc.2

/-- … nor across the two buckets of one layer -/
theorem iv_piv_cross (p u : GoMap) (h : ensureIV p u = true) :
    ¬ (hasLabel p (lbl 5) = true ∧ hasLabel u (lbl 6) = true) ∧
    ¬ (hasLabel p (lbl 6) = true ∧ hasLabel u (lbl 5) = true) := by
  simp [ensureIV] at h
  constructor
  · rintro ⟨h1, h2⟩; rcases h.1 with h3 | h3 <;> simp_all
  · rintro ⟨h1, h2⟩; rcases h.2 with h3 | h3 <;> simp_all

/-- alg is int or tstr -/
theorem alg_rule (h : GoMap) (prot : Bool) (v : GoVal) (hc : checkParam h prot (.int .i64 1) v = true) :
    (∃ a, v = .alg a) ∨ (∃ k n, v = .int k n) ∨ (∃ s, v = .str s) := by
  cases v <;> simp [checkParam, canInt, canTstr] at hc
  · right; left; exact ⟨_, _, rfl⟩
  · left; exact ⟨_, rfl⟩
  · right; right; exact ⟨_, rfl⟩

end C13
