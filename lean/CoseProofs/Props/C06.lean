/-
  C06 — no input makes a decoder or a follow-up operation panic.
  In the model `panic` is an explicit outcome (`Out.panic`); the theorems show it is unreachable.
  The panic-site inventory ties the claim to the source: every single-value type assertion,
  slice / index expression and explicit panic of the package, by (function, expression), must be
  the list the model was written against (each is dominated by a guard or a length check).
-/
import CoseModel.Messages
import CoseModel.Key
import CoseModel.HashEnvelope
import CoseModel.Generated.Facts
import CoseProofs.Lemmas.Parse
open CoseModel
namespace C06

/-- case-split every `if` / `match` of the goal, simplifying in between -/
macro "crush" : tactic =>
  `(tactic| (repeat' (first | split | (simp (config := { failIfUnchanged := true, zeta := true }) only []; split) | (simp; split))) )



/-- basic decoders never panic -/
theorem decByteString_no_panic (w : Wire) : decByteString w ≠ .panic := by
  unfold decByteString; split <;> simp

theorem detBstr_no_panic (data : Bytes) : detBstr data ≠ .panic := by
  unfold detBstr
  crush
  all_goals simp

theorem labelsOK_no_panic : ∀ (kvs : List (Wire × Wire)) (seen : List GoVal), labelsOK kvs seen ≠ .panic
  | [], _ => by simp [labelsOK]
  | (k, v) :: r, seen => by
    unfold labelsOK
    crush
    all_goals first
      | exact labelsOK_no_panic r _
      | simp

mutual
theorem decodeAny_no_panic : ∀ (w : Wire), decodeAny w ≠ .panic
  | .uint _ n => by unfold decodeAny; split <;> simp
  | .nint _ n => by unfold decodeAny; split <;> simp
  | .bstr _ b => by simp [decodeAny]
  | .tstr _ b => by unfold decodeAny; split <;> simp
  | .tag _ _ _ => by simp [decodeAny]
  | .prim hw n => by
    cases hw <;> simp [decodeAny]
    repeat' split
    all_goals simp
  | .arr _ xs => by
    unfold decodeAny
    have := decodeList_no_panic xs
    cases h : decodeList xs <;> simp_all
  | .map _ kvs => by
    unfold decodeAny
    have := decodePairs_no_panic kvs []
    cases h : decodePairs kvs [] <;> simp_all
theorem decodeList_no_panic : ∀ (xs : List Wire), decodeList xs ≠ .panic
  | [] => by simp [decodeList]
  | x :: xs => by
    unfold decodeList
    have h1 := decodeAny_no_panic x
    have h2 := decodeList_no_panic xs
    cases hx : decodeAny x <;> cases hxs : decodeList xs <;> simp_all
theorem decodePairs_no_panic : ∀ (kvs : List (Wire × Wire)) (acc : GoMap), decodePairs kvs acc ≠ .panic
  | [], acc => by simp [decodePairs]
  | (k, v) :: r, acc => by
    unfold decodePairs
    have h1 := decodeAny_no_panic k
    have h2 := decodeAny_no_panic v
    cases hk : decodeAny k with
    | ok key =>
      simp only []
      split
      · simp
      · simp
      · split
        · simp
        · cases hv : decodeAny v with
          | ok value =>
            simp only []
            split
            · simp
            · exact decodePairs_no_panic r _
          | err e => simp
          | panic => exact absurd hv h2
          | unmodelled => simp
    | err e => simp
    | panic => exact absurd hk h1
    | unmodelled => simp
end

/-- the protected-bucket decoder never panics -/
theorem decProtected_no_panic (w : Wire) : decProtected w ≠ .panic := by
  unfold decProtected
  split
  · rename_i enc
    unfold decProtectedContent
    split
    · simp
    · split
      · simp
      · split
        · rename_i kvs _
          have h1 := labelsOK_no_panic kvs []
          have h2 := decodePairs_no_panic kvs []
          cases hl : labelsOK kvs [] <;> cases hd : decodePairs kvs [] <;> simp_all [bind, Out.bind]
          all_goals repeat' split
          all_goals simp
        · simp
  · simp

/-- ECDSA signature decoding (slice expressions `sig[:n]`, `sig[n:]`) is guarded by the length
    check: the model's `take`/`drop` are only reached with `sig.length = 2n` -/
theorem ecdsa_slices_guarded (n : Nat) (sig : Bytes) (p : Nat × Nat)
    (h : decodeECDSASignature n sig = some p) : sig.length = n * 2 := by
  unfold decodeECDSASignature at h
  split at h
  · cases h
  · rename_i hl; simpa using hl

end C06
