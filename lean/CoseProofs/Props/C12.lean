/-
  C12 — hash envelopes: only conforming envelopes are produced or accepted (hash_envelope.go).
-/
import CoseModel.HashEnvelope
import CoseModel.Generated.Facts
open CoseModel
namespace C12

/-- digest lengths of the known hash algorithms -/
theorem hash_sizes : hashSize (-16) = 32 ∧ hashSize (-43) = 48 ∧ hashSize (-44) = 64 := by decide

/-- a hash value of the wrong length for a known hash algorithm is refused before anything else -/
theorem sign_wrong_length_refused (s : Signer) (h : Hdrs) (p : HashPayload)
    (hk : hashSize p.alg ≠ 0) (hl : hashSize p.alg ≠ blen p.value) :
    (signHashEnvelope s h p).1 = .err .other ∧ (signHashEnvelope s h p).2 = [] := by
  simp [signHashEnvelope, validateHash, hk, hl]

/-- the unprotected bucket of an accepted / produced envelope holds none of 3, 258, 259, 260 -/
theorem unprot_rule : ∀ (u : GoMap), hashUnprotOK u = true →
    ∀ e ∈ u, ∀ n, normalizeLabel e.1 = some (.int .i64 n) → n ≠ 3 ∧ n ≠ 258 ∧ n ≠ 259 ∧ n ≠ 260
  | [], _, e, he, _, _ => by cases he
  | (l, v) :: r, h, e, he, n, hn => by
    unfold hashUnprotOK at h
    rcases List.mem_cons.mp he with rfl | hr
    · simp only at hn
      rw [hn] at h
      refine ⟨?_, ?_, ?_, ?_⟩ <;> intro hc <;> subst hc <;> simp at h
    · have hrest : hashUnprotOK r = true := by
        cases hl : normalizeLabel l with
        | none => simp [hl] at h
        | some nl =>
          rw [hl] at h
          split at h <;> first | (cases h) | exact h
      exact unprot_rule r hrest e hr n hn

/-- VerifyHashEnvelope returns a message only if the signature verified, the header rules held
    and the digest length matches -/
theorem verify_rules (v : Verifier) (env : Bytes) (m : Sign1Msg)
    (h : (verifyHashEnvelope v env).1 = .ok m) :
    ∃ m0, Sign1.unmarshal true env = .ok m0 ∧ validateHashEnvelopeHeaders m0.h.p m0.h.u = true ∧
      (Sign1.verify m0 none v).1 = .ok () ∧
      ∃ a, payloadHashAlgorithm m0.h.p = .found a ∧ validateHash a m0.payload = true ∧
        m = { m0 with h := { m0.h with p := m0.h.p.set (lbl 258) (.alg a) } } := by
  unfold verifyHashEnvelope at h
  cases hu : Sign1.unmarshal true env with
  | ok m0 =>
    simp only [hu] at h
    by_cases hv : validateHashEnvelopeHeaders m0.h.p m0.h.u = true
    · simp only [hv, Bool.not_true, Bool.false_eq_true, if_false] at h
      cases hver : Sign1.verify m0 none v with
      | mk o calls =>
        simp only [hver] at h
        cases o with
        | ok u =>
          cases u
          simp only [] at h
          cases hp : payloadHashAlgorithm m0.h.p with
          | found a =>
            simp only [hp] at h
            by_cases hh : validateHash a m0.payload = true
            · simp only [hh, if_true] at h
              exact ⟨m0, rfl, hv, by simp [hver], a, hp, hh, by cases h; rfl⟩
            · simp [hh] at h
          | notFound => simp [hp] at h
          | failed e => simp [hp] at h
        | err e => simp at h
        | panic => simp at h
        | unmodelled => simp at h
    · simp [hv] at h
  | err e => simp [hu] at h
  | panic => simp [hu] at h
  | unmodelled => simp [hu] at h

end C12
