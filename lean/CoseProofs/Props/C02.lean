/-
  C02 — the byte string handed to the signer / verifier is exactly the RFC 9052 Sig_structure.
-/
import CoseSpec
import CoseModel.Messages
import CoseModel.Generated.Facts
import CoseProofs.Lemmas.Parse
open CoseModel CoseSpec
namespace C02

theorem ctx_model_sign1 : ctxSignature1 = utf8 "Signature1" := rfl
theorem ctx_model_signature : ctxSignature = utf8 "Signature" := rfl

/-- nil and empty external data are equivalent -/
theorem tbs_ext_nil_eq_empty (m : Sign1Msg) : Sign1.toBeSigned m none = Sign1.toBeSigned m (some []) := rfl

theorem tbsSig_ext_nil_eq_empty (s : SigV) (bp : Bytes) (pl : Option Bytes) :
    Signature.toBeSigned s bp pl none = Signature.toBeSigned s bp pl (some []) := rfl

/-- the unprotected headers contribute nothing -/
theorem tbs_indep_unprotected (m : Sign1Msg) (ext : Option Bytes) (ru : Option Bytes) (u : GoMap) :
    Sign1.toBeSigned { m with h := { m.h with rawU := ru, u := u } } ext = Sign1.toBeSigned m ext := by
  simp [Sign1.toBeSigned, marshalProtected]

/-- nor does the signature field -/
theorem tbs_indep_signature (m : Sign1Msg) (ext : Option Bytes) (sig : Option Bytes) :
    Sign1.toBeSigned { m with sig := sig } ext = Sign1.toBeSigned m ext := rfl

/-- the CBOR tag is not part of the message value at all: tagged and untagged decoding of the
    same array yield the same message, hence the same ToBeSigned -/
theorem tbs_indep_tag (r : Bytes) :
    Sign1.unmarshal true (0xd2 :: 0x84 :: r) = Sign1.unmarshal false (0x84 :: r) := rfl

end C02
