/-
  C04 — no signing or verification under an algorithm other than the protected `alg`.
  Decision logic of headers.go:439-485 as used by every Sign / Verify entry point.
-/
import CoseModel.Messages
import CoseModel.HashEnvelope
import CoseModel.Generated.Facts
open CoseModel
namespace C04

/-- Verification side, all header maps `p`, all verifier algorithms, all external data:
    the check passes exactly when alg is present as an integer equal to the verifier's, or is
    absent and external data is non-empty. -/
theorem verify_gate_iff (p : GoMap) (alg : Int) (ext : Option Bytes) :
    ensureVerificationAlgorithm p alg ext = .ok () ↔
      (algorithmOf p = .found alg) ∨ (algorithmOf p = .notFound ∧ (ext.getD []).length > 0) := by
  unfold ensureVerificationAlgorithm
  cases h : algorithmOf p with
  | found c =>
    by_cases hc : c = alg
    · simp [hc]
    · simp [hc]
  | notFound => by_cases he : (ext.getD []).length > 0 <;> simp [he]
  | failed e => simp

/-- an integer alg different from the verifier's is the mismatch error -/
theorem verify_mismatch (p : GoMap) (alg c : Int) (ext : Option Bytes)
    (h : algorithmOf p = .found c) (hne : c ≠ alg) :
    ensureVerificationAlgorithm p alg ext = .err .algMismatch := by
  simp [ensureVerificationAlgorithm, h, hne]

/-- alg absent and no external data: verification fails with "algorithm not found" -/
theorem verify_absent_noext (p : GoMap) (alg : Int) (ext : Option Bytes)
    (h : algorithmOf p = .notFound) (he : (ext.getD []).length = 0) :
    ensureVerificationAlgorithm p alg ext = .err .algNotFound := by
  simp [ensureVerificationAlgorithm, h, he]

/-- a non-integer alg value (text, bytes, …) never passes -/
theorem verify_nonint (p : GoMap) (alg : Int) (ext : Option Bytes) (e : Err)
    (h : algorithmOf p = .failed e) : ensureVerificationAlgorithm p alg ext = .err e := by
  simp [ensureVerificationAlgorithm, h]

/-- Signing side: success means the (possibly updated) protected map is returned and either the
    alg was there and equal, or external data is present, or the signer's alg was inserted —
    the latter only when no raw protected bytes were supplied. -/
theorem sign_gate_cases (rawP : Option Bytes) (p p' : GoMap) (alg : Int) (ext : Option Bytes)
    (h : ensureSigningAlgorithm rawP p alg ext = .ok p') :
    (algorithmOf p = .found alg ∧ p' = p) ∨
    (algorithmOf p = .notFound ∧ (ext.getD []).length > 0 ∧ p' = p) ∨
    (algorithmOf p = .notFound ∧ (ext.getD []).length = 0 ∧ rawP = none ∧ p' = p.set (lbl 1) (.alg alg)) := by
  unfold ensureSigningAlgorithm at h
  cases ha : algorithmOf p with
  | found c =>
    simp only [ha] at h
    by_cases hc : c = alg
    · simp [hc] at h; left; exact ⟨by rw [hc], h.symm⟩
    · simp [hc] at h
  | notFound =>
    simp only [ha] at h
    by_cases he : (ext.getD []).length > 0
    · simp [he] at h; right; left; exact ⟨rfl, he, h.symm⟩
    · simp only [he, if_false] at h
      cases hr : rawP with
      | some r => simp [hr] at h
      | none =>
        simp [hr] at h
        right; right; exact ⟨rfl, by omega, rfl, h.symm⟩
  | failed e => simp [ha] at h

theorem sign_mismatch (rawP : Option Bytes) (p : GoMap) (alg c : Int) (ext : Option Bytes)
    (h : algorithmOf p = .found c) (hne : c ≠ alg) :
    ensureSigningAlgorithm rawP p alg ext = .err .algMismatch := by
  simp [ensureSigningAlgorithm, h, hne]

/-- user-supplied raw protected bytes: nothing is ever inserted -/
theorem raw_present_no_injection (r : Bytes) (p p' : GoMap) (alg : Int) (ext : Option Bytes)
    (h : ensureSigningAlgorithm (some r) p alg ext = .ok p') : p' = p := by
  rcases sign_gate_cases _ _ _ _ _ h with ⟨_, h⟩ | ⟨_, _, h⟩ | ⟨_, _, hr, _⟩
  · exact h
  · exact h
  · cases hr

/-- COSE_Sign1: whenever the signer is invoked at all, the gate was passed; in particular with
    an integer alg different from the signer's the key is never invoked and the mismatch error
    is returned. -/
theorem sign1_mismatch_no_call (m : Sign1Msg) (ext : Option Bytes) (s : Signer) (c : Int)
    (hp : m.payload.isSome) (hs : blen m.sig = 0)
    (h : algorithmOf m.h.p = .found c) (hne : c ≠ s.alg) :
    (Sign1.sign m ext s).out = .err .algMismatch ∧ (Sign1.sign m ext s).calls = [] := by
  have hp' : m.payload.isNone = false := by cases hm : m.payload <;> simp_all
  simp [Sign1.sign, hp', hs, sign_mismatch _ _ _ _ _ h hne]

theorem verify1_mismatch_no_call (m : Sign1Msg) (ext : Option Bytes) (v : Verifier) (c : Int)
    (h : algorithmOf m.h.p = .found c) (hne : c ≠ v.alg) :
    (Sign1.verify m ext v).2 = [] ∧ (Sign1.verify m ext v).1 ≠ .ok () := by
  unfold Sign1.verify
  by_cases hp : m.payload.isNone
  · simp [hp]
  · by_cases hs : blen m.sig = 0
    · simp [hp, hs]
    · simp [hp, hs, verify_mismatch _ _ _ _ h hne]

/-- every key invocation of Sign1.verify happens after the gate: if the verifier was called,
    the alg check had succeeded -/
theorem verify1_call_implies_gate (m : Sign1Msg) (ext : Option Bytes) (v : Verifier)
    (h : (Sign1.verify m ext v).2 ≠ []) : ensureVerificationAlgorithm m.h.p v.alg ext = .ok () := by
  unfold Sign1.verify at h
  by_cases hp : m.payload.isNone
  · simp [hp] at h
  · by_cases hs : blen m.sig = 0
    · simp [hp, hs] at h
    · simp only [hp, hs, if_false] at h
      cases hg : ensureVerificationAlgorithm m.h.p v.alg ext with
      | ok u => cases u; rfl
      | err e => simp [hg] at h
      | panic => simp [hg] at h
      | unmodelled => simp [hg] at h

/-- same for signing: a call to the signer implies the signing gate succeeded -/
theorem sign1_call_implies_gate (m : Sign1Msg) (ext : Option Bytes) (s : Signer)
    (h : (Sign1.sign m ext s).calls ≠ []) :
    ∃ p', ensureSigningAlgorithm m.h.rawP m.h.p s.alg ext = .ok p' := by
  unfold Sign1.sign at h
  by_cases hp : m.payload.isNone
  · simp [hp] at h
  · by_cases hs : blen m.sig > 0
    · simp [hp, hs] at h
    · simp only [hp, hs, if_false] at h
      cases hg : ensureSigningAlgorithm m.h.rawP m.h.p s.alg ext with
      | ok p' => exact ⟨p', rfl⟩
      | err e => simp [hg] at h
      | panic => simp [hg] at h
      | unmodelled => simp [hg] at h

/-- non-vacuity: a concrete header with alg = ES256 passes for an ES256 verifier and is refused
    (mismatch) for ES384 -/
example : ensureVerificationAlgorithm [(lbl 1, .alg (-7))] (-7) none = .ok () := by decide
example : ensureVerificationAlgorithm [(lbl 1, .alg (-7))] (-35) (some [1]) = .err .algMismatch := by decide
example : ensureVerificationAlgorithm [(.int .i 1, .alg (-7))] (-35) (some [1]) = .err .algMismatch := by decide
example : ensureSigningAlgorithm none [] (-7) none = .ok [(lbl 1, .alg (-7))] := by rfl

end C04
