/-
  C10 — countersignatures sign the RFC 9338 structure and bind to their exact parent.
-/
import CoseSpec
import CoseModel.Messages
import CoseModel.Generated.Facts
open CoseModel CoseSpec
namespace C10

theorem ctx_model :
    ctxCounterSignature0 = utf8 "CounterSignature0" ∧ ctxCounterSignature = utf8 "CounterSignature" ∧
    ctxCounterSignature0V2 = utf8 "CounterSignature0V2" ∧ ctxCounterSignatureV2 = utf8 "CounterSignatureV2" :=
  ⟨rfl, rfl, rfl, rfl⟩

/-- unsupported parents are refused -/
theorem refuses_unsupported (abbr : Bool) (sp : Bytes) (ext : Option Bytes) :
    countersignToBeSigned abbr .unsupported sp ext = .err .other := rfl

/-- unsigned parents are refused -/
theorem refuses_unsigned_sign1 (abbr : Bool) (m : Sign1Msg) (sp : Bytes) (ext : Option Bytes)
    (h : blen m.sig = 0) : ∀ t, countersignToBeSigned abbr (.sign1 m) sp ext ≠ .ok t := by
  intro t; simp [countersignToBeSigned, h]

theorem refuses_unsigned_sign (abbr : Bool) (m : SignMsg) (sp : Bytes) (ext : Option Bytes)
    (h : m.sigs = []) : ∀ t, countersignToBeSigned abbr (.sign m) sp ext ≠ .ok t := by
  intro t; simp [countersignToBeSigned, h]

/-- a COSE_Sign with signer slots is unsigned as long as ONE slot holds no signature (the code's
    own `Sign` fills all slots or none, but a caller can assemble anything) -/
theorem refuses_unsigned_slot_sign (abbr : Bool) (m : SignMsg) (sp : Bytes) (ext : Option Bytes)
    (s : SigV) (hs : s ∈ m.sigs) (h : blen s.sig = 0) :
    ∀ t, countersignToBeSigned abbr (.sign m) sp ext ≠ .ok t := by
  intro t
  have hany : m.sigs.any (fun s => blen s.sig = 0) = true :=
    List.any_eq_true.mpr ⟨s, hs, by simpa using h⟩
  simp only [countersignToBeSigned]
  by_cases he : m.sigs.isEmpty
  · simp [he]
  · simp [he, hany]

/-- … and conversely a COSE_Sign parent is accepted only when every slot is signed -/
theorem sign_parent_ok_all_signed (abbr : Bool) (m : SignMsg) (sp : Bytes) (ext : Option Bytes)
    (t : Bytes) (h : countersignToBeSigned abbr (.sign m) sp ext = .ok t) :
    m.sigs ≠ [] ∧ ∀ s ∈ m.sigs, blen s.sig ≠ 0 := by
  refine ⟨fun he => refuses_unsigned_sign abbr m sp ext he t h, fun s hs hz => ?_⟩
  exact refuses_unsigned_slot_sign abbr m sp ext s hs hz t h

theorem refuses_unsigned_signature (abbr : Bool) (s : SigV) (sp : Bytes) (ext : Option Bytes)
    (h : blen s.sig = 0) : ∀ t, countersignToBeSigned abbr (.signature s) sp ext ≠ .ok t := by
  intro t
  simp only [countersignToBeSigned]
  cases marshalProtected s.h <;> simp [h]

theorem refuses_unsigned_countersignature (abbr : Bool) (s : SigV) (sp : Bytes) (ext : Option Bytes)
    (h : blen s.sig = 0) : ∀ t, countersignToBeSigned abbr (.countersignature s) sp ext ≠ .ok t := by
  intro t
  simp only [countersignToBeSigned]
  cases marshalProtected s.h <;> simp [h]

/-- payload-less parents are refused -/
theorem refuses_detached_sign1 (abbr : Bool) (m : Sign1Msg) (sp : Bytes) (ext : Option Bytes)
    (h : m.payload = none) : ∀ t, countersignToBeSigned abbr (.sign1 m) sp ext ≠ .ok t := by
  intro t
  simp only [countersignToBeSigned]
  by_cases hs : blen m.sig = 0
  · simp [hs]
  · cases marshalProtected m.h <;> simp [hs, h]

theorem refuses_detached_sign (abbr : Bool) (m : SignMsg) (sp : Bytes) (ext : Option Bytes)
    (h : m.payload = none) : ∀ t, countersignToBeSigned abbr (.sign m) sp ext ≠ .ok t := by
  intro t
  simp only [countersignToBeSigned]
  by_cases hs : m.sigs.isEmpty
  · simp [hs]
  · by_cases hu : m.sigs.any (fun s => blen s.sig = 0)
    · simp [hs, hu]
    · cases marshalProtected m.h <;> simp [hs, hu, h]

/-- the parent's unprotected headers are not covered -/
theorem indep_parent_unprotected (abbr : Bool) (m : Sign1Msg) (sp : Bytes) (ext : Option Bytes)
    (ru : Option Bytes) (u : GoMap) :
    countersignToBeSigned abbr (.sign1 { m with h := { m.h with rawU := ru, u := u } }) sp ext =
    countersignToBeSigned abbr (.sign1 m) sp ext := by
  simp [countersignToBeSigned, marshalProtected]

/-- nil and empty external data are equivalent -/
theorem ext_nil_eq_empty (abbr : Bool) (p : Parent) (sp : Bytes) :
    countersignToBeSigned abbr p sp none = countersignToBeSigned abbr p sp (some []) := rfl

end C10
