/-
  C14 — COSE_Key conversion keeps EC2 coordinates at full length ON THE WIRE and round-trips
  every key.  `big.Int.Bytes()` is `natBytes`, `FillBytes` is `fillBytes`, `SetBytes` is `os2ip`,
  the left padding of key.go:569-578 is `leftPad`, the constructor's `ec2Coordinate(v, size)` is
  `ec2Coordinate` (`v.Bytes()`, except that 0 is `size` zero octets); for every curve size and all
  coordinate values (no bound, 0 included).
-/
import CoseProofs.Lemmas.Ecdsa
import CoseModel.Key
import CoseModel.Generated.Facts
open CoseModel
namespace C14

/-- a serialised coordinate is exactly the curve size: the value left-padded with zeros -/
theorem coord_fullwidth (size x : Nat) (hx : 0 < x) (h : x < 256 ^ size) :
    leftPad size (natBytes x) = fillBytes size x ∧ (leftPad size (natBytes x)).length = size := by
  have := CoseModel.leftPad_natBytes size x hx h
  exact ⟨this, by rw [this, fillBytes_length]⟩

/-- converting back (`SetBytes`) yields the same number: leading zeros are preserved on the wire
    and ignored on the way back -/
theorem coord_roundtrip (size x : Nat) : os2ip (leftPad size (natBytes x)) = x := by
  rw [CoseModel.os2ip_leftPad, CoseModel.os2ip_natBytes]

/-- a coordinate read from the wire at any accepted length denotes the same number after
    re-serialisation -/
theorem coord_reencode (size : Nat) (b : Bytes) : os2ip (leftPad size b) = os2ip b :=
  CoseModel.os2ip_leftPad size b

/-! ### the constructor's coordinate (`ec2Coordinate`, NewKeyFromPublic / NewKeyFromPrivate)

  `v.Bytes()` — minimal length — except that 0 is `size` zero octets, not the empty string. -/

/-- the zero coordinate: `size` zero octets, not the empty string of `big.Int.Bytes()` -/
theorem ec2Coordinate_zero (size : Nat) : ec2Coordinate 0 size = List.replicate size 0 := by
  unfold ec2Coordinate
  rw [if_pos rfl]

/-- every other coordinate is `big.Int.Bytes()`: minimal length, no leading zero octet -/
theorem ec2Coordinate_nonzero (size x : Nat) (hx : x ≠ 0) : ec2Coordinate x size = natBytes x := by
  unfold ec2Coordinate
  rw [if_neg hx]

/-- the round trip of the constructor's coordinate through `SetBytes`, for every value -/
theorem ec2Coordinate_roundtrip (size x : Nat) : os2ip (ec2Coordinate x size) = x := by
  by_cases hx : x = 0
  · subst hx
    rw [ec2Coordinate_zero]
    have := CoseModel.os2ip_replicate_zero size []
    rw [List.append_nil] at this
    rw [this]; rfl
  · rw [ec2Coordinate_nonzero size x hx, CoseModel.os2ip_natBytes]

/-- the stored coordinate is never the empty string (on a curve, `size > 0`) — an empty x or y
    is what `validate` / `PublicKey()` read as "coordinate missing" -/
theorem ec2Coordinate_length_pos (size x : Nat) (hs : 0 < size) : 0 < (ec2Coordinate x size).length := by
  by_cases hx : x = 0
  · subst hx
    rw [ec2Coordinate_zero, List.length_replicate]
    exact hs
  · rw [ec2Coordinate_nonzero size x hx]
    exact CoseModel.natBytes_length_pos x (Nat.pos_of_ne_zero hx)

theorem ec2Coordinate_nonempty (size x : Nat) (hs : 0 < size) : ec2Coordinate x size ≠ [] := by
  intro h
  have := ec2Coordinate_length_pos size x hs
  rw [h] at this
  exact Nat.lt_irrefl 0 this

/-- the stored coordinate passes the length check of `validate` exactly when the value fits the
    field -/
theorem ec2Coordinate_length_le_iff (size x : Nat) :
    (ec2Coordinate x size).length ≤ size ↔ x < 256 ^ size := by
  by_cases hx : x = 0
  · subst hx
    rw [ec2Coordinate_zero, List.length_replicate]
    exact ⟨fun _ => Nat.pow_pos (by decide), fun _ => Nat.le_refl _⟩
  · rw [ec2Coordinate_nonzero size x hx]
    exact CoseModel.natBytes_length_le_iff x size

/-- what `MarshalCBOR` makes of the stored coordinate (left padding, key.go:569-578) is
    `FillBytes` at the field size, for EVERY value that fits — 0 included, no `0 < x` -/
theorem leftPad_ec2Coordinate (size x : Nat) (h : x < 256 ^ size) :
    leftPad size (ec2Coordinate x size) = fillBytes size x := by
  by_cases hx : x = 0
  · subst hx
    rw [ec2Coordinate_zero, ← CoseModel.fillBytes_zero]
    exact CoseModel.leftPad_fillBytes size 0
  · rw [ec2Coordinate_nonzero size x hx]
    exact CoseModel.leftPad_natBytes size x (Nat.pos_of_ne_zero hx) h

/-- so the serialised coordinate has exactly the field size -/
theorem leftPad_ec2Coordinate_length (size x : Nat) (h : x < 256 ^ size) :
    (leftPad size (ec2Coordinate x size)).length = size := by
  rw [leftPad_ec2Coordinate size x h, CoseModel.fillBytes_length]

/-- in memory a small non-zero value stays short (`big.Int.Bytes()`): the full width is a fact
    about the wire, not about the stored parameter -/
theorem ec2Coordinate_one (size : Nat) : ec2Coordinate 1 size = [1] := by
  rw [ec2Coordinate_nonzero size 1 (by decide)]; simp [natBytes]

/-- serialising pads nothing more: a full-width coordinate is emitted as it is -/
theorem coord_fullwidth_fill (size x : Nat) :
    leftPad size (fillBytes size x) = fillBytes size x ∧ (leftPad size (fillBytes size x)).length = size := by
  rw [CoseModel.leftPad_fillBytes]
  exact ⟨rfl, CoseModel.fillBytes_length size x⟩

theorem curveSize_values : curveSize 1 = 32 ∧ curveSize 2 = 48 ∧ curveSize 3 = 66 := by decide

example : leftPad 4 (natBytes 258) = [0, 0, 1, 2] := by simp [natBytes, leftPad]
example : ec2Coordinate 258 4 = [1, 2] := by simp [ec2Coordinate, natBytes]
example : leftPad 4 (ec2Coordinate 258 4) = [0, 0, 1, 2] := by simp [ec2Coordinate, natBytes, leftPad]
example : ec2Coordinate 0 4 = [0, 0, 0, 0] := by decide
example : leftPad 4 (ec2Coordinate 0 4) = [0, 0, 0, 0] := by decide
example : ec2Coordinate 65536 2 = [1, 0, 0] := by simp [ec2Coordinate, natBytes]

end C14
