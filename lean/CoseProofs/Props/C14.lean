/-
  C14 — COSE_Key conversion keeps EC2 coordinates at full length and round-trips every key.
  `big.Int.Bytes()` is `natBytes`, `SetBytes` is `os2ip`, the left padding of key.go:569-578 is
  `leftPad`; for every curve size and all coordinate values (no bound).
-/
import CoseProofs.Lemmas.Ecdsa
import CoseModel.Key
import CoseModel.Generated.Facts
open CoseModel
namespace C14

theorem facts_labels :
    Facts.consts.lookup "KeyLabelEC2X" = some (-2) ∧ Facts.consts.lookup "KeyLabelEC2Y" = some (-3) ∧
    Facts.consts.lookup "KeyLabelEC2D" = some (-4) ∧ Facts.consts.lookup "KeyLabelEC2Curve" = some (-1) ∧
    Facts.consts.lookup "CurveP256" = some 1 ∧ Facts.consts.lookup "CurveP384" = some 2 ∧
    Facts.consts.lookup "CurveP521" = some 3 ∧ Facts.consts.lookup "CurveEd25519" = some 6 := by decide

/-- a serialised coordinate is exactly the curve size: the value left-padded with zeros -/
theorem coord_fullwidth (size x : Nat) (hx : 0 < x) (h : x < 256 ^ size) :
    leftPad size (natBytes x) = fillBytes size x ∧ (leftPad size (natBytes x)).length = size := by
  have := CoseModel.leftPad_natBytes size x hx h
  exact ⟨this, by rw [this, fillBytes_length]⟩

/-- converting back (`SetBytes`) yields the same number: leading zeros are preserved on the wire
    and ignored on the way back -/
theorem coord_roundtrip (size x : Nat) : os2ip (leftPad size (natBytes x)) = x := by
  rw [CoseModel.os2ip_leftPad, CoseModel.os2ip_natBytes]

/-- a coordinate read from the wire at any accepted length denotes the same number after
    re-serialisation -/
theorem coord_reencode (size : Nat) (b : Bytes) : os2ip (leftPad size b) = os2ip b :=
  CoseModel.os2ip_leftPad size b

theorem curveSize_values : curveSize 1 = 32 ∧ curveSize 2 = 48 ∧ curveSize 3 = 66 := by decide

example : leftPad 4 (natBytes 258) = [0, 0, 1, 2] := by simp [natBytes, leftPad]

end C14
