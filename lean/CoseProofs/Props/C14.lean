/-
  C14 — COSE_Key conversion keeps EC2 coordinates at full length and round-trips every key.
  `big.Int.Bytes()` is `natBytes`, `FillBytes` is `fillBytes`, `SetBytes` is `os2ip`, the left
  padding of key.go:569-578 is `leftPad`, the constructor's `ec2Coordinate(v, size)` is
  `ec2Coordinate`; for every curve size and all coordinate values (no bound, 0 included).
-/
import CoseProofs.Lemmas.Ecdsa
import CoseModel.Key
import CoseModel.Generated.Facts
open CoseModel
namespace C14

theorem facts_labels :
    Facts.consts.lookup "KeyLabelEC2X" = some (-2) ∧ Facts.consts.lookup "KeyLabelEC2Y" = some (-3) ∧
    Facts.consts.lookup "KeyLabelEC2D" = some (-4) ∧ Facts.consts.lookup "KeyLabelEC2Curve" = some (-1) ∧
    Facts.consts.lookup "CurveP256" = some 1 ∧ Facts.consts.lookup "CurveP384" = some 2 ∧
    Facts.consts.lookup "CurveP521" = some 3 ∧ Facts.consts.lookup "CurveEd25519" = some 6 := by decide

/-- a serialised coordinate is exactly the curve size: the value left-padded with zeros -/
theorem coord_fullwidth (size x : Nat) (hx : 0 < x) (h : x < 256 ^ size) :
    leftPad size (natBytes x) = fillBytes size x ∧ (leftPad size (natBytes x)).length = size := by
  have := CoseModel.leftPad_natBytes size x hx h
  exact ⟨this, by rw [this, fillBytes_length]⟩

/-- converting back (`SetBytes`) yields the same number: leading zeros are preserved on the wire
    and ignored on the way back -/
theorem coord_roundtrip (size x : Nat) : os2ip (leftPad size (natBytes x)) = x := by
  rw [CoseModel.os2ip_leftPad, CoseModel.os2ip_natBytes]

/-- a coordinate read from the wire at any accepted length denotes the same number after
    re-serialisation -/
theorem coord_reencode (size : Nat) (b : Bytes) : os2ip (leftPad size b) = os2ip b :=
  CoseModel.os2ip_leftPad size b

/-! ### the constructor's coordinate (`ec2Coordinate`, NewKeyFromPublic / NewKeyFromPrivate) -/

/-- a coordinate that fits the field — 0 included — is stored at exactly the field size -/
theorem ec2Coordinate_of_fits (size x : Nat) (h : x < 256 ^ size) :
    ec2Coordinate x size = fillBytes size x ∧ (ec2Coordinate x size).length = size := by
  have hb := (CoseModel.bitLen_le_iff x size).mpr h
  have e : ec2Coordinate x size = fillBytes size x := by
    unfold ec2Coordinate
    rw [if_neg (by omega)]
  exact ⟨e, by rw [e, CoseModel.fillBytes_length]⟩

/-- a coordinate that does not fit is left in minimal form, which is longer than the field:
    `validate` refuses it -/
theorem ec2Coordinate_oversize (size x : Nat) (h : ¬ x < 256 ^ size) :
    ec2Coordinate x size = natBytes x ∧ size < (ec2Coordinate x size).length := by
  have hb : ¬ bitLen x ≤ size * 8 := fun hc => h ((CoseModel.bitLen_le_iff x size).mp hc)
  have e : ec2Coordinate x size = natBytes x := by
    unfold ec2Coordinate
    rw [if_pos (by omega)]
  refine ⟨e, ?_⟩
  rw [e]
  have := (CoseModel.natBytes_length_le_iff x size)
  omega

/-- so: the stored coordinate passes the length check of `validate` exactly when the value fits,
    and then it has the full width -/
theorem ec2Coordinate_length_le (size x : Nat) (h : (ec2Coordinate x size).length ≤ size) :
    x < 256 ^ size ∧ ec2Coordinate x size = fillBytes size x := by
  by_cases hfit : x < 256 ^ size
  · exact ⟨hfit, (ec2Coordinate_of_fits size x hfit).1⟩
  · have := (ec2Coordinate_oversize size x hfit).2
    omega

/-- the zero coordinate: `size` zero octets, not the empty string of `big.Int.Bytes()` -/
theorem ec2Coordinate_zero (size : Nat) : ec2Coordinate 0 size = List.replicate size 0 := by
  rw [(ec2Coordinate_of_fits size 0 (Nat.pow_pos (by decide))).1, CoseModel.fillBytes_zero]

/-- the round trip of the constructor's coordinate through `SetBytes`, for every value -/
theorem ec2Coordinate_roundtrip (size x : Nat) : os2ip (ec2Coordinate x size) = x := by
  unfold ec2Coordinate
  split
  · exact CoseModel.os2ip_natBytes x
  · rename_i hb
    exact CoseModel.os2ip_fillBytes size x ((CoseModel.bitLen_le_iff x size).mp (by omega))

/-- serialising pads nothing more: a full-width coordinate is emitted as it is -/
theorem coord_fullwidth_fill (size x : Nat) :
    leftPad size (fillBytes size x) = fillBytes size x ∧ (leftPad size (fillBytes size x)).length = size := by
  rw [CoseModel.leftPad_fillBytes]
  exact ⟨rfl, CoseModel.fillBytes_length size x⟩

theorem curveSize_values : curveSize 1 = 32 ∧ curveSize 2 = 48 ∧ curveSize 3 = 66 := by decide

example : leftPad 4 (natBytes 258) = [0, 0, 1, 2] := by simp [natBytes, leftPad]
example : ec2Coordinate 258 4 = [0, 0, 1, 2] := by decide
example : ec2Coordinate 0 4 = [0, 0, 0, 0] := by decide
example : ec2Coordinate 65536 2 = [1, 0, 0] := by
  rw [(ec2Coordinate_oversize 2 65536 (by decide)).1]; simp [natBytes]

end C14
