/-
  C05 — decoders accept only well-formed COSE of their own type.
  Backbone: the parser is sound (`parseTop_sound`: accepted bytes are exactly the bytes of the
  returned wire tree, definite lengths, every head well-formed, within the nesting limits) and,
  in tag-forbidding mode, the tree contains no tag anywhere (`parseTop_noTag`).
-/
import CoseModel.Messages
import CoseModel.Generated.Facts
import CoseProofs.Lemmas.Parse
open CoseModel
namespace C05

/-- the envelope of an accepted COSE_Sign1: exactly one definite-length 4-array (after tag 18 when
    tagged), nothing after it, no tag inside, payload a byte string or null, signature a
    non-empty byte string, protected bucket a byte string, unprotected bucket a map -/
theorem sign1_accept_envelope (tagged : Bool) (b : Bytes) (m : Sign1Msg)
    (h : Sign1.unmarshal tagged b = .ok m) :
    ∃ (hw : HW) (p u pl sg : Wire) (arr : Bytes),
      b = (if tagged then 0xd2 :: arr else arr) ∧
      arr = (Wire.arr hw [p, u, pl, sg]).bytes ∧ (Wire.arr hw [p, u, pl, sg]).wf = true ∧
      (Wire.arr hw [p, u, pl, sg]).hasTag = false ∧
      decByteString pl = .ok m.payload ∧ decByteString sg = .ok m.sig ∧ blen m.sig ≠ 0 ∧
      decProtected p = .ok m.h.p ∧ decUnprot u = .ok m.h.u ∧
      m.h.rawP = some p.bytes ∧ m.h.rawU = some u.bytes := by
  have key : ∀ arr, Sign1.decodeArr arr = .ok m →
      ∃ (hw : HW) (p u pl sg : Wire),
        arr = (Wire.arr hw [p, u, pl, sg]).bytes ∧ (Wire.arr hw [p, u, pl, sg]).wf = true ∧
        (Wire.arr hw [p, u, pl, sg]).hasTag = false ∧
        decByteString pl = .ok m.payload ∧ decByteString sg = .ok m.sig ∧ blen m.sig ≠ 0 ∧
        decProtected p = .ok m.h.p ∧ decUnprot u = .ok m.h.u ∧
        m.h.rawP = some p.bytes ∧ m.h.rawU = some u.bytes := by
    intro arr hd
    unfold Sign1.decodeArr at hd
    split at hd
    · rename_i hw p u pl sg hpt
      have hs := parseTop_sound hpt
      have hn := parseTop_noTag hpt
      refine ⟨hw, p, u, pl, sg, hs.1, hs.2.1, hn, ?_⟩
      cases hpl : decByteString pl with
      | ok payload =>
        cases hsg : decByteString sg with
        | ok sig =>
          simp only [hpl, hsg, bind, Out.bind] at hd
          by_cases hz : blen sig = 0
          · simp [hz] at hd
          · simp only [hz, if_false] at hd
            unfold decHeaders at hd
            cases hp : decProtected p with
            | ok pm =>
              cases hu : decUnprot u with
              | ok um =>
                simp only [hp, hu, bind, Out.bind] at hd
                by_cases hiv : ensureIV pm um
                · simp only [hiv, Bool.not_true, Bool.false_eq_true, if_false] at hd
                  cases hd
                  exact ⟨rfl, rfl, hz, rfl, rfl, rfl, rfl⟩
                · simp [hiv] at hd
              | err e => simp [hp, hu, bind, Out.bind] at hd
              | panic => simp [hp, hu, bind, Out.bind] at hd
              | unmodelled => simp [hp, hu, bind, Out.bind] at hd
            | err e => simp [hp, bind, Out.bind] at hd
            | panic => simp [hp, bind, Out.bind] at hd
            | unmodelled => simp [hp, bind, Out.bind] at hd
        | err e => simp [hpl, hsg, bind, Out.bind] at hd
        | panic => simp [hpl, hsg, bind, Out.bind] at hd
        | unmodelled => simp [hpl, hsg, bind, Out.bind] at hd
      | err e => simp [hpl, bind, Out.bind] at hd
      | panic => simp [hpl, bind, Out.bind] at hd
      | unmodelled => simp [hpl, bind, Out.bind] at hd
    · cases hd
  unfold Sign1.unmarshal at h
  cases tagged with
  | true =>
    simp only [if_true] at h
    split at h
    · rename_i r
      obtain ⟨hw, p, u, pl, sg, rest⟩ := key _ h
      exact ⟨hw, p, u, pl, sg, 0x84 :: r, by simp, rest⟩
    · cases h
  | false =>
    simp only [Bool.false_eq_true, if_false] at h
    split at h
    · rename_i r
      obtain ⟨hw, p, u, pl, sg, rest⟩ := key _ h
      exact ⟨hw, p, u, pl, sg, 0x84 :: r, by simp, rest⟩
    · cases h

/-- payload is a byte string or `null` (f6) — never `undefined`, text, … -/
theorem payload_shape (w : Wire) (o : Option Bytes) (h : decByteString w = .ok o) :
    (w = .prim .imm 22 ∧ o = none) ∨ ∃ hw b, w = .bstr hw b ∧ o = some b := by
  unfold decByteString at h
  split at h
  · left; cases h; exact ⟨rfl, rfl⟩
  · right; cases h; exact ⟨_, _, rfl, rfl⟩
  · cases h

/-- no decoder accepts the encoding of another structure kind: the accepted byte languages
    start with different bytes -/
theorem shapes_disjoint_first_byte (b : Bytes) :
    (∀ m, Sign1.unmarshal true b = .ok m → b.head? = some 0xd2) ∧
    (∀ m, Sign1.unmarshal false b = .ok m → b.head? = some 0x84) ∧
    (∀ m, Sign.unmarshal b = .ok m → b.head? = some 0xd8) ∧
    (∀ s, Signature.unmarshal b = .ok s → b.head? = some 0x83) := by
  refine ⟨?_, ?_, ?_, ?_⟩
  · intro m h; unfold Sign1.unmarshal at h; simp only [if_true] at h; split at h <;> simp_all
  · intro m h; unfold Sign1.unmarshal at h; simp only [Bool.false_eq_true, if_false] at h; split at h <;> simp_all
  · intro m h; unfold Sign.unmarshal at h; split at h <;> simp_all
  · intro s h; unfold Signature.unmarshal at h; split at h <;> simp_all

end C05
