/-
  C07 — any valid encoding of a conforming message is accepted.
  Backbone: parser completeness — every wire tree with fitting head widths (any width the sender
  chose, any key order), within the documented limits, is parsed back to exactly that tree.
-/
import CoseModel.Messages
import CoseProofs.Lemmas.Parse
open CoseModel
namespace C07

/-- whatever head widths and key order the peer chose, the well-formedness pass accepts the
    bytes and recovers exactly the tree that was sent -/
theorem any_encoding_parses (tagsOk : Bool) (w : Wire) (hwf : w.wf = true) (hl : w.inLimits tagsOk 0 = true) :
    parseTop tagsOk w.bytes = some w := parseTop_complete hwf hl

/-- parsing is a bijection between accepted byte strings and well-formed trees in the limits -/
theorem parse_iff (tagsOk : Bool) (bs : Bytes) (w : Wire) :
    parseTop tagsOk bs = some w ↔ bs = w.bytes ∧ w.wf = true ∧ w.inLimits tagsOk 0 = true := by
  constructor
  · exact parseTop_sound
  · rintro ⟨rfl, hwf, hl⟩; exact parseTop_complete hwf hl

/-- both spellings of the empty protected header decode to the empty map -/
theorem empty_protected_both_spellings (hw : HW) :
    decProtected (.bstr hw []) = .ok [] ∧ decProtected (.bstr hw [0xa0]) = .ok [] := by
  constructor
  · rfl
  · simp [decProtected, decProtectedContent, parseTop, fuelFor, parseItem, parseHead, parsePairs,
      labelsOK, decodePairs, validateHeaderParameters, validateLoop, castAlg, algorithmOf, lookupLabel,
      GoMap.lookup, normalizeLabel, bind, Out.bind, maxNested, maxElems, lbl,
      (by decide : headerLabelsUntagged [0xa0] = true)]

/-- a payload of any head width is accepted -/
theorem payload_any_width (hw : HW) (b : Bytes) : decByteString (.bstr hw b) = .ok (some b) := rfl
theorem payload_nil : decByteString (.prim .imm 22) = .ok none := rfl

end C07
