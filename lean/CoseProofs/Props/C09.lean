/-
  C09 — re-encoding a decoded message preserves the header bytes.
-/
import CoseModel.Messages
import CoseProofs.Lemmas.Parse
open CoseModel
namespace C09

theorem bytes_pos (w : Wire) : 1 ≤ w.bytes.length := by
  cases w with
  | uint hw n => exact headBytes_length_pos 0 hw n
  | nint hw n => exact headBytes_length_pos 1 hw n
  | prim hw n => exact headBytes_length_pos 7 hw n
  | bstr hw b => simp only [Wire.bytes, List.length_append]; have := headBytes_length_pos 2 hw b.length; omega
  | tstr hw b => simp only [Wire.bytes, List.length_append]; have := headBytes_length_pos 3 hw b.length; omega
  | arr hw xs => simp only [Wire.bytes, List.length_append]; have := headBytes_length_pos 4 hw xs.length; omega
  | map hw kvs => simp only [Wire.bytes, List.length_append]; have := headBytes_length_pos 5 hw kvs.length; omega
  | tag hw t x => simp only [Wire.bytes, List.length_append]; have := headBytes_length_pos 6 hw t; omega

theorem bytes_cons (w : Wire) : ∃ x xs, w.bytes = x :: xs := by
  have := bytes_pos w
  cases h : w.bytes with
  | nil => simp [h] at this
  | cons x xs => exact ⟨x, xs, rfl⟩

/-- retained raw bytes are emitted verbatim, whatever the parsed map holds -/
theorem bucket_verbatim (prot : Bool) (b : UInt8) (bs : Bytes) (m : GoMap) :
    encodeBucket encCfg prot (some (b :: bs)) m = some (b :: bs) := by
  unfold encodeBucket; rfl

/-- every decoded header bucket retains the exact bytes of its wire item, and these are
    non-empty, so re-encoding reproduces both buckets byte for byte -/
theorem decoded_headers_verbatim (p u : Wire) (h : Hdrs) (hd : decHeaders p u = .ok h) :
    marshalProtected h = .ok p.bytes ∧ marshalUnprotected h = .ok u.bytes ∨
    marshalProtected h = .unmodelled ∨ marshalUnprotected h = .unmodelled := by
  unfold decHeaders at hd
  cases hp : decProtected p with
  | ok pm =>
    cases hu : decUnprot u with
    | ok um =>
      simp only [hp, hu, bind, Out.bind] at hd
      by_cases hiv : ensureIV pm um
      · simp only [hiv, Bool.not_true, Bool.false_eq_true, if_false] at hd
        cases hd
        obtain ⟨x, xs, hx⟩ := bytes_cons p
        obtain ⟨y, ys, hy⟩ := bytes_cons u
        by_cases hm1 : GoVal.modelledPairs pm = true
        · by_cases hm2 : GoVal.modelledPairs um = true
          · left
            simp [marshalProtected, marshalUnprotected, hm1, hm2, hx, hy, encodeBucket]
          · right; right; simp [marshalUnprotected, hm2]
        · right; left; simp [marshalProtected, hm1]
      · simp [hiv] at hd
    | err e => simp [hp, hu, bind, Out.bind] at hd
    | panic => simp [hp, hu, bind, Out.bind] at hd
    | unmodelled => simp [hp, hu, bind, Out.bind] at hd
  | err e => simp [hp, bind, Out.bind] at hd
  | panic => simp [hp, bind, Out.bind] at hd
  | unmodelled => simp [hp, bind, Out.bind] at hd

/-- the re-encoder emits payload and signature with shortest heads: only these heads (and the
    signatures-array head) may differ from the input -/
theorem payload_reencoded_shortest (b : Bytes) : optBytesEnc (some b) = encHead 2 b.length ++ b := rfl
theorem payload_nil_reencoded : optBytesEnc none = [0xf6] := rfl

end C09
