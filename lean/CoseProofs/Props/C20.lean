/-
  C20 — a failing signer never yields a usable or half-signed message; verifier errors are
  propagated; no encoder emits an empty signature.  Signers / verifiers are oracle parameters
  (any function returning ok sig | ok [] | err e), so the statements hold for every fault.
  A signer that answers `ok []` (no error, no bytes) makes every Sign return `ErrEmptySignature`
  with nothing stored (`*_empty_signer_fails`, `*_ok_nonempty`; /repo 9ac6635).
-/
import CoseModel.Messages
import CoseModel.HashEnvelope
open CoseModel
namespace C20

/-- Sign1: if the signer reports an error, that error is returned and no signature is stored -/
theorem sign1_fault (m : Sign1Msg) (ext : Option Bytes) (s : Signer) (e : Err)
    (hs : ∀ tbs, s.sign tbs = .err e) :
    ((Sign1.sign m ext s).out = .ok () → False) ∧ (Sign1.sign m ext s).state.sig = m.sig := by
  unfold Sign1.sign
  by_cases hp : m.payload.isNone
  · simp [hp]
  · by_cases hg : blen m.sig > 0
    · simp [hp, hg]
    · simp only [hp, hg, if_false, Bool.false_eq_true]
      cases ensureSigningAlgorithm m.h.rawP m.h.p s.alg ext with
      | ok p' =>
        simp only []
        cases Sign1.toBeSigned { m with h := { m.h with p := p' } } ext with
        | ok tbs => simp [hs tbs]
        | err e' => simp
        | panic => simp
        | unmodelled => simp
      | err e' => simp
      | panic => simp
      | unmodelled => simp

/-- Sign1: when signing reports success, the stored signature is exactly what the signer
    returned for the bytes it was handed -/
theorem sign1_ok_stores_signer_output (m : Sign1Msg) (ext : Option Bytes) (s : Signer)
    (h : (Sign1.sign m ext s).out = .ok ()) :
    ∃ tbs sig, (Sign1.sign m ext s).calls = [tbs] ∧ s.sign tbs = .ok sig ∧ sig ≠ [] ∧
      (Sign1.sign m ext s).state.sig = some sig := by
  unfold Sign1.sign at h ⊢
  by_cases hp : m.payload.isNone
  · simp [hp] at h
  · by_cases hg : blen m.sig > 0
    · simp [hp, hg] at h
    · simp only [hp, hg, if_false, Bool.false_eq_true] at h ⊢
      cases hgate : ensureSigningAlgorithm m.h.rawP m.h.p s.alg ext with
      | ok p' =>
        simp only [hgate] at h ⊢
        cases ht : Sign1.toBeSigned { m with h := { m.h with p := p' } } ext with
        | ok tbs =>
          simp only [ht] at h ⊢
          cases hsg : s.sign tbs with
          | ok sig =>
            simp only [hsg] at h ⊢
            by_cases hz : sig.length = 0
            · simp [hz] at h
            · simp only [hz, if_false]
              exact ⟨tbs, sig, rfl, hsg, fun hn => hz (by rw [hn]; rfl), rfl⟩
          | err e' => simp [hsg] at h
          | panic => simp [hsg] at h
          | unmodelled => simp [hsg] at h
        | err e' => simp [ht] at h
        | panic => simp [ht] at h
        | unmodelled => simp [ht] at h
      | err e' => simp [hgate] at h
      | panic => simp [hgate] at h
      | unmodelled => simp [hgate] at h

/-- no encoder emits an empty signature -/
theorem no_empty_signature_emitted_sign1 (tagged : Bool) (m : Sign1Msg) (h : blen m.sig = 0) :
    Sign1.marshal tagged m = .err .emptySig := by
  simp [Sign1.marshal, Sign1.content, h]

theorem no_empty_signature_emitted_sig (s : SigV) (h : blen s.sig = 0) :
    Signature.marshal s = .err .emptySig := by
  simp [Signature.marshal, h]

/-- a signer that "succeeds" with an empty signature leaves a message that cannot be serialised -/
theorem sign1_empty_then_unencodable (tagged : Bool) (m : Sign1Msg) (ext : Option Bytes) (s : Signer)
    (hs : ∀ tbs, s.sign tbs = .ok []) (hm : blen m.sig = 0) :
    Sign1.marshal tagged (Sign1.sign m ext s).state = .err .emptySig := by
  apply no_empty_signature_emitted_sign1
  unfold Sign1.sign
  by_cases hp : m.payload.isNone
  · simp [hp, hm]
  · have hg : ¬ blen m.sig > 0 := by omega
    simp only [hp, hg, if_false, Bool.false_eq_true]
    cases ensureSigningAlgorithm m.h.rawP m.h.p s.alg ext with
    | ok p' =>
      simp only []
      cases Sign1.toBeSigned { m with h := { m.h with p := p' } } ext with
      | ok tbs => simpa [hs tbs] using hm
      | err e' => simpa using hm
      | panic => simpa using hm
      | unmodelled => simpa using hm
    | err e' => simpa using hm
    | panic => simpa using hm
    | unmodelled => simpa using hm

/-- (repair 9ac6635) Sign1 with a signer that "succeeds" with no signature bytes: the call never
    reports success, stores nothing, and — whenever the signer was reached — returns
    `ErrEmptySignature` -/
theorem sign1_empty_signer_fails (m : Sign1Msg) (ext : Option Bytes) (s : Signer)
    (hs : ∀ tbs, s.sign tbs = .ok []) :
    (Sign1.sign m ext s).out ≠ .ok () ∧ (Sign1.sign m ext s).state.sig = m.sig ∧
    ((Sign1.sign m ext s).calls ≠ [] → (Sign1.sign m ext s).out = .err .emptySig) := by
  unfold Sign1.sign
  by_cases hp : m.payload.isNone
  · simp [hp]
  · by_cases hg : blen m.sig > 0
    · simp [hp, hg]
    · simp only [hp, hg, if_false, Bool.false_eq_true]
      cases ensureSigningAlgorithm m.h.rawP m.h.p s.alg ext with
      | ok p' =>
        simp only []
        cases Sign1.toBeSigned { m with h := { m.h with p := p' } } ext with
        | ok tbs => simp [hs tbs]
        | err e' => simp
        | panic => simp
        | unmodelled => simp
      | err e' => simp
      | panic => simp
      | unmodelled => simp

/-- Sign1, every signer: an empty answer for the bytes handed over is `ErrEmptySignature`, with
    the signer having been called on them and nothing stored -/
theorem sign1_empty_answer (m : Sign1Msg) (ext : Option Bytes) (s : Signer) (tbs : Bytes)
    (hc : (Sign1.sign m ext s).calls = [tbs]) (hs : s.sign tbs = .ok []) :
    (Sign1.sign m ext s).out = .err .emptySig ∧ (Sign1.sign m ext s).state.sig = m.sig := by
  unfold Sign1.sign at hc ⊢
  by_cases hp : m.payload.isNone
  · simp [hp] at hc
  · by_cases hg : blen m.sig > 0
    · simp [hp, hg] at hc
    · simp only [hp, hg, if_false, Bool.false_eq_true] at hc ⊢
      cases hgate : ensureSigningAlgorithm m.h.rawP m.h.p s.alg ext with
      | ok p' =>
        simp only [hgate] at hc ⊢
        cases ht : Sign1.toBeSigned { m with h := { m.h with p := p' } } ext with
        | ok t =>
          simp only [ht] at hc ⊢
          have htt : t = tbs := by
            cases hsg : s.sign t with
            | ok sig => by_cases hz : sig.length = 0 <;> simpa [hsg, hz] using hc
            | err e' => simpa [hsg] using hc
            | panic => simpa [hsg] using hc
            | unmodelled => simpa [hsg] using hc
          subst htt
          simp [hs]
        | err e' => simp [ht] at hc
        | panic => simp [ht] at hc
        | unmodelled => simp [ht] at hc
      | err e' => simp [hgate] at hc
      | panic => simp [hgate] at hc
      | unmodelled => simp [hgate] at hc

/-- Sign1: success means a non-empty signature is stored -/
theorem sign1_ok_nonempty (m : Sign1Msg) (ext : Option Bytes) (s : Signer)
    (h : (Sign1.sign m ext s).out = .ok ()) : blen (Sign1.sign m ext s).state.sig ≠ 0 := by
  obtain ⟨_, sig, _, _, hne, hst⟩ := sign1_ok_stores_signer_output m ext s h
  rw [hst]
  cases sig with
  | nil => exact absurd rfl hne
  | cons a r => simp [blen]

/-- the Sign1 / Sign1Untagged helpers return no bytes unless signing succeeded and the result
    carries a non-empty signature -/
theorem helper_ok_implies_signed (tagged : Bool) (h : Hdrs) (payload ext : Option Bytes) (s : Signer) (b : Bytes)
    (hok : (sign1Helper tagged h payload ext s).1 = .ok b) :
    (Sign1.sign { h := h, payload := payload, sig := none } ext s).out = .ok () ∧
    blen (Sign1.sign { h := h, payload := payload, sig := none } ext s).state.sig ≠ 0 := by
  unfold sign1Helper at hok
  cases ho : (Sign1.sign { h := h, payload := payload, sig := none } ext s).out with
  | ok u =>
    cases u
    refine ⟨rfl, ?_⟩
    intro hz
    simp only [ho] at hok
    rw [no_empty_signature_emitted_sign1 tagged _ hz] at hok
    cases hok
  | err e => simp [ho] at hok
  | panic => simp [ho] at hok
  | unmodelled => simp [ho] at hok

/-- COSE_Sign fault vectors (any number of signers, any assignment of outcomes): the loop
    returns the first non-ok outcome and never calls a later signer -/
theorem signLoop_first_failure (bprot : Bytes) (payload ext : Option Bytes) :
    ∀ (sgs : List SigV) (ss : List Signer) (i : Nat) (h1 : i < sgs.length) (h2 : i < ss.length),
      (∀ j (hj1 : j < sgs.length) (hj2 : j < ss.length), j < i →
          (Signature.sign sgs[j] ss[j] bprot payload ext).out = .ok ()) →
      (Signature.sign sgs[i] ss[i] bprot payload ext).out ≠ .ok () →
      (signLoop bprot payload ext sgs ss).2.1 = (Signature.sign sgs[i] ss[i] bprot payload ext).out ∧
      (signLoop bprot payload ext sgs ss).1.drop (i + 1) = sgs.drop (i + 1)
  | sg :: sgs, s :: ss, 0, _, _, _, hfail => by
    unfold signLoop
    simp only [List.getElem_cons_zero] at hfail
    cases ho : (Signature.sign sg s bprot payload ext).out with
    | ok u => cases u; exact absurd ho hfail
    | err e => simp [ho]
    | panic => simp [ho]
    | unmodelled => simp [ho]
  | sg :: sgs, s :: ss, i + 1, h1, h2, hbefore, hfail => by
    unfold signLoop
    have h0 := hbefore 0 (by simp) (by simp) (by omega)
    simp only [List.getElem_cons_zero] at h0
    simp only [h0, List.getElem_cons_succ]
    have ih := signLoop_first_failure bprot payload ext sgs ss i (by simpa using h1) (by simpa using h2)
      (fun j hj1 hj2 hlt => by
        have := hbefore (j + 1) (by simpa using hj1) (by simpa using hj2) (by omega)
        simpa using this)
      (by simpa using hfail)
    constructor
    · exact ih.1
    · simpa using ih.2
  | [], _, i, h1, _, _, _ => by simp at h1
  | _ :: _, [], i, _, h2, _, _ => by simp at h2

/-- a failing slot of COSE_Sign holds no signature afterwards (when it held none before) -/
theorem signature_sign_fail_keeps_sig (sg : SigV) (s : Signer) (bprot : Bytes) (payload ext : Option Bytes)
    (h : (Signature.sign sg s bprot payload ext).out ≠ .ok ()) :
    (Signature.sign sg s bprot payload ext).state.sig = sg.sig := by
  unfold Signature.sign at h ⊢
  by_cases hp : payload.isNone
  · simp [hp]
  · by_cases hg : blen sg.sig > 0
    · simp [hp, hg]
    · by_cases hb : bodyProtOK bprot
      · simp only [hp, hg, hb, if_false, Bool.false_eq_true, Bool.not_true] at h ⊢
        cases hgate : ensureSigningAlgorithm sg.h.rawP sg.h.p s.alg ext with
        | ok p' =>
          simp only [hgate] at h ⊢
          cases ht : Signature.toBeSigned { sg with h := { sg.h with p := p' } } bprot payload ext with
          | ok tbs =>
            simp only [ht] at h ⊢
            cases hsg : s.sign tbs with
            | ok sig =>
              by_cases hz : sig.length = 0
              · simp [hz]
              · simp [hsg, hz] at h
            | err e' => simp
            | panic => simp
            | unmodelled => simp
          | err e' => simp
          | panic => simp
          | unmodelled => simp
        | err e' => simp
        | panic => simp
        | unmodelled => simp
      · simp [hp, hg, hb]

/-- `Signature.Sign`: when it reports success, the stored signature is what the signer returned
    for the bytes it was handed, and it is not empty -/
theorem signature_ok_stores_signer_output (sg : SigV) (s : Signer) (bprot : Bytes)
    (payload ext : Option Bytes) (h : (Signature.sign sg s bprot payload ext).out = .ok ()) :
    ∃ tbs sig, (Signature.sign sg s bprot payload ext).calls = [tbs] ∧ s.sign tbs = .ok sig ∧
      sig ≠ [] ∧ (Signature.sign sg s bprot payload ext).state.sig = some sig := by
  unfold Signature.sign at h ⊢
  by_cases hp : payload.isNone
  · simp [hp] at h
  · by_cases hg : blen sg.sig > 0
    · simp [hp, hg] at h
    · by_cases hb : bodyProtOK bprot
      · simp only [hp, hg, hb, if_false, Bool.false_eq_true, Bool.not_true] at h ⊢
        cases hgate : ensureSigningAlgorithm sg.h.rawP sg.h.p s.alg ext with
        | ok p' =>
          simp only [hgate] at h ⊢
          cases ht : Signature.toBeSigned { sg with h := { sg.h with p := p' } } bprot payload ext with
          | ok tbs =>
            simp only [ht] at h ⊢
            cases hsg : s.sign tbs with
            | ok sig =>
              simp only [hsg] at h ⊢
              by_cases hz : sig.length = 0
              · simp [hz] at h
              · simp only [hz, if_false]
                exact ⟨tbs, sig, rfl, hsg, fun hn => hz (by rw [hn]; rfl), rfl⟩
            | err e' => simp [hsg] at h
            | panic => simp [hsg] at h
            | unmodelled => simp [hsg] at h
          | err e' => simp [ht] at h
          | panic => simp [ht] at h
          | unmodelled => simp [ht] at h
        | err e' => simp [hgate] at h
        | panic => simp [hgate] at h
        | unmodelled => simp [hgate] at h
      · simp [hp, hg, hb] at h

/-- `Signature.Sign`: success means a non-empty signature is stored in the slot -/
theorem signature_ok_nonempty (sg : SigV) (s : Signer) (bprot : Bytes)
    (payload ext : Option Bytes) (h : (Signature.sign sg s bprot payload ext).out = .ok ()) :
    blen (Signature.sign sg s bprot payload ext).state.sig ≠ 0 := by
  obtain ⟨_, sig, _, _, hne, hst⟩ := signature_ok_stores_signer_output sg s bprot payload ext h
  rw [hst]
  cases sig with
  | nil => exact absurd rfl hne
  | cons a r => simp [blen]

/-- (repair 9ac6635) `Signature.Sign` with a signer that "succeeds" with no signature bytes never
    reports success, stores nothing, and — whenever the signer was reached — returns
    `ErrEmptySignature` -/
theorem signature_empty_signer_fails (sg : SigV) (s : Signer) (bprot : Bytes)
    (payload ext : Option Bytes) (hs : ∀ tbs, s.sign tbs = .ok []) :
    (Signature.sign sg s bprot payload ext).out ≠ .ok () ∧
    (Signature.sign sg s bprot payload ext).state.sig = sg.sig ∧
    ((Signature.sign sg s bprot payload ext).calls ≠ [] →
      (Signature.sign sg s bprot payload ext).out = .err .emptySig) := by
  have hne : (Signature.sign sg s bprot payload ext).out ≠ .ok () := by
    intro h
    obtain ⟨tbs, sig, _, h2, h3, _⟩ := signature_ok_stores_signer_output sg s bprot payload ext h
    rw [hs tbs] at h2
    cases h2
    exact h3 rfl
  refine ⟨hne, signature_sign_fail_keeps_sig sg s bprot payload ext hne, ?_⟩
  unfold Signature.sign
  by_cases hp : payload.isNone
  · simp [hp]
  · by_cases hg : blen sg.sig > 0
    · simp [hp, hg]
    · by_cases hb : bodyProtOK bprot
      · simp only [hp, hg, hb, if_false, Bool.false_eq_true, Bool.not_true]
        cases ensureSigningAlgorithm sg.h.rawP sg.h.p s.alg ext with
        | ok p' =>
          simp only []
          cases Signature.toBeSigned { sg with h := { sg.h with p := p' } } bprot payload ext with
          | ok tbs => simp [hs tbs]
          | err e' => simp
          | panic => simp
          | unmodelled => simp
        | err e' => simp
        | panic => simp
        | unmodelled => simp
      · simp [hp, hg, hb]

/-- COSE_Sign loop: when it reports success over as many signers as slots, every slot holds a
    non-empty signature -/
theorem signLoop_ok_all_filled (bprot : Bytes) (payload ext : Option Bytes) :
    ∀ (sgs : List SigV) (ss : List Signer), sgs.length = ss.length →
      (signLoop bprot payload ext sgs ss).2.1 = .ok () →
      ∀ sg ∈ (signLoop bprot payload ext sgs ss).1, blen sg.sig ≠ 0
  | [], _, _, _ => by
    intro sg hsg
    unfold signLoop at hsg
    simp at hsg
  | _ :: _, [], hl, _ => by simp at hl
  | sg :: sgs, s :: ss, hl, hok => by
    unfold signLoop at hok ⊢
    cases ho : (Signature.sign sg s bprot payload ext).out with
    | ok u =>
      cases u
      simp only [ho] at hok ⊢
      intro x hx
      rcases List.mem_cons.mp hx with rfl | hx
      · exact signature_ok_nonempty sg s bprot payload ext ho
      · exact signLoop_ok_all_filled bprot payload ext sgs ss (by simpa using hl) hok x hx
    | err e => simp [ho] at hok
    | panic => simp [ho] at hok
    | unmodelled => simp [ho] at hok

/-- COSE_Sign loop, first empty answer (a signer that returns no error and no bytes for slot `i`,
    the earlier slots having been signed): the loop stops there with `ErrEmptySignature`, that
    slot holds no signature, the later ones are untouched -/
theorem signLoop_first_empty_answer (bprot : Bytes) (payload ext : Option Bytes)
    (sgs : List SigV) (ss : List Signer) (i : Nat) (h1 : i < sgs.length) (h2 : i < ss.length)
    (hbefore : ∀ j (hj1 : j < sgs.length) (hj2 : j < ss.length), j < i →
      (Signature.sign sgs[j] ss[j] bprot payload ext).out = .ok ())
    (hempty : ∀ tbs, ss[i].sign tbs = .ok [])
    (hreached : (Signature.sign sgs[i] ss[i] bprot payload ext).calls ≠ []) :
    (signLoop bprot payload ext sgs ss).2.1 = .err .emptySig ∧
    (Signature.sign sgs[i] ss[i] bprot payload ext).state.sig = sgs[i].sig ∧
    (signLoop bprot payload ext sgs ss).1.drop (i + 1) = sgs.drop (i + 1) := by
  obtain ⟨hne, hkeep, herr⟩ := signature_empty_signer_fails sgs[i] ss[i] bprot payload ext hempty
  obtain ⟨ha, hb⟩ := signLoop_first_failure bprot payload ext sgs ss i h1 h2 hbefore hne
  exact ⟨by rw [ha, herr hreached], hkeep, hb⟩

/-- `Countersignature.Sign`: success means what the signer returned is stored, and is not empty -/
theorem csig_ok_stores_signer_output (cs : SigV) (s : Signer) (parent : Parent)
    (ext : Option Bytes) (h : (Countersignature.sign cs s parent ext).out = .ok ()) :
    ∃ tbs sig, (Countersignature.sign cs s parent ext).calls = [tbs] ∧ s.sign tbs = .ok sig ∧
      sig ≠ [] ∧ (Countersignature.sign cs s parent ext).state.sig = some sig := by
  unfold Countersignature.sign at h ⊢
  by_cases hg : blen cs.sig > 0
  · simp [hg] at h
  · simp only [hg, if_false] at h ⊢
    cases hgate : ensureSigningAlgorithm cs.h.rawP cs.h.p s.alg ext with
    | ok p' =>
      simp only [hgate] at h ⊢
      cases ht : Countersignature.toBeSigned { cs with h := { cs.h with p := p' } } parent ext with
      | ok tbs =>
        simp only [ht] at h ⊢
        cases hsg : s.sign tbs with
        | ok sig =>
          simp only [hsg] at h ⊢
          by_cases hz : sig.length = 0
          · simp [hz] at h
          · simp only [hz, if_false]
            exact ⟨tbs, sig, rfl, hsg, fun hn => hz (by rw [hn]; rfl), rfl⟩
        | err e' => simp [hsg] at h
        | panic => simp [hsg] at h
        | unmodelled => simp [hsg] at h
      | err e' => simp [ht] at h
      | panic => simp [ht] at h
      | unmodelled => simp [ht] at h
    | err e' => simp [hgate] at h
    | panic => simp [hgate] at h
    | unmodelled => simp [hgate] at h

/-- (repair 9ac6635) `Countersignature.Sign` with a signer that "succeeds" with no signature
    bytes never reports success, stores nothing, and — whenever the signer was reached — returns
    `ErrEmptySignature` -/
theorem csig_empty_signer_fails (cs : SigV) (s : Signer) (parent : Parent) (ext : Option Bytes)
    (hs : ∀ tbs, s.sign tbs = .ok []) :
    (Countersignature.sign cs s parent ext).out ≠ .ok () ∧
    (Countersignature.sign cs s parent ext).state.sig = cs.sig ∧
    ((Countersignature.sign cs s parent ext).calls ≠ [] →
      (Countersignature.sign cs s parent ext).out = .err .emptySig) := by
  unfold Countersignature.sign
  by_cases hg : blen cs.sig > 0
  · simp [hg]
  · simp only [hg, if_false]
    cases ensureSigningAlgorithm cs.h.rawP cs.h.p s.alg ext with
    | ok p' =>
      simp only []
      cases Countersignature.toBeSigned { cs with h := { cs.h with p := p' } } parent ext with
      | ok tbs => simp [hs tbs]
      | err e' => simp
      | panic => simp
      | unmodelled => simp
    | err e' => simp
    | panic => simp
    | unmodelled => simp

/-- `Countersign0` never returns an empty countersignature: bytes come back only as the signer's
    non-empty answer for the bytes it was handed -/
theorem countersign0_ok_nonempty (s : Signer) (parent : Parent) (ext : Option Bytes) (b : Bytes)
    (h : (countersign0 s parent ext).1 = .ok b) :
    b ≠ [] ∧ ∃ tbs, (countersign0 s parent ext).2 = [tbs] ∧ s.sign tbs = .ok b := by
  unfold countersign0 at h ⊢
  cases ht : countersignToBeSigned true parent [0x40] ext with
  | ok tbs =>
    simp only [ht] at h ⊢
    cases hsg : s.sign tbs with
    | ok sig =>
      simp only [hsg] at h ⊢
      by_cases hz : sig.length = 0
      · simp [hz] at h
      · simp only [hz, if_false, Out.ok.injEq] at h ⊢
        subst h
        exact ⟨fun hn => hz (by rw [hn]; rfl), tbs, rfl, hsg⟩
    | err e => simp [hsg] at h
    | panic => simp [hsg] at h
    | unmodelled => simp [hsg] at h
  | err e => simp [ht] at h
  | panic => simp [ht] at h
  | unmodelled => simp [ht] at h

/-- (repair 9ac6635) `Countersign0` with a signer that "succeeds" with no signature bytes returns
    no bytes, and `ErrEmptySignature` whenever the signer was reached -/
theorem countersign0_empty_signer_fails (s : Signer) (parent : Parent) (ext : Option Bytes)
    (hs : ∀ tbs, s.sign tbs = .ok []) :
    (∀ b, (countersign0 s parent ext).1 ≠ .ok b) ∧
    ((countersign0 s parent ext).2 ≠ [] → (countersign0 s parent ext).1 = .err .emptySig) := by
  constructor
  · intro b h
    obtain ⟨hne, tbs, _, h2⟩ := countersign0_ok_nonempty s parent ext b h
    rw [hs tbs] at h2
    cases h2
    exact hne rfl
  · unfold countersign0
    cases countersignToBeSigned true parent [0x40] ext with
    | ok tbs => simp [hs tbs]
    | err e => simp
    | panic => simp
    | unmodelled => simp

/-- verifier errors are propagated: whatever the verifier returns for the (content, signature)
    it is handed is the result of Sign1.verify -/
theorem verify_error_propagates (m : Sign1Msg) (ext : Option Bytes) (v : Verifier) (tbs : Bytes)
    (h : (Sign1.verify m ext v).2 = [tbs]) :
    (Sign1.verify m ext v).1 = v.verify tbs (m.sig.getD []) := by
  unfold Sign1.verify at h ⊢
  by_cases hp : m.payload.isNone
  · simp [hp] at h
  · by_cases hs : blen m.sig = 0
    · simp [hp, hs] at h
    · simp only [hp, hs, if_false, Bool.false_eq_true] at h ⊢
      cases hg : ensureVerificationAlgorithm m.h.p v.alg ext with
      | ok u =>
        simp only [hg] at h ⊢
        cases ht : Sign1.toBeSigned m ext with
        | ok t => simp [ht] at h ⊢; rw [h]
        | err e => simp [ht] at h
        | panic => simp [ht] at h
        | unmodelled => simp [ht] at h
      | err e => simp [hg] at h
      | panic => simp [hg] at h
      | unmodelled => simp [hg] at h

end C20
