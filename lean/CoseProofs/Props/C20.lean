/-
  C20 — a failing signer never yields a usable or half-signed message; verifier errors are
  propagated; no encoder emits an empty signature.  Signers / verifiers are oracle parameters
  (any function returning ok sig | ok [] | err e), so the statements hold for every fault.
-/
import CoseModel.Messages
import CoseModel.HashEnvelope
open CoseModel
namespace C20

/-- Sign1: if the signer reports an error, that error is returned and no signature is stored -/
theorem sign1_fault (m : Sign1Msg) (ext : Option Bytes) (s : Signer) (e : Err)
    (hs : ∀ tbs, s.sign tbs = .err e) :
    ((Sign1.sign m ext s).out = .ok () → False) ∧ (Sign1.sign m ext s).state.sig = m.sig := by
  unfold Sign1.sign
  by_cases hp : m.payload.isNone
  · simp [hp]
  · by_cases hg : blen m.sig > 0
    · simp [hp, hg]
    · simp only [hp, hg, if_false, Bool.false_eq_true]
      cases ensureSigningAlgorithm m.h.rawP m.h.p s.alg ext with
      | ok p' =>
        simp only []
        cases Sign1.toBeSigned { m with h := { m.h with p := p' } } ext with
        | ok tbs => simp [hs tbs]
        | err e' => simp
        | panic => simp
        | unmodelled => simp
      | err e' => simp
      | panic => simp
      | unmodelled => simp

/-- Sign1: when signing reports success, the stored signature is exactly what the signer
    returned for the bytes it was handed -/
theorem sign1_ok_stores_signer_output (m : Sign1Msg) (ext : Option Bytes) (s : Signer)
    (h : (Sign1.sign m ext s).out = .ok ()) :
    ∃ tbs sig, (Sign1.sign m ext s).calls = [tbs] ∧ s.sign tbs = .ok sig ∧
      (Sign1.sign m ext s).state.sig = some sig := by
  unfold Sign1.sign at h ⊢
  by_cases hp : m.payload.isNone
  · simp [hp] at h
  · by_cases hg : blen m.sig > 0
    · simp [hp, hg] at h
    · simp only [hp, hg, if_false, Bool.false_eq_true] at h ⊢
      cases hgate : ensureSigningAlgorithm m.h.rawP m.h.p s.alg ext with
      | ok p' =>
        simp only [hgate] at h ⊢
        cases ht : Sign1.toBeSigned { m with h := { m.h with p := p' } } ext with
        | ok tbs =>
          simp only [ht] at h ⊢
          cases hsg : s.sign tbs with
          | ok sig => exact ⟨tbs, sig, by simp, hsg, by simp⟩
          | err e' => simp [hsg] at h
          | panic => simp [hsg] at h
          | unmodelled => simp [hsg] at h
        | err e' => simp [ht] at h
        | panic => simp [ht] at h
        | unmodelled => simp [ht] at h
      | err e' => simp [hgate] at h
      | panic => simp [hgate] at h
      | unmodelled => simp [hgate] at h

/-- no encoder emits an empty signature -/
theorem no_empty_signature_emitted_sign1 (tagged : Bool) (m : Sign1Msg) (h : blen m.sig = 0) :
    Sign1.marshal tagged m = .err .emptySig := by
  simp [Sign1.marshal, Sign1.content, h]

theorem no_empty_signature_emitted_sig (s : SigV) (h : blen s.sig = 0) :
    Signature.marshal s = .err .emptySig := by
  simp [Signature.marshal, h]

/-- a signer that "succeeds" with an empty signature leaves a message that cannot be serialised -/
theorem sign1_empty_then_unencodable (tagged : Bool) (m : Sign1Msg) (ext : Option Bytes) (s : Signer)
    (hs : ∀ tbs, s.sign tbs = .ok []) (hm : blen m.sig = 0) :
    Sign1.marshal tagged (Sign1.sign m ext s).state = .err .emptySig := by
  apply no_empty_signature_emitted_sign1
  unfold Sign1.sign
  by_cases hp : m.payload.isNone
  · simp [hp, hm]
  · have hg : ¬ blen m.sig > 0 := by omega
    simp only [hp, hg, if_false, Bool.false_eq_true]
    cases ensureSigningAlgorithm m.h.rawP m.h.p s.alg ext with
    | ok p' =>
      simp only []
      cases Sign1.toBeSigned { m with h := { m.h with p := p' } } ext with
      | ok tbs => simp [hs tbs, blen]
      | err e' => simpa using hm
      | panic => simpa using hm
      | unmodelled => simpa using hm
    | err e' => simpa using hm
    | panic => simpa using hm
    | unmodelled => simpa using hm

/-- the Sign1 / Sign1Untagged helpers return no bytes unless signing succeeded and the result
    carries a non-empty signature -/
theorem helper_ok_implies_signed (tagged : Bool) (h : Hdrs) (payload ext : Option Bytes) (s : Signer) (b : Bytes)
    (hok : (sign1Helper tagged h payload ext s).1 = .ok b) :
    (Sign1.sign { h := h, payload := payload, sig := none } ext s).out = .ok () ∧
    blen (Sign1.sign { h := h, payload := payload, sig := none } ext s).state.sig ≠ 0 := by
  unfold sign1Helper at hok
  cases ho : (Sign1.sign { h := h, payload := payload, sig := none } ext s).out with
  | ok u =>
    cases u
    refine ⟨rfl, ?_⟩
    intro hz
    simp only [ho] at hok
    rw [no_empty_signature_emitted_sign1 tagged _ hz] at hok
    cases hok
  | err e => simp [ho] at hok
  | panic => simp [ho] at hok
  | unmodelled => simp [ho] at hok

/-- COSE_Sign fault vectors (any number of signers, any assignment of outcomes): the loop
    returns the first non-ok outcome and never calls a later signer -/
theorem signLoop_first_failure (bprot : Bytes) (payload ext : Option Bytes) :
    ∀ (sgs : List SigV) (ss : List Signer) (i : Nat) (h1 : i < sgs.length) (h2 : i < ss.length),
      (∀ j (hj1 : j < sgs.length) (hj2 : j < ss.length), j < i →
          (Signature.sign sgs[j] ss[j] bprot payload ext).out = .ok ()) →
      (Signature.sign sgs[i] ss[i] bprot payload ext).out ≠ .ok () →
      (signLoop bprot payload ext sgs ss).2.1 = (Signature.sign sgs[i] ss[i] bprot payload ext).out ∧
      (signLoop bprot payload ext sgs ss).1.drop (i + 1) = sgs.drop (i + 1)
  | sg :: sgs, s :: ss, 0, _, _, _, hfail => by
    unfold signLoop
    simp only [List.getElem_cons_zero] at hfail
    cases ho : (Signature.sign sg s bprot payload ext).out with
    | ok u => cases u; exact absurd ho hfail
    | err e => simp [ho]
    | panic => simp [ho]
    | unmodelled => simp [ho]
  | sg :: sgs, s :: ss, i + 1, h1, h2, hbefore, hfail => by
    unfold signLoop
    have h0 := hbefore 0 (by simp) (by simp) (by omega)
    simp only [List.getElem_cons_zero] at h0
    simp only [h0, List.getElem_cons_succ]
    have ih := signLoop_first_failure bprot payload ext sgs ss i (by simpa using h1) (by simpa using h2)
      (fun j hj1 hj2 hlt => by
        have := hbefore (j + 1) (by simpa using hj1) (by simpa using hj2) (by omega)
        simpa using this)
      (by simpa using hfail)
    constructor
    · exact ih.1
    · simpa using ih.2
  | [], _, i, h1, _, _, _ => by simp at h1
  | _ :: _, [], i, _, h2, _, _ => by simp at h2

/-- a failing slot of COSE_Sign holds no signature afterwards (when it held none before) -/
theorem signature_sign_fail_keeps_sig (sg : SigV) (s : Signer) (bprot : Bytes) (payload ext : Option Bytes)
    (h : (Signature.sign sg s bprot payload ext).out ≠ .ok ()) :
    (Signature.sign sg s bprot payload ext).state.sig = sg.sig := by
  unfold Signature.sign at h ⊢
  by_cases hp : payload.isNone
  · simp [hp]
  · by_cases hg : blen sg.sig > 0
    · simp [hp, hg]
    · by_cases hb : bodyProtOK bprot
      · simp only [hp, hg, hb, if_false, Bool.false_eq_true, Bool.not_true] at h ⊢
        cases hgate : ensureSigningAlgorithm sg.h.rawP sg.h.p s.alg ext with
        | ok p' =>
          simp only [hgate] at h ⊢
          cases ht : Signature.toBeSigned { sg with h := { sg.h with p := p' } } bprot payload ext with
          | ok tbs =>
            simp only [ht] at h ⊢
            cases hsg : s.sign tbs with
            | ok sig => simp [hsg] at h
            | err e' => simp
            | panic => simp
            | unmodelled => simp
          | err e' => simp
          | panic => simp
          | unmodelled => simp
        | err e' => simp
        | panic => simp
        | unmodelled => simp
      · simp [hp, hg, hb]

/-- verifier errors are propagated: whatever the verifier returns for the (content, signature)
    it is handed is the result of Sign1.verify -/
theorem verify_error_propagates (m : Sign1Msg) (ext : Option Bytes) (v : Verifier) (tbs : Bytes)
    (h : (Sign1.verify m ext v).2 = [tbs]) :
    (Sign1.verify m ext v).1 = v.verify tbs (m.sig.getD []) := by
  unfold Sign1.verify at h ⊢
  by_cases hp : m.payload.isNone
  · simp [hp] at h
  · by_cases hs : blen m.sig = 0
    · simp [hp, hs] at h
    · simp only [hp, hs, if_false, Bool.false_eq_true] at h ⊢
      cases hg : ensureVerificationAlgorithm m.h.p v.alg ext with
      | ok u =>
        simp only [hg] at h ⊢
        cases ht : Sign1.toBeSigned m ext with
        | ok t => simp [ht] at h ⊢; rw [h]
        | err e => simp [ht] at h
        | panic => simp [ht] at h
        | unmodelled => simp [ht] at h
      | err e => simp [hg] at h
      | panic => simp [hg] at h
      | unmodelled => simp [hg] at h

end C20
