/-
  C01 — every signed message verifies, in memory and after a wire round trip.
  Crypto is a parameter: `Matches s v` says the verifier accepts what the signer produces
  (what the Go standard library's primitives provide for matching keys) and that signatures are
  non-empty.
-/
import CoseModel.Messages
import CoseProofs.Props.C04
open CoseModel
namespace C01

/-- signer / verifier pair with matching keys -/
structure Matches (s : Signer) (v : Verifier) : Prop where
  alg : v.alg = s.alg
  correct : ∀ tbs sig, s.sign tbs = .ok sig → v.verify tbs sig = .ok ()
  nonempty : ∀ tbs sig, s.sign tbs = .ok sig → sig ≠ []

/-- the gate passes after signing: the alg consulted by Verify is the one Sign checked or inserted -/
theorem gate_after_sign (rawP : Option Bytes) (p p' : GoMap) (alg : Int) (ext : Option Bytes)
    (h : ensureSigningAlgorithm rawP p alg ext = .ok p')
    (hset : algorithmOf p = .notFound → algorithmOf (p.set (lbl 1) (.alg alg)) = .found alg) :
    ensureVerificationAlgorithm p' alg ext = .ok () := by
  rcases C04.sign_gate_cases rawP p p' alg ext h with ⟨hf, rfl⟩ | ⟨hn, he, rfl⟩ | ⟨hn, _, _, rfl⟩
  · simp [ensureVerificationAlgorithm, hf]
  · simp [ensureVerificationAlgorithm, hn, he]
  · simp [ensureVerificationAlgorithm, hset hn]

/-- inserting alg under the key int64(1) into a map that has no alg under any spelling makes it
    the alg found -/
theorem algorithmOf_set (p : GoMap) (alg : Int) (h : algorithmOf p = .notFound) :
    algorithmOf (p.set (lbl 1) (.alg alg)) = .found alg := by
  have hnone : lookupLabel p (lbl 1) = none := by
    unfold algorithmOf at h
    cases hl : lookupLabel p (lbl 1) with
    | none => rfl
    | some v => rw [hl] at h; cases v <;> simp at h <;> (split at h <;> cases h)
  have hhas : p.has (lbl 1) = false := by
    unfold lookupLabel at hnone
    cases hlk : p.lookup (lbl 1) with
    | none => simp [GoMap.has, hlk]
    | some v => simp [hlk] at hnone
  have hlook : (p ++ [(lbl 1, GoVal.alg alg)]).lookup (lbl 1) = some (.alg alg) := by
    unfold GoMap.has GoMap.lookup at hhas
    unfold GoMap.lookup
    cases hf : p.find? (fun e => e.1.keyEq (lbl 1)) with
    | some e => simp [hf] at hhas
    | none =>
      rw [List.find?_append, hf]
      simp [lbl, GoVal.keyEq]
  simp [GoMap.set, hhas, algorithmOf, lookupLabel, hlook]

/-- COSE_Sign1, in memory: whenever Sign succeeds, Verify with the matching verifier and the same
    external data succeeds — for every header content, payload and external data -/
theorem sign1_then_verify (m : Sign1Msg) (ext : Option Bytes) (s : Signer) (v : Verifier)
    (hm : Matches s v) (hok : (Sign1.sign m ext s).out = .ok ()) :
    (Sign1.verify (Sign1.sign m ext s).state ext v).1 = .ok () := by
  unfold Sign1.sign at hok ⊢
  by_cases hp : m.payload.isNone
  · simp [hp] at hok
  · by_cases hg : blen m.sig > 0
    · simp [hp, hg] at hok
    · simp only [hp, hg, if_false, Bool.false_eq_true] at hok ⊢
      cases hgate : ensureSigningAlgorithm m.h.rawP m.h.p s.alg ext with
      | ok p' =>
        simp only [hgate] at hok ⊢
        cases ht : Sign1.toBeSigned { m with h := { m.h with p := p' } } ext with
        | ok tbs =>
          simp only [ht] at hok ⊢
          cases hsg : s.sign tbs with
          | ok sig =>
            have hne := hm.nonempty tbs sig hsg
            have hz : ¬ sig.length = 0 := by
              cases sig with
              | nil => exact absurd rfl hne
              | cons a r => simp
            simp only [hz, if_false]
            have hv := gate_after_sign _ _ _ _ _ hgate (algorithmOf_set _ _)
            have hlen : blen (some sig) ≠ 0 := hz
            have ht' : Sign1.toBeSigned { h := { m.h with p := p' }, payload := m.payload, sig := some sig } ext = .ok tbs := ht
            have hp' : m.payload.isNone = false := by cases hq : m.payload <;> simp_all
            simp only [Sign1.verify, hp', Bool.false_eq_true, if_false, hlen, hm.alg, hv, ht']
            simpa using hm.correct tbs sig hsg
          | err e => simp [hsg] at hok
          | panic => simp [hsg] at hok
          | unmodelled => simp [hsg] at hok
        | err e => simp [ht] at hok
        | panic => simp [ht] at hok
        | unmodelled => simp [ht] at hok
      | err e => simp [hgate] at hok
      | panic => simp [hgate] at hok
      | unmodelled => simp [hgate] at hok

/-- non-vacuity: the transparent scheme of the harness is a matching pair -/
example : Matches { alg := -7, sign := fun t => .ok (1 :: 1 :: t) }
    { alg := -7, verify := fun t sg => if sg = 1 :: 1 :: t then .ok () else .err .verification } where
  alg := rfl
  correct := by intro tbs sig h; cases h; simp
  nonempty := by intro tbs sig h; cases h; simp

end C01
