/-
  C08 — encoding is deterministic and canonical: independent of Go's map iteration order, keys
  sorted bytewise without duplicates, shortest-form heads.
-/
import CoseModel.Messages
import CoseProofs.Lemmas.Sort
open CoseModel
namespace C08

/-- the sorted entry list — hence the emitted bytes — does not depend on the order in which Go's
    `range` delivered the (distinct) encoded keys -/
theorem map_bytes_order_independent (l l' : List (Bytes × Bytes)) (hp : l.Perm l')
    (hd : (l.map Prod.fst).Nodup) : concatPairs (sortPairs l) = concatPairs (sortPairs l') :=
  concat_sortPairs_perm_invariant l l' hp hd

/-- map keys are emitted strictly increasing bytewise: sorted and free of duplicates -/
theorem map_keys_strictly_sorted (l : List (Bytes × Bytes)) (hd : (l.map Prod.fst).Nodup) :
    (sortPairs l).Pairwise (fun a b => bytesLt a.1 b.1 = true) := sortPairs_strict l hd

/-- sorting loses and invents nothing -/
theorem map_entries_preserved (l : List (Bytes × Bytes)) : (sortPairs l).Perm l := sortPairs_perm l

/-- sorting an already canonical list changes nothing (re-encoding is idempotent) -/
theorem sort_idempotent (l : List (Bytes × Bytes)) : sortPairs (sortPairs l) = sortPairs l := sortPairs_idem l

/-- integers and lengths are emitted in shortest form -/
theorem head_shortest (m n : Nat) : encHead m n = headBytes m (HW.shortest n) n := rfl

theorem shortest_fits (n : Nat) (h : n < 18446744073709551616) : (HW.shortest n).fits n = true := by
  unfold HW.shortest
  split
  · simp [HW.fits, *]
  · split
    · simp [HW.fits, *]
    · split
      · simp [HW.fits, *]
      · split
        · simp [HW.fits, *]
        · simp [HW.fits, h]

/-- shortest means: no narrower width fits -/
theorem shortest_minimal (n : Nat) (w : HW) (h : w.fits n = true) : (HW.shortest n).ai ≤ w.ai := by
  unfold HW.shortest
  cases w <;> simp only [HW.fits, decide_eq_true_eq] at h <;> (repeat' split) <;> simp [HW.ai] <;> omega

/-- the protected-header bytes emitted on the wire are the bytes that were signed: both come
    from the one function `marshalProtected` applied to the post-signing headers -/
theorem emit_protected_eq_signed (m : Sign1Msg) (ext : Option Bytes) (tagged : Bool) (t out : Bytes)
    (ht : Sign1.toBeSigned m ext = .ok t) (ho : Sign1.marshal tagged m = .ok out) :
    ∃ p, marshalProtected m.h = .ok p ∧ (∃ p', detBstr p = .ok p' ∧
      t = encHead 4 4 ++ (encTstr ctxSignature1 ++ (p' ++ (encBstr (ext.getD []) ++ optBytesEnc m.payload)))) ∧
      ∃ u, out = (if tagged then [0xd2] else []) ++ (0x84 :: (p ++ (u ++ (optBytesEnc m.payload ++ encBstr (m.sig.getD []))))) := by
  unfold Sign1.toBeSigned at ht
  cases hp : marshalProtected m.h with
  | ok p =>
    simp only [hp, bind, Out.bind] at ht
    cases hd : detBstr p with
    | ok p' =>
      simp only [hd] at ht
      refine ⟨p, rfl, ⟨p', hd, by cases ht; rfl⟩, ?_⟩
      unfold Sign1.marshal Sign1.content at ho
      by_cases hz : blen m.sig = 0
      · simp [hz, bind, Out.bind] at ho
      · simp only [hz, if_false, bind, Out.bind] at ho
        unfold Hdrs.marshal at ho
        by_cases hiv : ensureIV m.h.p m.h.u
        · simp only [hiv, Bool.not_true, Bool.false_eq_true, if_false, hp, bind, Out.bind] at ho
          cases hu : marshalUnprotected m.h with
          | ok u =>
            simp only [hu] at ho
            refine ⟨u, ?_⟩
            cases tagged <;> simp_all
          | err e => simp [hu] at ho
          | panic => simp [hu] at ho
          | unmodelled => simp [hu] at ho
        · simp [hiv] at ho
    | err e => simp [hd] at ht
    | panic => simp [hd] at ht
    | unmodelled => simp [hd] at ht
  | err e => simp [hp, bind, Out.bind] at ht
  | panic => simp [hp, bind, Out.bind] at ht
  | unmodelled => simp [hp, bind, Out.bind] at ht

end C08
