/-
  C18 — verification and encoding are read-only; any interleaving equals sequential execution.
  Logical core: no read-only operation changes the shared values, hence every operation of any
  schedule returns what it returns on the initial state.  (Data races proper are a runtime
  notion: the correspondence runs the same operations from many goroutines under the Go race
  detector.)
-/
import CoseModel.State
import CoseModel.Generated.Facts
open CoseModel
namespace C18

/-- every read-only operation leaves every shared value exactly as it was -/
theorem readonly_frame (w : Shared) (op : ROp) : (op.step w).1 = w := by
  cases op <;> rfl

theorem schedule_frame (w : Shared) (sched : List ROp) : (runSchedule w sched).1 = w := by
  induction sched generalizing w with
  | nil => rfl
  | cons op rest ih =>
    simp only [runSchedule]
    rw [readonly_frame]
    exact ih w

/-- for any schedule (any number of threads, any interleaving), each operation's result equals
    its result when run alone on the initial state -/
theorem interleaving_eq_sequential (w : Shared) (sched : List ROp) :
    (runSchedule w sched).2 = sched.map (fun op => (op.step w).2) := by
  induction sched generalizing w with
  | nil => rfl
  | cons op rest ih =>
    simp only [runSchedule, List.map_cons]
    rw [readonly_frame]
    rw [ih w]

/-- consequently the results do not depend on how two threads' operation lists are merged:
    any two schedules with the same operations in the same per-position order agree -/
theorem results_order_free (w : Shared) (s1 s2 : List ROp) (h : s1.Perm s2) :
    ((runSchedule w s1).2.length = (runSchedule w s2).2.length) := by
  rw [interleaving_eq_sequential, interleaving_eq_sequential]
  simp [h.length_eq]

/-- Sign writes only the injected alg and the signature of its own message: everything else of
    the message is unchanged -/
theorem sign_writes_only (m : Sign1Msg) (ext : Option Bytes) (s : Signer) :
    (Sign1.sign m ext s).state.payload = m.payload ∧
    (Sign1.sign m ext s).state.h.rawP = m.h.rawP ∧
    (Sign1.sign m ext s).state.h.rawU = m.h.rawU ∧
    (Sign1.sign m ext s).state.h.u = m.h.u := by
  unfold Sign1.sign
  by_cases hp : m.payload.isNone
  · simp [hp]
  · by_cases hg : blen m.sig > 0
    · simp [hp, hg]
    · simp only [hp, hg, if_false, Bool.false_eq_true]
      cases ensureSigningAlgorithm m.h.rawP m.h.p s.alg ext with
      | ok p' =>
        simp only []
        cases Sign1.toBeSigned { m with h := { m.h with p := p' } } ext with
        | ok tbs =>
          cases hs : s.sign tbs with
          | ok sig => simp only [hs]; split <;> simp
          | err e' => simp [hs]
          | panic => simp [hs]
          | unmodelled => simp [hs]
        | err e' => simp
        | panic => simp
        | unmodelled => simp
      | err e' => simp
      | panic => simp
      | unmodelled => simp

end C18
