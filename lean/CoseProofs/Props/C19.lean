/-
  C19 — decoding depends only on the input bytes: atomic and history-free.
  (No-aliasing is a property of Go memory; the model's values are immutable, and the
  correspondence check scribbles over every input and output buffer to tie that to the code.)
-/
import CoseModel.State
open CoseModel
namespace C19

variable {α : Type}

/-- a failed decode leaves the destination exactly as it was -/
theorem decode_atomic (dec : Bytes → Out α) (dst : α) (b : Bytes)
    (h : (decodeInto dec dst b).2 ≠ .ok ()) : (decodeInto dec dst b).1 = dst := by
  unfold decodeInto at *
  cases hd : dec b <;> simp_all

/-- a successful decode yields a value that is a function of the bytes alone: the same for every
    previous content of the destination -/
theorem decode_history_free (dec : Bytes → Out α) (dst dst' : α) (b : Bytes)
    (h : (decodeInto dec dst b).2 = .ok ()) :
    (decodeInto dec dst' b).2 = .ok () ∧ (decodeInto dec dst b).1 = (decodeInto dec dst' b).1 := by
  unfold decodeInto at *
  cases hd : dec b <;> simp_all

/-- the verdict itself never depends on the destination -/
theorem decode_verdict_indep (dec : Bytes → Out α) (dst dst' : α) (b : Bytes) :
    (decodeInto dec dst b).2 = (decodeInto dec dst' b).2 := by
  unfold decodeInto
  cases dec b <;> rfl

/-- the last input that decodes successfully, if any -/
def lastOk (dec : Bytes → Out α) : List Bytes → Option α
  | [] => none
  | b :: r =>
    match lastOk dec r with
    | some a => some a
    | none => (match dec b with | .ok a => some a | _ => none)

theorem history_snoc (dec : Bytes → Out α) (dst : α) (l : List Bytes) (b : Bytes) :
    decodeHistory dec dst (l ++ [b]) = (decodeInto dec (decodeHistory dec dst l) b).1 := by
  simp [decodeHistory, List.foldl_append]

theorem lastOk_snoc (dec : Bytes → Out α) (l : List Bytes) (b : Bytes) :
    lastOk dec (l ++ [b]) = (match dec b with | .ok a => some a | _ => lastOk dec l) := by
  induction l with
  | nil => simp [lastOk]
  | cons x r ih =>
    simp only [List.cons_append, lastOk, ih]
    cases hb : dec b <;> simp

/-- Invariant over every history (any number of successful and failing decodes, in any order):
    the variable holds the fresh decoding of the last input that decoded successfully, or its
    initial value when none did. -/
theorem histories (dec : Bytes → Out α) (dst : α) (inputs : List Bytes) :
    decodeHistory dec dst inputs = (lastOk dec inputs).getD dst := by
  induction inputs generalizing dst with
  | nil => simp [decodeHistory, lastOk]
  | cons b r ih =>
    have hstep : decodeHistory dec dst (b :: r) = decodeHistory dec (decodeInto dec dst b).1 r := by
      simp [decodeHistory]
    rw [hstep, ih]
    simp only [lastOk]
    cases hl : lastOk dec r with
    | some a => simp
    | none =>
      simp only [Option.getD_none]
      unfold decodeInto
      cases dec b <;> simp

/-- in particular, decoding into a used variable equals decoding into a fresh one -/
theorem used_eq_fresh (dec : Bytes → Out α) (dst fresh : α) (hist : List Bytes) (b : Bytes) (a : α)
    (h : dec b = .ok a) :
    decodeHistory dec dst (hist ++ [b]) = a ∧ (decodeInto dec fresh b).1 = a := by
  rw [histories, lastOk_snoc]
  simp [h, decodeInto]

/-- instances for the message decoders of the library -/
theorem sign1_atomic (tagged : Bool) (dst : Sign1Msg) (b : Bytes)
    (h : (decodeInto (Sign1.unmarshal tagged) dst b).2 ≠ .ok ()) :
    (decodeInto (Sign1.unmarshal tagged) dst b).1 = dst := decode_atomic _ _ _ h
theorem sign_atomic (dst : SignMsg) (b : Bytes)
    (h : (decodeInto Sign.unmarshal dst b).2 ≠ .ok ()) :
    (decodeInto Sign.unmarshal dst b).1 = dst := decode_atomic _ _ _ h
theorem signature_atomic (dst : SigV) (b : Bytes)
    (h : (decodeInto Signature.unmarshal dst b).2 ≠ .ok ()) :
    (decodeInto Signature.unmarshal dst b).1 = dst := decode_atomic _ _ _ h
theorem protected_atomic (dst : GoMap) (b : Bytes)
    (h : (decodeInto Protected.unmarshal dst b).2 ≠ .ok ()) :
    (decodeInto Protected.unmarshal dst b).1 = dst := decode_atomic _ _ _ h
theorem unprotected_atomic (dst : GoMap) (b : Bytes)
    (h : (decodeInto Unprotected.unmarshal dst b).2 ≠ .ok ()) :
    (decodeInto Unprotected.unmarshal dst b).1 = dst := decode_atomic _ _ _ h

/-- non-vacuity: a concrete failing input and a concrete successful one -/
example : (decodeInto (Sign1.unmarshal true) ({} : Sign1Msg) [0xd2]).2 ≠ .ok () := by
  simp [decodeInto, Sign1.unmarshal]

end C19
