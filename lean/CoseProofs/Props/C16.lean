/-
  C16 — ECDSA signatures are fixed-width r‖s and nothing else verifies (ecdsa.go).
  For every byte size n of the group order and all integers r, s (no bound).
-/
import CoseProofs.Lemmas.Ecdsa
import CoseModel.Generated.Facts
open CoseModel
namespace C16

/-- encoding succeeds exactly for non-negative r, s below 256^n -/
theorem encode_ok_iff (n : Nat) (r s : Int) :
    (encodeECDSASignature n r s).isSome ↔ (0 ≤ r ∧ r.toNat < 256 ^ n) ∧ (0 ≤ s ∧ s.toNat < 256 ^ n) :=
  CoseModel.encode_ok_iff n r s

/-- every produced signature is exactly 2n bytes: r then s, big-endian, left-padded with zeros -/
theorem encode_fixed_width (n : Nat) (r s : Int) (sig : Bytes) (h : encodeECDSASignature n r s = some sig) :
    sig.length = 2 * n ∧ sig.take n = fillBytes n r.toNat ∧ sig.drop n = fillBytes n s.toNat :=
  CoseModel.encode_fixed_width n r s sig h

/-- the halves denote r and s -/
theorem halves_denote (n : Nat) (r s : Int) (sig : Bytes) (h : encodeECDSASignature n r s = some sig) :
    os2ip (sig.take n) = r.toNat ∧ os2ip (sig.drop n) = s.toNat := by
  have hd := CoseModel.decode_encode n r s sig h
  unfold decodeECDSASignature at hd
  split at hd
  · cases hd
  · simp only [Option.some.injEq, Prod.mk.injEq] at hd
    exact hd

/-- the verifier's decoder accepts a string iff its length is exactly 2n -/
theorem decode_strict (n : Nat) (sig : Bytes) :
    (decodeECDSASignature n sig).isSome ↔ sig.length = 2 * n := CoseModel.decode_strict n sig

theorem decode_encode (n : Nat) (r s : Int) (sig : Bytes) (h : encodeECDSASignature n r s = some sig) :
    decodeECDSASignature n sig = some (r.toNat, s.toNat) := CoseModel.decode_encode n r s sig h

/-- every accepted string IS the canonical encoding of the pair it denotes: DER, halves with
    stripped or extra leading zeros, or any other length are other strings and are rejected -/
theorem encode_decode (n : Nat) (sig : Bytes) (r s : Nat) (h : decodeECDSASignature n sig = some (r, s)) :
    encodeECDSASignature n (r : Int) (s : Int) = some sig := CoseModel.encode_decode n sig r s h

/-- no two different accepted strings denote the same pair (nothing is "reinterpreted") -/
theorem decode_injective {p : Nat × Nat} (n : Nat) (a b : Bytes)
    (ha : decodeECDSASignature n a = some p) (hb : decodeECDSASignature n b = some p) : a = b :=
  CoseModel.decode_injective n a b ha hb

theorem encode_neg (n : Nat) (r s : Int) (h : r < 0 ∨ s < 0) : encodeECDSASignature n r s = none :=
  CoseModel.encode_neg n r s h

/-- both signing paths (native key, crypto.Signer returning ASN.1) call the same encoder on the
    (r, s) they obtained: equal pairs give equal bytes — trivially, it is one function; what the
    correspondence adds is that both Go paths reach it (ecdsa.go:52, 88). -/
theorem paths_agree (n : Nat) (r s r' s' : Int) (hr : r = r') (hs : s = s') :
    encodeECDSASignature n r s = encodeECDSASignature n r' s' := by subst hr; subst hs; rfl

/-- a wrong-length signature can never be accepted, whatever the key: the decoder fails before
    any cryptographic check -/
theorem wrong_length_rejected (n : Nat) (sig : Bytes) (h : sig.length ≠ 2 * n) :
    decodeECDSASignature n sig = none := by
  cases hd : decodeECDSASignature n sig with
  | none => rfl
  | some p => exact absurd ((decode_strict n sig).mp (by simp [hd])) h

example : encodeECDSASignature 2 1 258 = some [0, 1, 1, 2] := by decide
example : decodeECDSASignature 2 [0, 1, 1, 2] = some (1, 258) := by decide
example : decodeECDSASignature 2 [1, 1, 2] = none := by decide

end C16
