/-
  C15 — accepted COSE_Keys are consistent and their restrictions are enforced (key.go).
-/
import CoseModel.Key
import CoseModel.Generated.Facts
open CoseModel
namespace C15

/-- A key yields a signer only if key_ops (when present) include sign, it has private material,
    and the signer is for the algorithm fixed by the key. -/
theorem signer_gate (k : Key) (a : Int) (h : k.signer = .ok a) :
    k.canOp 1 = true ∧ (k.pbytes (-4)).length ≠ 0 ∧ (k.kty = 2 ∨ k.kty = 1) ∧
    k.deriveAlgorithm = some a ∧ (k.alg = 0 ∨ k.alg = a) := by
  unfold Key.signer at h
  by_cases hc : k.canOp 1 = true
  · simp only [hc, Bool.not_true, Bool.false_eq_true, if_false] at h
    cases hp : k.privateKey with
    | some e => simp [hp] at h
    | none =>
      simp only [hp] at h
      unfold Key.privateKey at hp
      cases hv : k.validate .sign with
      | some e => simp [hv] at hp
      | none =>
        simp only [hv] at hp
        cases hd : k.deriveAlgorithm with
        | none => simp [hd] at hp
        | some d =>
          have hkty : k.kty = 2 ∨ k.kty = 1 := by
            unfold Key.deriveAlgorithm at hd
            by_cases h2 : k.kty = 2
            · exact Or.inl h2
            · by_cases h1 : k.kty = 1
              · exact Or.inr h1
              · simp [h2, h1] at hd
          -- private material: validate(sign) rejects an empty d for EC2 and OKP keys
          have hdlen : (k.pbytes (-4)).length ≠ 0 := by
            intro hz
            unfold Key.validate at hv
            rcases hkty with h2 | h1
            · by_cases ht : (!k.paramIsBstr (-2) false || !k.paramIsBstr (-3) true ||
                  !k.paramIsBstr (-4) false) = true
              · simp [h2, ht] at hv
              · simp [h2, hz, ht] at hv
            · by_cases ht : (!k.paramIsBstr (-2) false || !k.paramIsBstr (-4) false) = true
              · simp [h1, ht] at hv
              · simp [h1, hz, ht] at hv
          -- the algorithm: k.alg = 0 → derived; else validate forces k.alg = derived
          have halg : k.alg = 0 ∨ k.alg = d := by
            by_cases hz : k.alg = 0
            · exact Or.inl hz
            · right
              unfold Key.validate at hv
              simp only [hz, ne_eq, not_false_eq_true, if_true, hd] at hv
              split at hv
              · cases hv
              · by_cases he : k.alg = d
                · exact he
                · simp [he] at hv
          have ha : a = d := by
            unfold Key.algorithmOrDefault at h
            rcases halg with hz | he
            · simp [hz, hd] at h; exact h.symm
            · by_cases hz : k.alg = 0
              · simp [hz, hd] at h; exact h.symm
              · simp [hz] at h; rw [← h, he]
          subst ha
          exact ⟨hc, hdlen, hkty, rfl, halg⟩
  · simp [hc] at h

/-- never for a symmetric or unsupported key type -/
theorem never_symmetric_or_unsupported (k : Key) (h : k.kty ≠ 1 ∧ k.kty ≠ 2) :
    (∀ a, k.signer ≠ .ok a) ∧ (∀ a oc, k.verifier oc ≠ .ok a) := by
  have hd : k.deriveAlgorithm = none := by simp [Key.deriveAlgorithm, h.1, h.2]
  constructor
  · intro a hc
    have := signer_gate k a hc
    omega
  · intro a oc hc
    unfold Key.verifier at hc
    by_cases hcan : k.canOp 2 = true
    · simp only [hcan, Bool.not_true, Bool.false_eq_true, if_false] at hc
      unfold Key.publicKey at hc
      cases hv : k.validate .verify with
      | some e => simp [hv] at hc
      | none => simp [hv, hd] at hc
    · simp [hcan] at hc

/-- key_ops present without `sign`: no signer; without `verify`: no verifier -/
theorem ops_restrict (k : Key) (ops : List Int) (h : k.ops = some ops) :
    (1 ∉ ops → k.signer = .error .opNotSupported) ∧
    (2 ∉ ops → ∀ oc, k.verifier oc = .error .opNotSupported) := by
  constructor
  · intro hn
    have : k.canOp 1 = false := by
      simp [Key.canOp, h]; intro x hx; intro he; exact hn (he ▸ hx)
    simp [Key.signer, this]
  · intro hn oc
    have : k.canOp 2 = false := by
      simp [Key.canOp, h]; intro x hx; intro he; exact hn (he ▸ hx)
    simp [Key.verifier, this]

/-- in particular an empty key_ops array lifts nothing: no operation is permitted -/
theorem empty_ops_permit_nothing (k : Key) (h : k.ops = some []) :
    k.signer = .error .opNotSupported ∧ ∀ oc, k.verifier oc = .error .opNotSupported :=
  ⟨(ops_restrict k [] h).1 (by simp), (ops_restrict k [] h).2 (by simp)⟩

/-- every accepted key has a non-reserved key type -/
theorem accepted_kty_nonzero (tmp : GoMap) (k : Key) (h : Key.ofMap tmp = .ok k) : k.kty ≠ 0 := by
  unfold Key.ofMap at h
  split at h
  · rename_i kty hl
    by_cases hz : kty = 0
    · simp [hz] at h
    · simp only [hz, if_false] at h
      split at h <;> try (cases h)
      split at h
      · cases h
      · split at h
        · cases h
        · cases h; exact hz
  · cases h

end C15
