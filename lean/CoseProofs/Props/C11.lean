/-
  C11 — COSE_Sign verification is positional and all-or-nothing; signing fills every slot or
  reports an error; no COSE_Sign with zero or empty signatures on the wire.
-/
import CoseModel.Messages
import CoseProofs.Props.C20
open CoseModel
namespace C11

/-- the verification loop over any number of signatures: success iff every signature verifies
    under the verifier at the same position (lists of equal length) -/
theorem verifyLoop_ok_iff (bprot : Bytes) (payload ext : Option Bytes) :
    ∀ (sgs : List SigV) (vs : List Verifier), sgs.length = vs.length →
      ((verifyLoop bprot payload ext sgs vs).1 = .ok () ↔
        ∀ i (h1 : i < sgs.length) (h2 : i < vs.length),
          (Signature.verify sgs[i] vs[i] bprot payload ext).1 = .ok ())
  | [], [], _ => by simp [verifyLoop]
  | sg :: sgs, v :: vs, hl => by
    have ih := verifyLoop_ok_iff bprot payload ext sgs vs (by simpa using hl)
    unfold verifyLoop
    cases h : Signature.verify sg v bprot payload ext with
    | mk o calls =>
      cases o with
      | ok u =>
        cases u
        simp only []
        constructor
        · intro hrest i h1 h2
          cases i with
          | zero => simp [h]
          | succ j =>
            simp only [List.getElem_cons_succ]
            exact (ih.mp hrest) j (by simpa using h1) (by simpa using h2)
        · intro hall
          apply ih.mpr
          intro i h1 h2
          have := hall (i + 1) (by simpa using h1) (by simpa using h2)
          simpa using this
      | err e =>
        simp only []
        constructor
        · intro hc; cases hc
        · intro hall
          have := hall 0 (by simp) (by simp)
          simp [h] at this
      | panic =>
        simp only []
        constructor
        · intro hc; cases hc
        · intro hall
          have := hall 0 (by simp) (by simp)
          simp [h] at this
      | unmodelled =>
        simp only []
        constructor
        · intro hc; cases hc
        · intro hall
          have := hall 0 (by simp) (by simp)
          simp [h] at this
  | [], _ :: _, hl => by simp at hl
  | _ :: _, [], hl => by simp at hl

/-- `SignMessage.Verify`: nil iff payload present, at least one signature, as many verifiers as
    signatures, the body protected header encodes, and every signature verifies positionally -/
theorem signmsg_verify_iff (m : SignMsg) (ext : Option Bytes) (vs : List Verifier) :
    (Sign.verify m ext vs).1 = .ok () ↔
      m.payload.isSome ∧ m.sigs ≠ [] ∧ m.sigs.length = vs.length ∧
      ∃ bprot, marshalProtected m.h = .ok bprot ∧
        ∀ i (h1 : i < m.sigs.length) (h2 : i < vs.length),
          (Signature.verify m.sigs[i] vs[i] bprot m.payload ext).1 = .ok () := by
  unfold Sign.verify
  cases hp : m.payload with
  | none => simp
  | some pl =>
    by_cases he : m.sigs = []
    · simp [he]
    · by_cases hl : m.sigs.length = vs.length
      · have he' : m.sigs.isEmpty = false := by cases hm : m.sigs <;> simp_all
        have hl' : ¬ (m.sigs.length ≠ vs.length) := by simp [hl]
        simp only [Option.isNone_some, Bool.false_eq_true, if_false, he', hl', Option.isSome_some, true_and]
        cases hb : marshalProtected m.h with
        | ok bprot =>
          simp only []
          rw [verifyLoop_ok_iff bprot (some pl) ext m.sigs vs hl]
          constructor
          · intro h; exact ⟨he, hl, bprot, rfl, h⟩
          · rintro ⟨_, _, b, hb', h⟩; cases hb'; exact h
        | err e => simp
        | panic => simp
        | unmodelled => simp
      · have he' : m.sigs.isEmpty = false := by cases hm : m.sigs <;> simp_all
        simp [he', hl]

/-- a surplus or missing verifier fails the whole verification -/
theorem signmsg_verify_count (m : SignMsg) (ext : Option Bytes) (vs : List Verifier)
    (h : m.sigs.length ≠ vs.length) : (Sign.verify m ext vs).1 ≠ .ok () := by
  intro hc
  exact h ((signmsg_verify_iff m ext vs).mp hc).2.2.1

/-- zero signatures can be neither verified nor encoded -/
theorem signmsg_no_signatures (m : SignMsg) (h : m.sigs = []) :
    Sign.marshal m = .err .noSignatures ∧ ∀ ext vs, (Sign.verify m ext vs).1 ≠ .ok () := by
  constructor
  · simp [Sign.marshal, h]
  · intro ext vs hc
    exact ((signmsg_verify_iff m ext vs).mp hc).2.1 h

/-- an empty signature anywhere makes the message unencodable -/
theorem marshalSigs_empty_sig : ∀ (l : List SigV) (s : SigV), s ∈ l → blen s.sig = 0 →
    ∀ b, marshalSigs l ≠ .ok b
  | [], _, hm, _, _ => by cases hm
  | x :: r, s, hm, he, b => by
    intro hc
    unfold marshalSigs at hc
    rcases List.mem_cons.mp hm with rfl | hr
    · simp [Signature.marshal, he] at hc
    · cases hx : Signature.marshal x with
      | ok a =>
        simp only [hx] at hc
        cases hr' : marshalSigs r with
        | ok bb => exact marshalSigs_empty_sig r s hr he bb hr'
        | err e => simp [hr'] at hc
        | panic => simp [hr'] at hc
        | unmodelled => simp [hr'] at hc
      | err e => simp [hx] at hc
      | panic => simp [hx] at hc
      | unmodelled => simp [hx] at hc

theorem signmsg_no_empty_on_wire (m : SignMsg) (s : SigV) (hm : s ∈ m.sigs) (he : blen s.sig = 0) :
    ∀ b, Sign.marshal m ≠ .ok b := by
  intro b hc
  unfold Sign.marshal at hc
  by_cases hemp : m.sigs.isEmpty
  · simp [hemp] at hc
  · simp only [hemp, Bool.false_eq_true, if_false] at hc
    cases hh : m.h.marshal with
    | ok pu =>
      simp only [hh] at hc
      cases hs : marshalSigs m.sigs with
      | ok ss => exact marshalSigs_empty_sig m.sigs s hm he ss hs
      | err e => simp [hs] at hc
      | panic => simp [hs] at hc
      | unmodelled => simp [hs] at hc
    | err e => simp [hh] at hc
    | panic => simp [hh] at hc
    | unmodelled => simp [hh] at hc

/-- "Signing either fills every signature slot or reports an error" — for EVERY list of signers
    (repair 9ac6635: a signer that answers with no error and no bytes makes `Signature.Sign`
    return `ErrEmptySignature`; before, `SignMessage.Sign` went on to the next signer and
    returned nil with that slot unsigned).  No hypothesis on the signers, none on the message:
    `Sign` itself checks that there are as many signers as slots. -/
theorem signmsg_sign_ok_all_filled (m : SignMsg) (ext : Option Bytes) (signers : List Signer)
    (hok : (Sign.sign m ext signers).out = .ok ()) :
    ∀ sg ∈ (Sign.sign m ext signers).state.sigs, blen sg.sig ≠ 0 := by
  unfold Sign.sign at hok ⊢
  by_cases hp : m.payload.isNone
  · simp [hp] at hok
  · by_cases he : m.sigs.isEmpty
    · simp [hp, he] at hok
    · by_cases hl : m.sigs.length ≠ signers.length
      · simp [hp, he, hl] at hok
      · simp only [hp, he, hl, if_false, Bool.false_eq_true] at hok ⊢
        cases hb : marshalProtected m.h with
        | ok bprot =>
          simp only [hb] at hok ⊢
          exact C20.signLoop_ok_all_filled bprot m.payload ext m.sigs signers
            (by simpa using hl) hok
        | err e => simp [hb] at hok
        | panic => simp [hb] at hok
        | unmodelled => simp [hb] at hok

/-- … hence a COSE_Sign whose signing reported success has no slot the encoder refuses for an
    empty signature, and at least one slot -/
theorem signmsg_sign_ok_slots (m : SignMsg) (ext : Option Bytes) (signers : List Signer)
    (hok : (Sign.sign m ext signers).out = .ok ()) :
    (Sign.sign m ext signers).state.sigs ≠ [] ∧
    (Sign.sign m ext signers).state.sigs.length = signers.length := by
  unfold Sign.sign at hok ⊢
  by_cases hp : m.payload.isNone
  · simp [hp] at hok
  · by_cases he : m.sigs.isEmpty
    · simp [hp, he] at hok
    · by_cases hl : m.sigs.length ≠ signers.length
      · simp [hp, he, hl] at hok
      · simp only [hp, he, hl, if_false, Bool.false_eq_true] at hok ⊢
        cases hb : marshalProtected m.h with
        | ok bprot =>
          simp only [hb] at hok ⊢
          have hlen : ∀ (sgs : List SigV) (ss : List Signer),
              (signLoop bprot m.payload ext sgs ss).1.length = sgs.length := by
            intro sgs
            induction sgs with
            | nil => intro ss; unfold signLoop; rfl
            | cons sg sgs ih =>
              intro ss
              cases ss with
              | nil => unfold signLoop; rfl
              | cons s ss =>
                unfold signLoop
                cases ho : (Signature.sign sg s bprot m.payload ext).out <;>
                  simp only [ho, List.length_cons, ih ss]
          have h1 := hlen m.sigs signers
          have h2 : m.sigs.length = signers.length := by simpa using hl
          refine ⟨?_, by rw [h1, h2]⟩
          intro hnil
          rw [hnil] at h1
          cases hs : m.sigs with
          | nil => simp [hs] at he
          | cons a r => rw [hs] at h1; simp at h1
        | err e => simp [hb] at hok
        | panic => simp [hb] at hok
        | unmodelled => simp [hb] at hok

end C11
