/-
  CoseProofs.Deep.TagScan — what the scan for the self-described CBOR tag (55799) achieves.

  `CoseModel.TagScan` transcribes headers.go:829-920 (`headArgument`, `scanSelfDescribedTag`,
  `typeCheckedHeaderLabel`, `ensureUntaggedHeaderLabels`) over bytes; the model calls it where
  go-cose does (`validateHeaderLabelCBOR` in both bucket decoders, `Key.UnmarshalCBOR`).  Here:

   (a) the byte-level scan computes the structural predicate `Wire.hasSelfDescribed` on the bytes
       of every well-formed item, wherever the item stands in a larger byte string;
   (b) `ensureUntaggedHeaderLabels` on the bytes of a well-formed map is `Wire.pairsUntagged`;
   (c) C05 / C13: an accepted header bucket has, in the bytes as received, no tag 55799 in a label
       nor in the value of a type-checked label;
   (d) C15: the same for COSE_Key with every label checked, and the first byte is a map head;
   (e) C07: the scan refuses nothing else.
-/
import CoseModel.Messages
import CoseModel.Key
import CoseProofs.Lemmas.Parse
import CoseProofs.Lemmas.TagScan
import CoseProofs.Props.C05
open CoseModel

/-! ### the structural predicate, entry by entry -/

namespace CoseModel

theorem Wire.pairsUntagged_iff (c : Option (Nat → Bool)) (kvs : List (Wire × Wire)) :
    Wire.pairsUntagged c kvs = true ↔
      ∀ p ∈ kvs, p.1.hasSelfDescribed = false ∧
        (p.1.labelChecked c = true → p.2.hasSelfDescribed = false) := by
  induction kvs with
  | nil => simp [Wire.pairsUntagged]
  | cons p r ih =>
    obtain ⟨k, v⟩ := p
    simp only [Wire.pairsUntagged, Bool.and_eq_true, ih, List.forall_mem_cons]
    cases k.hasSelfDescribed <;> cases v.hasSelfDescribed <;> cases k.labelChecked c <;> simp

/-- with every label checked the predicate says: no tag 55799 anywhere in the map -/
theorem Wire.pairsUntagged_none (kvs : List (Wire × Wire)) :
    Wire.pairsUntagged none kvs = !Wire.hasSelfDescribedPairs kvs := by
  induction kvs with
  | nil => rfl
  | cons p r ih =>
    obtain ⟨k, v⟩ := p
    simp only [Wire.pairsUntagged, Wire.hasSelfDescribedPairs, ih, Wire.labelChecked_none]
    cases k.hasSelfDescribed <;> cases v.hasSelfDescribed <;> simp

end CoseModel

namespace C05

/-- (a) the transcription of `scanSelfDescribedTag`, run on the bytes of a well-formed item,
    returns the offset just past the item and whether tag 55799 occurs in it -/
theorem scan_bridge {w : Wire} {t : Bool} {d : Nat} (hwf : w.wf = true)
    (hl : w.inLimits t d = true) :
    scanSelfDescribedTag w.bytes 0 = (w.bytes.length, w.hasSelfDescribed) :=
  scanSelfDescribedTag_bytes hwf hl

/-- (a) positional form: the same wherever the item stands in a larger byte string -/
theorem scan_bridge_at {w : Wire} {t : Bool} {d : Nat} (pre post : Bytes) (hwf : w.wf = true)
    (hl : w.inLimits t d = true) :
    scanSelfDescribedTag (pre ++ (w.bytes ++ post)) pre.length
      = (pre.length + w.bytes.length, w.hasSelfDescribed) :=
  scanSelfDescribedTag_at pre post hwf hl

/-- (b) `ensureUntaggedHeaderLabels` on the bytes of a well-formed map is the structural
    predicate: no label holds tag 55799, and no value of a checked label does -/
theorem ensure_bridge {hw : HW} {kvs : List (Wire × Wire)} {t : Bool} {d : Nat}
    (c : Option (Nat → Bool)) (hwf : (Wire.map hw kvs).wf = true)
    (hl : (Wire.map hw kvs).inLimits t d = true) :
    ensureUntaggedHeaderLabels (Wire.map hw kvs).bytes c = true ↔
      ∀ p ∈ kvs, p.1.hasSelfDescribed = false ∧
        (p.1.labelChecked c = true → p.2.hasSelfDescribed = false) := by
  rw [ensureUntagged_map_bytes c hwf hl, Wire.pairsUntagged_iff]

/-- what a parsed input passing the scan means, on the parse tree of the bytes as received -/
theorem scanned_parse {t : Bool} {data : Bytes} {hw : HW} {kvs : List (Wire × Wire)}
    (c : Option (Nat → Bool)) (hp : parseTop t data = some (.map hw kvs))
    (hs : ensureUntaggedHeaderLabels data c = true) : Wire.pairsUntagged c kvs = true := by
  obtain ⟨rfl, hwf, hl⟩ := parseTop_sound hp
  rwa [ensureUntagged_map_bytes c hwf hl] at hs

/-- (c) the protected bucket: an accepted non-empty content parses to a map in which, as
    received, no label holds tag 55799 and no value of a type-checked label does -/
theorem protected_accept_untagged (enc : Bytes) (m : GoMap)
    (h : decProtectedContent enc = .ok m) :
    enc = [] ∨ ∃ hw kvs, parseTop true enc = some (.map hw kvs) ∧
      Wire.pairsUntagged (some typeCheckedHeaderLabel) kvs = true := by
  unfold decProtectedContent at h
  split at h
  · exact .inl rfl
  · right
    split at h
    · cases h
    · split at h
      · rename_i hw kvs hpt
        cases hl : labelsOK kvs [] with
        | ok u =>
          simp only [hl, bind, Out.bind] at h
          split at h
          · cases h
          · rename_i hs
            simp only [Bool.not_eq_true', Bool.not_eq_false] at hs
            exact ⟨hw, kvs, hpt, scanned_parse _ hpt hs⟩
        | err e => simp [hl, bind, Out.bind] at h
        | panic => simp [hl, bind, Out.bind] at h
        | unmodelled => simp [hl, bind, Out.bind] at h
      · cases h

/-- (c) the unprotected bucket decoder ran the scan on the bytes of the map it accepted -/
theorem decUnprot_accept_scanned (u : Wire) (um : GoMap) (h : decUnprot u = .ok um) :
    ∃ hw kvs, u = .map hw kvs ∧ headerLabelsUntagged u.bytes = true := by
  cases u with
  | map hw kvs =>
    refine ⟨hw, kvs, rfl, ?_⟩
    unfold decUnprot at h
    cases hl : labelsOK kvs [] with
    | ok x =>
      simp only [hl] at h
      split at h
      · cases h
      · rename_i hs
        simpa using hs
    | err e => simp [hl] at h
    | panic => simp [hl] at h
    | unmodelled => simp [hl] at h
  | _ => simp [decUnprot] at h

/-- (c) direct call of `UnprotectedHeader.UnmarshalCBOR` -/
theorem unprotected_accept_untagged (data : Bytes) (m : GoMap)
    (h : Unprotected.unmarshal data = .ok m) :
    ∃ hw kvs, parseTop true data = some (.map hw kvs) ∧
      Wire.pairsUntagged (some typeCheckedHeaderLabel) kvs = true := by
  unfold Unprotected.unmarshal at h
  split at h
  · cases h
  · split at h
    · cases h
    · split at h
      · rename_i w hp
        split at h
        · -- tagged input is refused: the tags-forbidden well-formedness pass comes first
          cases h
        · obtain ⟨hw, kvs, rfl, hs⟩ := decUnprot_accept_scanned w m h
          have hd := (parseTop_sound hp).1
          exact ⟨hw, kvs, hp, scanned_parse _ hp (by rw [hd]; exact hs)⟩
      · cases h

/-- (c) direct call of `ProtectedHeader.UnmarshalCBOR`: the item is a byte string whose
    content, when not empty, satisfies `protected_accept_untagged` -/
theorem protected_unmarshal_untagged (data : Bytes) (m : GoMap)
    (h : Protected.unmarshal data = .ok m) :
    ∃ hw enc, parseTop false data = some (.bstr hw enc) ∧
      (enc = [] ∨ ∃ hw' kvs, parseTop true enc = some (.map hw' kvs) ∧
        Wire.pairsUntagged (some typeCheckedHeaderLabel) kvs = true) := by
  unfold Protected.unmarshal at h
  split at h
  · rename_i w hp
    unfold decProtected at h
    split at h
    · rename_i hw enc
      exact ⟨hw, enc, hp, protected_accept_untagged enc m h⟩
    · cases h
  · cases h

/-- (c) at item level: an accepted protected bucket is a byte string whose content, when not
    empty, satisfies `protected_accept_untagged` -/
theorem decProtected_accept_untagged (p : Wire) (pm : GoMap) (h : decProtected p = .ok pm) :
    ∃ hw enc, p = .bstr hw enc ∧
      (enc = [] ∨ ∃ hw' kvs, parseTop true enc = some (.map hw' kvs) ∧
        Wire.pairsUntagged (some typeCheckedHeaderLabel) kvs = true) := by
  unfold decProtected at h
  split at h
  · rename_i hw enc
    exact ⟨hw, enc, rfl, protected_accept_untagged enc pm h⟩
  · cases h

/-- (c) composed with the envelope theorem: in an accepted COSE_Sign1 the protected bucket, as
    received, has no tag 55799 in a label nor in the value of a type-checked label (and the
    unprotected bucket, inside the tag-free envelope, has no tag at all) -/
theorem sign1_accept_untagged (tagged : Bool) (b : Bytes) (m : Sign1Msg)
    (h : Sign1.unmarshal tagged b = .ok m) :
    ∃ (hw : HW) (p u pl sg : Wire) (hwp : HW) (enc : Bytes),
      b = (if tagged then 0xd2 :: (Wire.arr hw [p, u, pl, sg]).bytes
           else (Wire.arr hw [p, u, pl, sg]).bytes) ∧
      p = .bstr hwp enc ∧ u.hasTag = false ∧
      (enc = [] ∨ ∃ hw' kvs, parseTop true enc = some (.map hw' kvs) ∧
        Wire.pairsUntagged (some typeCheckedHeaderLabel) kvs = true) := by
  obtain ⟨hw, p, u, pl, sg, arr, hb, harr, -, hnt, -, -, -, hp, -, -, -⟩ :=
    sign1_accept_envelope tagged b m h
  obtain ⟨hwp, enc, hpe, hs⟩ := decProtected_accept_untagged p _ hp
  subst harr
  refine ⟨hw, p, u, pl, sg, hwp, enc, hb, hpe, ?_, hs⟩
  simp only [Wire.hasTag, Wire.hasTagList, Bool.or_eq_false_iff] at hnt
  exact hnt.2.1

end C05

namespace C13

/-- (c) read entry by entry: in an accepted protected bucket no label holds tag 55799, and the
    value of every type-checked label (1–7, 9, 11, 12, 16, 258–260, whatever head width the
    label is written with) is free of it — on the bytes as received, before any decoding -/
theorem protected_typechecked_values_untagged (enc : Bytes) (m : GoMap)
    (h : decProtectedContent enc = .ok m) (hne : enc ≠ []) :
    ∃ hw kvs, parseTop true enc = some (.map hw kvs) ∧
      ∀ p ∈ kvs, p.1.hasSelfDescribed = false ∧
        ∀ w n, p.1 = .uint w n → typeCheckedHeaderLabel n = true →
          p.2.hasSelfDescribed = false := by
  rcases C05.protected_accept_untagged enc m h with he | ⟨hw, kvs, hp, hs⟩
  · exact absurd he hne
  · refine ⟨hw, kvs, hp, fun p hpm => ?_⟩
    obtain ⟨h1, h2⟩ := (Wire.pairsUntagged_iff _ kvs).mp hs p hpm
    refine ⟨h1, fun w n hk hc => h2 ?_⟩
    rw [hk]
    simpa [Wire.labelChecked] using hc

/-- the same for the unprotected bucket -/
theorem unprotected_typechecked_values_untagged (data : Bytes) (m : GoMap)
    (h : Unprotected.unmarshal data = .ok m) :
    ∃ hw kvs, parseTop true data = some (.map hw kvs) ∧
      ∀ p ∈ kvs, p.1.hasSelfDescribed = false ∧
        ∀ w n, p.1 = .uint w n → typeCheckedHeaderLabel n = true →
          p.2.hasSelfDescribed = false := by
  obtain ⟨hw, kvs, hp, hs⟩ := C05.unprotected_accept_untagged data m h
  refine ⟨hw, kvs, hp, fun p hpm => ?_⟩
  obtain ⟨h1, h2⟩ := (Wire.pairsUntagged_iff _ kvs).mp hs p hpm
  refine ⟨h1, fun w n hk hc => h2 ?_⟩
  rw [hk]
  simpa [Wire.labelChecked] using hc

end C13

namespace C15

/-- (d) an accepted COSE_Key does not start with a tag head, parses to a map, and that map —
    as received — holds tag 55799 nowhere (every label is checked) -/
theorem key_accept_untagged (data : Bytes) (k : Key) (h : Key.unmarshal data = .ok k) :
    isTagByte data = false ∧
    ∃ hw kvs, parseTop true data = some (.map hw kvs) ∧
      Wire.hasSelfDescribedPairs kvs = false := by
  unfold Key.unmarshal at h
  split at h
  · cases h
  · rename_i ht
    refine ⟨by simpa using ht, ?_⟩
    split at h
    · cases h
    · rename_i hw kvs hp
      split at h
      · cases h
      · rename_i hs
        simp only [Bool.not_eq_true', Bool.not_eq_false] at hs
        have := C05.scanned_parse none hp hs
        rw [Wire.pairsUntagged_none] at this
        exact ⟨hw, kvs, hp, by simpa using this⟩
    · cases h

/-- (d) the first byte of an accepted COSE_Key is a map head (major type 5) -/
theorem key_accept_first_byte (data : Bytes) (k : Key) (h : Key.unmarshal data = .ok k) :
    ∃ b0 r, data = b0 :: r ∧ b0.toNat / 32 = 5 := by
  obtain ⟨-, hw, kvs, hp, -⟩ := key_accept_untagged data k h
  obtain ⟨rfl, hwf, -⟩ := parseTop_sound hp
  simp only [Wire.wf, Bool.and_eq_true] at hwf
  have := (head_at [] (Wire.bytesPairs kvs) 5 kvs.length hw (by omega) hwf.1).1
  cases hb : (Wire.map hw kvs).bytes with
  | nil =>
    have hpos := (Wire.map hw kvs).bytes_length_pos
    rw [hb] at hpos
    simp at hpos
  | cons b0 r =>
    refine ⟨b0, r, rfl, ?_⟩
    simp only [Wire.bytes] at hb
    simp only [List.nil_append, List.length_nil, hb, byteAt_toArray, List.getElem?_cons_zero,
      Option.getD_some] at this
    exact this

end C15

namespace C07

/-- (e) no over-refusal: the scan lets through every well-formed map whose labels are free of
    tag 55799 and whose type-checked labels have values free of it — whatever tags (55799
    included) stand in the values of the other labels -/
theorem scan_accepts {hw : HW} {kvs : List (Wire × Wire)} {t : Bool} {d : Nat}
    (c : Option (Nat → Bool)) (hwf : (Wire.map hw kvs).wf = true)
    (hl : (Wire.map hw kvs).inLimits t d = true)
    (h : ∀ p ∈ kvs, p.1.hasSelfDescribed = false ∧
        (p.1.labelChecked c = true → p.2.hasSelfDescribed = false)) :
    ensureUntaggedHeaderLabels (Wire.map hw kvs).bytes c = true :=
  (C05.ensure_bridge c hwf hl).mpr h

/-- non-vacuity: `{-70001: 55799(5)}` (`a1 3a00011170 d9d9f7 05`) passes the header scan although
    tag 55799 stands in a value — label −70001 is not type-checked … -/
example : headerLabelsUntagged [0xa1, 0x3a, 0x00, 0x01, 0x11, 0x70, 0xd9, 0xd9, 0xf7, 0x05] = true := by
  decide

/-- … and it is an instance of `scan_accepts` with a value that does hold the tag -/
example :
    let kvs : List (Wire × Wire) := [(.nint .w4 70000, .tag .w2 55799 (.uint .imm 5))]
    (Wire.map .imm kvs).bytes = [0xa1, 0x3a, 0x00, 0x01, 0x11, 0x70, 0xd9, 0xd9, 0xf7, 0x05] ∧
    Wire.hasSelfDescribedPairs kvs = true ∧
    ensureUntaggedHeaderLabels (Wire.map .imm kvs).bytes (some typeCheckedHeaderLabel) = true := by
  refine ⟨by decide, by decide, ?_⟩
  apply scan_accepts (t := true) (d := 0) _ (by decide) (by decide)
  intro p hp
  simp only [List.mem_singleton] at hp
  subst hp
  exact ⟨by decide, by simp [Wire.labelChecked]⟩

/-- the same map as a COSE_Key is refused: there every label is checked -/
example : ensureUntaggedHeaderLabels
    [0xa1, 0x3a, 0x00, 0x01, 0x11, 0x70, 0xd9, 0xd9, 0xf7, 0x05] none = false := by decide

end C07

/-! ### (f) concrete inputs -/

namespace C05

/-- `{1: 55799(-7)}`: tagged alg -/
example : headerLabelsUntagged [0xa1, 0x01, 0xd9, 0xd9, 0xf7, 0x26] = false := by decide
example : decProtectedContent [0xa1, 0x01, 0xd9, 0xd9, 0xf7, 0x26] = .err .other := by
  simp [decProtectedContent, parseTop, parseItem, parsePairs, fuelFor, parseHead, maxNested,
    maxElems, isTagByte, labelsOK, Wire.stripSelfDescribed, maxInt64, GoVal.keyEq, bind, Out.bind,
    (by decide : headerLabelsUntagged [0xa1, 0x01, 0xd9, 0xd9, 0xf7, 0x26] = false)]

/-- `{1: -7, 2: [55799(4), 1]}`: tagged entry of crit, at depth -/
example : headerLabelsUntagged [0xa2, 0x01, 0x26, 0x02, 0x82, 0xd9, 0xd9, 0xf7, 0x04, 0x01]
    = false := by decide

/-- `{15: {1: "iss"}, 1: 55799(-7)}`: tagged alg AFTER a map-valued sibling (the scan has to walk
    the sibling to find where the next label starts) -/
example : headerLabelsUntagged
    [0xa2, 0x0f, 0xa1, 0x01, 0x63, 0x69, 0x73, 0x73, 0x01, 0xd9, 0xd9, 0xf7, 0x26] = false := by
  decide

/-- tag number 55799 written under a 4-byte head -/
example : (scanSelfDescribedTag [0xda, 0x00, 0x00, 0xd9, 0xf7] 0).2 = true := by decide
example : headerLabelsUntagged [0xa1, 0x01, 0xda, 0x00, 0x00, 0xd9, 0xf7, 0x26] = false := by decide

/-- `{55799(1): -7}`: tagged label -/
example : headerLabelsUntagged [0xa1, 0xd9, 0xd9, 0xf7, 0x01, 0x26] = false := by decide

/-- `{-70001: 55799(5)}` is accepted by the scan -/
example : headerLabelsUntagged [0xa1, 0x3a, 0x00, 0x01, 0x11, 0x70, 0xd9, 0xd9, 0xf7, 0x05] = true := by
  decide

end C05

namespace C15

/-- a COSE_Key wrapped in a tag is refused on its first byte (key.go:602) -/
example : (Key.unmarshal [0xd9, 0xd9, 0xf7, 0xa1, 0x01, 0x04]).isOk = false := by decide

/-- `{1: 55799(4), -1: h'aa'}`: tagged kty -/
example : Key.unmarshal [0xa2, 0x01, 0xd9, 0xd9, 0xf7, 0x04, 0x20, 0x41, 0xaa] = .err .other := by
  simp [Key.unmarshal, isTagByte, parseTop, parseItem, parsePairs, fuelFor, parseHead, maxNested,
    maxElems,
    (by decide : ensureUntaggedHeaderLabels
      [0xa2, 0x01, 0xd9, 0xd9, 0xf7, 0x04, 0x20, 0x41, 0xaa] none = false)]

end C15
