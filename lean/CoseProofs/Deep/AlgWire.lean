/-
  CoseProofs.Deep.AlgWire — C04 ("no signing or verification under an algorithm other than the
  protected alg") on the BYTES: what is signed, what is received, what crosses the wire.

  `Props/C04.lean` proves the gate on the in-memory map (`verify_gate_iff`, `sign_gate_cases`,
  `*_call_implies_gate`); `C01.sign1_wire_flat_alg` / `sign1_wire_nested_alg` carry it across the
  wire for COSE_Sign1.  This file adds:

  3. `signed_bytes_carry_alg` (+ `_tbs`, `signature_…`, `countersignature_…`): "every message
     signed without external data carries the algorithm it was signed with", stated on the
     protected byte string that goes into ToBeSigned: its content decodes
     (`decProtectedContent`) to a map in which `Algorithm()` finds the signer's algorithm.
     `_tbs`: the one content handed to the key is the RFC 9052 Sig_structure over that content.
     Hypotheses: no retained raw protected bytes (`hrp`), protected map in the nested data model
     (`NestedMap`, `UintOK`, room for the inserted alg entry), signer's alg in int64 range.
     `bucket_bytes_alg_of_decoded`: `UintOK` is only needed for "decodes at all".
     RAW PROTECTED BYTES (`m.h.rawP = some raw`): `signed_bytes_raw_verbatim` — the raw bytes are
     signed verbatim, the typed map is untouched, and the gate looked at the TYPED map only.  The
     library does not re-check raw against typed on sign, so `hrp` cannot be dropped:
     `signed_bytes_carry_alg_needs_no_raw` is a concrete message (raw says ES384, typed says
     ES256) that an ES256 signer signs, the signed bytes naming ES384.  This is the known,
     documented limit of constructed messages with inconsistent raw/typed headers, not a new
     finding.  For headers that come from the decoder raw and typed agree, and the statement
     holds again: `resigned_bytes_carry_alg` (decode, clear the signature, sign again).
  4. `verify_consults_wire_alg` (+ `verify_other_wire_alg_no_call`, `verify_ok_wire_alg`): for a
     DECODED COSE_Sign1 the verifier is reached only if the algorithm encoded in the received
     protected bytes (a sub-slice of the input, `decoded_protected_bytes`) is the verifier's, or
     is absent and external data is non-empty; and the one content the verifier is handed is the
     Sig_structure over exactly that content — the bytes consulted are the bytes that are signed.
     No hypotheses beyond "decoded" and "the verifier was called".
  1. `signmsg_wire_alg` / `signmsg_wire_alg_cases`: sign → marshal → unmarshal of a COSE_Sign, every
     slot `i` of the decoded message: `algorithmOf m2.sigs[i].h.p = .found ss[i].alg`, under the
     per-slot `hnx` side condition (no external data, or the slot's map already names an alg);
     `_cases` is the unconditional form.  NESTED form (hypotheses of `C01.signmsg_wire_nested`);
     the verifier list / `Matches` hypotheses of that theorem are NOT needed and are dropped (that
     a signature is non-empty is read off the successful `Signature.marshal`).
  2. `countersignature_wire_alg` / `_cases`: the same for a stand-alone countersignature, NESTED
     form (hypotheses of `C01.countersignature_wire_nested` minus the verifier).
  5. non-vacuity examples for 1–4 at the end.

  None of the target statements turned out false in the model; the only counterexample theorem is
  the requested `signed_bytes_carry_alg_needs_no_raw`.
-/
import CoseSpec
import CoseModel.Messages
import CoseProofs.Props.C03
import CoseProofs.Props.C04
import CoseProofs.Deep.Chain
import CoseProofs.Deep.Reencode
import CoseProofs.Deep.Tamper
import CoseProofs.Deep.WireClosure
import CoseProofs.Deep.SignWireClosure
import CoseProofs.Deep.NestedBuckets
import CoseProofs.Deep.NestedClosures
open CoseModel CoseSpec RoundTrip

namespace C04
open WireClosure SignWireClosure NestedBuckets NestedClosures

/-! ## tools -/

/-- signing WITHOUT external data: whatever protected map the signing gate hands on names the
    signer's algorithm (it was there and equal, or it was inserted) -/
theorem gate_noext_found {rawP : Option Bytes} {p p' : GoMap} {alg : Int}
    (hg : ensureSigningAlgorithm rawP p alg none = .ok p') : algorithmOf p' = .found alg := by
  rcases sign_gate_cases rawP p p' alg none hg with ⟨hf, rfl⟩ | ⟨-, he, -⟩ | ⟨hn, -, -, rfl⟩
  · exact hf
  · simp at he
  · exact C01.algorithmOf_set p alg hn

/-- a protected bucket encoded FROM THE TYPED MAP (no retained raw bytes) whose `Algorithm()` is
    the integer `a`: the content of the emitted byte string — under ANY reading of the bytes as
    head + content — is accepted by `ProtectedHeader.UnmarshalCBOR` and names `a` -/
theorem bucket_bytes_alg {p : GoMap} {a : Int} (hf : NestedMap p) (hu : ∀ e ∈ p, UintOK e.2)
    (hl : p.length ≤ maxElems) (ha : algorithmOf p = .found a) {P content : Bytes}
    (he : encodeBucket encCfg true none p = some P) (hc : IsBstrEncoding P content) :
    ∃ pm, decProtectedContent content = .ok pm ∧ algorithmOf pm = .found a := by
  have hv := validate_of_encodeBucket he
  obtain ⟨hw, c', pm, hb, hhw, -, hd, -, -, halg⟩ :=
    C08.protected_bucket_roundtrip_nested p hf hu hv hl P he
  obtain ⟨w, hfit, hP⟩ := hc
  have hcc : c' = content := by
    rw [hb] at hP
    exact (bstr_split_inj hP (hhw ▸ imm_of_shortest _) (imm_of_fits hfit)).2
  subst hcc
  refine ⟨pm, hd, ?_⟩
  rw [halg, algSpec_eq_algorithmOf p (by rw [ha]; simp), ha]

/-- the same without `UintOK`, given that the content decodes at all -/
theorem bucket_bytes_alg_of_decoded {p : GoMap} {a : Int} (hf : NestedMap p)
    (hl : p.length ≤ maxElems) (ha : algorithmOf p = .found a) {P content : Bytes}
    (he : encodeBucket encCfg true none p = some P) (hc : IsBstrEncoding P content) {pm : GoMap}
    (hd : decProtectedContent content = .ok pm) : algorithmOf pm = .found a := by
  have hv := validate_of_encodeBucket he
  obtain ⟨w, hfit, hP⟩ := hc
  have hne : p ≠ [] := by
    intro h0
    subst h0
    simp [algorithmOf, lookupLabel, GoMap.lookup, lbl, normalizeLabel] at ha
  obtain ⟨-, -, -, halg⟩ :=
    C08.decoded_alg_nested p hne hf hv hl P content w (imm_of_fits hfit) he hP pm hd
  rw [halg, algSpec_eq_algorithmOf p (by rw [ha]; simp), ha]

/-- one header layer after the signing gate, no external data, no retained raw protected bytes:
    the protected bytes the layer marshals to carry the signer's algorithm -/
theorem layer_bytes_carry_alg {p p' : GoMap} {alg : Int} {ru : Option Bytes} {u : GoMap}
    (hg : ensureSigningAlgorithm none p alg none = .ok p')
    (hf : NestedMap p) (hu : ∀ e ∈ p, UintOK e.2) (hl : p.length < maxElems)
    (ha : int64Range alg) {P content : Bytes}
    (hP : marshalProtected { rawP := none, p := p', rawU := ru, u := u } = .ok P)
    (hc : IsBstrEncoding P content) :
    ∃ pm, decProtectedContent content = .ok pm ∧ algorithmOf pm = .found alg := by
  obtain ⟨hf', hu', hl', -⟩ := sign_gate_nested (d := 1) hg hf hu ha
  obtain ⟨-, he⟩ := marshalProtected_ok_inv hP
  exact bucket_bytes_alg hf' hu' (by omega) (gate_noext_found hg) he hc

/-! ## 3. the signed bytes carry the signer's algorithm -/

/-- what a successful `Sign1.sign` handed to the key: exactly one content, the `ToBeSigned` of the
    state it leaves behind -/
theorem sign1_ok_calls (m : Sign1Msg) (ext : Option Bytes) (s : Signer)
    (hok : (Sign1.sign m ext s).out = .ok ()) :
    ∃ tbs, (Sign1.sign m ext s).calls = [tbs] ∧
      Sign1.toBeSigned (Sign1.sign m ext s).state ext = .ok tbs := by
  unfold Sign1.sign at hok ⊢
  by_cases hp : m.payload.isNone
  · simp [hp] at hok
  · by_cases hg : blen m.sig > 0
    · simp [hp, hg] at hok
    · simp only [hp, hg, if_false, Bool.false_eq_true] at hok ⊢
      cases hgate : ensureSigningAlgorithm m.h.rawP m.h.p s.alg ext with
      | ok p' =>
        simp only [hgate] at hok ⊢
        cases ht : Sign1.toBeSigned { m with h := { m.h with p := p' } } ext with
        | ok tbs =>
          simp only [ht] at hok ⊢
          cases hsg : s.sign tbs with
          | ok sig =>
            simp only [hsg] at hok ⊢
            split
            · rename_i hz; simp [hz] at hok
            · exact ⟨tbs, rfl, ht⟩
          | err e => simp [hsg] at hok
          | panic => simp [hsg] at hok
          | unmodelled => simp [hsg] at hok
        | err e => simp [ht] at hok
        | panic => simp [ht] at hok
        | unmodelled => simp [ht] at hok
      | err e => simp [hgate] at hok
      | panic => simp [hgate] at hok
      | unmodelled => simp [hgate] at hok

/-- 3. COSE_Sign1, "every message signed without external data carries the algorithm it was signed
    with", ON THE SIGNED BYTES: after a successful `Sign` with no external data of a message built
    from typed header maps (no retained raw protected bytes), the protected byte string `P` that
    went into `ToBeSigned` — read as head + `content` in any way — has a content that
    `ProtectedHeader.UnmarshalCBOR` accepts and in which `Algorithm()` finds the signer's
    algorithm. -/
theorem signed_bytes_carry_alg (m : Sign1Msg) (s : Signer)
    (hrp : m.h.rawP = none) (hfp : NestedMap m.h.p) (hup : ∀ e ∈ m.h.p, UintOK e.2)
    (hlp : m.h.p.length < maxElems) (halg : int64Range s.alg)
    (hok : (Sign1.sign m none s).out = .ok ())
    (P content : Bytes) (hP : marshalProtected (Sign1.sign m none s).state.h = .ok P)
    (hc : IsBstrEncoding P content) :
    ∃ pm, decProtectedContent content = .ok pm ∧ algorithmOf pm = .found s.alg := by
  obtain ⟨p', tbs, sig, -, hgate, -, -, hst⟩ := C01.sign1_sign_ok_inv m none s hok
  rw [hst] at hP
  obtain ⟨⟨rp, p, ru, u⟩, pay, sg0⟩ := m
  simp only at hrp hfp hup hlp hgate hP
  subst hrp
  exact layer_bytes_carry_alg hgate hfp hup hlp halg hP hc

/-- 3, tied to the key invocation: the ONE content handed to the signer is the RFC 9052
    Sig_structure over a protected content that decodes and names the signer's algorithm -/
theorem signed_bytes_carry_alg_tbs (m : Sign1Msg) (s : Signer)
    (hrp : m.h.rawP = none) (hfp : NestedMap m.h.p) (hup : ∀ e ∈ m.h.p, UintOK e.2)
    (hlp : m.h.p.length < maxElems) (halg : int64Range s.alg)
    (hok : (Sign1.sign m none s).out = .ok ()) :
    ∃ P content pl pm, m.payload = some pl ∧
      marshalProtected (Sign1.sign m none s).state.h = .ok P ∧ IsBstrEncoding P content ∧
      (Sign1.sign m none s).calls = [detEnc (sigStructure1 content [] pl)] ∧
      decProtectedContent content = .ok pm ∧ algorithmOf pm = .found s.alg := by
  obtain ⟨tbs, hcalls, ht⟩ := sign1_ok_calls m none s hok
  obtain ⟨_, _, _, hpn, -, -, -, hst⟩ := C01.sign1_sign_ok_inv m none s hok
  have hpay : (Sign1.sign m none s).state.payload = m.payload := by rw [hst]
  obtain ⟨pl, hpl⟩ : ∃ pl, m.payload = some pl := by
    cases hmp : m.payload with
    | none => simp [hmp] at hpn
    | some pl => exact ⟨pl, rfl⟩
  obtain ⟨P, content, hP, hc, -, rfl⟩ := C03.tbs1_rfc_of_ok ht (hpay.trans hpl)
  obtain ⟨pm, hd, ha⟩ := signed_bytes_carry_alg m s hrp hfp hup hlp halg hok P content hP hc
  exact ⟨P, content, pl, pm, hpl, hP, hc, hcalls, hd, ha⟩

/-- 3, one signer slot of a COSE_Sign (`Signature.Sign`), same statement -/
theorem signature_signed_bytes_carry_alg (sg : SigV) (s : Signer) (bprot : Bytes)
    (payload : Option Bytes)
    (hrp : sg.h.rawP = none) (hfp : NestedMap sg.h.p) (hup : ∀ e ∈ sg.h.p, UintOK e.2)
    (hlp : sg.h.p.length < maxElems) (halg : int64Range s.alg)
    (hok : (Signature.sign sg s bprot payload none).out = .ok ())
    (P content : Bytes)
    (hP : marshalProtected (Signature.sign sg s bprot payload none).state.h = .ok P)
    (hc : IsBstrEncoding P content) :
    ∃ pm, decProtectedContent content = .ok pm ∧ algorithmOf pm = .found s.alg := by
  obtain ⟨p', tbs, sig, -, -, hgate, -, -, hst⟩ :=
    C01.signature_sign_ok_inv sg s bprot payload none hok
  rw [hst] at hP
  obtain ⟨⟨rp, p, ru, u⟩, sg0⟩ := sg
  simp only at hrp hfp hup hlp hgate hP
  subst hrp
  exact layer_bytes_carry_alg hgate hfp hup hlp halg hP hc

/-- 3, a countersignature (`Countersignature.Sign`), same statement -/
theorem countersignature_signed_bytes_carry_alg (cs : SigV) (s : Signer) (parent : Parent)
    (hrp : cs.h.rawP = none) (hfp : NestedMap cs.h.p) (hup : ∀ e ∈ cs.h.p, UintOK e.2)
    (hlp : cs.h.p.length < maxElems) (halg : int64Range s.alg)
    (hok : (Countersignature.sign cs s parent none).out = .ok ())
    (P content : Bytes)
    (hP : marshalProtected (Countersignature.sign cs s parent none).state.h = .ok P)
    (hc : IsBstrEncoding P content) :
    ∃ pm, decProtectedContent content = .ok pm ∧ algorithmOf pm = .found s.alg := by
  obtain ⟨p', tbs, sig, hgate, -, -, hst⟩ := C01.countersignature_sign_ok_inv cs s parent none hok
  rw [hst] at hP
  obtain ⟨⟨rp, p, ru, u⟩, sg0⟩ := cs
  simp only at hrp hfp hup hlp hgate hP
  subst hrp
  exact layer_bytes_carry_alg hgate hfp hup hlp halg hP hc

/-! ### retained raw protected bytes -/

/-- RAW PROTECTED BYTES PRESENT (a decoded message, or one whose `RawProtected` the caller set):
    a successful `Sign` — with any external data — signs those bytes VERBATIM, leaves the typed
    map untouched (`raw_present_no_injection`), and what the gate checked is the TYPED map only:
    its alg is the signer's, or it has none and external data is supplied.  Nothing relates the raw
    bytes to the typed map (`signed_bytes_carry_alg_needs_no_raw`). -/
theorem signed_bytes_raw_verbatim (m : Sign1Msg) (ext : Option Bytes) (s : Signer) (raw : Bytes)
    (hr : m.h.rawP = some raw) (hne : raw ≠ [])
    (hok : (Sign1.sign m ext s).out = .ok ()) :
    marshalProtected (Sign1.sign m ext s).state.h = .ok raw ∧
      (Sign1.sign m ext s).state.h.p = m.h.p ∧ (Sign1.sign m ext s).state.h.rawP = some raw ∧
      (algorithmOf m.h.p = .found s.alg ∨
        (algorithmOf m.h.p = .notFound ∧ (ext.getD []).length > 0)) := by
  obtain ⟨p', tbs, sig, -, hgate, ht, -, hst⟩ := C01.sign1_sign_ok_inv m ext s hok
  rw [hr] at hgate
  have hpp := raw_present_no_injection raw _ _ _ _ hgate
  subst hpp
  obtain ⟨P, P', hP, -, -⟩ := C01.toBeSigned1_ok_inv ht
  obtain ⟨-, he⟩ := marshalProtected_ok_inv hP
  simp only [hr] at he
  have hPr : P = raw := by
    cases raw with
    | nil => exact absurd rfl hne
    | cons x xs => simpa [encodeBucket] using he.symm
  subst hPr
  rw [hst]
  refine ⟨hP, rfl, hr, ?_⟩
  rcases sign_gate_cases _ _ _ _ _ hgate with ⟨h, -⟩ | ⟨h, hx, -⟩ | ⟨-, -, hc, -⟩
  · exact .inl h
  · exact .inr ⟨h, hx⟩
  · cases hc

/-- what the decoder establishes about the protected bucket of an accepted COSE_Sign1: the
    retained raw bytes are a sub-slice of the input (right after the array head), they are ONE
    byte-string item whose content `ProtectedHeader.UnmarshalCBOR` decoded to the typed map
    `m.h.p`, and `MarshalProtected` re-emits them verbatim (so they are the protected bytes of
    every `ToBeSigned` computed for `m`) -/
theorem decoded_protected_bytes {tagged : Bool} {b : Bytes} {m : Sign1Msg}
    (hd : Sign1.unmarshal tagged b = .ok m) :
    ∃ raw content rest, b = C09.pre tagged ++ 0x84 :: (raw ++ rest) ∧ m.h.rawP = some raw ∧
      raw ≠ [] ∧ marshalProtected m.h = .ok raw ∧ IsBstrEncoding raw content ∧
      decProtectedContent content = .ok m.h.p := by
  obtain ⟨p, u, pl, sg, hb, -, hwf, -, -, -, -, hh⟩ := C09.sign1_envelope_full hd
  obtain ⟨hdp, -, -, hrp, -⟩ := C09.decHeaders_ok hh
  obtain ⟨hw, enc, rfl, -⟩ := C05.protected_is_bstr_of_map p _ hdp
  have hpwf : (Wire.bstr hw enc).wf = true := by
    simp only [Wire.wf, Wire.wfList, Bool.and_eq_true] at hwf
    simpa [Wire.wf] using hwf.2.1
  obtain ⟨x, xs, hx⟩ := C09.bytes_cons (Wire.bstr hw enc)
  refine ⟨(Wire.bstr hw enc).bytes, enc, Wire.bytesList [u, pl, sg], ?_, hrp, ?_,
    Verifies.marshalProtected_raw hrp (C01.decProtected_modelled hdp),
    Verifies.isBstrEncoding_of_wf hpwf, hdp⟩
  · rw [hb]
    simp [Wire.bytes, Wire.bytesList, headBytes]
  · rw [hx]; exact List.cons_ne_nil _ _

/-- RE-SIGNING A DECODED MESSAGE (decode, clear the signature, `Sign` again without external
    data): here raw and typed protected headers are consistent by construction, so the signed
    bytes — the received protected bytes, verbatim — carry the signer's algorithm. -/
theorem resigned_bytes_carry_alg (tagged : Bool) (b : Bytes) (m0 : Sign1Msg) (s : Signer)
    (hd : Sign1.unmarshal tagged b = .ok m0)
    (hok : (Sign1.sign { m0 with sig := none } none s).out = .ok ()) :
    ∃ raw content pm, m0.h.rawP = some raw ∧
      marshalProtected (Sign1.sign { m0 with sig := none } none s).state.h = .ok raw ∧
      IsBstrEncoding raw content ∧ decProtectedContent content = .ok pm ∧
      algorithmOf pm = .found s.alg := by
  obtain ⟨raw, content, -, -, hrp, hne, -, hc, hdc⟩ := decoded_protected_bytes hd
  obtain ⟨hP, -, -, hcase⟩ :=
    signed_bytes_raw_verbatim { m0 with sig := none } none s raw hrp hne hok
  refine ⟨raw, content, m0.h.p, hrp, hP, hc, hdc, ?_⟩
  rcases hcase with h | ⟨-, hx⟩
  · exact h
  · simp at hx

/-- a constructed message whose RETAINED RAW protected bytes say ES384 (`a1 01 38 22`, alg −35)
    while its TYPED protected map says ES256 (alg −7) -/
def exRawMismatch : Sign1Msg :=
  { h := { rawP := some [0x44, 0xa1, 0x01, 0x38, 0x22], p := [(lbl 1, .alg (-7))] },
    payload := some [1, 2, 3] }

theorem exRaw_dec : decProtectedContent [0xa1, 0x01, 0x38, 0x22] = .ok [(lbl 1, .alg (-35))] := by
  simp [decProtectedContent, parseTop, parseItem, parsePairs, fuelFor, parseHead,
    maxNested, maxElems, labelsOK, maxInt64, GoVal.keyEq, decodePairs, decodeAny, keyHashable,
    validateHeaderParameters, validateLoop, normalizeLabel, wrap64, checkParam, castAlg, algorithmOf,
    lookupLabel, GoMap.lookup, lbl, GoMap.set, GoMap.has, bind, Out.bind, canInt, canTstr,
    IntKind.signed, Wire.stripSelfDescribed,
    (by decide : headerLabelsUntagged [0xa1, 0x01, 0x38, 0x22] = true)]

/-- WHY `hrp : m.h.rawP = none` IN `signed_bytes_carry_alg`: go-cose does not re-check retained
    raw protected bytes against the typed map when signing.  For `exRawMismatch` the ES256 signer
    passes the gate (the typed map names −7), `Sign` succeeds with no external data, and the ONE
    content handed to the key is the Sig_structure over the raw content, which decodes and names
    ES384 (−35), not the signer's algorithm.  (Known limit of constructed messages with
    inconsistent raw / typed headers; a decoded message is consistent:
    `resigned_bytes_carry_alg`.) -/
theorem signed_bytes_carry_alg_needs_no_raw :
    (Sign1.sign exRawMismatch none C01.exS7).out = .ok () ∧
    algorithmOf exRawMismatch.h.p = .found C01.exS7.alg ∧
    marshalProtected (Sign1.sign exRawMismatch none C01.exS7).state.h
      = .ok [0x44, 0xa1, 0x01, 0x38, 0x22] ∧
    IsBstrEncoding [0x44, 0xa1, 0x01, 0x38, 0x22] [0xa1, 0x01, 0x38, 0x22] ∧
    (Sign1.sign exRawMismatch none C01.exS7).calls
      = [detEnc (sigStructure1 [0xa1, 0x01, 0x38, 0x22] [] [1, 2, 3])] ∧
    decProtectedContent [0xa1, 0x01, 0x38, 0x22] = .ok [(lbl 1, .alg (-35))] ∧
    algorithmOf [(lbl 1, .alg (-35))] = .found (-35) ∧ (-35 : Int) ≠ C01.exS7.alg := by
  have hc : IsBstrEncoding [0x44, 0xa1, 0x01, 0x38, 0x22] [0xa1, 0x01, 0x38, 0x22] :=
    ⟨.imm, by decide, rfl⟩
  have hg : ensureSigningAlgorithm exRawMismatch.h.rawP exRawMismatch.h.p (-7) none
      = .ok exRawMismatch.h.p := by rfl
  have hmp : marshalProtected exRawMismatch.h = .ok [0x44, 0xa1, 0x01, 0x38, 0x22] := by
    simp [marshalProtected, exRawMismatch, GoVal.modelledPairs, GoVal.modelled, lbl, encodeBucket]
  have ht := C02.tbs1_eq_rfc
    { h := { rawP := exRawMismatch.h.rawP, p := exRawMismatch.h.p, rawU := exRawMismatch.h.rawU,
             u := exRawMismatch.h.u }, payload := some [1, 2, 3] } none _ _ [1, 2, 3] hmp hc
    (by decide) rfl
  have hp : exRawMismatch.payload = some [1, 2, 3] := rfl
  have hs : exRawMismatch.sig = none := rfl
  have hok : (Sign1.sign exRawMismatch none C01.exS7).out = .ok () := by
    simp [Sign1.sign, hp, hs, blen, hg, ht, C01.exS7]
  obtain ⟨hP, -, -, -⟩ :=
    signed_bytes_raw_verbatim exRawMismatch none C01.exS7 _ rfl (by simp) hok
  refine ⟨hok, by decide, hP, hc, ?_, exRaw_dec, by decide, by decide⟩
  simp [Sign1.sign, hp, hs, blen, hg, ht, C01.exS7]

/-! ## 4. verification consults the algorithm encoded in the received protected bytes -/

/-- what `Sign1.verify` handed to the verifier, if anything: exactly one content, the `ToBeSigned`
    of the message -/
theorem verify1_calls (m : Sign1Msg) (ext : Option Bytes) (v : Verifier)
    (h : (Sign1.verify m ext v).2 ≠ []) :
    ∃ tbs, (Sign1.verify m ext v).2 = [tbs] ∧ Sign1.toBeSigned m ext = .ok tbs ∧
      m.payload.isSome = true := by
  unfold Sign1.verify at h ⊢
  by_cases hp : m.payload.isNone
  · simp [hp] at h
  · by_cases hs : blen m.sig = 0
    · simp [hp, hs] at h
    · simp only [hp, hs, if_false, Bool.false_eq_true] at h ⊢
      have hsome : m.payload.isSome = true := by cases hmp : m.payload <;> simp_all
      cases hg : ensureVerificationAlgorithm m.h.p v.alg ext with
      | ok u =>
        simp only [hg] at h ⊢
        cases ht : Sign1.toBeSigned m ext with
        | ok tbs => exact ⟨tbs, rfl, rfl, hsome⟩
        | err e => simp [ht] at h
        | panic => simp [ht] at h
        | unmodelled => simp [ht] at h
      | err e => simp [hg] at h
      | panic => simp [hg] at h
      | unmodelled => simp [hg] at h

/-- 4. "for a decoded message the alg consulted is the one encoded in the protected bytes that are
    signed": for a DECODED COSE_Sign1 (`Sign1.unmarshal tagged b = .ok m`), if `Verify` reaches the
    verifier at all, then the received protected byte string `raw` — a sub-slice of the input `b`,
    retained in `m.h.rawP` — has a content that `ProtectedHeader.UnmarshalCBOR` decodes to a map
    whose `Algorithm()` is the verifier's algorithm (or names none, and external data is
    non-empty); and the ONE content handed to the verifier is the RFC 9052 Sig_structure over
    exactly that content. -/
theorem verify_consults_wire_alg (tagged : Bool) (b : Bytes) (m : Sign1Msg) (ext : Option Bytes)
    (v : Verifier) (hd : Sign1.unmarshal tagged b = .ok m)
    (hcall : (Sign1.verify m ext v).2 ≠ []) :
    ∃ raw content rest pm pl, b = C09.pre tagged ++ 0x84 :: (raw ++ rest) ∧
      m.h.rawP = some raw ∧ IsBstrEncoding raw content ∧ decProtectedContent content = .ok pm ∧
      (algorithmOf pm = .found v.alg ∨
        (algorithmOf pm = .notFound ∧ (ext.getD []).length > 0)) ∧
      m.payload = some pl ∧
      (Sign1.verify m ext v).2 = [detEnc (sigStructure1 content (ext.getD []) pl)] := by
  obtain ⟨raw, content, rest, hb, hrp, -, hP, hc, hdc⟩ := decoded_protected_bytes hd
  have hgate := (verify_gate_iff _ _ _).mp (verify1_call_implies_gate m ext v hcall)
  obtain ⟨tbs, hcalls, ht, hsome⟩ := verify1_calls m ext v hcall
  obtain ⟨pl, hpl⟩ := C03.isSome_inv hsome
  obtain ⟨raw', c', hP', hc', -, rfl⟩ := C03.tbs1_rfc_of_ok ht hpl
  rw [hP] at hP'
  cases hP'
  have hcc := C03.isBstrEncoding_content_unique hc hc'
  subst hcc
  exact ⟨raw, content, rest, m.h.p, pl, hb, hrp, hc, hdc, hgate, hpl, hcalls⟩

/-- 4, contrapositive: a decoded message whose received protected bytes name an integer algorithm
    other than the verifier's never reaches the verifier -/
theorem verify_other_wire_alg_no_call (tagged : Bool) (b : Bytes) (m : Sign1Msg)
    (ext : Option Bytes) (v : Verifier) (hd : Sign1.unmarshal tagged b = .ok m)
    (raw content : Bytes) (pm : GoMap) (c : Int) (hrp : m.h.rawP = some raw)
    (hc : IsBstrEncoding raw content) (hdc : decProtectedContent content = .ok pm)
    (ha : algorithmOf pm = .found c) (hne : c ≠ v.alg) :
    (Sign1.verify m ext v).2 = [] ∧ (Sign1.verify m ext v).1 ≠ .ok () := by
  obtain ⟨raw', content', -, -, hrp', -, -, hc', hdc'⟩ := decoded_protected_bytes hd
  rw [hrp] at hrp'
  cases hrp'
  have hcc := C03.isBstrEncoding_content_unique hc hc'
  subst hcc
  rw [hdc] at hdc'
  cases hdc'
  exact verify1_mismatch_no_call m ext v c ha hne

/-- 4, accepted messages: `Verify` returning nil on a decoded message implies the same -/
theorem verify_ok_wire_alg (tagged : Bool) (b : Bytes) (m : Sign1Msg) (ext : Option Bytes)
    (v : Verifier) (hd : Sign1.unmarshal tagged b = .ok m)
    (hok : (Sign1.verify m ext v).1 = .ok ()) :
    ∃ raw content pm, m.h.rawP = some raw ∧ IsBstrEncoding raw content ∧
      decProtectedContent content = .ok pm ∧
      (algorithmOf pm = .found v.alg ∨
        (algorithmOf pm = .notFound ∧ (ext.getD []).length > 0)) := by
  obtain ⟨raw, content, -, -, hrp, -, -, hc, hdc⟩ := decoded_protected_bytes hd
  exact ⟨raw, content, m.h.p, hrp, hc, hdc,
    (verify_gate_iff _ _ _).mp ((C03.verify1_iff m ext v).mp hok).2.2.1⟩

/-! ## 1, 2. the signer's algorithm across the wire: COSE_Sign slots, countersignatures -/

/-- the alg found in a decoded protected map `pd` that reads back the map `p'` the signing gate
    produced (`Algorithm() = algSpec p'`): the signer's — except when the caller's map names none
    and external data is supplied (then nothing is inserted and the decoded map names none) -/
theorem layer_wire_alg {p p' pd : GoMap} {alg : Int} {ext : Option Bytes}
    (hg : ensureSigningAlgorithm none p alg ext = .ok p') (hd : algorithmOf pd = algSpec p') :
    algorithmOf pd = .found alg ∨
      (algorithmOf p = .notFound ∧ (ext.getD []).length > 0 ∧ algorithmOf pd = .notFound) := by
  have hgv := C01.gate_after_sign _ _ _ _ _ hg (C01.algorithmOf_set _ _)
  have hne : algorithmOf p' ≠ .failed .invalidAlg := by
    intro hc
    simp [ensureVerificationAlgorithm, hc] at hgv
  rw [hd, algSpec_eq_algorithmOf p' hne]
  rcases sign_gate_cases none p p' alg ext hg with ⟨hf, rfl⟩ | ⟨hn, he, rfl⟩ | ⟨hn, _, _, rfl⟩
  · exact .inl hf
  · exact .inr ⟨hn, he, hn⟩
  · exact .inl (C01.algorithmOf_set p alg hn)

theorem sig_ne_of_marshal {h : Hdrs} {sig b : Bytes}
    (henc : Signature.marshal { h := h, sig := some sig } = .ok b) : sig ≠ [] := by
  obtain ⟨-, -, hz, -⟩ := signature_marshal_ok_inv henc
  intro hc
  subst hc
  simp [blen] at hz

/-- one signer slot across the wire (`NestedClosures.slot_wireN` without a matching verifier: that
    the signature is non-empty is read off the successful `Signature.marshal`) -/
theorem slot_wireN' (sg : SigV) (s : Signer) (bprot : Bytes) (payload ext : Option Bytes)
    (b : Bytes) (hslot : NestedSlot sg) (hgs : GoSigner s)
    (hok : (Signature.sign sg s bprot payload ext).out = .ok ())
    (henc : Signature.marshal (Signature.sign sg s bprot payload ext).state = .ok b) :
    ∃ (x : Wire) (s2 : SigV), b = x.bytes ∧ x.wf = true ∧ x.inLimits false 2 = true ∧
      C05.SigElem x s2 ∧ Same (Signature.sign sg s bprot payload ext).state s2 := by
  obtain ⟨p', tbs, sig, -, -, hgate, ht, hsg, hst⟩ :=
    C01.signature_sign_ok_inv sg s bprot payload ext hok
  obtain ⟨hrp, hru, hfp, hfu, hup, huu, hlp, hlu⟩ := hslot
  obtain ⟨⟨rp, p, ru, u⟩, sg0⟩ := sg
  simp only at hrp hru hfp hfu hup huu hlp hlu hgate ht hst
  subst hrp hru
  rw [hst] at henc ⊢
  obtain ⟨-, P, P', -, hP, hd⟩ := sigTbs_ok_inv ht
  obtain ⟨hfp', hup', hlp', -⟩ := sign_gate_nested (d := 1) hgate hfp hup hgs.1
  obtain ⟨x, s2, hb, hwf, hlim, hel, -, hsame, -, -⟩ :=
    sigv_decodes_nested 2 p' u sig b P P' hfp' hfu (by unfold maxNested; omega) hup' huu
      (by omega) hlu (hgs.2 _ _ hsg) (sig_ne_of_marshal henc) hP hd henc
  exact ⟨x, s2, hb, hwf, hlim 2 (Nat.le_refl _), hel, hsame⟩

/-- 1, all cases. COSE_Sign across the wire (the situation of `C01.signmsg_wire_nested`; no
    verifiers are needed): after sign → marshal → unmarshal, `Algorithm()` on EVERY signer slot of
    the decoded message is the algorithm of the signer at that position — except for a slot whose
    protected map named none while external data was supplied (then go-cose signs without
    inserting one and the decoded slot names none either). -/
theorem signmsg_wire_alg_cases (m : SignMsg) (ext : Option Bytes) (ss : List Signer) (b : Bytes)
    (hrp : m.h.rawP = none) (hru : m.h.rawU = none)
    (hfp : NestedMap m.h.p) (hfu : NestedMapAt 2 m.h.u)
    (hup : ∀ e ∈ m.h.p, UintOK e.2) (huu : ∀ e ∈ m.h.u, UintOK e.2)
    (hlp : m.h.p.length ≤ maxElems) (hlu : m.h.u.length ≤ maxElems)
    (hslots : ∀ sg ∈ m.sigs, NestedSlot sg) (hn : m.sigs.length ≤ maxElems)
    (hpl : blen m.payload < 18446744073709551616) (hgs : ∀ s ∈ ss, GoSigner s)
    (hok : (Sign.sign m ext ss).out = .ok ())
    (henc : Sign.marshal (Sign.sign m ext ss).state = .ok b) :
    ∃ m2, Sign.unmarshal b = .ok m2 ∧ m2.sigs.length = m.sigs.length ∧
      ∀ i (h1 : i < m2.sigs.length) (h2 : i < m.sigs.length) (h3 : i < ss.length),
        algorithmOf m2.sigs[i].h.p = .found ss[i].alg ∨
          (algorithmOf m.sigs[i].h.p = .notFound ∧ (ext.getD []).length > 0 ∧
            algorithmOf m2.sigs[i].h.p = .notFound) := by
  obtain ⟨bprot, hpn, hemp, hl, hb, hloop, hst⟩ := C01.signmsg_sign_ok_inv m ext ss hok
  obtain ⟨hll, hidx⟩ := C01.signLoop_ok_inv bprot m.payload ext m.sigs ss hl hloop
  have hmem := signLoop_ok_mem bprot m.payload ext m.sigs ss hl hloop
  obtain ⟨⟨rp, p, ru, u⟩, pay, sgs⟩ := m
  simp only at hrp hru hfp hfu hup huu hlp hlu hslots hn hpl hpn hemp hl hb hloop hll hidx hmem
  subst hrp hru
  have hsne : sgs ≠ [] := by
    intro hc
    rw [hc] at hemp
    exact absurd hemp (by simp)
  obtain ⟨bp', hd, -⟩ := body_det_of_loop bprot pay ext sgs ss hl hsne hloop
  rw [hst] at henc
  simp only at henc
  have hall : ∀ st ∈ (signLoop bprot pay ext sgs ss).1, ∀ b, Signature.marshal st = .ok b →
      ∃ (x : Wire) (s2 : SigV), b = x.bytes ∧ x.wf = true ∧ x.inLimits false 2 = true ∧
        C05.SigElem x s2 ∧ Same st s2 := by
    intro st hstm bb hbb
    obtain ⟨i, h1, h2, rfl, hout⟩ := hmem st hstm
    exact slot_wireN' sgs[i] ss[i] bprot pay ext bb (hslots _ (List.getElem_mem h1))
      (hgs _ (List.getElem_mem h2)) hout hbb
  obtain ⟨m2, hdec, -, -, -, -, hl2, hsame⟩ :=
    signmsg_decodes_nested p u pay (signLoop bprot pay ext sgs ss).1 b bprot bp' hfp hfu hup huu
      hlp hlu hpl (by omega) hall hb hd henc
  refine ⟨m2, hdec, by simp only; omega, ?_⟩
  intro i h1 h2 h3
  simp only at h2 ⊢
  obtain ⟨hsti, hout⟩ := hidx i h2 h3
  obtain ⟨p', tbs, sig, -, -, hgate, -, -, hstate⟩ :=
    C01.signature_sign_ok_inv sgs[i] ss[i] bprot pay ext hout
  obtain ⟨-, -, ha2⟩ := hsame i (by omega) h1
  rw [hsti, hstate] at ha2
  simp only at ha2
  rw [(hslots _ (List.getElem_mem h2)).1] at hgate
  exact layer_wire_alg hgate ha2

/-- 1. C04 across the wire for COSE_Sign: slot by slot, when no external data is supplied or the
    slot's protected map already names an algorithm (the `hnx` of `C01.sign1_wire_nested_alg`, per
    slot; needed: `C01.sign1_wire_flat_alg_needs_hnx`), the decoded slot names the algorithm of the
    signer at that position. -/
theorem signmsg_wire_alg (m : SignMsg) (ext : Option Bytes) (ss : List Signer) (b : Bytes)
    (hrp : m.h.rawP = none) (hru : m.h.rawU = none)
    (hfp : NestedMap m.h.p) (hfu : NestedMapAt 2 m.h.u)
    (hup : ∀ e ∈ m.h.p, UintOK e.2) (huu : ∀ e ∈ m.h.u, UintOK e.2)
    (hlp : m.h.p.length ≤ maxElems) (hlu : m.h.u.length ≤ maxElems)
    (hslots : ∀ sg ∈ m.sigs, NestedSlot sg) (hn : m.sigs.length ≤ maxElems)
    (hpl : blen m.payload < 18446744073709551616) (hgs : ∀ s ∈ ss, GoSigner s)
    (hok : (Sign.sign m ext ss).out = .ok ())
    (henc : Sign.marshal (Sign.sign m ext ss).state = .ok b) :
    ∃ m2, Sign.unmarshal b = .ok m2 ∧ m2.sigs.length = m.sigs.length ∧
      ∀ i (h1 : i < m2.sigs.length) (h2 : i < m.sigs.length) (h3 : i < ss.length),
        ((ext.getD []).length = 0 ∨ algorithmOf m.sigs[i].h.p ≠ .notFound) →
        algorithmOf m2.sigs[i].h.p = .found ss[i].alg := by
  obtain ⟨m2, hdec, hl2, hall⟩ := signmsg_wire_alg_cases m ext ss b hrp hru hfp hfu hup huu hlp hlu
    hslots hn hpl hgs hok henc
  refine ⟨m2, hdec, hl2, ?_⟩
  intro i h1 h2 h3 hnx
  rcases hall i h1 h2 h3 with h | ⟨hnf, hx, -⟩
  · exact h
  · rcases hnx with h0 | h0
    · omega
    · exact absurd hnf h0

/-- 2, all cases. a stand-alone countersignature across the wire (the situation of
    `C01.countersignature_wire_nested`; no verifier is needed) -/
theorem countersignature_wire_alg_cases (cs : SigV) (s : Signer) (parent : Parent)
    (ext : Option Bytes) (b : Bytes)
    (hrp : cs.h.rawP = none) (hru : cs.h.rawU = none)
    (hfp : NestedMap cs.h.p) (hfu : NestedMapAt 2 cs.h.u)
    (hup : ∀ e ∈ cs.h.p, UintOK e.2) (huu : ∀ e ∈ cs.h.u, UintOK e.2)
    (hlp : cs.h.p.length < maxElems) (hlu : cs.h.u.length ≤ maxElems)
    (halg : int64Range s.alg)
    (hsl : ∀ t sg, s.sign t = .ok sg → sg.length < 18446744073709551616)
    (hok : (Countersignature.sign cs s parent ext).out = .ok ())
    (henc : Signature.marshal (Countersignature.sign cs s parent ext).state = .ok b) :
    ∃ c2, Signature.unmarshal b = .ok c2 ∧
      (algorithmOf c2.h.p = .found s.alg ∨
        (algorithmOf cs.h.p = .notFound ∧ (ext.getD []).length > 0 ∧
          algorithmOf c2.h.p = .notFound)) := by
  obtain ⟨p', tbs, sig, hgate, ht, hsg, hst⟩ :=
    C01.countersignature_sign_ok_inv cs s parent ext hok
  obtain ⟨⟨rp, p, ru, u⟩, sg0⟩ := cs
  simp only at hrp hru hfp hfu hup huu hlp hlu hgate ht hst
  subst hrp hru
  rw [hst] at henc
  obtain ⟨P, P', hP, hd⟩ := csTbs_ok_inv ht
  obtain ⟨hfp', hup', hlp', -⟩ := sign_gate_nested (d := 1) hgate hfp hup halg
  obtain ⟨x, c2, -, -, -, -, hdec, ⟨-, -, ha2⟩, -, -⟩ :=
    sigv_decodes_nested 0 p' u sig b P P' hfp' hfu (by unfold maxNested; omega) hup' huu
      (by omega) hlu (hsl _ _ hsg) (sig_ne_of_marshal henc) hP hd henc
  exact ⟨c2, hdec, layer_wire_alg hgate ha2⟩

/-- 2. C04 across the wire for a countersignature -/
theorem countersignature_wire_alg (cs : SigV) (s : Signer) (parent : Parent)
    (ext : Option Bytes) (b : Bytes)
    (hrp : cs.h.rawP = none) (hru : cs.h.rawU = none)
    (hfp : NestedMap cs.h.p) (hfu : NestedMapAt 2 cs.h.u)
    (hup : ∀ e ∈ cs.h.p, UintOK e.2) (huu : ∀ e ∈ cs.h.u, UintOK e.2)
    (hlp : cs.h.p.length < maxElems) (hlu : cs.h.u.length ≤ maxElems)
    (halg : int64Range s.alg)
    (hsl : ∀ t sg, s.sign t = .ok sg → sg.length < 18446744073709551616)
    (hnx : (ext.getD []).length = 0 ∨ algorithmOf cs.h.p ≠ .notFound)
    (hok : (Countersignature.sign cs s parent ext).out = .ok ())
    (henc : Signature.marshal (Countersignature.sign cs s parent ext).state = .ok b) :
    ∃ c2, Signature.unmarshal b = .ok c2 ∧ algorithmOf c2.h.p = .found s.alg := by
  obtain ⟨c2, hdec, hcase⟩ := countersignature_wire_alg_cases cs s parent ext b hrp hru hfp hfu
    hup huu hlp hlu halg hsl hok henc
  refine ⟨c2, hdec, ?_⟩
  rcases hcase with h | ⟨hnf, hx, -⟩
  · exact h
  · rcases hnx with h0 | h0
    · omega
    · exact absurd hnf h0

/-! ## 5. non-vacuity -/

section Examples
open C01

/-- non-vacuity of 3 (`signed_bytes_carry_alg_tbs`): `exNest` (protected bucket with `crit` and an
    array-of-map parameter) signed by the ES256 signer `exS7` with no external data — the one
    content handed to the key is the Sig_structure over the content of `exNestP`, which decodes
    and names ES256 -/
example : ∃ content pm, IsBstrEncoding exNestP content ∧
    (Sign1.sign exNest none exS7).calls = [detEnc (sigStructure1 content [] [1, 2, 3])] ∧
    decProtectedContent content = .ok pm ∧ algorithmOf pm = .found (-7) := by
  obtain ⟨h1, -, h3, -⟩ := exNest_model
  obtain ⟨P, content, pl, pm, hpl, hP, hc, hcalls, hd, ha⟩ :=
    signed_bytes_carry_alg_tbs exNest exS7 rfl h1 h3 (by simp [exNest, maxElems])
      (by simp [exS7, int64Range]) exNest_sign.1
  rw [exNest_sign.2] at hP
  have hPe : P = exNestP := Out.ok.inj (hP.symm.trans exNest_mpP)
  have hple : pl = [1, 2, 3] := (Option.some.inj hpl).symm
  subst hPe hple
  exact ⟨content, pm, hc, hcalls, hd, ha⟩

/-- non-vacuity of 1 (`signmsg_wire_alg`): the two-signer COSE_Sign `exMsgNest`, signed by
    `[exS7, exS7]`, encoded and decoded — both decoded slots name ES256 -/
example : ∃ b m2, Sign.marshal (Sign.sign exMsgNest none [exS7, exS7]).state = .ok b ∧
    Sign.unmarshal b = .ok m2 ∧ m2.sigs.length = 2 ∧
    ∀ i (h : i < m2.sigs.length), algorithmOf m2.sigs[i].h.p = .found (-7) := by
  obtain ⟨b, hb⟩ := exMsgNest_marshal
  obtain ⟨h1, h2, h3, h4⟩ := exNest_model
  obtain ⟨m2, hdec, hl2, hall⟩ :=
    signmsg_wire_alg exMsgNest none [exS7, exS7] b
      rfl rfl h1 h2 h3 h4 (by simp [exMsgNest, exNest, maxElems])
      (by simp [exMsgNest, exNest, maxElems])
      (by
        intro sg hsg
        simp only [exMsgNest, List.mem_cons, List.not_mem_nil, or_false] at hsg
        rcases hsg with rfl | rfl
        · exact nestedSlot_of_flat exHd_flatSlot
        · exact exHdA_slot)
      (by simp [exMsgNest, maxElems]) (by simp [exMsgNest, blen])
      (by
        intro s hs
        simp only [List.mem_cons, List.not_mem_nil, or_false, or_self] at hs
        subst hs
        exact exS7_go)
      exMsgNest_sign.1 hb
  have hlen : exMsgNest.sigs.length = 2 := rfl
  refine ⟨b, m2, hb, hdec, by omega, ?_⟩
  intro i hi
  have h3 : i < [exS7, exS7].length := by simp only [List.length_cons, List.length_nil]; omega
  have := hall i hi (by omega) h3 (.inl rfl)
  have hi2 : i = 0 ∨ i = 1 := by omega
  rcases hi2 with rfl | rfl <;> simpa [exS7] using this

/-- non-vacuity of 2 (`countersignature_wire_alg`): a countersignature with headers `exNest.h` on
    a signed COSE_Sign1 -/
example : ∃ b c2,
    Signature.marshal (Countersignature.sign { h := exNest.h } exS7 (.sign1 exPar) none).state
      = .ok b ∧ Signature.unmarshal b = .ok c2 ∧ algorithmOf c2.h.p = .found (-7) := by
  have hiv : ensureIV exNest.h.p exNest.h.u = true := by decide
  have hbm : exNest.h.marshal = .ok (exNestP, exNestU) := by
    simp [Hdrs.marshal, hiv, exNest_mpP, exNest_mpU, bind, Out.bind]
  have hb : Signature.marshal
      (Countersignature.sign { h := exNest.h } exS7 (.sign1 exPar) none).state
      = .ok (0x83 :: (exNestP ++ (exNestU ++ encBstr [7]))) := by
    rw [exCsN_sign.2]
    simp [Signature.marshal, hbm, blen, bind, Out.bind]
  obtain ⟨h1, h2, h3, h4⟩ := exNest_model
  obtain ⟨c2, hdec, ha⟩ :=
    countersignature_wire_alg { h := exNest.h } exS7 (.sign1 exPar) none _ rfl rfl
      h1 h2 h3 h4 (by simp [exNest, maxElems]) (by simp [exNest, maxElems])
      exS7_go.1 exS7_go.2 (.inl rfl) exCsN_sign.1 hb
  exact ⟨_, c2, hb, hdec, ha⟩

/-- non-vacuity of 4 (`verify_ok_wire_alg`): the encoding of the signed `exNest` is decoded and
    verified by the ES256 verifier `exV7`; the received protected bytes name ES256 -/
example : ∃ m2 raw content pm,
    Sign1.unmarshal true (0xd2 :: 0x84 :: (exNestP ++ (exNestU ++ [0x43, 1, 2, 3, 0x41, 7])))
      = .ok m2 ∧ m2.h.rawP = some raw ∧ IsBstrEncoding raw content ∧
    decProtectedContent content = .ok pm ∧ algorithmOf pm = .found (-7) := by
  obtain ⟨h1, h2, h3, h4⟩ := exNest_model
  obtain ⟨m2, hdec, hver, -⟩ :=
    sign1_wire_nested true exNest none exS7 exV7 _ exSV7 rfl rfl h1 h2 h3 h4
      (by simp [exNest, maxElems]) (by simp [exNest, maxElems]) (by simp [exNest, blen])
      (by simp [exS7, int64Range]) (by intro t sg h; cases h; simp) exNest_sign.1 exNest_marshal
  obtain ⟨raw, content, pm, hrp, hc, hd, ha⟩ := verify_ok_wire_alg true _ m2 none exV7 hdec hver
  refine ⟨m2, raw, content, pm, hdec, hrp, hc, hd, ?_⟩
  rcases ha with h | ⟨-, hx⟩
  · exact h
  · simp at hx

end Examples

end C04
