/-
  C06 (deep) — no input makes any decoder, or any follow-up operation on a decoded (indeed on
  any) value, reach `Out.panic`.  For all byte strings / values, no bounds.
-/
import CoseProofs.Props.C06
open CoseModel
namespace C06

/-! ### 1. the mutual decoder block -/

/-- the per-element step and the combination step of `decCsigList`, as plain functions -/
def csigOne : Wire → Out GoVal
  | .prim .imm 22 => .ok .csigNil
  | .prim .imm 23 => .ok .csigNil
  | .arr .imm ys => decSigFields ys
  | _ => .err .other

def csigComb : Out GoVal → Out (List GoVal) → Out (List GoVal)
  | .ok a, .ok b => .ok (a :: b)
  | .err e, _ => .err e
  | .ok _, .err e => .err e
  | .panic, _ => .panic
  | _, .panic => .panic
  | _, _ => .unmodelled

/-- unfolding equations of `decCsigList` (the automatic equation generator fails on this one
    definition; the equations hold by definitional unfolding of the structural recursion) -/
theorem decCsigList_nil : decCsigList [] = .ok [] := rfl

private theorem decCsigList_prim_imm : ∀ (n : Nat) (xs : List Wire),
    decCsigList (.prim .imm n :: xs) = csigComb (csigOne (.prim .imm n)) (decCsigList xs)
  | 0, _ => rfl
  | 1, _ => rfl
  | 2, _ => rfl
  | 3, _ => rfl
  | 4, _ => rfl
  | 5, _ => rfl
  | 6, _ => rfl
  | 7, _ => rfl
  | 8, _ => rfl
  | 9, _ => rfl
  | 10, _ => rfl
  | 11, _ => rfl
  | 12, _ => rfl
  | 13, _ => rfl
  | 14, _ => rfl
  | 15, _ => rfl
  | 16, _ => rfl
  | 17, _ => rfl
  | 18, _ => rfl
  | 19, _ => rfl
  | 20, _ => rfl
  | 21, _ => rfl
  | 22, _ => rfl
  | 23, _ => rfl
  | _ + 24, _ => rfl

theorem decCsigList_cons (x : Wire) (xs : List Wire) :
    decCsigList (x :: xs) = csigComb (csigOne x) (decCsigList xs) := by
  cases x with
  | prim hw n => cases hw <;> first | exact decCsigList_prim_imm n xs | rfl
  | arr hw ys => cases hw <;> rfl
  | _ => rfl

theorem csigComb_no_panic {a : Out GoVal} {b : Out (List GoVal)} (ha : a ≠ .panic) (hb : b ≠ .panic) :
    csigComb a b ≠ .panic := by
  cases a <;> cases b <;> simp_all [csigComb]

mutual
theorem decSigFields_no_panic : ∀ (xs : List Wire), decSigFields xs ≠ .panic
  | [] => by simp [decSigFields]
  | [_] => by simp [decSigFields]
  | [_, _] => by simp [decSigFields]
  | _ :: _ :: _ :: _ :: _ => by simp [decSigFields]
  | [p, u, s] => by
    unfold decSigFields
    have h1 := decByteString_no_panic s
    have h2 := decProtected_no_panic p
    have h3 := decUnprot_no_panic u
    cases hs : decByteString s <;> simp_all
    split
    · simp
    · cases hp : decProtected p <;> simp_all
      cases hu : decUnprot u <;> simp_all
      split <;> simp
theorem decUnprot_no_panic : ∀ (w : Wire), decUnprot w ≠ .panic
  | .map _ kvs => by
    unfold decUnprot
    have h1 := labelsOK_no_panic kvs []
    have h2 := decUnprotPairs_no_panic kvs
    cases hl : labelsOK kvs [] <;> simp_all
    split
    · simp
    cases hd : decUnprotPairs kvs <;> simp_all
    split <;> simp
  | .uint .. => by simp [decUnprot]
  | .nint .. => by simp [decUnprot]
  | .bstr .. => by simp [decUnprot]
  | .tstr .. => by simp [decUnprot]
  | .tag .. => by simp [decUnprot]
  | .prim .. => by simp [decUnprot]
  | .arr .. => by simp [decUnprot]
theorem decUnprotPairs_no_panic : ∀ (kvs : List (Wire × Wire)), decUnprotPairs kvs ≠ .panic
  | [] => by simp [decUnprotPairs]
  | (k, v) :: r => by
    unfold decUnprotPairs
    have h1 := decodeAny_no_panic k
    have h2 := decodeAny_no_panic v
    have h3 := decCsigValue_no_panic v
    have h4 := decUnprotPairs_no_panic r
    cases hk : decodeAny k with
    | ok key =>
      simp only []
      have hval : (if isCsigLabel key then decCsigValue v else decodeAny v) ≠ .panic := by
        split <;> assumption
      generalize (if isCsigLabel key then decCsigValue v else decodeAny v) = value at hval
      cases value <;> cases hr : decUnprotPairs r <;> simp_all
    | err e => simp
    | panic => exact absurd hk h1
    | unmodelled => simp
theorem decCsigValue_no_panic : ∀ (w : Wire), decCsigValue w ≠ .panic
  | .arr w xs => by
    unfold decCsigValue
    have h1 := decSigFields_no_panic xs
    have h2 := decCsigList_no_panic xs
    by_cases hw : w = .imm
    · cases hs : decSigFields xs <;> cases hl : decCsigList xs <;> simp_all
    · cases hl : decCsigList xs <;> simp_all
  | .prim hw n => by
    unfold decCsigValue
    split <;> simp_all
  | .uint .. => by simp [decCsigValue]
  | .nint .. => by simp [decCsigValue]
  | .bstr .. => by simp [decCsigValue]
  | .tstr .. => by simp [decCsigValue]
  | .tag .. => by simp [decCsigValue]
  | .map .. => by simp [decCsigValue]
theorem decCsigList_no_panic : ∀ (xs : List Wire), decCsigList xs ≠ .panic
  | [] => by simp [decCsigList_nil]
  | .arr w ys :: xs => by
    rw [decCsigList_cons]
    refine csigComb_no_panic ?_ (decCsigList_no_panic xs)
    cases w <;> simp [csigOne]
    exact decSigFields_no_panic ys
  | .prim hw n :: xs => by
    rw [decCsigList_cons]
    refine csigComb_no_panic ?_ (decCsigList_no_panic xs)
    unfold csigOne; split <;> simp_all
  | .uint .. :: xs => by
    rw [decCsigList_cons]; exact csigComb_no_panic (by simp [csigOne]) (decCsigList_no_panic xs)
  | .nint .. :: xs => by
    rw [decCsigList_cons]; exact csigComb_no_panic (by simp [csigOne]) (decCsigList_no_panic xs)
  | .bstr .. :: xs => by
    rw [decCsigList_cons]; exact csigComb_no_panic (by simp [csigOne]) (decCsigList_no_panic xs)
  | .tstr .. :: xs => by
    rw [decCsigList_cons]; exact csigComb_no_panic (by simp [csigOne]) (decCsigList_no_panic xs)
  | .tag .. :: xs => by
    rw [decCsigList_cons]; exact csigComb_no_panic (by simp [csigOne]) (decCsigList_no_panic xs)
  | .map .. :: xs => by
    rw [decCsigList_cons]; exact csigComb_no_panic (by simp [csigOne]) (decCsigList_no_panic xs)
end

/-! ### 2. header pair and signature list -/

theorem bind_no_panic {α β : Type} {x : Out α} {f : α → Out β} (hx : x ≠ .panic)
    (hf : ∀ a, f a ≠ .panic) : (x >>= f) ≠ .panic := by
  cases x with
  | ok a => simpa using hf a
  | err e => simp
  | panic => exact absurd rfl hx
  | unmodelled => simp

theorem decHeaders_no_panic (p u : Wire) : decHeaders p u ≠ .panic := by
  unfold decHeaders
  refine bind_no_panic (decProtected_no_panic p) fun pm => ?_
  refine bind_no_panic (decUnprot_no_panic u) fun um => ?_
  split <;> simp

theorem decSigList_no_panic : ∀ (xs : List Wire), decSigList xs ≠ .panic
  | [] => by simp [decSigList]
  | x :: xs => by
    unfold decSigList
    have ih := decSigList_no_panic xs
    have h1 : (match x with
               | .arr .imm ys => decSigFields ys
               | _ => Out.err Err.other) ≠ .panic := by
      split
      · exact decSigFields_no_panic _
      · simp
    simp only []
    split
    · split <;> simp
    · simp
    · simp
    · exact absurd (by assumption) h1
    · exact absurd (by assumption) ih
    · simp

/-! ### 3. the decoding entry points -/

theorem sign1_decodeArr_no_panic (b : Bytes) : Sign1.decodeArr b ≠ .panic := by
  unfold Sign1.decodeArr
  split
  · rename_i p u pl sg _
    refine bind_no_panic (decByteString_no_panic pl) fun payload => ?_
    refine bind_no_panic (decByteString_no_panic sg) fun sig => ?_
    split
    · simp
    · refine bind_no_panic (decHeaders_no_panic p u) fun h => ?_
      simp
  · simp

theorem sign1_unmarshal_no_panic (tagged : Bool) (b : Bytes) : Sign1.unmarshal tagged b ≠ .panic := by
  unfold Sign1.unmarshal
  crush
  all_goals first
    | exact sign1_decodeArr_no_panic _
    | simp

theorem signature_unmarshal_no_panic (b : Bytes) : Signature.unmarshal b ≠ .panic := by
  unfold Signature.unmarshal
  split
  · split
    · rename_i xs _
      have h := decSigFields_no_panic xs
      cases hx : decSigFields xs <;> simp_all
      split <;> simp
    · simp
  · simp

theorem sign_unmarshal_no_panic (b : Bytes) : Sign.unmarshal b ≠ .panic := by
  unfold Sign.unmarshal
  split
  · split
    · rename_i p u pl sgs _
      refine bind_no_panic (decByteString_no_panic pl) fun payload => ?_
      refine bind_no_panic (by split <;> simp) fun items => ?_
      split
      · simp
      · refine bind_no_panic (decSigList_no_panic items) fun sigs => ?_
        refine bind_no_panic (decHeaders_no_panic p u) fun h => ?_
        simp
    · simp
  · simp

theorem protected_unmarshal_no_panic (b : Bytes) : Protected.unmarshal b ≠ .panic := by
  unfold Protected.unmarshal
  split
  · exact decProtected_no_panic _
  · simp

theorem unprotected_unmarshal_no_panic (b : Bytes) : Unprotected.unmarshal b ≠ .panic := by
  unfold Unprotected.unmarshal
  crush
  all_goals first
    | exact decUnprot_no_panic _
    | (rename_i hp; exact absurd hp (labelsOK_no_panic _ _))
    | simp

theorem key_ofMap_no_panic (m : GoMap) : Key.ofMap m ≠ .panic := by
  unfold Key.ofMap
  crush
  all_goals simp

theorem key_unmarshal_no_panic (b : Bytes) : Key.unmarshal b ≠ .panic := by
  unfold Key.unmarshal
  split
  · simp
  split
  · simp
  · rename_i kvs _
    have h := decodePairs_no_panic kvs []
    split
    · simp
    cases hd : decodePairs kvs [] <;> simp_all
    exact key_ofMap_no_panic _
  · simp

/-! ### 4. follow-up operations on any value -/

theorem marshalProtected_no_panic (h : Hdrs) : marshalProtected h ≠ .panic := by
  unfold marshalProtected
  crush
  all_goals simp

theorem marshalUnprotected_no_panic (h : Hdrs) : marshalUnprotected h ≠ .panic := by
  unfold marshalUnprotected
  crush
  all_goals simp

theorem hdrs_marshal_no_panic (h : Hdrs) : Hdrs.marshal h ≠ .panic := by
  unfold Hdrs.marshal
  split
  · simp
  · refine bind_no_panic (marshalProtected_no_panic h) fun p => ?_
    refine bind_no_panic (marshalUnprotected_no_panic h) fun u => ?_
    simp

theorem sign1_content_no_panic (m : Sign1Msg) : Sign1.content m ≠ .panic := by
  unfold Sign1.content
  split
  · simp
  · refine bind_no_panic (hdrs_marshal_no_panic m.h) fun pu => ?_
    split; simp

theorem sign1_marshal_no_panic (tagged : Bool) (m : Sign1Msg) : Sign1.marshal tagged m ≠ .panic := by
  unfold Sign1.marshal
  refine bind_no_panic (sign1_content_no_panic m) fun c => ?_
  simp

theorem signature_marshal_no_panic (s : SigV) : Signature.marshal s ≠ .panic := by
  unfold Signature.marshal
  split
  · simp
  · refine bind_no_panic (hdrs_marshal_no_panic s.h) fun pu => ?_
    split; simp

theorem marshalSigs_no_panic : ∀ (l : List SigV), marshalSigs l ≠ .panic
  | [] => by simp [marshalSigs]
  | s :: r => by
    unfold marshalSigs
    refine bind_no_panic (signature_marshal_no_panic s) fun a => ?_
    refine bind_no_panic (marshalSigs_no_panic r) fun b => ?_
    simp

theorem sign_marshal_no_panic (m : SignMsg) : Sign.marshal m ≠ .panic := by
  unfold Sign.marshal
  split
  · simp
  · refine bind_no_panic (hdrs_marshal_no_panic m.h) fun pu => ?_
    split
    refine bind_no_panic (marshalSigs_no_panic m.sigs) fun ss => ?_
    simp

theorem marshalAny_no_panic (v : GoVal) : marshalAny v ≠ .panic := by
  unfold marshalAny
  crush
  all_goals simp

theorem key_marshal_no_panic (k : Key) : Key.marshal k ≠ .panic := by
  unfold Key.marshal
  split
  · simp
  · exact marshalAny_no_panic _

theorem sign1_tbs_no_panic (m : Sign1Msg) (ext : Option Bytes) : Sign1.toBeSigned m ext ≠ .panic := by
  unfold Sign1.toBeSigned
  refine bind_no_panic (marshalProtected_no_panic m.h) fun p => ?_
  refine bind_no_panic (detBstr_no_panic p) fun p' => ?_
  simp

theorem signature_tbs_no_panic (s : SigV) (bprot : Bytes) (payload ext : Option Bytes) :
    Signature.toBeSigned s bprot payload ext ≠ .panic := by
  unfold Signature.toBeSigned
  refine bind_no_panic (detBstr_no_panic bprot) fun bp => ?_
  refine bind_no_panic (marshalProtected_no_panic s.h) fun sp => ?_
  refine bind_no_panic (detBstr_no_panic sp) fun sp' => ?_
  simp

theorem countersign_tbs_no_panic (abbr : Bool) (parent : Parent) (sp : Bytes) (ext : Option Bytes) :
    countersignToBeSigned abbr parent sp ext ≠ .panic := by
  unfold countersignToBeSigned
  simp only []
  split
  · rename_i bodyProtected payload other _
    refine bind_no_panic (detBstr_no_panic bodyProtected) fun bp => ?_
    refine bind_no_panic (detBstr_no_panic sp) fun sp' => ?_
    split <;> simp
  · simp
  · rename_i heq
    exfalso
    revert heq
    split
    · rename_i m
      split
      · simp
      · split
        · simp
        · have := marshalProtected_no_panic m.h
          cases hm : marshalProtected m.h <;> simp_all
          split <;> simp
    · rename_i m
      split
      · simp
      · have := marshalProtected_no_panic m.h
        cases hm : marshalProtected m.h <;> simp_all
        split <;> simp
    · rename_i s
      have := marshalProtected_no_panic s.h
      cases hm : marshalProtected s.h <;> simp_all
      split <;> simp
    · rename_i s
      have := marshalProtected_no_panic s.h
      cases hm : marshalProtected s.h <;> simp_all
      split <;> simp
    · simp
  · simp

theorem countersignature_tbs_no_panic (s : SigV) (parent : Parent) (ext : Option Bytes) :
    Countersignature.toBeSigned s parent ext ≠ .panic := by
  unfold Countersignature.toBeSigned
  refine bind_no_panic (marshalProtected_no_panic s.h) fun sp => ?_
  exact countersign_tbs_no_panic _ _ _ _

theorem ensureVerificationAlgorithm_no_panic (p : GoMap) (alg : Int) (ext : Option Bytes) :
    ensureVerificationAlgorithm p alg ext ≠ .panic := by
  unfold ensureVerificationAlgorithm
  crush
  all_goals simp

theorem ensureSigningAlgorithm_no_panic (rawP : Option Bytes) (p : GoMap) (alg : Int)
    (ext : Option Bytes) : ensureSigningAlgorithm rawP p alg ext ≠ .panic := by
  unfold ensureSigningAlgorithm
  crush
  all_goals simp

theorem sign1_verify_no_panic (m : Sign1Msg) (ext : Option Bytes) (v : Verifier)
    (hv : ∀ t s, v.verify t s ≠ .panic) : (Sign1.verify m ext v).1 ≠ .panic := by
  unfold Sign1.verify
  have h1 := ensureVerificationAlgorithm_no_panic m.h.p v.alg ext
  have h2 := sign1_tbs_no_panic m ext
  split
  · simp
  · split
    · simp
    · cases ha : ensureVerificationAlgorithm m.h.p v.alg ext <;> simp_all
      cases ht : Sign1.toBeSigned m ext <;> simp_all

theorem signature_verify_no_panic (sg : SigV) (v : Verifier) (bprot : Bytes)
    (payload ext : Option Bytes) (hv : ∀ t s, v.verify t s ≠ .panic) :
    (Signature.verify sg v bprot payload ext).1 ≠ .panic := by
  unfold Signature.verify
  have h1 := ensureVerificationAlgorithm_no_panic sg.h.p v.alg ext
  have h2 := signature_tbs_no_panic sg bprot payload ext
  split
  · simp
  · split
    · simp
    · split
      · simp
      · cases ha : ensureVerificationAlgorithm sg.h.p v.alg ext <;> simp_all
        cases ht : Signature.toBeSigned sg bprot payload ext <;> simp_all

theorem verifyLoop_no_panic (bprot : Bytes) (payload ext : Option Bytes) :
    ∀ (sgs : List SigV) (vs : List Verifier), (∀ v ∈ vs, ∀ t s, v.verify t s ≠ .panic) →
      (verifyLoop bprot payload ext sgs vs).1 ≠ .panic
  | [], _, _ => by simp [verifyLoop]
  | _ :: _, [], _ => by simp [verifyLoop]
  | sg :: sgs, v :: vs, hvs => by
    unfold verifyLoop
    have h1 := signature_verify_no_panic sg v bprot payload ext (hvs v (by simp))
    have ih := verifyLoop_no_panic bprot payload ext sgs vs (fun w hw => hvs w (by simp [hw]))
    rcases hsv : Signature.verify sg v bprot payload ext with ⟨o, calls⟩
    rw [hsv] at h1
    cases o <;> simp_all

theorem sign_verify_no_panic (m : SignMsg) (ext : Option Bytes) (vs : List Verifier)
    (hvs : ∀ v ∈ vs, ∀ t s, v.verify t s ≠ .panic) : (Sign.verify m ext vs).1 ≠ .panic := by
  unfold Sign.verify
  have h1 := marshalProtected_no_panic m.h
  split
  · simp
  · split
    · simp
    · split
      · simp
      · cases hm : marshalProtected m.h <;> simp_all
        exact verifyLoop_no_panic _ _ _ _ _ hvs

theorem countersignature_verify_no_panic (cs : SigV) (v : Verifier) (parent : Parent)
    (ext : Option Bytes) (hv : ∀ t s, v.verify t s ≠ .panic) :
    (Countersignature.verify cs v parent ext).1 ≠ .panic := by
  unfold Countersignature.verify
  have h1 := ensureVerificationAlgorithm_no_panic cs.h.p v.alg ext
  have h2 := countersignature_tbs_no_panic cs parent ext
  split
  · simp
  · cases ha : ensureVerificationAlgorithm cs.h.p v.alg ext <;> simp_all
    cases ht : Countersignature.toBeSigned cs parent ext <;> simp_all

theorem verifyCountersign0_no_panic (v : Verifier) (parent : Parent) (ext : Option Bytes)
    (sig : Bytes) (hv : ∀ t s, v.verify t s ≠ .panic) :
    (verifyCountersign0 v parent ext sig).1 ≠ .panic := by
  unfold verifyCountersign0
  have h2 := countersign_tbs_no_panic true parent [0x40] ext
  cases ht : countersignToBeSigned true parent [0x40] ext <;> simp_all

theorem countersignature_sign_no_panic (cs : SigV) (s : Signer) (parent : Parent)
    (ext : Option Bytes) (hs : ∀ t, s.sign t ≠ .panic) :
    (Countersignature.sign cs s parent ext).out ≠ .panic := by
  unfold Countersignature.sign
  have h1 := ensureSigningAlgorithm_no_panic cs.h.rawP cs.h.p s.alg ext
  split
  · simp
  · cases ha : ensureSigningAlgorithm cs.h.rawP cs.h.p s.alg ext with
    | ok p' =>
      simp only []
      have h2 := countersignature_tbs_no_panic { cs with h := { cs.h with p := p' } } parent ext
      cases ht : Countersignature.toBeSigned { cs with h := { cs.h with p := p' } } parent ext with
      | ok tbs =>
        simp only []
        have h3 := hs tbs
        cases hsg : s.sign tbs <;> simp_all
        split <;> simp
      | err e => simp
      | panic => exact absurd ht h2
      | unmodelled => simp
    | err e => simp
    | panic => exact absurd ha h1
    | unmodelled => simp

theorem countersign0_no_panic (s : Signer) (parent : Parent) (ext : Option Bytes)
    (hs : ∀ t, s.sign t ≠ .panic) : (countersign0 s parent ext).1 ≠ .panic := by
  unfold countersign0
  have h2 := countersign_tbs_no_panic true parent [0x40] ext
  cases ht : countersignToBeSigned true parent [0x40] ext with
  | ok tbs =>
    simp only []
    have h3 := hs tbs
    cases hsg : s.sign tbs with
    | ok sig => simp only []; split <;> simp
    | err e => simp
    | panic => exact absurd hsg h3
    | unmodelled => simp
  | err e => simp
  | panic => exact absurd ht h2
  | unmodelled => simp

/-! ### 3 (cont.). VerifyHashEnvelope: decode, validate, verify -/

theorem verifyHashEnvelope_no_panic (v : Verifier) (b : Bytes)
    (hv : ∀ t s, v.verify t s ≠ .panic) : (verifyHashEnvelope v b).1 ≠ .panic := by
  unfold verifyHashEnvelope
  have h1 := sign1_unmarshal_no_panic true b
  cases hm : Sign1.unmarshal true b with
  | ok m =>
    simp only []
    split
    · simp
    · have h2 := sign1_verify_no_panic m none v hv
      rcases hsv : Sign1.verify m none v with ⟨o, calls⟩
      rw [hsv] at h2
      cases o with
      | ok u =>
        simp only []
        crush
        all_goals simp
      | err e => simp
      | panic => exact absurd rfl h2
      | unmodelled => simp
  | err e => simp
  | panic => exact absurd hm h1
  | unmodelled => simp

/-! ### 5. summary: whatever a decoder returned, every follow-up operation is panic-free -/

theorem decode_then_use_no_panic (tagged : Bool) (b : Bytes) (m : Sign1Msg)
    (hd : Sign1.unmarshal tagged b = .ok m)
    (v : Verifier) (hv : ∀ t s, v.verify t s ≠ .panic)
    (s : Signer) (hs : ∀ t, s.sign t ≠ .panic) (ext : Option Bytes) :
    Sign1.marshal tagged m ≠ .panic ∧ (Sign1.verify m ext v).1 ≠ .panic ∧
      (countersign0 s (.sign1 m) ext).1 ≠ .panic ∧
      (Countersignature.sign {} s (.sign1 m) ext).out ≠ .panic := by
  have _ := hd
  exact ⟨sign1_marshal_no_panic tagged m, sign1_verify_no_panic m ext v hv,
    countersign0_no_panic s _ ext hs, countersignature_sign_no_panic {} s _ ext hs⟩

end C06
