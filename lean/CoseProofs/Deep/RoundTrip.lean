/-
  CoseProofs.Deep.RoundTrip — what the library's encoder emits for a header bucket is read back
  by its decoder, for header maps in the "flat" data model (integers, algorithms, curves, text,
  byte strings, booleans, nil; no arrays, maps, floats, countersignatures).
  Core Lean only.
-/
import CoseModel.Messages
import CoseProofs.Lemmas.Parse
import CoseProofs.Lemmas.Sort
import CoseProofs.Deep.Headers
import CoseProofs.Deep.Tbs
open CoseModel

namespace RoundTrip

/-! ### the flat data model -/

def int64Range (n : Int) : Prop := -9223372036854775808 ≤ n ∧ n ≤ 9223372036854775807

instance (n : Int) : Decidable (int64Range n) := by unfold int64Range; exact inferInstance

/-- flat values: integers of any Go integer kind / `Algorithm` / `Curve` whose value lies in the
    int64 range, valid UTF-8 text and byte strings shorter than 2^64, booleans, nil -/
def FlatVal : GoVal → Prop
  | .int _ n => int64Range n
  | .alg n => int64Range n
  | .crv n => int64Range n
  | .str b => utf8Valid b = true ∧ b.length < 18446744073709551616
  | .bytes b => b.length < 18446744073709551616
  | .bool _ => True
  | .nil => True
  | _ => False

/-- a value of an unsigned Go integer kind is not negative (true of every Go program; the model's
    `GoVal.int` does not enforce it) -/
def UintOK : GoVal → Prop
  | .int k n => k.signed = false → 0 ≤ n
  | _ => True

/-- flat labels: integers in the int64 range and valid UTF-8 text -/
def FlatLabel : GoVal → Prop
  | .int _ n => int64Range n
  | .str b => utf8Valid b = true ∧ b.length < 18446744073709551616
  | _ => False

/-- what the generic decoder yields for the encoding of a flat value -/
def normVal : GoVal → GoVal
  | .int _ n => .int .i64 n
  | .alg n => .int .i64 n
  | .crv n => .int .i64 n
  | v => v

def FlatMap (h : GoMap) : Prop := ∀ e ∈ h, FlatLabel e.1 ∧ FlatVal e.2

theorem FlatLabel.flatVal {l : GoVal} (h : FlatLabel l) : FlatVal l := by
  cases l <;> simp only [FlatLabel] at h <;> exact h

/-! ### the wire item of a flat value -/

def intWire (n : Int) : Wire :=
  if n ≥ 0 then .uint (HW.shortest n.toNat) n.toNat
  else .nint (HW.shortest (-1 - n).toNat) (-1 - n).toNat

/-- the item the encoder emits for a flat value (shortest heads) -/
def valWire : GoVal → Wire
  | .int _ n => intWire n
  | .alg n => intWire n
  | .crv n => intWire n
  | .str b => .tstr (HW.shortest b.length) b
  | .bytes b => .bstr (HW.shortest b.length) b
  | .bool b => .prim .imm (if b then 21 else 20)
  | _ => .prim .imm 22

theorem intWire_bytes (n : Int) : (intWire n).bytes = encInt n := by
  unfold intWire encInt encHead
  split <;> rfl

theorem intWire_wf {n : Int} (h : int64Range n) : (intWire n).wf = true := by
  unfold int64Range at h
  unfold intWire
  split
  · simp only [Wire.wf]; exact C02.shortest_fits (by omega)
  · simp only [Wire.wf]; exact C02.shortest_fits (by omega)

theorem intWire_decode {n : Int} (h : int64Range n) : decodeAny (intWire n) = .ok (.int .i64 n) := by
  unfold int64Range at h
  unfold intWire
  split
  · rename_i hn
    have h1 : n.toNat ≤ maxInt64 := by unfold maxInt64; omega
    have h2 : ((n.toNat : Nat) : Int) = n := by omega
    simp only [decodeAny, h1, if_true, h2]
  · rename_i hn
    have h1 : (-1 - n).toNat ≤ maxInt64 := by unfold maxInt64; omega
    have h2 : -1 - (((-1 - n).toNat : Nat) : Int) = n := by omega
    simp only [decodeAny, h1, if_true, h2]

theorem intWire_leaf (n : Int) :
    (∀ t d, (intWire n).inLimits t d = true) ∧ (intWire n).hasTag = false := by
  unfold intWire
  split <;> simp [Wire.inLimits, Wire.hasTag]

theorem valWire_bytes (cfg : EncCfg) {v : GoVal} (hv : FlatVal v) :
    encodeAny cfg v = some (valWire v).bytes := by
  cases v <;> simp only [FlatVal] at hv
  case nil => simp only [encodeAny, valWire, Wire.bytes, headBytes]; rfl
  case int k n => simp only [encodeAny, valWire, intWire_bytes]
  case alg n => simp only [encodeAny, valWire, intWire_bytes]
  case crv n => simp only [encodeAny, valWire, intWire_bytes]
  case str b => simp only [encodeAny, valWire, Wire.bytes, encTstr, encHead]
  case bytes b => simp only [encodeAny, valWire, Wire.bytes, encBstr, encHead]
  case bool b => cases b <;> simp only [encodeAny, valWire, Wire.bytes, headBytes] <;> rfl

theorem valWire_wf {v : GoVal} (hv : FlatVal v) : (valWire v).wf = true := by
  cases v <;> simp only [FlatVal] at hv
  case nil => rfl
  case int k n => exact intWire_wf hv
  case alg n => exact intWire_wf hv
  case crv n => exact intWire_wf hv
  case str b => simp only [valWire, Wire.wf]; exact C02.shortest_fits hv.2
  case bytes b => simp only [valWire, Wire.wf]; exact C02.shortest_fits hv
  case bool b => cases b <;> rfl

theorem valWire_inLimits (v : GoVal) (t : Bool) (d : Nat) : (valWire v).inLimits t d = true := by
  cases v <;> simp [valWire, Wire.inLimits, (intWire_leaf _).1]

theorem valWire_noTag (v : GoVal) : (valWire v).hasTag = false := by
  cases v <;> simp [valWire, Wire.hasTag, (intWire_leaf _).2]

theorem valWire_decode {v : GoVal} (hv : FlatVal v) : decodeAny (valWire v) = .ok (normVal v) := by
  cases v <;> simp only [FlatVal] at hv
  case nil => rfl
  case int k n => exact intWire_decode hv
  case alg n => exact intWire_decode hv
  case crv n => exact intWire_decode hv
  case str b => simp only [valWire, decodeAny, hv.1, if_true, normVal]
  case bytes b => rfl
  case bool b => cases b <;> rfl

end RoundTrip

namespace C08
open RoundTrip

/-- 1. every flat value is encoded as one well-formed leaf item that the generic decoder maps
    back to the normalised value -/
theorem flat_value_roundtrip (cfg : EncCfg) (v : GoVal) (hv : FlatVal v) :
    ∃ w : Wire, encodeAny cfg v = some w.bytes ∧ w.wf = true ∧ (∀ t d, w.inLimits t d = true) ∧
      w.hasTag = false ∧ decodeAny w = .ok (normVal v) :=
  ⟨valWire v, valWire_bytes cfg hv, valWire_wf hv, valWire_inLimits v, valWire_noTag v,
    valWire_decode hv⟩

end C08
