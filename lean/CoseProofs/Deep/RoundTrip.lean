/-
  CoseProofs.Deep.RoundTrip — what the library's encoder emits for a header bucket is read back
  by its decoder, for header maps in the "flat" data model (integers, algorithms, curves, text,
  byte strings, booleans, nil; no arrays, maps, floats, countersignatures).
  Core Lean only.
-/
import CoseModel.Messages
import CoseProofs.Lemmas.Parse
import CoseProofs.Lemmas.TagScan
import CoseProofs.Lemmas.Sort
import CoseProofs.Deep.Headers
import CoseProofs.Deep.Tbs
open CoseModel

namespace RoundTrip

/-! ### the flat data model -/

def int64Range (n : Int) : Prop := -9223372036854775808 ≤ n ∧ n ≤ 9223372036854775807

instance (n : Int) : Decidable (int64Range n) := by unfold int64Range; exact inferInstance

/-- flat values: integers of any Go integer kind / `Algorithm` / `Curve` whose value lies in the
    int64 range, valid UTF-8 text and byte strings shorter than 2^64, booleans, nil -/
def FlatVal : GoVal → Prop
  | .int _ n => int64Range n
  | .alg n => int64Range n
  | .crv n => int64Range n
  | .str b => utf8Valid b = true ∧ b.length < 18446744073709551616
  | .bytes b => b.length < 18446744073709551616
  | .bool _ => True
  | .nil => True
  | _ => False

/-- a value of an unsigned Go integer kind is not negative (true of every Go program; the model's
    `GoVal.int` does not enforce it) -/
def UintOK : GoVal → Prop
  | .int k n => k.signed = false → 0 ≤ n
  | _ => True

/-- flat labels: integers in the int64 range and valid UTF-8 text -/
def FlatLabel : GoVal → Prop
  | .int _ n => int64Range n
  | .str b => utf8Valid b = true ∧ b.length < 18446744073709551616
  | _ => False

/-- what the generic decoder yields for the encoding of a flat value -/
def normVal : GoVal → GoVal
  | .int _ n => .int .i64 n
  | .alg n => .int .i64 n
  | .crv n => .int .i64 n
  | v => v

def FlatMap (h : GoMap) : Prop := ∀ e ∈ h, FlatLabel e.1 ∧ FlatVal e.2

theorem FlatLabel.flatVal {l : GoVal} (h : FlatLabel l) : FlatVal l := by
  cases l <;> simp only [FlatLabel] at h <;> exact h

/-! ### the wire item of a flat value -/

def intWire (n : Int) : Wire :=
  if n ≥ 0 then .uint (HW.shortest n.toNat) n.toNat
  else .nint (HW.shortest (-1 - n).toNat) (-1 - n).toNat

/-- the item the encoder emits for a flat value (shortest heads) -/
def valWire : GoVal → Wire
  | .int _ n => intWire n
  | .alg n => intWire n
  | .crv n => intWire n
  | .str b => .tstr (HW.shortest b.length) b
  | .bytes b => .bstr (HW.shortest b.length) b
  | .bool b => .prim .imm (if b then 21 else 20)
  | _ => .prim .imm 22

theorem intWire_bytes (n : Int) : (intWire n).bytes = encInt n := by
  unfold intWire encInt encHead
  split <;> rfl

theorem intWire_wf {n : Int} (h : int64Range n) : (intWire n).wf = true := by
  unfold int64Range at h
  unfold intWire
  split
  · simp only [Wire.wf]; exact C02.shortest_fits (by omega)
  · simp only [Wire.wf]; exact C02.shortest_fits (by omega)

theorem intWire_decode {n : Int} (h : int64Range n) : decodeAny (intWire n) = .ok (.int .i64 n) := by
  unfold int64Range at h
  unfold intWire
  split
  · rename_i hn
    have h1 : n.toNat ≤ maxInt64 := by unfold maxInt64; omega
    have h2 : ((n.toNat : Nat) : Int) = n := by omega
    simp only [decodeAny, h1, if_true, h2]
  · rename_i hn
    have h1 : (-1 - n).toNat ≤ maxInt64 := by unfold maxInt64; omega
    have h2 : -1 - (((-1 - n).toNat : Nat) : Int) = n := by omega
    simp only [decodeAny, h1, if_true, h2]

theorem intWire_leaf (n : Int) :
    (∀ t d, (intWire n).inLimits t d = true) ∧ (intWire n).hasTag = false := by
  unfold intWire
  split <;> simp [Wire.inLimits, Wire.hasTag]

theorem valWire_bytes (cfg : EncCfg) {v : GoVal} (hv : FlatVal v) :
    encodeAny cfg v = some (valWire v).bytes := by
  cases v <;> simp only [FlatVal] at hv
  case nil => simp only [encodeAny, valWire, Wire.bytes, headBytes]; rfl
  case int k n => simp only [encodeAny, valWire, intWire_bytes]
  case alg n => simp only [encodeAny, valWire, intWire_bytes]
  case crv n => simp only [encodeAny, valWire, intWire_bytes]
  case str b => simp only [encodeAny, valWire, Wire.bytes, encTstr, encHead]
  case bytes b => simp only [encodeAny, valWire, Wire.bytes, encBstr, encHead]
  case bool b => cases b <;> simp only [encodeAny, valWire, Wire.bytes, headBytes] <;> rfl

theorem valWire_wf {v : GoVal} (hv : FlatVal v) : (valWire v).wf = true := by
  cases v <;> simp only [FlatVal] at hv
  case nil => rfl
  case int k n => exact intWire_wf hv
  case alg n => exact intWire_wf hv
  case crv n => exact intWire_wf hv
  case str b => simp only [valWire, Wire.wf]; exact C02.shortest_fits hv.2
  case bytes b => simp only [valWire, Wire.wf]; exact C02.shortest_fits hv
  case bool b => cases b <;> rfl

theorem valWire_inLimits (v : GoVal) (t : Bool) (d : Nat) : (valWire v).inLimits t d = true := by
  cases v <;> simp [valWire, Wire.inLimits, (intWire_leaf _).1]

theorem valWire_noTag (v : GoVal) : (valWire v).hasTag = false := by
  cases v <;> simp [valWire, Wire.hasTag, (intWire_leaf _).2]

theorem valWire_decode {v : GoVal} (hv : FlatVal v) : decodeAny (valWire v) = .ok (normVal v) := by
  cases v <;> simp only [FlatVal] at hv
  case nil => rfl
  case int k n => exact intWire_decode hv
  case alg n => exact intWire_decode hv
  case crv n => exact intWire_decode hv
  case str b => simp only [valWire, decodeAny, hv.1, if_true, normVal]
  case bytes b => rfl
  case bool b => cases b <;> rfl

/-! ### labels -/

theorem wrap64_of_range {n : Int} (h : int64Range n) : wrap64 n = n := by
  unfold int64Range at h
  unfold wrap64
  simp only
  split <;> omega

theorem normalizeLabel_flat {l : GoVal} (hl : FlatLabel l) : normalizeLabel l = some (normVal l) := by
  cases l <;> simp only [FlatLabel] at hl
  case int k n =>
    have hle : n ≤ (maxInt64 : Int) := by
      have := hl; unfold int64Range at this; simp only [maxInt64]; omega
    simp only [normalizeLabel_int_of_le k hle, normVal, wrap64_of_range hl]
  case str b => rfl

theorem normVal_label_normal {l : GoVal} (hl : FlatLabel l) :
    (∃ n, normVal l = .int .i64 n ∧ int64Range n) ∨ (∃ b, normVal l = .str b) := by
  cases l <;> simp only [FlatLabel] at hl
  case int k n => exact Or.inl ⟨n, rfl, hl⟩
  case str b => exact Or.inr ⟨b, rfl⟩

/-- the normal form of a flat label is again a flat label, and is its own normal form -/
theorem flatLabel_normVal {l : GoVal} (hl : FlatLabel l) : FlatLabel (normVal l) := by
  cases l <;> simp only [FlatLabel] at hl
  case int k n => exact hl
  case str b => exact hl

theorem normVal_idem_label {l : GoVal} (hl : FlatLabel l) : normVal (normVal l) = normVal l := by
  cases l <;> simp only [FlatLabel] at hl <;> rfl

theorem normalizeLabel_normVal {l : GoVal} (hl : FlatLabel l) :
    normalizeLabel (normVal l) = normalizeLabel l := by
  rw [normalizeLabel_flat (flatLabel_normVal hl), normalizeLabel_flat hl, normVal_idem_label hl]

/-- one step of `labelsOK` on the wire key of a flat label -/
theorem labelsOK_cons_flat {l : GoVal} (hl : FlatLabel l) (v : Wire) (r : List (Wire × Wire))
    (seen : List GoVal) :
    labelsOK ((valWire l, v) :: r) seen =
      if seen.any (fun e => e.keyEq (normVal l)) then .err .other
      else labelsOK r (normVal l :: seen) := by
  cases l <;> simp only [FlatLabel] at hl
  case int k n =>
    unfold int64Range at hl
    simp only [valWire, intWire, normVal]
    split
    · have h1 : n.toNat ≤ maxInt64 := by unfold maxInt64; omega
      have h2 : ((n.toNat : Nat) : Int) = n := by omega
      simp only [labelsOK, Wire.stripSelfDescribed, h1, if_true, h2]
      rfl
    · have h1 : (-1 - n).toNat ≤ maxInt64 := by unfold maxInt64; omega
      have h2 : -1 - (((-1 - n).toNat : Nat) : Int) = n := by omega
      simp only [labelsOK, Wire.stripSelfDescribed, h1, if_true, h2]
      rfl
  case str b =>
    simp only [valWire, normVal, labelsOK, Wire.stripSelfDescribed, hl.1, if_true]
    rfl

/-! ### entry lists -/

def entryWire (e : GoVal × GoVal) : Wire × Wire := (valWire e.1, valWire e.2)

def wireBytes (p : Wire × Wire) : Bytes × Bytes := (p.1.bytes, p.2.bytes)

/-- the entries of a bucket in the order the encoder emits them: sorted bytewise by encoded key -/
def sortEntries (h : GoMap) : GoMap :=
  h.mergeSort (fun a b => bytesLe (valWire a.1).bytes (valWire b.1).bytes)

/-- the (key item, value item) pairs of the encoded map, in wire order -/
def wirePairs (h : GoMap) : List (Wire × Wire) := (sortEntries h).map entryWire

/-- the map item the encoder emits for a flat map -/
def mapWire (h : GoMap) : Wire := .map (HW.shortest h.length) (wirePairs h)

/-- labels normalised, values as the generic decoder types them -/
def normEntry (e : GoVal × GoVal) : GoVal × GoVal := (normVal e.1, normVal e.2)

theorem sortEntries_perm (h : GoMap) : (sortEntries h).Perm h := List.mergeSort_perm h _

theorem sortEntries_length (h : GoMap) : (sortEntries h).length = h.length :=
  (sortEntries_perm h).length_eq

theorem sortEntries_sorted (h : GoMap) :
    (sortEntries h).Pairwise
      (fun a b => bytesLe (valWire a.1).bytes (valWire b.1).bytes = true) :=
  List.pairwise_mergeSort
    (le := fun (a b : GoVal × GoVal) => bytesLe (valWire a.1).bytes (valWire b.1).bytes)
    (fun _ _ _ h1 h2 => bytesLe_trans h1 h2)
    (fun a b => by
      rcases bytesLe_total (valWire a.1).bytes (valWire b.1).bytes with h | h <;> simp [h]) h

theorem wirePairs_length (h : GoMap) : (wirePairs h).length = h.length := by
  simp [wirePairs, sortEntries_length]

theorem wirePairs_perm (h : GoMap) : (wirePairs h).Perm (h.map entryWire) :=
  (sortEntries_perm h).map entryWire

theorem FlatMap.perm {h h' : GoMap} (hp : h.Perm h') (hf : FlatMap h) : FlatMap h' :=
  fun e he => hf e (hp.mem_iff.mpr he)

theorem FlatMap.sorted {h : GoMap} (hf : FlatMap h) : FlatMap (sortEntries h) :=
  hf.perm (sortEntries_perm h).symm

theorem FlatMap.tail {e : GoVal × GoVal} {r : GoMap} (hf : FlatMap (e :: r)) : FlatMap r :=
  fun x hx => hf x (List.mem_cons_of_mem _ hx)

theorem encodePairs_flat (cfg : EncCfg) {h : GoMap} (hf : FlatMap h) :
    encodePairs cfg h = some (h.map (fun e => wireBytes (entryWire e))) := by
  rw [C08.encodePairs_eq_some_iff, List.map_map]
  apply List.map_congr_left
  intro e he
  obtain ⟨h1, h2⟩ := hf e he
  simp only [C08.encPair, valWire_bytes cfg h1.flatVal, valWire_bytes cfg h2, Function.comp,
    wireBytes, entryWire]

theorem sortPairs_map (h : GoMap) :
    sortPairs (h.map (fun e => wireBytes (entryWire e)))
      = (sortEntries h).map (fun e => wireBytes (entryWire e)) := by
  unfold sortPairs sortEntries
  exact (List.map_mergeSort (r := fun (a b : GoVal × GoVal) => bytesLe (valWire a.1).bytes (valWire b.1).bytes)
    (s := fun (a b : Bytes × Bytes) => bytesLe a.1 b.1) (f := fun e => wireBytes (entryWire e))
    (fun _ _ _ _ => rfl)).symm

theorem concatPairs_wireBytes (l : List (Wire × Wire)) :
    concatPairs (l.map wireBytes) = Wire.bytesPairs l := by
  induction l with
  | nil => rfl
  | cons p r ih =>
    obtain ⟨k, v⟩ := p
    simp only [List.map_cons, wireBytes, concatPairs, Wire.bytesPairs, ih]

theorem concat_sorted (h : GoMap) :
    concatPairs (sortPairs (h.map (fun e => wireBytes (entryWire e)))) = Wire.bytesPairs (wirePairs h) := by
  rw [sortPairs_map, ← concatPairs_wireBytes, wirePairs, List.map_map]
  rfl

theorem wfPairs_flat {g : GoMap} (hf : FlatMap g) : Wire.wfPairs (g.map entryWire) = true := by
  induction g with
  | nil => rfl
  | cons e r ih =>
    obtain ⟨h1, h2⟩ := hf e (List.mem_cons_self ..)
    simp only [List.map_cons, entryWire, Wire.wfPairs, valWire_wf h1.flatVal, valWire_wf h2,
      Bool.and_self, Bool.true_and]
    exact ih hf.tail

theorem inLimitsPairs_flat (g : GoMap) (t : Bool) (d : Nat) :
    Wire.inLimitsPairs t d (g.map entryWire) = true := by
  induction g with
  | nil => rfl
  | cons e r ih =>
    simp only [List.map_cons, entryWire, Wire.inLimitsPairs, valWire_inLimits, Bool.and_self,
      Bool.true_and]
    exact ih

theorem hasTagPairs_flat (g : GoMap) : Wire.hasTagPairs (g.map entryWire) = false := by
  induction g with
  | nil => rfl
  | cons e r ih =>
    simp only [List.map_cons, entryWire, Wire.hasTagPairs, valWire_noTag, Bool.or_self,
      Bool.false_or]
    exact ih

theorem shortest_fits_elems {n : Nat} (h : n ≤ maxElems) : (HW.shortest n).fits n = true :=
  C02.shortest_fits (by unfold maxElems at h; omega)

theorem mapWire_wf {h : GoMap} (hf : FlatMap h) (hlen : h.length ≤ maxElems) :
    (mapWire h).wf = true := by
  simp only [mapWire, Wire.wf, wirePairs_length, shortest_fits_elems hlen, Bool.true_and]
  exact wfPairs_flat hf.sorted

theorem mapWire_inLimits {h : GoMap} (hlen : h.length ≤ maxElems) (t : Bool) (d : Nat)
    (hd : d + 1 ≤ maxNested) : (mapWire h).inLimits t d = true := by
  simp only [mapWire, Wire.inLimits, wirePairs_length, hd, hlen, decide_true, Bool.true_and]
  exact inLimitsPairs_flat _ t (d + 1)

theorem mapWire_noTag (h : GoMap) : (mapWire h).hasTag = false := by
  simp only [mapWire, Wire.hasTag]
  exact hasTagPairs_flat _

theorem mapWire_bytes (h : GoMap) :
    (mapWire h).bytes
      = encHead 5 h.length ++ concatPairs (sortPairs (h.map (fun e => wireBytes (entryWire e)))) := by
  simp only [mapWire, Wire.bytes, wirePairs_length, concat_sorted, encHead]

theorem encodeAny_map_flat (cfg : EncCfg) {h : GoMap} (hf : FlatMap h) :
    encodeAny cfg (.map h) = some (mapWire h).bytes := by
  rw [C08.encodeAny_map, encodePairs_flat cfg hf, mapWire_bytes]

/-- labels of `g` that are pairwise distinct and fresh w.r.t. `seen` pass `labelsOK` -/
theorem labelsOK_flat : ∀ (g : GoMap) (seen : List GoVal), FlatMap g → g.Pairwise LabelDistinct →
    (∀ e ∈ g, seen.any (fun x => x.keyEq (normVal e.1)) = false) →
    labelsOK (g.map entryWire) seen = .ok ()
  | [], _, _, _, _ => rfl
  | e :: r, seen, hf, hp, hs => by
    obtain ⟨h1, _⟩ := hf e (List.mem_cons_self ..)
    rw [List.pairwise_cons] at hp
    rw [List.map_cons, entryWire, labelsOK_cons_flat h1, hs e (List.mem_cons_self ..)]
    simp only [Bool.false_eq_true, if_false]
    apply labelsOK_flat r _ hf.tail hp.2
    intro e' he'
    rw [List.any_cons, hs e' (List.mem_cons_of_mem _ he'), Bool.or_false]
    exact hp.1 e' he' _ _ (normalizeLabel_flat h1)
      (normalizeLabel_flat (hf e' (List.mem_cons_of_mem _ he')).1)

/-- one step of `decodePairs` on the wire entry of a flat entry -/
theorem decodePairs_cons_flat {e : GoVal × GoVal} (h1 : FlatLabel e.1) (h2 : FlatVal e.2)
    (r : List (Wire × Wire)) (acc : GoMap) :
    decodePairs (entryWire e :: r) acc =
      if acc.any (fun x => x.1.keyEq (normVal e.1)) then .err .other
      else decodePairs r (normEntry e :: acc) := by
  simp only [entryWire, decodePairs, valWire_decode h1.flatVal, valWire_decode h2, normEntry]
  rcases normVal_label_normal h1 with ⟨n, hn, _⟩ | ⟨b, hb⟩
  · rw [hn]; simp only [keyHashable, Bool.not_true, Bool.false_eq_true, if_false]
  · rw [hb]; simp only [keyHashable, Bool.not_true, Bool.false_eq_true, if_false]

theorem decodePairs_flat : ∀ (g : GoMap) (acc : GoMap), FlatMap g → g.Pairwise LabelDistinct →
    (∀ e ∈ g, acc.any (fun x => x.1.keyEq (normVal e.1)) = false) →
    decodePairs (g.map entryWire) acc = .ok (acc.reverse ++ g.map normEntry)
  | [], acc, _, _, _ => by simp [decodePairs]
  | e :: r, acc, hf, hp, hs => by
    obtain ⟨h1, h2⟩ := hf e (List.mem_cons_self ..)
    rw [List.pairwise_cons] at hp
    rw [List.map_cons, decodePairs_cons_flat h1 h2, hs e (List.mem_cons_self ..)]
    simp only [Bool.false_eq_true, if_false]
    rw [decodePairs_flat r _ hf.tail hp.2]
    · simp
    · intro e' he'
      rw [List.any_cons, hs e' (List.mem_cons_of_mem _ he'), Bool.or_false]
      exact hp.1 e' he' _ _ (normalizeLabel_flat h1)
        (normalizeLabel_flat (hf e' (List.mem_cons_of_mem _ he')).1)

theorem labelsOK_sorted {h : GoMap} (hok : LabelsOK h) : LabelsOK (sortEntries h) :=
  (labelsOK_perm (sortEntries_perm h).symm).mp hok

/-! ### lookups under `LabelsOK` -/

/-- under `LabelsOK`, `lookupLabel` returns the value of the (unique) entry whose normalised
    label is the normalised form of the label asked for -/
theorem lookupLabel_of_mem {g : GoMap} (hok : LabelsOK g) {e : GoVal × GoVal} (he : e ∈ g)
    {l n : GoVal} (hl : normalizeLabel l = some n) (hn : normalizeLabel e.1 = some n) :
    lookupLabel g l = some e.2 := by
  have hl' : normalizeLabel l ≠ none := by rw [hl]; simp
  unfold lookupLabel
  cases hlk : g.lookup l with
  | some v =>
    simp only
    unfold GoMap.lookup at hlk
    cases hf : g.find? (fun e => e.1.keyEq l) with
    | none => rw [hf] at hlk; cases hlk
    | some e' =>
      rw [hf] at hlk
      have he' := List.mem_of_find?_eq_some hf
      have hk := List.find?_some hf
      have h1 := eq_of_keyEq_of_normalizes' hl' hk
      have h2 : e' = e := entry_eq_of_labelsOK hok he' he (by rw [h1, hl, hn])
      subst h2
      simp only [Option.some.injEq] at hlk
      rw [hlk]
  | none =>
    simp only [hl]
    split
    · rename_i e' hf2
      have he' := List.mem_of_find?_eq_some hf2
      have hp := List.find?_some hf2
      cases hne : normalizeLabel e'.1 with
      | none => simp [hne] at hp
      | some g' =>
        simp only [hne] at hp
        have h1 := (keyEq_normalize_iff hne hl).mp hp
        have h2 : e' = e := entry_eq_of_labelsOK hok he' he (by rw [hne, h1, hn])
        rw [h2]
    · rename_i hf2
      rw [List.find?_eq_none] at hf2
      have h1 := hf2 e he
      simp only [hn] at h1
      exact absurd ((keyEq_normalize_iff hn hl).mpr rfl) h1

theorem lookupLabel_none {g : GoMap} {l n : GoVal} (hl : normalizeLabel l = some n)
    (hno : ∀ e ∈ g, normalizeLabel e.1 ≠ some n) : lookupLabel g l = none := by
  cases hlk : lookupLabel g l with
  | none => rfl
  | some v =>
    have h1 : hasLabel g l = true := by unfold hasLabel; rw [hlk]; rfl
    obtain ⟨e, he, hn⟩ := (C13.hasLabel_norm' g l n hl).mp h1
    exact absurd hn (hno e he)

theorem normalizeLabel_lbl1 : normalizeLabel (lbl 1) = some (lbl 1) :=
  normalizeLabel_flat (l := lbl 1) (by simp [lbl, FlatLabel, int64Range])

/-! ### validation survives the round trip -/

theorem normLabels_normEntry {g : GoMap} (hf : FlatMap g) :
    normLabels (g.map normEntry) = normLabels g := by
  unfold normLabels
  rw [List.map_map]
  apply List.map_congr_left
  intro e he
  exact normalizeLabel_normVal (hf e he).1

theorem labelsOK_normEntry {g : GoMap} (hf : FlatMap g) (hok : LabelsOK g) :
    LabelsOK (g.map normEntry) := by
  rw [labelsOK_iff_normLabels, normLabels_normEntry hf, ← labelsOK_iff_normLabels]
  exact hok

/-- the per-label checks only look at the kind of a flat value, which decoding preserves -/
theorem checkParam_normVal (g : GoMap) (prot : Bool) (l : GoVal) {v : GoVal} (hv : FlatVal v)
    (hu : UintOK v) (h : checkParam g prot l v = true) : checkParam g prot l (normVal v) = true := by
  cases v <;> simp only [FlatVal] at hv <;> try exact h
  case int k n =>
    unfold checkParam at h ⊢
    split at h <;>
      simp_all [normVal, canInt, canUint, canTstr, canBstr, tstrOrUintOK, ensureCritical,
        isCsigValue, UintOK]
    all_goals
      rcases h with h | h
      · exact Or.inr (hu h)
      · exact Or.inr h
  case alg n =>
    unfold checkParam at h ⊢
    split at h <;>
      simp_all [normVal, canInt, canUint, canTstr, canBstr, tstrOrUintOK, ensureCritical,
        isCsigValue]
  case crv n =>
    unfold checkParam at h ⊢
    split at h <;>
      simp_all [canInt, canUint, canTstr, canBstr, tstrOrUintOK, ensureCritical,
        isCsigValue]

theorem validate_normEntry {g : GoMap} (prot : Bool) (hf : FlatMap g) (hu : ∀ e ∈ g, UintOK e.2)
    (hv : validateHeaderParameters g prot = true) :
    validateHeaderParameters (g.map normEntry) prot = true := by
  rw [C13.validate_iff] at hv ⊢
  obtain ⟨hok, hall⟩ := hv
  refine ⟨labelsOK_normEntry hf hok, ?_⟩
  intro e' he'
  obtain ⟨e, he, rfl⟩ := List.mem_map.mp he'
  obtain ⟨l, h1, h2⟩ := hall e he
  refine ⟨l, ?_, ?_⟩
  · simp only [normEntry]; rw [normalizeLabel_normVal (hf e he).1, h1]
  · have hhas : ∀ x, normalizeLabel x ≠ none → hasLabel g x = hasLabel (g.map normEntry) x :=
      fun x hx => C13.hasLabel_congr_norm g _ (normLabels_normEntry hf).symm x x rfl hx
    rw [← C13.checkParam_congr g _ hhas hok.1 (labelsOK_normEntry hf hok).1]
    exact checkParam_normVal g prot l (hf e he).2 (hu e he) h2

/-! ### the alg retyping of the protected-header decoder -/

/-- `castAlg` on the value stored under label 1 -/
def algCast : GoVal → GoVal
  | .int k a => if k.signed then .alg a else .int k a
  | v => v

def castEntry (e : GoVal × GoVal) : GoVal × GoVal :=
  if e.1.keyEq (lbl 1) then (e.1, algCast e.2) else e

/-- the entry the protected-header decoder produces for an entry of a flat bucket: label
    normalised, value as the generic decoder types it, an integer `alg` retyped to `Algorithm` -/
def decEntry (e : GoVal × GoVal) : GoVal × GoVal := castEntry (normEntry e)

/-- on a bucket with normalised, pairwise distinct labels `castAlg` is an entry-wise map -/
theorem castAlg_eq_map {m : GoMap} (hok : LabelsOK m)
    (hn : ∀ e ∈ m, normalizeLabel e.1 = some e.1) : castAlg m = m.map castEntry := by
  have hl1 : normalizeLabel (lbl 1) ≠ none := by rw [normalizeLabel_lbl1]; simp
  have hid : ∀ (f : GoVal × GoVal → GoVal × GoVal), (∀ e ∈ m, f e = e) → m = m.map f := by
    intro f hfe
    conv => lhs; rw [← List.map_id m]
    apply List.map_congr_left
    intro e he
    exact (hfe e he).symm
  by_cases hex : ∃ e0 ∈ m, e0.1 = lbl 1
  · obtain ⟨e0, he0, hk0⟩ := hex
    have hlk : lookupLabel m (lbl 1) = some e0.2 :=
      lookupLabel_of_mem hok he0 normalizeLabel_lbl1 (by rw [hn e0 he0, hk0])
    have huniq : ∀ e ∈ m, e.1.keyEq (lbl 1) = true → e = e0 := by
      intro e he hk
      apply entry_eq_of_labelsOK hok he he0
      rw [eq_of_keyEq_of_normalizes' hl1 hk, hk0]
    have hhas : m.has (lbl 1) = true := by
      unfold GoMap.has GoMap.lookup
      cases hfd : m.find? (fun e => e.1.keyEq (lbl 1)) with
      | some _ => rfl
      | none =>
        rw [List.find?_eq_none] at hfd
        have h1 := hfd e0 he0
        rw [hk0] at h1
        simp [lbl, GoVal.keyEq] at h1
    have H1 : ∀ a, algCast e0.2 = .alg a → m.set (lbl 1) (.alg a) = m.map castEntry := by
      intro a ha
      unfold GoMap.set
      rw [hhas, if_pos rfl]
      apply List.map_congr_left
      intro e he
      unfold castEntry
      by_cases hk : e.1.keyEq (lbl 1) = true
      · have h1 := huniq e he hk
        subst h1
        rw [if_pos hk, if_pos hk, ha]
      · rw [if_neg hk, if_neg hk]
    have H2 : algCast e0.2 = e0.2 → m = m.map castEntry := by
      intro ha
      apply hid
      intro e he
      unfold castEntry
      by_cases hk : e.1.keyEq (lbl 1) = true
      · have h1 := huniq e he hk
        subst h1
        rw [if_pos hk, ha]
      · rw [if_neg hk]
    unfold castAlg algorithmOf
    rw [hlk]
    cases hv : e0.2 with
    | int k a =>
      cases hs : k.signed
      · simp only [hs, Bool.false_eq_true, if_false]
        exact H2 (by rw [hv]; simp [algCast, hs])
      · simp only [hs, if_true]
        exact H1 a (by rw [hv]; simp [algCast, hs])
    | alg a => exact H1 a (by rw [hv]; rfl)
    | _ => exact H2 (by rw [hv]; rfl)
  · have hno : lookupLabel m (lbl 1) = none := by
      apply lookupLabel_none normalizeLabel_lbl1
      intro e he hne
      rw [hn e he] at hne
      exact hex ⟨e, he, Option.some.inj hne⟩
    unfold castAlg algorithmOf
    rw [hno]
    apply hid
    intro e he
    unfold castEntry
    by_cases hk : e.1.keyEq (lbl 1) = true
    · exact absurd ⟨e, he, eq_of_keyEq_of_normalizes' hl1 hk⟩ hex
    · rw [if_neg hk]

theorem normEntry_normal {g : GoMap} (hf : FlatMap g) :
    ∀ e ∈ g.map normEntry, normalizeLabel e.1 = some e.1 := by
  intro e' he'
  obtain ⟨e, he, rfl⟩ := List.mem_map.mp he'
  simp only [normEntry]
  rw [normalizeLabel_flat (flatLabel_normVal (hf e he).1), normVal_idem_label (hf e he).1]

theorem castAlg_normEntry {g : GoMap} (hf : FlatMap g) (hok : LabelsOK g) :
    castAlg (g.map normEntry) = g.map decEntry := by
  rw [castAlg_eq_map (labelsOK_normEntry hf hok) (normEntry_normal hf), List.map_map]
  rfl

/-! ### the protected bucket -/

theorem mapWire_bytes_cons {h : GoMap} (hlen : h.length ≤ maxElems) :
    ∃ b0 rest, (mapWire h).bytes = b0 :: rest ∧ b0.toNat / 32 = 5 := by
  have hb : (mapWire h).bytes
      = headBytes 5 (HW.shortest h.length) h.length ++ Wire.bytesPairs (wirePairs h) := by
    simp only [mapWire, Wire.bytes, wirePairs_length]
  cases hc : (mapWire h).bytes with
  | nil =>
    have h1 := congrArg List.length hb
    rw [hc] at h1
    have h2 := headBytes_length_pos 5 (HW.shortest h.length) h.length
    simp only [List.length_nil, List.length_append] at h1
    omega
  | cons b0 rest =>
    exact ⟨b0, rest, rfl,
      C02.first_major (by omega) (shortest_fits_elems hlen) (hc.symm.trans hb)⟩

theorem decProtectedContent_mapWire {h : GoMap} (hf : FlatMap h) (hok : LabelsOK h)
    (hlen : h.length ≤ maxElems) :
    decProtectedContent (mapWire h).bytes =
      if validateHeaderParameters ((sortEntries h).map normEntry) true = true
      then .ok ((sortEntries h).map decEntry) else .err .other := by
  obtain ⟨b0, rest, hc, hb0⟩ := mapWire_bytes_cons hlen
  have hparse : parseTop true (b0 :: rest) = some (.map (HW.shortest h.length) (wirePairs h)) := by
    rw [← hc]
    exact parseTop_complete (mapWire_wf hf hlen)
      (mapWire_inLimits hlen true 0 (by unfold maxNested; omega))
  have hoks := labelsOK_sorted hok
  have hlab : labelsOK (wirePairs h) [] = .ok () :=
    labelsOK_flat (sortEntries h) [] hf.sorted hoks.2 (by intro e _; rfl)
  have hdec : decodePairs (wirePairs h) [] = .ok ((sortEntries h).map normEntry) := by
    have := decodePairs_flat (sortEntries h) [] hf.sorted hoks.2 (by intro e _; rfl)
    simpa [wirePairs] using this
  have hscan : headerLabelsUntagged (b0 :: rest) = true :=
    ensureUntagged_of_parse_noTag _ hparse (mapWire_noTag h)
  rw [hc]
  simp only [decProtectedContent, hb0, ne_eq, not_true_eq_false, if_false, hparse, hlab, hdec,
    hscan, Bool.not_true, Bool.false_eq_true, Out.bind_ok, castAlg_normEntry hf.sorted hoks]
  cases validateHeaderParameters ((sortEntries h).map normEntry) true <;> rfl

/-- the unprotected case needs `hlen`: `UnprotectedHeader.MarshalCBOR` runs the tags-forbidden
    well-formedness pass on the fresh bytes, and that pass refuses a map of more than `maxElems`
    pairs (a flat map cannot fail it any other way) -/
theorem encodeBucket_flat {h : GoMap} (hf : FlatMap h) (prot : Bool)
    (hv : validateHeaderParameters h prot = true) (hne : h ≠ [])
    (hlen : prot = false → h.length ≤ maxElems) :
    encodeBucket encCfg prot none h
      = some (if prot then encBstr (mapWire h).bytes else (mapWire h).bytes) := by
  cases h with
  | nil => exact absurd rfl hne
  | cons e es =>
    have hv' : encCfg.validate (e :: es) prot = true := hv
    cases prot with
    | true =>
      simp only [encodeBucket, hv', Bool.not_true, Bool.false_eq_true, if_false, if_true,
        encodePairs_flat encCfg hf, mapWire_bytes]
    | false =>
      have hl := hlen rfl
      have hw : wellformedNoTags (mapWire (e :: es)).bytes = true :=
        wellformedNoTags_bytes (mapWire_wf hf hl)
          (mapWire_inLimits hl false 0 (by unfold maxNested; omega))
      rw [mapWire_bytes] at hw
      simp only [encodeBucket, hv', Bool.not_true, Bool.false_eq_true, if_false,
        encodePairs_flat encCfg hf, mapWire_bytes, hw, if_true]

/-! ### splitting a byte-string item into head and content -/

theorem imm_of_fits {w : HW} {n : Nat} (h : w.fits n = true) : w = .imm → n < 24 := by
  intro hw; subst hw; simpa [HW.fits] using h

theorem imm_of_shortest (n : Nat) : HW.shortest n = .imm → n < 24 := by
  rcases HeadersDeep.shortest_cases n with ⟨a, _⟩ | ⟨_, _, e⟩ | ⟨_, _, e⟩ | ⟨_, _, e⟩ | ⟨_, e⟩
  · exact fun _ => a
  all_goals (rw [e]; intro hc; cases hc)

/-- the first byte of a byte-string head determines its width -/
theorem bstr_head_width_inj {w w' : HW} {n n' : Nat} {x y : Bytes}
    (h : headBytes 2 w n ++ x = headBytes 2 w' n' ++ y)
    (hw : w = .imm → n < 24) (hw' : w' = .imm → n' < 24) : w = w' := by
  cases w <;> cases w' <;>
    simp only [headBytes, List.cons_append, List.nil_append, List.cons.injEq,
      HeadersDeep.ofNat_eq_iff, reduceCtorEq, forall_const, false_implies] at h hw hw' <;>
    first | rfl | (exfalso; omega)

theorem bstr_split_inj {w w' : HW} {n n' : Nat} {x y : Bytes}
    (h : headBytes 2 w n ++ x = headBytes 2 w' n' ++ y)
    (hw : w = .imm → n < 24) (hw' : w' = .imm → n' < 24) : w = w' ∧ x = y := by
  have h1 := bstr_head_width_inj h hw hw'
  subst h1
  exact ⟨rfl, (List.append_inj h (by simp only [HeadersDeep.headBytes_length])).2⟩

/-! ### the algorithm of the decoded protected bucket -/

/-- what `Algorithm()` returns on the decoded bucket, read off the bucket that was encoded:
    the integer stored under label 1 whatever Go integer type (or `Algorithm`) spells it -/
def algSpec (h : GoMap) : AlgLookup :=
  match lookupLabel h (lbl 1) with
  | none => .notFound
  | some v =>
    match normVal v with
    | .int _ a => .found a
    | .str _ => .failed .algNotSupported
    | _ => .failed .invalidAlg

theorem castEntry_fst (e : GoVal × GoVal) : (castEntry e).1 = e.1 := by
  unfold castEntry; split <;> rfl

theorem decEntry_fst (e : GoVal × GoVal) : (decEntry e).1 = normVal e.1 := by
  unfold decEntry; rw [castEntry_fst]; rfl

theorem labelsOK_decEntry {g : GoMap} (hf : FlatMap g) (hok : LabelsOK g) :
    LabelsOK (g.map decEntry) := by
  have hn : normLabels (g.map decEntry) = normLabels (g.map normEntry) := by
    unfold normLabels
    rw [List.map_map, List.map_map]
    apply List.map_congr_left
    intro e _
    simp only [Function.comp, decEntry_fst, normEntry]
  rw [labelsOK_iff_normLabels, hn, ← labelsOK_iff_normLabels]
  exact labelsOK_normEntry hf hok

theorem algorithmOf_decEntry {g : GoMap} (hf : FlatMap g) (hok : LabelsOK g) :
    algorithmOf (g.map decEntry) = algSpec g := by
  have hokd := labelsOK_decEntry hf hok
  by_cases hex : ∃ e0 ∈ g, normalizeLabel e0.1 = some (lbl 1)
  · obtain ⟨e0, he0, hn0⟩ := hex
    obtain ⟨hl0, hv0⟩ := hf e0 he0
    have hk0 : normVal e0.1 = lbl 1 := by
      rw [normalizeLabel_flat hl0] at hn0; exact Option.some.inj hn0
    have h1 : lookupLabel g (lbl 1) = some e0.2 :=
      lookupLabel_of_mem hok he0 normalizeLabel_lbl1 hn0
    have hde : decEntry e0 = (lbl 1, algCast (normVal e0.2)) := by
      simp only [decEntry, castEntry, normEntry, hk0]
      rw [if_pos (by simp [lbl, GoVal.keyEq])]
    have h2 : lookupLabel (g.map decEntry) (lbl 1) = some (algCast (normVal e0.2)) := by
      have := lookupLabel_of_mem hokd (List.mem_map_of_mem (f := decEntry) he0)
        normalizeLabel_lbl1 (by rw [hde]; exact normalizeLabel_lbl1)
      rw [this, hde]
    unfold algorithmOf algSpec
    rw [h1, h2]
    cases hv : e0.2 <;> rw [hv] at hv0 <;> simp only [FlatVal] at hv0 <;>
      simp [normVal, algCast, IntKind.signed]
  · have hno : ∀ e ∈ g, normalizeLabel e.1 ≠ some (lbl 1) := fun e he hc => hex ⟨e, he, hc⟩
    have h1 : lookupLabel g (lbl 1) = none := lookupLabel_none normalizeLabel_lbl1 hno
    have h2 : lookupLabel (g.map decEntry) (lbl 1) = none := by
      apply lookupLabel_none normalizeLabel_lbl1
      intro e' he'
      obtain ⟨e, he, rfl⟩ := List.mem_map.mp he'
      rw [decEntry_fst, normalizeLabel_normVal (hf e he).1]
      exact hno e he
    unfold algorithmOf algSpec
    rw [h1, h2]

theorem algSpec_perm {h h' : GoMap} (hp : h.Perm h') (hok : LabelsOK h) : algSpec h = algSpec h' := by
  unfold algSpec
  rw [C13.lookupLabel_perm h h' hp hok]

/-- `algSpec` is `algorithmOf` except where `Algorithm()` refuses the Go type of the stored value
    (an unsigned integer type, or a non-integer non-text value) -/
theorem algSpec_eq_algorithmOf (h : GoMap) (hne : algorithmOf h ≠ .failed .invalidAlg) :
    algSpec h = algorithmOf h := by
  unfold algSpec algorithmOf at *
  cases hl : lookupLabel h (lbl 1) with
  | none => rfl
  | some v =>
    rw [hl] at hne
    cases v <;> simp only [normVal] at hne ⊢ <;> try (exact absurd rfl hne)
    case int k a => cases hs : k.signed <;> simp_all

/-! ### the unprotected bucket -/

theorem isCsigLabel_false_of_check {g : GoMap} {l' l v : GoVal} (hv : FlatVal v)
    (hl : normalizeLabel l' = some l) (h : checkParam g false l v = true) :
    isCsigLabel l' = false := by
  unfold isCsigLabel
  rw [hl]
  split
  · simp only [Option.some.injEq] at *
    rename_i heq
    subst heq
    cases v <;> simp only [FlatVal] at hv <;> simp [checkParam, isCsigValue] at h
  · simp only [Option.some.injEq] at *
    rename_i heq
    subst heq
    cases v <;> simp only [FlatVal] at hv <;> simp [checkParam, isCsigValue] at h
  · rfl

theorem decUnprotPairs_flat : ∀ (g : GoMap), FlatMap g →
    (∀ e ∈ g, isCsigLabel (normVal e.1) = false) →
    decUnprotPairs (g.map entryWire) = .ok (g.map normEntry)
  | [], _, _ => by simp [decUnprotPairs]
  | e :: r, hf, hc => by
    obtain ⟨h1, h2⟩ := hf e (List.mem_cons_self ..)
    have ih := decUnprotPairs_flat r hf.tail (fun x hx => hc x (List.mem_cons_of_mem _ hx))
    rw [List.map_cons, entryWire, decUnprotPairs]
    simp only [valWire_decode h1.flatVal, hc e (List.mem_cons_self ..), Bool.false_eq_true,
      if_false, valWire_decode h2, ih, List.map_cons, normEntry]

/-- `hlen`: the scan for tag 55799 (`headerLabelsUntagged`) is run on the bytes of the map, and
    only a map within the decoder's limits is known to read back as itself -/
theorem decUnprot_mapWire {h : GoMap} (hf : FlatMap h) (hu : ∀ e ∈ h, UintOK e.2)
    (hv : validateHeaderParameters h false = true) (hlen : h.length ≤ maxElems) :
    decUnprot (mapWire h) = .ok ((sortEntries h).map normEntry) := by
  have hok := C13.validate_labels h false hv
  have hoks := labelsOK_sorted hok
  have hp := sortEntries_perm h
  have hvs : validateHeaderParameters (sortEntries h) false = true := by
    rw [C13.validate_perm_invariant _ _ hp]; exact hv
  have hlab : labelsOK (wirePairs h) [] = .ok () :=
    labelsOK_flat (sortEntries h) [] hf.sorted hoks.2 (by intro e _; rfl)
  have hcs : ∀ e ∈ sortEntries h, isCsigLabel (normVal e.1) = false := by
    intro e he
    obtain ⟨l, h1, h2⟩ := ((C13.validate_iff _ _).mp hvs).2 e he
    have hfe := hf.sorted e he
    exact isCsigLabel_false_of_check hfe.2 (by rw [normalizeLabel_normVal hfe.1]; exact h1) h2
  have hdec := decUnprotPairs_flat (sortEntries h) hf.sorted hcs
  have hvn := validate_normEntry false hf.sorted (fun e he => hu e (hp.mem_iff.mp he)) hvs
  have hscan : headerLabelsUntagged (mapWire h).bytes = true :=
    ensureUntagged_bytes_noTag _ (mapWire_wf hf hlen)
      (mapWire_inLimits hlen true 0 (by unfold maxNested; omega)) (mapWire_noTag h)
  unfold wirePairs at hlab
  unfold mapWire wirePairs at hscan
  simp only [mapWire, decUnprot, wirePairs, hlab, hscan, hdec, hvn, if_true, Bool.not_true,
    Bool.false_eq_true, if_false]

theorem mapWire_nil_bytes : (mapWire []).bytes = [0xa0] := by
  simp only [mapWire, wirePairs, sortEntries, List.mergeSort_nil, List.map_nil, Wire.bytes,
    Wire.bytesPairs, List.length_nil, List.append_nil]
  rfl

end RoundTrip

namespace C08
open RoundTrip

/-- 1. every flat value is encoded as one well-formed leaf item that the generic decoder maps
    back to the normalised value -/
theorem flat_value_roundtrip (cfg : EncCfg) (v : GoVal) (hv : FlatVal v) :
    ∃ w : Wire, encodeAny cfg v = some w.bytes ∧ w.wf = true ∧ (∀ t d, w.inLimits t d = true) ∧
      w.hasTag = false ∧ decodeAny w = .ok (normVal v) :=
  ⟨valWire v, valWire_bytes cfg hv, valWire_wf hv, valWire_inLimits v, valWire_noTag v,
    valWire_decode hv⟩


/-- 2. a flat label is encoded as one well-formed leaf item; the generic decoder and
    `normalizeLabel` agree on its normal form, and `labelsOK` accepts the wire key (it only
    checks that the decoded key was not seen before) -/
theorem flat_label_roundtrip (cfg : EncCfg) (l : GoVal) (hl : FlatLabel l) :
    ∃ w : Wire, encodeAny cfg l = some w.bytes ∧ w.wf = true ∧ (∀ t d, w.inLimits t d = true) ∧
      w.hasTag = false ∧ decodeAny w = .ok (normVal l) ∧ normalizeLabel l = some (normVal l) ∧
      ∀ (v : Wire) (r : List (Wire × Wire)) (seen : List GoVal),
        labelsOK ((w, v) :: r) seen =
          if seen.any (fun e => e.keyEq (normVal l)) then .err .other
          else labelsOK r (normVal l :: seen) :=
  ⟨valWire l, valWire_bytes cfg hl.flatVal, valWire_wf hl.flatVal, valWire_inLimits l,
    valWire_noTag l, valWire_decode hl.flatVal, normalizeLabel_flat hl, labelsOK_cons_flat hl⟩

/-- 3. a flat map with pairwise distinct normalised labels: the encoder emits the map item
    `mapWire h` (entries sorted by encoded key), which is well formed, within the parser's limits,
    parsed back by `parseTop`, accepted by `labelsOK`, and decoded by `decodePairs` to the entries
    of `h` — labels normalised, values as the generic decoder types them — in wire order. -/
theorem flat_map_roundtrip (cfg : EncCfg) (h : GoMap) (hf : FlatMap h) (hok : LabelsOK h)
    (hlen : h.length ≤ maxElems) :
    ∃ (ps : List (Bytes × Bytes)) (kvs : List (Wire × Wire)) (m' : GoMap),
      encodePairs cfg h = some ps ∧
      kvs = wirePairs h ∧ kvs.Perm (h.map entryWire) ∧
      kvs.Pairwise (fun a b => bytesLe a.1.bytes b.1.bytes = true) ∧
      concatPairs (sortPairs ps) = Wire.bytesPairs kvs ∧
      (Wire.map (HW.shortest h.length) kvs).wf = true ∧
      (∀ t, (Wire.map (HW.shortest h.length) kvs).inLimits t 0 = true) ∧
      (Wire.map (HW.shortest h.length) kvs).hasTag = false ∧
      encodeAny cfg (.map h) = some (Wire.map (HW.shortest h.length) kvs).bytes ∧
      (∀ t, parseTop t (Wire.map (HW.shortest h.length) kvs).bytes
              = some (Wire.map (HW.shortest h.length) kvs)) ∧
      labelsOK kvs [] = .ok () ∧
      decodePairs kvs [] = .ok m' ∧
      m' = (sortEntries h).map normEntry ∧ m'.Perm (h.map normEntry) ∧
      decodeAny (Wire.map (HW.shortest h.length) kvs) = .ok (.map m') := by
  have hwf := mapWire_wf hf hlen
  have hlim : ∀ t, (mapWire h).inLimits t 0 = true :=
    fun t => mapWire_inLimits hlen t 0 (by unfold maxNested; omega)
  have hoks := labelsOK_sorted hok
  have hdec : decodePairs (wirePairs h) [] = .ok ((sortEntries h).map normEntry) := by
    have := decodePairs_flat (sortEntries h) [] hf.sorted hoks.2 (by intro e _; rfl)
    simpa [wirePairs] using this
  refine ⟨_, wirePairs h, (sortEntries h).map normEntry, encodePairs_flat cfg hf, rfl,
    wirePairs_perm h, ?_, concat_sorted h, hwf, hlim, mapWire_noTag h, encodeAny_map_flat cfg hf,
    fun t => parseTop_complete hwf (hlim t), ?_, hdec, rfl, (sortEntries_perm h).map normEntry, ?_⟩
  · unfold wirePairs
    rw [List.pairwise_map]
    exact sortEntries_sorted h
  · exact labelsOK_flat (sortEntries h) [] hf.sorted hoks.2 (by intro e _; rfl)
  · simp only [decodeAny, hdec]


/-- 4. MAIN (protected bucket): what `MarshalProtected` emits for a flat, validated bucket is a
    byte string with a shortest head whose content `UnmarshalCBOR` of `ProtectedHeader` reads back
    as the same parameters — labels normalised, integer values as `int64`, `alg` retyped to
    `Algorithm` (`decEntry`) — in wire order.
    `hu` (values of unsigned Go integer types are not negative) is needed: see
    `protected_bucket_roundtrip_needs_uintOK`. -/
theorem protected_bucket_roundtrip (h : GoMap) (hf : FlatMap h) (hu : ∀ e ∈ h, UintOK e.2)
    (hv : validateHeaderParameters h true = true) (hlen : h.length ≤ maxElems) (b : Bytes)
    (he : encodeBucket encCfg true none h = some b) :
    ∃ (hw : HW) (content : Bytes) (m : GoMap),
      b = headBytes 2 hw content.length ++ content ∧ hw = HW.shortest content.length ∧
      (h ≠ [] → content = (mapWire h).bytes) ∧
      decProtectedContent content = .ok m ∧
      m = (sortEntries h).map decEntry ∧ m.Perm (h.map decEntry) ∧
      algorithmOf m = algSpec h := by
  have hok := C13.validate_labels h true hv
  have hp := sortEntries_perm h
  by_cases hne : h = []
  · subst hne
    simp only [encodeBucket, if_true, Option.some.injEq] at he
    subst he
    refine ⟨.imm, [], [], by decide, by decide, fun hc => absurd rfl hc, by simp [decProtectedContent],
      by simp [sortEntries], by simp, by simp [algorithmOf, algSpec, lookupLabel, GoMap.lookup, lbl, normalizeLabel]⟩
  · rw [encodeBucket_flat hf true hv hne (fun h => Bool.noConfusion h)] at he
    simp only [if_true, Option.some.injEq] at he
    have hvs : validateHeaderParameters (sortEntries h) true = true := by
      rw [C13.validate_perm_invariant _ _ hp]; exact hv
    have hvn := validate_normEntry true hf.sorted (fun e he => hu e (hp.mem_iff.mp he)) hvs
    refine ⟨HW.shortest (mapWire h).bytes.length, (mapWire h).bytes, (sortEntries h).map decEntry,
      ?_, rfl, fun _ => rfl, ?_, rfl, hp.map decEntry, ?_⟩
    · rw [← he]; rfl
    · rw [decProtectedContent_mapWire hf hok hlen, if_pos hvn]
    · rw [algorithmOf_decEntry hf.sorted (labelsOK_sorted hok), algSpec_perm hp (labelsOK_sorted hok)]

/-- 5. KEY COROLLARY: the algorithm found in the decoded protected bucket is the integer that was
    stored under label 1 of the encoded bucket (`algSpec`).  No `UintOK` hypothesis: that the
    decoder's validation passed is part of `hd`. -/
theorem decoded_alg (h : GoMap) (hne : h ≠ []) (hf : FlatMap h)
    (hv : validateHeaderParameters h true = true) (hlen : h.length ≤ maxElems)
    (b content : Bytes) (hw : HW) (hfit : hw = .imm → content.length < 24)
    (he : encodeBucket encCfg true none h = some b)
    (hb : b = headBytes 2 hw content.length ++ content) (m : GoMap)
    (hd : decProtectedContent content = .ok m) :
    content = (mapWire h).bytes ∧ m = (sortEntries h).map decEntry ∧ m.Perm (h.map decEntry) ∧
      algorithmOf m = algSpec h := by
  have hok := C13.validate_labels h true hv
  have hp := sortEntries_perm h
  rw [encodeBucket_flat hf true hv hne (fun h => Bool.noConfusion h)] at he
  simp only [if_true, Option.some.injEq] at he
  have hc : content = (mapWire h).bytes := by
    have h1 : headBytes 2 (HW.shortest (mapWire h).bytes.length) (mapWire h).bytes.length
        ++ (mapWire h).bytes = headBytes 2 hw content.length ++ content := by
      rw [← hb, ← he]; rfl
    exact (bstr_split_inj h1 (imm_of_shortest _) hfit).2.symm
  subst hc
  rw [decProtectedContent_mapWire hf hok hlen] at hd
  split at hd
  · simp only [Out.ok.injEq] at hd
    subst hd
    refine ⟨rfl, rfl, hp.map decEntry, ?_⟩
    rw [algorithmOf_decEntry hf.sorted (labelsOK_sorted hok), algSpec_perm hp (labelsOK_sorted hok)]
  · cases hd

/-- 5, as asked, under the hypothesis that makes it true: `Algorithm()` on the bucket that was
    encoded does not refuse the Go type of the stored value.  (Without it the statement fails:
    for `h = {1: uint8(5)}` validation and encoding succeed, `algorithmOf h = .failed .invalidAlg`,
    but the decoded bucket is `{1: Algorithm(5)}` with `algorithmOf m = .found 5`.) -/
theorem decoded_alg_eq_partial (h : GoMap) (hne : h ≠ []) (hf : FlatMap h)
    (hv : validateHeaderParameters h true = true) (hlen : h.length ≤ maxElems)
    (b content : Bytes) (hw : HW) (hfit : hw.fits content.length = true)
    (he : encodeBucket encCfg true none h = some b)
    (hb : b = headBytes 2 hw content.length ++ content) (m : GoMap)
    (hd : decProtectedContent content = .ok m)
    (halg : algorithmOf h ≠ .failed .invalidAlg) : algorithmOf m = algorithmOf h := by
  rw [(decoded_alg h hne hf hv hlen b content hw (imm_of_fits hfit) he hb m hd).2.2.2,
    algSpec_eq_algorithmOf h halg]

theorem decoded_alg_found (h : GoMap) (hne : h ≠ []) (hf : FlatMap h)
    (hv : validateHeaderParameters h true = true) (hlen : h.length ≤ maxElems)
    (b content : Bytes) (hw : HW) (hfit : hw.fits content.length = true)
    (he : encodeBucket encCfg true none h = some b)
    (hb : b = headBytes 2 hw content.length ++ content) (m : GoMap)
    (hd : decProtectedContent content = .ok m) (a : Int)
    (halg : algorithmOf h = .found a) : algorithmOf m = .found a := by
  rw [decoded_alg_eq_partial h hne hf hv hlen b content hw hfit he hb m hd (by rw [halg]; simp), halg]

theorem decoded_alg_notFound (h : GoMap) (hne : h ≠ []) (hf : FlatMap h)
    (hv : validateHeaderParameters h true = true) (hlen : h.length ≤ maxElems)
    (b content : Bytes) (hw : HW) (hfit : hw.fits content.length = true)
    (he : encodeBucket encCfg true none h = some b)
    (hb : b = headBytes 2 hw content.length ++ content) (m : GoMap)
    (hd : decProtectedContent content = .ok m)
    (halg : algorithmOf h = .notFound) : algorithmOf m = .notFound := by
  rw [decoded_alg_eq_partial h hne hf hv hlen b content hw hfit he hb m hd (by rw [halg]; simp), halg]

theorem decoded_alg_text (h : GoMap) (hne : h ≠ []) (hf : FlatMap h)
    (hv : validateHeaderParameters h true = true) (hlen : h.length ≤ maxElems)
    (b content : Bytes) (hw : HW) (hfit : hw.fits content.length = true)
    (he : encodeBucket encCfg true none h = some b)
    (hb : b = headBytes 2 hw content.length ++ content) (m : GoMap)
    (hd : decProtectedContent content = .ok m)
    (halg : algorithmOf h = .failed .algNotSupported) : algorithmOf m = .failed .algNotSupported := by
  rw [decoded_alg_eq_partial h hne hf hv hlen b content hw hfit he hb m hd (by rw [halg]; simp), halg]

/-- 6. the unprotected bucket (flat: validation already excludes the countersignature labels 7
    and 11, whose values are not flat): `MarshalUnprotected` emits the map item `mapWire h`, which
    `UnmarshalCBOR` of `UnprotectedHeader` reads back as the same parameters, labels normalised,
    values as the generic decoder types them, in wire order. -/
theorem unprotected_bucket_roundtrip (h : GoMap) (hf : FlatMap h) (hu : ∀ e ∈ h, UintOK e.2)
    (hv : validateHeaderParameters h false = true) (hlen : h.length ≤ maxElems) (b : Bytes)
    (he : encodeBucket encCfg false none h = some b) :
    ∃ (w : Wire) (m : GoMap), b = w.bytes ∧ w = mapWire h ∧ (∀ t, parseTop t b = some w) ∧
      w.hasTag = false ∧ decUnprot w = .ok m ∧
      m = (sortEntries h).map normEntry ∧ m.Perm (h.map normEntry) := by
  have hb : b = (mapWire h).bytes := by
    by_cases hne : h = []
    · subst hne
      simp only [encodeBucket, Bool.false_eq_true, if_false, Option.some.injEq] at he
      rw [mapWire_nil_bytes, ← he]
    · rw [encodeBucket_flat hf false hv hne (fun _ => hlen)] at he
      simpa using he.symm
  subst hb
  exact ⟨mapWire h, _, rfl, rfl,
    fun t => parseTop_complete (mapWire_wf hf hlen)
      (mapWire_inLimits hlen t 0 (by unfold maxNested; omega)),
    mapWire_noTag h, decUnprot_mapWire hf hu hv hlen, rfl, (sortEntries_perm h).map normEntry⟩


/-- 4, on the wire item: the bytes `MarshalProtected` returns parse (in either decode mode) to a
    byte-string item that `ProtectedHeader.UnmarshalCBOR` accepts.  `hb64`: the encoding is
    shorter than 2^64 bytes (true of every Go slice). -/
theorem protected_bucket_wire_roundtrip (h : GoMap) (hf : FlatMap h) (hu : ∀ e ∈ h, UintOK e.2)
    (hv : validateHeaderParameters h true = true) (hlen : h.length ≤ maxElems) (b : Bytes)
    (he : encodeBucket encCfg true none h = some b) (hb64 : b.length < 18446744073709551616) :
    ∃ (w : Wire) (m : GoMap), b = w.bytes ∧ (∀ t, parseTop t b = some w) ∧ w.hasTag = false ∧
      decProtected w = .ok m ∧ m = (sortEntries h).map decEntry ∧ m.Perm (h.map decEntry) ∧
      algorithmOf m = algSpec h := by
  obtain ⟨hw, content, m, hb, hhw, -, hd, hm, hp, ha⟩ :=
    protected_bucket_roundtrip h hf hu hv hlen b he
  have hfit : hw.fits content.length = true := by
    rw [hhw]
    apply C02.shortest_fits
    have := congrArg List.length hb
    simp only [List.length_append] at this
    omega
  refine ⟨.bstr hw content, m, by rw [hb]; rfl, ?_, rfl, hd, hm, hp, ha⟩
  intro t
  rw [hb]
  exact parseTop_complete (w := .bstr hw content) hfit rfl

/-- every parameter of the encoded bucket is found again, under any spelling of its label, in
    the decoded protected bucket -/
theorem protected_lookup_roundtrip (h : GoMap) (hf : FlatMap h)
    (hv : validateHeaderParameters h true = true) (e : GoVal × GoVal) (he : e ∈ h) (l : GoVal)
    (hl : normalizeLabel l = normalizeLabel e.1) :
    lookupLabel h l = some e.2 ∧
      lookupLabel ((sortEntries h).map decEntry) l = some (decEntry e).2 := by
  have hok := C13.validate_labels h true hv
  have hn := normalizeLabel_flat (hf e he).1
  refine ⟨lookupLabel_of_mem hok he (hl.trans hn) hn, ?_⟩
  have hes : e ∈ sortEntries h := (sortEntries_perm h).mem_iff.mpr he
  exact lookupLabel_of_mem (labelsOK_decEntry hf.sorted (labelsOK_sorted hok))
    (List.mem_map_of_mem (f := decEntry) hes) (hl.trans hn)
    (by rw [decEntry_fst, normalizeLabel_normVal (hf e he).1, hn])

/-- a label absent from the encoded bucket is absent from the decoded one -/
theorem protected_lookup_absent (h : GoMap) (hf : FlatMap h) (l n : GoVal)
    (hl : normalizeLabel l = some n) (hno : ∀ e ∈ h, normalizeLabel e.1 ≠ some n) :
    lookupLabel h l = none ∧ lookupLabel ((sortEntries h).map decEntry) l = none := by
  refine ⟨lookupLabel_none hl hno, lookupLabel_none hl ?_⟩
  intro e' he'
  obtain ⟨e, he, rfl⟩ := List.mem_map.mp he'
  have heh : e ∈ h := (sortEntries_perm h).mem_iff.mp he
  rw [decEntry_fst, normalizeLabel_normVal (hf e heh).1]
  exact hno e heh

/-- the same for the unprotected bucket -/
theorem unprotected_lookup_roundtrip (h : GoMap) (hf : FlatMap h)
    (hv : validateHeaderParameters h false = true) (e : GoVal × GoVal) (he : e ∈ h) (l : GoVal)
    (hl : normalizeLabel l = normalizeLabel e.1) :
    lookupLabel h l = some e.2 ∧
      lookupLabel ((sortEntries h).map normEntry) l = some (normVal e.2) := by
  have hok := C13.validate_labels h false hv
  have hn := normalizeLabel_flat (hf e he).1
  refine ⟨lookupLabel_of_mem hok he (hl.trans hn) hn, ?_⟩
  have hes : e ∈ sortEntries h := (sortEntries_perm h).mem_iff.mpr he
  exact lookupLabel_of_mem (labelsOK_normEntry hf.sorted (labelsOK_sorted hok))
    (List.mem_map_of_mem (f := normEntry) hes) (hl.trans hn)
    (by simp only [normEntry]; rw [normalizeLabel_normVal (hf e he).1, hn])

/-- the entries of the decoded protected bucket, spelt out -/
theorem decEntry_alg {e : GoVal × GoVal} (hk : normVal e.1 = lbl 1) {a : Int}
    (hv : normVal e.2 = .int .i64 a) : decEntry e = (lbl 1, .alg a) := by
  simp only [decEntry, castEntry, normEntry, hk, hv]
  rw [if_pos (by simp [lbl, GoVal.keyEq])]
  rfl

theorem decEntry_other {e : GoVal × GoVal} (hk : normVal e.1 ≠ lbl 1) :
    decEntry e = (normVal e.1, normVal e.2) := by
  have hne : (normVal e.1).keyEq (lbl 1) = false := by
    cases hc : (normVal e.1).keyEq (lbl 1) with
    | false => rfl
    | true =>
      exact absurd (eq_of_keyEq_of_normalizes' (by rw [normalizeLabel_lbl1]; simp) hc) hk
  simp only [decEntry, castEntry, normEntry, hne, Bool.false_eq_true, if_false]

/-! ### the encoder's own well-formedness gate (headers.go:256) -/

/-- 9. `UnprotectedHeader.MarshalCBOR` runs `decModeWithTagsForbidden.Wellformed` on the bytes it
    has just produced.  Hence every unprotected bucket that is encoded FROM THE MAP (no retained
    raw bytes: `raw` is `none` or empty) passes that pass — whatever the map holds and whatever the
    validation hooks are.  Retained raw bytes are returned verbatim and are not re-checked
    (`retained_unprotected_bucket_verbatim`). -/
theorem fresh_unprotected_bucket_wellformed (cfg : EncCfg) (raw : Option Bytes) (u : GoMap)
    (hraw : ∀ x xs, raw ≠ some (x :: xs)) (b : Bytes)
    (he : encodeBucket cfg false raw u = some b) : wellformedNoTags b = true := by
  have key : ∀ r : Option Bytes, (∀ x xs, r ≠ some (x :: xs)) →
      encodeBucket cfg false r u = some b → wellformedNoTags b = true := by
    intro r hr he
    cases u with
    | nil =>
      have hb : b = [0xa0] := by
        rcases r with _ | (_ | ⟨x, xs⟩)
        · simpa [encodeBucket] using he.symm
        · simpa [encodeBucket] using he.symm
        · exact absurd rfl (hr x xs)
      subst hb
      simp [wellformedNoTags, parseTop, fuelFor, parseItem, parsePairs, parseHead, maxNested]
    | cons e es =>
      have fin : ∀ {o : Option (List (Bytes × Bytes))},
          (if !cfg.validate (e :: es) false then none else
            match o with
            | some ps =>
                if wellformedNoTags (encHead 5 (e :: es).length ++ concatPairs (sortPairs ps))
                  then some (encHead 5 (e :: es).length ++ concatPairs (sortPairs ps)) else none
            | none => none) = some b → wellformedNoTags b = true := by
        intro o h
        split at h
        · cases h
        · split at h
          · split at h
            · rename_i hw
              cases h
              exact hw
            · cases h
          · cases h
      rcases r with _ | (_ | ⟨x, xs⟩)
      · simp only [encodeBucket, Bool.false_eq_true, if_false] at he
        exact fin he
      · simp only [encodeBucket, Bool.false_eq_true, if_false] at he
        exact fin he
      · exact absurd rfl (hr x xs)
  exact key raw hraw he

/-- the retained-raw path is untouched by the gate: non-empty retained bytes are returned as they
    are, in either bucket -/
theorem retained_unprotected_bucket_verbatim (cfg : EncCfg) (prot : Bool) (x : UInt8) (xs : Bytes)
    (u : GoMap) : encodeBucket cfg prot (some (x :: xs)) u = some (x :: xs) := by
  rw [encodeBucket]

/-- 9, at the level of `Headers.MarshalUnprotected`: with nothing retained, what it returns is
    the encoding of exactly one well-formed, tag-free item within the decoder's nesting and size
    limits — the bytes are accepted by the well-formedness pass of every decoder of the library
    that will meet them at top level. -/
theorem marshalUnprotected_fresh_wellformed (h : Hdrs) (hraw : ∀ x xs, h.rawU ≠ some (x :: xs))
    (b : Bytes) (hm : marshalUnprotected h = .ok b) :
    wellformedNoTags b = true ∧
    ∃ w, parseTop false b = some w ∧ b = w.bytes ∧ w.wf = true ∧ w.inLimits false 0 = true ∧
      w.hasTag = false := by
  have he : encodeBucket encCfg false h.rawU h.u = some b := by
    unfold marshalUnprotected at hm
    split at hm
    · cases hm
    · split at hm
      · rename_i b' hb
        cases hm
        exact hb
      · cases hm
  have hw := fresh_unprotected_bucket_wellformed encCfg h.rawU h.u hraw b he
  obtain ⟨w, hp⟩ := wellformedNoTags_iff.mp hw
  obtain ⟨h1, h2, h3⟩ := parseTop_sound hp
  exact ⟨hw, w, hp, h1, h2, h3, parseTop_noTag hp⟩

/-- 9, the simple-value face of the gate: the encoder writes `SimpleValue(24..31)` as `f8 xx`,
    which no decoder accepts; in the unprotected bucket it is now refused at encoding time (the
    protected bucket has no such gate and still emits it). -/
theorem unprotected_reserved_simple_refused :
    marshalUnprotected { u := [(lbl 99, .simple 25)] } = .err .other ∧
    marshalProtected { p := [(lbl 99, .simple 25)] } = .ok [0x45, 0xa1, 0x18, 0x63, 0xf8, 0x19] ∧
    marshalUnprotected { u := [(lbl 99, .simple 32)] } = .ok [0xa1, 0x18, 0x63, 0xf8, 0x20] := by
  refine ⟨?_, ?_, ?_⟩
  · simp [marshalUnprotected, GoVal.modelledPairs, GoVal.modelled, encodeBucket, encCfg,
      validateHeaderParameters, validateLoop, normalizeLabel, wrap64, checkParam, lbl, encodePairs,
      encodeAny, encInt, encHead, HW.shortest, headBytes, sortPairs, concatPairs,
      wellformedNoTags, parseTop, fuelFor, parseItem, parsePairs, parseHead, maxNested, maxElems]
  · simp [marshalProtected, GoVal.modelledPairs, GoVal.modelled, encodeBucket, encCfg,
      validateHeaderParameters, validateLoop, normalizeLabel, wrap64, checkParam, lbl, encodePairs,
      encodeAny, encInt, encHead, encBstr, HW.shortest, headBytes, sortPairs, concatPairs]
  · simp [marshalUnprotected, GoVal.modelledPairs, GoVal.modelled, encodeBucket, encCfg,
      validateHeaderParameters, validateLoop, normalizeLabel, wrap64, checkParam, lbl, encodePairs,
      encodeAny, encInt, encHead, HW.shortest, headBytes, sortPairs, concatPairs,
      wellformedNoTags, parseTop, fuelFor, parseItem, parsePairs, parseHead, maxNested, maxElems]

/-! ### why the extra hypotheses are needed -/

/-- `hu` in 4 and 6 cannot be dropped: the model's `GoVal.int` admits a "negative `uint8`"
    (no Go program has one); content type (label 3) accepts any unsigned Go type on the way out,
    but the decoder types the integer as `int64` and then rejects the negative value. -/
theorem protected_bucket_roundtrip_needs_uintOK :
    FlatMap [(lbl 3, .int .u8 (-5))] ∧
    validateHeaderParameters [(lbl 3, .int .u8 (-5))] true = true ∧
    encodeBucket encCfg true none [(lbl 3, .int .u8 (-5))] = some [0x43, 0xa1, 0x03, 0x24] ∧
    decProtectedContent [0xa1, 0x03, 0x24] = .err .other := by
  refine ⟨?_, ?_, ?_, ?_⟩
  · intro e he
    simp only [List.mem_singleton] at he
    subst he
    simp [lbl, FlatLabel, FlatVal, int64Range]
  · simp [validateHeaderParameters, validateLoop, normalizeLabel, wrap64, checkParam, lbl,
      tstrOrUintOK, canUint, IntKind.signed]
  · simp [encodeBucket, encCfg, validateHeaderParameters, validateLoop, normalizeLabel, wrap64,
      checkParam, lbl, tstrOrUintOK, canUint, IntKind.signed, encodePairs, encodeAny, encInt,
      encHead, encBstr, HW.shortest, headBytes, sortPairs, concatPairs]
  · simp [decProtectedContent, parseTop, parseItem, parsePairs, fuelFor, parseHead,
      maxNested, maxElems, labelsOK, maxInt64, GoVal.keyEq, decodePairs, decodeAny, keyHashable,
      validateHeaderParameters, validateLoop, normalizeLabel, wrap64, checkParam,
      bind, Out.bind, tstrOrUintOK, canUint, IntKind.signed, Wire.stripSelfDescribed,
      (by decide : headerLabelsUntagged [0xa1, 0x03, 0x24] = true)]

/-- 5 as literally asked (`algorithmOf m = algorithmOf h`) fails when `alg` is spelt with an
    unsigned Go integer type: `Algorithm()` refuses that type on the bucket that was encoded, but
    the decoder retypes the value to `Algorithm`. -/
theorem decoded_alg_eq_counterexample :
    FlatMap [(lbl 1, .int .u8 5)] ∧ (∀ e ∈ ([(lbl 1, .int .u8 5)] : GoMap), UintOK e.2) ∧
    validateHeaderParameters [(lbl 1, .int .u8 5)] true = true ∧
    encodeBucket encCfg true none [(lbl 1, .int .u8 5)] = some [0x43, 0xa1, 0x01, 0x05] ∧
    decProtectedContent [0xa1, 0x01, 0x05] = .ok [(lbl 1, .alg 5)] ∧
    algorithmOf [(lbl 1, .int .u8 5)] = .failed .invalidAlg ∧
    algorithmOf [(lbl 1, .alg 5)] = .found 5 := by
  refine ⟨?_, ?_, ?_, ?_, ?_, ?_, ?_⟩
  · intro e he
    simp only [List.mem_singleton] at he
    subst he
    simp [lbl, FlatLabel, FlatVal, int64Range]
  · intro e he
    simp only [List.mem_singleton] at he
    subst he
    simp [UintOK]
  · simp [validateHeaderParameters, validateLoop, normalizeLabel, wrap64, checkParam, lbl,
      canInt]
  · simp [encodeBucket, encCfg, validateHeaderParameters, validateLoop, normalizeLabel, wrap64,
      checkParam, lbl, canInt, encodePairs, encodeAny, encInt,
      encHead, encBstr, HW.shortest, headBytes, sortPairs, concatPairs]
  · simp [decProtectedContent, parseTop, parseItem, parsePairs, fuelFor, parseHead,
      maxNested, maxElems, labelsOK, maxInt64, GoVal.keyEq, decodePairs, decodeAny, keyHashable,
      validateHeaderParameters, validateLoop, normalizeLabel, wrap64, checkParam, castAlg, algorithmOf,
      lookupLabel, GoMap.lookup, lbl, GoMap.set, GoMap.has, bind, Out.bind, canInt, canTstr,
      IntKind.signed, Wire.stripSelfDescribed,
      (by decide : headerLabelsUntagged [0xa1, 0x01, 0x05] = true)]
  · simp [algorithmOf, lookupLabel, GoMap.lookup, lbl, GoVal.keyEq, IntKind.signed]
  · simp [algorithmOf, lookupLabel, GoMap.lookup, lbl, GoVal.keyEq]

/-- the decomposition hypothesis of 5 needs a fitting head width: with `hw = .imm` and a
    279-byte map the same bytes split as "head `59`, 281 bytes of content" -/
theorem bstr_split_needs_fit (m : Bytes) (hm : m.length = 279) :
    headBytes 2 (HW.shortest m.length) m.length ++ m
      = headBytes 2 .imm (0x01 :: 0x17 :: m).length ++ (0x01 :: 0x17 :: m) := by
  simp [hm, HW.shortest, headBytes]

end C08
