import CoseSpec
import CoseModel.Messages
import CoseProofs.Lemmas.Parse
open CoseModel CoseSpec

namespace C02

theorem encHead_eq_detHead (m n : Nat) : encHead m n = detHead m n := rfl

theorem encBstr_eq_detEnc (b : Bytes) : encBstr b = detEnc (.bstr b) := by
  simp [encBstr, detEnc, encHead, detHead]

theorem encTstr_eq_detEnc (b : Bytes) : encTstr b = detEnc (.tstr b) := by
  simp [encTstr, detEnc, encHead, detHead]

theorem parseTop_bstr (w : HW) (c : Bytes) (hf : w.fits c.length = true) :
    parseTop false (headBytes 2 w c.length ++ c) = some (.bstr w c) := by
  have := parseTop_complete (t := false) (w := .bstr w c) (by simpa [Wire.wf] using hf)
    (by simp [Wire.inLimits])
  simpa [Wire.bytes] using this

theorem shortest_imm {n : Nat} (h : n < 24) : HW.shortest n = .imm := by
  unfold HW.shortest; rw [if_pos h]
theorem shortest_w1 {n : Nat} (h1 : 24 ≤ n) (h2 : n < 256) : HW.shortest n = .w1 := by
  unfold HW.shortest; rw [if_neg (by omega), if_pos h2]
theorem shortest_w2 {n : Nat} (h1 : 256 ≤ n) (h2 : n < 65536) : HW.shortest n = .w2 := by
  unfold HW.shortest; rw [if_neg (by omega), if_neg (by omega), if_pos h2]
theorem shortest_w4 {n : Nat} (h1 : 65536 ≤ n) (h2 : n < 4294967296) : HW.shortest n = .w4 := by
  unfold HW.shortest; rw [if_neg (by omega), if_neg (by omega), if_neg (by omega), if_pos h2]
theorem shortest_w8 {n : Nat} (h1 : 4294967296 ≤ n) : HW.shortest n = .w8 := by
  unfold HW.shortest; rw [if_neg (by omega), if_neg (by omega), if_neg (by omega), if_neg (by omega)]

theorem detBstr_spec (raw content : Bytes) (h : IsBstrEncoding raw content)
    (hlen : content.length < 18446744073709551616) :
    detBstr raw = .ok (detEnc (.bstr content)) := by
  obtain ⟨w, hf, rfl⟩ := h
  have hp := parseTop_bstr w content hf
  rw [← encBstr_eq_detEnc]
  cases w <;> simp only [HW.fits, decide_eq_true_eq] at hf
  · -- imm
    simp only [headBytes, List.cons_append, List.nil_append] at hp ⊢
    simp only [detBstr, hp, UInt8.toNat_ofNat', Nat.reducePow]
    have h1 : (2 * 32 + content.length) % 256 / 32 = 2 := by omega
    have h2 : (2 * 32 + content.length) % 256 % 32 < 24 := by omega
    have hs : HW.shortest content.length = .imm := by simp [HW.shortest, hf]
    simp [h1, encBstr, encHead, hs, headBytes]
  · -- w1
    simp only [headBytes, List.cons_append, List.nil_append] at hp ⊢
    simp only [detBstr, hp, UInt8.toNat_ofNat', Nat.reducePow]
    by_cases hc : content.length ≥ 24
    · have hs := shortest_w1 hc hf
      have h3 : content.length % 256 ≥ 24 := by omega
      simp [h3, encBstr, encHead, hs, headBytes]
    · have h3 : ¬ content.length % 256 ≥ 24 := by omega
      simp [h3]
  · -- w2
    simp only [headBytes, List.cons_append, List.nil_append] at hp ⊢
    simp only [detBstr, hp, UInt8.toNat_ofNat', Nat.reducePow]
    by_cases hc : content.length ≥ 256
    · have hs := shortest_w2 hc hf
      have h3 : content.length / 256 % 256 ≠ 0 := by omega
      simp [h3, encBstr, encHead, hs, headBytes]
    · have h3 : content.length / 256 % 256 = 0 := by omega
      simp [h3]
  · -- w4
    simp only [headBytes, List.cons_append, List.nil_append] at hp ⊢
    simp only [detBstr, hp, UInt8.toNat_ofNat', Nat.reducePow]
    by_cases hc : content.length ≥ 65536
    · have hs := shortest_w4 hc hf
      have h3 : content.length / 16777216 % 256 ≠ 0 ∨ content.length / 65536 % 256 % 256 ≠ 0 := by
        omega
      have h4 : (decide (content.length / 16777216 % 256 ≠ 0) ||
                decide (content.length / 65536 % 256 % 256 ≠ 0)) = true := by
        simpa using h3
      simp only [h4]
      simp [encBstr, encHead, hs, headBytes]
    · have h3 : content.length / 16777216 % 256 = 0 := by omega
      have h4 : content.length / 65536 % 256 % 256 = 0 := by omega
      simp [h3, h4]
  · -- w8
    simp only [headBytes, List.cons_append, List.nil_append] at hp ⊢
    simp only [detBstr, hp, UInt8.toNat_ofNat', Nat.reducePow]
    by_cases hc : content.length ≥ 4294967296
    · have hs := shortest_w8 hc
      have h3 : content.length / 72057594037927936 % 256 ≠ 0 ∨
          content.length / 281474976710656 % 256 % 256 ≠ 0 ∨
          content.length / 1099511627776 % 256 % 256 ≠ 0 ∨
          content.length / 4294967296 % 256 % 256 ≠ 0 := by
        omega
      have h4 : (decide (content.length / 72057594037927936 % 256 ≠ 0) ||
          decide (content.length / 281474976710656 % 256 % 256 ≠ 0) ||
          decide (content.length / 1099511627776 % 256 % 256 ≠ 0) ||
          decide (content.length / 4294967296 % 256 % 256 ≠ 0)) = true := by
        simpa [or_assoc] using h3
      simp only [h4]
      simp [encBstr, encHead, hs, headBytes]
    · have h3 : content.length / 72057594037927936 % 256 = 0 := by omega
      have h4 : content.length / 281474976710656 % 256 % 256 = 0 := by omega
      have h5 : content.length / 1099511627776 % 256 % 256 = 0 := by omega
      have h6 : content.length / 4294967296 % 256 % 256 = 0 := by omega
      simp [h3, h4, h5, h6]

/-- the Sig_structure for COSE_Sign1, spelt with the model's encoder functions -/
theorem detEnc_sigStructure1 (c e p : Bytes) :
    detEnc (sigStructure1 c e p) =
      encHead 4 4 ++ (encTstr ctxSignature1 ++ (encBstr c ++ (encBstr e ++ encBstr p))) := by
  simp [sigStructure1, detEnc, detEncList, encBstr_eq_detEnc, encTstr_eq_detEnc, encHead_eq_detHead,
    ctxSignature1, utf8]

theorem detEnc_sigStructure (c s e p : Bytes) :
    detEnc (sigStructure c s e p) =
      encHead 4 5 ++ (encTstr ctxSignature ++ (encBstr c ++ (encBstr s ++ (encBstr e ++ encBstr p)))) := by
  simp [sigStructure, detEnc, detEncList, encBstr_eq_detEnc, encTstr_eq_detEnc, encHead_eq_detHead,
    ctxSignature, utf8]

theorem tbs1_eq_rfc (m : Sign1Msg) (ext : Option Bytes) (raw content : Bytes) (payload : Bytes)
    (hp : marshalProtected m.h = .ok raw) (hc : IsBstrEncoding raw content)
    (hlen : content.length < 18446744073709551616) (hpl : m.payload = some payload) :
    Sign1.toBeSigned m ext = .ok (detEnc (sigStructure1 content (ext.getD []) payload)) := by
  simp only [Sign1.toBeSigned, hp, Out.bind_ok, detBstr_spec raw content hc hlen, hpl, optBytesEnc,
    detEnc_sigStructure1, encBstr_eq_detEnc]

theorem tbsSig_eq_rfc (s : SigV) (bodyProtected : Bytes) (payload ext : Option Bytes)
    (bodyContent rawSign signContent pl : Bytes)
    (hb : IsBstrEncoding bodyProtected bodyContent)
    (hblen : bodyContent.length < 18446744073709551616)
    (hp : marshalProtected s.h = .ok rawSign) (hs : IsBstrEncoding rawSign signContent)
    (hslen : signContent.length < 18446744073709551616) (hpl : payload = some pl) :
    Signature.toBeSigned s bodyProtected payload ext =
      .ok (detEnc (sigStructure bodyContent signContent (ext.getD []) pl)) := by
  simp only [Signature.toBeSigned, hp, Out.bind_ok, detBstr_spec _ _ hb hblen,
    detBstr_spec _ _ hs hslen, hpl, optBytesEnc, detEnc_sigStructure, encBstr_eq_detEnc]

/-! ### prefix-freeness and binding -/

theorem shortest_fits {n : Nat} (h : n < 18446744073709551616) : (HW.shortest n).fits n = true := by
  by_cases h1 : n < 24
  · rw [shortest_imm h1]; simpa [HW.fits] using h1
  by_cases h2 : n < 256
  · rw [shortest_w1 (by omega) h2]; simpa [HW.fits] using h2
  by_cases h3 : n < 65536
  · rw [shortest_w2 (by omega) h3]; simpa [HW.fits] using h3
  by_cases h4 : n < 4294967296
  · rw [shortest_w4 (by omega) h4]; simpa [HW.fits] using h4
  rw [shortest_w8 (by omega)]; simpa [HW.fits] using h

theorem detEnc_bstr_inj (a b : Bytes) (ha : a.length < 2^64) (hb : b.length < 2^64) (r r' : Bytes)
    (h : detEnc (.bstr a) ++ r = detEnc (.bstr b) ++ r') : a = b ∧ r = r' := by
  have ha' : a.length < 18446744073709551616 := by omega
  have hb' : b.length < 18446744073709551616 := by omega
  have hw := wire_bytes_append_inj (t := false)
    (w := .bstr (HW.shortest a.length) a) (w' := .bstr (HW.shortest b.length) b) (r := r) (r' := r')
    (by simpa [Wire.wf] using shortest_fits ha') (by simpa [Wire.wf] using shortest_fits hb')
    (by simp [Wire.inLimits]) (by simp [Wire.inLimits])
    (by simpa [Wire.bytes, detEnc, detHead] using h)
  exact ⟨(Wire.bstr.inj hw.1).2, hw.2⟩

theorem detEnc_tstr_inj (a b : Bytes) (ha : a.length < 2^64) (hb : b.length < 2^64) (r r' : Bytes)
    (h : detEnc (.tstr a) ++ r = detEnc (.tstr b) ++ r') : a = b ∧ r = r' := by
  have ha' : a.length < 18446744073709551616 := by omega
  have hb' : b.length < 18446744073709551616 := by omega
  have hw := wire_bytes_append_inj (t := false)
    (w := .tstr (HW.shortest a.length) a) (w' := .tstr (HW.shortest b.length) b) (r := r) (r' := r')
    (by simpa [Wire.wf] using shortest_fits ha') (by simpa [Wire.wf] using shortest_fits hb')
    (by simp [Wire.inLimits]) (by simp [Wire.inLimits])
    (by simpa [Wire.bytes, detEnc, detHead] using h)
  exact ⟨(Wire.tstr.inj hw.1).2, hw.2⟩

/-- a signature binds the protected bytes, the external data and the payload -/
theorem sig1_binding (c e p c' e' p' : Bytes)
    (hc : c.length < 2^64) (he : e.length < 2^64) (hp : p.length < 2^64)
    (hc' : c'.length < 2^64) (he' : e'.length < 2^64) (hp' : p'.length < 2^64)
    (h : detEnc (sigStructure1 c e p) = detEnc (sigStructure1 c' e' p')) :
    c = c' ∧ e = e' ∧ p = p' := by
  simp only [detEnc_sigStructure1, encBstr_eq_detEnc] at h
  have h1 := List.append_cancel_left (List.append_cancel_left h)
  obtain ⟨rfl, h2⟩ := detEnc_bstr_inj c c' hc hc' _ _ h1
  obtain ⟨rfl, h3⟩ := detEnc_bstr_inj e e' he he' _ _ h2
  have h4 : detEnc (.bstr p) ++ [] = detEnc (.bstr p') ++ [] := by simpa using h3
  obtain ⟨rfl, -⟩ := detEnc_bstr_inj p p' hp hp' _ _ h4
  exact ⟨rfl, rfl, rfl⟩

theorem sig_binding (c s e p c' s' e' p' : Bytes)
    (hc : c.length < 2^64) (hs : s.length < 2^64) (he : e.length < 2^64) (hp : p.length < 2^64)
    (hc' : c'.length < 2^64) (hs' : s'.length < 2^64) (he' : e'.length < 2^64)
    (hp' : p'.length < 2^64)
    (h : detEnc (sigStructure c s e p) = detEnc (sigStructure c' s' e' p')) :
    c = c' ∧ s = s' ∧ e = e' ∧ p = p' := by
  simp only [detEnc_sigStructure, encBstr_eq_detEnc] at h
  have h1 := List.append_cancel_left (List.append_cancel_left h)
  obtain ⟨rfl, h2⟩ := detEnc_bstr_inj c c' hc hc' _ _ h1
  obtain ⟨rfl, h2'⟩ := detEnc_bstr_inj s s' hs hs' _ _ h2
  obtain ⟨rfl, h3⟩ := detEnc_bstr_inj e e' he he' _ _ h2'
  have h4 : detEnc (.bstr p) ++ [] = detEnc (.bstr p') ++ [] := by simpa using h3
  obtain ⟨rfl, -⟩ := detEnc_bstr_inj p p' hp hp' _ _ h4
  exact ⟨rfl, rfl, rfl, rfl⟩

theorem encHead_4_4 : encHead 4 4 = [0x84] := by decide
theorem encHead_4_5 : encHead 4 5 = [0x85] := by decide
theorem encHead_4_6 : encHead 4 6 = [0x86] := by decide

/-- a Sign1 ToBeSigned is never a Sign-signer ToBeSigned (array of 4 vs array of 5) -/
theorem kinds_separated (c e p c2 s2 e2 p2 : Bytes) :
    detEnc (sigStructure1 c e p) ≠ detEnc (sigStructure c2 s2 e2 p2) := by
  intro h
  simp only [detEnc_sigStructure1, detEnc_sigStructure, encHead_4_4, encHead_4_5,
    List.cons_append, List.nil_append] at h
  exact absurd (List.cons.inj h).1 (by decide)

/-! ### the context strings as bytes

`String.toUTF8` / `ByteArray.toList` do not reduce by `decide`; go through `String.ofList`. -/

theorem byteArray_toList_loop (bs : ByteArray) (i : Nat) (r : List UInt8) :
    ByteArray.toList.loop bs i r = r.reverse ++ bs.data.toList.drop i := by
  fun_induction ByteArray.toList.loop bs i r with
  | case1 i r h ih =>
    rw [ih]
    have h' : i < bs.data.toList.length := by
      rw [Array.length_toList]; exact h
    rw [List.drop_eq_getElem_cons h']
    have hg : bs.get! i = bs.data.toList[i] := by
      cases bs with
      | mk d =>
        show d[i]! = d.toList[i]
        rw [getElem!_pos d i h, Array.getElem_toList]
    rw [hg, List.reverse_cons, List.append_assoc]
    rfl
  | case2 i r h =>
    have : bs.data.toList.length ≤ i := by
      rw [Array.length_toList]; exact Nat.le_of_not_lt h
    rw [List.drop_eq_nil_of_le this, List.append_nil]

theorem byteArray_toList (bs : ByteArray) : bs.toList = bs.data.toList := by
  rw [ByteArray.toList, byteArray_toList_loop]; rfl

theorem utf8_ofList (l : List Char) :
    utf8 (String.ofList l) = l.flatMap String.utf8EncodeChar := by
  rw [utf8, String.toUTF8, byteArray_toList, String.toByteArray_ofList, List.utf8Encode,
    List.toList_data_toByteArray]

theorem ctxSignature1_bytes : ctxSignature1 = [83, 105, 103, 110, 97, 116, 117, 114, 101, 49] := by
  show utf8 "Signature1" = _
  rw [← String.ofList_toList (s := "Signature1"), utf8_ofList]
  decide
theorem encTstr_ctxSignature1 : encTstr ctxSignature1 = 106 :: ctxSignature1 := by
  rw [ctxSignature1_bytes]; decide

theorem ctxSignature_bytes : ctxSignature = [83, 105, 103, 110, 97, 116, 117, 114, 101] := by
  show utf8 "Signature" = _
  rw [← String.ofList_toList (s := "Signature"), utf8_ofList]
  decide
theorem encTstr_ctxSignature : encTstr ctxSignature = 105 :: ctxSignature := by
  rw [ctxSignature_bytes]; decide

theorem ctxCounterSignature_bytes : ctxCounterSignature = [67, 111, 117, 110, 116, 101, 114, 83, 105, 103, 110, 97, 116, 117, 114, 101] := by
  show utf8 "CounterSignature" = _
  rw [← String.ofList_toList (s := "CounterSignature"), utf8_ofList]
  decide
theorem encTstr_ctxCounterSignature : encTstr ctxCounterSignature = 112 :: ctxCounterSignature := by
  rw [ctxCounterSignature_bytes]; decide

theorem ctxCounterSignature0_bytes : ctxCounterSignature0 = [67, 111, 117, 110, 116, 101, 114, 83, 105, 103, 110, 97, 116, 117, 114, 101, 48] := by
  show utf8 "CounterSignature0" = _
  rw [← String.ofList_toList (s := "CounterSignature0"), utf8_ofList]
  decide
theorem encTstr_ctxCounterSignature0 : encTstr ctxCounterSignature0 = 113 :: ctxCounterSignature0 := by
  rw [ctxCounterSignature0_bytes]; decide

theorem ctxCounterSignatureV2_bytes : ctxCounterSignatureV2 = [67, 111, 117, 110, 116, 101, 114, 83, 105, 103, 110, 97, 116, 117, 114, 101, 86, 50] := by
  show utf8 "CounterSignatureV2" = _
  rw [← String.ofList_toList (s := "CounterSignatureV2"), utf8_ofList]
  decide
theorem encTstr_ctxCounterSignatureV2 : encTstr ctxCounterSignatureV2 = 114 :: ctxCounterSignatureV2 := by
  rw [ctxCounterSignatureV2_bytes]; decide

theorem ctxCounterSignature0V2_bytes : ctxCounterSignature0V2 = [67, 111, 117, 110, 116, 101, 114, 83, 105, 103, 110, 97, 116, 117, 114, 101, 48, 86, 50] := by
  show utf8 "CounterSignature0V2" = _
  rw [← String.ofList_toList (s := "CounterSignature0V2"), utf8_ofList]
  decide
theorem encTstr_ctxCounterSignature0V2 : encTstr ctxCounterSignature0V2 = 115 :: ctxCounterSignature0V2 := by
  rw [ctxCounterSignature0V2_bytes]; decide


/-! ### converse of `detBstr_spec`, idempotence -/

theorem parseHead_major {b0 : UInt8} {rest : Bytes} {m : Nat} {w : HW} {n : Nat} {r : Bytes}
    (h : parseHead (b0 :: rest) = some (m, w, n, r)) : b0.toNat / 32 = m := by
  simp only [parseHead] at h
  repeat' split at h
  all_goals first
    | (simp only [Option.some.injEq, Prod.mk.injEq] at h; exact h.1)
    | simp at h

theorem first_major {m : Nat} {hw : HW} {n : Nat} {tl : Bytes} {b0 : UInt8} {rest : Bytes}
    (hm : m < 8) (hf : hw.fits n = true) (h : b0 :: rest = headBytes m hw n ++ tl) :
    b0.toNat / 32 = m := by
  have := parseHead_headBytes m n hw tl hm hf
  rw [← h] at this
  exact parseHead_major this

/-- whatever `deterministicBinaryString` accepts is a definite-length byte string with some head
    width, and the result is its shortest-head encoding -/
theorem detBstr_ok_inv (raw out : Bytes) (h : detBstr raw = .ok out) :
    ∃ c, IsBstrEncoding raw c ∧ c.length < 18446744073709551616 ∧ out = detEnc (.bstr c) := by
  cases raw with
  | nil => simp [detBstr] at h
  | cons b0 rest =>
    have h0 := h
    simp only [detBstr] at h
    split at h
    · simp at h
    · rename_i hm
      split at h
      · simp at h
      · rename_i w hp
        obtain ⟨hb, hwf, -⟩ := parseTop_sound hp
        have hm2 : b0.toNat / 32 = 2 := by simpa using hm
        cases w with
        | bstr hw c =>
          simp only [Wire.wf] at hwf
          simp only [Wire.bytes] at hb
          have hc : IsBstrEncoding (b0 :: rest) c := ⟨hw, hwf, hb⟩
          have hl : c.length < 18446744073709551616 := by
            cases hw <;> simp only [HW.fits, decide_eq_true_eq] at hwf <;> omega
          refine ⟨c, hc, hl, ?_⟩
          rw [detBstr_spec _ _ hc hl] at h0
          exact (Out.ok.inj h0).symm
        | uint hw n =>
          simp only [Wire.wf] at hwf
          have := first_major (tl := []) (by omega : 0 < 8) hwf (by simpa [Wire.bytes] using hb)
          omega
        | nint hw n =>
          simp only [Wire.wf] at hwf
          have := first_major (tl := []) (by omega : 1 < 8) hwf (by simpa [Wire.bytes] using hb)
          omega
        | tstr hw c =>
          simp only [Wire.wf] at hwf
          have := first_major (by omega : 3 < 8) hwf (by simpa [Wire.bytes] using hb)
          omega
        | arr hw xs =>
          simp only [Wire.wf, Bool.and_eq_true] at hwf
          have := first_major (by omega : 4 < 8) hwf.1 (by simpa [Wire.bytes] using hb)
          omega
        | map hw xs =>
          simp only [Wire.wf, Bool.and_eq_true] at hwf
          have := first_major (by omega : 5 < 8) hwf.1 (by simpa [Wire.bytes] using hb)
          omega
        | tag hw t x =>
          simp only [Wire.wf, Bool.and_eq_true] at hwf
          have := first_major (by omega : 6 < 8) hwf.1 (by simpa [Wire.bytes] using hb)
          omega
        | prim hw n =>
          have := first_major (tl := []) (by omega : 7 < 8) (Wire.wf_prim hwf)
            (by simpa [Wire.bytes] using hb)
          omega

theorem isBstrEncoding_detEnc (c : Bytes) (h : c.length < 18446744073709551616) :
    IsBstrEncoding (detEnc (.bstr c)) c :=
  ⟨HW.shortest c.length, shortest_fits h, by simp [detEnc, detHead]⟩

theorem detBstr_idem (raw out : Bytes) (h : detBstr raw = .ok out) : detBstr out = .ok out := by
  obtain ⟨c, -, hl, rfl⟩ := detBstr_ok_inv raw out h
  exact detBstr_spec _ _ (isBstrEncoding_detEnc c hl) hl

end C02

namespace C10
open C02

theorem detEnc_countersign_none (ctx : String) (c s e p : Bytes) :
    detEnc (countersignStructure ctx c s e p none) =
      encHead 4 5 ++ (encTstr (utf8 ctx) ++ (encBstr c ++ (encBstr s ++ (encBstr e ++ encBstr p)))) := by
  simp [countersignStructure, detEnc, detEncList, encBstr_eq_detEnc, encTstr_eq_detEnc,
    encHead_eq_detHead]

theorem detEnc_countersign_some (ctx : String) (c s e p sig : Bytes) :
    detEnc (countersignStructure ctx c s e p (some sig)) =
      encHead 4 6 ++ ((encTstr (utf8 ctx) ++ (encBstr c ++ (encBstr s ++ (encBstr e ++ encBstr p))))
        ++ (encHead 4 1 ++ encBstr sig)) := by
  simp [countersignStructure, detEnc, detEncList, encBstr_eq_detEnc, encTstr_eq_detEnc,
    encHead_eq_detHead]

theorem blen_some_ne {sig : Bytes} (h : sig ≠ []) : ¬ blen (some sig) = 0 := by
  cases sig with
  | nil => exact absurd rfl h
  | cons a t => simp [blen]

theorem ctbs_eq_rfc_sign1 (abbr : Bool) (m : Sign1Msg) (signProtected : Bytes) (ext : Option Bytes)
    (rawBody bodyContent signContent payload sig : Bytes)
    (hm : marshalProtected m.h = .ok rawBody)
    (hb : IsBstrEncoding rawBody bodyContent)
    (hs : IsBstrEncoding signProtected signContent)
    (hblen : bodyContent.length < 18446744073709551616)
    (hslen : signContent.length < 18446744073709551616)
    (hpl : m.payload = some payload) (hsig : m.sig = some sig) (hne : sig ≠ []) :
    countersignToBeSigned abbr (.sign1 m) signProtected ext =
      .ok (detEnc (countersignStructure (if abbr then "CounterSignature0V2" else "CounterSignatureV2")
        bodyContent signContent (ext.getD []) payload (some sig))) := by
  have h0 := blen_some_ne hne
  cases abbr <;>
  simp [countersignToBeSigned, hm, hpl, hsig, h0, detBstr_spec _ _ hb hblen,
    detBstr_spec _ _ hs hslen, optBytesEnc, detEnc_countersign_some, encBstr_eq_detEnc,
    ctxCounterSignature0V2, ctxCounterSignatureV2, utf8]

theorem ctbs_eq_rfc_signature (abbr : Bool) (s : SigV) (signProtected : Bytes) (ext : Option Bytes)
    (rawBody bodyContent signContent sig : Bytes)
    (hm : marshalProtected s.h = .ok rawBody)
    (hb : IsBstrEncoding rawBody bodyContent)
    (hs : IsBstrEncoding signProtected signContent)
    (hblen : bodyContent.length < 18446744073709551616)
    (hslen : signContent.length < 18446744073709551616)
    (hsig : s.sig = some sig) (hne : sig ≠ []) :
    countersignToBeSigned abbr (.signature s) signProtected ext =
      .ok (detEnc (countersignStructure (if abbr then "CounterSignature0" else "CounterSignature")
        bodyContent signContent (ext.getD []) sig none)) := by
  have h0 := blen_some_ne hne
  cases abbr <;>
  simp [countersignToBeSigned, hm, hsig, h0, detBstr_spec _ _ hb hblen,
    detBstr_spec _ _ hs hslen, optBytesEnc, detEnc_countersign_none, encBstr_eq_detEnc,
    ctxCounterSignature0, ctxCounterSignature, utf8]

theorem ctbs_eq_rfc_countersignature (abbr : Bool) (s : SigV) (signProtected : Bytes)
    (ext : Option Bytes) (rawBody bodyContent signContent sig : Bytes)
    (hm : marshalProtected s.h = .ok rawBody)
    (hb : IsBstrEncoding rawBody bodyContent)
    (hs : IsBstrEncoding signProtected signContent)
    (hblen : bodyContent.length < 18446744073709551616)
    (hslen : signContent.length < 18446744073709551616)
    (hsig : s.sig = some sig) (hne : sig ≠ []) :
    countersignToBeSigned abbr (.countersignature s) signProtected ext =
      .ok (detEnc (countersignStructure (if abbr then "CounterSignature0" else "CounterSignature")
        bodyContent signContent (ext.getD []) sig none)) := by
  have h0 := blen_some_ne hne
  cases abbr <;>
  simp [countersignToBeSigned, hm, hsig, h0, detBstr_spec _ _ hb hblen,
    detBstr_spec _ _ hs hslen, optBytesEnc, detEnc_countersign_none, encBstr_eq_detEnc,
    ctxCounterSignature0, ctxCounterSignature, utf8]

theorem ctbs_eq_rfc_sign (abbr : Bool) (m : SignMsg) (signProtected : Bytes) (ext : Option Bytes)
    (rawBody bodyContent signContent payload : Bytes)
    (hm : marshalProtected m.h = .ok rawBody)
    (hb : IsBstrEncoding rawBody bodyContent)
    (hs : IsBstrEncoding signProtected signContent)
    (hblen : bodyContent.length < 18446744073709551616)
    (hslen : signContent.length < 18446744073709551616)
    (hpl : m.payload = some payload) (hsigs : m.sigs ≠ [])
    (hall : m.sigs.any (fun s => blen s.sig = 0) = false) :
    countersignToBeSigned abbr (.sign m) signProtected ext =
      .ok (detEnc (countersignStructure (if abbr then "CounterSignature0" else "CounterSignature")
        bodyContent signContent (ext.getD []) payload none)) := by
  cases abbr <;>
  simp [countersignToBeSigned, hm, hpl, hsigs, hall, detBstr_spec _ _ hb hblen,
    detBstr_spec _ _ hs hslen, optBytesEnc, detEnc_countersign_none, encBstr_eq_detEnc,
    ctxCounterSignature0, ctxCounterSignature, utf8]

/-! ### separation -/

/-- the context string `countersignToBeSigned` picks -/
def ctxOf (other : Option Bytes) (abbr : Bool) : Bytes :=
  match other, abbr with
  | none, true => ctxCounterSignature0
  | none, false => ctxCounterSignature
  | some _, true => ctxCounterSignature0V2
  | some _, false => ctxCounterSignatureV2

/-- the bytes `countersignToBeSigned` assembles from the processed fields -/
def ctbsBytes (abbr : Bool) (other : Option Bytes) (bp sp ext : Bytes) (payload : Option Bytes) :
    Bytes :=
  match other with
  | none =>
    encHead 4 5 ++ (encTstr (ctxOf other abbr) ++ (bp ++ (sp ++ (encBstr ext ++ optBytesEnc payload))))
  | some sigEnc =>
    encHead 4 6 ++ ((encTstr (ctxOf other abbr) ++ (bp ++ (sp ++ (encBstr ext ++ optBytesEnc payload))))
      ++ (encHead 4 1 ++ sigEnc))

/-- if `countersignToBeSigned` succeeds for one value of `abbreviated`, then it succeeds for both,
    and the two results differ only in the context string -/
theorem ctbs_ok_shape {abbr : Bool} {parent : Parent} {sp : Bytes} {ext : Option Bytes} {t : Bytes}
    (h : countersignToBeSigned abbr parent sp ext = .ok t) :
    ∃ (other payload : Option Bytes) (bp sp' : Bytes),
      ∀ abbr', countersignToBeSigned abbr' parent sp ext =
        .ok (ctbsBytes abbr' other bp sp' (ext.getD []) payload) := by
  simp only [countersignToBeSigned] at h ⊢
  split at h
  · rename_i bodyProtected payload other heq
    cases hb : detBstr bodyProtected <;> simp only [hb, Out.bind_ok, Out.bind_err, Out.bind_panic,
      Out.bind_unmodelled, reduceCtorEq] at h
    rename_i bp
    cases hs : detBstr sp <;> simp only [hs, Out.bind_ok, Out.bind_err, Out.bind_panic,
      Out.bind_unmodelled, reduceCtorEq] at h
    rename_i sp'
    refine ⟨other, payload, bp, sp', fun abbr' => ?_⟩
    cases other <;> cases abbr' <;> rfl
  all_goals simp at h

theorem ctbsBytes_full_ne_abbrev (other : Option Bytes) (bp sp ext : Bytes) (payload : Option Bytes) :
    ctbsBytes false other bp sp ext payload ≠ ctbsBytes true other bp sp ext payload := by
  intro h
  cases other with
  | none =>
    simp only [ctbsBytes, ctxOf, encHead_4_5, encTstr_ctxCounterSignature, encTstr_ctxCounterSignature0,
      List.cons_append, List.nil_append] at h
    exact absurd (List.cons.inj (List.cons.inj h).2).1 (by decide)
  | some o =>
    simp only [ctbsBytes, ctxOf, encHead_4_6, encTstr_ctxCounterSignatureV2,
      encTstr_ctxCounterSignature0V2, List.cons_append, List.nil_append] at h
    exact absurd (List.cons.inj (List.cons.inj h).2).1 (by decide)

/-- for the same parent and arguments the full and the abbreviated ToBeSigned differ -/
theorem ctbs_full_ne_abbrev (parent : Parent) (sp : Bytes) (ext : Option Bytes) (t t' : Bytes)
    (h : countersignToBeSigned false parent sp ext = .ok t)
    (h' : countersignToBeSigned true parent sp ext = .ok t') : t ≠ t' := by
  obtain ⟨other, payload, bp, sp', hall⟩ := ctbs_ok_shape h
  rw [hall false] at h
  rw [hall true] at h'
  rw [← Out.ok.inj h, ← Out.ok.inj h']
  exact ctbsBytes_full_ne_abbrev _ _ _ _ _

theorem ctbsBytes_ne_sig1 (abbr : Bool) (other : Option Bytes) (bp sp ext : Bytes)
    (payload : Option Bytes) (c e p : Bytes) :
    ctbsBytes abbr other bp sp ext payload ≠ detEnc (sigStructure1 c e p) := by
  intro h
  cases other <;>
    simp only [ctbsBytes, detEnc_sigStructure1, encHead_4_4, encHead_4_5, encHead_4_6,
      List.cons_append, List.nil_append] at h <;>
    exact absurd (List.cons.inj h).1 (by decide)

theorem ctbsBytes_ne_sig (abbr : Bool) (other : Option Bytes) (bp sp ext : Bytes)
    (payload : Option Bytes) (c s e p : Bytes) :
    ctbsBytes abbr other bp sp ext payload ≠ detEnc (sigStructure c s e p) := by
  intro h
  cases other with
  | some o =>
    simp only [ctbsBytes, detEnc_sigStructure, encHead_4_5, encHead_4_6,
      List.cons_append, List.nil_append] at h
    exact absurd (List.cons.inj h).1 (by decide)
  | none =>
    cases abbr <;>
      simp only [ctbsBytes, ctxOf, detEnc_sigStructure, encHead_4_5, encTstr_ctxCounterSignature,
        encTstr_ctxCounterSignature0, encTstr_ctxSignature, List.cons_append, List.nil_append] at h <;>
      exact absurd (List.cons.inj (List.cons.inj h).2).1 (by decide)

/-- a countersignature ToBeSigned is never a COSE_Sign1 ToBeSigned nor a COSE_Sign signer's -/
theorem ctbs_ne_message_tbs (abbr : Bool) (parent : Parent) (sp : Bytes) (ext : Option Bytes)
    (t : Bytes) (h : countersignToBeSigned abbr parent sp ext = .ok t) :
    (∀ c e p, t ≠ detEnc (sigStructure1 c e p)) ∧
    (∀ c s e p, t ≠ detEnc (sigStructure c s e p)) := by
  obtain ⟨other, payload, bp, sp', hall⟩ := ctbs_ok_shape h
  rw [hall abbr] at h
  rw [← Out.ok.inj h]
  exact ⟨fun c e p => ctbsBytes_ne_sig1 _ _ _ _ _ _ c e p, fun c s e p => ctbsBytes_ne_sig _ _ _ _ _ _ c s e p⟩

/-! ### the same at the level of the RFC structures -/

/-- a Countersign_structure determines every one of its fields: the context, the parent's protected
    bytes, the countersigner's protected bytes, the external data, the payload position and
    `other_fields` -/
theorem countersign_binding (ctx ctx' : String) (c s e p c' s' e' p' : Bytes) (o o' : Option Bytes)
    (hx : (utf8 ctx).length < 2^64) (hx' : (utf8 ctx').length < 2^64)
    (hc : c.length < 2^64) (hs : s.length < 2^64) (he : e.length < 2^64) (hp : p.length < 2^64)
    (hc' : c'.length < 2^64) (hs' : s'.length < 2^64) (he' : e'.length < 2^64)
    (hp' : p'.length < 2^64)
    (ho : ∀ x, o = some x → x.length < 2^64) (ho' : ∀ x, o' = some x → x.length < 2^64)
    (h : detEnc (countersignStructure ctx c s e p o) = detEnc (countersignStructure ctx' c' s' e' p' o')) :
    utf8 ctx = utf8 ctx' ∧ c = c' ∧ s = s' ∧ e = e' ∧ p = p' ∧ o = o' := by
  cases o with
  | none =>
    cases o' with
    | some x' =>
      simp only [detEnc_countersign_none, detEnc_countersign_some, encHead_4_5, encHead_4_6,
        List.cons_append, List.nil_append] at h
      exact absurd (List.cons.inj h).1 (by decide)
    | none =>
      simp only [detEnc_countersign_none, encBstr_eq_detEnc, encTstr_eq_detEnc] at h
      have h0 := List.append_cancel_left h
      obtain ⟨hctx, h1⟩ := detEnc_tstr_inj _ _ hx hx' _ _ h0
      obtain ⟨rfl, h2⟩ := detEnc_bstr_inj c c' hc hc' _ _ h1
      obtain ⟨rfl, h3⟩ := detEnc_bstr_inj s s' hs hs' _ _ h2
      obtain ⟨rfl, h4⟩ := detEnc_bstr_inj e e' he he' _ _ h3
      have h5 : detEnc (.bstr p) ++ [] = detEnc (.bstr p') ++ [] := by simpa using h4
      obtain ⟨rfl, -⟩ := detEnc_bstr_inj p p' hp hp' _ _ h5
      exact ⟨hctx, rfl, rfl, rfl, rfl, rfl⟩
  | some x =>
    cases o' with
    | none =>
      simp only [detEnc_countersign_none, detEnc_countersign_some, encHead_4_5, encHead_4_6,
        List.cons_append, List.nil_append] at h
      exact absurd (List.cons.inj h).1 (by decide)
    | some x' =>
      simp only [detEnc_countersign_some, encBstr_eq_detEnc, encTstr_eq_detEnc,
        List.append_assoc] at h
      have h0 := List.append_cancel_left h
      obtain ⟨hctx, h1⟩ := detEnc_tstr_inj _ _ hx hx' _ _ h0
      obtain ⟨rfl, h2⟩ := detEnc_bstr_inj c c' hc hc' _ _ h1
      obtain ⟨rfl, h3⟩ := detEnc_bstr_inj s s' hs hs' _ _ h2
      obtain ⟨rfl, h4⟩ := detEnc_bstr_inj e e' he he' _ _ h3
      obtain ⟨rfl, h5⟩ := detEnc_bstr_inj p p' hp hp' _ _ h4
      have h6 := List.append_cancel_left h5
      have h7 : detEnc (.bstr x) ++ [] = detEnc (.bstr x') ++ [] := by simpa using h6
      obtain ⟨rfl, -⟩ := detEnc_bstr_inj x x' (ho x rfl) (ho' x' rfl) _ _ h7
      exact ⟨hctx, rfl, rfl, rfl, rfl, rfl⟩

/-- no Countersign_structure encodes as a COSE_Sign1 Sig_structure, whatever the context string -/
theorem countersign_ne_sig1 (ctx : String) (c s e p : Bytes) (o : Option Bytes) (c1 e1 p1 : Bytes) :
    detEnc (countersignStructure ctx c s e p o) ≠ detEnc (sigStructure1 c1 e1 p1) := by
  intro h
  cases o <;>
    simp only [detEnc_countersign_none, detEnc_countersign_some, detEnc_sigStructure1, encHead_4_4,
      encHead_4_5, encHead_4_6, List.cons_append, List.nil_append] at h <;>
    exact absurd (List.cons.inj h).1 (by decide)

/-- a Countersign_structure whose context is not "Signature" never encodes as a COSE_Sign
    Sig_structure -/
theorem countersign_ne_sig (ctx : String) (c s e p : Bytes) (o : Option Bytes) (c2 s2 e2 p2 : Bytes)
    (hx : (utf8 ctx).length < 2^64) (hne : utf8 ctx ≠ utf8 "Signature") :
    detEnc (countersignStructure ctx c s e p o) ≠ detEnc (sigStructure c2 s2 e2 p2) := by
  intro h
  cases o with
  | some x =>
    simp only [detEnc_countersign_some, detEnc_sigStructure, encHead_4_5, encHead_4_6,
      List.cons_append, List.nil_append] at h
    exact absurd (List.cons.inj h).1 (by decide)
  | none =>
    simp only [detEnc_countersign_none, detEnc_sigStructure, encTstr_eq_detEnc] at h
    have h0 := List.append_cancel_left h
    have hl : ctxSignature.length < 2^64 := by rw [ctxSignature_bytes]; decide
    exact hne (detEnc_tstr_inj _ _ hx hl _ _ h0).1

/-- the four context strings of RFC 9338 are pairwise distinct and distinct from "Signature" /
    "Signature1" (as UTF-8 bytes), and short -/
theorem contexts_distinct :
    [ctxSignature1, ctxSignature, ctxCounterSignature, ctxCounterSignature0, ctxCounterSignatureV2,
      ctxCounterSignature0V2].Pairwise (· ≠ ·) := by
  rw [ctxSignature1_bytes, ctxSignature_bytes, ctxCounterSignature_bytes, ctxCounterSignature0_bytes,
    ctxCounterSignatureV2_bytes, ctxCounterSignature0V2_bytes]
  decide

end C10

/-! ### the hypotheses are satisfiable -/
namespace TbsExamples

-- a protected bucket `{}` wrapped with a non-shortest (one-byte) length
example : IsBstrEncoding [0x58, 0x01, 0xa0] [0xa0] := ⟨.w1, by decide, rfl⟩
example : IsBstrEncoding [0x41, 0xa0] [0xa0] := ⟨.imm, by decide, rfl⟩
example : IsBstrEncoding [0x5b, 0, 0, 0, 0, 0, 0, 0, 0] [] := ⟨.w8, by decide, rfl⟩
example : IsBstrEncoding [0x40] [] := ⟨.imm, by decide, rfl⟩

-- direct evaluation of the model (no use of `detBstr_spec`)
example : detBstr [0x58, 0x01, 0xa0] = .ok [0x41, 0xa0] := by
  simp [detBstr, parseTop, parseItem, fuelFor, parseHead, encBstr, encHead, HW.shortest, headBytes]
example : detBstr [0x41, 0xa0] = .ok [0x41, 0xa0] := by
  simp [detBstr, parseTop, parseItem, fuelFor, parseHead]
example : detBstr [0x5b, 0, 0, 0, 0, 0, 0, 0, 0] = .ok [0x40] := by
  simp [detBstr, parseTop, parseItem, fuelFor, parseHead, encBstr, encHead, HW.shortest, headBytes]
-- and through the theorem
example : detBstr [0x5a, 0, 0, 0, 1, 0xa0] = .ok [0x41, 0xa0] :=
  (C02.detBstr_spec _ [0xa0] ⟨.w4, by decide, rfl⟩ (by decide)).trans (by decide)
example : detBstr [0x59, 0x00, 0x01, 0xa0] = .ok (detEnc (.bstr [0xa0])) :=
  C02.detBstr_spec _ _ ⟨.w2, by decide, rfl⟩ (by decide)

/-- a decoded message that retained a non-minimal protected bucket -/
def m1 : Sign1Msg :=
  { h := { rawP := some [0x58, 0x01, 0xa0] }, payload := some [1, 2, 3], sig := some [9] }

theorem m1_protected : marshalProtected m1.h = .ok [0x58, 0x01, 0xa0] := by
  simp [marshalProtected, m1, GoVal.modelledPairs, encodeBucket]

example : Sign1.toBeSigned m1 none = .ok (detEnc (sigStructure1 [0xa0] [] [1, 2, 3])) :=
  C02.tbs1_eq_rfc m1 none [0x58, 0x01, 0xa0] [0xa0] [1, 2, 3] m1_protected ⟨.w1, by decide, rfl⟩
    (by decide) rfl

example : Signature.toBeSigned { h := { rawP := some [0x58, 0x01, 0xa0] } } [0x40] (some [7]) (some [8]) =
    .ok (detEnc (sigStructure [] [0xa0] [8] [7])) :=
  C02.tbsSig_eq_rfc _ _ _ _ [] [0x58, 0x01, 0xa0] [0xa0] [7] ⟨.imm, by decide, rfl⟩ (by decide)
    (by simp [marshalProtected, GoVal.modelledPairs, encodeBucket])
    ⟨.w1, by decide, rfl⟩ (by decide) rfl

example : countersignToBeSigned true (.sign1 m1) [0x40] none =
    .ok (detEnc (countersignStructure "CounterSignature0V2" [0xa0] [] [] [1, 2, 3] (some [9]))) :=
  C10.ctbs_eq_rfc_sign1 true m1 [0x40] none [0x58, 0x01, 0xa0] [0xa0] [] [1, 2, 3] [9] m1_protected
    ⟨.w1, by decide, rfl⟩ ⟨.imm, by decide, rfl⟩ (by decide) (by decide) rfl rfl (by decide)

example : countersignToBeSigned false (.signature { h := { rawP := some [0x40] }, sig := some [9] })
      [0x41, 0xa0] (some [5]) =
    .ok (detEnc (countersignStructure "CounterSignature" [] [0xa0] [5] [9] none)) :=
  C10.ctbs_eq_rfc_signature false _ _ _ [0x40] [] [0xa0] [9]
    (by simp [marshalProtected, GoVal.modelledPairs, encodeBucket])
    ⟨.imm, by decide, rfl⟩ ⟨.imm, by decide, rfl⟩ (by decide) (by decide) rfl (by decide)

end TbsExamples
