import CoseSpec
import CoseModel.Messages
import CoseProofs.Lemmas.Parse
open CoseModel CoseSpec

namespace C02

theorem encHead_eq_detHead (m n : Nat) : encHead m n = detHead m n := rfl

theorem encBstr_eq_detEnc (b : Bytes) : encBstr b = detEnc (.bstr b) := by
  simp [encBstr, detEnc, encHead, detHead]

theorem encTstr_eq_detEnc (b : Bytes) : encTstr b = detEnc (.tstr b) := by
  simp [encTstr, detEnc, encHead, detHead]

theorem parseTop_bstr (w : HW) (c : Bytes) (hf : w.fits c.length = true) :
    parseTop false (headBytes 2 w c.length ++ c) = some (.bstr w c) := by
  have := parseTop_complete (t := false) (w := .bstr w c) (by simpa [Wire.wf] using hf)
    (by simp [Wire.inLimits])
  simpa [Wire.bytes] using this

theorem shortest_imm {n : Nat} (h : n < 24) : HW.shortest n = .imm := by
  unfold HW.shortest; rw [if_pos h]
theorem shortest_w1 {n : Nat} (h1 : 24 ≤ n) (h2 : n < 256) : HW.shortest n = .w1 := by
  unfold HW.shortest; rw [if_neg (by omega), if_pos h2]
theorem shortest_w2 {n : Nat} (h1 : 256 ≤ n) (h2 : n < 65536) : HW.shortest n = .w2 := by
  unfold HW.shortest; rw [if_neg (by omega), if_neg (by omega), if_pos h2]
theorem shortest_w4 {n : Nat} (h1 : 65536 ≤ n) (h2 : n < 4294967296) : HW.shortest n = .w4 := by
  unfold HW.shortest; rw [if_neg (by omega), if_neg (by omega), if_neg (by omega), if_pos h2]
theorem shortest_w8 {n : Nat} (h1 : 4294967296 ≤ n) : HW.shortest n = .w8 := by
  unfold HW.shortest; rw [if_neg (by omega), if_neg (by omega), if_neg (by omega), if_neg (by omega)]

theorem detBstr_spec (raw content : Bytes) (h : IsBstrEncoding raw content)
    (hlen : content.length < 18446744073709551616) :
    detBstr raw = .ok (detEnc (.bstr content)) := by
  obtain ⟨w, hf, rfl⟩ := h
  have hp := parseTop_bstr w content hf
  rw [← encBstr_eq_detEnc]
  cases w <;> simp only [HW.fits, decide_eq_true_eq] at hf
  · -- imm
    simp only [headBytes, List.cons_append, List.nil_append] at hp ⊢
    simp only [detBstr, hp, UInt8.toNat_ofNat', Nat.reducePow]
    have h1 : (2 * 32 + content.length) % 256 / 32 = 2 := by omega
    have h2 : (2 * 32 + content.length) % 256 % 32 < 24 := by omega
    have hs : HW.shortest content.length = .imm := by simp [HW.shortest, hf]
    simp [h1, encBstr, encHead, hs, headBytes]
  · -- w1
    simp only [headBytes, List.cons_append, List.nil_append] at hp ⊢
    simp only [detBstr, hp, UInt8.toNat_ofNat', Nat.reducePow]
    by_cases hc : content.length ≥ 24
    · have hs := shortest_w1 hc hf
      have h3 : content.length % 256 ≥ 24 := by omega
      simp [h3, encBstr, encHead, hs, headBytes]
    · have h3 : ¬ content.length % 256 ≥ 24 := by omega
      simp [h3]
  · -- w2
    simp only [headBytes, List.cons_append, List.nil_append] at hp ⊢
    simp only [detBstr, hp, UInt8.toNat_ofNat', Nat.reducePow]
    by_cases hc : content.length ≥ 256
    · have hs := shortest_w2 hc hf
      have h3 : content.length / 256 % 256 ≠ 0 := by omega
      simp [h3, encBstr, encHead, hs, headBytes]
    · have h3 : content.length / 256 % 256 = 0 := by omega
      simp [h3]
  · -- w4
    simp only [headBytes, List.cons_append, List.nil_append] at hp ⊢
    simp only [detBstr, hp, UInt8.toNat_ofNat', Nat.reducePow]
    by_cases hc : content.length ≥ 65536
    · have hs := shortest_w4 hc hf
      have h3 : content.length / 16777216 % 256 ≠ 0 ∨ content.length / 65536 % 256 % 256 ≠ 0 := by
        omega
      have h4 : (decide (content.length / 16777216 % 256 ≠ 0) ||
                decide (content.length / 65536 % 256 % 256 ≠ 0)) = true := by
        simpa using h3
      simp only [h4]
      simp [encBstr, encHead, hs, headBytes]
    · have h3 : content.length / 16777216 % 256 = 0 := by omega
      have h4 : content.length / 65536 % 256 % 256 = 0 := by omega
      simp [h3, h4]
  · -- w8
    simp only [headBytes, List.cons_append, List.nil_append] at hp ⊢
    simp only [detBstr, hp, UInt8.toNat_ofNat', Nat.reducePow]
    by_cases hc : content.length ≥ 4294967296
    · have hs := shortest_w8 hc
      have h3 : content.length / 72057594037927936 % 256 ≠ 0 ∨
          content.length / 281474976710656 % 256 % 256 ≠ 0 ∨
          content.length / 1099511627776 % 256 % 256 ≠ 0 ∨
          content.length / 4294967296 % 256 % 256 ≠ 0 := by
        omega
      have h4 : (decide (content.length / 72057594037927936 % 256 ≠ 0) ||
          decide (content.length / 281474976710656 % 256 % 256 ≠ 0) ||
          decide (content.length / 1099511627776 % 256 % 256 ≠ 0) ||
          decide (content.length / 4294967296 % 256 % 256 ≠ 0)) = true := by
        simpa [or_assoc] using h3
      simp only [h4]
      simp [encBstr, encHead, hs, headBytes]
    · have h3 : content.length / 72057594037927936 % 256 = 0 := by omega
      have h4 : content.length / 281474976710656 % 256 % 256 = 0 := by omega
      have h5 : content.length / 1099511627776 % 256 % 256 = 0 := by omega
      have h6 : content.length / 4294967296 % 256 % 256 = 0 := by omega
      simp [h3, h4, h5, h6]

/-- the Sig_structure for COSE_Sign1, spelt with the model's encoder functions -/
theorem detEnc_sigStructure1 (c e p : Bytes) :
    detEnc (sigStructure1 c e p) =
      encHead 4 4 ++ (encTstr ctxSignature1 ++ (encBstr c ++ (encBstr e ++ encBstr p))) := by
  simp [sigStructure1, detEnc, detEncList, encBstr_eq_detEnc, encTstr_eq_detEnc, encHead_eq_detHead,
    ctxSignature1, utf8]

theorem detEnc_sigStructure (c s e p : Bytes) :
    detEnc (sigStructure c s e p) =
      encHead 4 5 ++ (encTstr ctxSignature ++ (encBstr c ++ (encBstr s ++ (encBstr e ++ encBstr p)))) := by
  simp [sigStructure, detEnc, detEncList, encBstr_eq_detEnc, encTstr_eq_detEnc, encHead_eq_detHead,
    ctxSignature, utf8]

theorem tbs1_eq_rfc (m : Sign1Msg) (ext : Option Bytes) (raw content : Bytes) (payload : Bytes)
    (hp : marshalProtected m.h = .ok raw) (hc : IsBstrEncoding raw content)
    (hlen : content.length < 18446744073709551616) (hpl : m.payload = some payload) :
    Sign1.toBeSigned m ext = .ok (detEnc (sigStructure1 content (ext.getD []) payload)) := by
  simp only [Sign1.toBeSigned, hp, Out.bind_ok, detBstr_spec raw content hc hlen, hpl, optBytesEnc,
    detEnc_sigStructure1, encBstr_eq_detEnc]

theorem tbsSig_eq_rfc (s : SigV) (bodyProtected : Bytes) (payload ext : Option Bytes)
    (bodyContent rawSign signContent pl : Bytes)
    (hb : IsBstrEncoding bodyProtected bodyContent)
    (hblen : bodyContent.length < 18446744073709551616)
    (hp : marshalProtected s.h = .ok rawSign) (hs : IsBstrEncoding rawSign signContent)
    (hslen : signContent.length < 18446744073709551616) (hpl : payload = some pl) :
    Signature.toBeSigned s bodyProtected payload ext =
      .ok (detEnc (sigStructure bodyContent signContent (ext.getD []) pl)) := by
  simp only [Signature.toBeSigned, hp, Out.bind_ok, detBstr_spec _ _ hb hblen,
    detBstr_spec _ _ hs hslen, hpl, optBytesEnc, detEnc_sigStructure, encBstr_eq_detEnc]

/-! ### prefix-freeness and binding -/

theorem shortest_fits {n : Nat} (h : n < 18446744073709551616) : (HW.shortest n).fits n = true := by
  by_cases h1 : n < 24
  · rw [shortest_imm h1]; simpa [HW.fits] using h1
  by_cases h2 : n < 256
  · rw [shortest_w1 (by omega) h2]; simpa [HW.fits] using h2
  by_cases h3 : n < 65536
  · rw [shortest_w2 (by omega) h3]; simpa [HW.fits] using h3
  by_cases h4 : n < 4294967296
  · rw [shortest_w4 (by omega) h4]; simpa [HW.fits] using h4
  rw [shortest_w8 (by omega)]; simpa [HW.fits] using h

theorem detEnc_bstr_inj (a b : Bytes) (ha : a.length < 2^64) (hb : b.length < 2^64) (r r' : Bytes)
    (h : detEnc (.bstr a) ++ r = detEnc (.bstr b) ++ r') : a = b ∧ r = r' := by
  have ha' : a.length < 18446744073709551616 := by omega
  have hb' : b.length < 18446744073709551616 := by omega
  have hw := wire_bytes_append_inj (t := false)
    (w := .bstr (HW.shortest a.length) a) (w' := .bstr (HW.shortest b.length) b) (r := r) (r' := r')
    (by simpa [Wire.wf] using shortest_fits ha') (by simpa [Wire.wf] using shortest_fits hb')
    (by simp [Wire.inLimits]) (by simp [Wire.inLimits])
    (by simpa [Wire.bytes, detEnc, detHead] using h)
  exact ⟨(Wire.bstr.inj hw.1).2, hw.2⟩

theorem detEnc_tstr_inj (a b : Bytes) (ha : a.length < 2^64) (hb : b.length < 2^64) (r r' : Bytes)
    (h : detEnc (.tstr a) ++ r = detEnc (.tstr b) ++ r') : a = b ∧ r = r' := by
  have ha' : a.length < 18446744073709551616 := by omega
  have hb' : b.length < 18446744073709551616 := by omega
  have hw := wire_bytes_append_inj (t := false)
    (w := .tstr (HW.shortest a.length) a) (w' := .tstr (HW.shortest b.length) b) (r := r) (r' := r')
    (by simpa [Wire.wf] using shortest_fits ha') (by simpa [Wire.wf] using shortest_fits hb')
    (by simp [Wire.inLimits]) (by simp [Wire.inLimits])
    (by simpa [Wire.bytes, detEnc, detHead] using h)
  exact ⟨(Wire.tstr.inj hw.1).2, hw.2⟩

/-- a signature binds the protected bytes, the external data and the payload -/
theorem sig1_binding (c e p c' e' p' : Bytes)
    (hc : c.length < 2^64) (he : e.length < 2^64) (hp : p.length < 2^64)
    (hc' : c'.length < 2^64) (he' : e'.length < 2^64) (hp' : p'.length < 2^64)
    (h : detEnc (sigStructure1 c e p) = detEnc (sigStructure1 c' e' p')) :
    c = c' ∧ e = e' ∧ p = p' := by
  simp only [detEnc_sigStructure1, encBstr_eq_detEnc] at h
  have h1 := List.append_cancel_left (List.append_cancel_left h)
  obtain ⟨rfl, h2⟩ := detEnc_bstr_inj c c' hc hc' _ _ h1
  obtain ⟨rfl, h3⟩ := detEnc_bstr_inj e e' he he' _ _ h2
  have h4 : detEnc (.bstr p) ++ [] = detEnc (.bstr p') ++ [] := by simpa using h3
  obtain ⟨rfl, -⟩ := detEnc_bstr_inj p p' hp hp' _ _ h4
  exact ⟨rfl, rfl, rfl⟩

theorem sig_binding (c s e p c' s' e' p' : Bytes)
    (hc : c.length < 2^64) (hs : s.length < 2^64) (he : e.length < 2^64) (hp : p.length < 2^64)
    (hc' : c'.length < 2^64) (hs' : s'.length < 2^64) (he' : e'.length < 2^64)
    (hp' : p'.length < 2^64)
    (h : detEnc (sigStructure c s e p) = detEnc (sigStructure c' s' e' p')) :
    c = c' ∧ s = s' ∧ e = e' ∧ p = p' := by
  simp only [detEnc_sigStructure, encBstr_eq_detEnc] at h
  have h1 := List.append_cancel_left (List.append_cancel_left h)
  obtain ⟨rfl, h2⟩ := detEnc_bstr_inj c c' hc hc' _ _ h1
  obtain ⟨rfl, h2'⟩ := detEnc_bstr_inj s s' hs hs' _ _ h2
  obtain ⟨rfl, h3⟩ := detEnc_bstr_inj e e' he he' _ _ h2'
  have h4 : detEnc (.bstr p) ++ [] = detEnc (.bstr p') ++ [] := by simpa using h3
  obtain ⟨rfl, -⟩ := detEnc_bstr_inj p p' hp hp' _ _ h4
  exact ⟨rfl, rfl, rfl, rfl⟩

theorem encHead_4_4 : encHead 4 4 = [0x84] := by decide
theorem encHead_4_5 : encHead 4 5 = [0x85] := by decide
theorem encHead_4_6 : encHead 4 6 = [0x86] := by decide

/-- a Sign1 ToBeSigned is never a Sign-signer ToBeSigned (array of 4 vs array of 5) -/
theorem kinds_separated (c e p c2 s2 e2 p2 : Bytes) :
    detEnc (sigStructure1 c e p) ≠ detEnc (sigStructure c2 s2 e2 p2) := by
  intro h
  simp only [detEnc_sigStructure1, detEnc_sigStructure, encHead_4_4, encHead_4_5,
    List.cons_append, List.nil_append] at h
  exact absurd (List.cons.inj h).1 (by decide)

end C02

namespace C10
open C02

theorem detEnc_countersign_none (ctx : String) (c s e p : Bytes) :
    detEnc (countersignStructure ctx c s e p none) =
      encHead 4 5 ++ (encTstr (utf8 ctx) ++ (encBstr c ++ (encBstr s ++ (encBstr e ++ encBstr p)))) := by
  simp [countersignStructure, detEnc, detEncList, encBstr_eq_detEnc, encTstr_eq_detEnc,
    encHead_eq_detHead]

theorem detEnc_countersign_some (ctx : String) (c s e p sig : Bytes) :
    detEnc (countersignStructure ctx c s e p (some sig)) =
      encHead 4 6 ++ ((encTstr (utf8 ctx) ++ (encBstr c ++ (encBstr s ++ (encBstr e ++ encBstr p))))
        ++ (encHead 4 1 ++ encBstr sig)) := by
  simp [countersignStructure, detEnc, detEncList, encBstr_eq_detEnc, encTstr_eq_detEnc,
    encHead_eq_detHead]

theorem blen_some_ne {sig : Bytes} (h : sig ≠ []) : ¬ blen (some sig) = 0 := by
  cases sig with
  | nil => exact absurd rfl h
  | cons a t => simp [blen]

theorem ctbs_eq_rfc_sign1 (abbr : Bool) (m : Sign1Msg) (signProtected : Bytes) (ext : Option Bytes)
    (rawBody bodyContent signContent payload sig : Bytes)
    (hm : marshalProtected m.h = .ok rawBody)
    (hb : IsBstrEncoding rawBody bodyContent)
    (hs : IsBstrEncoding signProtected signContent)
    (hblen : bodyContent.length < 18446744073709551616)
    (hslen : signContent.length < 18446744073709551616)
    (hpl : m.payload = some payload) (hsig : m.sig = some sig) (hne : sig ≠ []) :
    countersignToBeSigned abbr (.sign1 m) signProtected ext =
      .ok (detEnc (countersignStructure (if abbr then "CounterSignature0V2" else "CounterSignatureV2")
        bodyContent signContent (ext.getD []) payload (some sig))) := by
  have h0 := blen_some_ne hne
  cases abbr <;>
  simp [countersignToBeSigned, hm, hpl, hsig, h0, detBstr_spec _ _ hb hblen,
    detBstr_spec _ _ hs hslen, optBytesEnc, detEnc_countersign_some, encBstr_eq_detEnc,
    ctxCounterSignature0V2, ctxCounterSignatureV2, utf8]

theorem ctbs_eq_rfc_signature (abbr : Bool) (s : SigV) (signProtected : Bytes) (ext : Option Bytes)
    (rawBody bodyContent signContent sig : Bytes)
    (hm : marshalProtected s.h = .ok rawBody)
    (hb : IsBstrEncoding rawBody bodyContent)
    (hs : IsBstrEncoding signProtected signContent)
    (hblen : bodyContent.length < 18446744073709551616)
    (hslen : signContent.length < 18446744073709551616)
    (hsig : s.sig = some sig) (hne : sig ≠ []) :
    countersignToBeSigned abbr (.signature s) signProtected ext =
      .ok (detEnc (countersignStructure (if abbr then "CounterSignature0" else "CounterSignature")
        bodyContent signContent (ext.getD []) sig none)) := by
  have h0 := blen_some_ne hne
  cases abbr <;>
  simp [countersignToBeSigned, hm, hsig, h0, detBstr_spec _ _ hb hblen,
    detBstr_spec _ _ hs hslen, optBytesEnc, detEnc_countersign_none, encBstr_eq_detEnc,
    ctxCounterSignature0, ctxCounterSignature, utf8]

theorem ctbs_eq_rfc_countersignature (abbr : Bool) (s : SigV) (signProtected : Bytes)
    (ext : Option Bytes) (rawBody bodyContent signContent sig : Bytes)
    (hm : marshalProtected s.h = .ok rawBody)
    (hb : IsBstrEncoding rawBody bodyContent)
    (hs : IsBstrEncoding signProtected signContent)
    (hblen : bodyContent.length < 18446744073709551616)
    (hslen : signContent.length < 18446744073709551616)
    (hsig : s.sig = some sig) (hne : sig ≠ []) :
    countersignToBeSigned abbr (.countersignature s) signProtected ext =
      .ok (detEnc (countersignStructure (if abbr then "CounterSignature0" else "CounterSignature")
        bodyContent signContent (ext.getD []) sig none)) := by
  have h0 := blen_some_ne hne
  cases abbr <;>
  simp [countersignToBeSigned, hm, hsig, h0, detBstr_spec _ _ hb hblen,
    detBstr_spec _ _ hs hslen, optBytesEnc, detEnc_countersign_none, encBstr_eq_detEnc,
    ctxCounterSignature0, ctxCounterSignature, utf8]

theorem ctbs_eq_rfc_sign (abbr : Bool) (m : SignMsg) (signProtected : Bytes) (ext : Option Bytes)
    (rawBody bodyContent signContent payload : Bytes)
    (hm : marshalProtected m.h = .ok rawBody)
    (hb : IsBstrEncoding rawBody bodyContent)
    (hs : IsBstrEncoding signProtected signContent)
    (hblen : bodyContent.length < 18446744073709551616)
    (hslen : signContent.length < 18446744073709551616)
    (hpl : m.payload = some payload) (hsigs : m.sigs ≠ []) :
    countersignToBeSigned abbr (.sign m) signProtected ext =
      .ok (detEnc (countersignStructure (if abbr then "CounterSignature0" else "CounterSignature")
        bodyContent signContent (ext.getD []) payload none)) := by
  cases abbr <;>
  simp [countersignToBeSigned, hm, hpl, hsigs, detBstr_spec _ _ hb hblen,
    detBstr_spec _ _ hs hslen, optBytesEnc, detEnc_countersign_none, encBstr_eq_detEnc,
    ctxCounterSignature0, ctxCounterSignature, utf8]

end C10
