/-
  Deep/WireClosure — the wire round trip of COSE_Sign1, CLOSED for flat headers.

  `Deep/Chain` proved "sign, encode, decode, verify" for COSE_Sign1 and for the hash envelope with
  three facts TAKEN AS HYPOTHESES: the emitted bytes decode (`hdec`), the decoded protected map
  passes the algorithm gate (`hgate`), the emitted unprotected bytes are one well-formed item
  (`hUwf`) — and for the hash envelope also `hrules`, `halg`.  Here all of them are DERIVED, for
  messages built from header MAPS (no retained raw header bytes) whose labels and values are
  scalar ("flat", `RoundTrip.FlatMap`: integers of any Go integer type / `Algorithm` / `Curve`
  within int64, valid UTF-8 text, byte strings, booleans, nil).

  Proved, in plain words:
  1. `C01.sign1_wire_flat` — if `Sign1Message.Sign` succeeded and `MarshalCBOR` (tagged or
     untagged) returned bytes `b`, then `UnmarshalCBOR b` succeeds, `Verify` on the decoded message
     with the matching verifier and the same external data returns nil, and the decoded message
     carries the signed payload and the signer's signature.
  2. `C01.sign1_wire_detached_flat` — the same when the payload is detached before encoding and
     put back after decoding.
  3. `C01.sign1_wire_flat_alg` — the algorithm `Algorithm()` reports on the decoded message is the
     signer's (C04 across the wire).  `sign1_wire_flat_alg_cases` is the unconditional form.
  4. `C12.henv_closed_flat` — what `SignHashEnvelope` emits, `VerifyHashEnvelope` accepts and
     returns the signed hash value.
  5. non-vacuity: `example`s instantiate 1, 3 and 4 on concrete messages (`exF`: protected
     `{1: ES256}`, unprotected `{4: kid}`; `exHh`/`exHp`: a SHA-256 envelope), every hypothesis
     discharged by computation.

  How: `Sign` leaves the protected map flat (`sign_gate_flat`: at most the entry
  `int64(1): Algorithm` is added); `MarshalCBOR` succeeding means both buckets were validated and
  `ensureIV` passed; `C08.protected_bucket_roundtrip` / `unprotected_bucket_roundtrip` turn the
  two buckets into well-formed wire items which the bucket decoders accept (`prot_item`,
  `unprot_item`); the IV cross-check is invariant under decoding (`ensureIV_decoded`); the four
  items form a `WFSign1` tree, so `C07.wf_sign1_accepted_full` gives `UnmarshalCBOR = ok` with the
  decoded value spelt out (`sign1_decodes_flat`); the decoded message re-emits the protected bytes
  verbatim, so `ToBeSigned` is the one that was signed; `algorithmOf` of the decoded protected map
  equals that of the encoded one (`C08 … algSpec`), so the gate passes.

  Hypotheses that REMAIN, and why:
  * `Matches s v` — crypto is a parameter (verifier accepts what the signer produces, signatures
    non-empty, same algorithm id).
  * `m.h.rawP = none`, `m.h.rawU = none`, `FlatMap`, — the scope: messages built from scalar header
    maps.  (Messages that retain raw bytes from the decoder are covered by
    `C01.sign1_wire_full_partial` + `hUwf_of_raw`.)  Valid UTF-8 inside `FlatMap` is REAL library
    behaviour, not a model artefact: the encoder emits a Go string as is, the decoder refuses
    invalid UTF-8 — `C01.flat_needs_utf8`.
  * `UintOK` (a value of an unsigned Go integer type is not negative) — true of every Go program;
    the model's `GoVal.int` does not enforce it (`C08.protected_bucket_roundtrip_needs_uintOK`).
  * `m.h.p.length < maxElems`, `m.h.u.length ≤ maxElems` — the decoder refuses maps with more than
    131072 pairs (`MaxMapPairs`); strict for the protected map because `Sign` may add `alg`.
  * `blen m.payload < 2^64`, `hsl` (signatures shorter than 2^64 bytes) — a CBOR head cannot say
    more; true of every Go slice, not of every Lean list.  `Deep/Chain` needed no bound on the
    signature only because decoding was a hypothesis there.
  * `halg : int64Range s.alg` — Go's `Algorithm` is an `int64`; the model's `Int` is not.  Needed:
    `C01.sign1_wire_flat_needs_halg` (alg 2^64 is emitted as `1b 00…00`, decoded as 0, refused).
  * `hok`, `henc` — the premises "the library signed and encoded it".
  NOT needed any more: `hdec`, `hgate`, `hUwf`; `m.payload ≠ none` (follows from `hok`); a bound
  on the length of the encoded buckets (the protected bytes passed `deterministicBinaryString`
  when the message was signed, which bounds them; the unprotected map is an item, not a string).
  * 3 only: `hnx` (no external data, or the caller's protected map already names an algorithm).
    With external data and no `alg`, go-cose signs WITHOUT inserting one; the decoded message then
    names none either — `C01.sign1_wire_flat_alg_needs_hnx` (it still verifies: 1 holds).
  * 4 only: `h.rawU = none` (raw unprotected bytes are the `_partial` theorem's business),
    `h.p.length + 3 < maxElems` (three governed labels plus `alg` may be added), `p.alg` in int64,
    a flat preimage content type, a valid-UTF-8 payload location, and — exactly as in
    `henv_closed_partial` — `hpl`: only for a hash algorithm id unknown to the library (no length
    check) the hash value is assumed shorter than 2^64 bytes.  No hypothesis on `h.rawP`
    (`SignHashEnvelope` clears it).
  Core Lean only; axioms: propext, Quot.sound, Classical.choice.
-/
import CoseModel.Messages
import CoseModel.HashEnvelope
import CoseProofs.Deep.Chain
import CoseProofs.Deep.RoundTrip
import CoseProofs.Deep.Accept
import CoseProofs.Deep.Verifies
import CoseProofs.Deep.Keys
open CoseModel CoseSpec RoundTrip

namespace WireClosure

/-! ### inversion of the encoder -/

theorem marshalProtected_ok_inv {h : Hdrs} {P : Bytes} (hP : marshalProtected h = .ok P) :
    GoVal.modelledPairs h.p = true ∧ encodeBucket encCfg true h.rawP h.p = some P := by
  unfold marshalProtected at hP
  split at hP
  · cases hP
  · rename_i hm
    split at hP
    · rename_i b hb
      cases hP
      exact ⟨by simpa using hm, hb⟩
    · cases hP

theorem marshalUnprotected_ok_inv {h : Hdrs} {U : Bytes} (hU : marshalUnprotected h = .ok U) :
    GoVal.modelledPairs h.u = true ∧ encodeBucket encCfg false h.rawU h.u = some U := by
  unfold marshalUnprotected at hU
  split at hU
  · cases hU
  · rename_i hm
    split at hU
    · rename_i b hb
      cases hU
      exact ⟨by simpa using hm, hb⟩
    · cases hU

/-- the encoder validates every bucket it encodes from the map -/
theorem validate_of_encodeBucket {g : GoMap} {prot : Bool} {b : Bytes}
    (he : encodeBucket encCfg prot none g = some b) : validateHeaderParameters g prot = true := by
  cases g with
  | nil => rfl
  | cons e es =>
    simp only [encodeBucket] at he
    split at he
    · cases he
    · rename_i hv
      simpa [encCfg] using hv

theorem ensureIV_of_marshal {tagged : Bool} {m : Sign1Msg} {b : Bytes}
    (he : Sign1.marshal tagged m = .ok b) : ensureIV m.h.p m.h.u = true := by
  unfold Sign1.marshal Sign1.content at he
  split at he
  · simp [bind, Out.bind] at he
  · unfold Hdrs.marshal at he
    split at he
    · simp [bind, Out.bind] at he
    · rename_i hiv
      simpa using hiv

/-! ### the two buckets as wire items -/

/-- the protected bucket: what `MarshalProtected` emits for a flat map (and `detBstr` accepted when
    the message was signed) is ONE well-formed byte-string item which `ProtectedHeader.UnmarshalCBOR`
    accepts.  The bound "content shorter than 2^64" is derived from `detBstr` having accepted. -/
theorem prot_item {p : GoMap} (hf : FlatMap p) (hu : ∀ e ∈ p, UintOK e.2)
    (hlen : p.length ≤ maxElems) {P P' : Bytes}
    (he : encodeBucket encCfg true none p = some P) (hd : detBstr P = .ok P') :
    ∃ (hw : HW) (content : Bytes), P = (Wire.bstr hw content).bytes ∧
      (Wire.bstr hw content).wf = true ∧
      decProtected (.bstr hw content) = .ok ((sortEntries p).map decEntry) ∧
      algorithmOf ((sortEntries p).map decEntry) = algSpec p := by
  have hv := validate_of_encodeBucket he
  obtain ⟨hw, content, m, hb, hhw, -, hdc, hm, -, ha⟩ :=
    C08.protected_bucket_roundtrip p hf hu hv hlen P he
  obtain ⟨c, ⟨w, hfc, hPeq⟩, -, -⟩ := C02.detBstr_ok_inv P P' hd
  subst hm
  have hPenc : P = encBstr content := by rw [hb, hhw]; rfl
  have hcc : c = content := C01.bstr_eq_encBstr hfc (hPeq.symm.trans hPenc)
  subst hcc
  have hfit : hw.fits c.length = true := by
    rw [hhw]; exact C02.shortest_fits (Reencode.fits_lt hfc)
  exact ⟨hw, c, hb, by simpa [Wire.wf] using hfit, hdc, ha⟩

/-- the unprotected bucket: what `MarshalUnprotected` emits for a flat map is the map item
    `mapWire u`, well formed, within the parser's limits at depth 1, accepted by
    `UnprotectedHeader.UnmarshalCBOR` -/
theorem unprot_item {u : GoMap} (hf : FlatMap u) (hu : ∀ e ∈ u, UintOK e.2)
    (hlen : u.length ≤ maxElems) {U : Bytes}
    (he : encodeBucket encCfg false none u = some U) :
    U = (mapWire u).bytes ∧ (mapWire u).wf = true ∧ (mapWire u).inLimits false 1 = true ∧
      decUnprot (mapWire u) = .ok ((sortEntries u).map normEntry) := by
  have hv := validate_of_encodeBucket he
  obtain ⟨w, m, hb, hw, -, -, hdu, hm, -⟩ :=
    C08.unprotected_bucket_roundtrip u hf hu hv hlen U he
  subst hw hm
  exact ⟨hb, mapWire_wf hf hlen, mapWire_inLimits hlen false 1 (by unfold maxNested; omega), hdu⟩

/-! ### the IV / Partial IV cross check survives the round trip -/

/-- `hasLabel` at an integer label on a decoded flat bucket (any entry-wise map that keeps the
    normalised labels, entries in sorted order) -/
theorem hasLabel_sorted_map {g : GoMap} (f : GoVal × GoVal → GoVal × GoVal)
    (hfn : ∀ e ∈ g, normalizeLabel (f e).1 = normalizeLabel e.1) (k : Int) :
    hasLabel ((sortEntries g).map f) (lbl k) = hasLabel g (lbl k) := by
  have hn : normalizeLabel (lbl k) = some (.int .i64 (wrap64 k)) := rfl
  rw [Bool.eq_iff_iff, C13.hasLabel_norm' _ _ _ hn, C13.hasLabel_norm' _ _ _ hn]
  constructor
  · rintro ⟨e', he', hne⟩
    obtain ⟨e, he, rfl⟩ := List.mem_map.mp he'
    have heg : e ∈ g := (sortEntries_perm g).mem_iff.mp he
    exact ⟨e, heg, by rw [← hfn e heg]; exact hne⟩
  · rintro ⟨e, he, hne⟩
    exact ⟨f e, List.mem_map_of_mem ((sortEntries_perm g).mem_iff.mpr he),
      by rw [hfn e he]; exact hne⟩

theorem ensureIV_decoded {p u : GoMap} (hfp : FlatMap p) (hfu : FlatMap u)
    (h : ensureIV p u = true) :
    ensureIV ((sortEntries p).map decEntry) ((sortEntries u).map normEntry) = true := by
  have hp : ∀ k, hasLabel ((sortEntries p).map decEntry) (lbl k) = hasLabel p (lbl k) :=
    hasLabel_sorted_map decEntry
      (fun e he => by rw [decEntry_fst]; exact normalizeLabel_normVal (hfp e he).1)
  have hu : ∀ k, hasLabel ((sortEntries u).map normEntry) (lbl k) = hasLabel u (lbl k) :=
    hasLabel_sorted_map normEntry
      (fun e he => by simp only [normEntry]; exact normalizeLabel_normVal (hfu e he).1)
  unfold ensureIV at h ⊢
  rw [hp, hp, hu, hu]
  exact h

/-! ### the emitted message decodes -/

/-- CORE: a message with flat header maps, no retained raw header bytes, payload field `o` and
    signature `sig`, whose protected bytes `P` the signing step accepted (`detBstr`), is emitted as
    bytes that `Sign1.unmarshal` ACCEPTS; the decoded message carries payload `o`, signature `sig`,
    re-emits exactly `P` as its protected bytes, and `Algorithm()` on its protected map gives
    `algSpec p`. -/
theorem sign1_decodes_flat (tagged : Bool) (p u : GoMap) (o : Option Bytes) (sig b P P' : Bytes)
    (hfp : FlatMap p) (hfu : FlatMap u) (hup : ∀ e ∈ p, UintOK e.2) (huu : ∀ e ∈ u, UintOK e.2)
    (hlp : p.length ≤ maxElems) (hlu : u.length ≤ maxElems)
    (ho : blen o < 18446744073709551616) (hsl : sig.length < 18446744073709551616)
    (hsne : sig ≠ [])
    (hP : marshalProtected { p := p, u := u } = .ok P) (hd : detBstr P = .ok P')
    (henc : Sign1.marshal tagged { h := { p := p, u := u }, payload := o, sig := some sig }
      = .ok b) :
    ∃ m2, Sign1.unmarshal tagged b = .ok m2 ∧ m2.payload = o ∧ m2.sig = some sig ∧
      marshalProtected m2.h = .ok P ∧ m2.h.p = (sortEntries p).map decEntry ∧
      m2.h.u = (sortEntries u).map normEntry ∧ algorithmOf m2.h.p = algSpec p := by
  have hiv := ensureIV_of_marshal henc
  obtain ⟨P0, U, hz, hP0, hU, hb⟩ := C01.sign1_marshal_ok_inv henc
  have hP0' : marshalProtected { p := p, u := u } = .ok P0 := hP0
  rw [hP] at hP0'
  cases hP0'
  obtain ⟨-, heP⟩ := marshalProtected_ok_inv hP
  obtain ⟨-, heU⟩ := marshalUnprotected_ok_inv hU
  obtain ⟨hw, content, hPb, hpwf, hdp, halg⟩ := prot_item hfp hup hlp heP hd
  obtain ⟨hUb, huwf, hulim, hdu⟩ := unprot_item hfu huu hlu heU
  have hiv' := ensureIV_decoded hfp hfu hiv
  have hplwf := C01.shortItem_wf_of_lt o ho
  have hsgfit : (HW.shortest sig.length).fits sig.length = true := C02.shortest_fits hsl
  have hwf : (Wire.arr .imm [.bstr hw content, mapWire u, C09.shortItem o,
      .bstr (HW.shortest sig.length) sig]).wf = true := by
    have h4 : HW.fits .imm 4 = true := by decide
    simp only [Wire.wf] at hpwf
    simp [Wire.wf, Wire.wfList, h4, hpwf, huwf, hplwf, hsgfit]
  have hlim : (Wire.arr .imm [.bstr hw content, mapWire u, C09.shortItem o,
      .bstr (HW.shortest sig.length) sig]).inLimits false 0 = true := by
    simp [Wire.inLimits, Wire.inLimitsList, maxNested, maxElems, hulim, C09.shortItem_inLimits]
  have hpl : WFPayload (C09.shortItem o) := by
    cases o with
    | none => exact .inl rfl
    | some x => exact .inr ⟨_, _, rfl⟩
  have hacc := C07.wf_sign1_accepted_full tagged hwf hlim hdp hdu hiv' hpl hsne
  have hbytes : b = (if tagged then [0xd2] else []) ++ (Wire.arr .imm [.bstr hw content, mapWire u,
      C09.shortItem o, .bstr (HW.shortest sig.length) sig]).bytes := by
    rw [hb, hPb, hUb]
    have := C09.marshal_tree_bytes (.bstr hw content) (mapWire u) o (some sig) hz
    simp only [Option.getD_some] at this ⊢
    rw [this]
    rfl
  rw [← hbytes] at hacc
  refine ⟨_, hacc, ?_, rfl, ?_, rfl, rfl, halg⟩
  · cases o <;> rfl
  · exact (Verifies.marshalProtected_raw (p := .bstr hw content) rfl
      (C01.decProtected_modelled hdp)).trans (by rw [hPb])

/-! ### what signing leaves in the protected map is still flat -/

theorem flatMap_set {h : GoMap} {k v : GoVal} (hf : FlatMap h) (hk : FlatLabel k) (hv : FlatVal v) :
    FlatMap (h.set k v) := by
  unfold GoMap.set
  split
  · intro e he
    obtain ⟨e0, he0, rfl⟩ := List.mem_map.mp he
    split
    · exact ⟨(hf e0 he0).1, hv⟩
    · exact hf e0 he0
  · intro e he
    rcases List.mem_append.mp he with he | he
    · exact hf e he
    · simp only [List.mem_singleton] at he; subst he; exact ⟨hk, hv⟩

theorem uintOK_set {h : GoMap} {k v : GoVal} (hu : ∀ e ∈ h, UintOK e.2) (hv : UintOK v) :
    ∀ e ∈ h.set k v, UintOK e.2 := by
  unfold GoMap.set
  split
  · intro e he
    obtain ⟨e0, he0, rfl⟩ := List.mem_map.mp he
    split
    · exact hv
    · exact hu e0 he0
  · intro e he
    rcases List.mem_append.mp he with he | he
    · exact hu e he
    · simp only [List.mem_singleton] at he; subst he; exact hv

theorem length_set_le (h : GoMap) (k v : GoVal) : (h.set k v).length ≤ h.length + 1 := by
  unfold GoMap.set
  split <;> simp

/-- the protected map after the signing gate (no raw protected bytes retained): still flat, at most
    one entry longer, and `Algorithm()` finds the signer's algorithm — unless the algorithm was
    absent and external data is supplied, in which case nothing was inserted -/
theorem sign_gate_flat {p p' : GoMap} {alg : Int} {ext : Option Bytes}
    (hg : ensureSigningAlgorithm none p alg ext = .ok p')
    (hf : FlatMap p) (hu : ∀ e ∈ p, UintOK e.2) (ha : int64Range alg) :
    FlatMap p' ∧ (∀ e ∈ p', UintOK e.2) ∧ p'.length ≤ p.length + 1 ∧
      (algorithmOf p' = .found alg ∨
        (algorithmOf p = .notFound ∧ (ext.getD []).length > 0 ∧ algorithmOf p' = .notFound)) := by
  rcases C04.sign_gate_cases none p p' alg ext hg with ⟨hfd, rfl⟩ | ⟨hn, he, rfl⟩ | ⟨hn, _, _, rfl⟩
  · exact ⟨hf, hu, by omega, .inl hfd⟩
  · exact ⟨hf, hu, by omega, .inr ⟨hn, he, hn⟩⟩
  · exact ⟨flatMap_set hf (by simp [lbl, FlatLabel, int64Range]) ha,
      uintOK_set hu (by simp [UintOK]), length_set_le _ _ _, .inl (C01.algorithmOf_set p alg hn)⟩

/-! ### COSE_Sign1 across the wire, closed -/

/-- common part of the attached and the detached flow: `o` is the payload field that is emitted -/
theorem sign1_wire_flat_core (tagged : Bool) (m : Sign1Msg) (ext : Option Bytes) (s : Signer)
    (v : Verifier) (o : Option Bytes) (b : Bytes) (hm : C01.Matches s v)
    (hrp : m.h.rawP = none) (hru : m.h.rawU = none)
    (hfp : FlatMap m.h.p) (hfu : FlatMap m.h.u)
    (hup : ∀ e ∈ m.h.p, UintOK e.2) (huu : ∀ e ∈ m.h.u, UintOK e.2)
    (hlp : m.h.p.length < maxElems) (hlu : m.h.u.length ≤ maxElems)
    (ho : blen o < 18446744073709551616) (halg : int64Range s.alg)
    (hsl : ∀ t sg, s.sign t = .ok sg → sg.length < 18446744073709551616)
    (hok : (Sign1.sign m ext s).out = .ok ())
    (henc : Sign1.marshal tagged { (Sign1.sign m ext s).state with payload := o } = .ok b) :
    ∃ m2, Sign1.unmarshal tagged b = .ok m2 ∧ m2.payload = o ∧
      m2.sig = (Sign1.sign m ext s).state.sig ∧
      (Sign1.verify { m2 with payload := m.payload } ext v).1 = .ok () ∧
      m2.h.p = (sortEntries (Sign1.sign m ext s).state.h.p).map decEntry ∧
      m2.h.u = (sortEntries m.h.u).map normEntry ∧
      (algorithmOf m2.h.p = .found s.alg ∨
        (algorithmOf m.h.p = .notFound ∧ (ext.getD []).length > 0 ∧
          algorithmOf m2.h.p = .notFound)) := by
  obtain ⟨p', tbs, sig, hpn, hgate, ht, hsg, hst⟩ := C01.sign1_sign_ok_inv m ext s hok
  obtain ⟨⟨rp, p, ru, u⟩, pay, sg0⟩ := m
  simp only at hrp hru hfp hfu hup huu hlp hlu hpn hgate ht hst
  subst hrp hru
  rw [hst] at henc ⊢
  obtain ⟨P, P', hP, hd, rfl⟩ := C01.toBeSigned1_ok_inv ht
  obtain ⟨hfp', hup', hlp', hcase⟩ := sign_gate_flat hgate hfp hup halg
  obtain ⟨m2, hdec, hpay, hs2, hP2, hp2, hu2, ha2⟩ :=
    sign1_decodes_flat tagged p' u o sig b P P' hfp' hfu hup' huu (by omega) hlu ho
      (hsl _ _ hsg) (hm.nonempty _ _ hsg) hP hd henc
  have hgv := C01.gate_after_sign _ _ _ _ _ hgate (C01.algorithmOf_set _ _)
  have hne : algorithmOf p' ≠ .failed .invalidAlg := by
    intro hc
    simp [ensureVerificationAlgorithm, hc] at hgv
  have heq : algorithmOf m2.h.p = algorithmOf p' := by
    rw [ha2, algSpec_eq_algorithmOf p' hne]
  have hgate2 : ensureVerificationAlgorithm m2.h.p v.alg ext = .ok () := by
    unfold ensureVerificationAlgorithm at hgv ⊢
    rw [heq, hm.alg]
    exact hgv
  refine ⟨m2, hdec, hpay, hs2, ?_, hp2, hu2, ?_⟩
  · exact C01.verify_of_same_tbs { m2 with payload := pay } ext s v P P' sig pay hm hP2 hd rfl hpn
      hs2 hsg hgate2
  · rw [heq]
    exact hcase

/-! ### hash-envelope header rules, entry by entry -/

/-- the verdict of `hashProtLoop` on one entry: `none` = refused, `some b` = accepted,
    `b` = "this is a well-typed payload-hash-algorithm (258)" -/
def protEntry (e : GoVal × GoVal) : Option Bool :=
  match normalizeLabel e.1 with
  | none => none
  | some (.int _ 3) => none
  | some (.int _ 258) =>
    (match e.2 with
     | .alg _ => some true
     | _ => if canInt e.2 then some true else none)
  | some (.int _ 259) => if canUint e.2 || canText e.2 then some false else none
  | some (.int _ 260) => if canText e.2 then some false else none
  | some _ => some false



theorem hashProtLoop_cons (e : GoVal × GoVal) (r : GoMap) (found : Bool) :
    hashProtLoop (e :: r) found =
      match protEntry e with
      | none => none
      | some b => hashProtLoop r (found || b) := by
  obtain ⟨l, v⟩ := e
  cases hn : normalizeLabel l with
  | none => simp [hashProtLoop, protEntry, hn]
  | some nl =>
    by_cases h3 : ∃ k, nl = .int k 3
    · obtain ⟨k, rfl⟩ := h3; simp [hashProtLoop, protEntry, hn]
    · by_cases h258 : ∃ k, nl = .int k 258
      · obtain ⟨k, rfl⟩ := h258
        cases v <;> simp [hashProtLoop, protEntry, hn, canInt]
      · by_cases h259 : ∃ k, nl = .int k 259
        · obtain ⟨k, rfl⟩ := h259
          by_cases hc : (canUint v || canText v) = true <;> simp [hashProtLoop, protEntry, hn, hc]
        · by_cases h260 : ∃ k, nl = .int k 260
          · obtain ⟨k, rfl⟩ := h260
            by_cases hc : canText v = true <;> simp [hashProtLoop, protEntry, hn, hc]
          · have g3 : ∀ k, nl = GoVal.int k 3 → False := fun k hk => h3 ⟨k, hk⟩
            have g258 : ∀ k, nl = GoVal.int k 258 → False := fun k hk => h258 ⟨k, hk⟩
            have g259 : ∀ k, nl = GoVal.int k 259 → False := fun k hk => h259 ⟨k, hk⟩
            have g260 : ∀ k, nl = GoVal.int k 260 → False := fun k hk => h260 ⟨k, hk⟩
            simp [hashProtLoop, protEntry, hn]

/-- `hashProtLoop` accepts exactly when every entry is accepted and a well-typed 258 occurs -/
theorem hashProtLoop_iff : ∀ (g : GoMap) (found : Bool),
    hashProtLoop g found = some true ↔
      (∀ e ∈ g, protEntry e ≠ none) ∧ (found = true ∨ ∃ e ∈ g, protEntry e = some true)
  | [], found => by simp [hashProtLoop]
  | e :: r, found => by
    rw [hashProtLoop_cons]
    cases he : protEntry e with
    | none =>
      simp only [List.forall_mem_cons, he, ne_eq, not_true_eq_false, false_and]
      simp
    | some b =>
      have ih := hashProtLoop_iff r (found || b)
      simp only [ih, List.forall_mem_cons, he, ne_eq, reduceCtorEq,
        not_false_eq_true, true_and, Bool.or_eq_true]
      constructor
      · rintro ⟨h1, h2⟩
        refine ⟨h1, ?_⟩
        rcases h2 with (h2 | h2) | ⟨x, hx, hxe⟩
        · exact .inl h2
        · exact .inr ⟨e, List.mem_cons_self .., by rw [he, h2]⟩
        · exact .inr ⟨x, List.mem_cons_of_mem _ hx, hxe⟩
      · rintro ⟨h1, h2⟩
        refine ⟨h1, ?_⟩
        rcases h2 with h2 | ⟨x, hx, hxe⟩
        · exact .inl (.inl h2)
        · rcases List.mem_cons.mp hx with rfl | hx
          · rw [he] at hxe
            exact .inl (.inr (Option.some.inj hxe))
          · exact .inr ⟨x, hx, hxe⟩

def unprotEntry (e : GoVal × GoVal) : Bool :=
  match normalizeLabel e.1 with
  | none => false
  | some (.int _ 3) => false
  | some (.int _ 258) => false
  | some (.int _ 259) => false
  | some (.int _ 260) => false
  | some _ => true

theorem hashUnprotOK_cons (e : GoVal × GoVal) (r : GoMap) :
    hashUnprotOK (e :: r) = (unprotEntry e && hashUnprotOK r) := by
  obtain ⟨l, v⟩ := e
  cases hn : normalizeLabel l with
  | none => simp [hashUnprotOK, unprotEntry, hn]
  | some nl =>
    by_cases h3 : ∃ k, nl = .int k 3
    · obtain ⟨k, rfl⟩ := h3; simp [hashUnprotOK, unprotEntry, hn]
    · by_cases h258 : ∃ k, nl = .int k 258
      · obtain ⟨k, rfl⟩ := h258; simp [hashUnprotOK, unprotEntry, hn]
      · by_cases h259 : ∃ k, nl = .int k 259
        · obtain ⟨k, rfl⟩ := h259; simp [hashUnprotOK, unprotEntry, hn]
        · by_cases h260 : ∃ k, nl = .int k 260
          · obtain ⟨k, rfl⟩ := h260; simp [hashUnprotOK, unprotEntry, hn]
          · have g3 : ∀ k, nl = GoVal.int k 3 → False := fun k hk => h3 ⟨k, hk⟩
            have g258 : ∀ k, nl = GoVal.int k 258 → False := fun k hk => h258 ⟨k, hk⟩
            have g259 : ∀ k, nl = GoVal.int k 259 → False := fun k hk => h259 ⟨k, hk⟩
            have g260 : ∀ k, nl = GoVal.int k 260 → False := fun k hk => h260 ⟨k, hk⟩
            simp [hashUnprotOK, unprotEntry, hn]

theorem hashUnprotOK_iff : ∀ (g : GoMap), hashUnprotOK g = true ↔ ∀ e ∈ g, unprotEntry e = true
  | [] => by simp [hashUnprotOK]
  | e :: r => by
    rw [hashUnprotOK_cons, Bool.and_eq_true, List.forall_mem_cons, hashUnprotOK_iff r]

/-- `protEntry` only looks at the normalised label and at the KIND of the value -/
theorem protEntry_congr {e e' : GoVal × GoVal} (hl : normalizeLabel e'.1 = normalizeLabel e.1)
    (h1 : (∃ a, e.2 = .alg a) ∨ canInt e.2 = true → (∃ a, e'.2 = .alg a) ∨ canInt e'.2 = true)
    (h2 : canUint e.2 = true → canUint e'.2 = true) (h3 : canText e.2 = true → canText e'.2 = true)
    {b : Bool} (h : protEntry e = some b) : protEntry e' = some b := by
  obtain ⟨l, v⟩ := e
  obtain ⟨l', v'⟩ := e'
  simp only at hl h1 h2 h3
  unfold protEntry at h ⊢
  simp only [hl]
  cases hn : normalizeLabel l with
  | none => simp [hn] at h
  | some nl =>
    simp only [hn] at h ⊢
    by_cases g3 : ∃ k, nl = .int k 3
    · obtain ⟨k, rfl⟩ := g3; simp at h
    · by_cases g258 : ∃ k, nl = .int k 258
      · obtain ⟨k, rfl⟩ := g258
        have hb : b = true ∧ ((∃ a, v = .alg a) ∨ canInt v = true) := by
          cases v <;> simp_all [canInt]
        obtain ⟨rfl, hv⟩ := hb
        rcases h1 hv with ⟨a, rfl⟩ | hc
        · rfl
        · cases v' <;> simp_all [canInt]
      · by_cases g259 : ∃ k, nl = .int k 259
        · obtain ⟨k, rfl⟩ := g259
          simp only at h ⊢
          split at h
          · rename_i hc
            cases h
            have : (canUint v' || canText v') = true := by
              simp only [Bool.or_eq_true] at hc ⊢
              rcases hc with hc | hc
              · exact .inl (h2 hc)
              · exact .inr (h3 hc)
            simp [this]
          · cases h
        · by_cases g260 : ∃ k, nl = .int k 260
          · obtain ⟨k, rfl⟩ := g260
            simp only at h ⊢
            split at h
            · rename_i hc; cases h; simp [h3 hc]
            · cases h
          · have k3 : ∀ k, nl = GoVal.int k 3 → False := fun k hk => g3 ⟨k, hk⟩
            have k258 : ∀ k, nl = GoVal.int k 258 → False := fun k hk => g258 ⟨k, hk⟩
            have k259 : ∀ k, nl = GoVal.int k 259 → False := fun k hk => g259 ⟨k, hk⟩
            have k260 : ∀ k, nl = GoVal.int k 260 → False := fun k hk => g260 ⟨k, hk⟩
            simp at h ⊢
            exact h

theorem kind_normVal {v : GoVal} (hv : FlatVal v) (hu : UintOK v) :
    ((∃ a, v = .alg a) ∨ canInt v = true → canInt (normVal v) = true) ∧
    (canUint v = true → canUint (normVal v) = true) ∧
    (canText v = true → canText (normVal v) = true) := by
  cases v <;> simp only [FlatVal] at hv <;> simp [normVal, canInt, canUint, canText]
  case int k n =>
    simp only [UintOK] at hu
    cases hs : k.signed <;> simp_all [IntKind.signed]

theorem protEntry_lbl1 (v : GoVal) : protEntry (lbl 1, v) = some false := by
  simp [protEntry, lbl, normalizeLabel, wrap64]

/-- what the protected-header decoder makes of a flat entry passes the per-entry rule whenever the
    entry that was encoded did -/
theorem protEntry_decEntry {e : GoVal × GoVal} (hl : FlatLabel e.1) (hv : FlatVal e.2)
    (hu : UintOK e.2) {b : Bool} (h : protEntry e = some b) : protEntry (decEntry e) = some b := by
  obtain ⟨k1, k2, k3⟩ := kind_normVal hv hu
  have hn : protEntry (normEntry e) = some b :=
    protEntry_congr (e := e) (e' := normEntry e) (normalizeLabel_normVal hl)
      (fun hc => .inr (k1 hc)) k2 k3 h
  unfold decEntry castEntry
  split
  · rename_i hk
    have hk1 : (normEntry e).1 = lbl 1 :=
      eq_of_keyEq_of_normalizes' (by rw [normalizeLabel_lbl1]; simp) hk
    have h0 : protEntry (normEntry e) = some false := by
      have : normEntry e = (lbl 1, (normEntry e).2) := by rw [← hk1]
      rw [this]; exact protEntry_lbl1 _
    rw [h0] at hn
    rw [hk1, protEntry_lbl1]
    exact hn
  · exact hn

theorem unprotEntry_congr {e e' : GoVal × GoVal} (hl : normalizeLabel e'.1 = normalizeLabel e.1) :
    unprotEntry e' = unprotEntry e := by
  unfold unprotEntry
  rw [hl]

/-! ### the hash-envelope rules survive signing and the round trip -/

/-- when `Algorithm()` finds nothing, the assignment `p[int64(1)] = alg` appends -/
theorem set_lbl1_of_notFound (p : GoMap) (v : GoVal) (h : algorithmOf p = .notFound) :
    p.set (lbl 1) v = p ++ [(lbl 1, v)] := by
  have hnone : lookupLabel p (lbl 1) = none := by
    unfold algorithmOf at h
    cases hl : lookupLabel p (lbl 1) with
    | none => rfl
    | some x => rw [hl] at h; cases x <;> simp at h <;> (split at h <;> cases h)
  have hhas : p.has (lbl 1) = false := by
    unfold lookupLabel at hnone
    cases hlk : p.lookup (lbl 1) with
    | none => simp [GoMap.has, hlk]
    | some x => simp [hlk] at hnone
  simp [GoMap.set, hhas]

theorem lookup_append_of_some {h r : GoMap} {k v : GoVal} (hl : h.lookup k = some v) :
    (h ++ r).lookup k = some v := by
  unfold GoMap.lookup at hl ⊢
  cases hf : h.find? (fun e => e.1.keyEq k) with
  | none => simp [hf] at hl
  | some e => rw [List.find?_append, hf]; simpa [hf] using hl

theorem lookup_258 (base : GoMap) (p : HashPayload) :
    (setHashEnvelopeProtectedHeader base p).lookup (lbl 258) = some (.alg p.alg) := by
  unfold setHashEnvelopeProtectedHeader
  simp only []
  have h1 : (base.set (lbl 258) (.alg p.alg)).lookup (lbl 258) = some (.alg p.alg) :=
    C14.lookup_set_lbl_same _ _ _
  have h2 : (match p.pct with
      | some v => (base.set (lbl 258) (.alg p.alg)).set (lbl 259) v
      | none => base.set (lbl 258) (.alg p.alg)).lookup (lbl 258) = some (.alg p.alg) := by
    cases p.pct with
    | none => exact h1
    | some v => simp only []; rw [C14.lookup_set_lbl_other _ 259 258 _ (by decide)]; exact h1
  split
  · rw [C14.lookup_set_lbl_other _ 260 258 _ (by decide)]; exact h2
  · exact h2

/-- the protected map `SignHashEnvelope` builds from a flat map is flat -/
theorem flat_hashProt {base : GoMap} {p : HashPayload} (hf : FlatMap base)
    (hu : ∀ e ∈ base, UintOK e.2) (hpa : int64Range p.alg)
    (hpct : ∀ x, p.pct = some x → FlatVal x ∧ UintOK x)
    (hloc : utf8Valid p.location = true ∧ p.location.length < 18446744073709551616) :
    FlatMap (setHashEnvelopeProtectedHeader base p) ∧
    (∀ e ∈ setHashEnvelopeProtectedHeader base p, UintOK e.2) ∧
    (setHashEnvelopeProtectedHeader base p).length ≤ base.length + 3 := by
  have fl : ∀ n : Int, int64Range n → FlatLabel (lbl n) := fun n hn => by
    simpa [lbl, FlatLabel] using hn
  have f1 := flatMap_set (k := lbl 258) (v := .alg p.alg) hf (fl 258 (by decide)) hpa
  have u1 := uintOK_set (k := lbl 258) (v := .alg p.alg) hu (by simp [UintOK])
  have l1 := length_set_le base (lbl 258) (.alg p.alg)
  unfold setHashEnvelopeProtectedHeader
  simp only []
  cases hp : p.pct with
  | none =>
    simp only []
    split
    · exact ⟨flatMap_set f1 (fl 260 (by decide)) hloc, uintOK_set u1 (by simp [UintOK]),
        by have := length_set_le (base.set (lbl 258) (.alg p.alg)) (lbl 260) (.str p.location); omega⟩
    · exact ⟨f1, u1, by omega⟩
  | some x =>
    obtain ⟨hx1, hx2⟩ := hpct x hp
    have f2 := flatMap_set (k := lbl 259) (v := x) f1 (fl 259 (by decide)) hx1
    have u2 := uintOK_set (k := lbl 259) (v := x) u1 hx2
    have l2 := length_set_le (base.set (lbl 258) (.alg p.alg)) (lbl 259) x
    simp only []
    split
    · exact ⟨flatMap_set f2 (fl 260 (by decide)) hloc, uintOK_set u2 (by simp [UintOK]),
        by have := length_set_le ((base.set (lbl 258) (.alg p.alg)).set (lbl 259) x) (lbl 260)
             (.str p.location); omega⟩
    · exact ⟨f2, u2, by omega⟩

/-- the signing gate keeps the hash-envelope rules and the stored payload-hash-algorithm -/
theorem hashRules_after_gate {prot p' u : GoMap} {alg : Int} {a : Int}
    (hg : ensureSigningAlgorithm none prot alg none = .ok p')
    (hr : validateHashEnvelopeHeaders prot u = true)
    (hl : prot.lookup (lbl 258) = some (.alg a)) :
    validateHashEnvelopeHeaders p' u = true ∧ lookupLabel p' (lbl 258) = some (.alg a) := by
  rcases C04.sign_gate_cases none prot p' alg none hg with ⟨-, rfl⟩ | ⟨-, -, rfl⟩ | ⟨hn, -, -, rfl⟩
  · exact ⟨hr, C12.lookupLabel_of_lookup _ _ _ hl⟩
  · exact ⟨hr, C12.lookupLabel_of_lookup _ _ _ hl⟩
  · rw [set_lbl1_of_notFound prot _ hn]
    refine ⟨?_, C12.lookupLabel_of_lookup _ _ _ (lookup_append_of_some hl)⟩
    obtain ⟨hp, hu⟩ := C12.headers_rule _ _ hr
    rw [hashProtLoop_iff] at hp
    obtain ⟨hp1, hp2⟩ := hp
    have : hashProtLoop (prot ++ [(lbl 1, GoVal.alg alg)]) false = some true := by
      rw [hashProtLoop_iff]
      refine ⟨?_, ?_⟩
      · intro e he
        rcases List.mem_append.mp he with he | he
        · exact hp1 e he
        · simp only [List.mem_singleton] at he; subst he; rw [protEntry_lbl1]; simp
      · rcases hp2 with h0 | ⟨e, he, h1⟩
        · cases h0
        · exact .inr ⟨e, List.mem_append_left _ he, h1⟩
    simp only [validateHashEnvelopeHeaders, this, hu]

/-- the decoded buckets of a flat envelope pass `validateHashEnvelopeHeaders` -/
theorem hashRules_decoded {p u : GoMap} (hfp : FlatMap p) (hup : ∀ e ∈ p, UintOK e.2)
    (hfu : FlatMap u) (hr : validateHashEnvelopeHeaders p u = true) :
    validateHashEnvelopeHeaders ((sortEntries p).map decEntry) ((sortEntries u).map normEntry)
      = true := by
  obtain ⟨hp, hu⟩ := C12.headers_rule _ _ hr
  rw [hashProtLoop_iff] at hp
  obtain ⟨hp1, hp2⟩ := hp
  have hP : hashProtLoop ((sortEntries p).map decEntry) false = some true := by
    rw [hashProtLoop_iff]
    refine ⟨?_, ?_⟩
    · intro e' he'
      obtain ⟨e, he, rfl⟩ := List.mem_map.mp he'
      have heg : e ∈ p := (sortEntries_perm p).mem_iff.mp he
      cases hb : protEntry e with
      | none => exact absurd hb (hp1 e heg)
      | some b => rw [protEntry_decEntry (hfp e heg).1 (hfp e heg).2 (hup e heg) hb]; simp
    · rcases hp2 with h0 | ⟨e, he, h1⟩
      · cases h0
      · exact .inr ⟨decEntry e,
          List.mem_map_of_mem ((sortEntries_perm p).mem_iff.mpr he),
          protEntry_decEntry (hfp e he).1 (hfp e he).2 (hup e he) h1⟩
  have hU : hashUnprotOK ((sortEntries u).map normEntry) = true := by
    rw [hashUnprotOK_iff] at hu ⊢
    intro e' he'
    obtain ⟨e, he, rfl⟩ := List.mem_map.mp he'
    have heg : e ∈ u := (sortEntries_perm u).mem_iff.mp he
    rw [unprotEntry_congr (e := e) (by simp only [normEntry]; exact normalizeLabel_normVal (hfu e heg).1)]
    exact hu e heg
  simp only [validateHashEnvelopeHeaders, hP, hU]

/-- `PayloadHashAlgorithm()` on the decoded protected bucket -/
theorem payloadHashAlgorithm_decoded {p : GoMap} {a : Int} (hf : FlatMap p)
    (hv : validateHeaderParameters p true = true)
    (hl : lookupLabel p (lbl 258) = some (.alg a)) :
    payloadHashAlgorithm ((sortEntries p).map decEntry) = .found a := by
  have hn : normalizeLabel (lbl 258) = some (lbl 258) :=
    normalizeLabel_flat (l := lbl 258) (by simp [lbl, FlatLabel, int64Range])
  have hhas : hasLabel p (lbl 258) = true := by unfold hasLabel; rw [hl]; rfl
  obtain ⟨e, he, hne⟩ := (C13.hasLabel_norm' p (lbl 258) (lbl 258) hn).mp hhas
  obtain ⟨h1, h2⟩ := C08.protected_lookup_roundtrip p hf hv e he (lbl 258) (by rw [hn, hne])
  rw [hl] at h1
  have hv2 : e.2 = .alg a := (Option.some.inj h1).symm
  have hk : normVal e.1 = lbl 258 := by
    rw [normalizeLabel_flat (hf e he).1] at hne; exact Option.some.inj hne
  have hde : decEntry e = (lbl 258, .int .i64 a) := by
    rw [C08.decEntry_other (by rw [hk]; simp [lbl]), hk, hv2]; rfl
  unfold payloadHashAlgorithm
  rw [h2, hde]
  rfl

end WireClosure

namespace C01
open WireClosure

/-- 1. COSE_Sign1, END TO END (tagged or untagged): a message with flat header maps that the
    library signed and encoded is decoded by the library, the decoded message verifies under the
    matching verifier with the same external data, and carries the signed payload and the signer's
    signature.  No hypothesis about decoding or the algorithm gate. -/
theorem sign1_wire_flat (tagged : Bool) (m : Sign1Msg) (ext : Option Bytes) (s : Signer)
    (v : Verifier) (b : Bytes) (hm : Matches s v)
    (hrp : m.h.rawP = none) (hru : m.h.rawU = none)
    (hfp : FlatMap m.h.p) (hfu : FlatMap m.h.u)
    (hup : ∀ e ∈ m.h.p, UintOK e.2) (huu : ∀ e ∈ m.h.u, UintOK e.2)
    (hlp : m.h.p.length < maxElems) (hlu : m.h.u.length ≤ maxElems)
    (hpl : blen m.payload < 18446744073709551616) (halg : int64Range s.alg)
    (hsl : ∀ t sg, s.sign t = .ok sg → sg.length < 18446744073709551616)
    (hok : (Sign1.sign m ext s).out = .ok ())
    (henc : Sign1.marshal tagged (Sign1.sign m ext s).state = .ok b) :
    ∃ m2, Sign1.unmarshal tagged b = .ok m2 ∧ (Sign1.verify m2 ext v).1 = .ok () ∧
      m2.payload = m.payload ∧ m2.sig = (Sign1.sign m ext s).state.sig := by
  obtain ⟨_, _, _, -, -, -, -, hst⟩ := sign1_sign_ok_inv m ext s hok
  have hpayst : (Sign1.sign m ext s).state.payload = m.payload := by rw [hst]
  have henc' : Sign1.marshal tagged { (Sign1.sign m ext s).state with payload := m.payload }
      = .ok b := by
    rw [← hpayst]; exact henc
  obtain ⟨m2, hdec, hpay, hs2, hver, -⟩ :=
    sign1_wire_flat_core tagged m ext s v m.payload b hm hrp hru hfp hfu hup huu hlp hlu hpl halg
      hsl hok henc'
  refine ⟨m2, hdec, ?_, hpay, hs2⟩
  obtain ⟨h2, pay2, sg2⟩ := m2
  simp only at hpay
  subst hpay
  exact hver

/-- 2. detached payload, END TO END: sign, encode WITHOUT the payload (`payload := nil`), decode,
    put the original payload back, verify.  No bound on the payload. -/
theorem sign1_wire_detached_flat (tagged : Bool) (m : Sign1Msg) (ext : Option Bytes) (s : Signer)
    (v : Verifier) (b : Bytes) (hm : Matches s v)
    (hrp : m.h.rawP = none) (hru : m.h.rawU = none)
    (hfp : FlatMap m.h.p) (hfu : FlatMap m.h.u)
    (hup : ∀ e ∈ m.h.p, UintOK e.2) (huu : ∀ e ∈ m.h.u, UintOK e.2)
    (hlp : m.h.p.length < maxElems) (hlu : m.h.u.length ≤ maxElems)
    (halg : int64Range s.alg)
    (hsl : ∀ t sg, s.sign t = .ok sg → sg.length < 18446744073709551616)
    (hok : (Sign1.sign m ext s).out = .ok ())
    (henc : Sign1.marshal tagged { (Sign1.sign m ext s).state with payload := none } = .ok b) :
    ∃ m2, Sign1.unmarshal tagged b = .ok m2 ∧
      (Sign1.verify { m2 with payload := m.payload } ext v).1 = .ok () ∧ m2.payload = none ∧
      m2.sig = (Sign1.sign m ext s).state.sig := by
  obtain ⟨m2, hdec, hpay, hs2, hver, -⟩ :=
    sign1_wire_flat_core tagged m ext s v none b hm hrp hru hfp hfu hup huu hlp hlu
      (by simp [blen]) halg hsl hok henc
  exact ⟨m2, hdec, hver, hpay, hs2⟩

/-- 3 (general form). the algorithm `Algorithm()` reports on the DECODED message is the signer's —
    except in the one situation where go-cose signs without an `alg` parameter: the caller's
    protected map has none and external data is supplied; then the decoded message has none
    either (and verification passes through the same external-data exemption). -/
theorem sign1_wire_flat_alg_cases (tagged : Bool) (m : Sign1Msg) (ext : Option Bytes) (s : Signer)
    (v : Verifier) (b : Bytes) (hm : Matches s v)
    (hrp : m.h.rawP = none) (hru : m.h.rawU = none)
    (hfp : FlatMap m.h.p) (hfu : FlatMap m.h.u)
    (hup : ∀ e ∈ m.h.p, UintOK e.2) (huu : ∀ e ∈ m.h.u, UintOK e.2)
    (hlp : m.h.p.length < maxElems) (hlu : m.h.u.length ≤ maxElems)
    (hpl : blen m.payload < 18446744073709551616) (halg : int64Range s.alg)
    (hsl : ∀ t sg, s.sign t = .ok sg → sg.length < 18446744073709551616)
    (hok : (Sign1.sign m ext s).out = .ok ())
    (henc : Sign1.marshal tagged (Sign1.sign m ext s).state = .ok b) :
    ∃ m2, Sign1.unmarshal tagged b = .ok m2 ∧
      (algorithmOf m2.h.p = .found s.alg ∨
        (algorithmOf m.h.p = .notFound ∧ (ext.getD []).length > 0 ∧
          algorithmOf m2.h.p = .notFound)) := by
  obtain ⟨_, _, _, -, -, -, -, hst⟩ := sign1_sign_ok_inv m ext s hok
  have hpayst : (Sign1.sign m ext s).state.payload = m.payload := by rw [hst]
  have henc' : Sign1.marshal tagged { (Sign1.sign m ext s).state with payload := m.payload }
      = .ok b := by
    rw [← hpayst]; exact henc
  obtain ⟨m2, hdec, -, -, -, -, -, hcase⟩ :=
    sign1_wire_flat_core tagged m ext s v m.payload b hm hrp hru hfp hfu hup huu hlp hlu hpl halg
      hsl hok henc'
  exact ⟨m2, hdec, hcase⟩

/-- 3. C04 across the wire: the typed algorithm the verifier consults on the decoded message
    equals the algorithm that was signed.  `hnx`: no external data, or the caller's protected map
    already names an algorithm (see `sign1_wire_flat_alg_needs_hnx`). -/
theorem sign1_wire_flat_alg (tagged : Bool) (m : Sign1Msg) (ext : Option Bytes) (s : Signer)
    (v : Verifier) (b : Bytes) (hm : Matches s v)
    (hrp : m.h.rawP = none) (hru : m.h.rawU = none)
    (hfp : FlatMap m.h.p) (hfu : FlatMap m.h.u)
    (hup : ∀ e ∈ m.h.p, UintOK e.2) (huu : ∀ e ∈ m.h.u, UintOK e.2)
    (hlp : m.h.p.length < maxElems) (hlu : m.h.u.length ≤ maxElems)
    (hpl : blen m.payload < 18446744073709551616) (halg : int64Range s.alg)
    (hsl : ∀ t sg, s.sign t = .ok sg → sg.length < 18446744073709551616)
    (hnx : (ext.getD []).length = 0 ∨ algorithmOf m.h.p ≠ .notFound)
    (hok : (Sign1.sign m ext s).out = .ok ())
    (henc : Sign1.marshal tagged (Sign1.sign m ext s).state = .ok b) :
    ∃ m2, Sign1.unmarshal tagged b = .ok m2 ∧ algorithmOf m2.h.p = .found s.alg := by
  obtain ⟨m2, hdec, hcase⟩ := sign1_wire_flat_alg_cases tagged m ext s v b hm hrp hru hfp hfu hup
    huu hlp hlu hpl halg hsl hok henc
  refine ⟨m2, hdec, ?_⟩
  rcases hcase with h | ⟨hn, hx, -⟩
  · exact h
  · rcases hnx with h0 | h0
    · omega
    · exact absurd hn h0

/-! ### non-vacuity -/

/-- protected `{1: ES256}`, unprotected `{4: h'3131'}` (a kid), payload `010203`; nothing retained
    from a decoder -/
def exF : Sign1Msg :=
  { h := { p := [(lbl 1, .alg (-7))], u := [(lbl 4, .bytes [0x31, 0x31])] },
    payload := some [1, 2, 3] }

theorem exF_flat : FlatMap exF.h.p ∧ FlatMap exF.h.u ∧ (∀ e ∈ exF.h.p, UintOK e.2) ∧
    (∀ e ∈ exF.h.u, UintOK e.2) := by
  refine ⟨?_, ?_, ?_, ?_⟩ <;> intro e he <;> simp only [exF, List.mem_singleton] at he <;>
    subst he <;> simp [lbl, FlatLabel, FlatVal, int64Range, UintOK]

theorem exF_mpP : marshalProtected exF.h = .ok [0x43, 0xa1, 0x01, 0x26] := by
  simp [marshalProtected, exF, GoVal.modelledPairs, GoVal.modelled, encodeBucket, encCfg,
    validateHeaderParameters, validateLoop, normalizeLabel, wrap64, checkParam, lbl, encodePairs,
    encodeAny, encInt, encHead, encBstr, HW.shortest, headBytes, sortPairs, concatPairs]

theorem exF_mpU : marshalUnprotected exF.h = .ok [0xa1, 0x04, 0x42, 0x31, 0x31] := by
  simp [marshalUnprotected, exF, GoVal.modelledPairs, GoVal.modelled, encodeBucket, encCfg,
    validateHeaderParameters, validateLoop, normalizeLabel, wrap64, checkParam, lbl, canBstr,
    encodePairs, encodeAny, encInt, encHead, encBstr, HW.shortest, headBytes, sortPairs,
    concatPairs, wellformedNoTags, parseTop, fuelFor, parseItem, parsePairs, parseHead,
    maxNested, maxElems]

theorem exF_sign : (Sign1.sign exF none exS7).out = .ok () ∧
    (Sign1.sign exF none exS7).state =
      { h := exF.h, payload := some [1, 2, 3], sig := some [7] } := by
  have hg : ensureSigningAlgorithm exF.h.rawP exF.h.p (-7) none = .ok exF.h.p := by rfl
  obtain ⟨t, ht⟩ : ∃ t, Sign1.toBeSigned
      { h := { rawP := exF.h.rawP, p := exF.h.p, rawU := exF.h.rawU, u := exF.h.u },
        payload := some [1, 2, 3] } none = .ok t :=
    ⟨_, toBeSigned1_of (m := { h := exF.h, payload := some [1, 2, 3] }) exF_mpP ex_det2⟩
  have hp : exF.payload = some [1, 2, 3] := rfl
  have hs : exF.sig = none := rfl
  simp [Sign1.sign, hp, hs, blen, hg, ht, exS7]

theorem exF_marshal : ∃ b, Sign1.marshal true (Sign1.sign exF none exS7).state = .ok b := by
  have hiv : ensureIV exF.h.p exF.h.u = true := by decide
  rw [exF_sign.2]
  refine ⟨0xd2 :: 0x84 :: ([0x43, 0xa1, 0x01, 0x26] ++ ([0xa1, 0x04, 0x42, 0x31, 0x31] ++
    (optBytesEnc (some [1, 2, 3]) ++ encBstr [7]))), ?_⟩
  simp [Sign1.marshal, Sign1.content, Hdrs.marshal, exF_mpP, exF_mpU, hiv, blen, bind, Out.bind]

/-- 5. non-vacuity of 1 and 3: every hypothesis of `sign1_wire_flat` holds for `exF` (non-empty
    protected map with `alg`, a kid in the unprotected map) with the matching pair `exS7`/`exV7`;
    the theorem yields the decoded, verified message -/
example : ∃ b m2, Sign1.marshal true (Sign1.sign exF none exS7).state = .ok b ∧
    Sign1.unmarshal true b = .ok m2 ∧ (Sign1.verify m2 none exV7).1 = .ok () ∧
    m2.payload = some [1, 2, 3] ∧ m2.sig = some [7] := by
  obtain ⟨b, hb⟩ := exF_marshal
  obtain ⟨h1, h2, h3, h4⟩ := exF_flat
  obtain ⟨m2, hdec, hver, hpay, hsig⟩ :=
    sign1_wire_flat true exF none exS7 exV7 b exSV7 rfl rfl h1 h2 h3 h4
      (by simp [exF, maxElems]) (by simp [exF, maxElems]) (by simp [exF, blen])
      (by simp [exS7, int64Range]) (by intro t sg h; cases h; simp) exF_sign.1 hb
  exact ⟨b, m2, hb, hdec, hver, hpay, by rw [hsig, exF_sign.2]⟩

example : ∃ b m2, Sign1.marshal true (Sign1.sign exF none exS7).state = .ok b ∧
    Sign1.unmarshal true b = .ok m2 ∧ algorithmOf m2.h.p = .found (-7) := by
  obtain ⟨b, hb⟩ := exF_marshal
  obtain ⟨h1, h2, h3, h4⟩ := exF_flat
  obtain ⟨m2, hdec, ha⟩ :=
    sign1_wire_flat_alg true exF none exS7 exV7 b exSV7 rfl rfl h1 h2 h3 h4
      (by simp [exF, maxElems]) (by simp [exF, maxElems]) (by simp [exF, blen])
      (by simp [exS7, int64Range]) (by intro t sg h; cases h; simp) (.inl rfl) exF_sign.1 hb
  exact ⟨b, m2, hb, hdec, ha⟩

/-! ### why `hnx` is needed in 3 -/

/-- no header parameters at all -/
def exN : Sign1Msg := { payload := some [1, 2, 3] }

theorem exN_sign : (Sign1.sign exN (some [9]) exS7).out = .ok () ∧
    (Sign1.sign exN (some [9]) exS7).state =
      { h := {}, payload := some [1, 2, 3], sig := some [7] } := by
  have hg : ensureSigningAlgorithm none [] (-7) (some [9]) = .ok [] := by rfl
  obtain ⟨t, ht⟩ : ∃ t, Sign1.toBeSigned
      { h := { p := [] }, payload := some [1, 2, 3] } (some [9]) = .ok t :=
    ⟨_, toBeSigned1_of (m := { h := {}, payload := some [1, 2, 3] }) ex_mp0 ex_det1⟩
  have hp : exN.payload = some [1, 2, 3] := rfl
  have hs : exN.sig = none := rfl
  have hh : exN.h = {} := rfl
  simp [Sign1.sign, hp, hs, blen, hg, ht, exS7, hh]

/-- 3 without `hnx` is false: with external data and no `alg` in the caller's protected map
    go-cose signs WITHOUT inserting the algorithm; the message crosses the wire and verifies (same
    external data), but the decoded message names no algorithm. -/
theorem sign1_wire_flat_alg_needs_hnx :
    (Sign1.sign exN (some [9]) exS7).out = .ok () ∧
    ∃ b m2, Sign1.marshal true (Sign1.sign exN (some [9]) exS7).state = .ok b ∧
      Sign1.unmarshal true b = .ok m2 ∧ (Sign1.verify m2 (some [9]) exV7).1 = .ok () ∧
      algorithmOf m2.h.p = .notFound := by
  refine ⟨exN_sign.1, ?_⟩
  have hmU : marshalUnprotected ({} : Hdrs) = .ok [0xa0] := by
    simp [marshalUnprotected, GoVal.modelledPairs, encodeBucket]
  have hb : Sign1.marshal true (Sign1.sign exN (some [9]) exS7).state =
      .ok (0xd2 :: 0x84 :: ([0x40] ++ ([0xa0] ++ (optBytesEnc (some [1, 2, 3]) ++ encBstr [7])))) := by
    rw [exN_sign.2]
    have hiv : ensureIV ({} : Hdrs).p ({} : Hdrs).u = true := by decide
    simp [Sign1.marshal, Sign1.content, Hdrs.marshal, ex_mp0, hmU, hiv, blen, bind, Out.bind]
  have hnil : FlatMap [] := fun e he => by cases he
  have hst : { (Sign1.sign exN (some [9]) exS7).state with payload := exN.payload }
      = (Sign1.sign exN (some [9]) exS7).state := by rw [exN_sign.2]; rfl
  obtain ⟨m2, hdec, hpay, -, hver, hp2, -, -⟩ :=
    sign1_wire_flat_core true exN (some [9]) exS7 exV7 exN.payload _ exSV7 rfl rfl hnil hnil
      (fun e he => by cases he) (fun e he => by cases he)
      (by simp [exN, maxElems]) (by simp [exN, maxElems]) (by simp [exN, blen])
      (by simp [exS7, int64Range]) (by intro t sg h; cases h; simp) exN_sign.1
      (by rw [hst]; exact hb)
  refine ⟨_, m2, hb, hdec, ?_, ?_⟩
  · obtain ⟨h2, pay2, sg2⟩ := m2
    simp only at hpay
    subst hpay
    exact hver
  · rw [hp2, exN_sign.2]
    simp [sortEntries, algorithmOf, lookupLabel, GoMap.lookup, normalizeLabel, lbl]

/-! ### why `halg` and the UTF-8 conditions are needed -/

/-- a "signer" whose algorithm identifier does not fit Go's `int64` -/
def exSbig : Signer := { alg := 18446744073709551616, sign := fun _ => .ok [7] }
def exVbig : Verifier :=
  { alg := 18446744073709551616,
    verify := fun _ sg => if sg = [7] then .ok () else .err .verification }
theorem exSVbig : Matches exSbig exVbig where
  alg := rfl
  correct := by intro tbs sig h; cases h; simp [exVbig]
  nonempty := by intro tbs sig h; cases h; simp

def exPbig : Wire := .bstr .imm [0xa1, 0x01, 0x1b, 0, 0, 0, 0, 0, 0, 0, 0]

theorem exbig_mpP : marshalProtected { p := [(lbl 1, .alg 18446744073709551616)] }
    = .ok exPbig.bytes := by
  simp [marshalProtected, GoVal.modelledPairs, GoVal.modelled, encodeBucket, encCfg,
    validateHeaderParameters, validateLoop, normalizeLabel, wrap64, checkParam, lbl, encodePairs,
    encodeAny, encInt, encHead, encBstr, HW.shortest, headBytes, sortPairs, concatPairs, exPbig,
    Wire.bytes]

theorem exbig_det : detBstr exPbig.bytes = .ok exPbig.bytes := by
  simp [detBstr, parseTop, parseItem, fuelFor, parseHead, exPbig, Wire.bytes, headBytes]

theorem exbig_decP : decProtected exPbig = .ok [(lbl 1, .alg 0)] := by
  simp [exPbig, decProtected, decProtectedContent, parseTop, parseItem, parsePairs, fuelFor, parseHead,
    maxNested, maxElems, labelsOK, maxInt64, GoVal.keyEq, decodePairs, decodeAny, keyHashable,
    validateHeaderParameters, validateLoop, normalizeLabel, wrap64, checkParam, castAlg, algorithmOf,
    lookupLabel, GoMap.lookup, lbl, GoMap.set, GoMap.has, bind, Out.bind, canInt, canTstr,
    IntKind.signed, Wire.stripSelfDescribed,
    (by decide : headerLabelsUntagged [0xa1, 0x01, 0x1b, 0, 0, 0, 0, 0, 0, 0, 0] = true)]


theorem exbig_sign : (Sign1.sign exN none exSbig).out = .ok () ∧
    (Sign1.sign exN none exSbig).state =
      { h := { p := [(lbl 1, .alg 18446744073709551616)] }, payload := some [1, 2, 3],
        sig := some [7] } := by
  have hg : ensureSigningAlgorithm none [] 18446744073709551616 none
      = .ok [(lbl 1, .alg 18446744073709551616)] := by rfl
  obtain ⟨t, ht⟩ : ∃ t, Sign1.toBeSigned
      { h := { p := [(lbl 1, .alg 18446744073709551616)] }, payload := some [1, 2, 3] } none
        = .ok t :=
    ⟨_, toBeSigned1_of
      (m := { h := { p := [(lbl 1, .alg 18446744073709551616)] }, payload := some [1, 2, 3] })
      exbig_mpP exbig_det⟩
  have hp : exN.payload = some [1, 2, 3] := rfl
  have hs : exN.sig = none := rfl
  have hh : exN.h = {} := rfl
  simp [Sign1.sign, hp, hs, blen, hg, ht, exSbig, hh]

/-- `halg` (the signer's algorithm identifier lies in Go's `int64` range) cannot be dropped: the
    model's `Int` allows 2^64 (no Go `Algorithm` value does); its head wraps to `1b 00…00`, the
    decoder reads algorithm 0, and the gate refuses the verifier. -/
theorem sign1_wire_flat_needs_halg :
    Matches exSbig exVbig ∧ (Sign1.sign exN none exSbig).out = .ok () ∧
    ∃ b m2, Sign1.marshal true (Sign1.sign exN none exSbig).state = .ok b ∧
      Sign1.unmarshal true b = .ok m2 ∧ algorithmOf m2.h.p = .found 0 ∧
      (Sign1.verify m2 none exVbig).1 = .err .algMismatch := by
  refine ⟨exSVbig, exbig_sign.1, ?_⟩
  have hmU : marshalUnprotected { p := [(lbl 1, .alg 18446744073709551616)] } = .ok exU.bytes := by
    simp [marshalUnprotected, GoVal.modelledPairs, encodeBucket, exU_bytes]
  have hb : Sign1.marshal true (Sign1.sign exN none exSbig).state =
      .ok ([0xd2] ++ (Wire.arr .imm [exPbig, exU, .bstr .imm [1, 2, 3], .bstr .imm [7]]).bytes) := by
    rw [exbig_sign.2]
    have hiv : ensureIV [(lbl 1, .alg 18446744073709551616)] [] = true := by decide
    simp [Sign1.marshal, Sign1.content, Hdrs.marshal, exbig_mpP, hmU, hiv, blen, bind, Out.bind]
    decide
  have hdec := C07.wf_sign1_accepted_full true (p := exPbig) (u := exU) (pl := .bstr .imm [1, 2, 3])
    (hw := .imm) (c := [7])
    (by simp [Wire.wf, Wire.wfList, Wire.wfPairs, HW.fits, exPbig, exU])
    (by simp [Wire.inLimits, Wire.inLimitsList, Wire.inLimitsPairs, exPbig, exU, maxNested, maxElems])
    exbig_decP ex_decU (by decide) (.inr ⟨_, _, rfl⟩) (by decide)
  refine ⟨_, _, hb, hdec, ?_, ?_⟩
  · simp [algorithmOf, lookupLabel, GoMap.lookup, lbl, GoVal.keyEq]
  · simp [Sign1.verify, Accept.payloadOf, blen, ensureVerificationAlgorithm, algorithmOf,
      lookupLabel, GoMap.lookup, lbl, GoVal.keyEq, exVbig]

/-- why `FlatVal` / `FlatLabel` ask for valid UTF-8 (real go-cose behaviour, not a model artefact):
    the encoder emits a Go string as is, the decoder refuses invalid UTF-8.  Here the payload
    location (label 260) of a hash envelope. -/
theorem flat_needs_utf8 :
    validateHeaderParameters [(lbl 260, .str [0xff])] true = true ∧
    encodeBucket encCfg true none [(lbl 260, .str [0xff])]
      = some [0x46, 0xa1, 0x19, 0x01, 0x04, 0x61, 0xff] ∧
    decProtectedContent [0xa1, 0x19, 0x01, 0x04, 0x61, 0xff] = .err .other := by
  refine ⟨?_, ?_, ?_⟩
  · simp [validateHeaderParameters, validateLoop, normalizeLabel, wrap64, checkParam, lbl]
  · simp [encodeBucket, encCfg, validateHeaderParameters, validateLoop, normalizeLabel, wrap64,
      checkParam, lbl, encodePairs, encodeAny, encInt, encTstr, encHead, encBstr, HW.shortest,
      headBytes, sortPairs, concatPairs]
  · simp [decProtectedContent, parseTop, parseItem, parsePairs, fuelFor, parseHead,
      maxNested, maxElems, labelsOK, maxInt64, GoVal.keyEq, decodePairs, decodeAny, keyHashable,
      utf8Valid, bind, Out.bind, Wire.stripSelfDescribed,
      (by decide : headerLabelsUntagged [0xa1, 0x19, 0x01, 0x04, 0x61, 0xff] = true)]

end C01

namespace C12
open WireClosure

/-- 4. hash envelope, closed loop across the wire, END TO END: what `SignHashEnvelope` emits for
    flat caller headers (no retained raw unprotected bytes), `VerifyHashEnvelope` with the matching
    verifier accepts, returning the signed hash value.  No hypothesis about decoding, the
    algorithm gate, the header rules or `PayloadHashAlgorithm()` on the decoded message. -/
theorem henv_closed_flat (s : Signer) (v : Verifier) (h : Hdrs) (p : HashPayload) (b : Bytes)
    (hm : C01.Matches s v) (hru : h.rawU = none)
    (hfp : FlatMap h.p) (hfu : FlatMap h.u)
    (hup : ∀ e ∈ h.p, UintOK e.2) (huu : ∀ e ∈ h.u, UintOK e.2)
    (hlp : h.p.length + 3 < maxElems) (hlu : h.u.length ≤ maxElems)
    (hpa : int64Range p.alg) (hpct : ∀ x, p.pct = some x → FlatVal x ∧ UintOK x)
    (hloc : utf8Valid p.location = true ∧ p.location.length < 18446744073709551616)
    (halg : int64Range s.alg)
    (hsl : ∀ t sg, s.sign t = .ok sg → sg.length < 18446744073709551616)
    (hpl : hashSize p.alg = 0 → blen p.value < 18446744073709551616)
    (hsign : (signHashEnvelope s h p).1 = .ok b) :
    ∃ m3, (verifyHashEnvelope v b).1 = .ok m3 ∧ m3.payload = p.value := by
  obtain ⟨hvh, u, hmatch, hrules, hhelp⟩ := sign_envelope_rules_u s h p b hsign
  have hu : u = h.u := by
    rw [hru] at hmatch
    exact (Out.ok.inj hmatch).symm
  subst hu
  obtain ⟨hok, henc⟩ := C01.sign1Helper_ok_inv _ _ _ _ _ _ hhelp
  obtain ⟨hfprot, huprot, hlprot⟩ := flat_hashProt hfp hup hpa hpct hloc
  have hpl' : blen p.value < 18446744073709551616 := by
    by_cases hz : hashSize p.alg = 0
    · exact hpl hz
    · have := C01.hashSize_lt p.alg
      simp only [validateHash, hz, decide_false, Bool.false_or, decide_eq_true_eq] at hvh
      omega
  obtain ⟨p', tbs, sig, -, hgate, -, -, hst⟩ := C01.sign1_sign_ok_inv _ _ _ hok
  have henc' : Sign1.marshal true { (Sign1.sign
      { h := { h with p := setHashEnvelopeProtectedHeader h.p p, rawP := none, u := h.u },
        payload := p.value, sig := none } none s).state with payload := p.value } = .ok b := by
    rw [hst] at henc ⊢
    exact henc
  obtain ⟨m2, hdec, hpay, -, hver, hp2, hu2, -⟩ :=
    sign1_wire_flat_core true _ none s v p.value b hm rfl hru hfprot hfu huprot huu
      (by simp only; omega) hlu hpl' halg hsl hok henc'
  rw [hst] at hp2
  simp only at hp2 hu2
  -- the protected map that was encoded
  obtain ⟨hfp', hup', -, -⟩ := sign_gate_flat hgate hfprot huprot halg
  obtain ⟨hr', hl'⟩ := hashRules_after_gate hgate hrules (lookup_258 h.p p)
  have hv' : validateHeaderParameters p' true = true := by
    rw [hst] at henc
    obtain ⟨P, U, -, hP, -, -⟩ := C01.sign1_marshal_ok_inv henc
    exact validate_of_encodeBucket (marshalProtected_ok_inv hP).2
  have hrules2 : validateHashEnvelopeHeaders m2.h.p m2.h.u = true := by
    rw [hp2, hu2]; exact hashRules_decoded hfp' hup' hfu hr'
  have halg2 : payloadHashAlgorithm m2.h.p = .found p.alg := by
    rw [hp2]; exact payloadHashAlgorithm_decoded hfp' hv' hl'
  have hver' : (Sign1.verify m2 none v).1 = .ok () := by
    obtain ⟨h2, pay2, sg2⟩ := m2
    simp only at hpay
    subst hpay
    exact hver
  unfold verifyHashEnvelope
  simp only [hdec, hrules2, Bool.not_true, Bool.false_eq_true, if_false]
  cases hv : Sign1.verify m2 none v with
  | mk o calls =>
    rw [hv] at hver'
    simp only at hver'
    subst hver'
    simp only [halg2, hpay, hvh, if_true]
    exact ⟨_, rfl, rfl⟩

/-! ### non-vacuity of 4 -/

def exHval : Bytes := List.replicate 32 0
theorem exHval_len : exHval.length = 32 := by simp [exHval]

def exHp : HashPayload := { alg := -16, value := some exHval, pct := none, location := [] }
def exHh : Hdrs := { p := [(lbl 1, .alg (-7))] }
def exHprot : GoMap := [(lbl 1, .alg (-7)), (lbl 258, .alg (-16))]
def exHm : Sign1Msg := { h := { p := exHprot }, payload := some exHval, sig := none }

theorem exH_prot : setHashEnvelopeProtectedHeader exHh.p exHp = exHprot := by rfl

theorem exH_sort : sortPairs [([1], [38]), ([25, 1, 2], [47])]
    = [([1], [38]), ([25, 1, 2], [47])] :=
  List.mergeSort_of_pairwise (by decide)

theorem exH_mpP : marshalProtected { p := exHprot }
    = .ok [0x47, 0xa2, 0x01, 0x26, 0x19, 0x01, 0x02, 0x2f] := by
  simp [marshalProtected, exHprot, GoVal.modelledPairs, GoVal.modelled, encodeBucket, encCfg,
    validateHeaderParameters, validateLoop, normalizeLabel, wrap64, checkParam, lbl, encodePairs,
    encodeAny, encInt, encHead, encBstr, HW.shortest, headBytes, exH_sort, concatPairs,
    GoVal.keyEq]

theorem exH_det : detBstr [0x47, 0xa2, 0x01, 0x26, 0x19, 0x01, 0x02, 0x2f]
    = .ok [0x47, 0xa2, 0x01, 0x26, 0x19, 0x01, 0x02, 0x2f] := by
  simp [detBstr, parseTop, parseItem, fuelFor, parseHead]

theorem exH_sign : (Sign1.sign exHm none C01.exS7).out = .ok () ∧
    (Sign1.sign exHm none C01.exS7).state = { exHm with sig := some [7] } := by
  have hg : ensureSigningAlgorithm none exHprot (-7) none = .ok exHprot := by rfl
  obtain ⟨t, ht⟩ : ∃ t, Sign1.toBeSigned { h := { p := exHprot }, payload := some exHval } none
      = .ok t :=
    ⟨_, C01.toBeSigned1_of (m := { h := { p := exHprot }, payload := some exHval }) exH_mpP exH_det⟩
  simp [Sign1.sign, exHm, blen, hg, ht, C01.exS7]

theorem exH_signs : ∃ b, (signHashEnvelope C01.exS7 exHh exHp).1 = .ok b := by
  have hvh : validateHash exHp.alg exHp.value = true := by
    simp [validateHash, exHp, hashSize, blen, exHval_len]
  have hr : validateHashEnvelopeHeaders exHprot [] = true := by
    simp [validateHashEnvelopeHeaders, exHprot, hashProtLoop, hashUnprotOK, normalizeLabel, wrap64,
      lbl]
  have hmU : marshalUnprotected { p := exHprot } = .ok [0xa0] := by
    simp [marshalUnprotected, GoVal.modelledPairs, encodeBucket]
  have hiv : ensureIV exHprot [] = true := by decide
  refine ⟨0xd2 :: 0x84 :: ([0x47, 0xa2, 0x01, 0x26, 0x19, 0x01, 0x02, 0x2f] ++ ([0xa0] ++
    (optBytesEnc (some exHval) ++ encBstr [7]))), ?_⟩
  have hhelp : sign1Helper true { p := exHprot } (some exHval) none C01.exS7 =
      (Sign1.marshal true { exHm with sig := some [7] }, (Sign1.sign exHm none C01.exS7).calls) := by
    have h1 : (Sign1.sign { h := { p := exHprot }, payload := some exHval, sig := none } none
        C01.exS7).out = .ok () := exH_sign.1
    have h2 : (Sign1.sign { h := { p := exHprot }, payload := some exHval, sig := none } none
        C01.exS7).state = { exHm with sig := some [7] } := exH_sign.2
    simp only [sign1Helper, h1, h2]
    rfl
  have hunf : signHashEnvelope C01.exS7 exHh exHp =
      sign1Helper true { p := exHprot } (some exHval) none C01.exS7 := by
    have hru : exHh.rawU = none := rfl
    have hu : exHh.u = [] := rfl
    simp only [signHashEnvelope, hvh, exH_prot, hru, hu, hr, Bool.not_true, Bool.false_eq_true,
      if_false]
    rfl
  rw [hunf, hhelp]
  simp [Sign1.marshal, Sign1.content, Hdrs.marshal, exHm, exH_mpP, hmU, hiv, blen, bind, Out.bind]

/-- non-vacuity of `henv_closed_flat`: a SHA-256 hash envelope over caller headers `{1: ES256}` -/
example : ∃ b m3, (signHashEnvelope C01.exS7 exHh exHp).1 = .ok b ∧
    (verifyHashEnvelope C01.exV7 b).1 = .ok m3 ∧ m3.payload = some exHval := by
  obtain ⟨b, hb⟩ := exH_signs
  obtain ⟨m3, h1, h2⟩ := henv_closed_flat C01.exS7 C01.exV7 exHh exHp b C01.exSV7 rfl
    (by intro e he; simp only [exHh, List.mem_singleton] at he; subst he
        simp [lbl, FlatLabel, FlatVal, int64Range])
    (by intro e he; cases he)
    (by intro e he; simp only [exHh, List.mem_singleton] at he; subst he; simp [UintOK])
    (by intro e he; cases he)
    (by simp [exHh, maxElems]) (by simp [exHh, maxElems])
    (by simp [exHp, int64Range]) (by intro x hx; cases hx)
    (by simp [exHp, utf8Valid]) (by simp [C01.exS7, int64Range])
    (by intro t sg h; cases h; simp) (by intro hz; simp [exHp, hashSize] at hz) hb
  exact ⟨b, m3, hb, h1, h2⟩

end C12
