/-
  Deep/Signers — the built-in signer / verifier objects (ecdsa.go, rsa.go, ed25519.go) as wrappers
  around arbitrary primitives (`CoseModel/Signers.lean`).  Every theorem holds for EVERY behaviour
  of the primitive (a faulty HSM included); where a theorem needs the primitive to be correct, that
  is an explicit hypothesis about the primitive alone.

  * C16 — whatever the key returns, a signature leaves the ECDSA signer only as the 2n-byte r‖s;
          the ECDSA verifier hands the primitive nothing but the two halves of a 2n-byte string.
  * C01 — `Matches` (the hypothesis of every sign-then-verify theorem) is DERIVED for the three
          built-in families from correctness of the primitive.
  * C17 — message entry point = digest entry point after the algorithm's hash, for signers and
          verifiers; the reported algorithm is the requested one.
  * C20 — a failing key, a failing hash, or an (r, s) that does not fit make the signer fail.
  * C03 — the verifier's verdict is the primitive's verdict on exactly (digest, r, s).

  The ECDSA digest entry points take the size of the algorithm's hash (`hs : Option Nat`, `none` =
  hash not available, no check) and refuse a digest of any other length before the key or the
  signature is looked at (`checkECDSADigest`).  `C17.HashSized H hs` — the hash `H` produces digests
  of that size — is the hypothesis under which the check is inert on the message entry points.
-/
import CoseModel.Signers
import CoseProofs.Props.C01
import CoseProofs.Props.C16
open CoseModel

namespace C17

/-- the hash function produces digests of the size the algorithm names (true of every real hash;
    vacuous when the hash is not available, `hs = none`) -/
def HashSized (H : HashFn) (hs : Option Nat) : Prop :=
  ∀ c d, H c = .ok d → ∀ n, hs = some n → d.length = n

theorem checkDigest_iff (hs : Option Nat) (d : Bytes) :
    checkECDSADigest hs d = true ↔ ∀ n, hs = some n → d.length = n := by
  cases hs with
  | none => simp [checkECDSADigest]
  | some m => simp [checkECDSADigest]

theorem checkDigest_false_iff (hs : Option Nat) (d : Bytes) :
    checkECDSADigest hs d = false ↔ ∃ n, hs = some n ∧ d.length ≠ n := by
  cases hs with
  | none => simp [checkECDSADigest]
  | some m => simp [checkECDSADigest]

theorem checkDigest_of_sized (H : HashFn) (hs : Option Nat) (hz : HashSized H hs) (c d : Bytes)
    (hH : H c = .ok d) : checkECDSADigest hs d = true :=
  (checkDigest_iff hs d).mpr (hz c d hH)

/-- the checked entry point is the check followed by the unchecked one (`none`) -/
theorem ecdsaSignDigest_eq (hs : Option Nat) (k : EcdsaKey) (d : Bytes) :
    ecdsaSignDigest hs k d =
      if checkECDSADigest hs d = false then .err .other else ecdsaSignDigest none k d := by
  rfl

theorem ecdsaVerifyDigest_eq (hs : Option Nat) (k : EcdsaKey) (d sig : Bytes) :
    ecdsaVerifyDigest hs k d sig =
      if checkECDSADigest hs d = false then .err .verification else ecdsaVerifyDigest none k d sig := by
  rfl

end C17

namespace C16

/-- whatever the key returns — any integers, from any crypto.Signer — what the ECDSA signer
    returns on success is exactly 2n bytes, r then s, big-endian, left-padded -/
theorem ecdsa_signer_fixed_width (H : HashFn) (hs : Option Nat) (k : EcdsaKey) (content sig : Bytes)
    (h : ecdsaSign H hs k content = .ok sig) :
    sig.length = 2 * k.n ∧ ∃ d r s, H content = .ok d ∧ k.sign d = .ok (r, s) ∧
      0 ≤ r ∧ 0 ≤ s ∧ sig.take k.n = fillBytes k.n r.toNat ∧ sig.drop k.n = fillBytes k.n s.toNat := by
  unfold ecdsaSign at h
  cases hH : H content with
  | ok d =>
    rw [hH] at h
    simp only at h
    rw [C17.ecdsaSignDigest_eq] at h
    split at h
    · cases h
    unfold ecdsaSignDigest at h
    simp only [checkECDSADigest, Bool.true_eq_false, if_false] at h
    cases hsg : k.sign d with
    | ok p =>
      obtain ⟨r, s⟩ := p
      rw [hsg] at h
      simp only at h
      cases he : encodeECDSASignature k.n r s with
      | none => rw [he] at h; cases h
      | some sg =>
        rw [he] at h
        simp only [Out.ok.injEq] at h
        subst h
        have hw := encode_fixed_width k.n r s sg he
        have hok := (encode_ok_iff k.n r s).mp (by simp [he])
        exact ⟨hw.1, d, r, s, rfl, hsg, hok.1.1, hok.2.1, hw.2.1, hw.2.2⟩
    | err e => rw [hsg] at h; cases h
    | panic => rw [hsg] at h; cases h
    | unmodelled => rw [hsg] at h; cases h
  | err e => rw [hH] at h; cases h
  | panic => rw [hH] at h; cases h
  | unmodelled => rw [hH] at h; cases h

/-- the ECDSA verifier accepts only 2n-byte strings, and only if the primitive accepts the two
    halves read as big-endian integers under the digest of the content -/
theorem ecdsa_verifier_strict (H : HashFn) (hs : Option Nat) (k : EcdsaKey) (content sig : Bytes)
    (h : ecdsaVerify H hs k content sig = .ok ()) :
    sig.length = 2 * k.n ∧ ∃ d, H content = .ok d ∧
      k.verify d (os2ip (sig.take k.n)) (os2ip (sig.drop k.n)) = true := by
  unfold ecdsaVerify at h
  cases hH : H content with
  | ok d =>
    rw [hH] at h
    simp only at h
    rw [C17.ecdsaVerifyDigest_eq] at h
    split at h
    · cases h
    unfold ecdsaVerifyDigest at h
    simp only [checkECDSADigest, Bool.true_eq_false, if_false] at h
    cases hd : decodeECDSASignature k.n sig with
    | none => rw [hd] at h; cases h
    | some p =>
      obtain ⟨r, s⟩ := p
      rw [hd] at h
      simp only at h
      have hlen := (decode_strict k.n sig).mp (by simp [hd])
      refine ⟨hlen, d, rfl, ?_⟩
      unfold decodeECDSASignature at hd
      split at hd
      · cases hd
      · simp only [Option.some.injEq, Prod.mk.injEq] at hd
        rw [hd.1, hd.2]
        by_cases hv : k.verify d r s = true
        · exact hv
        · simp only [hv] at h
          cases h
  | err e => rw [hH] at h; cases h
  | panic => rw [hH] at h; cases h
  | unmodelled => rw [hH] at h; cases h

/-- DER, halves with stripped or extra zeros, one byte more or less: refused before the primitive
    is consulted, with the verification error -/
theorem ecdsa_wrong_length_refused (H : HashFn) (hs : Option Nat) (k : EcdsaKey) (content sig d : Bytes)
    (hH : H content = .ok d) (hl : sig.length ≠ 2 * k.n) :
    ecdsaVerify H hs k content sig = .err .verification := by
  unfold ecdsaVerify ecdsaVerifyDigest
  rw [hH]
  simp only [wrong_length_rejected k.n sig hl, ite_self]

/-- the verdict on a produced signature is the primitive's verdict on the (r, s) it produced -/
theorem ecdsa_verify_of_sign (H : HashFn) (hs : Option Nat) (k : EcdsaKey) (content sig : Bytes)
    (h : ecdsaSign H hs k content = .ok sig) :
    ∃ d r s, H content = .ok d ∧ k.sign d = .ok (r, s) ∧ 0 ≤ r ∧ 0 ≤ s ∧
      ecdsaVerify H hs k content sig = if k.verify d r.toNat s.toNat then .ok () else .err .verification := by
  unfold ecdsaSign at h
  cases hH : H content with
  | ok d =>
    rw [hH] at h
    simp only at h
    rw [C17.ecdsaSignDigest_eq] at h
    split at h
    · cases h
    rename_i hck
    unfold ecdsaSignDigest at h
    simp only [checkECDSADigest, Bool.true_eq_false, if_false] at h
    cases hsg : k.sign d with
    | ok p =>
      obtain ⟨r, s⟩ := p
      rw [hsg] at h
      simp only at h
      cases he : encodeECDSASignature k.n r s with
      | none => rw [he] at h; cases h
      | some sg =>
        rw [he] at h
        simp only [Out.ok.injEq] at h
        subst h
        have hok := (encode_ok_iff k.n r s).mp (by simp [he])
        refine ⟨d, r, s, rfl, hsg, hok.1.1, hok.2.1, ?_⟩
        unfold ecdsaVerify
        rw [hH]
        simp only
        rw [C17.ecdsaVerifyDigest_eq, if_neg hck]
        unfold ecdsaVerifyDigest
        simp only [checkECDSADigest, Bool.true_eq_false, if_false, decode_encode k.n r s sg he]
    | err e => rw [hsg] at h; cases h
    | panic => rw [hsg] at h; cases h
    | unmodelled => rw [hsg] at h; cases h
  | err e => rw [hH] at h; cases h
  | panic => rw [hH] at h; cases h
  | unmodelled => rw [hH] at h; cases h

end C16

namespace C01

/-- a correct ECDSA primitive: whatever it signs (and fits the fixed width) it verifies -/
def EcdsaCorrect (k : EcdsaKey) : Prop :=
  ∀ d r s, k.sign d = .ok (r, s) → 0 ≤ r → 0 ≤ s → k.verify d r.toNat s.toNat = true

/-- `Matches` for the built-in ECDSA signer / verifier of one key, any algorithm, any hash -/
theorem ecdsa_matches (alg : Int) (H : HashFn) (hs : Option Nat) (k : EcdsaKey) (hn : 0 < k.n)
    (hc : EcdsaCorrect k) :
    Matches (ecdsaSigner alg H hs k) (ecdsaVerifier alg H hs k) where
  alg := rfl
  correct := by
    intro tbs sig h
    obtain ⟨d, r, s, _, hsg, hr, hs0, hv⟩ := C16.ecdsa_verify_of_sign H hs k tbs sig h
    show ecdsaVerify H hs k tbs sig = .ok ()
    rw [hv]
    simp only [hc d r s hsg hr hs0, if_true]
  nonempty := by
    intro tbs sig h
    have := (C16.ecdsa_signer_fixed_width H hs k tbs sig h).1
    intro he
    subst he
    simp only [List.length_nil] at this
    omega

/-- a correct RSA primitive returns non-empty signatures that it verifies -/
def RsaCorrect (k : RsaKey) : Prop :=
  ∀ d sig, k.sign d = .ok sig → sig ≠ [] ∧ k.verify d sig = true

theorem rsa_matches (alg : Int) (H : HashFn) (k : RsaKey) (hc : RsaCorrect k) :
    Matches (rsaSigner alg H k) (rsaVerifier alg H k) where
  alg := rfl
  correct := by
    intro tbs sig h
    show rsaVerify H k tbs sig = .ok ()
    have h' : rsaSign H k tbs = .ok sig := h
    unfold rsaSign at h'
    unfold rsaVerify
    cases hH : H tbs with
    | ok d =>
      rw [hH] at h'
      simp only at h' ⊢
      unfold rsaVerifyDigest
      simp only [(hc d sig h').2, if_true]
    | err e => rw [hH] at h'; cases h'
    | panic => rw [hH] at h'; cases h'
    | unmodelled => rw [hH] at h'; cases h'
  nonempty := by
    intro tbs sig h
    have h' : rsaSign H k tbs = .ok sig := h
    unfold rsaSign at h'
    cases hH : H tbs with
    | ok d => rw [hH] at h'; exact (hc d sig h').1
    | err e => rw [hH] at h'; cases h'
    | panic => rw [hH] at h'; cases h'
    | unmodelled => rw [hH] at h'; cases h'

def EdCorrect (k : EdKey) : Prop :=
  ∀ m sig, k.sign m = .ok sig → sig ≠ [] ∧ k.verify m sig = true

theorem ed_matches (k : EdKey) (hc : EdCorrect k) : Matches (edSigner k) (edVerifier k) where
  alg := rfl
  correct := by
    intro tbs sig h
    show (if k.verify tbs sig then Out.ok () else .err .verification) = .ok ()
    simp only [(hc tbs sig h).2, if_true]
  nonempty := fun tbs sig h => (hc tbs sig h).1

/-- non-vacuity: a toy "primitive" that is correct (signature = digest, r = s = its first byte) -/
def exKey : EcdsaKey :=
  { n := 2, sign := fun d => .ok ((d.headD 0).toNat, 7), verify := fun d r s => r == (d.headD 0).toNat && s == 7 }
example : EcdsaCorrect exKey := by
  intro d r s h _ _
  simp only [exKey, Out.ok.injEq, Prod.mk.injEq] at h
  obtain ⟨rfl, rfl⟩ := h
  simp [exKey]
example : ecdsaSign (fun c => .ok c) (some 2) exKey [9, 1] = .ok [0, 9, 0, 7] := by decide
example : ecdsaSign (fun c => .ok c) none exKey [9, 1] = .ok [0, 9, 0, 7] := by decide

end C01

namespace C17

/-- message entry point = digest entry point applied to the algorithm's hash (signers) -/
theorem ecdsa_sign_eq_signDigest (H : HashFn) (hs : Option Nat) (k : EcdsaKey) (content d : Bytes)
    (hH : H content = .ok d) :
    ecdsaSign H hs k content = ecdsaSignDigest hs k d := by
  unfold ecdsaSign; rw [hH]

theorem rsa_sign_eq_signDigest (H : HashFn) (k : RsaKey) (content d : Bytes) (hH : H content = .ok d) :
    rsaSign H k content = rsaSignDigest k d := by
  unfold rsaSign; rw [hH]

/-- … and verifiers: a signature verifies through `Verify` iff it verifies through `VerifyDigest`
    under the algorithm's hash of the content — and under no other digest unless the primitive
    itself accepts that digest -/
theorem ecdsa_verify_eq_verifyDigest (H : HashFn) (hs : Option Nat) (k : EcdsaKey) (content d sig : Bytes)
    (hH : H content = .ok d) : ecdsaVerify H hs k content sig = ecdsaVerifyDigest hs k d sig := by
  unfold ecdsaVerify; rw [hH]

/-- `SignDigest` refuses a digest that is not of the algorithm's hash — for every key; the key's
    `sign` does not occur in the result (the check comes first: `ecdsaSignDigest_eq`) -/
theorem ecdsa_signDigest_wrong_size (hs : Option Nat) (n : Nat) (k : EcdsaKey) (d : Bytes)
    (hn : hs = some n) (hl : d.length ≠ n) : ecdsaSignDigest hs k d = .err .other := by
  rw [ecdsaSignDigest_eq, if_pos ((checkDigest_false_iff hs d).mpr ⟨n, hn, hl⟩)]

/-- … so the refusal is the same for any two keys, whatever their `sign` would answer -/
theorem ecdsa_signDigest_wrong_size_key_irrelevant (hs : Option Nat) (n : Nat) (k k' : EcdsaKey)
    (d : Bytes) (hn : hs = some n) (hl : d.length ≠ n) :
    ecdsaSignDigest hs k d = ecdsaSignDigest hs k' d := by
  rw [ecdsa_signDigest_wrong_size hs n k d hn hl, ecdsa_signDigest_wrong_size hs n k' d hn hl]

/-- `VerifyDigest` never accepts a digest of another hash's length: `ErrVerification` for EVERY
    signature and every behaviour of the key's `verify` -/
theorem ecdsa_verifyDigest_wrong_size (hs : Option Nat) (n : Nat) (k : EcdsaKey) (d sig : Bytes)
    (hn : hs = some n) (hl : d.length ≠ n) : ecdsaVerifyDigest hs k d sig = .err .verification := by
  rw [ecdsaVerifyDigest_eq, if_pos ((checkDigest_false_iff hs d).mpr ⟨n, hn, hl⟩)]

/-- `Sign` / `Verify` are unchanged by the check when the hash produces digests of the algorithm's
    size: they are the unchecked digest entry points (`none`) after the hash -/
theorem ecdsa_sign_check_inert (H : HashFn) (hs : Option Nat) (hz : HashSized H hs) (k : EcdsaKey)
    (content : Bytes) : ecdsaSign H hs k content = ecdsaSign H none k content := by
  unfold ecdsaSign
  cases hH : H content with
  | ok d =>
    simp only
    rw [ecdsaSignDigest_eq, checkDigest_of_sized H hs hz content d hH]
    simp only [Bool.true_eq_false, if_false]
  | err e => rfl
  | panic => rfl
  | unmodelled => rfl

theorem ecdsa_verify_check_inert (H : HashFn) (hs : Option Nat) (hz : HashSized H hs) (k : EcdsaKey)
    (content sig : Bytes) : ecdsaVerify H hs k content sig = ecdsaVerify H none k content sig := by
  unfold ecdsaVerify
  cases hH : H content with
  | ok d =>
    simp only
    rw [ecdsaVerifyDigest_eq, checkDigest_of_sized H hs hz content d hH]
    simp only [Bool.true_eq_false, if_false]
  | err e => rfl
  | panic => rfl
  | unmodelled => rfl

theorem rsa_verify_eq_verifyDigest (H : HashFn) (k : RsaKey) (content d sig : Bytes)
    (hH : H content = .ok d) : rsaVerify H k content sig = rsaVerifyDigest k d sig := by
  unfold rsaVerify; rw [hH]

/-- the unchecked core (`none`): the primitive is consulted on exactly the digest given -/
theorem ecdsa_verifyDigest_none_iff (k : EcdsaKey) (d sig : Bytes) :
    ecdsaVerifyDigest none k d sig = .ok () ↔
      sig.length = 2 * k.n ∧ k.verify d (os2ip (sig.take k.n)) (os2ip (sig.drop k.n)) = true := by
  unfold ecdsaVerifyDigest decodeECDSASignature
  simp only [checkECDSADigest, Bool.true_eq_false, if_false]
  by_cases hl : sig.length ≠ k.n * 2
  · rw [if_pos hl]
    constructor
    · intro h; cases h
    · intro h; omega
  · rw [if_neg hl]
    have hl' : sig.length = 2 * k.n := by omega
    by_cases hv : k.verify d (os2ip (sig.take k.n)) (os2ip (sig.drop k.n)) = true
    · simp only [hv, if_true, hl', and_self]
    · have hf : k.verify d (os2ip (sig.take k.n)) (os2ip (sig.drop k.n)) = false := by
        cases hb : k.verify d (os2ip (sig.take k.n)) (os2ip (sig.drop k.n)) with
        | false => rfl
        | true => exact absurd hb hv
      simp [hf]

/-- the digest entry point accepts iff the digest is of the algorithm's hash AND the signature is
    the fixed-width r‖s AND the primitive accepts (digest, r, s) — on exactly the digest given -/
theorem ecdsa_verifyDigest_iff (hs : Option Nat) (k : EcdsaKey) (d sig : Bytes) :
    ecdsaVerifyDigest hs k d sig = .ok () ↔
      (∀ n, hs = some n → d.length = n) ∧ sig.length = 2 * k.n ∧
        k.verify d (os2ip (sig.take k.n)) (os2ip (sig.drop k.n)) = true := by
  rw [ecdsaVerifyDigest_eq, ← checkDigest_iff]
  cases hc : checkECDSADigest hs d with
  | false => simp
  | true => simp [ecdsa_verifyDigest_none_iff]

/-- the same with the decoder named: accepted ⇔ size ok ∧ the signature decodes to (r, s) ∧
    `key.verify digest r s` -/
theorem ecdsa_verifyDigest_iff_decode (hs : Option Nat) (k : EcdsaKey) (d sig : Bytes) :
    ecdsaVerifyDigest hs k d sig = .ok () ↔
      (∀ n, hs = some n → d.length = n) ∧
        ∃ r s, decodeECDSASignature k.n sig = some (r, s) ∧ k.verify d r s = true := by
  rw [ecdsaVerifyDigest_eq, ← checkDigest_iff]
  cases hc : checkECDSADigest hs d with
  | false => simp
  | true =>
    simp only [Bool.true_eq_false, if_false, true_and]
    unfold ecdsaVerifyDigest
    simp only [checkECDSADigest, Bool.true_eq_false, if_false]
    cases hd : decodeECDSASignature k.n sig with
    | none => simp
    | some p =>
      obtain ⟨r, s⟩ := p
      by_cases hv : k.verify d r s = true
      · simp only [hv, if_true, true_iff]
        exact ⟨r, s, rfl, hv⟩
      · simp only [hv]
        constructor
        · intro h; cases h
        · rintro ⟨r', s', he, hv'⟩
          simp only [Option.some.injEq, Prod.mk.injEq] at he
          rw [← he.1, ← he.2] at hv'
          exact absurd hv' hv

/-- non-vacuity of the refusals: a key whose `verify` accepts everything and whose `sign` always
    answers, under ES256 (`some 32`), handed a 64-byte (SHA-512 sized) digest -/
def yesKey : EcdsaKey := { n := 2, sign := fun _ => .ok (1, 2), verify := fun _ _ _ => true }
example : ecdsaVerifyDigest (some 32) yesKey (List.replicate 64 7) [0, 1, 0, 2] = .err .verification := by decide
example : ecdsaSignDigest (some 32) yesKey (List.replicate 64 7) = .err .other := by decide
/-- … while the same key, signature and call shape with a 32-byte digest is accepted / signed, and
    without the check (`none`) the 64-byte digest would have been -/
example : ecdsaVerifyDigest (some 32) yesKey (List.replicate 32 7) [0, 1, 0, 2] = .ok () := by decide
example : ecdsaSignDigest (some 32) yesKey (List.replicate 32 7) = .ok [0, 1, 0, 2] := by decide
example : ecdsaVerifyDigest none yesKey (List.replicate 64 7) [0, 1, 0, 2] = .ok () := by decide
example : ecdsaSignDigest none yesKey (List.replicate 64 7) = .ok [0, 1, 0, 2] := by decide

theorem rsa_verifyDigest_iff (k : RsaKey) (d sig : Bytes) :
    rsaVerifyDigest k d sig = .ok () ↔ k.verify d sig = true := by
  unfold rsaVerifyDigest
  by_cases hv : k.verify d sig = true <;> simp [hv]

/-- the objects report the algorithm they were created for -/
theorem builtin_reports_alg (alg : Int) (H : HashFn) (hs : Option Nat) (ke : EcdsaKey) (kr : RsaKey) (kd : EdKey) :
    (ecdsaSigner alg H hs ke).alg = alg ∧ (ecdsaVerifier alg H hs ke).alg = alg ∧
    (rsaSigner alg H kr).alg = alg ∧ (rsaVerifier alg H kr).alg = alg ∧
    (edSigner kd).alg = -8 ∧ (edVerifier kd).alg = -8 := ⟨rfl, rfl, rfl, rfl, rfl, rfl⟩

end C17

namespace C20

/-- a failing key makes the ECDSA signer fail with the key's error (the hash produces digests of
    the algorithm's size, so the digest check does not pre-empt the key) -/
theorem ecdsa_key_fault (H : HashFn) (hs : Option Nat) (hz : C17.HashSized H hs) (k : EcdsaKey)
    (content d : Bytes) (e : Err)
    (hH : H content = .ok d) (hk : k.sign d = .err e) : ecdsaSign H hs k content = .err e := by
  unfold ecdsaSign ecdsaSignDigest; rw [hH]
  simp only [hk, C17.checkDigest_of_sized H hs hz content d hH, Bool.true_eq_false, if_false]

/-- `HashSized` is needed there: with a "hash" of the wrong size the digest check answers first,
    and the key's own error is never seen -/
example : ecdsaSign (fun c => .ok c) (some 32) { n := 2, sign := fun _ => .err .signer, verify := fun _ _ _ => true }
    [1, 2, 3] = .err .other := by decide

/-- an unavailable hash function makes every signer and verifier fail before the key is used -/
theorem hash_fault (H : HashFn) (hs : Option Nat) (ke : EcdsaKey) (kr : RsaKey) (content sig : Bytes) (e : Err)
    (hH : H content = .err e) :
    ecdsaSign H hs ke content = .err e ∧ rsaSign H kr content = .err e ∧
    ecdsaVerify H hs ke content sig = .err e ∧ rsaVerify H kr content sig = .err e := by
  unfold ecdsaSign rsaSign ecdsaVerify rsaVerify
  simp only [hH, and_self]

/-- an (r, s) that does not fit the fixed width (negative, or ≥ 256^n) is an error, never a
    truncated or differently shaped signature -/
theorem ecdsa_unencodable_fault (H : HashFn) (hs : Option Nat) (k : EcdsaKey) (content d : Bytes) (r s : Int)
    (hH : H content = .ok d) (hk : k.sign d = .ok (r, s))
    (hbad : r < 0 ∨ s < 0 ∨ 256 ^ k.n ≤ r.toNat ∨ 256 ^ k.n ≤ s.toNat) :
    ecdsaSign H hs k content = .err .other := by
  unfold ecdsaSign ecdsaSignDigest
  rw [hH]
  simp only [hk]
  split
  · rfl
  cases he : encodeECDSASignature k.n r s with
  | none => rfl
  | some sg =>
    have hok := (C16.encode_ok_iff k.n r s).mp (by simp [he])
    omega

theorem rsa_key_fault (H : HashFn) (k : RsaKey) (content d : Bytes) (e : Err)
    (hH : H content = .ok d) (hk : k.sign d = .err e) : rsaSign H k content = .err e := by
  unfold rsaSign rsaSignDigest; rw [hH]; exact hk

end C20

namespace C03

/-- the built-in verifiers never turn a refusal of the primitive into success, whatever else
    the signature bytes are: ECDSA -/
theorem ecdsa_refused_by_primitive (H : HashFn) (hs : Option Nat) (k : EcdsaKey) (content d sig : Bytes)
    (hH : H content = .ok d)
    (hv : k.verify d (os2ip (sig.take k.n)) (os2ip (sig.drop k.n)) = false) :
    ecdsaVerify H hs k content sig = .err .verification := by
  have h1 := C17.ecdsa_verify_eq_verifyDigest H hs k content d sig hH
  rw [h1]
  unfold ecdsaVerifyDigest decodeECDSASignature
  split
  · rfl
  by_cases hl : sig.length ≠ k.n * 2
  · rw [if_pos hl]
  · rw [if_neg hl]
    simp only [hv, Bool.false_eq_true, if_false]

theorem rsa_refused_by_primitive (H : HashFn) (k : RsaKey) (content d sig : Bytes)
    (hH : H content = .ok d) (hv : k.verify d sig = false) :
    rsaVerify H k content sig = .err .verification := by
  unfold rsaVerify rsaVerifyDigest
  rw [hH]
  simp only [hv, Bool.false_eq_true, if_false]

theorem ed_verdict (k : EdKey) (content sig : Bytes) :
    (edVerifier k).verify content sig = .ok () ↔ k.verify content sig = true := by
  unfold edVerifier
  by_cases hv : k.verify content sig = true <;> simp [hv]

end C03
