/-
  Deep/Signers — the built-in signer / verifier objects (ecdsa.go, rsa.go, ed25519.go) as wrappers
  around arbitrary primitives (`CoseModel/Signers.lean`).  Every theorem holds for EVERY behaviour
  of the primitive (a faulty HSM included); where a theorem needs the primitive to be correct, that
  is an explicit hypothesis about the primitive alone.

  * C16 — whatever the key returns, a signature leaves the ECDSA signer only as the 2n-byte r‖s;
          the ECDSA verifier hands the primitive nothing but the two halves of a 2n-byte string.
  * C01 — `Matches` (the hypothesis of every sign-then-verify theorem) is DERIVED for the three
          built-in families from correctness of the primitive.
  * C17 — message entry point = digest entry point after the algorithm's hash, for signers and
          verifiers; the reported algorithm is the requested one.
  * C20 — a failing key, a failing hash, or an (r, s) that does not fit make the signer fail.
  * C03 — the verifier's verdict is the primitive's verdict on exactly (digest, r, s).
-/
import CoseModel.Signers
import CoseProofs.Props.C01
import CoseProofs.Props.C16
open CoseModel

namespace C16

/-- whatever the key returns — any integers, from any crypto.Signer — what the ECDSA signer
    returns on success is exactly 2n bytes, r then s, big-endian, left-padded -/
theorem ecdsa_signer_fixed_width (H : HashFn) (k : EcdsaKey) (content sig : Bytes)
    (h : ecdsaSign H k content = .ok sig) :
    sig.length = 2 * k.n ∧ ∃ d r s, H content = .ok d ∧ k.sign d = .ok (r, s) ∧
      0 ≤ r ∧ 0 ≤ s ∧ sig.take k.n = fillBytes k.n r.toNat ∧ sig.drop k.n = fillBytes k.n s.toNat := by
  unfold ecdsaSign at h
  cases hH : H content with
  | ok d =>
    rw [hH] at h
    simp only at h
    unfold ecdsaSignDigest at h
    cases hs : k.sign d with
    | ok p =>
      obtain ⟨r, s⟩ := p
      rw [hs] at h
      simp only at h
      cases he : encodeECDSASignature k.n r s with
      | none => rw [he] at h; cases h
      | some sg =>
        rw [he] at h
        simp only [Out.ok.injEq] at h
        subst h
        have hw := encode_fixed_width k.n r s sg he
        have hok := (encode_ok_iff k.n r s).mp (by simp [he])
        exact ⟨hw.1, d, r, s, rfl, hs, hok.1.1, hok.2.1, hw.2.1, hw.2.2⟩
    | err e => rw [hs] at h; cases h
    | panic => rw [hs] at h; cases h
    | unmodelled => rw [hs] at h; cases h
  | err e => rw [hH] at h; cases h
  | panic => rw [hH] at h; cases h
  | unmodelled => rw [hH] at h; cases h

/-- the ECDSA verifier accepts only 2n-byte strings, and only if the primitive accepts the two
    halves read as big-endian integers under the digest of the content -/
theorem ecdsa_verifier_strict (H : HashFn) (k : EcdsaKey) (content sig : Bytes)
    (h : ecdsaVerify H k content sig = .ok ()) :
    sig.length = 2 * k.n ∧ ∃ d, H content = .ok d ∧
      k.verify d (os2ip (sig.take k.n)) (os2ip (sig.drop k.n)) = true := by
  unfold ecdsaVerify at h
  cases hH : H content with
  | ok d =>
    rw [hH] at h
    simp only at h
    unfold ecdsaVerifyDigest at h
    cases hd : decodeECDSASignature k.n sig with
    | none => rw [hd] at h; cases h
    | some p =>
      obtain ⟨r, s⟩ := p
      rw [hd] at h
      simp only at h
      have hlen := (decode_strict k.n sig).mp (by simp [hd])
      refine ⟨hlen, d, rfl, ?_⟩
      unfold decodeECDSASignature at hd
      split at hd
      · cases hd
      · simp only [Option.some.injEq, Prod.mk.injEq] at hd
        rw [hd.1, hd.2]
        by_cases hv : k.verify d r s = true
        · exact hv
        · simp only [hv] at h
          cases h
  | err e => rw [hH] at h; cases h
  | panic => rw [hH] at h; cases h
  | unmodelled => rw [hH] at h; cases h

/-- DER, halves with stripped or extra zeros, one byte more or less: refused before the primitive
    is consulted, with the verification error -/
theorem ecdsa_wrong_length_refused (H : HashFn) (k : EcdsaKey) (content sig d : Bytes)
    (hH : H content = .ok d) (hl : sig.length ≠ 2 * k.n) :
    ecdsaVerify H k content sig = .err .verification := by
  unfold ecdsaVerify ecdsaVerifyDigest
  rw [hH]
  simp only [wrong_length_rejected k.n sig hl]

/-- the verdict on a produced signature is the primitive's verdict on the (r, s) it produced -/
theorem ecdsa_verify_of_sign (H : HashFn) (k : EcdsaKey) (content sig : Bytes)
    (h : ecdsaSign H k content = .ok sig) :
    ∃ d r s, H content = .ok d ∧ k.sign d = .ok (r, s) ∧ 0 ≤ r ∧ 0 ≤ s ∧
      ecdsaVerify H k content sig = if k.verify d r.toNat s.toNat then .ok () else .err .verification := by
  unfold ecdsaSign at h
  cases hH : H content with
  | ok d =>
    rw [hH] at h
    simp only at h
    unfold ecdsaSignDigest at h
    cases hs : k.sign d with
    | ok p =>
      obtain ⟨r, s⟩ := p
      rw [hs] at h
      simp only at h
      cases he : encodeECDSASignature k.n r s with
      | none => rw [he] at h; cases h
      | some sg =>
        rw [he] at h
        simp only [Out.ok.injEq] at h
        subst h
        have hok := (encode_ok_iff k.n r s).mp (by simp [he])
        refine ⟨d, r, s, rfl, hs, hok.1.1, hok.2.1, ?_⟩
        unfold ecdsaVerify ecdsaVerifyDigest
        rw [hH]
        simp only [decode_encode k.n r s sg he]
    | err e => rw [hs] at h; cases h
    | panic => rw [hs] at h; cases h
    | unmodelled => rw [hs] at h; cases h
  | err e => rw [hH] at h; cases h
  | panic => rw [hH] at h; cases h
  | unmodelled => rw [hH] at h; cases h

end C16

namespace C01

/-- a correct ECDSA primitive: whatever it signs (and fits the fixed width) it verifies -/
def EcdsaCorrect (k : EcdsaKey) : Prop :=
  ∀ d r s, k.sign d = .ok (r, s) → 0 ≤ r → 0 ≤ s → k.verify d r.toNat s.toNat = true

/-- `Matches` for the built-in ECDSA signer / verifier of one key, any algorithm, any hash -/
theorem ecdsa_matches (alg : Int) (H : HashFn) (k : EcdsaKey) (hn : 0 < k.n) (hc : EcdsaCorrect k) :
    Matches (ecdsaSigner alg H k) (ecdsaVerifier alg H k) where
  alg := rfl
  correct := by
    intro tbs sig h
    obtain ⟨d, r, s, _, hs, hr, hs0, hv⟩ := C16.ecdsa_verify_of_sign H k tbs sig h
    show ecdsaVerify H k tbs sig = .ok ()
    rw [hv]
    simp only [hc d r s hs hr hs0, if_true]
  nonempty := by
    intro tbs sig h
    have := (C16.ecdsa_signer_fixed_width H k tbs sig h).1
    intro he
    subst he
    simp only [List.length_nil] at this
    omega

/-- a correct RSA primitive returns non-empty signatures that it verifies -/
def RsaCorrect (k : RsaKey) : Prop :=
  ∀ d sig, k.sign d = .ok sig → sig ≠ [] ∧ k.verify d sig = true

theorem rsa_matches (alg : Int) (H : HashFn) (k : RsaKey) (hc : RsaCorrect k) :
    Matches (rsaSigner alg H k) (rsaVerifier alg H k) where
  alg := rfl
  correct := by
    intro tbs sig h
    show rsaVerify H k tbs sig = .ok ()
    have h' : rsaSign H k tbs = .ok sig := h
    unfold rsaSign at h'
    unfold rsaVerify
    cases hH : H tbs with
    | ok d =>
      rw [hH] at h'
      simp only at h' ⊢
      unfold rsaVerifyDigest
      simp only [(hc d sig h').2, if_true]
    | err e => rw [hH] at h'; cases h'
    | panic => rw [hH] at h'; cases h'
    | unmodelled => rw [hH] at h'; cases h'
  nonempty := by
    intro tbs sig h
    have h' : rsaSign H k tbs = .ok sig := h
    unfold rsaSign at h'
    cases hH : H tbs with
    | ok d => rw [hH] at h'; exact (hc d sig h').1
    | err e => rw [hH] at h'; cases h'
    | panic => rw [hH] at h'; cases h'
    | unmodelled => rw [hH] at h'; cases h'

def EdCorrect (k : EdKey) : Prop :=
  ∀ m sig, k.sign m = .ok sig → sig ≠ [] ∧ k.verify m sig = true

theorem ed_matches (k : EdKey) (hc : EdCorrect k) : Matches (edSigner k) (edVerifier k) where
  alg := rfl
  correct := by
    intro tbs sig h
    show (if k.verify tbs sig then Out.ok () else .err .verification) = .ok ()
    simp only [(hc tbs sig h).2, if_true]
  nonempty := fun tbs sig h => (hc tbs sig h).1

/-- non-vacuity: a toy "primitive" that is correct (signature = digest, r = s = its first byte) -/
def exKey : EcdsaKey :=
  { n := 2, sign := fun d => .ok ((d.headD 0).toNat, 7), verify := fun d r s => r == (d.headD 0).toNat && s == 7 }
example : EcdsaCorrect exKey := by
  intro d r s h _ _
  simp only [exKey, Out.ok.injEq, Prod.mk.injEq] at h
  obtain ⟨rfl, rfl⟩ := h
  simp [exKey]
example : ecdsaSign (fun c => .ok c) exKey [9, 1] = .ok [0, 9, 0, 7] := by decide

end C01

namespace C17

/-- message entry point = digest entry point applied to the algorithm's hash (signers) -/
theorem ecdsa_sign_eq_signDigest (H : HashFn) (k : EcdsaKey) (content d : Bytes) (hH : H content = .ok d) :
    ecdsaSign H k content = ecdsaSignDigest k d := by
  unfold ecdsaSign; rw [hH]

theorem rsa_sign_eq_signDigest (H : HashFn) (k : RsaKey) (content d : Bytes) (hH : H content = .ok d) :
    rsaSign H k content = rsaSignDigest k d := by
  unfold rsaSign; rw [hH]

/-- … and verifiers: a signature verifies through `Verify` iff it verifies through `VerifyDigest`
    under the algorithm's hash of the content — and under no other digest unless the primitive
    itself accepts that digest -/
theorem ecdsa_verify_eq_verifyDigest (H : HashFn) (k : EcdsaKey) (content d sig : Bytes)
    (hH : H content = .ok d) : ecdsaVerify H k content sig = ecdsaVerifyDigest k d sig := by
  unfold ecdsaVerify; rw [hH]

theorem rsa_verify_eq_verifyDigest (H : HashFn) (k : RsaKey) (content d sig : Bytes)
    (hH : H content = .ok d) : rsaVerify H k content sig = rsaVerifyDigest k d sig := by
  unfold rsaVerify; rw [hH]

/-- the digest entry points consult the primitive on exactly the digest they were given -/
theorem ecdsa_verifyDigest_iff (k : EcdsaKey) (d sig : Bytes) :
    ecdsaVerifyDigest k d sig = .ok () ↔
      sig.length = 2 * k.n ∧ k.verify d (os2ip (sig.take k.n)) (os2ip (sig.drop k.n)) = true := by
  unfold ecdsaVerifyDigest decodeECDSASignature
  by_cases hl : sig.length ≠ k.n * 2
  · rw [if_pos hl]
    constructor
    · intro h; cases h
    · intro h; omega
  · rw [if_neg hl]
    have hl' : sig.length = 2 * k.n := by omega
    by_cases hv : k.verify d (os2ip (sig.take k.n)) (os2ip (sig.drop k.n)) = true
    · simp only [hv, if_true, hl', and_self]
    · have hf : k.verify d (os2ip (sig.take k.n)) (os2ip (sig.drop k.n)) = false := by
        cases hb : k.verify d (os2ip (sig.take k.n)) (os2ip (sig.drop k.n)) with
        | false => rfl
        | true => exact absurd hb hv
      simp [hf]

theorem rsa_verifyDigest_iff (k : RsaKey) (d sig : Bytes) :
    rsaVerifyDigest k d sig = .ok () ↔ k.verify d sig = true := by
  unfold rsaVerifyDigest
  by_cases hv : k.verify d sig = true <;> simp [hv]

/-- the objects report the algorithm they were created for -/
theorem builtin_reports_alg (alg : Int) (H : HashFn) (ke : EcdsaKey) (kr : RsaKey) (kd : EdKey) :
    (ecdsaSigner alg H ke).alg = alg ∧ (ecdsaVerifier alg H ke).alg = alg ∧
    (rsaSigner alg H kr).alg = alg ∧ (rsaVerifier alg H kr).alg = alg ∧
    (edSigner kd).alg = -8 ∧ (edVerifier kd).alg = -8 := ⟨rfl, rfl, rfl, rfl, rfl, rfl⟩

end C17

namespace C20

/-- a failing key makes the ECDSA signer fail with the key's error -/
theorem ecdsa_key_fault (H : HashFn) (k : EcdsaKey) (content d : Bytes) (e : Err)
    (hH : H content = .ok d) (hk : k.sign d = .err e) : ecdsaSign H k content = .err e := by
  unfold ecdsaSign ecdsaSignDigest; rw [hH]; simp only [hk]

/-- an unavailable hash function makes every signer and verifier fail before the key is used -/
theorem hash_fault (H : HashFn) (ke : EcdsaKey) (kr : RsaKey) (content sig : Bytes) (e : Err)
    (hH : H content = .err e) :
    ecdsaSign H ke content = .err e ∧ rsaSign H kr content = .err e ∧
    ecdsaVerify H ke content sig = .err e ∧ rsaVerify H kr content sig = .err e := by
  unfold ecdsaSign rsaSign ecdsaVerify rsaVerify
  simp only [hH, and_self]

/-- an (r, s) that does not fit the fixed width (negative, or ≥ 256^n) is an error, never a
    truncated or differently shaped signature -/
theorem ecdsa_unencodable_fault (H : HashFn) (k : EcdsaKey) (content d : Bytes) (r s : Int)
    (hH : H content = .ok d) (hk : k.sign d = .ok (r, s))
    (hbad : r < 0 ∨ s < 0 ∨ 256 ^ k.n ≤ r.toNat ∨ 256 ^ k.n ≤ s.toNat) :
    ecdsaSign H k content = .err .other := by
  unfold ecdsaSign ecdsaSignDigest
  rw [hH]
  simp only [hk]
  cases he : encodeECDSASignature k.n r s with
  | none => rfl
  | some sg =>
    have hok := (C16.encode_ok_iff k.n r s).mp (by simp [he])
    omega

theorem rsa_key_fault (H : HashFn) (k : RsaKey) (content d : Bytes) (e : Err)
    (hH : H content = .ok d) (hk : k.sign d = .err e) : rsaSign H k content = .err e := by
  unfold rsaSign rsaSignDigest; rw [hH]; exact hk

end C20

namespace C03

/-- the built-in verifiers never turn a refusal of the primitive into success, whatever else
    the signature bytes are: ECDSA -/
theorem ecdsa_refused_by_primitive (H : HashFn) (k : EcdsaKey) (content d sig : Bytes)
    (hH : H content = .ok d)
    (hv : k.verify d (os2ip (sig.take k.n)) (os2ip (sig.drop k.n)) = false) :
    ecdsaVerify H k content sig = .err .verification := by
  have h1 := C17.ecdsa_verify_eq_verifyDigest H k content d sig hH
  rw [h1]
  unfold ecdsaVerifyDigest decodeECDSASignature
  by_cases hl : sig.length ≠ k.n * 2
  · rw [if_pos hl]
  · rw [if_neg hl]
    simp only [hv, Bool.false_eq_true, if_false]

theorem rsa_refused_by_primitive (H : HashFn) (k : RsaKey) (content d sig : Bytes)
    (hH : H content = .ok d) (hv : k.verify d sig = false) :
    rsaVerify H k content sig = .err .verification := by
  unfold rsaVerify rsaVerifyDigest
  rw [hH]
  simp only [hv, Bool.false_eq_true, if_false]

theorem ed_verdict (k : EdKey) (content sig : Bytes) :
    (edVerifier k).verify content sig = .ok () ↔ k.verify content sig = true := by
  unfold edVerifier
  by_cases hv : k.verify content sig = true <;> simp [hv]

end C03
