/-
  Deep/Accept — the accepted byte languages, characterised by a SPEC-level well-formedness
  predicate on wire trees.
  * C05 (soundness): whatever a decoder accepts is exactly one well-formed COSE structure of its
    own kind (`WFSign1`, `WFSignature`), nothing after it, no tags; the header rules hold in every
    accepted layer, at every nesting depth of countersignatures (`WFVal`).
  * C07 (completeness): every well-formed tree, in any encoding the peer chose for its parts, is
    accepted, and decodes to the expected value.
  * the accepted languages of the four decoders are pairwise disjoint.
-/
import CoseModel.Messages
import CoseProofs.Lemmas.Parse
import CoseProofs.Props.C05
import CoseProofs.Props.C07
import CoseProofs.Props.C13
import CoseProofs.Deep.Reencode
import CoseProofs.Deep.NoPanic
open CoseModel

/-! ### the specification: well-formed envelopes over wire trees -/
namespace CoseModel

/-- payload: `null` (detached) or a byte string, any head width -/
def WFPayload (w : Wire) : Prop := w = .prim .imm 22 ∨ ∃ hw b, w = .bstr hw b

/-- signature: a non-empty byte string, any head width -/
def WFSig (w : Wire) : Prop := ∃ hw b, w = .bstr hw b ∧ b ≠ []

/-- the two header buckets of one layer (the header-level rules are characterised separately:
    `C05.prot_accept_rules`, `C05.unprot_accept_rules`, `C05.unprot_values_wf`) -/
def WFHeaders (p u : Wire) : Prop :=
  ∃ pm um, decProtected p = .ok pm ∧ decUnprot u = .ok um ∧ ensureIV pm um = true

/-- COSE_Sign1: one definite 4-array with an immediate head, well-formed heads throughout,
    within the decoder's limits, no tag anywhere -/
def WFSign1 (w : Wire) : Prop :=
  ∃ p u pl sg, w = .arr .imm [p, u, pl, sg] ∧ w.wf = true ∧ w.inLimits false 0 = true ∧
    w.hasTag = false ∧ WFHeaders p u ∧ WFPayload pl ∧ WFSig sg

/-- COSE_Signature / countersignature: one definite 3-array with an immediate head -/
def WFSignature (w : Wire) : Prop :=
  ∃ p u sg, w = .arr .imm [p, u, sg] ∧ w.wf = true ∧ w.inLimits false 0 = true ∧
    w.hasTag = false ∧ WFHeaders p u ∧ WFSig sg

end CoseModel

/-! ### helpers -/
namespace Accept

theorem wfsig_of_dec {sg : Wire} {o : Option Bytes} (h : decByteString sg = .ok o)
    (hz : blen o ≠ 0) : ∃ hw b, sg = .bstr hw b ∧ b ≠ [] ∧ o = some b := by
  rcases C05.payload_shape sg o h with ⟨rfl, rfl⟩ | ⟨hw, b, rfl, rfl⟩
  · simp [blen] at hz
  · refine ⟨hw, b, rfl, ?_, rfl⟩
    rintro rfl
    simp [blen] at hz

theorem wfpayload_of_dec {pl : Wire} {o : Option Bytes} (h : decByteString pl = .ok o) :
    WFPayload pl := by
  rcases C05.payload_shape pl o h with ⟨rfl, -⟩ | ⟨hw, b, rfl, -⟩
  · exact .inl rfl
  · exact .inr ⟨hw, b, rfl⟩

/-- the value `decByteString` gives for a well-formed payload item -/
def payloadOf : Wire → Option Bytes
  | .bstr _ b => some b
  | _ => none

theorem dec_of_wfpayload {pl : Wire} (h : WFPayload pl) :
    decByteString pl = .ok (payloadOf pl) := by
  rcases h with rfl | ⟨hw, b, rfl⟩ <;> rfl

theorem arr3_bytes (p u sg : Wire) :
    (Wire.arr .imm [p, u, sg]).bytes = 0x83 :: (p.bytes ++ (u.bytes ++ sg.bytes)) := by
  have h83 : headBytes 4 .imm 3 = [0x83] := by decide
  simp [Wire.bytes, Wire.bytesList, h83]

theorem arr4_bytes (p u pl sg : Wire) :
    (Wire.arr .imm [p, u, pl, sg]).bytes =
      0x84 :: (p.bytes ++ (u.bytes ++ (pl.bytes ++ sg.bytes))) := by
  have h84 : headBytes 4 .imm 4 = [0x84] := by decide
  simp [Wire.bytes, Wire.bytesList, h84]

end Accept

/-! ### C05.5 — the four accepted languages are pairwise disjoint -/
namespace C05

theorem shapes_disjoint (b : Bytes) :
    ¬ ((∃ m, Sign1.unmarshal true b = .ok m) ∧ (∃ m, Sign.unmarshal b = .ok m)) ∧
    ¬ ((∃ m, Sign1.unmarshal true b = .ok m) ∧ (∃ s, Signature.unmarshal b = .ok s)) ∧
    ¬ ((∃ m, Sign1.unmarshal false b = .ok m) ∧ (∃ s, Signature.unmarshal b = .ok s)) ∧
    ¬ ((∃ m, Sign1.unmarshal false b = .ok m) ∧ (∃ m, Sign1.unmarshal true b = .ok m)) ∧
    ¬ ((∃ m, Sign.unmarshal b = .ok m) ∧ (∃ s, Signature.unmarshal b = .ok s)) ∧
    ¬ ((∃ m, Sign.unmarshal b = .ok m) ∧ (∃ m, Sign1.unmarshal false b = .ok m)) := by
  obtain ⟨h1, h2, h3, h4⟩ := shapes_disjoint_first_byte b
  refine ⟨?_, ?_, ?_, ?_, ?_, ?_⟩
  · rintro ⟨⟨m, hm⟩, ⟨m', hm'⟩⟩
    have := (h1 m hm).symm.trans (h3 m' hm')
    simp at this
  · rintro ⟨⟨m, hm⟩, ⟨m', hm'⟩⟩
    have := (h1 m hm).symm.trans (h4 m' hm')
    simp at this
  · rintro ⟨⟨m, hm⟩, ⟨m', hm'⟩⟩
    have := (h2 m hm).symm.trans (h4 m' hm')
    simp at this
  · rintro ⟨⟨m, hm⟩, ⟨m', hm'⟩⟩
    have := (h2 m hm).symm.trans (h1 m' hm')
    simp at this
  · rintro ⟨⟨m, hm⟩, ⟨m', hm'⟩⟩
    have := (h3 m hm).symm.trans (h4 m' hm')
    simp at this
  · rintro ⟨⟨m, hm⟩, ⟨m', hm'⟩⟩
    have := (h3 m hm).symm.trans (h2 m' hm')
    simp at this

/-- … also for the remaining pairs (all six unordered pairs of the four decoders) -/
theorem shapes_disjoint_all (b : Bytes) :
    ¬ ((∃ m, Sign1.unmarshal true b = .ok m) ∧ (∃ m, Sign1.unmarshal false b = .ok m)) ∧
    ¬ ((∃ m, Sign1.unmarshal true b = .ok m) ∧ (∃ m, Sign.unmarshal b = .ok m)) ∧
    ¬ ((∃ m, Sign1.unmarshal true b = .ok m) ∧ (∃ s, Signature.unmarshal b = .ok s)) ∧
    ¬ ((∃ m, Sign1.unmarshal false b = .ok m) ∧ (∃ m, Sign.unmarshal b = .ok m)) ∧
    ¬ ((∃ m, Sign1.unmarshal false b = .ok m) ∧ (∃ s, Signature.unmarshal b = .ok s)) ∧
    ¬ ((∃ m, Sign.unmarshal b = .ok m) ∧ (∃ s, Signature.unmarshal b = .ok s)) := by
  obtain ⟨h1, h2, h3, h4, h5, h6⟩ := shapes_disjoint b
  exact ⟨fun h => h4 ⟨h.2, h.1⟩, h1, h2, fun h => h6 ⟨h.2, h.1⟩, h3, h5⟩

end C05

/-! ### C05.2 / C07.2 — COSE_Signature -/
namespace C05

/-- accepted ⇒ the input is exactly the bytes of one well-formed COSE_Signature tree; and the
    decoded value is the one the tree denotes -/
theorem signature_accept_wf_full (b : Bytes) (s : SigV) (h : Signature.unmarshal b = .ok s) :
    ∃ p u sg, b = (Wire.arr .imm [p, u, sg]).bytes ∧ WFSignature (.arr .imm [p, u, sg]) ∧
      decProtected p = .ok s.h.p ∧ decUnprot u = .ok s.h.u ∧ ensureIV s.h.p s.h.u = true ∧
      s.h.rawP = some p.bytes ∧ s.h.rawU = some u.bytes ∧
      ∃ hw c, sg = .bstr hw c ∧ c ≠ [] ∧ s.sig = some c := by
  obtain ⟨p, u, sg, -, hb, hwf, hlim, hnt, hsg, hz, hp, hu, hiv, hrp, hru⟩ :=
    signature_accept_envelope_full b s h
  obtain ⟨hw, c, rfl, hc, hs⟩ := Accept.wfsig_of_dec hsg hz
  exact ⟨p, u, _, hb, ⟨p, u, _, rfl, hwf, hlim, hnt, ⟨_, _, hp, hu, hiv⟩, ⟨hw, c, rfl, hc⟩⟩,
    hp, hu, hiv, hrp, hru, hw, c, rfl, hc, hs⟩

theorem signature_accept_wf (b : Bytes) (s : SigV) (h : Signature.unmarshal b = .ok s) :
    ∃ w, b = w.bytes ∧ WFSignature w := by
  obtain ⟨p, u, sg, hb, hwf, -⟩ := signature_accept_wf_full b s h
  exact ⟨_, hb, hwf⟩

end C05

namespace C07

/-- explicit form: the decoded value of a well-formed COSE_Signature tree -/
theorem wf_signature_accepted_full {p u : Wire} {hw : HW} {c : Bytes} {pm um : GoMap}
    (hwf : (Wire.arr .imm [p, u, .bstr hw c]).wf = true)
    (hlim : (Wire.arr .imm [p, u, .bstr hw c]).inLimits false 0 = true)
    (hp : decProtected p = .ok pm) (hu : decUnprot u = .ok um) (hiv : ensureIV pm um = true)
    (hc : c ≠ []) :
    Signature.unmarshal (Wire.arr .imm [p, u, .bstr hw c]).bytes =
      .ok { h := { rawP := some p.bytes, p := pm, rawU := some u.bytes, u := um },
            sig := some c } := by
  have hpt := parseTop_complete hwf hlim
  rw [Accept.arr3_bytes] at hpt ⊢
  have hz : blen (some c) ≠ 0 := by
    cases c with
    | nil => exact absurd rfl hc
    | cons x xs => simp [blen]
  exact C09.signature_unmarshal_of hpt
    (C09.decSigFields_of (sg := .bstr hw c) rfl hz hp hu hiv) rfl

/-- every well-formed COSE_Signature tree, in any encoding of its parts, is accepted, and decodes
    to the value the tree denotes (raw header bytes = the sub-items' bytes) -/
theorem wf_signature_accepted (w : Wire) (hw : WFSignature w) :
    ∃ s, Signature.unmarshal w.bytes = .ok s ∧
      ∃ p u sg, w = .arr .imm [p, u, sg] ∧ s.h.rawP = some p.bytes ∧ s.h.rawU = some u.bytes ∧
        decProtected p = .ok s.h.p ∧ decUnprot u = .ok s.h.u ∧
        ∃ hw c, sg = .bstr hw c ∧ s.sig = some c := by
  obtain ⟨p, u, sg, rfl, hwf, hlim, -, ⟨pm, um, hp, hu, hiv⟩, ⟨hw', c, rfl, hc⟩⟩ := hw
  exact ⟨_, wf_signature_accepted_full hwf hlim hp hu hiv hc, p, u, _, rfl, rfl, rfl, hp, hu,
    hw', c, rfl, rfl⟩

end C07

namespace C05

theorem signature_accept_iff (b : Bytes) :
    (∃ s, Signature.unmarshal b = .ok s) ↔ ∃ w, b = w.bytes ∧ WFSignature w := by
  constructor
  · rintro ⟨s, h⟩; exact signature_accept_wf b s h
  · rintro ⟨w, rfl, hw⟩
    obtain ⟨s, hs, -⟩ := C07.wf_signature_accepted w hw
    exact ⟨s, hs⟩

end C05

/-! ### C05.1 / C07.1 — COSE_Sign1 -/
namespace C05

theorem sign1_accept_wf_full (tagged : Bool) (b : Bytes) (m : Sign1Msg)
    (h : Sign1.unmarshal tagged b = .ok m) :
    ∃ p u pl sg, b = (if tagged then [0xd2] else []) ++ (Wire.arr .imm [p, u, pl, sg]).bytes ∧
      WFSign1 (.arr .imm [p, u, pl, sg]) ∧
      decProtected p = .ok m.h.p ∧ decUnprot u = .ok m.h.u ∧ ensureIV m.h.p m.h.u = true ∧
      m.h.rawP = some p.bytes ∧ m.h.rawU = some u.bytes ∧
      decByteString pl = .ok m.payload ∧
      ∃ hw c, sg = .bstr hw c ∧ c ≠ [] ∧ m.sig = some c := by
  obtain ⟨p, u, pl, sg, hb, hpt, hwf, hlim, hpl, hsg, hz, hh⟩ := C09.sign1_envelope_full h
  obtain ⟨hp, hu, hiv, hrp, hru⟩ := C09.decHeaders_ok hh
  obtain ⟨hw, c, rfl, hc, hs⟩ := Accept.wfsig_of_dec hsg hz
  exact ⟨p, u, pl, _, hb, ⟨p, u, pl, _, rfl, hwf, hlim, parseTop_noTag hpt, ⟨_, _, hp, hu, hiv⟩,
    Accept.wfpayload_of_dec hpl, ⟨hw, c, rfl, hc⟩⟩, hp, hu, hiv, hrp, hru, hpl, hw, c, rfl, hc, hs⟩

/-- accepted ⇒ exactly one well-formed COSE_Sign1 item (after the tag-18 byte when tagged),
    nothing after it, no tags inside -/
theorem sign1_accept_wf (tagged : Bool) (b : Bytes) (m : Sign1Msg)
    (h : Sign1.unmarshal tagged b = .ok m) :
    ∃ w, b = (if tagged then [0xd2] else []) ++ w.bytes ∧ WFSign1 w := by
  obtain ⟨p, u, pl, sg, hb, hwf, -⟩ := sign1_accept_wf_full tagged b m h
  exact ⟨_, hb, hwf⟩

end C05

namespace C07

/-- explicit form: the decoded value of a well-formed COSE_Sign1 tree -/
theorem wf_sign1_accepted_full (tagged : Bool) {p u pl : Wire} {hw : HW} {c : Bytes}
    {pm um : GoMap}
    (hwf : (Wire.arr .imm [p, u, pl, .bstr hw c]).wf = true)
    (hlim : (Wire.arr .imm [p, u, pl, .bstr hw c]).inLimits false 0 = true)
    (hp : decProtected p = .ok pm) (hu : decUnprot u = .ok um) (hiv : ensureIV pm um = true)
    (hpl : WFPayload pl) (hc : c ≠ []) :
    Sign1.unmarshal tagged
        ((if tagged then [0xd2] else []) ++ (Wire.arr .imm [p, u, pl, .bstr hw c]).bytes) =
      .ok { h := { rawP := some p.bytes, p := pm, rawU := some u.bytes, u := um },
            payload := Accept.payloadOf pl, sig := some c } := by
  have hpt := parseTop_complete hwf hlim
  rw [Accept.arr4_bytes] at hpt ⊢
  have hz : blen (some c) ≠ 0 := by
    cases c with
    | nil => exact absurd rfl hc
    | cons x xs => simp [blen]
  have := C09.unmarshal_of tagged (p.bytes ++ (u.bytes ++ (pl.bytes ++ (Wire.bstr hw c).bytes)))
  rw [C09.pre] at this
  rw [this]
  exact C09.decodeArr_of hpt (Accept.dec_of_wfpayload hpl) (sg := .bstr hw c) rfl hz
    (C09.decHeaders_of hp hu hiv)

/-- every well-formed COSE_Sign1 tree, in ANY encoding the peer chose for its parts (head widths
    of payload, signature, header buckets, inner maps, key order — all inside `w`), is accepted,
    and decodes to the value the tree denotes -/
theorem wf_sign1_accepted (tagged : Bool) (w : Wire) (hw : WFSign1 w) :
    ∃ m, Sign1.unmarshal tagged ((if tagged then [0xd2] else []) ++ w.bytes) = .ok m ∧
      ∃ p u pl sg, w = .arr .imm [p, u, pl, sg] ∧
        m.h.rawP = some p.bytes ∧ m.h.rawU = some u.bytes ∧
        decProtected p = .ok m.h.p ∧ decUnprot u = .ok m.h.u ∧
        decByteString pl = .ok m.payload ∧
        ((pl = .prim .imm 22 ∧ m.payload = none) ∨ ∃ hw c, pl = .bstr hw c ∧ m.payload = some c) ∧
        ∃ hw c, sg = .bstr hw c ∧ m.sig = some c := by
  obtain ⟨p, u, pl, sg, rfl, hwf, hlim, -, ⟨pm, um, hp, hu, hiv⟩, hpl, ⟨hw', c, rfl, hc⟩⟩ := hw
  refine ⟨_, wf_sign1_accepted_full tagged hwf hlim hp hu hiv hpl hc, p, u, pl, _, rfl, rfl, rfl,
    hp, hu, Accept.dec_of_wfpayload hpl, ?_, hw', c, rfl, rfl⟩
  rcases hpl with rfl | ⟨hw2, c2, rfl⟩
  · exact .inl ⟨rfl, rfl⟩
  · exact .inr ⟨hw2, c2, rfl, rfl⟩

end C07

namespace C05

theorem sign1_accept_iff (tagged : Bool) (b : Bytes) :
    (∃ m, Sign1.unmarshal tagged b = .ok m) ↔
      ∃ w, b = (if tagged then [0xd2] else []) ++ w.bytes ∧ WFSign1 w := by
  constructor
  · rintro ⟨m, h⟩; exact sign1_accept_wf tagged b m h
  · rintro ⟨w, rfl, hw⟩
    obtain ⟨m, hm, -⟩ := C07.wf_sign1_accepted tagged w hw
    exact ⟨m, hm⟩

end C05

/-! ### C05.3 — what a countersignature parameter decodes from -/
namespace C05

/-- a countersignature parameter decodes only from a COSE_Signature-shaped 3-array (immediate
    head), a list of them, or `null`/`undefined` (nil list, refused later by `isCsigValue`) -/
theorem csig_value_accept (w : Wire) (v : GoVal) (h : decCsigValue w = .ok v) :
    (∃ xs, w = .arr .imm xs ∧ ∃ c, decSigFields xs = .ok c ∧ v = c) ∨
    (∃ hw xs l, w = .arr hw xs ∧ decCsigList xs = .ok l ∧ v = .csigs l) ∨
    ((w = .prim .imm 22 ∨ w = .prim .imm 23) ∧ v = .csigsNil) := by
  cases w with
  | arr hw xs =>
    unfold decCsigValue at h
    by_cases hi : hw = .imm
    · subst hi
      cases hs : decSigFields xs with
      | ok c =>
        simp only [hs, if_true] at h
        exact .inl ⟨xs, rfl, c, hs, (Out.ok.inj h).symm⟩
      | err e =>
        cases hl : decCsigList xs with
        | ok l =>
          simp only [hs, hl, if_true] at h
          cases h
          exact .inr (.inl ⟨_, xs, l, rfl, hl, rfl⟩)
        | err e => simp [hs, hl] at h
        | panic => simp [hs, hl] at h
        | unmodelled => simp [hs, hl] at h
      | panic => simp [hs] at h
      | unmodelled => simp [hs] at h
    · cases hl : decCsigList xs with
      | ok l =>
        simp only [hi, if_false, hl] at h
        cases h
        exact .inr (.inl ⟨_, xs, l, rfl, hl, rfl⟩)
      | err e => simp [hi, hl] at h
      | panic => simp [hi, hl] at h
      | unmodelled => simp [hi, hl] at h
  | prim hw n =>
    unfold decCsigValue at h
    split at h
    · rename_i heq; cases heq
    · rename_i heq; cases heq; cases h; exact .inr (.inr ⟨.inl rfl, rfl⟩)
    · rename_i heq; cases heq; cases h; exact .inr (.inr ⟨.inr rfl, rfl⟩)
    · cases h
  | uint _ _ => simp [decCsigValue] at h
  | nint _ _ => simp [decCsigValue] at h
  | bstr _ _ => simp [decCsigValue] at h
  | tstr _ _ => simp [decCsigValue] at h
  | tag _ _ _ => simp [decCsigValue] at h
  | map _ _ => simp [decCsigValue] at h

theorem csigOne_ok {x : Wire} {a : GoVal} (h : C06.csigOne x = .ok a) :
    (x = .prim .imm 22 ∨ x = .prim .imm 23) ∧ a = .csigNil ∨
      ∃ ys, x = .arr .imm ys ∧ decSigFields ys = .ok a := by
  unfold C06.csigOne at h
  split at h
  · cases h; exact .inl ⟨.inl rfl, rfl⟩
  · cases h; exact .inl ⟨.inr rfl, rfl⟩
  · exact .inr ⟨_, rfl, h⟩
  · cases h

theorem csigComb_ok {a : Out GoVal} {b : Out (List GoVal)} {l : List GoVal}
    (h : C06.csigComb a b = .ok l) : ∃ x y, a = .ok x ∧ b = .ok y ∧ l = x :: y := by
  cases a <;> cases b <;> simp [C06.csigComb] at h
  exact ⟨_, _, rfl, rfl, h.symm⟩

theorem decCsigList_cons_ok {x : Wire} {xs : List Wire} {l : List GoVal}
    (h : decCsigList (x :: xs) = .ok l) :
    ∃ a r, C06.csigOne x = .ok a ∧ decCsigList xs = .ok r ∧ l = a :: r := by
  rw [C06.decCsigList_cons] at h
  exact csigComb_ok h

/-- a list of countersignatures decodes element by element: `null`/`undefined` entries become
    nil pointers (which header validation then refuses: `isCsigValue`), every other entry must be
    a COSE_Signature-shaped 3-array -/
theorem csig_list_accept (xs : List Wire) (l : List GoVal) (h : decCsigList xs = .ok l) :
    l.length = xs.length ∧ ∀ i (h1 : i < xs.length) (h2 : i < l.length),
      (xs[i] = .prim .imm 22 ∨ xs[i] = .prim .imm 23) ∧ l[i] = .csigNil ∨
        ∃ ys, xs[i] = .arr .imm ys ∧ decSigFields ys = .ok l[i] := by
  induction xs generalizing l with
  | nil =>
    rw [C06.decCsigList_nil] at h
    cases h
    exact ⟨rfl, fun i h1 => absurd h1 (Nat.not_lt_zero _)⟩
  | cons x xs ih =>
    obtain ⟨a, r, ha, hr, rfl⟩ := decCsigList_cons_ok h
    obtain ⟨hlen, hidx⟩ := ih r hr
    refine ⟨by simp [hlen], ?_⟩
    intro i h1 h2
    cases i with
    | zero => simpa using csigOne_ok ha
    | succ j =>
      simp only [List.length_cons, Nat.add_lt_add_iff_right] at h1 h2
      simpa using hidx j h1 h2

end C05

/-! ### C05.4 — the header rules hold in every accepted layer, at every depth -/
namespace C05

theorem unprot_accept_rules (u : Wire) (um : GoMap) (h : decUnprot u = .ok um) :
    validateHeaderParameters um false = true := by
  obtain ⟨hw, kvs, rfl⟩ := unprotected_is_map u um h
  unfold decUnprot at h
  cases hl : labelsOK kvs [] with
  | ok x =>
    simp only [hl] at h
    split at h
    · cases h
    cases hd : decUnprotPairs kvs with
    | ok m =>
      simp only [hd] at h
      by_cases hv : validateHeaderParameters m false = true
      · simp only [hv, if_true] at h
        cases h
        exact hv
      · simp [hv] at h
    | err e => simp [hd] at h
    | panic => simp [hd] at h
    | unmodelled => simp [hd] at h
  | err e => simp [hl] at h
  | panic => simp [hl] at h
  | unmodelled => simp [hl] at h

/-- what `decUnprot` accepts -/
theorem decUnprot_ok {u : Wire} {um : GoMap} (h : decUnprot u = .ok um) :
    ∃ hw kvs, u = .map hw kvs ∧ labelsOK kvs [] = .ok () ∧ decUnprotPairs kvs = .ok um ∧
      validateHeaderParameters um false = true := by
  obtain ⟨hw, kvs, rfl⟩ := unprotected_is_map u um h
  refine ⟨hw, kvs, rfl, ?_⟩
  unfold decUnprot at h
  cases hl : labelsOK kvs [] with
  | ok x =>
    simp only [hl] at h
    split at h
    · cases h
    cases hd : decUnprotPairs kvs with
    | ok m =>
      simp only [hd] at h
      by_cases hv : validateHeaderParameters m false = true
      · simp only [hv, if_true] at h
        cases h
        exact ⟨rfl, rfl, hv⟩
      · simp [hv] at h
    | err e => simp [hd] at h
    | panic => simp [hd] at h
    | unmodelled => simp [hd] at h
  | err e => simp [hl] at h
  | panic => simp [hl] at h
  | unmodelled => simp [hl] at h

theorem prot_accept_rules (p : Wire) (pm : GoMap) (h : decProtected p = .ok pm) :
    pm = [] ∨ ∃ m0, validateHeaderParameters m0 true = true ∧ pm = castAlg m0 := by
  obtain ⟨hw, enc, rfl, -⟩ := protected_is_bstr_of_map p pm h
  rcases C13.decode_protected_validated enc pm h with ⟨-, rfl⟩ | hm
  · exact .inl rfl
  · exact .inr hm

/-- the rules one decoded countersignature object satisfies in its own layer -/
def LayerRules (p u : GoMap) (sg : Option Bytes) : Prop :=
  (p = [] ∨ ∃ m0, validateHeaderParameters m0 true = true ∧ p = castAlg m0) ∧
  validateHeaderParameters u false = true ∧ ensureIV p u = true ∧ (∃ s, sg = some s ∧ s ≠ [])

mutual
/-- recursive closure: a decoded value is well-formed when every countersignature object in it
    satisfies the header rules of its own layer and all values of its unprotected bucket are
    well-formed again -/
def WFVal : GoVal → Prop
  | .csig _ p _ u sg => LayerRules p u sg ∧ WFPairs u
  | .csigs cs => WFList cs
  | _ => True
def WFList : List GoVal → Prop
  | [] => True
  | x :: xs => WFVal x ∧ WFList xs
def WFPairs : List (GoVal × GoVal) → Prop
  | [] => True
  | (_, v) :: r => WFVal v ∧ WFPairs r
end

theorem WFPairs_mem {m : GoMap} (h : WFPairs m) : ∀ e ∈ m, WFVal e.2 := by
  induction m with
  | nil => intro e he; cases he
  | cons x xs ih =>
    obtain ⟨k, v⟩ := x
    simp only [WFPairs] at h
    intro e he
    rcases List.mem_cons.mp he with rfl | he
    · exact h.1
    · exact ih h.2 e he

theorem WFList_mem {l : List GoVal} (h : WFList l) : ∀ c ∈ l, WFVal c := by
  induction l with
  | nil => intro e he; cases he
  | cons x xs ih =>
    simp only [WFList] at h
    intro e he
    rcases List.mem_cons.mp he with rfl | he
    · exact h.1
    · exact ih h.2 e he

end C05

namespace C05

/-- the generic decoder never produces countersignature objects, so its values are trivially
    well-formed -/
theorem decodeAny_wfval {w : Wire} {v : GoVal} (h : decodeAny w = .ok v) : WFVal v := by
  cases w with
  | uint hw n => unfold decodeAny at h; split at h <;> cases h; simp [WFVal]
  | nint hw n => unfold decodeAny at h; split at h <;> cases h; simp [WFVal]
  | bstr hw b => unfold decodeAny at h; cases h; simp [WFVal]
  | tstr hw b => unfold decodeAny at h; split at h <;> cases h; simp [WFVal]
  | tag hw t x => unfold decodeAny at h; cases h
  | prim hw n =>
    cases hw <;> unfold decodeAny at h
    · split at h
      · cases h; simp [WFVal]
      · split at h
        · cases h; simp [WFVal]
        · split at h <;> cases h <;> simp [WFVal]
    · cases h; simp [WFVal]
    · cases h
    · cases h
    · cases h; simp [WFVal]
  | arr hw xs =>
    unfold decodeAny at h
    cases hl : decodeList xs <;> simp [hl] at h
    subst h; simp [WFVal]
  | map hw kvs =>
    unfold decodeAny at h
    cases hl : decodePairs kvs [] <;> simp [hl] at h
    subst h; simp [WFVal]

theorem csigOne_wfval_of_not_arr {x : Wire} {a : GoVal} (h : C06.csigOne x = .ok a)
    (hx : ∀ hw ys, x ≠ .arr hw ys) : WFVal a := by
  rcases csigOne_ok h with ⟨-, rfl⟩ | ⟨ys, heq, -⟩
  · simp [WFVal]
  · exact absurd heq (hx _ _)

mutual
theorem decSigFields_wfval : ∀ (xs : List Wire) (v : GoVal), decSigFields xs = .ok v → WFVal v
  | [], _, h => by simp [decSigFields] at h
  | [_], _, h => by simp [decSigFields] at h
  | [_, _], _, h => by simp [decSigFields] at h
  | _ :: _ :: _ :: _ :: _, _, h => by simp [decSigFields] at h
  | [p, u, s], v, h => by
    have ihu := decUnprot_wfval u
    obtain ⟨p', u', sg', sig, pm, um, hxs, hsg, hz, hp, hu, hiv, rfl⟩ := decSigFields_ok h
    simp only [List.cons.injEq, and_true] at hxs
    obtain ⟨h1, h2, h3⟩ := hxs
    subst h1 h2 h3
    obtain ⟨hw, c, -, hc, rfl⟩ := Accept.wfsig_of_dec hsg hz
    simp only [WFVal]
    exact ⟨⟨prot_accept_rules _ _ hp, unprot_accept_rules _ _ hu, hiv, c, rfl, hc⟩, ihu um hu⟩
theorem decUnprot_wfval : ∀ (u : Wire) (um : GoMap), decUnprot u = .ok um → WFPairs um
  | .map _ kvs, um, h => by
    have ih := decUnprotPairs_wfval kvs
    obtain ⟨hw', kvs', heq, -, hd, -⟩ := decUnprot_ok h
    cases heq
    exact ih um hd
  | .uint .., _, h => by simp [decUnprot] at h
  | .nint .., _, h => by simp [decUnprot] at h
  | .bstr .., _, h => by simp [decUnprot] at h
  | .tstr .., _, h => by simp [decUnprot] at h
  | .tag .., _, h => by simp [decUnprot] at h
  | .prim .., _, h => by simp [decUnprot] at h
  | .arr .., _, h => by simp [decUnprot] at h
theorem decUnprotPairs_wfval : ∀ (kvs : List (Wire × Wire)) (m : GoMap),
    decUnprotPairs kvs = .ok m → WFPairs m
  | [], m, h => by
    simp only [decUnprotPairs, Out.ok.injEq] at h
    subst h
    simp [WFPairs]
  | (k, v) :: r, m, h => by
    have ih1 := decCsigValue_wfval v
    have ih2 := decUnprotPairs_wfval r
    unfold decUnprotPairs at h
    cases hk : decodeAny k with
    | ok key =>
      simp only [hk] at h
      generalize hval : (if isCsigLabel key then decCsigValue v else decodeAny v) = value at h
      cases value <;> cases hr : decUnprotPairs r <;> simp [hr] at h
      subst h
      simp only [WFPairs]
      refine ⟨?_, ih2 _ hr⟩
      split at hval
      · exact ih1 _ hval
      · exact decodeAny_wfval hval
    | err e => simp [hk] at h
    | panic => simp [hk] at h
    | unmodelled => simp [hk] at h
theorem decCsigValue_wfval : ∀ (w : Wire) (v : GoVal), decCsigValue w = .ok v → WFVal v
  | .arr _ xs, v, h => by
    have ih1 := decSigFields_wfval xs
    have ih2 := decCsigList_wfval xs
    rcases csig_value_accept _ _ h with ⟨xs', heq, c, hc, rfl⟩ | ⟨hw', xs', l, heq, hl, rfl⟩ |
      ⟨h', -⟩
    · cases heq; exact ih1 _ hc
    · cases heq; simp only [WFVal]; exact ih2 _ hl
    · rcases h' with h' | h' <;> cases h'
  | .prim _ _, v, h => by
    rcases csig_value_accept _ _ h with ⟨xs', heq, -⟩ | ⟨hw', xs', l, heq, -⟩ | ⟨-, rfl⟩
    · cases heq
    · cases heq
    · simp [WFVal]
  | .uint .., _, h => by simp [decCsigValue] at h
  | .nint .., _, h => by simp [decCsigValue] at h
  | .bstr .., _, h => by simp [decCsigValue] at h
  | .tstr .., _, h => by simp [decCsigValue] at h
  | .tag .., _, h => by simp [decCsigValue] at h
  | .map .., _, h => by simp [decCsigValue] at h
theorem decCsigList_wfval : ∀ (xs : List Wire) (l : List GoVal), decCsigList xs = .ok l → WFList l
  | [], l, h => by
    rw [C06.decCsigList_nil] at h
    cases h
    simp [WFList]
  | .arr _ ys :: xs, l, h => by
    have ih1 := decSigFields_wfval ys
    have ih2 := decCsigList_wfval xs
    obtain ⟨a, r, ha, hr, rfl⟩ := decCsigList_cons_ok h
    simp only [WFList]
    refine ⟨?_, ih2 _ hr⟩
    rcases csigOne_ok ha with ⟨h' | h', -⟩ | ⟨ys', heq, hy⟩
    · cases h'
    · cases h'
    · cases heq; exact ih1 _ hy
  | .prim _ _ :: xs, l, h => by
    have ih2 := decCsigList_wfval xs
    obtain ⟨a, r, ha, hr, rfl⟩ := decCsigList_cons_ok h
    simp only [WFList]
    exact ⟨csigOne_wfval_of_not_arr ha (by intro _ _ hh; cases hh), ih2 _ hr⟩
  | .uint .. :: xs, l, h => by
    have ih2 := decCsigList_wfval xs
    obtain ⟨a, r, ha, hr, rfl⟩ := decCsigList_cons_ok h
    simp only [WFList]
    exact ⟨csigOne_wfval_of_not_arr ha (by intro _ _ hh; cases hh), ih2 _ hr⟩
  | .nint .. :: xs, l, h => by
    have ih2 := decCsigList_wfval xs
    obtain ⟨a, r, ha, hr, rfl⟩ := decCsigList_cons_ok h
    simp only [WFList]
    exact ⟨csigOne_wfval_of_not_arr ha (by intro _ _ hh; cases hh), ih2 _ hr⟩
  | .bstr .. :: xs, l, h => by
    have ih2 := decCsigList_wfval xs
    obtain ⟨a, r, ha, hr, rfl⟩ := decCsigList_cons_ok h
    simp only [WFList]
    exact ⟨csigOne_wfval_of_not_arr ha (by intro _ _ hh; cases hh), ih2 _ hr⟩
  | .tstr .. :: xs, l, h => by
    have ih2 := decCsigList_wfval xs
    obtain ⟨a, r, ha, hr, rfl⟩ := decCsigList_cons_ok h
    simp only [WFList]
    exact ⟨csigOne_wfval_of_not_arr ha (by intro _ _ hh; cases hh), ih2 _ hr⟩
  | .tag .. :: xs, l, h => by
    have ih2 := decCsigList_wfval xs
    obtain ⟨a, r, ha, hr, rfl⟩ := decCsigList_cons_ok h
    simp only [WFList]
    exact ⟨csigOne_wfval_of_not_arr ha (by intro _ _ hh; cases hh), ih2 _ hr⟩
  | .map .. :: xs, l, h => by
    have ih2 := decCsigList_wfval xs
    obtain ⟨a, r, ha, hr, rfl⟩ := decCsigList_cons_ok h
    simp only [WFList]
    exact ⟨csigOne_wfval_of_not_arr ha (by intro _ _ hh; cases hh), ih2 _ hr⟩
end

/-- every value in an accepted unprotected bucket is well-formed at every depth: each
    countersignature object (single, or element of a list) has validated headers of its own, and
    the values of ITS unprotected bucket are well-formed again -/
theorem unprot_values_wf (u : Wire) (um : GoMap) (h : decUnprot u = .ok um) :
    ∀ e ∈ um, WFVal e.2 :=
  WFPairs_mem (decUnprot_wfval u um h)

/-- unfolding of the closure at a countersignature object -/
theorem WFVal_csig {rp ru sg : Option Bytes} {p u : GoMap} (h : WFVal (.csig rp p ru u sg)) :
    LayerRules p u sg ∧ ∀ e ∈ u, WFVal e.2 := by
  simp only [WFVal] at h
  exact ⟨h.1, WFPairs_mem h.2⟩

theorem WFVal_csigs {l : List GoVal} (h : WFVal (.csigs l)) : ∀ c ∈ l, WFVal c := by
  simp only [WFVal] at h
  exact WFList_mem h

/-- every countersignature object inside an accepted unprotected bucket has itself accepted
    headers (one level; `unprot_values_wf` gives all levels) -/
theorem nested_csig_headers (u : Wire) (um : GoMap) (h : decUnprot u = .ok um) :
    ∀ e ∈ um, ∀ rp p ru uu sg, e.2 = .csig rp p ru uu sg →
      (p = [] ∨ ∃ m0, validateHeaderParameters m0 true = true ∧ p = castAlg m0) ∧
      validateHeaderParameters uu false = true ∧ ensureIV p uu = true ∧
      (∃ s, sg = some s ∧ s ≠ []) := by
  intro e he rp p ru uu sg heq
  have hw := unprot_values_wf u um h e he
  rw [heq] at hw
  exact (WFVal_csig hw).1

/-- … the same for the elements of a list of countersignatures -/
theorem nested_csigs_headers (u : Wire) (um : GoMap) (h : decUnprot u = .ok um) :
    ∀ e ∈ um, ∀ l, e.2 = .csigs l → ∀ c ∈ l, ∀ rp p ru uu sg, c = .csig rp p ru uu sg →
      (p = [] ∨ ∃ m0, validateHeaderParameters m0 true = true ∧ p = castAlg m0) ∧
      validateHeaderParameters uu false = true ∧ ensureIV p uu = true ∧
      (∃ s, sg = some s ∧ s ≠ []) := by
  intro e he l heq c hc rp p ru uu sg hceq
  have hw := unprot_values_wf u um h e he
  rw [heq] at hw
  have hcw := WFVal_csigs hw c hc
  rw [hceq] at hcw
  exact (WFVal_csig hcw).1

/-- … and, explicitly, one level further down: the unprotected bucket of a nested
    countersignature again contains only well-formed values, so both theorems above apply to it
    verbatim (with `WFVal` in place of the decoder hypothesis) -/
theorem nested_csig_closed (u : Wire) (um : GoMap) (h : decUnprot u = .ok um) :
    ∀ e ∈ um, ∀ rp p ru uu sg, e.2 = .csig rp p ru uu sg → ∀ e' ∈ uu, WFVal e'.2 := by
  intro e he rp p ru uu sg heq
  have hw := unprot_values_wf u um h e he
  rw [heq] at hw
  exact (WFVal_csig hw).2

end C05

/-! ### summary at message level -/
namespace C05

/-- an accepted COSE_Sign1: the header rules hold in the message layer and, recursively, in every
    countersignature nested in its unprotected bucket -/
theorem sign1_accept_all_layers (tagged : Bool) (b : Bytes) (m : Sign1Msg)
    (h : Sign1.unmarshal tagged b = .ok m) :
    LayerRules m.h.p m.h.u m.sig ∧ ∀ e ∈ m.h.u, WFVal e.2 := by
  obtain ⟨p, u, pl, sg, -, -, hp, hu, hiv, -, -, -, hw, c, -, hc, hs⟩ :=
    sign1_accept_wf_full tagged b m h
  exact ⟨⟨prot_accept_rules _ _ hp, unprot_accept_rules _ _ hu, hiv, c, hs, hc⟩,
    unprot_values_wf _ _ hu⟩

/-- an accepted COSE_Signature / countersignature: the same -/
theorem signature_accept_all_layers (b : Bytes) (s : SigV) (h : Signature.unmarshal b = .ok s) :
    WFVal s.toVal := by
  obtain ⟨p, u, sg, -, -, hp, hu, hiv, -, -, hw, c, -, hc, hs⟩ := signature_accept_wf_full b s h
  simp only [SigV.toVal, WFVal]
  exact ⟨⟨prot_accept_rules _ _ hp, unprot_accept_rules _ _ hu, hiv, c, hs, hc⟩,
    decUnprot_wfval _ _ hu⟩

/-- the well-formed tree of an accepted input is unique -/
theorem sign1_tree_unique {w w' : Wire} (hw : WFSign1 w) (hw' : WFSign1 w')
    (h : w.bytes = w'.bytes) : w = w' := by
  obtain ⟨_, _, _, _, -, hwf, -⟩ := hw
  obtain ⟨_, _, _, _, -, hwf', -⟩ := hw'
  exact Reencode.bytes_inj hwf hwf' h

theorem signature_tree_unique {w w' : Wire} (hw : WFSignature w) (hw' : WFSignature w')
    (h : w.bytes = w'.bytes) : w = w' := by
  obtain ⟨_, _, _, -, hwf, -⟩ := hw
  obtain ⟨_, _, _, -, hwf', -⟩ := hw'
  exact Reencode.bytes_inj hwf hwf' h

end C05
