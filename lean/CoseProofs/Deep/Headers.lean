/-
  CoseProofs.Deep.Headers — order independence of header validation and of map encoding.

  Go's `map[any]any` header buckets are modelled as association lists; Go ranges over a map in
  random order.  This file proves that
    * `validateHeaderParameters` accepts/rejects independently of the iteration order (C13),
    * it is independent of the Go integer type labels are spelt with (C13),
    * the bytes emitted for a map / a header bucket are independent of the iteration order (C08).
  Core Lean only.
-/
import CoseModel.Headers
import CoseProofs.Lemmas.Sort
namespace CoseModel

/-! ### normalised labels -/

/-- the normalised labels of a bucket, in list order -/
def normLabels (h : GoMap) : List (Option GoVal) := h.map (fun e => normalizeLabel e.1)

/-- two entries carry different labels after normalisation (w.r.t. Go's `==`) -/
def LabelDistinct (e e' : GoVal × GoVal) : Prop :=
  ∀ a b, normalizeLabel e.1 = some a → normalizeLabel e'.1 = some b → a.keyEq b = false

/-- every key is an integer or a text string and no two keys normalise to the same label -/
def LabelsOK (h : GoMap) : Prop :=
  (∀ e ∈ h, normalizeLabel e.1 ≠ none) ∧ h.Pairwise LabelDistinct

/-- a value that is the result of `normalizeLabel` -/
def IsNormal (a : GoVal) : Prop := (∃ v, a = .int .i64 v) ∨ (∃ b, a = .str b)

theorem isNormal_of_normalize {x a : GoVal} (h : normalizeLabel x = some a) : IsNormal a := by
  cases x <;> try (simp [normalizeLabel] at h; done)
  · exact Or.inl ⟨_, normalizeLabel_int_eq_some h⟩
  · simp [normalizeLabel] at h; exact Or.inr ⟨_, h.symm⟩

/-- on normalised labels Go's `==` is equality -/
theorem keyEq_iff_eq_of_normal {a b : GoVal} (ha : IsNormal a) (hb : IsNormal b) :
    a.keyEq b = true ↔ a = b := by
  rcases ha with ⟨v, rfl⟩ | ⟨s, rfl⟩ <;> rcases hb with ⟨v', rfl⟩ | ⟨s', rfl⟩ <;>
    simp [GoVal.keyEq]

theorem keyEq_normalize_iff {x y a b : GoVal} (hx : normalizeLabel x = some a)
    (hy : normalizeLabel y = some b) : a.keyEq b = true ↔ a = b :=
  keyEq_iff_eq_of_normal (isNormal_of_normalize hx) (isNormal_of_normalize hy)

/-- an integer or text key that is `==` to `l` *is* `l` -/
theorem eq_of_keyEq_of_normalizes {k l : GoVal} (hk : normalizeLabel k ≠ none)
    (h : k.keyEq l = true) : k = l := by
  cases k <;> (try (simp [normalizeLabel] at hk; done)) <;> cases l <;> simp [GoVal.keyEq] at h
  · rw [h.1, h.2]
  · rw [h]

theorem eq_of_keyEq_of_normalizes' {k l : GoVal} (hl : normalizeLabel l ≠ none)
    (h : k.keyEq l = true) : k = l := by
  cases l <;> (try (simp [normalizeLabel] at hl; done)) <;> cases k <;> simp [GoVal.keyEq] at h
  · rw [h.1, h.2]
  · rw [h]

theorem keyEq_refl_of_normalizes {k : GoVal} (hk : normalizeLabel k ≠ none) :
    k.keyEq k = true := by
  cases k <;> simp [normalizeLabel] at hk <;> simp [GoVal.keyEq]

theorem labelDistinct_iff_ne {e e' : GoVal × GoVal} (he : normalizeLabel e.1 ≠ none) :
    LabelDistinct e e' ↔ normalizeLabel e.1 ≠ normalizeLabel e'.1 := by
  unfold LabelDistinct
  constructor
  · intro h heq
    cases ha : normalizeLabel e.1 with
    | none => exact he ha
    | some a =>
      have hb : normalizeLabel e'.1 = some a := by rw [← heq, ha]
      have := h a a ha hb
      rw [(keyEq_normalize_iff ha hb).mpr rfl] at this
      cases this
  · intro hne a b ha hb
    cases hk : a.keyEq b with
    | false => rfl
    | true =>
      have := (keyEq_normalize_iff ha hb).mp hk
      subst this
      exact absurd (ha.trans hb.symm) hne

theorem normLabels_all_some (h : GoMap) :
    (∀ x ∈ normLabels h, x ≠ none) ↔ ∀ e ∈ h, normalizeLabel e.1 ≠ none := by
  unfold normLabels
  constructor
  · intro hx e he
    exact hx _ (List.mem_map.mpr ⟨e, he, rfl⟩)
  · intro hx x hm
    obtain ⟨e, he, rfl⟩ := List.mem_map.mp hm
    exact hx e he

theorem pairwise_distinct_iff_nodup (h : GoMap) (hall : ∀ e ∈ h, normalizeLabel e.1 ≠ none) :
    h.Pairwise LabelDistinct ↔ (normLabels h).Nodup := by
  unfold normLabels
  induction h with
  | nil => simp
  | cons e r ih =>
    have he : normalizeLabel e.1 ≠ none := hall e (List.mem_cons_self ..)
    have hr : ∀ e ∈ r, normalizeLabel e.1 ≠ none := fun x hx => hall x (List.mem_cons_of_mem _ hx)
    rw [List.pairwise_cons, List.map_cons, List.nodup_cons, ih hr]
    refine and_congr ?_ Iff.rfl
    constructor
    · intro hd hm
      obtain ⟨e', he', heq⟩ := List.mem_map.mp hm
      exact (labelDistinct_iff_ne he).mp (hd e' he') heq.symm
    · intro hd e' he'
      exact (labelDistinct_iff_ne he).mpr
        (fun heq => hd (List.mem_map.mpr ⟨e', he', heq.symm⟩))

/-- `LabelsOK` only depends on the list of normalised labels -/
theorem labelsOK_iff_normLabels (h : GoMap) :
    LabelsOK h ↔ (∀ x ∈ normLabels h, x ≠ none) ∧ (normLabels h).Nodup := by
  unfold LabelsOK
  rw [normLabels_all_some]
  constructor
  · rintro ⟨h1, h2⟩; exact ⟨h1, (pairwise_distinct_iff_nodup h h1).mp h2⟩
  · rintro ⟨h1, h2⟩; exact ⟨h1, (pairwise_distinct_iff_nodup h h1).mpr h2⟩

theorem normLabels_perm {h h' : GoMap} (hp : h.Perm h') : (normLabels h).Perm (normLabels h') :=
  hp.map _

theorem labelsOK_perm {h h' : GoMap} (hp : h.Perm h') : LabelsOK h ↔ LabelsOK h' := by
  rw [labelsOK_iff_normLabels, labelsOK_iff_normLabels]
  have hq := normLabels_perm hp
  constructor
  · rintro ⟨h1, h2⟩
    exact ⟨fun x hx => h1 x (hq.mem_iff.mpr hx), hq.nodup_iff.mp h2⟩
  · rintro ⟨h1, h2⟩
    exact ⟨fun x hx => h1 x (hq.mem_iff.mp hx), hq.nodup_iff.mpr h2⟩

/-- under `LabelsOK` an entry is determined by its normalised label -/
theorem entry_eq_of_labelsOK {h : GoMap} (hok : LabelsOK h) {a b : GoVal × GoVal}
    (ha : a ∈ h) (hb : b ∈ h) (hn : normalizeLabel a.1 = normalizeLabel b.1) : a = b := by
  induction h with
  | nil => cases ha
  | cons x xs ih =>
    have hx : normalizeLabel x.1 ≠ none := hok.1 x (List.mem_cons_self ..)
    have hok' : LabelsOK xs :=
      ⟨fun e he => hok.1 e (List.mem_cons_of_mem _ he), (List.pairwise_cons.mp hok.2).2⟩
    have hd := (List.pairwise_cons.mp hok.2).1
    rcases List.mem_cons.mp ha with ha1 | ha1
    · rcases List.mem_cons.mp hb with hb1 | hb1
      · rw [ha1, hb1]
      · subst ha1
        exact absurd hn ((labelDistinct_iff_ne hx).mp (hd b hb1))
    · rcases List.mem_cons.mp hb with hb1 | hb1
      · subst hb1
        exact absurd hn.symm ((labelDistinct_iff_ne hx).mp (hd a ha1))
      · exact ih hok' ha1 hb1

/-! ### `Forall₂` (core Lean has no `List.Forall₂`; this is the usual definition) -/

/-- the two lists have the same length and are related element-wise -/
inductive Forall₂ {α β : Type} (R : α → β → Prop) : List α → List β → Prop
  | nil : Forall₂ R [] []
  | cons {a : α} {b : β} {l : List α} {l' : List β} :
      R a b → Forall₂ R l l' → Forall₂ R (a :: l) (b :: l')

theorem Forall₂.map_eq {α β γ : Type} {R : α → β → Prop} {f : α → γ} {g : β → γ}
    {l : List α} {l' : List β} (h : Forall₂ R l l') (hfg : ∀ a b, R a b → f a = g b) :
    l.map f = l'.map g := by
  induction h with
  | nil => rfl
  | cons hab _ ih => rw [List.map_cons, List.map_cons, hfg _ _ hab, ih]

theorem Forall₂.length_eq {α β : Type} {R : α → β → Prop} {l : List α} {l' : List β}
    (h : Forall₂ R l l') : l.length = l'.length := by
  induction h with
  | nil => rfl
  | cons _ _ ih => simp [ih]

/-- transfer a property of all elements along an element-wise relation -/
theorem Forall₂.forall_iff {α β : Type} {R : α → β → Prop} {P : α → Prop} {Q : β → Prop}
    {l : List α} {l' : List β} (h : Forall₂ R l l')
    (hpq : ∀ a ∈ l, ∀ b ∈ l', R a b → (P a ↔ Q b)) :
    (∀ a ∈ l, P a) ↔ (∀ b ∈ l', Q b) := by
  induction h with
  | nil => simp
  | @cons a b l l' hab _ ih =>
    simp only [List.mem_cons, forall_eq_or_imp]
    have h1 := hpq a (List.mem_cons_self ..) b (List.mem_cons_self ..) hab
    have h2 := ih (fun x hx y hy => hpq x (List.mem_cons_of_mem _ hx) y (List.mem_cons_of_mem _ hy))
    rw [h1, h2]

theorem Forall₂.refl {α : Type} {R : α → α → Prop} (hr : ∀ a, R a a) : ∀ l, Forall₂ R l l
  | [] => .nil
  | a :: l => .cons (hr a) (Forall₂.refl hr l)

end CoseModel

open CoseModel

namespace C13

/-! ### 1, 2 : the validation loop is a conjunction -/

/-- the loop, for any accumulator: per-entry checks, freshness w.r.t. the accumulator, and
    pairwise distinct labels -/
theorem validateLoop_iff (hm : GoMap) (prot : Bool) (rest : GoMap) (existing : List GoVal) :
    validateLoop hm prot rest existing = true ↔
      (∀ e ∈ rest, ∃ l, normalizeLabel e.1 = some l ∧
          existing.any (fun x => x.keyEq l) = false ∧ checkParam hm prot l e.2 = true) ∧
      rest.Pairwise LabelDistinct := by
  induction rest generalizing existing with
  | nil => simp [validateLoop]
  | cons e r ih =>
    obtain ⟨label, value⟩ := e
    simp only [validateLoop]
    cases hl : normalizeLabel label with
    | none =>
      simp only [Bool.false_eq_true, false_iff, not_and]
      intro hall
      have := hall (label, value) (List.mem_cons_self ..)
      simp [hl] at this
    | some l =>
      simp only
      by_cases hex : existing.any (fun x => x.keyEq l) = true
      · simp only [hex, if_true, Bool.false_eq_true, false_iff, not_and]
        intro hall
        have := hall (label, value) (List.mem_cons_self ..)
        simp only [hl, Option.some.injEq] at this
        obtain ⟨l', rfl, h1, _⟩ := this
        rw [hex] at h1; cases h1
      · have hex' : existing.any (fun x => x.keyEq l) = false := by simpa using hex
        simp only [hex', Bool.false_eq_true, if_false]
        by_cases hc : checkParam hm prot l value = true
        · simp only [hc, Bool.not_true, Bool.false_eq_true, if_false]
          rw [ih (l :: existing)]
          simp only [List.mem_cons, forall_eq_or_imp, List.pairwise_cons, List.any_cons,
            Bool.or_eq_false_iff]
          constructor
          · rintro ⟨hall, hp⟩
            refine ⟨⟨⟨l, hl, hex', hc⟩, ?_⟩, ?_, hp⟩
            · intro e he
              obtain ⟨l', h1, ⟨_, h2⟩, h3⟩ := hall e he
              exact ⟨l', h1, h2, h3⟩
            · intro e he a b ha hb
              obtain ⟨l', h1, ⟨h2, _⟩, _⟩ := hall e he
              simp only [hl, Option.some.injEq] at ha
              subst ha
              rw [h1] at hb; cases hb
              exact h2
          · rintro ⟨⟨_, hall⟩, hd, hp⟩
            refine ⟨?_, hp⟩
            intro e he
            obtain ⟨l', h1, h2, h3⟩ := hall e he
            exact ⟨l', h1, ⟨hd e he l l' hl h1, h2⟩, h3⟩
        · have hc' : checkParam hm prot l value = false := by simpa using hc
          simp only [hc', Bool.not_false, if_true, Bool.false_eq_true, false_iff, not_and]
          intro hall
          have := hall (label, value) (List.mem_cons_self ..)
          simp only [hl, Option.some.injEq] at this
          obtain ⟨l', rfl, _, h3⟩ := this
          rw [hc'] at h3; cases h3

/-- 2. the loop is a conjunction of per-entry checks plus label uniqueness -/
theorem validate_iff (h : GoMap) (prot : Bool) :
    validateHeaderParameters h prot = true ↔
      LabelsOK h ∧ ∀ e ∈ h, ∃ l, normalizeLabel e.1 = some l ∧ checkParam h prot l e.2 = true := by
  unfold validateHeaderParameters
  rw [validateLoop_iff]
  constructor
  · rintro ⟨hall, hp⟩
    refine ⟨⟨?_, hp⟩, ?_⟩
    · intro e he hn
      obtain ⟨l, h1, _⟩ := hall e he
      rw [hn] at h1; cases h1
    · intro e he
      obtain ⟨l, h1, _, h3⟩ := hall e he
      exact ⟨l, h1, h3⟩
  · rintro ⟨⟨_, hp⟩, hall⟩
    refine ⟨?_, hp⟩
    intro e he
    obtain ⟨l, h1, h3⟩ := hall e he
    exact ⟨l, h1, by simp, h3⟩

/-- 1. an accepted bucket has only int / tstr labels, pairwise distinct after normalisation -/
theorem validate_labels (h : GoMap) (prot : Bool) (hv : validateHeaderParameters h prot = true) :
    LabelsOK h := ((validate_iff h prot).mp hv).1

/-! ### 3 : lookups are order independent under `LabelsOK` -/

end C13

namespace HeadersDeep

/-- `find?` is order independent when at most one entry satisfies the predicate -/
theorem find?_perm_of_unique {α : Type} {l l' : List α} (hp : l.Perm l') (p : α → Bool)
    (hu : ∀ a ∈ l, ∀ b ∈ l, p a = true → p b = true → a = b) : l.find? p = l'.find? p := by
  cases h : l.find? p with
  | none =>
    rw [List.find?_eq_none] at h
    symm
    rw [List.find?_eq_none]
    intro x hx
    exact h x (hp.mem_iff.mpr hx)
  | some a =>
    have ha := List.mem_of_find?_eq_some h
    have hpa := List.find?_some h
    cases h' : l'.find? p with
    | none =>
      rw [List.find?_eq_none] at h'
      exact absurd hpa (h' a (hp.mem_iff.mp ha))
    | some b =>
      have hb := hp.mem_iff.mpr (List.mem_of_find?_eq_some h')
      have hpb := List.find?_some h'
      rw [hu a ha b hb hpa hpb]

end HeadersDeep

namespace C13
open HeadersDeep

theorem goLookup_perm (h h' : GoMap) (hp : h.Perm h') (hok : LabelsOK h) (label : GoVal) :
    h.lookup label = h'.lookup label := by
  unfold GoMap.lookup
  rw [find?_perm_of_unique hp]
  intro a ha b hb hpa hpb
  have h1 := eq_of_keyEq_of_normalizes (hok.1 a ha) hpa
  have h2 := eq_of_keyEq_of_normalizes (hok.1 b hb) hpb
  exact entry_eq_of_labelsOK hok ha hb (by rw [h1, h2])

/-- 3. the entry found under a label does not depend on the iteration order -/
theorem lookupLabel_perm (h h' : GoMap) (hp : h.Perm h') (hok : LabelsOK h) (label : GoVal) :
    lookupLabel h label = lookupLabel h' label := by
  unfold lookupLabel
  rw [goLookup_perm h h' hp hok label]
  cases h'.lookup label with
  | some v => rfl
  | none =>
    simp only
    cases hw : normalizeLabel label with
    | none => rfl
    | some want =>
      simp only
      rw [find?_perm_of_unique hp]
      intro a ha b hb hpa hpb
      apply entry_eq_of_labelsOK hok ha hb
      cases hna : normalizeLabel a.1 with
      | none => exact absurd hna (hok.1 a ha)
      | some ga =>
        cases hnb : normalizeLabel b.1 with
        | none => exact absurd hnb (hok.1 b hb)
        | some gb =>
          simp only [hna] at hpa
          simp only [hnb] at hpb
          rw [(keyEq_normalize_iff hna hw).mp hpa, (keyEq_normalize_iff hnb hw).mp hpb]

theorem hasLabel_perm (h h' : GoMap) (hp : h.Perm h') (hok : LabelsOK h) (label : GoVal) :
    hasLabel h label = hasLabel h' label := by
  unfold hasLabel
  rw [lookupLabel_perm h h' hp hok label]

/-! ### 4 : the per-entry check consults the bucket only through `hasLabel` -/

/-- in a bucket all of whose keys are labels, a value that is not a label (a `bool`, a `uint64`
    above `math.MaxInt64`, …) is not found: the exact-key lookup `h[label]` can only hit a key,
    and the scan over normalised keys is not reached (`normalizeLabel` refuses) -/
theorem hasLabel_of_not_normalizes (h : GoMap) (hk : ∀ e ∈ h, normalizeLabel e.1 ≠ none)
    (l : GoVal) (hl : normalizeLabel l = none) : hasLabel h l = false := by
  unfold hasLabel lookupLabel
  cases hlk : h.lookup l with
  | some v =>
    unfold GoMap.lookup at hlk
    cases hf : h.find? (fun e => e.1.keyEq l) with
    | none => rw [hf] at hlk; cases hlk
    | some e =>
      have he := List.mem_of_find?_eq_some hf
      have hkq := List.find?_some hf
      have hke := hk e he
      rw [eq_of_keyEq_of_normalizes hke hkq] at hke
      exact absurd hl hke
  | none => simp [hl]

/-- without the hypothesis on the keys the exact-key lookup does find such a value: a `uint64`
    key above `math.MaxInt64` is a Go map key like any other -/
theorem hasLabel_of_not_normalizes_needs_keys :
    normalizeLabel (.int .u64 9223372036854775808) = none ∧
    hasLabel [(.int .u64 9223372036854775808, .nil)] (.int .u64 9223372036854775808) = true := by
  constructor
  · simp [normalizeLabel, IntKind.wide, maxInt64]
  · simp [hasLabel, lookupLabel, GoMap.lookup, GoVal.keyEq]

theorem ensureCritical_congr (h h' : GoMap) (hh : ∀ l, normalizeLabel l ≠ none → hasLabel h l = hasLabel h' l)
    (hk : ∀ e ∈ h, normalizeLabel e.1 ≠ none) (hk' : ∀ e ∈ h', normalizeLabel e.1 ≠ none)
    (v : GoVal) : ensureCritical v h = ensureCritical v h' := by
  unfold ensureCritical
  cases v with
  | arr labels =>
    have hf : (fun l => (canInt l || canTstr l) && hasLabel h l)
        = (fun l => (canInt l || canTstr l) && hasLabel h' l) := by
      funext l
      cases hn : normalizeLabel l with
      | none =>
        rw [hasLabel_of_not_normalizes h hk l hn, hasLabel_of_not_normalizes h' hk' l hn]
      | some n => rw [hh l (by rw [hn]; simp)]
    simp only [hf]
  | _ => rfl

/-- `checkParam` depends on the bucket only via `hasLabel` at normalisable labels (both buckets
    having labels for keys — without that a `crit` entry of type `uint64` above `math.MaxInt64`
    can hit a key exactly, see `hasLabel_of_not_normalizes_needs_keys`) -/
theorem checkParam_congr (h h' : GoMap) (hh : ∀ l, normalizeLabel l ≠ none → hasLabel h l = hasLabel h' l)
    (hk : ∀ e ∈ h, normalizeLabel e.1 ≠ none) (hk' : ∀ e ∈ h', normalizeLabel e.1 ≠ none)
    (prot : Bool) (l v : GoVal) : checkParam h prot l v = checkParam h' prot l v := by
  have h5 : hasLabel h (lbl 5) = hasLabel h' (lbl 5) := hh _ (by simp [lbl, normalizeLabel])
  have h6 : hasLabel h (lbl 6) = hasLabel h' (lbl 6) := hh _ (by simp [lbl, normalizeLabel])
  unfold checkParam
  rw [h5, h6, ensureCritical_congr h h' hh hk hk' v]

/-- 4. -/
theorem checkParam_perm (h h' : GoMap) (hp : h.Perm h') (hok : LabelsOK h) (prot : Bool)
    (l v : GoVal) : checkParam h prot l v = checkParam h' prot l v :=
  checkParam_congr h h' (fun l _ => hasLabel_perm h h' hp hok l) hok.1
    ((labelsOK_perm hp).mp hok).1 prot l v

/-! ### 5 : MAIN — the verdict does not depend on Go's map iteration order -/

theorem validate_perm_imp (h h' : GoMap) (hp : h.Perm h') (prot : Bool)
    (hv : validateHeaderParameters h prot = true) : validateHeaderParameters h' prot = true := by
  rw [validate_iff] at hv ⊢
  obtain ⟨hok, hall⟩ := hv
  refine ⟨(labelsOK_perm hp).mp hok, ?_⟩
  intro e he
  obtain ⟨l, h1, h2⟩ := hall e (hp.mem_iff.mpr he)
  exact ⟨l, h1, by rw [← checkParam_perm h h' hp hok]; exact h2⟩

theorem validate_perm_invariant (h h' : GoMap) (hp : h.Perm h') (prot : Bool) :
    validateHeaderParameters h prot = validateHeaderParameters h' prot := by
  cases hv : validateHeaderParameters h prot with
  | true => exact (validate_perm_imp h h' hp prot hv).symm
  | false =>
    cases hv' : validateHeaderParameters h' prot with
    | false => rfl
    | true =>
      have := validate_perm_imp h' h hp.symm prot hv'
      rw [hv] at this; cases this

/-! ### 6 : spelling invariance -/

/-- `hasLabel` at an int / tstr label only looks at normalised labels.
    (For a label that does not normalise the statement is false: see
    `hasLabel_norm_counterexample`.) -/
theorem hasLabel_norm' (h : GoMap) (l n : GoVal) (hn : normalizeLabel l = some n) :
    hasLabel h l = true ↔ ∃ e ∈ h, normalizeLabel e.1 = some n := by
  have hl : normalizeLabel l ≠ none := by rw [hn]; simp
  unfold hasLabel lookupLabel
  cases hlk : h.lookup l with
  | some v =>
    simp only [Option.isSome_some, true_iff]
    unfold GoMap.lookup at hlk
    cases hf : h.find? (fun e => e.1.keyEq l) with
    | none => rw [hf] at hlk; cases hlk
    | some e =>
      have he := List.mem_of_find?_eq_some hf
      have hk := List.find?_some hf
      have := eq_of_keyEq_of_normalizes' hl hk
      exact ⟨e, he, by rw [this, hn]⟩
  | none =>
    simp only [hn]
    split
    · rename_i e hf2
      simp only [Option.isSome_some, true_iff]
      have he := List.mem_of_find?_eq_some hf2
      have hp := List.find?_some hf2
      refine ⟨e, he, ?_⟩
      cases hne : normalizeLabel e.1 with
      | none => simp [hne] at hp
      | some g =>
        simp only [hne] at hp
        rw [(keyEq_normalize_iff hne hn).mp hp]
    · rename_i hf2
      simp only [Option.isSome_none, Bool.false_eq_true, false_iff]
      rw [List.find?_eq_none] at hf2
      rintro ⟨e, he, hne⟩
      apply hf2 e he
      simp only [hne]
      exact (keyEq_normalize_iff hne hn).mpr rfl

theorem hasLabel_norm (h : GoMap) (l : GoVal) (hl : normalizeLabel l ≠ none) :
    hasLabel h l = true ↔
      ∃ e ∈ h, ∃ n, normalizeLabel e.1 = some n ∧ normalizeLabel l = some n := by
  cases hn : normalizeLabel l with
  | none => exact absurd hn hl
  | some n =>
    rw [hasLabel_norm' h l n hn]
    constructor
    · rintro ⟨e, he, h1⟩; exact ⟨e, he, n, h1, rfl⟩
    · rintro ⟨e, he, n', h1, h2⟩
      cases h2; exact ⟨e, he, h1⟩

/-- without `normalizeLabel l ≠ none` the characterisation fails: the exact-key lookup finds a
    `bool` key although it has no normal form -/
theorem hasLabel_norm_counterexample :
    hasLabel [(.bool true, .nil)] (.bool true) = true ∧
    ¬ ∃ e ∈ ([(.bool true, .nil)] : GoMap), ∃ n,
        normalizeLabel e.1 = some n ∧ normalizeLabel (.bool true) = some n := by
  refine ⟨rfl, ?_⟩
  rintro ⟨e, _, n, _, h2⟩
  simp [normalizeLabel] at h2

/-- `hasLabel` depends only on the normalised labels of the bucket and of the label -/
theorem hasLabel_congr_norm (h h' : GoMap) (hn : normLabels h = normLabels h') (l l' : GoVal)
    (hl : normalizeLabel l = normalizeLabel l') (hs : normalizeLabel l ≠ none) :
    hasLabel h l = hasLabel h' l' := by
  cases hn' : normalizeLabel l with
  | none => exact absurd hn' hs
  | some n =>
    have hmem : ∀ m : GoMap, (∃ e ∈ m, normalizeLabel e.1 = some n) ↔ some n ∈ normLabels m := by
      intro m
      unfold normLabels
      rw [List.mem_map]
    have h1 := hasLabel_norm' h l n hn'
    have h2 := hasLabel_norm' h' l' n (by rw [← hl, hn'])
    rw [hmem] at h1 h2
    rw [← hn] at h2
    cases ha : hasLabel h l <;> cases hb : hasLabel h' l' <;> simp_all

/-- same entries in the same order, labels possibly spelt with another Go integer type -/
def respell (h h' : GoMap) : Prop :=
  Forall₂ (fun e e' => normalizeLabel e.1 = normalizeLabel e'.1 ∧ e.2 = e'.2) h h'

/-- the value of a `crit` parameter, its labels possibly re-spelt -/
def critRel (v v' : GoVal) : Prop :=
  ∃ ls ls', v = .arr ls ∧ v' = .arr ls' ∧
    Forall₂ (fun a b => normalizeLabel a = normalizeLabel b) ls ls'

/-- like `respell`, and additionally the labels listed in the value of `crit` may be re-spelt -/
def respellCrit (h h' : GoMap) : Prop :=
  Forall₂ (fun e e' => normalizeLabel e.1 = normalizeLabel e'.1 ∧
    (e.2 = e'.2 ∨ (normalizeLabel e.1 = some (.int .i64 2) ∧ critRel e.2 e'.2))) h h'

theorem respell.toCrit {h h' : GoMap} (hr : respell h h') : respellCrit h h' := by
  induction hr with
  | nil => exact .nil
  | cons hab _ ih => exact .cons ⟨hab.1, Or.inl hab.2⟩ ih

theorem respellCrit.normLabels_eq {h h' : GoMap} (hr : respellCrit h h') :
    normLabels h = normLabels h' :=
  Forall₂.map_eq hr (fun _ _ hab => hab.1)

/-- the entry test of `ensureCritical` (`canInt(label) || canTstr(label)`) accepts exactly the
    labels that normalise, PROVIDED a text label is valid UTF-8 (`canTstr`, headers.go:730, looks
    at the text; `normalizeLabel` passes any Go string: `case string: // no conversion`) and an
    integer label is within int64 (`canInt` takes every Go integer; `normalizeLabel` refuses a
    `uint` / `uint64` above `math.MaxInt64`) -/
theorem canLabel_eq_isSome (l : GoVal) (hl : ∀ b, l = .str b → utf8Valid b = true)
    (hi : ∀ k v, l = .int k v → v ≤ maxInt64) :
    (canInt l || canTstr l) = (normalizeLabel l).isSome := by
  cases l <;> try (simp_all [canInt, canTstr, normalizeLabel]; done)

/-- without the first hypothesis `canLabel_eq_isSome` fails: a text label that is not valid UTF-8
    normalises (to itself) and is refused as a `crit` entry -/
theorem canLabel_eq_isSome_counterexample :
    (canInt (.str [0xff]) || canTstr (.str [0xff])) = false ∧
    (normalizeLabel (.str [0xff])).isSome = true := by
  refine ⟨?_, rfl⟩
  simp [canInt, canTstr, utf8Valid]

/-- without the second it fails the other way round: a `uint64` above `math.MaxInt64` passes the
    type test of a `crit` entry and is not a label -/
theorem canLabel_eq_isSome_counterexample_wide :
    (canInt (.int .u64 9223372036854775808) || canTstr (.int .u64 9223372036854775808)) = true ∧
    (normalizeLabel (.int .u64 9223372036854775808)).isSome = false := by
  refine ⟨rfl, ?_⟩
  simp [normalizeLabel, IntKind.wide, maxInt64]

/-- the entry test does not depend on the Go integer type that spells a label: two text
    labels with the same normal form are the same string -/
theorem canLabel_congr_norm (a b : GoVal) (hab : normalizeLabel a = normalizeLabel b)
    (ha : normalizeLabel a ≠ none) :
    (canInt a || canTstr a) = (canInt b || canTstr b) := by
  cases a <;> (try (simp [normalizeLabel] at ha; done)) <;> cases b <;>
    (try rfl) <;> simp_all [canInt, canTstr, normalizeLabel]
  all_goals (split at hab <;> simp_all)

/-- a `crit` value and a re-spelt one get the same verdict, in buckets with the same normalised
    labels all of whose keys are labels (what header validation checks first; without it the
    exact-key lookup tells `crit [uint64(2^63)]` over a bucket with that very key from a
    re-spelling: see `ensureCritical_critRel_needs_keys`) -/
theorem ensureCritical_critRel (h h' : GoMap) (hn : normLabels h = normLabels h')
    (hk : ∀ x ∈ normLabels h, x ≠ none) (v v' : GoVal)
    (hv : critRel v v') : ensureCritical v h = ensureCritical v' h' := by
  have hk1 : ∀ e ∈ h, normalizeLabel e.1 ≠ none := (normLabels_all_some h).mp hk
  have hk2 : ∀ e ∈ h', normalizeLabel e.1 ≠ none := (normLabels_all_some h').mp (hn ▸ hk)
  obtain ⟨ls, ls', rfl, rfl, hf⟩ := hv
  unfold ensureCritical
  simp only
  have hall : ls.all (fun l => (canInt l || canTstr l) && hasLabel h l)
      = ls'.all (fun l => (canInt l || canTstr l) && hasLabel h' l) := by
    induction hf with
    | nil => rfl
    | @cons a b l l' hab _ ih =>
      rw [List.all_cons, List.all_cons, ih]
      congr 1
      cases hna : normalizeLabel a with
      | none =>
        rw [hasLabel_of_not_normalizes h hk1 a hna,
          hasLabel_of_not_normalizes h' hk2 b (by rw [← hab, hna])]
        simp
      | some n =>
        rw [canLabel_congr_norm a b hab (by rw [hna]; simp),
          hasLabel_congr_norm h h' hn a b hab (by rw [hna]; simp)]
  have hemp : ls.isEmpty = ls'.isEmpty := by
    cases hf <;> rfl
  rw [hall, hemp]

/-- general form: also the labels inside the `crit` value may change spelling -/
theorem spelling_invariance_crit (h h' : GoMap) (hr : respellCrit h h') (prot : Bool) :
    validateHeaderParameters h prot = validateHeaderParameters h' prot := by
  have hn := hr.normLabels_eq
  have hhas : ∀ l, normalizeLabel l ≠ none → hasLabel h l = hasLabel h' l :=
    fun l hl => hasLabel_congr_norm h h' hn l l rfl hl
  have hiff : validateHeaderParameters h prot = true ↔ validateHeaderParameters h' prot = true := by
    rw [validate_iff, validate_iff, labelsOK_iff_normLabels, labelsOK_iff_normLabels, ← hn]
    refine and_congr_right ?_
    intro hLab
    have hk1 : ∀ e ∈ h, normalizeLabel e.1 ≠ none := (normLabels_all_some h).mp hLab.1
    have hk2 : ∀ e ∈ h', normalizeLabel e.1 ≠ none := (normLabels_all_some h').mp (hn ▸ hLab.1)
    apply Forall₂.forall_iff hr
    intro e _ e' _ ⟨hlab, hval⟩
    rw [← hlab]
    rcases hval with hval | ⟨h2, hcr⟩
    · rw [← hval]
      constructor
      · rintro ⟨l, h1, hc⟩; exact ⟨l, h1, by rw [← checkParam_congr h h' hhas hk1 hk2]; exact hc⟩
      · rintro ⟨l, h1, hc⟩; exact ⟨l, h1, by rw [checkParam_congr h h' hhas hk1 hk2]; exact hc⟩
    · have hc2 : checkParam h prot (.int .i64 2) e.2 = checkParam h' prot (.int .i64 2) e'.2 := by
        simp only [checkParam]
        rw [ensureCritical_critRel h h' hn hLab.1 _ _ hcr]
      constructor
      · rintro ⟨l, h1, hc⟩
        rw [h2] at h1; cases h1
        exact ⟨_, h2, by rw [← hc2]; exact hc⟩
      · rintro ⟨l, h1, hc⟩
        rw [h2] at h1; cases h1
        exact ⟨_, h2, by rw [hc2]; exact hc⟩
  cases ha : validateHeaderParameters h prot <;> cases hb : validateHeaderParameters h' prot <;>
    simp_all

/-- 6 (stronger than asked: no hypothesis about `crit` is needed, because `ensureCritical`
    consults the bucket through `hasLabel`, which only looks at normalised labels) -/
theorem spelling_invariance_strong (h h' : GoMap) (hr : respell h h') (prot : Bool) :
    validateHeaderParameters h prot = validateHeaderParameters h' prot :=
  spelling_invariance_crit h h' hr.toCrit prot

/-- 6, as stated -/
theorem spelling_invariance (h h' : GoMap) (hr : respell h h') (prot : Bool)
    (_hcrit : ∀ e ∈ h, normalizeLabel e.1 ≠ some (.int .i64 2)) :
    validateHeaderParameters h prot = validateHeaderParameters h' prot :=
  spelling_invariance_strong h h' hr prot

/-! ### 6b : text the library type-checks is text the decoder takes (valid UTF-8) -/

/-- `canTstr` is: a Go string, valid UTF-8 (headers.go:730) -/
theorem canTstr_iff (v : GoVal) : canTstr v = true ↔ ∃ b, v = .str b ∧ utf8Valid b = true := by
  cases v <;> simp [canTstr]

/-- a text `alg` (1), content type (3) or `typ` (16) that passes the per-label check is valid
    UTF-8 -/
theorem checkParam_text_utf8 (h : GoMap) (prot : Bool) (k : IntKind) (n : Int) (b : Bytes)
    (hn : n = 1 ∨ n = 3 ∨ n = 16) (hc : checkParam h prot (.int k n) (.str b) = true) :
    utf8Valid b = true := by
  rcases hn with rfl | rfl | rfl <;>
    simp [checkParam, canInt, canTstr, tstrOrUintOK] at hc <;> simp [hc]

/-- every text entry of an accepted `crit` value is valid UTF-8 -/
theorem ensureCritical_text_utf8 (h : GoMap) (ls : List GoVal)
    (hc : ensureCritical (.arr ls) h = true) (b : Bytes) (hb : .str b ∈ ls) :
    utf8Valid b = true := by
  simp only [ensureCritical, Bool.and_eq_true, List.all_eq_true] at hc
  have := (hc.2 _ hb).1
  simpa [canInt, canTstr] using this

/-- MAIN (repair e13966b): in a bucket that passes `validateHeaderParameters`, a text `alg`,
    content type or `typ` and every text `crit` entry is valid UTF-8 — what the decoder demands
    of every text string -/
theorem validate_text_utf8 (h : GoMap) (prot : Bool)
    (hv : validateHeaderParameters h prot = true) :
    (∀ e ∈ h, ∀ n b, normalizeLabel e.1 = some (.int .i64 n) → (n = 1 ∨ n = 3 ∨ n = 16) →
        e.2 = .str b → utf8Valid b = true) ∧
    (∀ e ∈ h, ∀ ls b, normalizeLabel e.1 = some (.int .i64 2) → e.2 = .arr ls → .str b ∈ ls →
        utf8Valid b = true) := by
  obtain ⟨_, hall⟩ := (validate_iff h prot).mp hv
  constructor
  · intro e he n b hl hn hval
    obtain ⟨l, h1, h2⟩ := hall e he
    rw [hl] at h1; cases h1
    rw [hval] at h2
    exact checkParam_text_utf8 h prot _ n b hn h2
  · intro e he ls b hl hval hb
    obtain ⟨l, h1, h2⟩ := hall e he
    rw [hl] at h1; cases h1
    rw [hval] at h2
    simp only [checkParam, Bool.and_eq_true] at h2
    exact ensureCritical_text_utf8 h ls h2.2 b hb

/-! ### 6c : integer labels are within int64 (repair 0eeddbc) -/

/-- a Go integer (a value of its type: `v ≤ k.hi`) that `normalizeLabel` takes is at most
    `math.MaxInt64` -/
theorem le_maxInt64_of_normalizes {k : IntKind} {v : Int} (hhi : v ≤ k.hi)
    (hn : normalizeLabel (.int k v) ≠ none) : v ≤ maxInt64 := by
  cases hw : k.wide with
  | true =>
    rw [Ne, normalizeLabel_int_eq_none] at hn
    simp only [hw, true_and] at hn
    omega
  | false =>
    cases k <;> simp at hw <;> simp only [IntKind.hi, maxInt64] at * <;> omega

/-- MAIN: every integer key of a bucket that passes `validateHeaderParameters` (the key being a
    value of its Go type) lies within int64 and is its own label: nothing is wrapped any more, so
    the label checked for duplicates and for `crit` is the label the encoder writes, and one the
    decoder accepts -/
theorem validate_labels_int64 (h : GoMap) (prot : Bool)
    (hv : validateHeaderParameters h prot = true) (e : GoVal × GoVal) (he : e ∈ h)
    (k : IntKind) (v : Int) (hl : e.1 = .int k v) (hlo : k.lo ≤ v) (hhi : v ≤ k.hi) :
    (-9223372036854775808 ≤ v ∧ v ≤ 9223372036854775807) ∧
      normalizeLabel e.1 = some (.int .i64 v) := by
  have hn := (validate_labels h prot hv).1 e he
  rw [hl] at hn ⊢
  have hle := le_maxInt64_of_normalizes hhi hn
  have hge : (-9223372036854775808 : Int) ≤ v := by
    cases k <;> simp only [IntKind.lo] at hlo <;> omega
  simp only [maxInt64] at hle
  refine ⟨⟨hge, by omega⟩, ?_⟩
  rw [normalizeLabel_int_of_le k (by simp only [maxInt64]; omega)]
  have : wrap64 v = v := by
    unfold wrap64
    simp only
    split <;> omega
  rw [this]

/-- … and so does every integer entry of an accepted `crit` value (in a bucket whose keys are
    labels, which validation checks on the way) -/
theorem ensureCritical_int64 (h : GoMap) (hk : ∀ e ∈ h, normalizeLabel e.1 ≠ none)
    (ls : List GoVal) (hc : ensureCritical (.arr ls) h = true) (k : IntKind) (v : Int)
    (hm : .int k v ∈ ls) (hhi : v ≤ k.hi) : v ≤ maxInt64 := by
  simp only [ensureCritical, Bool.and_eq_true, List.all_eq_true] at hc
  have hh := (hc.2 _ hm).2
  apply le_maxInt64_of_normalizes hhi
  intro hn
  rw [hasLabel_of_not_normalizes h hk _ hn] at hh
  cases hh

/-- `SetType` takes a text `typ` only if it is valid UTF-8 -/
theorem setType_text_utf8 (h h' : GoMap) (b : Bytes) (hs : setType h (.str b) = .ok h') :
    utf8Valid b = true := by
  unfold setType at hs
  cases hu : utf8Valid b with
  | true => rfl
  | false => simp [canTstr, canUint, hu] at hs

/-- `SetCWTClaims` takes text `iss` / `sub` claims only if they are valid UTF-8 -/
theorem setCWTClaims_text_utf8 (h h' claims : GoMap) (n : Int) (hn : n = 1 ∨ n = 2) (v : GoVal)
    (hl : claims.lookup (.int .i n) = some v) (hs : setCWTClaims h claims = .ok h') :
    ∃ b, v = .str b ∧ utf8Valid b = true := by
  rw [← canTstr_iff]
  unfold setCWTClaims at hs
  rcases hn with rfl | rfl <;> simp [hl] at hs <;> cases hc : canTstr v <;> simp_all

/-- `ProtectedHeader.Critical` (since F35): a crit parameter present under ANY Go integer spelling
    of label 2 is never reported as absent -/
theorem critical_present_any_spelling (h : GoMap) (e : GoVal × GoVal) (he : e ∈ h)
    (hn : normalizeLabel e.1 = some (.int .i64 2)) : critical h ≠ .ok none := by
  have hl : normalizeLabel (lbl 2) = some (.int .i64 2) := by simp [lbl, normalizeLabel, wrap64, IntKind.wide, maxInt64]
  have hh : hasLabel h (lbl 2) = true := (hasLabel_norm' h (lbl 2) _ hl).mpr ⟨e, he, hn⟩
  unfold hasLabel at hh
  unfold critical
  cases hlk : lookupLabel h (lbl 2) with
  | none => rw [hlk] at hh; cases hh
  | some v =>
    simp only []
    split
    · split <;> simp
    · simp

/-- … and absent means absent under every spelling -/
theorem critical_absent_iff (h : GoMap) :
    critical h = .ok none ↔ ¬ ∃ e ∈ h, normalizeLabel e.1 = some (.int .i64 2) := by
  have hl : normalizeLabel (lbl 2) = some (.int .i64 2) := by simp [lbl, normalizeLabel, wrap64, IntKind.wide, maxInt64]
  constructor
  · intro hc ⟨e, he, hn⟩
    exact critical_present_any_spelling h e he hn hc
  · intro hno
    have hh : hasLabel h (lbl 2) = false := by
      cases hb : hasLabel h (lbl 2) with
      | false => rfl
      | true => exact absurd ((hasLabel_norm' h (lbl 2) _ hl).mp hb) hno
    unfold hasLabel at hh
    unfold critical
    cases hlk : lookupLabel h (lbl 2) with
    | none => rfl
    | some v => rw [hlk] at hh; cases hh

end C13

namespace C08

/-! ### 7 : encoding the entries one by one commutes with permutation -/

/-- one entry encoded: `(key bytes, value bytes)` -/
def encPair (cfg : EncCfg) (e : GoVal × GoVal) : Option (Bytes × Bytes) :=
  match encodeAny cfg e.1, encodeAny cfg e.2 with
  | some a, some b => some (a, b)
  | _, _ => none

theorem encodePairs_cons (cfg : EncCfg) (e : GoVal × GoVal) (r : GoMap) :
    encodePairs cfg (e :: r) =
      match encPair cfg e, encodePairs cfg r with
      | some a, some c => some (a :: c)
      | _, _ => none := by
  obtain ⟨k, v⟩ := e
  rw [encodePairs]
  unfold encPair
  cases encodeAny cfg k <;> cases encodeAny cfg v <;> cases encodePairs cfg r <;> rfl

/-- `encodePairs` succeeds iff every entry encodes, and then returns the entry encodings in order -/
theorem encodePairs_eq_some_iff (cfg : EncCfg) (l : GoMap) (ps : List (Bytes × Bytes)) :
    encodePairs cfg l = some ps ↔ l.map (encPair cfg) = ps.map some := by
  induction l generalizing ps with
  | nil =>
    rw [encodePairs]
    cases ps <;> simp
  | cons e r ih =>
    rw [encodePairs_cons]
    cases he : encPair cfg e with
    | none =>
      cases ps <;> simp [he]
    | some a =>
      cases hr : encodePairs cfg r with
      | none =>
        cases ps with
        | nil => simp
        | cons p ps' =>
          simp only [List.map_cons, List.cons.injEq, he, Option.some.injEq, reduceCtorEq, false_iff,
            not_and]
          intro _ hc
          have := (ih ps').mpr hc
          rw [hr] at this; cases this
      | some c =>
        have hc := (ih c).mp hr
        cases ps with
        | nil => simp
        | cons p ps' =>
          simp only [Option.some.injEq, List.cons.injEq, List.map_cons, he]
          constructor
          · rintro ⟨rfl, rfl⟩; exact ⟨rfl, hc⟩
          · rintro ⟨rfl, h2⟩
            refine ⟨rfl, ?_⟩
            have := (ih ps').mpr h2
            rw [hr] at this
            exact Option.some.inj this

theorem encodePairs_eq_none_iff (cfg : EncCfg) (l : GoMap) :
    encodePairs cfg l = none ↔ ∃ e ∈ l, encPair cfg e = none := by
  induction l with
  | nil => rw [encodePairs]; simp
  | cons e r ih =>
    rw [encodePairs_cons]
    cases he : encPair cfg e with
    | none => simp [he]
    | some a =>
      cases hr : encodePairs cfg r with
      | none =>
        have := ih.mp hr
        obtain ⟨x, hx, hxe⟩ := this
        simp only [true_iff]
        exact ⟨x, List.mem_cons_of_mem _ hx, hxe⟩
      | some c =>
        simp only [reduceCtorEq, false_iff, List.mem_cons, not_exists, not_and]
        rintro x (rfl | hx) hxe
        · rw [he] at hxe; cases hxe
        · have := ih.mpr ⟨x, hx, hxe⟩
          rw [hr] at this; cases this

end C08

namespace HeadersDeep

theorem some_map_injective {α : Type} : ∀ {l l' : List α}, l.map some = l'.map some → l = l'
  | [], [], _ => rfl
  | [], _ :: _, h => by simp at h
  | _ :: _, [], h => by simp at h
  | a :: l, b :: l', h => by
    simp only [List.map_cons, List.cons.injEq, Option.some.injEq] at h
    rw [h.1, some_map_injective h.2]

/-- a permutation of a list of `some`s is a list of `some`s of a permutation -/
theorem perm_map_some {α : Type} {l : List α} {m : List (Option α)} (hp : (l.map some).Perm m) :
    ∃ l', m = l'.map some ∧ l.Perm l' := by
  have hall : ∀ x ∈ m, ∃ a, x = some a := by
    intro x hx
    obtain ⟨a, _, rfl⟩ := List.mem_map.mp (hp.mem_iff.mpr hx)
    exact ⟨a, rfl⟩
  have hm : m = (m.filterMap id).map some := by
    clear hp
    induction m with
    | nil => rfl
    | cons x xs ih =>
      obtain ⟨a, rfl⟩ := hall _ (List.mem_cons_self ..)
      simp only [List.filterMap_cons, id, List.map_cons, List.cons.injEq, true_and]
      exact ih (fun y hy => hall y (List.mem_cons_of_mem _ hy))
  refine ⟨m.filterMap id, hm, ?_⟩
  have := hp.filterMap id
  simpa [List.filterMap_map] using this

end HeadersDeep

namespace C08
open HeadersDeep

/-- 7. -/
theorem encodePairs_perm (cfg : EncCfg) (l l' : GoMap) (hp : l.Perm l') :
    (∃ ps ps', encodePairs cfg l = some ps ∧ encodePairs cfg l' = some ps' ∧ ps.Perm ps') ∨
    (encodePairs cfg l = none ∧ encodePairs cfg l' = none) := by
  cases h : encodePairs cfg l with
  | none =>
    right
    refine ⟨rfl, ?_⟩
    obtain ⟨e, he, hn⟩ := (encodePairs_eq_none_iff cfg l).mp h
    exact (encodePairs_eq_none_iff cfg l').mpr ⟨e, hp.mem_iff.mp he, hn⟩
  | some ps =>
    left
    have h1 := (encodePairs_eq_some_iff cfg l ps).mp h
    have h2 : (ps.map some).Perm (l'.map (encPair cfg)) := h1 ▸ hp.map (encPair cfg)
    obtain ⟨ps', hps', hperm⟩ := perm_map_some h2
    exact ⟨ps, ps', rfl, (encodePairs_eq_some_iff cfg l' ps').mpr hps', hperm⟩

/-! ### 8 : MAIN — the bytes of an encoded map do not depend on the iteration order -/

theorem encodeAny_map (cfg : EncCfg) (l : GoMap) :
    encodeAny cfg (.map l) =
      match encodePairs cfg l with
      | some ps => some (encHead 5 l.length ++ concatPairs (sortPairs ps))
      | none => none := by
  rw [encodeAny]
  cases encodePairs cfg l <;> rfl

theorem encode_map_perm_invariant (cfg : EncCfg) (l l' : GoMap) (hp : l.Perm l')
    (hd : ∀ ps, encodePairs cfg l = some ps → (ps.map Prod.fst).Nodup) :
    encodeAny cfg (.map l) = encodeAny cfg (.map l') := by
  rw [encodeAny_map, encodeAny_map]
  rcases encodePairs_perm cfg l l' hp with ⟨ps, ps', h1, h2, hperm⟩ | ⟨h1, h2⟩
  · rw [h1, h2]
    simp only
    rw [concat_sortPairs_perm_invariant ps ps' hperm (hd ps h1), hp.length_eq]
  · rw [h1, h2]

/-! ### 9 : header buckets -/

theorem encodeBucket_perm_invariant (l l' : GoMap) (prot : Bool) (raw : Option Bytes)
    (hp : l.Perm l')
    (hd : ∀ ps, encodePairs encCfg l = some ps → (ps.map Prod.fst).Nodup) :
    encodeBucket encCfg prot raw l = encodeBucket encCfg prot raw l' := by
  have key : ∀ (raw : Option Bytes), (∀ b bs, raw ≠ some (b :: bs)) →
      encodeBucket encCfg prot raw l = encodeBucket encCfg prot raw l' := by
    intro raw hraw
    cases l with
    | nil =>
      have : l' = [] := hp.symm.eq_nil
      subst this; rfl
    | cons e es =>
      cases l' with
      | nil => exact absurd hp.eq_nil (by simp)
      | cons e' es' =>
        have hv : encCfg.validate (e :: es) prot = encCfg.validate (e' :: es') prot :=
          C13.validate_perm_invariant _ _ hp prot
        have hlen : (e :: es).length = (e' :: es').length := hp.length_eq
        have hbody : (if !encCfg.validate (e :: es) prot then none else
              match encodePairs encCfg (e :: es) with
              | some ps =>
                  if prot then some (encBstr (encHead 5 (e :: es).length ++ concatPairs (sortPairs ps)))
                  else if wellformedNoTags (encHead 5 (e :: es).length ++ concatPairs (sortPairs ps))
                    then some (encHead 5 (e :: es).length ++ concatPairs (sortPairs ps)) else none
              | none => none) =
            (if !encCfg.validate (e' :: es') prot then none else
              match encodePairs encCfg (e' :: es') with
              | some ps =>
                  if prot then some (encBstr (encHead 5 (e' :: es').length ++ concatPairs (sortPairs ps)))
                  else if wellformedNoTags (encHead 5 (e' :: es').length ++ concatPairs (sortPairs ps))
                    then some (encHead 5 (e' :: es').length ++ concatPairs (sortPairs ps)) else none
              | none => none) := by
          rw [hv, hlen]
          rcases encodePairs_perm encCfg _ _ hp with ⟨ps, ps', h1, h2, hperm⟩ | ⟨h1, h2⟩
          · rw [h1, h2]
            simp only
            rw [concat_sortPairs_perm_invariant ps ps' hperm (hd ps h1)]
          · rw [h1, h2]
        cases raw with
        | none =>
          rw [encodeBucket, encodeBucket]
          all_goals first | exact hbody | (intro b bs h; cases h)
        | some r =>
          cases r with
          | nil =>
            rw [encodeBucket, encodeBucket]
            all_goals first | exact hbody | (intro b bs h; cases h)
          | cons b bs => exact absurd rfl (hraw b bs)
  cases raw with
  | none => exact key none (by intro b bs h; cases h)
  | some r =>
    cases r with
    | nil => exact key (some []) (by intro b bs h; cases h)
    | cons b bs => rw [encodeBucket, encodeBucket]

/-! ### 10 : validated buckets have pairwise distinct encoded keys -/

end C08

namespace HeadersDeep

theorem ofNat_eq_iff (a b : Nat) : UInt8.ofNat a = UInt8.ofNat b ↔ a % 256 = b % 256 := by
  constructor
  · intro h
    have := congrArg UInt8.toNat h
    simpa [UInt8.toNat_ofNat'] using this
  · intro h
    apply UInt8.toNat_inj.mp
    simp [UInt8.toNat_ofNat', h]

theorem shortest_cases (n : Nat) :
    (n < 24 ∧ HW.shortest n = .imm) ∨ (24 ≤ n ∧ n < 256 ∧ HW.shortest n = .w1) ∨
    (256 ≤ n ∧ n < 65536 ∧ HW.shortest n = .w2) ∨
    (65536 ≤ n ∧ n < 4294967296 ∧ HW.shortest n = .w4) ∨
    (4294967296 ≤ n ∧ HW.shortest n = .w8) := by
  unfold HW.shortest
  by_cases h1 : n < 24
  · simp [h1]
  · by_cases h2 : n < 256
    · simp [h1, h2]; omega
    · by_cases h3 : n < 65536
      · simp [h1, h2, h3]; omega
      · by_cases h4 : n < 4294967296
        · simp [h1, h2, h3, h4]; omega
        · simp [h1, h2, h3, h4]; omega

/-- a shortest-form head determines its major type and its argument (modulo 2^64: the model's
    `headBytes` truncates larger arguments, which never occur for Go integers) -/
theorem encHead_inj {m m' n n' : Nat} (hm : m < 8) (hm' : m' < 8)
    (h : encHead m n = encHead m' n') :
    m = m' ∧ n % 18446744073709551616 = n' % 18446744073709551616 := by
  unfold encHead at h
  rcases shortest_cases n with ⟨a1, e1⟩ | ⟨a1, a2, e1⟩ | ⟨a1, a2, e1⟩ | ⟨a1, a2, e1⟩ | ⟨a1, e1⟩ <;>
  rcases shortest_cases n' with ⟨b1, e2⟩ | ⟨b1, b2, e2⟩ | ⟨b1, b2, e2⟩ | ⟨b1, b2, e2⟩ | ⟨b1, e2⟩ <;>
  rw [e1, e2] at h <;>
  simp only [headBytes, List.cons.injEq, ofNat_eq_iff, and_true, reduceCtorEq, and_false] at h <;>
  omega

def hwLen : HW → Nat
  | .imm => 1 | .w1 => 2 | .w2 => 3 | .w4 => 5 | .w8 => 9

theorem headBytes_length (m : Nat) (w : HW) (n : Nat) : (headBytes m w n).length = hwLen w := by
  cases w <;> rfl

theorem hwLen_shortest_mono {n n' : Nat} (h : n ≤ n') :
    hwLen (HW.shortest n) ≤ hwLen (HW.shortest n') := by
  rcases shortest_cases n with ⟨a1, e1⟩ | ⟨a1, a2, e1⟩ | ⟨a1, a2, e1⟩ | ⟨a1, a2, e1⟩ | ⟨a1, e1⟩ <;>
  rcases shortest_cases n' with ⟨b1, e2⟩ | ⟨b1, b2, e2⟩ | ⟨b1, b2, e2⟩ | ⟨b1, b2, e2⟩ | ⟨b1, e2⟩ <;>
  rw [e1, e2] <;> simp only [hwLen] <;> omega

/-- text strings encode injectively (the head determines the length) -/
theorem encTstr_inj {b b' : Bytes} (h : encTstr b = encTstr b') : b = b' := by
  unfold encTstr encHead at h
  have hl := congrArg List.length h
  simp only [List.length_append, headBytes_length] at hl
  have hlen : b.length = b'.length := by
    rcases Nat.lt_trichotomy b.length b'.length with hlt | heq | hgt
    · have := hwLen_shortest_mono (Nat.le_of_lt hlt); omega
    · exact heq
    · have := hwLen_shortest_mono (Nat.le_of_lt hgt); omega
  rw [hlen] at h
  exact List.append_cancel_left h

theorem encHead_first (m n : Nat) :
    ∃ x t, x ≤ 27 ∧ encHead m n = UInt8.ofNat (m * 32 + x) :: t := by
  unfold encHead
  rcases shortest_cases n with ⟨a1, e1⟩ | ⟨a1, a2, e1⟩ | ⟨a1, a2, e1⟩ | ⟨a1, a2, e1⟩ | ⟨a1, e1⟩ <;>
  rw [e1] <;> simp only [headBytes]
  · exact ⟨n, [], by omega, rfl⟩
  · exact ⟨24, _, by omega, rfl⟩
  · exact ⟨25, _, by omega, rfl⟩
  · exact ⟨26, _, by omega, rfl⟩
  · exact ⟨27, _, by omega, rfl⟩

theorem encInt_eq_head (v : Int) : ∃ m n, m ≤ 1 ∧ encInt v = encHead m n := by
  unfold encInt
  split
  · exact ⟨0, _, by omega, rfl⟩
  · exact ⟨1, _, by omega, rfl⟩

/-- an integer key and a text key never encode alike (major types differ) -/
theorem encInt_ne_encTstr (v : Int) (b : Bytes) : encInt v ≠ encTstr b := by
  intro h
  obtain ⟨m, n, hm, he⟩ := encInt_eq_head v
  obtain ⟨x, t, hx, h1⟩ := encHead_first m n
  obtain ⟨x', t', hx', h2⟩ := encHead_first 3 b.length
  rw [he, h1, encTstr, h2, List.cons_append, List.cons.injEq, ofNat_eq_iff] at h
  omega

/-- integers that encode alike have the same `int64` normal form -/
theorem wrap64_eq_of_encInt_eq {v v' : Int} (h : encInt v = encInt v') : wrap64 v = wrap64 v' := by
  have hmod : v % 18446744073709551616 = v' % 18446744073709551616 := by
    unfold encInt at h
    split at h <;> split at h
    · have := (encHead_inj (by omega) (by omega) h).2; omega
    · have := (encHead_inj (by omega) (by omega) h).1; omega
    · have := (encHead_inj (by omega) (by omega) h).1; omega
    · have := (encHead_inj (by omega) (by omega) h).2; omega
  unfold wrap64
  rw [hmod]

/-- labels that encode alike normalise alike -/
theorem label_enc_inj (cfg : EncCfg) {x y a b : GoVal} (hx : normalizeLabel x = some a)
    (hy : normalizeLabel y = some b) (he : encodeAny cfg x = encodeAny cfg y) : a = b := by
  cases x <;> (try (simp [normalizeLabel] at hx; done)) <;>
  cases y <;> (try (simp [normalizeLabel] at hy; done)) <;>
  simp only [encodeAny, Option.some.injEq] at he
  · rw [normalizeLabel_int_eq_some hx, normalizeLabel_int_eq_some hy, wrap64_eq_of_encInt_eq he]
  · exact absurd he (encInt_ne_encTstr _ _)
  · exact absurd he.symm (encInt_ne_encTstr _ _)
  · simp only [normalizeLabel, Option.some.injEq] at hx hy
    rw [← hx, ← hy, encTstr_inj he]

end HeadersDeep

namespace C08
open HeadersDeep

theorem encPair_fst {cfg : EncCfg} {e : GoVal × GoVal} {p : Bytes × Bytes}
    (h : encPair cfg e = some p) : encodeAny cfg e.1 = some p.1 := by
  unfold encPair at h
  cases h1 : encodeAny cfg e.1 <;> cases h2 : encodeAny cfg e.2 <;> simp [h1, h2] at h
  rw [← h]

/-- distinct labels (after normalisation) give distinct encoded keys -/
theorem keys_nodup_of_labelsOK (cfg : EncCfg) (h : GoMap) (hok : LabelsOK h) :
    ∀ ps, encodePairs cfg h = some ps →
      (ps.map Prod.fst).Nodup ∧ ∀ kb ∈ ps.map Prod.fst, ∃ e ∈ h, encodeAny cfg e.1 = some kb := by
  induction h with
  | nil =>
    intro ps he
    rw [encodePairs] at he
    cases he
    simp
  | cons e r ih =>
    intro ps he
    have hx : normalizeLabel e.1 ≠ none := hok.1 e (List.mem_cons_self ..)
    have hok' : LabelsOK r :=
      ⟨fun x hx => hok.1 x (List.mem_cons_of_mem _ hx), (List.pairwise_cons.mp hok.2).2⟩
    have hd := (List.pairwise_cons.mp hok.2).1
    rw [encodePairs_cons] at he
    cases hp : encPair cfg e with
    | none => simp [hp] at he
    | some p =>
      cases hr : encodePairs cfg r with
      | none => simp [hp, hr] at he
      | some c =>
        simp only [hp, hr, Option.some.injEq] at he
        subst he
        obtain ⟨hnd, hmem⟩ := ih hok' c hr
        have hk := encPair_fst hp
        refine ⟨?_, ?_⟩
        · rw [List.map_cons, List.nodup_cons]
          refine ⟨?_, hnd⟩
          intro hin
          obtain ⟨e', he', hk'⟩ := hmem _ hin
          have hx' : normalizeLabel e'.1 ≠ none := hok'.1 e' he'
          cases hna : normalizeLabel e.1 with
          | none => exact hx hna
          | some a =>
            cases hnb : normalizeLabel e'.1 with
            | none => exact hx' hnb
            | some b =>
              have hab := label_enc_inj cfg hna hnb (by rw [hk, hk'])
              subst hab
              have := hd e' he' a a hna hnb
              rw [(keyEq_normalize_iff hna hnb).mpr rfl] at this
              cases this
        · intro kb hkb
          rw [List.map_cons, List.mem_cons] at hkb
          rcases hkb with rfl | hkb
          · exact ⟨e, List.mem_cons_self .., hk⟩
          · obtain ⟨e', he', hk'⟩ := hmem kb hkb
            exact ⟨e', List.mem_cons_of_mem _ he', hk'⟩

/-- 10. the hypothesis `hd` of `encodeBucket_perm_invariant` holds for every validated bucket;
    no range hypothesis on integer labels is needed -/
theorem bucket_keys_nodup (h : GoMap) (prot : Bool) (hv : validateHeaderParameters h prot = true)
    (ps : List (Bytes × Bytes)) (he : encodePairs encCfg h = some ps) : (ps.map Prod.fst).Nodup :=
  (keys_nodup_of_labelsOK encCfg h (C13.validate_labels h prot hv) ps he).1

/-- 9 without side condition: the bytes of a header bucket never depend on the iteration order
    (a bucket that fails validation is not encoded at all) -/
theorem encodeBucket_perm_invariant' (l l' : GoMap) (prot : Bool) (raw : Option Bytes)
    (hp : l.Perm l') : encodeBucket encCfg prot raw l = encodeBucket encCfg prot raw l' := by
  by_cases hv : validateHeaderParameters l prot = true
  · exact encodeBucket_perm_invariant l l' prot raw hp (bucket_keys_nodup l prot hv)
  · have hv' : validateHeaderParameters l' prot ≠ true := by
      rw [← C13.validate_perm_invariant l l' hp prot]; exact hv
    match raw, l, l', hp, hv, hv' with
    | some (b :: bs), _, _, _, _, _ => rw [encodeBucket, encodeBucket]
    | none, [], l', hp, _, _ => rw [hp.symm.eq_nil]
    | some [], [], l', hp, _, _ => rw [hp.symm.eq_nil]
    | none, e :: es, [], hp, _, _ => exact absurd hp.eq_nil (by simp)
    | some [], e :: es, [], hp, _, _ => exact absurd hp.eq_nil (by simp)
    | none, e :: es, e' :: es', _, hv, hv' =>
      rw [encodeBucket, encodeBucket]
      all_goals first | (simp [encCfg, hv, hv']) | (intro b bs h; cases h)
    | some [], e :: es, e' :: es', _, hv, hv' =>
      rw [encodeBucket, encodeBucket]
      all_goals first | (simp [encCfg, hv, hv']) | (intro b bs h; cases h)

end C08
