/-
  Deep/SignWireClosure — the END-TO-END wire round trip of `Deep/WireClosure` (COSE_Sign1),
  extended to the two other message kinds: COSE_Sign (multi-signer) and countersignatures.
  Scope as there: header MAPS (no caller-supplied raw header bytes) whose labels and values are
  scalar ("flat", `RoundTrip.FlatMap`).  No hypothesis about decoding, the algorithm gate or the
  shape of the emitted unprotected bytes: all of that is DERIVED.

  Proved, in plain words:
  A.  `C01.signmsg_wire_flat` — COSE_Sign with ANY number n ≥ 1 of signer slots: if
      `SignMessage.Sign` succeeded with signers `ss` and `MarshalCBOR` returned bytes `b`, then
      `UnmarshalCBOR b` succeeds, `Verify` on the decoded message with the positionally matching
      verifiers `vs` and the same external data returns nil, and the decoded message carries the
      signed payload, as many signer entries, and entry by entry the signers' signatures.
  A'. `C01.signmsg_wire_detached_flat` — the same when the payload is detached before encoding
      and put back after decoding (no bound on the payload).
  B.  `C01.countersignature_wire_flat` — a countersignature on ANY parent kind (`Parent`: Sign1,
      Sign, Signature, Countersignature; for `unsupported` signing fails, so the premise is
      false): if `Countersignature.Sign` succeeded and `MarshalCBOR` returned `b`, then
      `UnmarshalCBOR b` succeeds and `Verify` of the decoded countersignature on the same parent,
      with the matching verifier and the same external data, returns nil; the signature is the
      signer's.
  C.  non-vacuity: `example`s instantiate A (TWO signer slots, body and slots with protected
      `{1: ES256}` and a kid in the unprotected map) and B (on a signed COSE_Sign1) with
      `exS7`/`exV7`, every hypothesis discharged by computation.
  D.  counterexamples for the hypotheses added to the requested statements:
      `C01.signmsg_wire_flat_needs_hn` (131073 signer slots: signed, encoded, REFUSED by the
      decoder) and `C01.countersignature_wire_flat_needs_halg` (alg 2^64).

  How: one header layer (`layer_items`) = `WireClosure.prot_item` + `unprot_item` +
  `ensureIV_decoded`.  A signer entry / countersignature is the 3-array
  `[bstr P, mapWire u, bstr sig]` (`sigv_decodes_flat`): well formed, within the parser's limits
  at any depth ≤ 30, accepted by `Signature.unmarshal` (`C07.wf_signature_accepted_full`) and by
  the per-signer decoder of COSE_Sign (`C05.SigElem`); the decoded entry re-emits the protected
  bytes verbatim, so `ToBeSigned` — which looks at an entry only through `marshalProtected`
  (`sigTbs_congr`, `csTbs_congr`) — is the one that was signed, and `Algorithm()` on the decoded
  protected map is `algSpec` of the encoded one, so the gate passes (`gate_decoded`).  For
  COSE_Sign the slots are glued by induction (`marshalSigs_decodes`), the four body items form the
  tree `signTree`, `parseTop_complete` + `C09.sign_unmarshal_of` give `UnmarshalCBOR = ok`
  (`signmsg_decodes_flat`), and `C11.signmsg_verify_iff` / `C03.verifySig_iff` reduce `Verify` to
  the per-slot facts.  That the BODY protected bytes pass `deterministicBinaryString` is read off
  the first slot's successful signing (`body_det_of_loop`).

  Hypotheses that REMAIN, and why (all as in `C01.sign1_wire_flat` unless marked NEW):
  * `Matches ss[i] vs[i]` / `Matches s v`, `ss.length = vs.length` — crypto is a parameter.
    (`ss.length = m.sigs.length` is NOT assumed: it follows from `hok`.)
  * `rawP = none`, `rawU = none`, `FlatMap`, `UintOK`, `length ≤ maxElems` for the body of a
    COSE_Sign; the same with `p.length < maxElems` (strict: `Sign` may add `alg`) for every signer
    slot (`FlatSlot`) and for the countersignature.  The body bound is NOT strict:
    `SignMessage.Sign` never touches the body headers.
  * `GoSigner s` = `int64Range s.alg` (Go's `Algorithm` is an `int64`, the model's `Int` is not —
    needed: `countersignature_wire_flat_needs_halg`, same artefact as
    `sign1_wire_flat_needs_halg`) and signatures shorter than 2^64 bytes (a CBOR head cannot say
    more; true of every Go slice).
  * `blen m.payload < 2^64` (attached payload only).
  * NEW `hn : m.sigs.length ≤ maxElems` — REAL library behaviour, not a model artefact: the
    encoder emits any number of signatures, the decoder refuses arrays with more than 131072
    elements (`MaxArrayElements`).  `signmsg_wire_flat_needs_hn`: a COSE_Sign with 131073 slots
    satisfies every other hypothesis, `Sign` and `MarshalCBOR` succeed, `UnmarshalCBOR` refuses
    the bytes.  (An asymmetry between encoder and decoder, harmless in practice.)
  * `hok`, `henc` — the premises "the library signed and encoded it".
  NOT needed: `m.payload ≠ none`, `m.sigs ≠ []` (follow from `hok`); any hypothesis on the parent
  of a countersignature (whatever `countersignToBeSigned` computed at signing time it computes
  again at verification time: the parent is the same value and the countersignature enters only
  through its protected bytes, which the decoded value re-emits verbatim).
  Core Lean only; axioms: propext, Quot.sound, Classical.choice.
-/
import CoseModel.Messages
import CoseProofs.Deep.Chain
import CoseProofs.Deep.RoundTrip
import CoseProofs.Deep.Accept
import CoseProofs.Deep.Verifies
import CoseProofs.Deep.SignMsg
import CoseProofs.Deep.WireClosure
open CoseModel CoseSpec RoundTrip

namespace SignWireClosure
open WireClosure

/-! ### one header layer as two wire items -/

/-- one header layer (body of a COSE_Sign, one signer entry, a countersignature) built from flat
    maps with no retained raw bytes: the two byte strings the encoder emits are ONE well-formed
    byte-string item and the map item `mapWire u`; the bucket decoders accept them, the IV
    cross-check passes on the decoded maps, and `Algorithm()` of the decoded protected map is
    `algSpec p` -/
theorem layer_items {p u : GoMap} (hfp : FlatMap p) (hfu : FlatMap u)
    (hup : ∀ e ∈ p, UintOK e.2) (huu : ∀ e ∈ u, UintOK e.2)
    (hlp : p.length ≤ maxElems) (hlu : u.length ≤ maxElems) {P P' U : Bytes}
    (hP : marshalProtected { p := p, u := u } = .ok P) (hd : detBstr P = .ok P')
    (hU : marshalUnprotected { p := p, u := u } = .ok U) (hiv : ensureIV p u = true) :
    ∃ (hw : HW) (content : Bytes), P = (Wire.bstr hw content).bytes ∧ U = (mapWire u).bytes ∧
      (Wire.bstr hw content).wf = true ∧ (mapWire u).wf = true ∧
      decProtected (.bstr hw content) = .ok ((sortEntries p).map decEntry) ∧
      decUnprot (mapWire u) = .ok ((sortEntries u).map normEntry) ∧
      ensureIV ((sortEntries p).map decEntry) ((sortEntries u).map normEntry) = true ∧
      algorithmOf ((sortEntries p).map decEntry) = algSpec p := by
  obtain ⟨-, heP⟩ := marshalProtected_ok_inv hP
  obtain ⟨-, heU⟩ := marshalUnprotected_ok_inv hU
  obtain ⟨hw, content, hPb, hpwf, hdp, halg⟩ := prot_item hfp hup hlp heP hd
  obtain ⟨hUb, huwf, -, hdu⟩ := unprot_item hfu huu hlu heU
  exact ⟨hw, content, hPb, hUb, hpwf, huwf, hdp, hdu, ensureIV_decoded hfp hfu hiv, halg⟩

theorem hdrs_marshal_iv {h : Hdrs} {x : Bytes × Bytes} (he : h.marshal = .ok x) :
    ensureIV h.p h.u = true := by
  unfold Hdrs.marshal at he
  split at he
  · cases he
  · rename_i hiv
    simpa using hiv

/-- what a successful `Signature.marshal` emitted -/
theorem signature_marshal_ok_inv {s : SigV} {b : Bytes} (he : Signature.marshal s = .ok b) :
    ∃ P U, blen s.sig ≠ 0 ∧ ensureIV s.h.p s.h.u = true ∧ marshalProtected s.h = .ok P ∧
      marshalUnprotected s.h = .ok U ∧ b = 0x83 :: (P ++ (U ++ encBstr (s.sig.getD []))) := by
  unfold Signature.marshal at he
  split at he
  · cases he
  · rename_i hz
    cases hh : s.h.marshal with
    | ok x =>
      obtain ⟨P, U⟩ := x
      obtain ⟨h1, h2⟩ := C01.hdrs_marshal_ok_inv hh
      simp only [hh, bind, Out.bind] at he
      exact ⟨P, U, hz, hdrs_marshal_iv hh, h1, h2, (Out.ok.inj he).symm⟩
    | err e => simp [hh, bind, Out.bind] at he
    | panic => simp [hh, bind, Out.bind] at he
    | unmodelled => simp [hh, bind, Out.bind] at he

/-- the gate on the DECODED protected map: `Algorithm()` there is `algSpec` of the map that was
    encoded, which is the map the signing gate produced -/
theorem gate_decoded {p p' pd : GoMap} {alg valg : Int} {ext : Option Bytes}
    (hg : ensureSigningAlgorithm none p alg ext = .ok p') (hd : algorithmOf pd = algSpec p')
    (hv : valg = alg) : ensureVerificationAlgorithm pd valg ext = .ok () := by
  have hgv := C01.gate_after_sign _ _ _ _ _ hg (C01.algorithmOf_set _ _)
  have hne : algorithmOf p' ≠ .failed .invalidAlg := by
    intro hc
    simp [ensureVerificationAlgorithm, hc] at hgv
  unfold ensureVerificationAlgorithm at hgv ⊢
  rw [hd, algSpec_eq_algorithmOf p' hne, hv]
  exact hgv

/-! ### a COSE_Signature-shaped 3-array across the wire -/

/-- what the decoder makes of an emitted entry, relative to the entry `st` that was encoded:
    same signature, same protected bytes (so the same `ToBeSigned`), `Algorithm()` as encoded -/
def Same (st s2 : SigV) : Prop :=
  s2.sig = st.sig ∧ marshalProtected s2.h = marshalProtected st.h ∧
    algorithmOf s2.h.p = algSpec st.h.p

/-- CORE: an entry with flat header maps, no retained raw bytes and signature `sig`, whose
    protected bytes the signing step accepted (`detBstr`), is emitted as the bytes of ONE
    well-formed COSE_Signature tree `x`, within the parser's limits at any depth ≤ 30, which both
    `Signature.unmarshal` (top level) and the per-signer decoder of COSE_Sign (`SigElem`) accept -/
theorem sigv_decodes_flat (p u : GoMap) (sig b P P' : Bytes)
    (hfp : FlatMap p) (hfu : FlatMap u) (hup : ∀ e ∈ p, UintOK e.2) (huu : ∀ e ∈ u, UintOK e.2)
    (hlp : p.length ≤ maxElems) (hlu : u.length ≤ maxElems)
    (hsl : sig.length < 18446744073709551616) (hsne : sig ≠ [])
    (hP : marshalProtected { p := p, u := u } = .ok P) (hd : detBstr P = .ok P')
    (henc : Signature.marshal { h := { p := p, u := u }, sig := some sig } = .ok b) :
    ∃ (x : Wire) (s2 : SigV), b = x.bytes ∧ x.wf = true ∧
      (∀ d, d + 2 ≤ maxNested → x.inLimits false d = true) ∧ C05.SigElem x s2 ∧
      Signature.unmarshal b = .ok s2 ∧
      Same { h := { p := p, u := u }, sig := some sig } s2 := by
  obtain ⟨P0, U, hz, hiv, hP0, hU, hb⟩ := signature_marshal_ok_inv henc
  have hP0' : marshalProtected { p := p, u := u } = .ok P0 := hP0
  rw [hP] at hP0'
  cases hP0'
  obtain ⟨hw, content, hPb, hUb, hpwf, huwf, hdp, hdu, hiv', halg⟩ :=
    layer_items hfp hfu hup huu hlp hlu hP hd hU hiv
  have hsgfit : (HW.shortest sig.length).fits sig.length = true := C02.shortest_fits hsl
  have hwf : (Wire.arr .imm [.bstr hw content, mapWire u,
      .bstr (HW.shortest sig.length) sig]).wf = true := by
    have h3 : HW.fits .imm 3 = true := by decide
    simp only [Wire.wf] at hpwf
    simp [Wire.wf, Wire.wfList, h3, hpwf, huwf, hsgfit]
  have hlim : ∀ d, d + 2 ≤ maxNested → (Wire.arr .imm [.bstr hw content, mapWire u,
      .bstr (HW.shortest sig.length) sig]).inLimits false d = true := by
    intro d hdd
    have hu1 := mapWire_inLimits hlu false (d + 1) (by omega)
    have hd1 : d + 1 ≤ maxNested := by omega
    simp [Wire.inLimits, Wire.inLimitsList, hd1, maxElems, hu1]
  have hbytes : b = (Wire.arr .imm [.bstr hw content, mapWire u,
      .bstr (HW.shortest sig.length) sig]).bytes := by
    rw [hb, hPb, hUb, Accept.arr3_bytes]
    rfl
  have hacc := C07.wf_signature_accepted_full hwf (hlim 0 (by unfold maxNested; omega)) hdp hdu
    hiv' hsne
  rw [← hbytes] at hacc
  have hmp : marshalProtected (Hdrs.mk (some (Wire.bstr hw content).bytes)
      ((sortEntries p).map decEntry) (some (mapWire u).bytes)
      ((sortEntries u).map normEntry)) = .ok P :=
    (Verifies.marshalProtected_raw (p := .bstr hw content) rfl
      (C01.decProtected_modelled hdp)).trans (by rw [hPb])
  refine ⟨_, _, hbytes, hwf, hlim, ?_, hacc, rfl, ?_, halg⟩
  · exact ⟨_, _, _, rfl, hdp, hdu, hiv', rfl, rfl, rfl, C01.blen_some_ne hsne⟩
  · exact hmp.trans hP.symm

/-! ### countersignature -/

/-- `countersignToBeSigned` succeeding means the countersigner's protected bytes passed
    `deterministicBinaryString` -/
theorem ctbs_ok_det {abbr : Bool} {parent : Parent} {sp : Bytes} {ext : Option Bytes} {t : Bytes}
    (h : countersignToBeSigned abbr parent sp ext = .ok t) : ∃ sp', detBstr sp = .ok sp' := by
  simp only [countersignToBeSigned] at h
  split at h
  · rename_i bodyProtected payload other heq
    cases hb : detBstr bodyProtected <;> simp only [hb, Out.bind_ok, Out.bind_err, Out.bind_panic,
      Out.bind_unmodelled, reduceCtorEq] at h
    cases hs : detBstr sp <;> simp only [hs, Out.bind_ok, Out.bind_err, Out.bind_panic,
      Out.bind_unmodelled, reduceCtorEq] at h
    exact ⟨_, rfl⟩
  all_goals simp at h

theorem csTbs_ok_inv {cs : SigV} {parent : Parent} {ext : Option Bytes} {t : Bytes}
    (h : Countersignature.toBeSigned cs parent ext = .ok t) :
    ∃ P P', marshalProtected cs.h = .ok P ∧ detBstr P = .ok P' := by
  unfold Countersignature.toBeSigned at h
  cases hP : marshalProtected cs.h with
  | ok P =>
    simp only [hP, bind, Out.bind] at h
    obtain ⟨P', hd⟩ := ctbs_ok_det h
    exact ⟨P, P', rfl, hd⟩
  | err e => simp [hP, bind, Out.bind] at h
  | panic => simp [hP, bind, Out.bind] at h
  | unmodelled => simp [hP, bind, Out.bind] at h

/-- `Countersignature.toBeSigned` looks at the countersignature only through its protected bytes -/
theorem csTbs_congr {a c : SigV} (h : marshalProtected a.h = marshalProtected c.h)
    (parent : Parent) (ext : Option Bytes) :
    Countersignature.toBeSigned a parent ext = Countersignature.toBeSigned c parent ext := by
  unfold Countersignature.toBeSigned
  rw [h]

/-! ### COSE_Sign: the signer entries -/

theorem sigTbs_ok_inv {s : SigV} {bprot : Bytes} {payload ext : Option Bytes} {t : Bytes}
    (h : Signature.toBeSigned s bprot payload ext = .ok t) :
    ∃ bp' P P', detBstr bprot = .ok bp' ∧ marshalProtected s.h = .ok P ∧ detBstr P = .ok P' := by
  unfold Signature.toBeSigned at h
  cases hb : detBstr bprot with
  | ok bp' =>
    cases hP : marshalProtected s.h with
    | ok P =>
      cases hd : detBstr P with
      | ok P' => exact ⟨bp', P, P', rfl, rfl, hd⟩
      | err e => simp [hb, hP, hd, bind, Out.bind] at h
      | panic => simp [hb, hP, hd, bind, Out.bind] at h
      | unmodelled => simp [hb, hP, hd, bind, Out.bind] at h
    | err e => simp [hb, hP, bind, Out.bind] at h
    | panic => simp [hb, hP, bind, Out.bind] at h
    | unmodelled => simp [hb, hP, bind, Out.bind] at h
  | err e => simp [hb, bind, Out.bind] at h
  | panic => simp [hb, bind, Out.bind] at h
  | unmodelled => simp [hb, bind, Out.bind] at h

/-- `Signature.toBeSigned` looks at the signer entry only through its protected bytes -/
theorem sigTbs_congr {a c : SigV} (h : marshalProtected a.h = marshalProtected c.h)
    (bprot : Bytes) (payload ext : Option Bytes) :
    Signature.toBeSigned a bprot payload ext = Signature.toBeSigned c bprot payload ext := by
  unfold Signature.toBeSigned
  rw [h]

/-- the scope for one signer slot: no caller-supplied raw buckets, flat header maps, room for the
    `alg` entry `Sign` may add -/
def FlatSlot (sg : SigV) : Prop :=
  sg.h.rawP = none ∧ sg.h.rawU = none ∧ FlatMap sg.h.p ∧ FlatMap sg.h.u ∧
    (∀ e ∈ sg.h.p, UintOK e.2) ∧ (∀ e ∈ sg.h.u, UintOK e.2) ∧
    sg.h.p.length < maxElems ∧ sg.h.u.length ≤ maxElems

/-- what is assumed of a signer beyond `Matches`: algorithm identifier in Go's `int64` range,
    signatures shorter than 2^64 bytes -/
def GoSigner (s : Signer) : Prop :=
  int64Range s.alg ∧ ∀ t x, s.sign t = .ok x → x.length < 18446744073709551616

/-- one signer slot: what `Signature.Sign` left there is emitted as ONE well-formed
    COSE_Signature tree the per-signer decoder accepts -/
theorem slot_wire (sg : SigV) (s : Signer) (bprot : Bytes) (payload ext : Option Bytes) (b : Bytes)
    (hne : ∀ t x, s.sign t = .ok x → x ≠ []) (hslot : FlatSlot sg) (hgs : GoSigner s)
    (hok : (Signature.sign sg s bprot payload ext).out = .ok ())
    (henc : Signature.marshal (Signature.sign sg s bprot payload ext).state = .ok b) :
    ∃ (x : Wire) (s2 : SigV), b = x.bytes ∧ x.wf = true ∧ x.inLimits false 2 = true ∧
      C05.SigElem x s2 ∧ Same (Signature.sign sg s bprot payload ext).state s2 := by
  obtain ⟨p', tbs, sig, -, -, hgate, ht, hsg, hst⟩ :=
    C01.signature_sign_ok_inv sg s bprot payload ext hok
  obtain ⟨hrp, hru, hfp, hfu, hup, huu, hlp, hlu⟩ := hslot
  obtain ⟨⟨rp, p, ru, u⟩, sg0⟩ := sg
  simp only at hrp hru hfp hfu hup huu hlp hlu hgate ht hst
  subst hrp hru
  rw [hst] at henc ⊢
  obtain ⟨-, P, P', -, hP, hd⟩ := sigTbs_ok_inv ht
  obtain ⟨hfp', hup', hlp', -⟩ := sign_gate_flat hgate hfp hup hgs.1
  obtain ⟨x, s2, hb, hwf, hlim, hel, -, hsame⟩ :=
    sigv_decodes_flat p' u sig b P P' hfp' hfu hup' huu (by omega) hlu (hgs.2 _ _ hsg)
      (hne _ _ hsg) hP hd henc
  exact ⟨x, s2, hb, hwf, hlim 2 (by unfold maxNested; omega), hel, hsame⟩

/-- all signer slots: the concatenation `marshalSigs` emits is the byte sequence of a list of
    well-formed COSE_Signature trees which `decSigList` accepts, entry by entry `Same` -/
theorem marshalSigs_decodes : ∀ (l : List SigV) (ss : Bytes),
    (∀ st ∈ l, ∀ b, Signature.marshal st = .ok b →
      ∃ (x : Wire) (s2 : SigV), b = x.bytes ∧ x.wf = true ∧ x.inLimits false 2 = true ∧
        C05.SigElem x s2 ∧ Same st s2) →
    marshalSigs l = .ok ss →
    ∃ (xs : List Wire) (l2 : List SigV), ss = Wire.bytesList xs ∧ Wire.wfList xs = true ∧
      Wire.inLimitsList false 2 xs = true ∧ decSigList xs = .ok l2 ∧ xs.length = l.length ∧
      l2.length = l.length ∧ ∀ i (h1 : i < l.length) (h2 : i < l2.length), Same l[i] l2[i]
  | [], ss, _, h => by
    simp only [marshalSigs, Out.ok.injEq] at h
    subst h
    exact ⟨[], [], rfl, rfl, rfl, C05.decSigList_nil, rfl, rfl, fun i h1 => absurd h1 (by simp)⟩
  | st :: r, ss, hall, h => by
    unfold marshalSigs at h
    cases ha : Signature.marshal st with
    | ok a =>
      cases hr : marshalSigs r with
      | ok rb =>
        simp only [ha, hr, bind, Out.bind, Out.ok.injEq] at h
        subst h
        obtain ⟨x, s2, hb, hwf, hlim, hel, hsame⟩ := hall st (List.mem_cons_self ..) a ha
        obtain ⟨xs, l2, hbs, hwfs, hlims, hdec, hlx, hl2, hidx⟩ :=
          marshalSigs_decodes r rb (fun t ht => hall t (List.mem_cons_of_mem _ ht)) hr
        refine ⟨x :: xs, s2 :: l2, by simp [Wire.bytesList, hb, hbs], by simp [Wire.wfList, hwf, hwfs],
          by simp [Wire.inLimitsList, hlim, hlims], C09.decSigList_cons_of hel hdec,
          by simp [hlx], by simp [hl2], ?_⟩
        intro i h1 h2
        cases i with
        | zero => simpa using hsame
        | succ j =>
          simp only [List.getElem_cons_succ]
          exact hidx j (by simpa using h1) (by simpa using h2)
      | err e => simp [ha, hr, bind, Out.bind] at h
      | panic => simp [ha, hr, bind, Out.bind] at h
      | unmodelled => simp [ha, hr, bind, Out.bind] at h
    | err e => simp [ha, bind, Out.bind] at h
    | panic => simp [ha, bind, Out.bind] at h
    | unmodelled => simp [ha, bind, Out.bind] at h

/-- what a successful `Sign.marshal` emitted -/
theorem sign_marshal_ok_inv {m : SignMsg} {b : Bytes} (he : Sign.marshal m = .ok b) :
    ∃ P U ss, m.sigs ≠ [] ∧ ensureIV m.h.p m.h.u = true ∧ marshalProtected m.h = .ok P ∧
      marshalUnprotected m.h = .ok U ∧ marshalSigs m.sigs = .ok ss ∧
      b = 0xd8 :: 0x62 :: 0x84 :: (P ++ (U ++ (optBytesEnc m.payload ++
        (encHead 4 m.sigs.length ++ ss)))) := by
  unfold Sign.marshal at he
  split at he
  · cases he
  · rename_i hemp
    have hne : m.sigs ≠ [] := by
      intro hc
      rw [hc] at hemp
      exact hemp rfl
    cases hh : m.h.marshal with
    | ok x =>
      obtain ⟨P, U⟩ := x
      obtain ⟨h1, h2⟩ := C01.hdrs_marshal_ok_inv hh
      cases hs : marshalSigs m.sigs with
      | ok ss =>
        simp only [hh, hs, bind, Out.bind] at he
        exact ⟨P, U, ss, hne, hdrs_marshal_iv hh, h1, h2, rfl, (Out.ok.inj he).symm⟩
      | err e => simp [hh, hs, bind, Out.bind] at he
      | panic => simp [hh, hs, bind, Out.bind] at he
      | unmodelled => simp [hh, hs, bind, Out.bind] at he
    | err e => simp [hh, bind, Out.bind] at he
    | panic => simp [hh, bind, Out.bind] at he
    | unmodelled => simp [hh, bind, Out.bind] at he

/-- the slots after a successful signing loop, by membership -/
theorem signLoop_ok_mem (bprot : Bytes) (payload ext : Option Bytes) (sgs : List SigV)
    (ss : List Signer) (hl : sgs.length = ss.length)
    (hok : (signLoop bprot payload ext sgs ss).2.1 = .ok ()) :
    ∀ st ∈ (signLoop bprot payload ext sgs ss).1,
      ∃ i, ∃ (h1 : i < sgs.length) (h2 : i < ss.length),
        st = (Signature.sign sgs[i] ss[i] bprot payload ext).state ∧
        (Signature.sign sgs[i] ss[i] bprot payload ext).out = .ok () := by
  obtain ⟨hll, hall⟩ := C01.signLoop_ok_inv bprot payload ext sgs ss hl hok
  intro st hst
  obtain ⟨i, hi, rfl⟩ := List.getElem_of_mem hst
  have h1 : i < sgs.length := hll ▸ hi
  have h2 : i < ss.length := hl ▸ h1
  obtain ⟨ha, hb⟩ := hall i h1 h2
  exact ⟨i, h1, h2, ha, hb⟩

/-- the body protected bytes passed `deterministicBinaryString` when the first slot was signed -/
theorem body_det_of_loop (bprot : Bytes) (payload ext : Option Bytes) (sgs : List SigV)
    (ss : List Signer) (hl : sgs.length = ss.length) (hne : sgs ≠ [])
    (hok : (signLoop bprot payload ext sgs ss).2.1 = .ok ()) :
    ∃ bp', detBstr bprot = .ok bp' ∧ bodyProtOK bprot = true := by
  obtain ⟨_, hall⟩ := C01.signLoop_ok_inv bprot payload ext sgs ss hl hok
  have h0 : 0 < sgs.length := List.length_pos_iff.mpr hne
  obtain ⟨-, hout⟩ := hall 0 h0 (hl ▸ h0)
  obtain ⟨p', tbs, sig, -, hb, -, ht, -, -⟩ := C01.signature_sign_ok_inv _ _ _ _ _ hout
  obtain ⟨bp', -, -, hd, -, -⟩ := sigTbs_ok_inv ht
  exact ⟨bp', hd, hb⟩

/-- the COSE_Sign tree the encoder's output is the encoding of -/
def signTree (P U : Wire) (o : Option Bytes) (xs : List Wire) : Wire :=
  .arr .imm [P, U, C09.shortItem o, .arr (HW.shortest xs.length) xs]

theorem signTree_bytes (P U : Wire) (o : Option Bytes) (xs : List Wire) :
    (signTree P U o xs).bytes = 0x84 :: (P.bytes ++ (U.bytes ++ (optBytesEnc o ++
      (encHead 4 xs.length ++ Wire.bytesList xs)))) := by
  rw [signTree, Accept.arr4_bytes, C09.shortItem_bytes]
  rfl

/-- CORE: a COSE_Sign with flat body headers, payload field `o`, and signer entries `l` each of
    which is emitted as a well-formed COSE_Signature tree, is emitted as bytes `Sign.unmarshal`
    ACCEPTS; the decoded message carries payload `o`, re-emits the body protected bytes `P`, and
    its signer entries are `Same` as `l`, position by position -/
theorem signmsg_decodes_flat (p u : GoMap) (o : Option Bytes) (l : List SigV) (b P P' : Bytes)
    (hfp : FlatMap p) (hfu : FlatMap u) (hup : ∀ e ∈ p, UintOK e.2) (huu : ∀ e ∈ u, UintOK e.2)
    (hlp : p.length ≤ maxElems) (hlu : u.length ≤ maxElems)
    (ho : blen o < 18446744073709551616) (hn : l.length ≤ maxElems)
    (hall : ∀ st ∈ l, ∀ b, Signature.marshal st = .ok b →
      ∃ (x : Wire) (s2 : SigV), b = x.bytes ∧ x.wf = true ∧ x.inLimits false 2 = true ∧
        C05.SigElem x s2 ∧ Same st s2)
    (hP : marshalProtected { p := p, u := u } = .ok P) (hd : detBstr P = .ok P')
    (henc : Sign.marshal { h := { p := p, u := u }, payload := o, sigs := l } = .ok b) :
    ∃ m2, Sign.unmarshal b = .ok m2 ∧ m2.payload = o ∧ marshalProtected m2.h = .ok P ∧
      m2.sigs.length = l.length ∧
      ∀ i (h1 : i < l.length) (h2 : i < m2.sigs.length), Same l[i] m2.sigs[i] := by
  obtain ⟨P0, U, ssb, hne, hiv, hP0, hU, hms, hb⟩ := sign_marshal_ok_inv henc
  have hP0' : marshalProtected { p := p, u := u } = .ok P0 := hP0
  rw [hP] at hP0'
  cases hP0'
  simp only at hne hiv hU hms hb
  obtain ⟨hw, content, hPb, hUb, hpwf, huwf, hdp, hdu, hiv', -⟩ :=
    layer_items hfp hfu hup huu hlp hlu hP hd hU hiv
  obtain ⟨xs, l2, hbs, hwfs, hlims, hdec, hlx, hl2, hidx⟩ := marshalSigs_decodes l ssb hall hms
  have hxn : xs ≠ [] := by
    intro hc
    rw [hc] at hlx
    exact hne (List.eq_nil_of_length_eq_zero hlx.symm)
  have hwf : (signTree (.bstr hw content) (mapWire u) o xs).wf = true := by
    have h4 : HW.fits .imm 4 = true := by decide
    have hnf : (HW.shortest xs.length).fits xs.length = true :=
      shortest_fits_elems (by omega)
    simp only [Wire.wf] at hpwf
    simp [signTree, Wire.wf, Wire.wfList, h4, hpwf, huwf, C01.shortItem_wf_of_lt o ho, hnf, hwfs]
  have hlim : (signTree (.bstr hw content) (mapWire u) o xs).inLimits false 0 = true := by
    have hu1 := mapWire_inLimits hlu false 1 (by unfold maxNested; omega)
    have hxl : xs.length ≤ maxElems := by omega
    simp [signTree, Wire.inLimits, Wire.inLimitsList, maxNested, hu1, C09.shortItem_inLimits,
      hlims]
    constructor
    · unfold maxElems; omega
    · exact hxl
  have hpt := parseTop_complete hwf hlim
  have hbytes : b = 0xd8 :: 0x62 :: (signTree (.bstr hw content) (mapWire u) o xs).bytes := by
    rw [hb, signTree_bytes, hPb, hUb, hbs, hlx]
  rw [signTree_bytes] at hpt hbytes
  have hacc := C09.sign_unmarshal_of hpt (C09.shortItem_dec o) hxn hdec
    (C09.decHeaders_of hdp hdu hiv')
  rw [← hbytes] at hacc
  refine ⟨_, hacc, rfl, ?_, hl2, ?_⟩
  · exact (Verifies.marshalProtected_raw (p := .bstr hw content) rfl
      (C01.decProtected_modelled hdp)).trans (by rw [hPb])
  · intro i h1 h2
    exact hidx i h1 h2

end SignWireClosure

namespace C01
open WireClosure SignWireClosure

/-- B. countersignature, END TO END, every parent kind: a countersignature with flat header maps
    that the library signed (on `parent`, with external data `ext`) and encoded is decoded by the
    library, and the decoded countersignature verifies on the same parent under the matching
    verifier with the same external data; it carries the signer's signature.  No hypothesis about
    decoding, the algorithm gate, or the parent. -/
theorem countersignature_wire_flat (cs : SigV) (s : Signer) (v : Verifier) (parent : Parent)
    (ext : Option Bytes) (b : Bytes) (hm : Matches s v)
    (hrp : cs.h.rawP = none) (hru : cs.h.rawU = none)
    (hfp : FlatMap cs.h.p) (hfu : FlatMap cs.h.u)
    (hup : ∀ e ∈ cs.h.p, UintOK e.2) (huu : ∀ e ∈ cs.h.u, UintOK e.2)
    (hlp : cs.h.p.length < maxElems) (hlu : cs.h.u.length ≤ maxElems)
    (halg : int64Range s.alg)
    (hsl : ∀ t sg, s.sign t = .ok sg → sg.length < 18446744073709551616)
    (hok : (Countersignature.sign cs s parent ext).out = .ok ())
    (henc : Signature.marshal (Countersignature.sign cs s parent ext).state = .ok b) :
    ∃ c2, Signature.unmarshal b = .ok c2 ∧ (Countersignature.verify c2 v parent ext).1 = .ok () ∧
      c2.sig = (Countersignature.sign cs s parent ext).state.sig := by
  obtain ⟨p', tbs, sig, hgate, ht, hsg, hst⟩ := countersignature_sign_ok_inv cs s parent ext hok
  obtain ⟨⟨rp, p, ru, u⟩, sg0⟩ := cs
  simp only at hrp hru hfp hfu hup huu hlp hlu hgate ht hst
  subst hrp hru
  rw [hst] at henc ⊢
  obtain ⟨P, P', hP, hd⟩ := csTbs_ok_inv ht
  obtain ⟨hfp', hup', hlp', -⟩ := sign_gate_flat hgate hfp hup halg
  obtain ⟨x, c2, -, -, -, -, hdec, hs2, hP2, ha2⟩ :=
    sigv_decodes_flat p' u sig b P P' hfp' hfu hup' huu (by omega) hlu (hsl _ _ hsg)
      (hm.nonempty _ _ hsg) hP hd henc
  refine ⟨c2, hdec, ?_, hs2⟩
  rw [C03.verifyCsig_iff]
  simp only at hs2 hP2 ha2
  refine ⟨by rw [hs2]; exact blen_some_ne (hm.nonempty _ _ hsg),
    gate_decoded hgate ha2 hm.alg, tbs, ?_, ?_⟩
  · rw [csTbs_congr (c := { h := { p := p', u := u }, sig := sg0 }) hP2]
    exact ht
  · rw [hs2]
    exact hm.correct _ _ hsg

/-- common part of the attached and the detached flow of COSE_Sign: `o` is the payload field that
    is emitted -/
theorem signmsg_wire_flat_core (m : SignMsg) (ext : Option Bytes) (ss : List Signer)
    (vs : List Verifier) (o : Option Bytes) (b : Bytes) (hlen : ss.length = vs.length)
    (hm : ∀ i (h1 : i < ss.length) (h2 : i < vs.length), Matches ss[i] vs[i])
    (hrp : m.h.rawP = none) (hru : m.h.rawU = none)
    (hfp : FlatMap m.h.p) (hfu : FlatMap m.h.u)
    (hup : ∀ e ∈ m.h.p, UintOK e.2) (huu : ∀ e ∈ m.h.u, UintOK e.2)
    (hlp : m.h.p.length ≤ maxElems) (hlu : m.h.u.length ≤ maxElems)
    (hslots : ∀ sg ∈ m.sigs, FlatSlot sg) (hn : m.sigs.length ≤ maxElems)
    (ho : blen o < 18446744073709551616) (hgs : ∀ s ∈ ss, GoSigner s)
    (hok : (Sign.sign m ext ss).out = .ok ())
    (henc : Sign.marshal { (Sign.sign m ext ss).state with payload := o } = .ok b) :
    ∃ m2, Sign.unmarshal b = .ok m2 ∧ m2.payload = o ∧
      (Sign.verify { m2 with payload := m.payload } ext vs).1 = .ok () ∧
      m2.sigs.length = m.sigs.length ∧
      ∀ i (h1 : i < m2.sigs.length) (h2 : i < (Sign.sign m ext ss).state.sigs.length),
        m2.sigs[i].sig = (Sign.sign m ext ss).state.sigs[i].sig := by
  obtain ⟨bprot, hpn, hemp, hl, hb, hloop, hst⟩ := signmsg_sign_ok_inv m ext ss hok
  obtain ⟨hll, hidx⟩ := signLoop_ok_inv bprot m.payload ext m.sigs ss hl hloop
  have hmem := signLoop_ok_mem bprot m.payload ext m.sigs ss hl hloop
  obtain ⟨⟨rp, p, ru, u⟩, pay, sgs⟩ := m
  simp only at hrp hru hfp hfu hup huu hlp hlu hslots hn hpn hemp hl hb hloop hll hidx hmem
  subst hrp hru
  have hsne : sgs ≠ [] := by
    intro hc
    rw [hc] at hemp
    exact absurd hemp (by simp)
  obtain ⟨bp', hd, hbok⟩ := body_det_of_loop bprot pay ext sgs ss hl hsne hloop
  rw [hst] at henc ⊢
  simp only at henc ⊢
  -- every slot is emitted as a tree the per-signer decoder accepts
  have hall : ∀ st ∈ (signLoop bprot pay ext sgs ss).1, ∀ b, Signature.marshal st = .ok b →
      ∃ (x : Wire) (s2 : SigV), b = x.bytes ∧ x.wf = true ∧ x.inLimits false 2 = true ∧
        C05.SigElem x s2 ∧ Same st s2 := by
    intro st hstm bb hbb
    obtain ⟨i, h1, h2, rfl, hout⟩ := hmem st hstm
    exact slot_wire sgs[i] ss[i] bprot pay ext bb (hm i h2 (hlen ▸ h2)).nonempty
      (hslots _ (List.getElem_mem h1)) (hgs _ (List.getElem_mem h2)) hout hbb
  obtain ⟨m2, hdec, hpay, hP2, hl2, hsame⟩ :=
    signmsg_decodes_flat p u o (signLoop bprot pay ext sgs ss).1 b bprot bp' hfp hfu hup huu hlp hlu
      ho (by omega) hall hb hd henc
  refine ⟨m2, hdec, hpay, ?_, by omega, ?_⟩
  · rw [C11.signmsg_verify_iff]
    refine ⟨by cases pay <;> simp_all, ?_, by simp only; omega, bprot, hP2, ?_⟩
    · intro hc
      simp only at hc
      rw [hc] at hl2
      simp only [List.length_nil] at hl2
      exact hsne (List.eq_nil_of_length_eq_zero (by omega))
    · intro i h1 h2
      simp only at h1 ⊢
      have hi : i < sgs.length := by omega
      have hi' : i < ss.length := by omega
      obtain ⟨hsti, hout⟩ := hidx i hi hi'
      obtain ⟨p', tbs, sig, -, -, hgate, ht, hsg, hstate⟩ :=
        signature_sign_ok_inv sgs[i] ss[i] bprot pay ext hout
      obtain ⟨hs2, hmp2, ha2⟩ := hsame i (by omega) h1
      rw [hsti, hstate] at hs2 hmp2 ha2
      simp only at hs2 hmp2 ha2
      have hmi := hm i hi' h2
      have hrpi : sgs[i].h.rawP = none := (hslots _ (List.getElem_mem hi)).1
      rw [hrpi] at hgate
      rw [C03.verifySig_iff]
      refine ⟨by cases pay <;> simp_all, by rw [hs2]; exact blen_some_ne (hmi.nonempty _ _ hsg),
        hbok, gate_decoded hgate ha2 hmi.alg, tbs, ?_, ?_⟩
      · rw [sigTbs_congr (c := { sgs[i] with h := { sgs[i].h with p := p' } }) hmp2]
        exact ht
      · rw [hs2]
        exact hmi.correct _ _ hsg
  · intro i h1 h2
    exact (hsame i h2 h1).1

/-- A. COSE_Sign (any number n ≥ 1 of signers), END TO END: a message with flat header maps in the
    body and in every signer slot that the library signed and encoded is decoded by the library,
    the decoded message verifies under the positionally matching verifiers with the same external
    data, and carries the signed payload, as many signer entries, and the signers' signatures.
    No hypothesis about decoding or the algorithm gate. -/
theorem signmsg_wire_flat (m : SignMsg) (ext : Option Bytes) (ss : List Signer)
    (vs : List Verifier) (b : Bytes) (hlen : ss.length = vs.length)
    (hm : ∀ i (h1 : i < ss.length) (h2 : i < vs.length), Matches ss[i] vs[i])
    (hrp : m.h.rawP = none) (hru : m.h.rawU = none)
    (hfp : FlatMap m.h.p) (hfu : FlatMap m.h.u)
    (hup : ∀ e ∈ m.h.p, UintOK e.2) (huu : ∀ e ∈ m.h.u, UintOK e.2)
    (hlp : m.h.p.length ≤ maxElems) (hlu : m.h.u.length ≤ maxElems)
    (hslots : ∀ sg ∈ m.sigs, FlatSlot sg) (hn : m.sigs.length ≤ maxElems)
    (hpl : blen m.payload < 18446744073709551616) (hgs : ∀ s ∈ ss, GoSigner s)
    (hok : (Sign.sign m ext ss).out = .ok ())
    (henc : Sign.marshal (Sign.sign m ext ss).state = .ok b) :
    ∃ m2, Sign.unmarshal b = .ok m2 ∧ (Sign.verify m2 ext vs).1 = .ok () ∧
      m2.payload = m.payload ∧ m2.sigs.length = m.sigs.length ∧
      ∀ i (h1 : i < m2.sigs.length) (h2 : i < (Sign.sign m ext ss).state.sigs.length),
        m2.sigs[i].sig = (Sign.sign m ext ss).state.sigs[i].sig := by
  obtain ⟨_, -, -, -, -, -, hst⟩ := signmsg_sign_ok_inv m ext ss hok
  have hpayst : (Sign.sign m ext ss).state.payload = m.payload := by rw [hst]
  have henc' : Sign.marshal { (Sign.sign m ext ss).state with payload := m.payload } = .ok b := by
    rw [← hpayst]; exact henc
  obtain ⟨m2, hdec, hpay, hver, hl2, hsigs⟩ :=
    signmsg_wire_flat_core m ext ss vs m.payload b hlen hm hrp hru hfp hfu hup huu hlp hlu hslots
      hn hpl hgs hok henc'
  refine ⟨m2, hdec, ?_, hpay, hl2, hsigs⟩
  obtain ⟨h2, pay2, sg2⟩ := m2
  simp only at hpay
  subst hpay
  exact hver

/-- A'. COSE_Sign with DETACHED payload, END TO END: sign, encode WITHOUT the payload
    (`payload := nil`), decode, put the original payload back, verify.  No bound on the payload. -/
theorem signmsg_wire_detached_flat (m : SignMsg) (ext : Option Bytes) (ss : List Signer)
    (vs : List Verifier) (b : Bytes) (hlen : ss.length = vs.length)
    (hm : ∀ i (h1 : i < ss.length) (h2 : i < vs.length), Matches ss[i] vs[i])
    (hrp : m.h.rawP = none) (hru : m.h.rawU = none)
    (hfp : FlatMap m.h.p) (hfu : FlatMap m.h.u)
    (hup : ∀ e ∈ m.h.p, UintOK e.2) (huu : ∀ e ∈ m.h.u, UintOK e.2)
    (hlp : m.h.p.length ≤ maxElems) (hlu : m.h.u.length ≤ maxElems)
    (hslots : ∀ sg ∈ m.sigs, FlatSlot sg) (hn : m.sigs.length ≤ maxElems)
    (hgs : ∀ s ∈ ss, GoSigner s)
    (hok : (Sign.sign m ext ss).out = .ok ())
    (henc : Sign.marshal { (Sign.sign m ext ss).state with payload := none } = .ok b) :
    ∃ m2, Sign.unmarshal b = .ok m2 ∧
      (Sign.verify { m2 with payload := m.payload } ext vs).1 = .ok () ∧ m2.payload = none ∧
      m2.sigs.length = m.sigs.length := by
  obtain ⟨m2, hdec, hpay, hver, hl2, -⟩ :=
    signmsg_wire_flat_core m ext ss vs none b hlen hm hrp hru hfp hfu hup huu hlp hlu hslots
      hn (by simp [blen]) hgs hok henc
  exact ⟨m2, hdec, hver, hpay, hl2⟩

/-! ### non-vacuity -/

/-- protected `{1: ES256}`, unprotected `{4: h'3131'}` (a kid); nothing retained from a decoder -/
def exHd : Hdrs := { p := [(lbl 1, .alg (-7))], u := [(lbl 4, .bytes [0x31, 0x31])] }

theorem exHd_mpP : marshalProtected exHd = .ok [0x43, 0xa1, 0x01, 0x26] := exF_mpP
theorem exHd_mpU : marshalUnprotected exHd = .ok [0xa1, 0x04, 0x42, 0x31, 0x31] := exF_mpU
theorem exHd_iv : ensureIV exHd.p exHd.u = true := by decide
theorem exHd_gate : ensureSigningAlgorithm exHd.rawP exHd.p (-7) none = .ok exHd.p := by rfl
theorem exHd_marshal : exHd.marshal
    = .ok ([0x43, 0xa1, 0x01, 0x26], [0xa1, 0x04, 0x42, 0x31, 0x31]) := by
  simp [Hdrs.marshal, exHd_iv, exHd_mpP, exHd_mpU, bind, Out.bind]

theorem exHd_flatSlot : FlatSlot { h := exHd } := by
  obtain ⟨h1, h2, h3, h4⟩ := exF_flat
  exact ⟨rfl, rfl, h1, h2, h3, h4, by simp [exHd, maxElems], by simp [exHd, maxElems]⟩

theorem exS7_go : GoSigner exS7 :=
  ⟨by simp [exS7, int64Range], by intro t x h; cases h; simp⟩

/-- a signed COSE_Sign1 as the parent of a countersignature -/
def exPar : Sign1Msg := { h := exHd, payload := some [1, 2, 3], sig := some [7] }

/-- a fresh countersignature with headers `exHd` -/
def exCs : SigV := { h := exHd }

theorem exCs_sign : (Countersignature.sign exCs exS7 (.sign1 exPar) none).out = .ok () ∧
    (Countersignature.sign exCs exS7 (.sign1 exPar) none).state
      = { h := exHd, sig := some [7] } := by
  have hs : exCs.sig = none := rfl
  have hh : exCs.h = exHd := rfl
  have hps : exPar.sig = some [7] := rfl
  have hph : exPar.h = exHd := rfl
  have hpp : exPar.payload = some [1, 2, 3] := rfl
  obtain ⟨t, ht⟩ : ∃ t, Countersignature.toBeSigned { h := exHd, sig := none } (.sign1 exPar) none
      = .ok t := by
    simp [Countersignature.toBeSigned, countersignToBeSigned, exHd_mpP, hps, hph, hpp, blen, ex_det2,
      bind, Out.bind]
  simp [Countersignature.sign, hs, hh, blen, exHd_gate, ht, exS7]

/-- C. non-vacuity of B: every hypothesis of `countersignature_wire_flat` holds for a fresh
    countersignature with headers `exHd` on a signed COSE_Sign1, with the matching pair
    `exS7`/`exV7`; the theorem yields the decoded, verified countersignature -/
example : ∃ b c2, Signature.marshal (Countersignature.sign exCs exS7 (.sign1 exPar) none).state
      = .ok b ∧ Signature.unmarshal b = .ok c2 ∧
    (Countersignature.verify c2 exV7 (.sign1 exPar) none).1 = .ok () ∧ c2.sig = some [7] := by
  have hb : Signature.marshal (Countersignature.sign exCs exS7 (.sign1 exPar) none).state
      = .ok (0x83 :: ([0x43, 0xa1, 0x01, 0x26] ++ ([0xa1, 0x04, 0x42, 0x31, 0x31] ++ encBstr [7]))) := by
    rw [exCs_sign.2]
    simp [Signature.marshal, exHd_marshal, blen, bind, Out.bind]
  obtain ⟨hrp, hru, h1, h2, h3, h4, h5, h6⟩ := exHd_flatSlot
  obtain ⟨c2, hdec, hver, hsig⟩ :=
    countersignature_wire_flat exCs exS7 exV7 (.sign1 exPar) none _ exSV7 hrp hru h1 h2 h3 h4 h5 h6
      exS7_go.1 exS7_go.2 exCs_sign.1 hb
  exact ⟨_, c2, hb, hdec, hver, by rw [hsig, exCs_sign.2]⟩

/-- a COSE_Sign with body headers `exHd` and two empty signer slots with headers `exHd` -/
def exSlotF : SigV := { h := exHd }
def exMsgF : SignMsg := { h := exHd, payload := some [1, 2, 3], sigs := [exSlotF, exSlotF] }

theorem exSlotF_sign :
    (Signature.sign exSlotF exS7 [0x43, 0xa1, 0x01, 0x26] (some [1, 2, 3]) none).out = .ok () ∧
    (Signature.sign exSlotF exS7 [0x43, 0xa1, 0x01, 0x26] (some [1, 2, 3]) none).state
      = { h := exHd, sig := some [7] } := by
  have hs : exSlotF.sig = none := rfl
  have hh : exSlotF.h = exHd := rfl
  obtain ⟨t, ht⟩ : ∃ t, Signature.toBeSigned { h := exHd, sig := none } [0x43, 0xa1, 0x01, 0x26]
      (some [1, 2, 3]) none = .ok t := by
    simp [Signature.toBeSigned, exHd_mpP, ex_det2, bind, Out.bind]
  simp [Signature.sign, hs, hh, blen, bodyProtOK, exHd_gate, ht, exS7]

theorem exMsgF_sign : (Sign.sign exMsgF none [exS7, exS7]).out = .ok () ∧
    (Sign.sign exMsgF none [exS7, exS7]).state =
      { h := exHd, payload := some [1, 2, 3],
        sigs := [{ h := exHd, sig := some [7] }, { h := exHd, sig := some [7] }] } := by
  have hp : exMsgF.payload = some [1, 2, 3] := rfl
  have hh : exMsgF.h = exHd := rfl
  have hsg : exMsgF.sigs = [exSlotF, exSlotF] := rfl
  simp [Sign.sign, hp, hh, hsg, exHd_mpP, signLoop, exSlotF_sign.1, exSlotF_sign.2]

theorem exMsgF_marshal : ∃ b, Sign.marshal (Sign.sign exMsgF none [exS7, exS7]).state = .ok b := by
  rw [exMsgF_sign.2]
  have hsm : Signature.marshal { h := exHd, sig := some [7] }
      = .ok (0x83 :: ([0x43, 0xa1, 0x01, 0x26] ++ ([0xa1, 0x04, 0x42, 0x31, 0x31] ++ encBstr [7]))) := by
    simp [Signature.marshal, exHd_marshal, blen, bind, Out.bind]
  simp [Sign.marshal, marshalSigs, exHd_marshal, hsm, bind, Out.bind]

/-- C. non-vacuity of A with TWO signer slots: every hypothesis of `signmsg_wire_flat` holds for
    `exMsgF` with the matching pairs `exS7`/`exV7`; the theorem yields the decoded message, which
    verifies and carries the payload and two signer entries -/
example : ∃ b m2, Sign.marshal (Sign.sign exMsgF none [exS7, exS7]).state = .ok b ∧
    Sign.unmarshal b = .ok m2 ∧ (Sign.verify m2 none [exV7, exV7]).1 = .ok () ∧
    m2.payload = some [1, 2, 3] ∧ m2.sigs.length = 2 := by
  obtain ⟨b, hb⟩ := exMsgF_marshal
  obtain ⟨-, -, h1, h2, h3, h4, -, -⟩ := exHd_flatSlot
  obtain ⟨m2, hdec, hver, hpay, hl2, -⟩ :=
    signmsg_wire_flat exMsgF none [exS7, exS7] [exV7, exV7] b rfl
      (by
        intro i h1 h2
        have : i = 0 ∨ i = 1 := by simp at h1; omega
        rcases this with rfl | rfl <;> exact exSV7)
      rfl rfl h1 h2 h3 h4 (by simp [exMsgF, exHd, maxElems]) (by simp [exMsgF, exHd, maxElems])
      (by
        intro sg hsg
        simp only [exMsgF, List.mem_cons, List.not_mem_nil, or_false, or_self] at hsg
        subst hsg
        exact exHd_flatSlot)
      (by simp [exMsgF, maxElems]) (by simp [exMsgF, blen])
      (by
        intro s hs
        simp only [List.mem_cons, List.not_mem_nil, or_false, or_self] at hs
        subst hs
        exact exS7_go)
      exMsgF_sign.1 hb
  exact ⟨b, m2, hb, hdec, hver, hpay, hl2⟩

/-! ### why `halg` is needed (B) -/

theorem exCsBig_sign : (Countersignature.sign {} exSbig (.sign1 exPar) none).out = .ok () ∧
    (Countersignature.sign {} exSbig (.sign1 exPar) none).state
      = { h := { p := [(lbl 1, .alg 18446744073709551616)] }, sig := some [7] } := by
  have hg : ensureSigningAlgorithm none [] 18446744073709551616 none
      = .ok [(lbl 1, .alg 18446744073709551616)] := by rfl
  have hps : exPar.sig = some [7] := rfl
  have hph : exPar.h = exHd := rfl
  have hpp : exPar.payload = some [1, 2, 3] := rfl
  obtain ⟨t, ht⟩ : ∃ t, Countersignature.toBeSigned
      { h := { p := [(lbl 1, .alg 18446744073709551616)] }, sig := none } (.sign1 exPar) none
        = .ok t := by
    simp [Countersignature.toBeSigned, countersignToBeSigned, exbig_mpP, exbig_det, exHd_mpP, hps,
      hph, hpp, blen, ex_det2, bind, Out.bind]
  simp [Countersignature.sign, blen, hg, ht, exSbig]

/-- `halg` (the signer's algorithm identifier lies in Go's `int64` range) cannot be dropped from
    `countersignature_wire_flat` either — a modelling artefact exactly as in
    `sign1_wire_flat_needs_halg`: the model's `Int` allows 2^64 (no Go `Algorithm` value does); its
    head wraps to `1b 00…00`, the decoder reads algorithm 0, and the gate refuses the verifier. -/
theorem countersignature_wire_flat_needs_halg :
    Matches exSbig exVbig ∧ (Countersignature.sign {} exSbig (.sign1 exPar) none).out = .ok () ∧
    ∃ b c2, Signature.marshal (Countersignature.sign {} exSbig (.sign1 exPar) none).state = .ok b ∧
      Signature.unmarshal b = .ok c2 ∧ algorithmOf c2.h.p = .found 0 ∧
      (Countersignature.verify c2 exVbig (.sign1 exPar) none).1 = .err .algMismatch := by
  refine ⟨exSVbig, exCsBig_sign.1, ?_⟩
  have hmU : marshalUnprotected { p := [(lbl 1, .alg 18446744073709551616)] } = .ok exU.bytes := by
    simp [marshalUnprotected, GoVal.modelledPairs, encodeBucket, exU_bytes]
  have hb : Signature.marshal (Countersignature.sign {} exSbig (.sign1 exPar) none).state =
      .ok (Wire.arr .imm [exPbig, exU, .bstr .imm [7]]).bytes := by
    rw [exCsBig_sign.2]
    have hiv : ensureIV [(lbl 1, .alg 18446744073709551616)] [] = true := by decide
    simp [Signature.marshal, Hdrs.marshal, exbig_mpP, hmU, hiv, blen, bind, Out.bind]
    decide
  have hdec := C07.wf_signature_accepted_full (p := exPbig) (u := exU) (hw := .imm) (c := [7])
    (by simp [Wire.wf, Wire.wfList, Wire.wfPairs, HW.fits, exPbig, exU])
    (by simp [Wire.inLimits, Wire.inLimitsList, Wire.inLimitsPairs, exPbig, exU, maxNested, maxElems])
    exbig_decP ex_decU (by decide) (by decide)
  refine ⟨_, _, hb, hdec, ?_, ?_⟩
  · simp [algorithmOf, lookupLabel, GoMap.lookup, lbl, GoVal.keyEq]
  · simp [Countersignature.verify, blen, ensureVerificationAlgorithm, algorithmOf,
      lookupLabel, GoMap.lookup, lbl, GoVal.keyEq, exVbig]

/-! ### why `hn` (at most 131072 signer slots) is needed (A) -/

/-- a COSE_Sign with `n` empty signer slots, body and slot headers `exHd` -/
def exMsgN (n : Nat) : SignMsg :=
  { h := exHd, payload := some [1, 2, 3], sigs := List.replicate n exSlotF }

/-- a signed slot -/
def exStF : SigV := { h := exHd, sig := some [7] }

/-- the wire form of a signed slot -/
def exUk : Wire := .map .imm [(.uint .imm 4, .bstr .imm [0x31, 0x31])]
def exX : Wire := .arr .imm [exP, exUk, .bstr .imm [7]]

theorem exStF_marshal : Signature.marshal exStF = .ok exX.bytes := by
  have : exX.bytes = 0x83 :: ([0x43, 0xa1, 0x01, 0x26] ++ ([0xa1, 0x04, 0x42, 0x31, 0x31] ++
      encBstr [7])) := by decide
  rw [this]
  simp [Signature.marshal, exStF, exHd_marshal, blen, bind, Out.bind]

theorem exX_wf : exX.wf = true := by
  simp [exX, exP, exUk, Wire.wf, Wire.wfList, Wire.wfPairs, HW.fits]

theorem signLoop_replicate (bprot : Bytes) (payload ext : Option Bytes) (sg st : SigV) (s : Signer)
    (hout : (Signature.sign sg s bprot payload ext).out = .ok ())
    (hstate : (Signature.sign sg s bprot payload ext).state = st) : ∀ n : Nat,
    (signLoop bprot payload ext (List.replicate n sg) (List.replicate n s)).1
        = List.replicate n st ∧
      (signLoop bprot payload ext (List.replicate n sg) (List.replicate n s)).2.1 = .ok ()
  | 0 => by simp [signLoop]
  | n + 1 => by
    obtain ⟨ih1, ih2⟩ := signLoop_replicate bprot payload ext sg st s hout hstate n
    simp only [List.replicate_succ, signLoop, hout, hstate]
    exact ⟨by rw [ih1], ih2⟩

theorem marshalSigs_replicate (st : SigV) (a : Bytes) (h : Signature.marshal st = .ok a) :
    ∀ n : Nat, marshalSigs (List.replicate n st) = .ok (List.replicate n a).flatten
  | 0 => rfl
  | n + 1 => by
    simp [List.replicate_succ, marshalSigs, h, marshalSigs_replicate st a h n, bind, Out.bind]

theorem bytesList_replicate (x : Wire) : ∀ n : Nat,
    Wire.bytesList (List.replicate n x) = (List.replicate n x.bytes).flatten
  | 0 => rfl
  | n + 1 => by simp [List.replicate_succ, Wire.bytesList, bytesList_replicate x n]

theorem wfList_replicate (x : Wire) (h : x.wf = true) : ∀ n : Nat,
    Wire.wfList (List.replicate n x) = true
  | 0 => rfl
  | n + 1 => by simp [List.replicate_succ, Wire.wfList, h, wfList_replicate x h n]

theorem exMsgN_sign (n : Nat) (hn : 0 < n) :
    (Sign.sign (exMsgN n) none (List.replicate n exS7)).out = .ok () ∧
    (Sign.sign (exMsgN n) none (List.replicate n exS7)).state =
      { h := exHd, payload := some [1, 2, 3], sigs := List.replicate n exStF } := by
  obtain ⟨h1, h2⟩ := signLoop_replicate [0x43, 0xa1, 0x01, 0x26] (some [1, 2, 3]) none exSlotF exStF
    exS7 exSlotF_sign.1 exSlotF_sign.2 n
  have hp : (exMsgN n).payload = some [1, 2, 3] := rfl
  have hh : (exMsgN n).h = exHd := rfl
  have hsg : (exMsgN n).sigs = List.replicate n exSlotF := rfl
  have hne : n ≠ 0 := by omega
  simp only [Sign.sign, hp, hh, hsg, exHd_mpP, h1, h2, List.isEmpty_replicate, List.length_replicate,
    Option.isNone_some, Bool.false_eq_true, if_false, ne_eq, not_true_eq_false, decide_eq_true_eq,
    hne, and_self]

/-- the bytes the encoder emits for `n` signed slots: tag 98, then the tree `signTree …` -/
theorem exMsgN_marshal (n : Nat) (hn : 0 < n) :
    Sign.marshal (Sign.sign (exMsgN n) none (List.replicate n exS7)).state =
      .ok (0xd8 :: 0x62 :: (signTree exP exUk
        (some [1, 2, 3]) (List.replicate n exX)).bytes) := by
  rw [(exMsgN_sign n hn).2, signTree_bytes, bytesList_replicate, List.length_replicate]
  have hne : n ≠ 0 := by omega
  have hU : exUk.bytes = [0xa1, 0x04, 0x42, 0x31, 0x31] := by decide
  simp [Sign.marshal, exHd_marshal, marshalSigs_replicate exStF _ exStF_marshal n, hne, exP_bytes, hU,
    bind, Out.bind]

/-- `hn` cannot be dropped from `signmsg_wire_flat`, and this is REAL library behaviour, not a
    model artefact: the encoder has no limit on the number of signatures, the decoder refuses
    arrays of more than 131072 elements (`MaxArrayElements`).  A COSE_Sign with 131073 signer
    slots satisfies every other hypothesis, is signed and encoded — and the emitted bytes are
    refused by `UnmarshalCBOR`. -/
theorem signmsg_wire_flat_needs_hn :
    (List.replicate (maxElems + 1) exS7).length = (List.replicate (maxElems + 1) exV7).length ∧
    (∀ i (h1 : i < (List.replicate (maxElems + 1) exS7).length)
        (h2 : i < (List.replicate (maxElems + 1) exV7).length),
      Matches ((List.replicate (maxElems + 1) exS7)[i]'h1)
        ((List.replicate (maxElems + 1) exV7)[i]'h2)) ∧
    (∀ sg ∈ (exMsgN (maxElems + 1)).sigs, FlatSlot sg) ∧
    (∀ s ∈ List.replicate (maxElems + 1) exS7, GoSigner s) ∧
    (Sign.sign (exMsgN (maxElems + 1)) none (List.replicate (maxElems + 1) exS7)).out = .ok () ∧
    ∃ b, Sign.marshal (Sign.sign (exMsgN (maxElems + 1)) none
        (List.replicate (maxElems + 1) exS7)).state = .ok b ∧
      ∀ m2, Sign.unmarshal b ≠ .ok m2 := by
  refine ⟨by rw [List.length_replicate, List.length_replicate], ?_, ?_, ?_, (exMsgN_sign _ (by omega)).1, _, exMsgN_marshal _ (by omega), ?_⟩
  · intro i h1 h2
    simp only [List.getElem_replicate]
    exact exSV7
  · intro sg hsg
    obtain rfl := List.eq_of_mem_replicate hsg
    exact exHd_flatSlot
  · intro s hs
    obtain rfl := List.eq_of_mem_replicate hs
    exact exS7_go
  · intro m2 hdec
    obtain ⟨hws, p, u, pl, sgs, hb, -, hwf, -, hlim, -⟩ := C05.sign_accept_envelope_full hdec
    have hwf0 : (signTree exP exUk
        (some [1, 2, 3]) (List.replicate (maxElems + 1) exX)).wf = true := by
      have hfit : (HW.shortest (maxElems + 1)).fits (maxElems + 1) = true :=
        C02.shortest_fits (by unfold maxElems; omega)
      have h4 : HW.fits .imm 4 = true := by decide
      have hP : exP.wf = true := by simp [exP, Wire.wf, HW.fits]
      have hU : exUk.wf = true := by simp [exUk, Wire.wf, Wire.wfPairs, HW.fits]
      have hpl := shortItem_wf_of_lt (some [1, 2, 3]) (by simp [blen])
      simp only [signTree, Wire.wf, Wire.wfList, List.length_replicate, List.length_cons,
        List.length_nil, Nat.zero_add, Nat.reduceAdd, h4, hP, hU, hpl, hfit,
        wfList_replicate exX exX_wf, Bool.and_self]
    have hbytes := (List.cons.inj (List.cons.inj hb).2).2
    have heq := Reencode.bytes_inj hwf0 hwf hbytes
    simp only [signTree, Wire.arr.injEq, List.cons.injEq, and_true] at heq
    obtain ⟨-, -, -, -, -, hsgs⟩ := heq
    simp only [Wire.inLimits, Wire.inLimitsList, Bool.and_eq_true, decide_eq_true_eq] at hlim
    have hlen : sgs.length ≤ maxElems := hlim.2.2.2.2.1.1.2
    rw [← hsgs, List.length_replicate] at hlen
    omega

end C01
