/-
  Deep/Verifies — C07, second sentence: a conforming message that an independent implementation
  of RFC 9052 signed over its wire bytes is not only accepted (Deep/Accept) but VERIFIES:
  the library recomputes exactly the RFC Sig_structure from the bytes it retained.
  * C07: COSE_Sign1 (attached and detached payload), COSE_Signature, COSE_Sign with any number
    of signers.
  * C13: direction symmetry of header validation — whatever the decoder accepted is accepted by
    the encoder's validation as well.
-/
import CoseSpec
import CoseModel.Messages
import CoseProofs.Lemmas.Parse
import CoseProofs.Props.C03
import CoseProofs.Props.C04
import CoseProofs.Props.C07
import CoseProofs.Props.C11
import CoseProofs.Props.C13
import CoseProofs.Deep.Headers
import CoseProofs.Deep.Tbs
import CoseProofs.Deep.Reencode
import CoseProofs.Deep.Accept
import CoseProofs.Deep.SignMsg
import CoseProofs.Deep.Chain
open CoseModel CoseSpec

/-! ### C13 — decode ⇒ encode (unprotected bucket) -/
namespace C13

/-- an unprotected bucket accepted by the decoder passes the encoder's validation -/
theorem decoded_unprot_reencodable (u : Wire) (um : GoMap) (h : decUnprot u = .ok um) :
    validateHeaderParameters um false = true :=
  C05.unprot_accept_rules u um h

end C13

/-! ### helpers -/
namespace Verifies

/-- a header set that retained the bytes of a wire item and whose protected map is in the
    modelled region marshals its protected bucket to exactly those bytes -/
theorem marshalProtected_raw {h : Hdrs} {p : Wire} (hrp : h.rawP = some p.bytes)
    (hm : GoVal.modelledPairs h.p = true) : marshalProtected h = .ok p.bytes := by
  obtain ⟨x, xs, hx⟩ := C09.bytes_cons p
  simp [marshalProtected, hm, hrp, hx, encodeBucket]

/-- the bytes of a well-formed byte-string item are a byte-string encoding of its content -/
theorem isBstrEncoding_of_wf {hw : HW} {content : Bytes} (hwf : (Wire.bstr hw content).wf = true) :
    IsBstrEncoding (Wire.bstr hw content).bytes content :=
  ⟨hw, by simpa [Wire.wf] using hwf, by simp [Wire.bytes]⟩

theorem blen_some_ne {c : Bytes} (hc : c ≠ []) : blen (some c) ≠ 0 := by
  cases c with
  | nil => exact absurd rfl hc
  | cons x xs => simp [blen]

end Verifies

/-! ### C07 — COSE_Sign1 -/
namespace C07

/-- If the signature `c` is valid, under the verifier, over the RFC 9052 Sig_structure built from
    the protected bucket's CONTENT bytes as sent (whatever head width `hwp` the sender used for
    that byte string, however its inner map is encoded), the external data and the payload, then
    the library decodes the message and `Verify` returns nil. -/
theorem wf_sign1_verifies (tagged : Bool) {p u pl : Wire} {hw hwp hwpl : HW}
    {c content payload : Bytes} {pm um : GoMap}
    (hwf : (Wire.arr .imm [p, u, pl, .bstr hw c]).wf = true)
    (hlim : (Wire.arr .imm [p, u, pl, .bstr hw c]).inLimits false 0 = true)
    (hp : decProtected p = .ok pm) (hu : decUnprot u = .ok um) (hiv : ensureIV pm um = true)
    (hpw : p = .bstr hwp content) (hpl : pl = .bstr hwpl payload) (hc : c ≠ [])
    (ext : Option Bytes) (v : Verifier)
    (hgate : ensureVerificationAlgorithm pm v.alg ext = .ok ())
    (hsigned : v.verify (detEnc (sigStructure1 content (ext.getD []) payload)) c = .ok ()) :
    ∃ m, Sign1.unmarshal tagged
        ((if tagged then [0xd2] else []) ++ (Wire.arr .imm [p, u, pl, .bstr hw c]).bytes) = .ok m ∧
      (Sign1.verify m ext v).1 = .ok () := by
  subst hpw hpl
  have hpwf : (Wire.bstr hwp content).wf = true := by
    simp only [Wire.wf, Wire.wfList, Bool.and_eq_true] at hwf
    simpa [Wire.wf] using hwf.2.1
  have henc := Verifies.isBstrEncoding_of_wf hpwf
  have hlen : content.length < 18446744073709551616 :=
    Reencode.fits_lt (by simpa [Wire.wf] using hpwf)
  refine ⟨_, wf_sign1_accepted_full tagged hwf hlim hp hu hiv (.inr ⟨_, _, rfl⟩) hc, ?_⟩
  rw [C03.verify1_iff]
  refine ⟨rfl, Verifies.blen_some_ne hc, hgate, _, ?_, hsigned⟩
  exact C02.tbs1_eq_rfc _ ext _ content payload
    (Verifies.marshalProtected_raw (p := .bstr hwp content) rfl (C01.decProtected_modelled hp))
    henc hlen rfl

end C07
